(** ParamsLemmas: the algebra of the insertion-ordered dictionaries, of
    [utils.flatten] and of [utils.unflatten_and_split] used by the proofs of C10. *)
From LymphModel Require Import Base States Linalg Graph Transition Observation Dist Unilateral Models Params ParamsStatements.
Local Open Scope nat_scope.
Local Open Scope string_scope.
Local Open Scope list_scope.

(** * Strings and paths *)
Lemma str_eqb_eq a b : str_eqb a b = true <-> a = b.
Proof. unfold str_eqb. apply String.eqb_eq. Qed.
Lemma str_eqb_refl a : str_eqb a a = true.
Proof. apply str_eqb_eq. reflexivity. Qed.
Lemma str_eqb_neq a b : a <> b -> str_eqb a b = false.
Proof. intros H. destruct (str_eqb a b) eqn:E; [apply str_eqb_eq in E; contradiction | reflexivity]. Qed.

Lemma path_eqb_eq p q : path_eqb p q = true <-> p = q.
Proof.
  revert q. induction p as [|x p IH]; intros [|y q]; cbn [path_eqb]; split; intros H; try reflexivity; try discriminate.
  - apply andb_true_iff in H. destruct H as [H1 H2]. apply String.eqb_eq in H1. apply IH in H2. congruence.
  - injection H as -> ->. rewrite String.eqb_refl. cbn. apply IH. reflexivity.
Qed.
Lemma path_eqb_refl p : path_eqb p p = true.
Proof. apply path_eqb_eq. reflexivity. Qed.
Lemma path_eqb_neq p q : p <> q -> path_eqb p q = false.
Proof. intros H. destruct (path_eqb p q) eqn:E; [apply path_eqb_eq in E; contradiction | reflexivity]. Qed.
Lemma path_eqb_sym p q : path_eqb p q = path_eqb q p.
Proof.
  destruct (path_eqb p q) eqn:E.
  - apply path_eqb_eq in E. subst. symmetry. apply path_eqb_refl.
  - symmetry. apply path_eqb_neq. intros ->. rewrite path_eqb_refl in E. discriminate.
Qed.

Lemma mem_In s l : mem s l = true <-> In s l.
Proof.
  induction l as [|a l IH]; cbn [mem In]; [split; [discriminate | tauto]|].
  rewrite orb_true_iff, IH, str_eqb_eq. split; intros [H|H]; auto.
Qed.
Lemma mem_false s l : mem s l = false <-> ~ In s l.
Proof. rewrite <- mem_In. destruct (mem s l); split; congruence. Qed.
Lemma nodupb_NoDup l : nodupb l = true <-> NoDup l.
Proof.
  induction l as [|a l IH]; cbn [nodupb]; [split; [constructor | reflexivity]|].
  rewrite andb_true_iff, negb_true_iff, mem_false, IH. split.
  - intros [H1 H2]. constructor; assumption.
  - intros H. inversion H; subst. split; assumption.
Qed.

Lemma NoDup_snoc {A} (l : list A) (a : A) : NoDup l -> ~ In a l -> NoDup (l ++ [a]).
Proof.
  induction l as [|b l IH]; intros Hnd Hni; cbn [app]; [constructor; [intros [] | constructor]|].
  inversion Hnd; subst. constructor.
  - rewrite in_app_iff. cbn [In]. intros [H|[H|[]]]; [contradiction | subst; apply Hni; left; reflexivity].
  - apply IH; [assumption | intros H; apply Hni; right; exact H].
Qed.

(** * Dictionaries *)
Section Dict.
  Context {A : Type}.
  Implicit Types (d src dst : list (path * A)) (k : path) (v : A).

  Lemma kw_get_In_None k d : kw_get k d = None <-> ~ In k (map fst d).
  Proof.
    induction d as [|[k' v'] d IH]; cbn [kw_get map fst In]; [tauto|].
    destruct (path_eqb k k') eqn:E.
    - apply path_eqb_eq in E. subst. split; [discriminate | intros H; exfalso; apply H; left; reflexivity].
    - rewrite IH. split; [intros H [H'|H']; [subst; rewrite path_eqb_refl in E; discriminate | contradiction]
                         | intros H H'; apply H; right; exact H'].
  Qed.
  Lemma kw_get_Some_In k v d : kw_get k d = Some v -> In (k, v) d.
  Proof.
    induction d as [|[k' v'] d IH]; cbn [kw_get]; [discriminate|].
    destruct (path_eqb k k') eqn:E.
    - apply path_eqb_eq in E. subst. intros [= ->]. left. reflexivity.
    - intros H. right. apply IH, H.
  Qed.
  Lemma kw_get_app k d1 d2 :
    kw_get k (d1 ++ d2) = match kw_get k d1 with Some v => Some v | None => kw_get k d2 end.
  Proof.
    induction d1 as [|[k' v'] d1 IH]; cbn [kw_get app]; [reflexivity|].
    destruct (path_eqb k k'); [reflexivity | apply IH].
  Qed.
  Lemma kw_get_NoDup_In k v d : NoDup (map fst d) -> In (k, v) d -> kw_get k d = Some v.
  Proof.
    induction d as [|[k' v'] d IH]; cbn [map fst In kw_get]; [tauto|].
    intros Hnd [H|H].
    - injection H as -> ->. rewrite path_eqb_refl. reflexivity.
    - inversion Hnd as [|? ? Hni Hnd']; subst. destruct (path_eqb k k') eqn:E.
      + apply path_eqb_eq in E. subst. exfalso. apply Hni. apply in_map_iff. exists (k', v). split; [reflexivity | exact H].
      + apply IH; assumption.
  Qed.

  Lemma kw_get_set_same k v d : kw_get k (kw_set k v d) = Some v.
  Proof.
    induction d as [|[k' v'] d IH]; cbn [kw_set kw_get]; [rewrite path_eqb_refl; reflexivity|].
    destruct (path_eqb k k') eqn:E; cbn [kw_get]; [rewrite path_eqb_refl; reflexivity | rewrite E; exact IH].
  Qed.
  Lemma kw_get_set_other k k' v d : k <> k' -> kw_get k (kw_set k' v d) = kw_get k d.
  Proof.
    intros Hne. induction d as [|[k'' v''] d IH]; cbn [kw_set kw_get].
    - rewrite (path_eqb_neq _ _ Hne). reflexivity.
    - destruct (path_eqb k' k'') eqn:E; cbn [kw_get].
      + apply path_eqb_eq in E. subst. rewrite (path_eqb_neq _ _ Hne). reflexivity.
      + destruct (path_eqb k k''); [reflexivity | exact IH].
  Qed.
  Lemma kw_set_fresh k v d : kw_get k d = None -> kw_set k v d = d ++ [(k, v)].
  Proof.
    induction d as [|[k' v'] d IH]; cbn [kw_set kw_get app]; [reflexivity|].
    destruct (path_eqb k k'); [discriminate|]. intros H. rewrite (IH H). reflexivity.
  Qed.
  Lemma kw_set_keys_fresh k v d : kw_get k d = None -> map fst (kw_set k v d) = map fst d ++ [k].
  Proof. intros H. rewrite kw_set_fresh by exact H. rewrite map_app. reflexivity. Qed.
  Lemma kw_set_keys_present k v d : kw_get k d <> None -> map fst (kw_set k v d) = map fst d.
  Proof.
    induction d as [|[k' v'] d IH]; cbn [kw_set kw_get map fst]; [congruence|].
    destruct (path_eqb k k') eqn:E; cbn [map fst].
    - apply path_eqb_eq in E. subst. reflexivity.
    - intros H. rewrite (IH H). reflexivity.
  Qed.
  Lemma kw_set_NoDup k v d : NoDup (map fst d) -> NoDup (map fst (kw_set k v d)).
  Proof.
    intros H. destruct (kw_get k d) eqn:E.
    - rewrite kw_set_keys_present by congruence. exact H.
    - rewrite kw_set_keys_fresh by exact E. apply NoDup_snoc; [exact H | apply kw_get_In_None; exact E].
  Qed.

  Lemma kw_update_nil dst : kw_update [] dst = dst.
  Proof. reflexivity. Qed.
  Lemma kw_update_cons k v src dst : kw_update ((k, v) :: src) dst = kw_update src (kw_set k v dst).
  Proof. reflexivity. Qed.
  Lemma kw_update_app s1 s2 dst : kw_update (s1 ++ s2) dst = kw_update s2 (kw_update s1 dst).
  Proof. unfold kw_update. apply fold_left_app. Qed.
  Lemma kw_update_NoDup src dst : NoDup (map fst dst) -> NoDup (map fst (kw_update src dst)).
  Proof.
    revert dst. induction src as [|[k v] src IH]; intros dst H; [exact H|].
    rewrite kw_update_cons. apply IH, kw_set_NoDup, H.
  Qed.
  Lemma kw_update_fresh src dst :
    NoDup (map fst src) -> (forall k, In k (map fst src) -> ~ In k (map fst dst)) ->
    kw_update src dst = dst ++ src.
  Proof.
    revert dst. induction src as [|[k v] src IH]; intros dst Hnd Hdis.
    - rewrite app_nil_r. reflexivity.
    - rewrite kw_update_cons. inversion Hnd as [|? ? Hni Hnd']; subst.
      rewrite kw_set_fresh by (apply kw_get_In_None, Hdis; left; reflexivity).
      rewrite IH; [rewrite <- app_assoc; reflexivity | exact Hnd' |].
      intros k' Hk'. rewrite map_app, in_app_iff. cbn [map fst In]. intros [H|[H|[]]].
      + apply (Hdis k'); [right; exact Hk' | exact H].
      + subst. contradiction.
  Qed.
  Lemma dict_of_NoDup_id (l : list (path * A)) : NoDup (map fst l) -> dict_of l = l.
  Proof. intros H. unfold dict_of. rewrite kw_update_fresh; [reflexivity | exact H | intros k _ []]. Qed.
  Lemma dict_of_NoDup (l : list (path * A)) : NoDup (map fst (dict_of l)).
  Proof. apply kw_update_NoDup. constructor. Qed.

  (** lookup after an update: the last binding of the source wins *)
  Lemma kw_get_update k src dst :
    kw_get k (kw_update src dst) = match kw_get k (rev src) with Some v => Some v | None => kw_get k dst end.
  Proof.
    revert dst. induction src as [|[k' v'] src IH]; intros dst; [reflexivity|].
    rewrite kw_update_cons, IH. cbn [rev]. rewrite kw_get_app. cbn [kw_get].
    destruct (kw_get k (rev src)); [reflexivity|].
    destruct (path_eqb k k') eqn:E.
    - apply path_eqb_eq in E. subst. apply kw_get_set_same.
    - apply kw_get_set_other. intros ->. rewrite path_eqb_refl in E. discriminate.
  Qed.
  Lemma kw_get_rev_NoDup k d : NoDup (map fst d) -> kw_get k (rev d) = kw_get k d.
  Proof.
    intros Hnd. destruct (kw_get k d) eqn:E.
    - apply kw_get_NoDup_In; [rewrite map_rev; apply NoDup_rev, Hnd | apply in_rev; rewrite rev_involutive; apply kw_get_Some_In, E].
    - apply kw_get_In_None. rewrite map_rev, <- in_rev. apply kw_get_In_None, E.
  Qed.
End Dict.

(** * flatten *)

Lemma pre_nil_path l : pre [] l = l.
Proof. unfold pre. induction l as [|[k v] l IH]; cbn [map]; [reflexivity | rewrite IH; reflexivity]. Qed.
Lemma pre_app p l1 l2 : pre p (l1 ++ l2) = pre p l1 ++ pre p l2.
Proof. apply map_app. Qed.
Lemma pre_pre p q l : pre p (pre q l) = pre (p ++ q) l.
Proof. unfold pre, prefix. rewrite map_map. apply map_ext. intros [k v]. cbn. rewrite app_assoc. reflexivity. Qed.
Lemma pre_keys p l : map fst (pre p l) = map (app p) (map fst l).
Proof. unfold pre, prefix. rewrite !map_map. reflexivity. Qed.
Lemma pre_vals p l : map snd (pre p l) = map snd l.
Proof. unfold pre, prefix. rewrite map_map. reflexivity. Qed.
Lemma pre_length p l : length (pre p l) = length l.
Proof. apply map_length. Qed.

(** [flat_items] by structural induction on trees needs the nested principle *)
Fixpoint ptree_size (t : ptree) : nat :=
  match t with
  | Leaf _ => 1
  | Node cs => S ((fix go (cs : list (path * ptree)) : nat :=
                     match cs with [] => 0 | kc :: r => ptree_size (snd kc) + go r end) cs)
  end.
Definition pdict_size (cs : pdict) : nat := fold_right (fun kc n => ptree_size (snd kc) + n) 0 cs.
Lemma ptree_size_node cs : ptree_size (Node cs) = S (pdict_size cs).
Proof.
  cbn [ptree_size]. f_equal.
Qed.

Lemma pdict_size_cons kc cs : pdict_size (kc :: cs) = ptree_size (snd kc) + pdict_size cs.
Proof. reflexivity. Qed.
Lemma pdict_size_In kc cs : In kc cs -> ptree_size (snd kc) <= pdict_size cs.
Proof.
  induction cs as [|c cs IH]; [intros []|]. rewrite pdict_size_cons. intros [->|H]; [lia | specialize (IH H); lia].
Qed.

Lemma flat_items_node p cs :
  flat_items p (Node cs) = flat_map (fun kc => flat_items (p ++ fst kc) (snd kc)) cs.
Proof. cbn [flat_items]. induction cs as [|kc r IH]; cbn [flat_map]; [reflexivity | rewrite IH; reflexivity]. Qed.

Lemma flat_items_pre p q t : flat_items (p ++ q) t = pre p (flat_items q t).
Proof.
  remember (ptree_size t) as n eqn:Hn. revert p q t Hn.
  induction n as [n IH] using lt_wf_ind. intros p q [v|cs] Hn.
  - reflexivity.
  - rewrite !flat_items_node. rewrite ptree_size_node in Hn. subst n.
    assert (IH' : forall kc, In kc cs -> forall p q, flat_items (p ++ q) (snd kc) = pre p (flat_items q (snd kc))).
    { intros kc Hin p' q'. apply (IH (ptree_size (snd kc))); [|reflexivity].
      pose proof (pdict_size_In _ _ Hin). lia. }
    clear IH. induction cs as [|kc r IHr]; cbn [flat_map]; [reflexivity|].
    rewrite pre_app, <- IHr by (intros; apply IH'; right; assumption).
    f_equal. rewrite <- app_assoc. apply IH'. left. reflexivity.
Qed.

Lemma flat_items_dict_nil : flat_items_dict [] = [].
Proof. reflexivity. Qed.
Lemma flat_items_dict_cons k t d : flat_items_dict ((k, t) :: d) = flat_items k t ++ flat_items_dict d.
Proof. unfold flat_items_dict. rewrite !flat_items_node. reflexivity. Qed.
Lemma flat_items_dict_app d1 d2 : flat_items_dict (d1 ++ d2) = flat_items_dict d1 ++ flat_items_dict d2.
Proof. unfold flat_items_dict. rewrite !flat_items_node. apply flat_map_app. Qed.
Lemma flat_items_key_node k cs : flat_items k (Node cs) = pre k (flat_items_dict cs).
Proof. unfold flat_items_dict. rewrite <- flat_items_pre, app_nil_r. reflexivity. Qed.
Lemma flat_items_dict_leaves l : flat_items_dict (leaves l) = l.
Proof.
  induction l as [|[k v] l IH]; [reflexivity|]. unfold leaves in *. cbn [map fst snd].
  rewrite flat_items_dict_cons, IH. reflexivity.
Qed.
Lemma items_leaves l : items (leaves l) = l.
Proof. induction l as [|[k v] l IH]; [reflexivity|]. unfold leaves in *. cbn [map items fst snd]. rewrite IH. reflexivity. Qed.
Lemma leaves_keys l : map fst (leaves l) = map fst l.
Proof. unfold leaves. rewrite map_map. reflexivity. Qed.
Lemma leaves_app l1 l2 : leaves (l1 ++ l2) = leaves l1 ++ leaves l2.
Proof. apply map_app. Qed.

Lemma flatten_spec d : NoDup (map fst (flat_items_dict d)) -> flatten d = leaves (flat_items_dict d).
Proof. intros H. unfold flatten. apply dict_of_NoDup_id. rewrite leaves_keys. exact H. Qed.
Lemma flatten_leaves l : NoDup (map fst l) -> flatten (leaves l) = leaves l.
Proof. intros H. rewrite flatten_spec; rewrite flat_items_dict_leaves; [reflexivity | exact H]. Qed.
Lemma flatten_keys_NoDup d : NoDup (map fst (flatten d)).
Proof. apply dict_of_NoDup. Qed.

(** every entry of a flattened dict is a leaf *)
Lemma kw_set_leaves (k : path) (v : Qc) (l : list (path * Qc)) :
  kw_set k (Leaf v) (leaves l) = leaves (kw_set k v l).
Proof.
  induction l as [|[k' v'] l IH]; [reflexivity|]. unfold leaves in *. cbn [map kw_set fst snd].
  destruct (path_eqb k k'); cbn [map fst snd]; [reflexivity | rewrite IH; reflexivity].
Qed.
Lemma kw_update_leaves (s l : list (path * Qc)) : kw_update (leaves s) (leaves l) = leaves (kw_update s l).
Proof.
  revert l. induction s as [|[k v] s IH]; intros l; [reflexivity|].
  change (leaves ((k, v) :: s)) with ((k, Leaf v) :: leaves s).
  rewrite !kw_update_cons, kw_set_leaves. apply IH.
Qed.
Lemma flatten_is_leaves d : flatten d = leaves (dict_of (flat_items_dict d)).
Proof. unfold flatten, dict_of. rewrite <- kw_update_leaves. reflexivity. Qed.

(** * String-keyed dictionaries (Graph.dict_get / dict_set) *)
Lemma dict_get_set_same {V} (k : string) (v : V) d : dict_get k (dict_set k v d) = Some v.
Proof.
  induction d as [|[k' v'] d IH]; cbn [dict_set dict_get]; [rewrite str_eqb_refl; reflexivity|].
  destruct (str_eqb k k') eqn:E; cbn [dict_get]; [rewrite str_eqb_refl; reflexivity | rewrite E; exact IH].
Qed.
Lemma dict_get_set_other {V} (k k' : string) (v : V) d : k <> k' -> dict_get k (dict_set k' v d) = dict_get k d.
Proof.
  intros Hne. induction d as [|[k'' v''] d IH]; cbn [dict_set dict_get].
  - rewrite (str_eqb_neq _ _ Hne). reflexivity.
  - destruct (str_eqb k' k'') eqn:E; cbn [dict_get].
    + apply str_eqb_eq in E. subst. rewrite (str_eqb_neq _ _ Hne). reflexivity.
    + destruct (str_eqb k k''); [reflexivity | exact IH].
Qed.

Lemma sub_kwargs_set_same k v d : sub_kwargs k (dict_set k v d) = v.
Proof. unfold sub_kwargs. rewrite dict_get_set_same. reflexivity. Qed.
Lemma sub_kwargs_set_other k k' v d : k <> k' -> sub_kwargs k (dict_set k' v d) = sub_kwargs k d.
Proof. intros H. unfold sub_kwargs. rewrite dict_get_set_other by exact H. reflexivity. Qed.

(** * unflatten_and_split: what an object finally looks up *)
Lemma kw_last_NoDup {A} k (kw : list (path * A)) : NoDup (map fst kw) -> kw_last k kw = kw_get k kw.
Proof. apply kw_get_rev_NoDup. Qed.
Lemma kw_last_nil {A} k : @kw_last A k [] = None.
Proof. reflexivity. Qed.
Lemma kw_last_snoc {A} k k' (v : A) kw :
  kw_last k (kw ++ [(k', v)]) = if path_eqb k k' then Some v else kw_last k kw.
Proof. unfold kw_last. rewrite rev_app_distr. reflexivity. Qed.

Definition unflat_step (expected : list string) (acc : list (string * kwargs) * kwargs) (kv : path * val) :=
  let '(split, glob) := acc in
  let '(hd, tl) := partition_key (fst kv) in
  if mem hd expected
  then (dict_set hd (kw_set tl (snd kv) (sub_kwargs hd split)) split, glob)
  else (split, kw_set (fst kv) (snd kv) glob).
Lemma unflatten_fold kw expected : unflatten_and_split kw expected = fold_left (unflat_step expected) kw ([], []).
Proof. reflexivity. Qed.

Definition unflat_inv (expected : list string) (done : kwargs) (acc : list (string * kwargs) * kwargs) : Prop :=
  (forall k, kw_get k (snd acc) = if mem (head_of k) expected then None else kw_last k done) /\
  (forall name t, kw_get t (sub_kwargs name (fst acc)) = if mem name expected then kw_last (name :: t) done else None) /\
  (forall name, NoDup (map fst (sub_kwargs name (fst acc)))).

Lemma unflat_inv_step expected done acc kv :
  ~ In "" expected -> unflat_inv expected done acc -> unflat_inv expected (done ++ [kv]) (unflat_step expected acc kv).
Proof.
  intros Hemp (Hg & Hs & Hn). destruct acc as [split glob]. destruct kv as [k v]. cbn [fst snd] in *.
  unfold unflat_step. cbn [fst snd]. destruct (partition_key k) as [hd tl] eqn:Epk.
  assert (Hhd : head_of k = hd) by (unfold head_of; rewrite Epk; reflexivity).
  destruct (mem hd expected) eqn:Em; cbn [fst snd].
  - (* goes to the split part *)
    assert (Hk : k = hd :: tl).
    { destruct k as [|h t]; cbn in Epk; injection Epk as <- <-; [|reflexivity].
      exfalso. apply Hemp. apply mem_In. exact Em. }
    subst k. repeat split; cbn [fst snd].
    + intros k'. rewrite Hg, kw_last_snoc. destruct (mem (head_of k') expected) eqn:E'; [reflexivity|].
      rewrite path_eqb_neq; [reflexivity|]. intros ->. unfold head_of in E'. cbn in E'. congruence.
    + intros name t. rewrite kw_last_snoc.
      destruct (string_dec name hd) as [->|Hne].
      * rewrite sub_kwargs_set_same, Em. cbn [path_eqb]. rewrite String.eqb_refl. cbn [andb].
        destruct (path_eqb t tl) eqn:Et.
        -- apply path_eqb_eq in Et. subst. apply kw_get_set_same.
        -- rewrite kw_get_set_other by (intros ->; rewrite path_eqb_refl in Et; discriminate).
           rewrite Hs, Em. reflexivity.
      * rewrite sub_kwargs_set_other by exact Hne. rewrite Hs.
        destruct (mem name expected); [|reflexivity].
        rewrite path_eqb_neq; [reflexivity | congruence].
    + intros name. destruct (string_dec name hd) as [->|Hne].
      * rewrite sub_kwargs_set_same. apply kw_set_NoDup, Hn.
      * rewrite sub_kwargs_set_other by exact Hne. apply Hn.
  - (* goes to the global part *)
    repeat split; cbn [fst snd].
    + intros k'. rewrite kw_last_snoc. destruct (path_eqb k' k) eqn:E.
      * apply path_eqb_eq in E. subst k'. rewrite Hhd, Em. apply kw_get_set_same.
      * rewrite kw_get_set_other by (intros ->; rewrite path_eqb_refl in E; discriminate). apply Hg.
    + intros name t. rewrite Hs, kw_last_snoc. destruct (mem name expected) eqn:E'; [|reflexivity].
      rewrite path_eqb_neq; [reflexivity|]. intros <-. unfold head_of in Hhd. cbn in Hhd. congruence.
    + exact Hn.
Qed.

Lemma unflat_inv_fold expected l : forall done acc,
  ~ In "" expected -> unflat_inv expected done acc ->
  unflat_inv expected (done ++ l) (fold_left (unflat_step expected) l acc).
Proof.
  induction l as [|kv l IH]; intros done acc He Hi; cbn [fold_left].
  - rewrite app_nil_r. exact Hi.
  - replace (done ++ kv :: l) with ((done ++ [kv]) ++ l) by (rewrite <- app_assoc; reflexivity).
    apply IH; [exact He | apply unflat_inv_step; assumption].
Qed.

Lemma unflatten_inv kw expected : ~ In "" expected -> unflat_inv expected kw (unflatten_and_split kw expected).
Proof.
  intros He. rewrite unflatten_fold. change kw with ([] ++ kw) at 1. apply unflat_inv_fold; [exact He|].
  repeat split; cbn [fst snd].
  - intros k. cbn. destruct (mem (head_of k) expected); reflexivity.
  - intros name t. cbn. destruct (mem name expected); reflexivity.
  - intros name. cbn. constructor.
Qed.

Lemma obj_kwargs_lookup kw expected name t split glob :
  ~ In "" expected -> unflatten_and_split kw expected = (split, glob) -> In name expected ->
  kw_get t (obj_kwargs name split glob) = eff expected kw name t.
Proof.
  intros He Hu Hin. pose proof (unflatten_inv kw expected He) as (Hg & Hs & Hn). rewrite Hu in *. cbn [fst snd] in *.
  unfold obj_kwargs, eff. rewrite kw_get_update, kw_get_rev_NoDup by apply Hn.
  rewrite Hs. apply mem_In in Hin. rewrite Hin. destruct (kw_last (name :: t) kw); [reflexivity | apply Hg].
Qed.
(** an object whose name is not expected only sees the global part *)
Lemma obj_kwargs_lookup_absent kw expected name t split glob :
  ~ In "" expected -> unflatten_and_split kw expected = (split, glob) -> ~ In name expected ->
  kw_get t (obj_kwargs name split glob) = if mem (head_of t) expected then None else kw_last t kw.
Proof.
  intros He Hu Hin. pose proof (unflatten_inv kw expected He) as (Hg & Hs & Hn). rewrite Hu in *. cbn [fst snd] in *.
  unfold obj_kwargs. rewrite kw_get_update, kw_get_rev_NoDup by apply Hn.
  rewrite Hs. apply mem_false in Hin. rewrite Hin. apply Hg.
Qed.

Lemma popfirst_eq {A} (l : list A) : popfirst l = (hd_error l, tl l).
Proof. destruct l; reflexivity. Qed.
Lemma tl_skipn {A} (l : list A) n : tl (skipn n l) = skipn (S n) l.
Proof.
  revert l. induction n as [|n IH]; intros l; [destruct l; reflexivity|].
  destruct l as [|x l]; [reflexivity|]. change (tl (skipn n l) = skipn (S n) l). apply IH.
Qed.
Lemma skipn_skipn {A} (l : list A) n m : skipn n (skipn m l) = skipn (m + n) l.
Proof. revert l. induction m as [|m IH]; intros l; cbn [skipn plus]; [reflexivity|]. destruct l; [destruct n; reflexivity | apply IH]. Qed.

Lemma plan_length lk ps a : length (plan lk ps a) = length ps.
Proof. revert a. induction ps as [|[k old] r IH]; intros a; cbn [plan length]; [reflexivity | rewrite IH; reflexivity]. Qed.
Lemma plan_app lk p1 p2 a : plan lk (p1 ++ p2) a = plan lk p1 a ++ plan lk p2 (skipn (length p1) a).
Proof.
  revert a. induction p1 as [|[k old] r IH]; intros a; cbn [plan app length]; [reflexivity|].
  rewrite IH. f_equal. f_equal. destruct a; [destruct (length r); reflexivity | reflexivity].
Qed.
Lemma plan_ext lk1 lk2 ps a : (forall k, In k (map fst ps) -> lk1 k = lk2 k) -> plan lk1 ps a = plan lk2 ps a.
Proof.
  revert a. induction ps as [|[k old] r IH]; intros a H; cbn [plan]; [reflexivity|].
  rewrite H by (left; reflexivity). f_equal. apply IH. intros k' Hk'. apply H. right. exact Hk'.
Qed.
Lemma plan_pre lk p ps a : plan lk (pre p ps) a = plan (fun t => lk (p ++ t)) ps a.
Proof. revert a. induction ps as [|[k old] r IH]; intros a; cbn [plan pre map prefix fst snd]; [reflexivity|]. f_equal. apply IH. Qed.

Lemma all_unit_app l1 l2 :
  all_unit (l1 ++ l2) = match all_unit l1, all_unit l2 with Some a, Some b => Some (a ++ b) | _, _ => None end.
Proof.
  induction l1 as [|v r IH]; cbn [all_unit app].
  - destruct (all_unit l2); reflexivity.
  - rewrite IH. destruct (check_unit v), (all_unit r), (all_unit l2); reflexivity.
Qed.
Lemma all_unit_length l qs : all_unit l = Some qs -> length qs = length l.
Proof.
  revert qs. induction l as [|v r IH]; cbn [all_unit]; intros qs H; [injection H as <-; reflexivity|].
  destruct (check_unit v), (all_unit r) eqn:E; try discriminate. injection H as <-. cbn [length]. rewrite (IH _ eq_refl). reflexivity.
Qed.
Lemma check_unit_V q : in_unit q = true -> check_unit (V q) = Some q.
Proof. intros H. cbn. rewrite H. reflexivity. Qed.
Lemma check_unit_Some v q : check_unit v = Some q -> v = V q /\ in_unit q = true.
Proof. destruct v as [x|]; cbn; [|discriminate]. destruct (in_unit x) eqn:E; [|discriminate]. intros [= ->]. auto. Qed.
Lemma all_unit_vals qs : forallb in_unit qs = true -> all_unit (vals qs) = Some qs.
Proof.
  induction qs as [|x r IH]; cbn [forallb vals map all_unit]; [reflexivity|].
  intros H. apply andb_true_iff in H. destruct H as [H1 H2]. rewrite (check_unit_V _ H1). fold (vals r). rewrite (IH H2). reflexivity.
Qed.
Lemma all_unit_Some_vals l qs : all_unit l = Some qs -> l = vals qs /\ forallb in_unit qs = true.
Proof.
  revert qs. induction l as [|v r IH]; cbn [all_unit]; intros qs H; [injection H as <-; auto|].
  destruct (check_unit v) eqn:Ev, (all_unit r) eqn:Er; try discriminate. injection H as <-.
  apply check_unit_Some in Ev. destruct Ev as [-> Hq]. destruct (IH _ eq_refl) as [-> Hr]. cbn [vals map forallb]. rewrite Hq, Hr. auto.
Qed.

(** * Edges *)
Definition edge_arity (tri : bool) (e : edge) : nat := length (edge_get_params tri e).
Definition edge_put (tri : bool) (e : edge) (qs : list Qc) : edge :=
  match qs with
  | [s] => with_spread e s
  | [s; m] => with_micro (with_spread e s) m
  | _ => e
  end.
Lemma edge_params_cases tri e :
  edge_params tri e = (if is_growth e then [(["growth"], e_spread e)]
                       else if has_micro tri e then [(["spread"], e_spread e); (["micro"], e_micro e)]
                       else [(["spread"], e_spread e)]).
Proof. unfold edge_params, edge_get_params. destruct (is_growth e); [reflexivity|]. destruct (has_micro tri e); reflexivity. Qed.
Lemma growth_no_micro tri e : is_growth e = true -> has_micro tri e = false.
Proof. unfold is_growth, has_micro, is_lnl_spread. destruct (e_kind e); try discriminate. intros _. apply andb_false_r. Qed.

Lemma edge_set_params_ok tri e a kw qs :
  all_unit (plan (fun t => kw_get t kw) (edge_params tri e) a) = Some qs ->
  edge_set_params tri e a kw = (edge_put tri e qs, Some (skipn (length (edge_params tri e)) a)).
Proof.
  rewrite edge_params_cases. unfold edge_set_params. rewrite popfirst_eq.
  destruct (is_growth e) eqn:Eg.
  - rewrite (growth_no_micro tri e Eg). cbn [plan all_unit pick length]. unfold kw_get_or.
    destruct (kw_get ["growth"] kw) as [v|]; cbn [pick];
      (match goal with |- context [check_unit ?x] => destruct (check_unit x) end; [|discriminate]);
      intros [= <-]; destruct a; reflexivity.
  - destruct (has_micro tri e) eqn:Em; cbn [plan all_unit pick length]; unfold kw_get_or; rewrite ?popfirst_eq.
    + destruct (kw_get ["spread"] kw) as [v|]; cbn [pick];
        (match goal with |- context [check_unit ?x] => destruct (check_unit x) end; [|discriminate]);
        destruct (kw_get ["micro"] kw) as [v'|]; cbn [pick];
        (match goal with |- context [check_unit ?x] => destruct (check_unit x) end; [|discriminate]);
        intros [= <-]; cbn [edge_put]; destruct a as [|? [|? ?]]; reflexivity.
    + destruct (kw_get ["spread"] kw) as [v|]; cbn [pick];
        (match goal with |- context [check_unit ?x] => destruct (check_unit x) end; [|discriminate]);
        intros [= <-]; destruct a; reflexivity.
Qed.
Lemma edge_set_params_fail tri e a kw :
  all_unit (plan (fun t => kw_get t kw) (edge_params tri e) a) = None ->
  snd (edge_set_params tri e a kw) = None.
Proof.
  rewrite edge_params_cases. unfold edge_set_params. rewrite popfirst_eq.
  destruct (is_growth e) eqn:Eg.
  - rewrite (growth_no_micro tri e Eg). cbn [plan all_unit pick]. unfold kw_get_or.
    destruct (kw_get ["growth"] kw) as [v|]; cbn [pick];
      (match goal with |- context [check_unit ?x] => destruct (check_unit x) end; [discriminate | reflexivity]).
  - destruct (has_micro tri e) eqn:Em; cbn [plan all_unit pick]; unfold kw_get_or; rewrite ?popfirst_eq.
    + destruct (kw_get ["spread"] kw) as [v|]; cbn [pick];
        (match goal with |- context [check_unit ?x] => destruct (check_unit x) end; [|reflexivity]);
        destruct (kw_get ["micro"] kw) as [v'|]; cbn [pick];
        (match goal with |- context [check_unit ?x] => destruct (check_unit x) end; [discriminate | reflexivity]).
    + destruct (kw_get ["spread"] kw) as [v|]; cbn [pick];
        (match goal with |- context [check_unit ?x] => destruct (check_unit x) end; [discriminate | reflexivity]).
Qed.

(** * Lists of edges *)
Fixpoint edges_put (tri : bool) (sel : edge -> bool) (es : list edge) (qs : list Qc) : list edge :=
  match es with
  | [] => []
  | e :: r =>
      if sel e then
        let k := length (edge_params tri e) in
        edge_put tri e (firstn k qs) :: edges_put tri sel r (skipn k qs)
      else e :: edges_put tri sel r qs
  end.

Lemma edge_params_length_pos tri e : 1 <= length (edge_params tri e) <= 2.
Proof. rewrite edge_params_cases. destruct (is_growth e); [cbn; lia|]. destruct (has_micro tri e); cbn; lia. Qed.

Section SetEdges.
  Variables (tri : bool) (sel : edge -> bool) (split : list (string * kwargs)) (glob : kwargs) (lk : path -> option val).

  Lemma set_edges_for_ok es : forall a qs,
    (forall e t, In e es -> sel e = true -> kw_get t (obj_kwargs (e_name e) split glob) = lk (e_name e :: t)) ->
    all_unit (plan lk (sel_params tri sel es) a) = Some qs ->
    set_edges_for tri sel split glob es a
    = (edges_put tri sel es qs, Some (skipn (length (sel_params tri sel es)) a)).
  Proof.
    induction es as [|e r IH]; intros a qs Hlk Hall.
    - cbn in Hall. injection Hall as <-. reflexivity.
    - cbn [set_edges_for edges_put sel_params flat_map] in *. destruct (sel e) eqn:Es.
      + rewrite plan_app, all_unit_app in Hall. rewrite plan_pre in Hall.
        destruct (all_unit (plan (fun t => lk ([e_name e] ++ t)) (edge_params tri e) a)) as [q1|] eqn:E1; [|discriminate].
        rewrite pre_length in Hall.
        destruct (all_unit (plan lk (flat_map (fun e0 => if sel e0 then pre [e_name e0] (edge_params tri e0) else []) r)
                              (skipn (length (edge_params tri e)) a))) as [q2|] eqn:E2; [|discriminate].
        injection Hall as <-.
        assert (Hk : plan (fun t => kw_get t (obj_kwargs (e_name e) split glob)) (edge_params tri e) a
                     = plan (fun t => lk ([e_name e] ++ t)) (edge_params tri e) a).
        { apply plan_ext. intros k _. apply Hlk; [left; reflexivity | exact Es]. }
        rewrite (edge_set_params_ok tri e a _ q1) by (rewrite Hk; exact E1).
        pose proof (all_unit_length _ _ E1) as Hl1. rewrite plan_length in Hl1.
        rewrite (IH _ q2); [| intros; apply Hlk; [right|]; assumption | exact E2].
        rewrite app_length, pre_length, skipn_skipn.
        rewrite <- Hl1, firstn_app, Nat.sub_diag, firstn_all, firstn_O, app_nil_r.
        rewrite skipn_app, Nat.sub_diag, skipn_all. reflexivity.
      + rewrite (IH _ qs); [reflexivity | intros; apply Hlk; [right|]; assumption | exact Hall].
  Qed.

  Lemma set_edges_for_fail es : forall a,
    (forall e t, In e es -> sel e = true -> kw_get t (obj_kwargs (e_name e) split glob) = lk (e_name e :: t)) ->
    all_unit (plan lk (sel_params tri sel es) a) = None ->
    snd (set_edges_for tri sel split glob es a) = None.
  Proof.
    induction es as [|e r IH]; intros a Hlk Hall.
    - cbn in Hall. discriminate.
    - cbn [set_edges_for sel_params flat_map] in *. destruct (sel e) eqn:Es.
      + rewrite plan_app, all_unit_app, plan_pre, pre_length in Hall.
        assert (Hk : plan (fun t => kw_get t (obj_kwargs (e_name e) split glob)) (edge_params tri e) a
                     = plan (fun t => lk ([e_name e] ++ t)) (edge_params tri e) a).
        { apply plan_ext. intros k _. apply Hlk; [left; reflexivity | exact Es]. }
        destruct (all_unit (plan (fun t => lk ([e_name e] ++ t)) (edge_params tri e) a)) as [q1|] eqn:E1.
        * rewrite (edge_set_params_ok tri e a _ q1) by (rewrite Hk; exact E1).
          destruct (all_unit (plan lk _ (skipn (length (edge_params tri e)) a))) eqn:E2; [discriminate|].
          specialize (IH (skipn (length (edge_params tri e)) a)).
          destruct (set_edges_for tri sel split glob r (skipn (length (edge_params tri e)) a)) as [r' o] eqn:Er.
          cbn [snd] in *. apply IH; [intros; apply Hlk; [right|]; assumption | exact E2].
        * pose proof (edge_set_params_fail tri e a (obj_kwargs (e_name e) split glob)) as Hf.
          rewrite Hk in Hf. specialize (Hf E1).
          destruct (edge_set_params tri e a (obj_kwargs (e_name e) split glob)) as [e' o]. cbn [snd] in Hf. subst o. reflexivity.
      + specialize (IH a). destruct (set_edges_for tri sel split glob r a) as [r' o]. cbn [snd] in *.
        apply IH; [intros; apply Hlk; [right|]; assumption | exact Hall].
  Qed.
End SetEdges.

(** edge_put / edges_put only change the numbers *)
Lemma edge_put_name tri e qs : e_name (edge_put tri e qs) = e_name e.
Proof. destruct qs as [|? [|? [|? ?]]]; reflexivity. Qed.
Lemma edge_put_kind tri e qs : e_kind (edge_put tri e qs) = e_kind e.
Proof. destruct qs as [|? [|? [|? ?]]]; reflexivity. Qed.
Lemma edge_params_keys_kind tri e e' : e_kind e = e_kind e' -> map fst (edge_params tri e) = map fst (edge_params tri e').
Proof.
  intros H. rewrite !edge_params_cases. unfold is_growth, has_micro, is_lnl_spread. rewrite H.
  destruct (e_kind e'), tri; reflexivity.
Qed.
Lemma edge_params_put tri e qs :
  length qs = length (edge_params tri e) ->
  edge_params tri (edge_put tri e qs) = combine (map fst (edge_params tri e)) qs.
Proof.
  rewrite !edge_params_cases. unfold is_growth, has_micro, is_lnl_spread. rewrite edge_put_kind.
  destruct (e_kind e), tri; cbn [length andb]; intros H;
    destruct qs as [|a [|b [|c qs]]]; cbn [length] in H; try discriminate H; reflexivity.
Qed.
Lemma edge_put_own tri e : edge_put tri e (map snd (edge_params tri e)) = e.
Proof.
  rewrite edge_params_cases. destruct (is_growth e); [destruct e; reflexivity|].
  destruct (has_micro tri e); destruct e; reflexivity.
Qed.

Definition kind_sel (sel : edge -> bool) : Prop := forall e e', e_kind e = e_kind e' -> sel e = sel e'.
Lemma kind_sel_tumor : kind_sel is_tumor_spread.
Proof. intros e e' H. unfold is_tumor_spread. rewrite H. reflexivity. Qed.
Lemma kind_sel_lnl : kind_sel sel_lnl.
Proof. intros e e' H. unfold sel_lnl, is_tumor_spread. rewrite H. reflexivity. Qed.
Lemma kind_sel_all : kind_sel sel_all.
Proof. intros e e' H. reflexivity. Qed.

Lemma edges_put_names tri sel es : forall qs, map e_name (edges_put tri sel es qs) = map e_name es.
Proof.
  induction es as [|e r IH]; intros qs; cbn [edges_put map]; [reflexivity|].
  destruct (sel e); cbn [map]; rewrite ?edge_put_name, IH; reflexivity.
Qed.
Lemma edges_put_kinds tri sel es : forall qs, map e_kind (edges_put tri sel es qs) = map e_kind es.
Proof.
  induction es as [|e r IH]; intros qs; cbn [edges_put map]; [reflexivity|].
  destruct (sel e); cbn [map]; rewrite ?edge_put_kind, IH; reflexivity.
Qed.
Lemma edges_put_length tri sel es qs : length (edges_put tri sel es qs) = length es.
Proof. rewrite <- (map_length e_name), edges_put_names, map_length. reflexivity. Qed.

Lemma sel_params_cons tri sel e r :
  sel_params tri sel (e :: r) = (if sel e then pre [e_name e] (edge_params tri e) else []) ++ sel_params tri sel r.
Proof. reflexivity. Qed.
Lemma combine_app {A B} (k1 k2 : list A) (q1 q2 : list B) :
  length k1 = length q1 -> combine (k1 ++ k2) (q1 ++ q2) = combine k1 q1 ++ combine k2 q2.
Proof.
  revert q1. induction k1 as [|k k1 IH]; intros [|q q1] H; cbn [length app combine] in *; try discriminate; [reflexivity|].
  f_equal. apply IH. lia.
Qed.
Lemma combine_pre p (ks : list path) (qs : list Qc) :
  combine (map (app p) ks) qs = pre p (combine ks qs).
Proof.
  revert qs. induction ks as [|k ks IH]; intros [|q qs]; cbn [map combine pre prefix fst snd]; try reflexivity.
  f_equal. apply IH.
Qed.

Lemma sel_params_put tri sel es : kind_sel sel -> forall qs,
  length qs = length (sel_params tri sel es) ->
  sel_params tri sel (edges_put tri sel es qs) = combine (map fst (sel_params tri sel es)) qs.
Proof.
  intros Hk. induction es as [|e r IH]; intros qs Hl.
  - destruct qs; reflexivity.
  - rewrite sel_params_cons in *. cbn [edges_put]. destruct (sel e) eqn:Es; rewrite sel_params_cons.
    + rewrite (Hk (edge_put tri e _) e) by apply edge_put_kind. rewrite Es.
      rewrite app_length, pre_length in Hl.
      rewrite edge_put_name, edge_params_put by (rewrite firstn_length; lia).
      rewrite IH by (rewrite skipn_length; lia).
      rewrite map_app, pre_keys.
      rewrite <- (firstn_skipn (length (edge_params tri e)) qs) at 3.
      rewrite combine_app by (rewrite !map_length, firstn_length; lia).
      rewrite combine_pre. reflexivity.
    + rewrite Es. cbn [app] in *. apply IH. exact Hl.
Qed.

Lemma sel_params_put_other tri sel sel' es : kind_sel sel' -> (forall e, sel e = true -> sel' e = false) ->
  forall qs, sel_params tri sel' (edges_put tri sel es qs) = sel_params tri sel' es.
Proof.
  intros Hk Hdis. induction es as [|e r IH]; intros qs; cbn [edges_put sel_params flat_map]; [reflexivity|].
  destruct (sel e) eqn:Es; cbn [flat_map].
  - rewrite (Hk (edge_put tri e _) e) by apply edge_put_kind. rewrite (Hdis e Es). cbn [app]. apply IH.
  - f_equal. apply IH.
Qed.

Lemma edges_put_own tri sel es : edges_put tri sel es (map snd (sel_params tri sel es)) = es.
Proof.
  induction es as [|e r IH]; [reflexivity|]. rewrite sel_params_cons. cbn [edges_put].
  destruct (sel e); [|cbn [app]; rewrite IH; reflexivity].
  rewrite map_app, pre_vals.
  rewrite firstn_app, skipn_app, !map_length, Nat.sub_diag, firstn_O, app_nil_r.
  rewrite <- (map_length snd (edge_params tri e)), firstn_all, skipn_all. cbn [app skipn].
  rewrite edge_put_own, IH. reflexivity.
Qed.
Lemma edges_put_filter_other tri sel sel' es : kind_sel sel' -> (forall e, sel e = true -> sel' e = false) ->
  forall qs, filter sel' (edges_put tri sel es qs) = filter sel' es.
Proof.
  intros Hk Hdis. induction es as [|e r IH]; intros qs; cbn [edges_put filter]; [reflexivity|].
  destruct (sel e) eqn:Es; cbn [filter].
  - rewrite (Hk (edge_put tri e _) e) by apply edge_put_kind. rewrite (Hdis e Es). apply IH.
  - rewrite IH. reflexivity.
Qed.

(** * Distributions *)
Lemma dist_assign_spec kws : forall a kw,
  dist_assign kws a kw
  = (combine (map fst kws) (plan (fun t => kw_get t kw) (map (fun kv => ([fst kv], snd kv)) kws) a),
     skipn (length kws) a).
Proof.
  induction kws as [|[name value] r IH]; intros a kw; cbn [dist_assign map fst snd plan combine length]; [reflexivity|].
  rewrite popfirst_eq, IH. unfold kw_get_or, pick. f_equal.
  destruct a; [destruct (length r); reflexivity | reflexivity].
Qed.
Lemma all_vals_combine names : forall vs, length names = length vs ->
  all_vals (combine names vs) = option_map (combine names) (unwrap vs).
Proof.
  induction names as [|n names IH]; intros [|v vs] H; cbn [length combine all_vals unwrap] in *; try discriminate; [reflexivity|].
  destruct v as [q|]; [|reflexivity]. rewrite IH by lia. destruct (unwrap vs); reflexivity.
Qed.

Lemma dist_set_params_spec maxt d a kw :
  match dist_put maxt d (plan (fun t => kw_get t kw) (dist_local d) a) with
  | Some d' => dist_set_params maxt d a kw = (d', Some (skipn (length (dist_local d)) a))
  | None => snd (dist_set_params maxt d a kw) = None
  end.
Proof.
  destruct d as [p|f kws]; [reflexivity|].
  cbn [dist_put dist_local dist_set_params]. rewrite dist_assign_spec.
  rewrite all_vals_combine by (rewrite plan_length, !map_length; reflexivity).
  destruct (unwrap _) as [qs|]; cbn [option_map]; [|reflexivity].
  destruct (fam_weights f maxt (combine (map fst kws) qs)); [|reflexivity].
  rewrite map_length. reflexivity.
Qed.

Lemma firstn_app_len {A} (l1 l2 : list A) n : length l1 = n -> firstn n (l1 ++ l2) = l1.
Proof. intros <-. rewrite firstn_app, Nat.sub_diag, firstn_all, firstn_O, app_nil_r. reflexivity. Qed.
Lemma skipn_app_len {A} (l1 l2 : list A) n : length l1 = n -> skipn n (l1 ++ l2) = l2.
Proof. intros <-. rewrite skipn_app, Nat.sub_diag, skipn_all. reflexivity. Qed.

Section SetDists.
  Variables (maxt : nat) (split : list (string * kwargs)) (glob : kwargs) (lk : path -> option val).

  Lemma set_dists_for_spec ds : forall a,
    (forall td t, In td ds -> kw_get t (obj_kwargs (fst td) split glob) = lk (fst td :: t)) ->
    match dists_put maxt ds (plan lk (dists_items ds) a) with
    | Some ds' => set_dists_for maxt split glob ds a = (ds', Some (skipn (length (dists_items ds)) a))
    | None => snd (set_dists_for maxt split glob ds a) = None
    end.
  Proof.
    induction ds as [|[t d] r IH]; intros a Hlk; [reflexivity|].
    cbn [dists_put dists_items flat_map fst snd]. fold (dists_items r).
    rewrite plan_app, plan_pre, pre_length.
    assert (Hk : plan (fun k => lk ([t] ++ k)) (dist_local d) a
                 = plan (fun k => kw_get k (obj_kwargs t split glob)) (dist_local d) a).
    { apply plan_ext. intros k _. symmetry. apply (Hlk (t, d)). left. reflexivity. }
    rewrite Hk.
    rewrite firstn_app_len, skipn_app_len by apply plan_length.
    pose proof (dist_set_params_spec maxt d a (obj_kwargs t split glob)) as Hd.
    specialize (IH (skipn (length (dist_local d)) a) (fun td t' Hin => Hlk td t' (or_intror Hin))).
    cbn [set_dists_for].
    destruct d as [p|f kws].
    - (* frozen: skipped *)
      cbn [dist_put dist_local length skipn] in *.
      destruct (dists_put maxt r (plan lk (dists_items r) a)) as [r'|].
      + rewrite IH. reflexivity.
      + destruct (set_dists_for maxt split glob r a) as [r' o]. cbn [snd] in *. exact IH.
    - destruct (dist_put maxt (Param f kws) _) as [d'|].
      + rewrite Hd. destruct (dists_put maxt r _) as [r'|].
        * rewrite IH, app_length, pre_length, skipn_skipn. reflexivity.
        * destruct (set_dists_for maxt split glob r _) as [r' o]. cbn [snd] in *. exact IH.
      + destruct (dist_set_params maxt (Param f kws) a (obj_kwargs t split glob)) as [d' o]. cbn [snd] in Hd. subst o. reflexivity.
  Qed.
End SetDists.

(** properties of dists_put *)
Lemma unwrap_vals qs : unwrap (vals qs) = Some qs.
Proof. induction qs as [|q r IH]; [reflexivity|]. cbn [vals map unwrap]. fold (vals r). rewrite IH. reflexivity. Qed.
Lemma unwrap_Some l qs : unwrap l = Some qs -> l = vals qs.
Proof.
  revert qs. induction l as [|[q|] r IH]; cbn [unwrap]; intros qs H; try discriminate; [injection H as <-; reflexivity|].
  destruct (unwrap r) eqn:E; [|discriminate]. injection H as <-. rewrite (IH _ eq_refl). reflexivity.
Qed.
Lemma unwrap_app l1 l2 :
  unwrap (l1 ++ l2) = match unwrap l1, unwrap l2 with Some a, Some b => Some (a ++ b) | _, _ => None end.
Proof.
  induction l1 as [|[q|] r IH]; cbn [unwrap app]; [destruct (unwrap l2); reflexivity | | reflexivity].
  rewrite IH. destruct (unwrap r), (unwrap l2); reflexivity.
Qed.
Lemma dist_local_keys_put maxt d new d' : dist_put maxt d new = Some d' -> length new = length (dist_local d) ->
  exists qs, unwrap new = Some qs /\ dist_local d' = combine (map fst (dist_local d)) qs.
Proof.
  destruct d as [p|f kws]; cbn [dist_put dist_local].
  - intros [= <-] H. destruct new; [|discriminate]. exists []. split; reflexivity.
  - destruct (unwrap new) as [qs|] eqn:Eu; [|discriminate].
    destruct (fam_weights f maxt _); [|discriminate]. intros [= <-] Hl. exists qs. split; [reflexivity|].
    cbn [dist_local]. apply unwrap_Some in Eu. subst new. unfold vals in Hl. rewrite !map_length in Hl.
    rewrite map_map. cbn [fst]. clear - Hl. revert qs Hl.
    induction kws as [|[k v] kws IH]; intros [|q qs] Hl; cbn [length map combine fst snd] in *; try discriminate; [reflexivity|].
    f_equal. apply IH. lia.
Qed.
Lemma dists_put_spec maxt ds : forall new ds', dists_put maxt ds new = Some ds' -> length new = length (dists_items ds) ->
  exists qs, unwrap new = Some qs /\ dists_items ds' = combine (map fst (dists_items ds)) qs /\ map fst ds' = map fst ds.
Proof.
  induction ds as [|[t d] r IH]; intros new ds' H Hl.
  - cbn in H. injection H as <-. destruct new; [|discriminate]. exists []. repeat split.
  - cbn [dists_put] in H. cbn [dists_items flat_map fst snd] in *. fold (dists_items r) in *.
    rewrite app_length, pre_length in Hl.
    destruct (dist_put maxt d (firstn (length (dist_local d)) new)) as [d'|] eqn:Ed; [|discriminate].
    destruct (dists_put maxt r (skipn (length (dist_local d)) new)) as [r'|] eqn:Er; [|discriminate].
    injection H as <-.
    destruct (dist_local_keys_put _ _ _ _ Ed) as (q1 & Hu1 & Hd'); [rewrite firstn_length; lia|].
    destruct (IH _ _ Er) as (q2 & Hu2 & Hr' & Hn); [rewrite skipn_length; lia|].
    exists (q1 ++ q2). repeat split.
    + rewrite <- (firstn_skipn (length (dist_local d)) new), unwrap_app, Hu1, Hu2. reflexivity.
    + cbn [dists_items flat_map fst snd]. fold (dists_items r'). rewrite Hd', Hr', map_app, pre_keys.
      apply unwrap_Some in Hu1. assert (Hl1 : length q1 = length (dist_local d)).
      { apply (f_equal (@length _)) in Hu1. unfold vals in Hu1. rewrite map_length, firstn_length in Hu1. lia. }
      rewrite combine_app by (rewrite !map_length; lia). rewrite combine_pre. reflexivity.
    + cbn [map fst]. rewrite Hn. reflexivity.
Qed.

(** * NoDup toolbox *)
Lemma NoDup_app_intro {A} (l1 l2 : list A) :
  NoDup l1 -> NoDup l2 -> (forall x, In x l1 -> ~ In x l2) -> NoDup (l1 ++ l2).
Proof.
  induction l1 as [|a l1 IH]; intros H1 H2 Hd; [exact H2|]. cbn [app]. inversion H1; subst. constructor.
  - rewrite in_app_iff. intros [H|H]; [contradiction | apply (Hd a); [left; reflexivity | exact H]].
  - apply IH; [assumption | assumption | intros x Hx; apply Hd; right; exact Hx].
Qed.
Lemma NoDup_app_l {A} (l1 l2 : list A) : NoDup (l1 ++ l2) -> NoDup l1.
Proof. induction l1 as [|a l1 IH]; intros H; [constructor|]. inversion H; subst. constructor; [rewrite in_app_iff in *; tauto | apply IH; assumption]. Qed.
Lemma NoDup_app_r {A} (l1 l2 : list A) : NoDup (l1 ++ l2) -> NoDup l2.
Proof. induction l1 as [|a l1 IH]; intros H; [exact H|]. inversion H; subst. apply IH. assumption. Qed.
Lemma NoDup_app_disj {A} (l1 l2 : list A) x : NoDup (l1 ++ l2) -> In x l1 -> ~ In x l2.
Proof.
  induction l1 as [|a l1 IH]; intros H Hx; [destruct Hx|]. cbn [app] in H. inversion H; subst. destruct Hx as [Hx|Hx].
  - subst. rewrite in_app_iff in *. tauto.
  - apply IH; assumption.
Qed.
Lemma NoDup_map_inj {A B} (f : A -> B) l : (forall x y, f x = f y -> x = y) -> NoDup l -> NoDup (map f l).
Proof.
  intros Hinj. induction l as [|a l IH]; intros H; [constructor|]. inversion H; subst. cbn [map]. constructor.
  - rewrite in_map_iff. intros (y & Hy & Hin). apply Hinj in Hy. subst. contradiction.
  - apply IH. assumption.
Qed.
Lemma NoDup_map_via {A B C} (f : A -> B) (g : A -> C) l :
  (forall x y, f x = f y -> g x = g y) -> NoDup (map g l) -> NoDup (map f l).
Proof.
  intros Hfg. induction l as [|a l IH]; intros H; [constructor|]. cbn [map] in *. inversion H; subst. constructor.
  - rewrite in_map_iff. intros (y & Hy & Hin). apply Hfg in Hy. match goal with Hn : ~ In _ _ |- _ => apply Hn end.
    rewrite <- Hy. apply in_map, Hin.
  - apply IH. assumption.
Qed.
Lemma NoDup_map_filter_split {A B} (f : A -> B) (p : A -> bool) l :
  NoDup (map f l) -> NoDup (map f (filter p l) ++ map f (filter (fun x => negb (p x)) l)).
Proof.
  induction l as [|a l IH]; intros H; [constructor|]. cbn [map filter] in *. inversion H as [|? ? Hni Hnd]; subst.
  specialize (IH Hnd).
  assert (Hsub : forall q, In (f a) (map f (filter q l)) -> In (f a) (map f l)).
  { intros q Hin. apply in_map_iff in Hin. destruct Hin as (y & Hy & Hin). apply filter_In in Hin. rewrite <- Hy. apply in_map, Hin. }
  destruct (p a); cbn [negb map app].
  - constructor; [|exact IH]. rewrite in_app_iff. intros [Hin|Hin]; apply Hni; eapply Hsub; exact Hin.
  - apply NoDup_app_intro; [apply (NoDup_app_l _ _ IH) | |].
    + constructor; [intros Hin; apply Hni; eapply Hsub; exact Hin | apply (NoDup_app_r _ _ IH)].
    + intros x Hx [Hx'|Hx']; [subst; apply Hni; eapply Hsub; exact Hx | exact (NoDup_app_disj _ _ _ IH Hx Hx')].
Qed.

(** keys grouped by their first component *)
Lemma NoDup_chunks (chunks : list (string * list path)) :
  NoDup (map fst chunks) ->
  (forall c, In c chunks -> NoDup (snd c) /\ forall k, In k (snd c) -> head_of k = fst c) ->
  NoDup (flat_map snd chunks).
Proof.
  induction chunks as [|[h ks] r IH]; intros Hnd Hc; [constructor|]. cbn [flat_map map fst snd] in *.
  inversion Hnd as [|? ? Hni Hnd']; subst. apply NoDup_app_intro.
  - apply (Hc (h, ks)). left. reflexivity.
  - apply IH; [exact Hnd' | intros c Hin; apply Hc; right; exact Hin].
  - intros k Hk Hin. apply in_flat_map in Hin. destruct Hin as (c & Hcin & Hkc).
    apply Hni. apply in_map_iff. exists c. split; [|exact Hcin].
    destruct (Hc c (or_intror Hcin)) as [_ Hh]. destruct (Hc (h, ks) (or_introl eq_refl)) as [_ Hh'].
    rewrite <- (Hh k Hkc). apply (Hh' k Hk).
Qed.

Lemma pre_keys_NoDup p (l : list (path * Qc)) : NoDup (map fst l) -> NoDup (map fst (pre p l)).
Proof. intros H. rewrite pre_keys. apply NoDup_map_inj; [intros x y; apply app_inv_head | exact H]. Qed.

(** * Reading the parameters of a unilateral model *)
Lemma edge_get_params_leaves tri e : edge_get_params tri e = leaves (edge_params tri e).
Proof.
  rewrite edge_params_cases. unfold edge_get_params. destruct (is_growth e); [reflexivity|]. destruct (has_micro tri e); reflexivity.
Qed.
Lemma edge_params_keys_NoDup tri e : NoDup (map fst (edge_params tri e)).
Proof.
  rewrite edge_params_cases. destruct (is_growth e); [repeat constructor; intros []|].
  destruct (has_micro tri e); repeat constructor; cbn; intuition discriminate.
Qed.
Lemma sel_params_filter tri sel es :
  sel_params tri sel es = flat_map (fun e => pre [e_name e] (edge_params tri e)) (filter sel es).
Proof.
  induction es as [|e r IH]; [reflexivity|]. rewrite sel_params_cons. cbn [filter].
  destruct (sel e); cbn [flat_map app]; rewrite IH; reflexivity.
Qed.
Lemma sel_params_all tri es : sel_params tri sel_all es = flat_map (fun e => pre [e_name e] (edge_params tri e)) es.
Proof. induction es as [|e r IH]; [reflexivity|]. rewrite sel_params_cons. cbn [sel_all flat_map]. rewrite IH. reflexivity. Qed.

(** the nested dict of a list of edges *)
Definition edges_nested (tri : bool) (es : list edge) : pdict :=
  map (fun e => ([e_name e], Node (edge_get_params tri e))) es.
Lemma fold_kw_set_edges tri es : forall acc,
  NoDup (map e_name es) -> (forall e, In e es -> kw_get [e_name e] acc = None) ->
  fold_left (fun d e => kw_set [e_name e] (Node (edge_get_params tri e)) d) es acc = acc ++ edges_nested tri es.
Proof.
  induction es as [|e r IH]; intros acc Hnd Hacc; cbn [fold_left edges_nested map]; [rewrite app_nil_r; reflexivity|].
  cbn [map] in Hnd. inversion Hnd as [|? ? Hni Hnd']; subst.
  rewrite kw_set_fresh by (apply Hacc; left; reflexivity).
  rewrite IH; [rewrite <- app_assoc; reflexivity | exact Hnd' |].
  intros e' Hin. rewrite kw_get_app, (Hacc e' (or_intror Hin)). cbn [kw_get].
  rewrite path_eqb_neq; [reflexivity|]. intros [= Heq]. apply Hni. rewrite <- Heq. apply in_map, Hin.
Qed.
Lemma flat_items_edges_nested tri es :
  flat_items_dict (edges_nested tri es) = flat_map (fun e => pre [e_name e] (edge_params tri e)) es.
Proof.
  induction es as [|e r IH]; [reflexivity|]. cbn [edges_nested map flat_map]. rewrite flat_items_dict_cons.
  fold (edges_nested tri r). rewrite IH, flat_items_key_node, edge_get_params_leaves, flat_items_dict_leaves. reflexivity.
Qed.
Lemma edges_flat_keys_NoDup tri es : NoDup (map e_name es) ->
  NoDup (map fst (flat_map (fun e => pre [e_name e] (edge_params tri e)) es)).
Proof.
  intros H.
  replace (map fst (flat_map (fun e => pre [e_name e] (edge_params tri e)) es))
    with (flat_map snd (map (fun e => (e_name e, map fst (pre [e_name e] (edge_params tri e)))) es)).
  - apply NoDup_chunks.
    + rewrite map_map. exact H.
    + intros c Hin. apply in_map_iff in Hin. destruct Hin as (e & <- & _). cbn [fst snd]. split.
      * apply pre_keys_NoDup, edge_params_keys_NoDup.
      * intros k Hk. rewrite pre_keys in Hk. apply in_map_iff in Hk. destruct Hk as (t & <- & _). reflexivity.
  - induction es as [|e r IH]; [reflexivity|]. cbn [map flat_map snd]. rewrite map_app. f_equal.
    apply IH. cbn [map] in H. inversion H; assumption.
Qed.

Lemma edges_get_params_nested tri es : NoDup (map e_name es) -> edges_get_params tri es false = edges_nested tri es.
Proof.
  intros H. unfold edges_get_params, maybe_flatten. rewrite fold_kw_set_edges; [reflexivity | exact H | reflexivity].
Qed.
Lemma edges_get_params_flat tri es : NoDup (map e_name es) ->
  edges_get_params tri es true = leaves (flat_map (fun e => pre [e_name e] (edge_params tri e)) es).
Proof.
  intros H. unfold edges_get_params, maybe_flatten. rewrite fold_kw_set_edges; [| exact H | reflexivity]. cbn [app].
  rewrite flatten_spec; rewrite flat_items_edges_nested; [reflexivity | apply edges_flat_keys_NoDup, H].
Qed.

(** distributions *)
Definition dists_nested (ds : list (string * dist)) : pdict :=
  flat_map (fun td => match snd td with Frozen _ => [] | Param _ kws => [([fst td], Node (dist_kw_dict kws))] end) ds.
Lemma dist_kw_dict_leaves kws : dist_kw_dict kws = leaves (map (fun kv => ([fst kv], snd kv)) kws).
Proof. unfold dist_kw_dict, leaves. rewrite map_map. reflexivity. Qed.
Lemma fold_kw_set_dists ds : forall acc,
  NoDup (map fst ds) -> (forall td, In td ds -> kw_get [fst td] acc = None) ->
  fold_left (fun acc td => match snd td with
                           | Frozen _ => acc
                           | Param _ kws => kw_set [fst td] (Node (dist_kw_dict kws)) acc
                           end) ds acc = acc ++ dists_nested ds.
Proof.
  induction ds as [|[t d] r IH]; intros acc Hnd Hacc; cbn [fold_left dists_nested flat_map fst snd]; [rewrite app_nil_r; reflexivity|].
  cbn [map fst] in Hnd. inversion Hnd as [|? ? Hni Hnd']; subst. fold (dists_nested r).
  destruct d as [p|f kws].
  - cbn [app]. apply IH; [exact Hnd' | intros td Hin; apply Hacc; right; exact Hin].
  - rewrite kw_set_fresh by (apply (Hacc (t, Param f kws)); left; reflexivity).
    rewrite IH; [rewrite <- app_assoc; reflexivity | exact Hnd' |].
    intros td Hin. rewrite kw_get_app, (Hacc td (or_intror Hin)). cbn [kw_get].
    rewrite path_eqb_neq; [reflexivity|]. intros [= Heq]. apply Hni. rewrite <- Heq. apply in_map, Hin.
Qed.
Lemma flat_items_dists_nested ds : flat_items_dict (dists_nested ds) = dists_items ds.
Proof.
  induction ds as [|[t d] r IH]; [reflexivity|]. cbn [dists_nested dists_items flat_map fst snd].
  fold (dists_nested r). fold (dists_items r). rewrite flat_items_dict_app, IH. f_equal.
  destruct d as [p|f kws]; [reflexivity|]. cbn [dist_local].
  rewrite flat_items_dict_cons, flat_items_key_node, dist_kw_dict_leaves, flat_items_dict_leaves, app_nil_r. reflexivity.
Qed.
Lemma dists_items_keys_NoDup ds : NoDup (map fst ds) -> dist_keys_ok ds = true -> NoDup (map fst (dists_items ds)).
Proof.
  intros H Hk.
  replace (map fst (dists_items ds))
    with (flat_map snd (map (fun td => (fst td, map fst (pre [fst td] (dist_local (snd td))))) ds)).
  - apply NoDup_chunks.
    + rewrite map_map. exact H.
    + intros c Hin. apply in_map_iff in Hin. destruct Hin as (td & <- & Hin). cbn [fst snd]. split.
      * apply pre_keys_NoDup. unfold dist_keys_ok in Hk. rewrite forallb_forall in Hk. specialize (Hk td Hin).
        destruct (snd td) as [p|f kws]; cbn [dist_local]; [constructor|].
        rewrite map_map. cbn [fst]. apply nodupb_NoDup in Hk.
        apply (NoDup_map_via _ fst); [intros x y [= Hxy]; exact Hxy | exact Hk].
      * intros k Hk'. rewrite pre_keys in Hk'. apply in_map_iff in Hk'. destruct Hk' as (t & <- & _). reflexivity.
  - clear. induction ds as [|td r IH]; [reflexivity|]. cbn [map flat_map snd dists_items]. rewrite map_app. f_equal. apply IH.
Qed.
Lemma dists_get_params_nested ds : NoDup (map fst ds) -> dists_get_params ds false = dists_nested ds.
Proof. intros H. unfold dists_get_params, maybe_flatten. rewrite fold_kw_set_dists; [reflexivity | exact H | reflexivity]. Qed.
Lemma dists_get_params_flat ds : NoDup (map fst ds) -> dist_keys_ok ds = true ->
  dists_get_params ds true = leaves (dists_items ds).
Proof.
  intros H Hk. unfold dists_get_params, maybe_flatten. rewrite fold_kw_set_dists; [| exact H | reflexivity]. cbn [app].
  rewrite flatten_spec; rewrite flat_items_dists_nested; [reflexivity | apply dists_items_keys_NoDup; assumption].
Qed.

Lemma map_flat_map' {A B C} (f : B -> C) (g : A -> list B) l : map f (flat_map g l) = flat_map (fun x => map f (g x)) l.
Proof. induction l as [|a l IH]; [reflexivity|]. cbn [flat_map]. rewrite map_app, IH. reflexivity. Qed.

(** shape of the distributions after a successful update *)
Lemma map_fst_combine {A B} (l : list A) (l' : list B) : length l = length l' -> map fst (combine l l') = l.
Proof. revert l'. induction l as [|a l IH]; intros [|b l'] H; cbn in *; try discriminate; [reflexivity|]. f_equal. apply IH. lia. Qed.
Lemma map_snd_combine {A B} (l : list A) (l' : list B) : length l = length l' -> map snd (combine l l') = l'.
Proof. revert l'. induction l as [|a l IH]; intros [|b l'] H; cbn in *; try discriminate; [reflexivity|]. f_equal. apply IH. lia. Qed.
Lemma unwrap_length l qs : unwrap l = Some qs -> length qs = length l.
Proof. intros H. apply unwrap_Some in H. subst. unfold vals. rewrite map_length. reflexivity. Qed.

Lemma dists_put_shape maxt ds : forall new ds', dists_put maxt ds new = Some ds' -> length new = length (dists_items ds) ->
  dist_kw_names ds' = dist_kw_names ds /\ dist_keys_ok ds' = dist_keys_ok ds
  /\ forallb (fun td => dist_valid maxt (snd td)) ds' = true.
Proof.
  induction ds as [|[t d] r IH]; intros new ds' H Hl.
  - cbn in H. injection H as <-. repeat split.
  - cbn [dists_put] in H. cbn [dists_items flat_map fst snd] in Hl. fold (dists_items r) in Hl.
    rewrite app_length, pre_length in Hl.
    destruct (dist_put maxt d (firstn (length (dist_local d)) new)) as [d'|] eqn:Ed; [|discriminate].
    destruct (dists_put maxt r (skipn (length (dist_local d)) new)) as [r'|] eqn:Er; [|discriminate].
    injection H as <-. destruct (IH _ _ Er) as (H1 & H2 & H3); [rewrite skipn_length; lia|].
    unfold dist_kw_names, dist_keys_ok in *. cbn [flat_map forallb fst snd]. rewrite H1, H2, H3.
    destruct d as [p|f kws]; cbn [dist_put dist_local] in Ed.
    + injection Ed as <-. repeat split.
    + destruct (unwrap _) as [qs|] eqn:Eu; [|discriminate].
      destruct (fam_weights f maxt (combine (map fst kws) qs)) eqn:Ef; [|discriminate]. injection Ed as <-.
      assert (Hq : length (map fst kws) = length qs).
      { apply unwrap_length in Eu. cbn [dist_local] in Hl. rewrite map_length in Hl.
        rewrite firstn_length, !map_length in Eu. rewrite map_length. lia. }
      cbn [dist_valid]. rewrite Ef, (map_fst_combine _ _ Hq). repeat split.
Qed.

(** range of the edges after a successful update *)
Definition edge_vals_ok (e : edge) : bool := in_unit (e_spread e) && in_unit (e_micro e).
Lemma edge_put_vals_ok tri e qs : edge_vals_ok e = true -> forallb in_unit qs = true -> edge_vals_ok (edge_put tri e qs) = true.
Proof.
  unfold edge_vals_ok. intros He Hq. apply andb_true_iff in He. destruct He as [H1 H2].
  destruct qs as [|a [|b [|c qs]]]; cbn [edge_put with_spread with_micro e_spread e_micro forallb] in *;
    rewrite ?andb_true_iff in *; intuition.
Qed.
Lemma forallb_firstn {A} (f : A -> bool) n l : forallb f l = true -> forallb f (firstn n l) = true.
Proof. revert l. induction n as [|n IH]; intros [|a l]; cbn; try reflexivity. rewrite !andb_true_iff. intros [H1 H2]. auto. Qed.
Lemma forallb_skipn {A} (f : A -> bool) n l : forallb f l = true -> forallb f (skipn n l) = true.
Proof. revert l. induction n as [|n IH]; intros [|a l]; cbn; try reflexivity; try tauto. rewrite !andb_true_iff. intros [H1 H2]. auto. Qed.
Lemma edges_put_vals_ok tri sel es : forall qs, forallb edge_vals_ok es = true -> forallb in_unit qs = true ->
  forallb edge_vals_ok (edges_put tri sel es qs) = true.
Proof.
  induction es as [|e r IH]; intros qs He Hq; [reflexivity|]. cbn [edges_put forallb] in *.
  apply andb_true_iff in He. destruct He as [H1 H2]. destruct (sel e); cbn [forallb]; apply andb_true_iff; split.
  - apply edge_put_vals_ok; [exact H1 | apply forallb_firstn, Hq].
  - apply IH; [exact H2 | apply forallb_skipn, Hq].
  - exact H1.
  - apply IH; assumption.
Qed.

(** * Extensionality: the setters only look keywords up *)
Lemma edge_set_params_ext tri e a kw1 kw2 :
  (forall t, In t (map fst (edge_params tri e)) -> kw_get t kw1 = kw_get t kw2) ->
  edge_set_params tri e a kw1 = edge_set_params tri e a kw2.
Proof.
  rewrite edge_params_cases. intros H. unfold edge_set_params, kw_get_or.
  destruct (is_growth e) eqn:Eg.
  - rewrite (growth_no_micro tri e Eg). rewrite (H ["growth"]) by (cbn; tauto). reflexivity.
  - destruct (has_micro tri e).
    + rewrite (H ["spread"]), (H ["micro"]) by (cbn; tauto). reflexivity.
    + rewrite (H ["spread"]) by (cbn; tauto). reflexivity.
Qed.
Lemma set_edges_for_ext tri sel s1 g1 s2 g2 es : forall a,
  (forall e t, In e es -> sel e = true -> In t (map fst (edge_params tri e)) ->
     kw_get t (obj_kwargs (e_name e) s1 g1) = kw_get t (obj_kwargs (e_name e) s2 g2)) ->
  set_edges_for tri sel s1 g1 es a = set_edges_for tri sel s2 g2 es a.
Proof.
  induction es as [|e r IH]; intros a H; [reflexivity|]. cbn [set_edges_for]. destruct (sel e) eqn:Es.
  - rewrite (edge_set_params_ext tri e a _ (obj_kwargs (e_name e) s2 g2)) by (intros t Ht; apply H; [left; reflexivity | exact Es | exact Ht]).
    destruct (edge_set_params tri e a (obj_kwargs (e_name e) s2 g2)) as [e' [a'|]]; [|reflexivity].
    rewrite (IH a') by (intros; apply H; [right|..]; assumption). reflexivity.
  - rewrite (IH a) by (intros; apply H; [right|..]; assumption). reflexivity.
Qed.
(** the setters never change names or kinds, whether they raise or not *)
Definition shape (es : list edge) : list (string * ekind) := map (fun e => (e_name e, e_kind e)) es.
Lemma edge_set_params_shape tri e a kw :
  e_name (fst (edge_set_params tri e a kw)) = e_name e /\ e_kind (fst (edge_set_params tri e a kw)) = e_kind e.
Proof.
  unfold edge_set_params. destruct (popfirst a) as [f a1]. destruct (check_unit _); [|split; reflexivity].
  destruct (has_micro tri e); [|split; reflexivity]. destruct (popfirst a1) as [f2 a2]. destruct (check_unit _); split; reflexivity.
Qed.
Lemma set_edges_for_shape tri sel s g es : forall a, shape (fst (set_edges_for tri sel s g es a)) = shape es.
Proof.
  induction es as [|e r IH]; intros a; [reflexivity|]. cbn [set_edges_for]. destruct (sel e).
  - pose proof (edge_set_params_shape tri e a (obj_kwargs (e_name e) s g)) as [Hn Hk].
    destruct (edge_set_params tri e a (obj_kwargs (e_name e) s g)) as [e' [a'|]]; cbn [fst] in *.
    + specialize (IH a'). destruct (set_edges_for tri sel s g r a') as [r' o]. cbn [fst shape map] in *. rewrite Hn, Hk. f_equal. exact IH.
    + cbn [shape map]. rewrite Hn, Hk. reflexivity.
  - specialize (IH a). destruct (set_edges_for tri sel s g r a) as [r' o]. cbn [fst shape map] in *. f_equal. exact IH.
Qed.
Lemma shape_names es es' : shape es = shape es' -> map e_name es = map e_name es'.
Proof. unfold shape. intros H. apply (f_equal (map fst)) in H. rewrite !map_map in H. exact H. Qed.
Lemma shape_sel_keys tri sel es : kind_sel sel -> forall es', shape es = shape es' ->
  map fst (sel_params tri sel es) = map fst (sel_params tri sel es').
Proof.
  intros Hk. induction es as [|e r IH]; intros [|e' r'] H; cbn [shape map] in H; try discriminate; [reflexivity|].
  injection H as Hn Hkd Hr. rewrite !sel_params_cons, !map_app. rewrite (IH r' Hr), (Hk e e' Hkd), Hn.
  destruct (sel e'); [|reflexivity]. rewrite !pre_keys, (edge_params_keys_kind tri e e' Hkd). reflexivity.
Qed.
Lemma shape_filter_names sel es : kind_sel sel -> forall es', shape es = shape es' ->
  map e_name (filter sel es) = map e_name (filter sel es').
Proof.
  intros Hk. induction es as [|e r IH]; intros [|e' r'] H; cbn [shape map] in H; try discriminate; [reflexivity|].
  injection H as Hn Hkd Hr. cbn [filter]. rewrite (Hk e e' Hkd). destruct (sel e'); cbn [map]; rewrite ?Hn, (IH r' Hr); reflexivity.
Qed.
Lemma dist_assign_ext kws : forall a kw1 kw2,
  (forall s, In s (map fst kws) -> kw_get [s] kw1 = kw_get [s] kw2) -> dist_assign kws a kw1 = dist_assign kws a kw2.
Proof.
  induction kws as [|[n v] r IH]; intros a kw1 kw2 H; [reflexivity|]. cbn [dist_assign]. unfold kw_get_or.
  rewrite (H n) by (left; reflexivity). destruct (popfirst a) as [first a'].
  rewrite (IH a' kw1 kw2) by (intros s Hs; apply H; right; exact Hs). reflexivity.
Qed.
Lemma dist_set_params_ext maxt d a kw1 kw2 :
  (forall s, In s (map fst (match d with Param _ kws => kws | Frozen _ => [] end)) -> kw_get [s] kw1 = kw_get [s] kw2) ->
  dist_set_params maxt d a kw1 = dist_set_params maxt d a kw2.
Proof. intros H. destruct d as [p|f kws]; [reflexivity|]. cbn [dist_set_params]. rewrite (dist_assign_ext kws a kw1 kw2 H). reflexivity. Qed.
Lemma set_dists_for_ext maxt s1 g1 s2 g2 ds : forall a,
  (forall td s, In td ds -> In s (dist_kw_names [td]) ->
     kw_get [s] (obj_kwargs (fst td) s1 g1) = kw_get [s] (obj_kwargs (fst td) s2 g2)) ->
  set_dists_for maxt s1 g1 ds a = set_dists_for maxt s2 g2 ds a.
Proof.
  induction ds as [|[t d] r IH]; intros a H; [reflexivity|]. cbn [set_dists_for]. destruct d as [p|f kws].
  - rewrite (IH a) by (intros; apply H; [right|]; assumption). reflexivity.
  - rewrite (dist_set_params_ext maxt (Param f kws) a _ (obj_kwargs t s2 g2)).
    + destruct (dist_set_params maxt (Param f kws) a (obj_kwargs t s2 g2)) as [d' [a'|]]; [|reflexivity].
      rewrite (IH a') by (intros; apply H; [right|]; assumption). reflexivity.
    + intros s Hs. apply (H (t, Param f kws)); [left; reflexivity|]. unfold dist_kw_names. cbn [flat_map snd]. rewrite app_nil_r. exact Hs.
Qed.

(** * plan: special cases *)
Lemma plan_no_kw lk ps : forall v rest, (forall k, In k (map fst ps) -> lk k = None) -> length v = length ps ->
  plan lk ps (map V v ++ rest) = map V v.
Proof.
  induction ps as [|[k old] r IH]; intros [|x v] rest H Hl; cbn [length] in Hl; try discriminate; [reflexivity|].
  cbn [plan map app hd_error tl]. rewrite (H k) by (left; reflexivity). cbn [pick val_or]. f_equal.
  apply IH; [intros k' Hk'; apply H; right; exact Hk' | lia].
Qed.
Lemma plan_all_kw lk ps : forall a vs, length vs = length ps ->
  (forall k v, In (k, v) (combine (map fst ps) vs) -> lk k = Some v) -> plan lk ps a = vs.
Proof.
  induction ps as [|[k old] r IH]; intros a [|x vs] Hl H; cbn [length] in Hl; try discriminate; [reflexivity|].
  cbn [plan]. cbn [map fst combine] in H. rewrite (H k x) by (left; reflexivity). cbn [pick]. f_equal.
  apply IH; [lia | intros k' v' Hin; apply H; right; exact Hin].
Qed.
Lemma plan_In lk ps : forall a qs k q, plan lk ps a = map V qs -> In k (map fst ps) -> lk k = Some (V q) ->
  In (k, q) (combine (map fst ps) qs).
Proof.
  induction ps as [|[k' old] r IH]; intros a qs k q Hp Hin Hlk; [destruct Hin|].
  cbn [plan] in Hp. destruct qs as [|x qs]; [discriminate|]. cbn [map] in Hp. injection Hp as Hx Hp.
  cbn [map fst combine]. cbn [map fst] in Hin. destruct Hin as [->|Hin].
  - left. rewrite Hlk in Hx. cbn [pick] in Hx. injection Hx as ->. reflexivity.
  - right. exact (IH _ _ _ _ Hp Hin Hlk).
Qed.

Lemma sel_params_heads tri sel es k : In k (map fst (sel_params tri sel es)) ->
  exists e s, In e es /\ sel e = true /\ k = [e_name e; s] /\ In s ["spread"; "growth"; "micro"].
Proof.
  unfold sel_params. rewrite map_flat_map'. intros H. apply in_flat_map in H. destruct H as (e & He & Hk).
  destruct (sel e) eqn:Es; [|destruct Hk]. rewrite pre_keys in Hk. apply in_map_iff in Hk. destruct Hk as (t & <- & Ht).
  rewrite edge_params_cases in Ht. exists e.
  destruct (is_growth e); [|destruct (has_micro tri e)]; cbn in Ht;
    repeat (destruct Ht as [<-|Ht]; [eexists; repeat split; try eassumption; cbn; auto|]); destruct Ht.
Qed.
Lemma dists_items_heads ds k : In k (map fst (dists_items ds)) ->
  exists t s, In t (map fst ds) /\ k = [t; s] /\ In s (dist_kw_names ds).
Proof.
  unfold dists_items, dist_kw_names. rewrite map_flat_map'. intros H. apply in_flat_map in H. destruct H as (td & Htd & Hk).
  rewrite pre_keys in Hk. apply in_map_iff in Hk. destruct Hk as (t & <- & Ht).
  destruct (snd td) as [p|f kws] eqn:Ed; cbn [dist_local map] in Ht; [destruct Ht|].
  rewrite map_map in Ht. cbn [fst] in Ht. apply in_map_iff in Ht. destruct Ht as (kv & <- & Hkv).
  exists (fst td), (fst kv). repeat split.
  - apply in_map, Htd.
  - apply in_flat_map. exists td. split; [exact Htd|]. rewrite Ed. apply in_map, Hkv.
Qed.

(** * Keys classified by their first component *)
Definition heads_in (P : string -> Prop) (K : list path) : Prop := forall k, In k K -> P (head_of k).
Lemma heads_in_nil P : heads_in P [].
Proof. intros k []. Qed.
Lemma heads_in_app P K1 K2 : heads_in P K1 -> heads_in P K2 -> heads_in P (K1 ++ K2).
Proof. intros H1 H2 k Hk. apply in_app_iff in Hk. destruct Hk; auto. Qed.
Lemma heads_in_weaken (P Q : string -> Prop) K : (forall s, P s -> Q s) -> heads_in P K -> heads_in Q K.
Proof. intros HPQ H k Hk. apply HPQ, H, Hk. Qed.
Lemma heads_in_cons_path (P : string -> Prop) h p K : P h -> heads_in P (map (app (h :: p)) K).
Proof. intros Hh k Hk. apply in_map_iff in Hk. destruct Hk as (t & <- & _). exact Hh. Qed.
Lemma heads_in_single (P : string -> Prop) h t : P h -> heads_in P [h :: t].
Proof. intros Hh k [<-|[]]. exact Hh. Qed.
Lemma fresh_by_heads (P Q : string -> Prop) K1 K2 :
  heads_in P K1 -> heads_in Q K2 -> (forall s, P s -> Q s -> False) -> forall k, In k K1 -> ~ In k K2.
Proof. intros H1 H2 Hd k Hk1 Hk2. exact (Hd _ (H1 k Hk1) (H2 k Hk2)). Qed.
Lemma NoDup_app_heads (P Q : string -> Prop) (K1 K2 : list path) :
  NoDup K1 -> NoDup K2 -> heads_in P K1 -> heads_in Q K2 -> (forall s, P s -> Q s -> False) -> NoDup (K1 ++ K2).
Proof. intros N1 N2 H1 H2 Hd. apply NoDup_app_intro; [exact N1 | exact N2 | apply (fresh_by_heads P Q); assumption]. Qed.

Lemma sel_params_heads_in tri sel es : heads_in (fun s => In s (map e_name (filter sel es))) (map fst (sel_params tri sel es)).
Proof.
  intros k Hk. apply sel_params_heads in Hk. destruct Hk as (e & s & Hin & Hs & -> & _). cbn.
  apply in_map, filter_In. split; assumption.
Qed.
Lemma edges_nested_keys tri es : map fst (edges_nested tri es) = map (fun n => [n]) (map e_name es).
Proof. unfold edges_nested. rewrite !map_map. reflexivity. Qed.
Lemma edges_nested_heads_in tri es : heads_in (fun s => In s (map e_name es)) (map fst (edges_nested tri es)).
Proof. rewrite edges_nested_keys. intros k Hk. apply in_map_iff in Hk. destruct Hk as (n & <- & Hn). exact Hn. Qed.
Lemma edges_nested_keys_NoDup tri es : NoDup (map e_name es) -> NoDup (map fst (edges_nested tri es)).
Proof. intros H. rewrite edges_nested_keys. apply NoDup_map_inj; [intros x y [= Hxy]; exact Hxy | exact H]. Qed.
Lemma dists_items_heads_in ds : heads_in (fun s => In s (map fst ds)) (map fst (dists_items ds)).
Proof. intros k Hk. apply dists_items_heads in Hk. destruct Hk as (t & s & Ht & -> & _). exact Ht. Qed.
Lemma dists_nested_heads_in ds : heads_in (fun s => In s (map fst ds)) (map fst (dists_nested ds)).
Proof.
  intros k Hk. unfold dists_nested in Hk. rewrite map_flat_map' in Hk. apply in_flat_map in Hk. destruct Hk as (td & Htd & Hk).
  destruct (snd td); [destruct Hk|]. destruct Hk as [<-|[]]. cbn. apply in_map, Htd.
Qed.
Lemma dists_nested_keys_NoDup ds : NoDup (map fst ds) -> NoDup (map fst (dists_nested ds)).
Proof.
  intros H. unfold dists_nested. induction ds as [|[t d] r IH]; [constructor|]. cbn [flat_map map fst snd] in *. inversion H; subst.
  destruct d; cbn [app map fst]; [apply IH; assumption|]. constructor; [|apply IH; assumption].
  intros Hin. rewrite map_flat_map' in Hin. apply in_flat_map in Hin. destruct Hin as (td & Htd & Hin).
  destruct (snd td); [destruct Hin|]. destruct Hin as [Heq|[]]. injection Heq as Heq.
  match goal with Hn : ~ In t _ |- _ => apply Hn end. rewrite <- Heq. apply in_map, Htd.
Qed.

(** pd_sub / pd_update_at on explicit dictionaries *)
Lemma pd_sub_here k cs d : pd_sub k ((k, Node cs) :: d) = cs.
Proof. unfold pd_sub. cbn [kw_get]. rewrite path_eqb_refl. reflexivity. Qed.
Lemma pd_sub_skip k k' t d : k <> k' -> pd_sub k ((k', t) :: d) = pd_sub k d.
Proof. intros H. unfold pd_sub. cbn [kw_get]. rewrite (path_eqb_neq _ _ H). reflexivity. Qed.
Lemma pd_update_at_here k src cs d : pd_update_at k src ((k, Node cs) :: d) = (k, Node (kw_update src cs)) :: d.
Proof. cbn [pd_update_at]. rewrite path_eqb_refl. reflexivity. Qed.
Lemma pd_update_at_skip k k' src t d : k <> k' -> pd_update_at k src ((k', t) :: d) = (k', t) :: pd_update_at k src d.
Proof. intros H. cbn [pd_update_at]. rewrite (path_eqb_neq _ _ H). reflexivity. Qed.

Lemma shape_eqb_shape es1 es2 : shape_eqb es1 es2 = true -> shape es1 = shape es2.
Proof.
  revert es2. induction es1 as [|e1 r1 IH]; intros [|e2 r2] H; cbn [shape_eqb] in H; try discriminate; [reflexivity|].
  apply andb_true_iff in H. destruct H as [H Hr]. apply andb_true_iff in H. destruct H as [Hn Hk].
  apply String.eqb_eq in Hn. apply Nat.eqb_eq in Hk. specialize (IH _ Hr). unfold shape in *. cbn [map]. rewrite Hn, IH. f_equal. f_equal.
  destruct (e_kind e1), (e_kind e2); cbn in Hk; congruence.
Qed.

(** * More on unflatten_and_split: the parts are dictionaries *)
Lemma unflatten_glob_NoDup kw X : NoDup (map fst (snd (unflatten_and_split kw X))).
Proof.
  rewrite unflatten_fold.
  assert (H : forall l acc, NoDup (map fst (snd acc)) -> NoDup (map fst (snd (fold_left (unflat_step X) l acc)))).
  { induction l as [|kv l IH]; intros acc Hacc; [exact Hacc|]. cbn [fold_left]. apply IH.
    destruct acc as [split glob]. unfold unflat_step. destruct (partition_key (fst kv)) as [hd tl].
    destruct (mem hd X); cbn [snd] in *; [exact Hacc | apply kw_set_NoDup, Hacc]. }
  apply H. constructor.
Qed.
Lemma obj_kwargs_NoDup kw X name split glob :
  unflatten_and_split kw X = (split, glob) -> NoDup (map fst (obj_kwargs name split glob)).
Proof.
  intros Hu. unfold obj_kwargs. apply kw_update_NoDup. pose proof (unflatten_glob_NoDup kw X) as H. rewrite Hu in H. exact H.
Qed.

Lemma filter_names_NoDup' (sel : edge -> bool) es : NoDup (map e_name es) -> NoDup (map e_name (filter sel es)).
Proof. intros H. apply (NoDup_app_l _ _ (NoDup_map_filter_split e_name sel es H)). Qed.

(** * synchronize_params *)
Lemma find_edge_NoDup es ef : NoDup (map e_name es) -> In ef es -> find_edge (e_name ef) es = Some ef.
Proof.
  induction es as [|e r IH]; intros Hnd Hin; [destruct Hin|]. cbn [find_edge map] in *. inversion Hnd as [|? ? Hni Hnd']; subst.
  destruct Hin as [->|Hin]; [rewrite str_eqb_refl; reflexivity|].
  rewrite str_eqb_neq; [apply IH; assumption|]. intros Heq. apply Hni. rewrite <- Heq. apply in_map, Hin.
Qed.
Lemma edge_kwargs_eq tri e : edge_kwargs tri e = map (fun kv => (fst kv, V (snd kv))) (edge_params tri e).
Proof. reflexivity. Qed.
Lemma edge_sync_step tri e ef : e_kind e = e_kind ef -> forallb in_unit (map snd (edge_params tri ef)) = true ->
  edge_set_params tri e [] (edge_kwargs tri ef) = (edge_put tri e (map snd (edge_params tri ef)), Some []).
Proof.
  intros Hk Hu.
  assert (Hp : plan (fun t => kw_get t (edge_kwargs tri ef)) (edge_params tri e) [] = map V (map snd (edge_params tri ef))).
  { apply plan_all_kw.
    - rewrite !map_length. rewrite <- (map_length fst (edge_params tri e)), (edge_params_keys_kind tri e ef Hk), map_length. reflexivity.
    - intros k v Hin. rewrite (edge_params_keys_kind tri e ef Hk) in Hin.
      apply kw_get_NoDup_In.
      + rewrite edge_kwargs_eq, map_map. cbn [fst]. apply edge_params_keys_NoDup.
      + rewrite edge_kwargs_eq. clear - Hin. induction (edge_params tri ef) as [|[k' x] l IH]; [destruct Hin|].
        cbn [map fst snd combine] in *. destruct Hin as [[= <- <-]|Hin]; [left; reflexivity | right; apply IH, Hin]. }
  rewrite (edge_set_params_ok tri e [] _ (map snd (edge_params tri ef))).
  - destruct (length (edge_params tri e)); reflexivity.
  - rewrite Hp. apply all_unit_vals, Hu.
Qed.
Lemma sync_edges_aligned tri sel from : NoDup (map e_name from) -> kind_sel sel ->
  forall to fr, shape to = shape fr -> (forall e, In e fr -> In e from) ->
    forallb in_unit (map snd (sel_params tri sel fr)) = true ->
    sync_edges tri tri sel from to = (edges_put tri sel to (map snd (sel_params tri sel fr)), true).
Proof.
  intros Hnd Hk. induction to as [|e r IH]; intros [|ef fr] Hs Hsub Hu; cbn [shape map] in Hs; try discriminate; [reflexivity|].
  injection Hs as Hn Hkd Hr. cbn [sync_edges edges_put]. rewrite sel_params_cons, map_app, forallb_app in Hu.
  apply andb_true_iff in Hu. destruct Hu as [Hu1 Hu2]. rewrite sel_params_cons, map_app.
  rewrite (Hk e ef Hkd) in *. destruct (sel ef) eqn:Es.
  - rewrite pre_vals in *. rewrite Hn.
    rewrite (find_edge_NoDup (filter sel from) ef).
    + rewrite (edge_sync_step tri e ef Hkd Hu1).
      rewrite (IH fr Hr (fun e' H' => Hsub e' (or_intror H')) Hu2).
      assert (Hlen : length (map snd (edge_params tri ef)) = length (edge_params tri e)).
      { rewrite map_length, <- (map_length fst (edge_params tri ef)), <- (edge_params_keys_kind tri e ef Hkd), map_length. reflexivity. }
      rewrite firstn_app_len, skipn_app_len by exact Hlen. reflexivity.
    + apply filter_names_NoDup', Hnd.
    + apply filter_In. split; [apply Hsub; left; reflexivity | exact Es].
  - cbn [app] in *. rewrite (IH fr Hr (fun e' H' => Hsub e' (or_intror H')) Hu2). reflexivity.
Qed.
Lemma edges_put_shape tri sel es qs : shape (edges_put tri sel es qs) = shape es.
Proof.
  unfold shape. revert qs. induction es as [|e r IH]; intros qs; [reflexivity|]. cbn [edges_put].
  destruct (sel e); cbn [map]; rewrite ?edge_put_name, ?edge_put_kind, IH; reflexivity.
Qed.

(** the split part of unflatten_and_split, alone *)
Lemma sub_kwargs_lookup kw expected name t split glob :
  ~ In "" expected -> unflatten_and_split kw expected = (split, glob) -> In name expected ->
  kw_get t (sub_kwargs name split) = kw_last (name :: t) kw /\ NoDup (map fst (sub_kwargs name split)).
Proof.
  intros He Hu Hin. pose proof (unflatten_inv kw expected He) as (Hg & Hs & Hn). rewrite Hu in *. cbn [fst snd] in *.
  split; [|apply Hn]. rewrite Hs. apply mem_In in Hin. rewrite Hin. reflexivity.
Qed.
Lemma glob_lookup kw expected t split glob :
  ~ In "" expected -> unflatten_and_split kw expected = (split, glob) ->
  kw_get t glob = (if mem (head_of t) expected then None else kw_last t kw) /\ NoDup (map fst glob).
Proof.
  intros He Hu. pose proof (unflatten_inv kw expected He) as (Hg & Hs & Hn). pose proof (unflatten_glob_NoDup kw expected) as Hnd.
  rewrite Hu in *. cbn [fst snd] in *. split; [apply Hg | exact Hnd].
Qed.
(** all values of [kw_of names v] are numbers *)
Lemma kw_of_get names : forall v K, length v = length names -> In K names -> exists y, kw_get K (kw_of names v) = Some (V y).
Proof.
  induction names as [|k names IH]; intros [|x v] K Hl Hin; cbn [length] in Hl; try discriminate; [destruct Hin|].
  unfold kw_of. cbn [vals map combine kw_get]. destruct (path_eqb K k) eqn:E; [exists x; reflexivity|].
  destruct Hin as [->|Hin]; [rewrite path_eqb_refl in E; discriminate|]. apply (IH v K); [lia | exact Hin].
Qed.
Lemma kw_of_keys names v : length v = length names -> map fst (kw_of names v) = names.
Proof. intros H. unfold kw_of. apply map_fst_combine. unfold vals. rewrite map_length. lia. Qed.
