(** NumpyPipelines: the numerical pipelines of [lymph.models.Unilateral] ([evolve], [state_dist_evo], [state_dist],
    [obs_dist], [_bn_likelihood], [_hmm_likelihood]) read with numpy's shape semantics, line by line as the Python code
    is written, and the STATIC proofs that these readings equal the hand-written model of Unilateral.v.

    The model states every product with an explicit width ([vecmat_w w v M]); numpy's [v @ M] has no such argument:
    the result has as many entries as [M] has columns.  The [np_...] definitions below therefore use [np_vecmat]
    (width = [ncols M]), [M.T] = [np_transpose], in-place row / entry assignments and Python's evaluation order of
    calls that may raise (the [res] monad: the first exception wins), and the lemmas prove under explicit shape
    hypotheses (all of which follow from [wf_graphb (u_graph u) = true]) that the widths the model writes down are the
    widths numpy computes.

    The source translator (harness/translate3.py) re-generates every [np_...] term from the Python source on every run
    and checks the generated term against the definition here by [reflexivity] (conversion); the equality with the
    model then follows from the static lemma.

    What is NOT modelled: numpy raises (ValueError / IndexError) when the shapes of the operands of [@], of a row
    assignment or of an index do not fit; the list primitives truncate / leave the array unchanged instead.  Under the
    hypotheses of the lemmas all shapes fit.  A 2-D array with zero rows is the empty list (its width is forgotten);
    the only place where this occurs is the diagnosis matrix of zero patients, whose transpose has zero columns, so that
    [v @ M.T] is the empty vector in numpy and here. *)
From LymphModel Require Import Base States Linalg Graph Transition Observation Dist Unilateral UniStatements
  Numpy NumpyTransition TransitionProofs ObservationProofs PriorProofs.
Local Open Scope nat_scope.
Open Scope Qc_scope.

(** * numpy primitives (the translator's reading; trusted base) *)
(** [v @ M] for a 1-D [v] and a 2-D [M] *)
Definition np_vecmat (v : vec) (M : mat) : vec := vecmat_w (ncols M) v M.
(** [np.zeros(shape=(r, c))], [np.ones(shape=(n,))] *)
Definition np_zeros2 (r c : nat) : mat := repeat (repeat 0 c) r.
Definition np_ones1 (n : nat) : vec := repeat 1 n.
(** [M[i, j] = x], [M[i] = row], [M[i]], [v[i] *= x]  (indices in range) *)
Definition np_set2 (M : mat) (i j : nat) (x : Qc) : mat := set_nth i (set_nth j x (nth i M [])) M.
Definition np_set_row (M : mat) (i : nat) (row : vec) : mat := set_nth i row M.
Definition np_row (M : mat) (i : nat) : vec := nth i M [].
Definition np_mul_at (v : vec) (i : nat) (x : Qc) : vec := set_nth i (nth i v 0 * x) v.
(** [range(a, b)] *)
Definition np_range (a b : nat) : list nat := seq a (b - a).
(** [enumerate(l)] *)
Definition np_enumerate {A} (l : list A) : list (nat * A) := combine (seq 0 (length l)) l.

(** * the pipelines, line by line *)
(** for _ in range(num_steps): state_dist = state_dist @ self.transition_matrix()
    return state_dist *)
Definition np_evolve (transition_matrix : mat) (state_dist : vec) (num_steps : nat) : vec :=
  let state_dist := fold_left (fun (state_dist : vec) (_ : nat) => np_vecmat state_dist transition_matrix)
                              (np_range 0 num_steps) state_dist in
  state_dist.

(** state_dists = np.zeros(shape=(self.max_time + 1, len(self.graph.state_list)))
    state_dists[0, 0] = 1.0
    for t in range(1, self.max_time + 1): state_dists[t] = self.evolve(state_dists[t - 1], num_steps=1)
    return state_dists *)
Definition np_state_dist_evo (transition_matrix : mat) (state_list : list state) (max_time : nat) : mat :=
  let state_dists := np_zeros2 (max_time + 1) (length state_list) in
  let state_dists := np_set2 state_dists 0 0 1 in
  let state_dists := fold_left (fun (state_dists : mat) (t : nat) =>
      np_set_row state_dists t (np_evolve transition_matrix (np_row state_dists (t - 1)) 1))
    (np_range 1 (max_time + 1)) state_dists in
  state_dists.

(** if mode == "HMM":
        state_dists = self.state_dist_evo(); diag_time_dist = self.get_distribution(t_stage).pmf
        return diag_time_dist @ state_dists
    if mode == "BN":
        state_dist = np.ones(shape=(len(self.graph.state_list),), dtype=float)
        for i, state in enumerate(self.graph.state_list):
            self.graph.set_state( *state )
            for node in self.graph.lnls.values(): state_dist[i] *= node.comp_bayes_net_prob()
        return state_dist
    raise ValueError(...)
    [hmm] = (mode == "HMM"), [negb hmm] = (mode == "BN"); [nodes] = the LNL nodes (position, name);
    [bnp state node] = node.comp_bayes_net_prob() after set_state( *state ) *)
Definition np_state_dist (transition_matrix : mat) (state_list : list state) (max_time : nat)
  (pmf_of : string -> res vec) (nodes : list (nat * string)) (bnp : state -> nat * string -> res Qc)
  (t_stage : string) (hmm : bool) : res vec :=
  if hmm then
    let state_dists := np_state_dist_evo transition_matrix state_list max_time in
    bind (pmf_of t_stage) (fun diag_time_dist =>
    inr (np_vecmat diag_time_dist state_dists))
  else if negb hmm then
    let state_dist := np_ones1 (length state_list) in
    bind (fold_left (fun (acc : res vec) '(i, state) => bind acc (fun state_dist =>
            bind (fold_left (fun (acc : res vec) (node : nat * string) => bind acc (fun state_dist =>
                    bind (bnp state node) (fun x => inr (np_mul_at state_dist i x))))
                  nodes (inr state_dist)) (fun state_dist => inr state_dist)))
          (np_enumerate state_list) (inr state_dist)) (fun state_dist =>
    inr state_dist)
  else inl MValue.

(** if given_state_dist is None: given_state_dist = self.state_dist(t_stage=t_stage, mode=mode)
    return given_state_dist @ self.observation_matrix() *)
Definition np_obs_dist (transition_matrix : mat) (state_list : list state) (max_time : nat)
  (pmf_of : string -> res vec) (nodes : list (nat * string)) (bnp : state -> nat * string -> res Qc)
  (observation_matrix : mat) (given_state_dist : option vec) (t_stage : string) (hmm : bool) : res vec :=
  bind (match given_state_dist with
        | None => np_state_dist transition_matrix state_list max_time pmf_of nodes bnp t_stage hmm
        | Some given_state_dist => inr given_state_dist
        end) (fun given_state_dist =>
  inr (np_vecmat given_state_dist observation_matrix)).

(** state_dist = self.state_dist(mode="BN")
    patient_llhs = state_dist @ self.diagnosis_matrix(t_stage).T
    return np.sum(np.log(patient_llhs)) if log else np.prod(patient_llhs)        (the factors [patient_llhs]) *)
Definition np_bn_likelihood (transition_matrix : mat) (state_list : list state) (max_time : nat)
  (pmf_of : string -> res vec) (nodes : list (nat * string)) (bnp : state -> nat * string -> res Qc)
  (diagnosis_matrix : option string -> res mat) (t_stage : option string) : res vec :=
  bind (np_state_dist transition_matrix state_list max_time pmf_of nodes bnp "early" false) (fun state_dist =>
  bind (diagnosis_matrix t_stage) (fun x =>
  let patient_llhs := np_vecmat state_dist (np_transpose 0 x) in
  inr patient_llhs)).

(** evolved_model = self.state_dist_evo(); llh = 0.0 if log else 1.0
    if t_stage is None: t_stages = self.get_t_stages("valid") else: t_stages = [t_stage]
    for t_stage in t_stages:
        patient_llhs = self.get_distribution(t_stage).pmf @ evolved_model @ self.diagnosis_matrix(t_stage).T
        llh = add_or_mult(llh, patient_llhs, log)
    return llh
    [llh] is kept as the list of its factors: the neutral start value is the empty list, add_or_mult appends *)
Definition np_hmm_likelihood (transition_matrix : mat) (state_list : list state) (max_time : nat)
  (pmf_of : string -> res vec) (diagnosis_matrix : option string -> res mat) (valid_t_stages : list string)
  (t_stage : option string) : res vec :=
  let evolved_model := np_state_dist_evo transition_matrix state_list max_time in
  let llh : vec := [] in
  let t_stages := match t_stage with None => valid_t_stages | Some t_stage => [t_stage] end in
  bind (fold_left (fun (acc : res vec) (t_stage : string) => bind acc (fun llh =>
          bind (pmf_of t_stage) (fun x =>
          bind (diagnosis_matrix (Some t_stage)) (fun x0 =>
          let patient_llhs := np_vecmat (np_vecmat x evolved_model) (np_transpose 0 x0) in
          let llh := llh ++ patient_llhs in
          inr llh))))
        t_stages (inr llh)) (fun llh =>
  inr llh).

(** * shapes *)
Definition is_shape (r c : nat) (M : mat) : Prop := length M = r /\ Forall (fun row => length row = c) M.

Lemma ncols_square N T : is_shape N N T -> ncols T = N.
Proof.
  intros [Hl Hr]. destruct T as [|r T]; cbn [ncols length] in *; [exact Hl|].
  inversion Hr; assumption.
Qed.
Lemma ncols_shape r c M : is_shape r c M -> (0 < r)%nat -> ncols M = c.
Proof.
  intros [Hl Hr] H0. destruct M as [|r0 M]; cbn [ncols length] in *; [lia|].
  inversion Hr; assumption.
Qed.

Lemma zeros_length n : length (zeros n) = n.
Proof. apply repeat_length. Qed.
Lemma vscale_length a r : length (vscale a r) = length r.
Proof. apply map_length. Qed.
Lemma vecmat_w_length w M : Forall (fun r => length r = w) M -> forall v, length (vecmat_w w v M) = w.
Proof.
  induction 1 as [|r M Hr _ IH]; intros [|a v]; cbn [vecmat_w]; try apply zeros_length.
  unfold vadd. rewrite map2_length, vscale_length, Hr, IH. apply Nat.min_id.
Qed.
Lemma onehot0_length n : length (onehot0 n) = n.
Proof. destruct n; cbn [onehot0 length]; [reflexivity|]. rewrite zeros_length. reflexivity. Qed.

(** * evolve *)
Lemma np_vecmat_square N T v : is_shape N N T -> length v = N ->
  np_vecmat v T = vecmat_w (length v) v T /\ length (np_vecmat v T) = N.
Proof.
  intros HT Hv. unfold np_vecmat. rewrite (ncols_square N T HT), Hv. split; [reflexivity|].
  apply vecmat_w_length. apply HT.
Qed.

Lemma np_evolve_fold N T : is_shape N N T -> forall k s v, length v = N ->
  fold_left (fun (sd : vec) (_ : nat) => np_vecmat sd T) (seq s k) v = evolve T v k.
Proof.
  intros HT. induction k as [|k IH]; intros s v Hv; cbn [seq fold_left evolve]; [reflexivity|].
  destruct (np_vecmat_square N T v HT Hv) as [E L]. rewrite <- E. apply IH. exact L.
Qed.

Lemma np_evolve_eq N T v k : is_shape N N T -> length v = N -> np_evolve T v k = evolve T v k.
Proof.
  intros HT Hv. unfold np_evolve, np_range. cbv zeta. rewrite Nat.sub_0_r. apply (np_evolve_fold N T HT). exact Hv.
Qed.

(** * state_dist_evo *)
Fixpoint iter_rows (f : vec -> vec) (v : vec) (k : nat) : list vec :=
  match k with O => [v] | S k' => v :: iter_rows f (f v) k' end.

Lemma set_nth_app {A} (pre : list A) x : forall k l, set_nth (length pre + k)%nat x (pre ++ l) = pre ++ set_nth k x l.
Proof. induction pre as [|a pre IH]; intros k l; cbn [length Nat.add app set_nth]; [reflexivity|]. rewrite IH. reflexivity. Qed.

Lemma fill_loop (f : vec -> vec) (z : vec) : forall m pre v,
  fold_left (fun (M : mat) (t : nat) => np_set_row M t (f (np_row M (t - 1)))) (seq (S (length pre)) m)
            (pre ++ v :: repeat z m)
  = pre ++ iter_rows f v m.
Proof.
  induction m as [|m IH]; intros pre v; cbn [seq fold_left repeat iter_rows]; [reflexivity|].
  unfold np_set_row at 2, np_row at 2.
  replace (S (length pre) - 1)%nat with (length pre) by lia.
  rewrite nth_middle.
  replace (S (length pre)) with (length pre + 1)%nat at 2 by lia.
  rewrite set_nth_app. cbn [set_nth].
  replace (pre ++ v :: f v :: repeat z m) with ((pre ++ [v]) ++ f v :: repeat z m)
    by (rewrite <- app_assoc; reflexivity).
  replace (S (length pre)) with (length (pre ++ [v])) by (rewrite app_length; cbn [length]; lia).
  rewrite IH, <- app_assoc. reflexivity.
Qed.

Lemma iter_rows_evo N T : is_shape N N T -> forall m v, length v = N ->
  iter_rows (fun v => np_evolve T v 1) v m = evo_rows T v m.
Proof.
  intros HT. induction m as [|m IH]; intros v Hv; cbn [iter_rows evo_rows]; [reflexivity|].
  rewrite (np_evolve_eq N T v 1 HT Hv). cbn [evolve]. f_equal. apply IH.
  rewrite Hv. apply vecmat_w_length. apply HT.
Qed.

Lemma np_start N m : np_set2 (np_zeros2 (m + 1)%nat N) 0 0 1 = onehot0 N :: repeat (zeros N) m.
Proof.
  unfold np_set2, np_zeros2. rewrite Nat.add_1_r. cbn [repeat nth set_nth]. f_equal.
  destruct N; cbn [repeat set_nth onehot0]; reflexivity.
Qed.

Lemma np_state_dist_evo_shape_eq N T (sl : list state) m : is_shape N N T -> length sl = N ->
  np_state_dist_evo T sl m = evo_rows T (onehot0 N) m.
Proof.
  intros HT Hs. unfold np_state_dist_evo. cbv zeta. rewrite Hs, np_start. unfold np_range.
  replace (m + 1 - 1)%nat with m by lia.
  pose proof (fill_loop (fun v => np_evolve T v 1) (zeros N) m [] (onehot0 N)) as H.
  cbn [app length] in H. cbv beta in H. rewrite H.
  apply (iter_rows_evo N T HT). apply onehot0_length.
Qed.

(** the transition matrix of a well-formed graph is N x N, N = base ^ #LNLs *)
Lemma transition_matrix_shape g : wf_graphb g = true ->
  is_shape (g_base g ^ nlnls g) (g_base g ^ nlnls g) (generate_transition g).
Proof.
  intros Hwf. rewrite (transition_entries g Hwf). unfold trans_spec_matrix, state_list. split.
  - rewrite map_length. apply all_states_length.
  - apply Forall_forall. intros r Hr. apply in_map_iff in Hr. destruct Hr as [x [<- _]].
    rewrite map_length. apply all_states_length.
Qed.
Lemma u_states_len u : length (u_states u) = (u_base u ^ u_n u)%nat.
Proof. unfold u_states, state_list, u_base, u_n. apply all_states_length. Qed.
Lemma nstates_pos g : wf_graphb g = true -> (0 < g_base g ^ nlnls g)%nat.
Proof.
  intros Hwf. assert (g_base g ^ nlnls g <> 0)%nat; [|lia].
  apply Nat.pow_nonzero. destruct (wfb_base g Hwf); lia.
Qed.

Theorem np_evolve_model u v k : wf_graphb (u_graph u) = true -> length v = (u_base u ^ u_n u)%nat ->
  np_evolve (transition_matrix u) v k = evolve (transition_matrix u) v k.
Proof. intros Hwf Hv. apply (np_evolve_eq _ _ v k (transition_matrix_shape _ Hwf)). exact Hv. Qed.

Theorem np_state_dist_evo_model u : wf_graphb (u_graph u) = true ->
  np_state_dist_evo (transition_matrix u) (u_states u) (u_maxt u) = state_dist_evo u.
Proof.
  intros Hwf. unfold state_dist_evo.
  apply (np_state_dist_evo_shape_eq _ _ _ _ (transition_matrix_shape _ Hwf)). apply u_states_len.
Qed.

(** * state_dist, HMM branch *)
Lemma ncols_evo_rows T v k : ncols (evo_rows T v k) = length v.
Proof. destruct k; reflexivity. Qed.
Lemma np_vecmat_evo u p : np_vecmat p (state_dist_evo u) = vecmat_w (u_base u ^ u_n u) p (state_dist_evo u).
Proof. unfold np_vecmat, state_dist_evo. rewrite ncols_evo_rows, onehot0_length. reflexivity. Qed.

(** * state_dist, BN branch: the double loop *)
Lemma bind_inr_id {A} (r : res A) : bind r (fun x => inr x) = r.
Proof. destruct r; reflexivity. Qed.

Lemma set_nth_nth_id {A} (d : A) : forall i l, set_nth i (nth i l d) l = l.
Proof. induction i as [|i IH]; intros [|a l]; cbn [set_nth nth]; try reflexivity. rewrite IH. reflexivity. Qed.
Lemma set_nth_set_nth {A} (a b : A) : forall i l, set_nth i a (set_nth i b l) = set_nth i a l.
Proof. induction i as [|i IH]; intros [|c l]; cbn [set_nth]; try reflexivity. rewrite IH. reflexivity. Qed.
Lemma nth_set_nth_same {A} (a d : A) : forall i l, (i < length l)%nat -> nth i (set_nth i a l) d = a.
Proof.
  induction i as [|i IH]; intros [|c l] H; cbn [length] in H; try lia; cbn [set_nth nth]; [reflexivity|].
  apply IH. lia.
Qed.
Lemma set_nth_length {A} (a : A) : forall i l, length (set_nth i a l) = length l.
Proof. induction i as [|i IH]; intros [|c l]; cbn [set_nth length]; try reflexivity. rewrite IH. reflexivity. Qed.

Section BN.
  Variables (nodes : list (nat * string)) (bnp : state -> nat * string -> res Qc).

  Definition bn_inner (i : nat) (x : state) (nds : list (nat * string)) (acc : res vec) : res vec :=
    fold_left (fun (acc : res vec) (node : nat * string) => bind acc (fun state_dist =>
                 bind (bnp x node) (fun p => inr (np_mul_at state_dist i p)))) nds acc.
  Definition bn_outer (l : list (nat * state)) (acc : res vec) : res vec :=
    fold_left (fun (acc : res vec) '(i, state) => bind acc (fun state_dist =>
                 bind (bn_inner i state nodes (inr state_dist)) (fun state_dist => inr state_dist))) l acc.

  Lemma bn_inner_inl i x e : forall nds, bn_inner i x nds (inl e) = inl e.
  Proof. induction nds as [|nd nds IH]; [reflexivity|]. exact IH. Qed.
  Lemma bn_outer_inl e : forall l, bn_outer l (inl e) = inl e.
  Proof. induction l as [|[i x] l IH]; [reflexivity|]. exact IH. Qed.

  (** every node probability is defined *)
  Section Pure.
    Variable q : state -> nat * string -> Qc.
    Hypothesis Hq : forall x nd, bnp x nd = inr (q x nd).

    Lemma bn_inner_pure i x : forall nds sd, (i < length sd)%nat ->
      bn_inner i x nds (inr sd) = inr (set_nth i (fold_left (fun r nd => r * q x nd) nds (nth i sd 0)) sd).
    Proof.
      induction nds as [|nd nds IH]; intros sd Hi.
      - cbn [bn_inner fold_left]. rewrite set_nth_nth_id. reflexivity.
      - unfold bn_inner. cbn [fold_left bind]. rewrite Hq. cbn [bind]. fold (bn_inner i x nds (inr (np_mul_at sd i (q x nd)))).
        unfold np_mul_at. rewrite IH by (rewrite set_nth_length; exact Hi).
        rewrite nth_set_nth_same by exact Hi. rewrite set_nth_set_nth. reflexivity.
    Qed.

    Lemma bn_outer_pure : forall xs pre,
      bn_outer (combine (seq (length pre) (length xs)) xs) (inr (pre ++ repeat 1 (length xs)))
      = inr (pre ++ map (fun x => fold_left (fun r nd => r * q x nd) nodes 1) xs).
    Proof.
      induction xs as [|x xs IH]; intros pre; cbn [length seq combine repeat map]; [reflexivity|].
      unfold bn_outer. cbn [fold_left bind].
      rewrite bn_inner_pure by (rewrite app_length; cbn [length]; lia).
      cbn [bind]. rewrite nth_middle.
      replace (length pre) with (length pre + 0)%nat at 2 by lia. rewrite set_nth_app. cbn [set_nth].
      set (a := fold_left (fun r nd => r * q x nd) nodes 1).
      fold (bn_outer (combine (seq (S (length pre)) (length xs)) xs) (inr (pre ++ a :: repeat 1 (length xs)))).
      replace (pre ++ a :: repeat 1 (length xs)) with ((pre ++ [a]) ++ repeat 1 (length xs))
        by (rewrite <- app_assoc; reflexivity).
      replace (S (length pre)) with (length (pre ++ [a])) by (rewrite app_length; cbn [length]; lia).
      rewrite IH, <- app_assoc. reflexivity.
    Qed.
  End Pure.

  (** every node probability raises (trinary) *)
  Section Fail.
    Variable e : merr.
    Hypothesis He : forall x nd, bnp x nd = inl e.

    Lemma bn_inner_fail i x nds sd : nds <> [] -> bn_inner i x nds (inr sd) = inl e.
    Proof.
      destruct nds as [|nd nds]; [congruence|]. intros _. unfold bn_inner. cbn [fold_left bind]. rewrite He. cbn [bind].
      apply bn_inner_inl.
    Qed.
    Lemma bn_outer_fail l sd : nodes <> [] -> l <> [] -> bn_outer l (inr sd) = inl e.
    Proof.
      intros Hn. destruct l as [|[i x] l]; [congruence|]. intros _. unfold bn_outer. cbn [fold_left bind].
      rewrite bn_inner_fail by exact Hn. cbn [bind]. apply bn_outer_inl.
    Qed.
  End Fail.
End BN.

(** [node.comp_bayes_net_prob()] for the node at position [fst node] named [snd node], the graph being in state [x]:
    raises NotImplementedError for trinary graphs, else [bn_node_prob] (this reading is the obligation
    comp_bayes_net_prob of harness/translate2.py) *)
Definition bn_reading (g : graph) (x : state) (node : nat * string) : res Qc :=
  if Nat.eqb (g_base g) 3 then inl MNotImpl else inr (bn_node_prob g x (fst node) (snd node)).

Lemma np_state_dist_bn_eq g : wf_graphb g = true -> lnls g <> [] ->
  bn_outer (np_enumerate (lnls g)) (bn_reading g) (np_enumerate (state_list g)) (inr (np_ones1 (length (state_list g))))
  = state_dist_bn g.
Proof.
  intros Hwf Hl. unfold state_dist_bn, bn_reading. destruct (Nat.eqb (g_base g) 3) eqn:E.
  - apply bn_outer_fail.
    + intros x nd. reflexivity.
    + unfold np_enumerate. destruct (lnls g); [congruence|]. cbn [length seq combine]. discriminate.
    + unfold np_enumerate, state_list. pose proof (nstates_pos g Hwf) as Hp. rewrite <- (all_states_length (g_base g) (nlnls g)) in Hp.
      destruct (all_states (g_base g) (nlnls g)); [cbn [length] in Hp; lia|]. cbn [length seq combine]. discriminate.
  - unfold np_enumerate, np_ones1.
    rewrite (bn_outer_pure _ _ (fun x nd => bn_node_prob g x (fst nd) (snd nd)) (fun x nd => eq_refl) (state_list g) []).
    cbn [app]. f_equal. apply map_ext. intros x. unfold nlnls.
    apply fold_left_ext_in. intros r [i lnl] _. reflexivity.
Qed.

Theorem np_state_dist_model u t hmm : wf_graphb (u_graph u) = true -> lnls (u_graph u) <> [] ->
  np_state_dist (transition_matrix u) (u_states u) (u_maxt u) (get_pmf u) (np_enumerate (lnls (u_graph u)))
                (bn_reading (u_graph u)) t hmm
  = state_dist u t hmm.
Proof.
  intros Hwf Hl. unfold np_state_dist, state_dist. destruct hmm; cbn [negb].
  - cbv zeta. rewrite (np_state_dist_evo_model u Hwf). destruct (get_pmf u t) as [e|p]; cbn [bind]; [reflexivity|].
    rewrite np_vecmat_evo. reflexivity.
  - cbv zeta. rewrite bind_inr_id. unfold u_states.
    exact (np_state_dist_bn_eq (u_graph u) Hwf Hl).
Qed.

(** the HMM branch alone needs no LNL *)
Theorem np_state_dist_hmm_model u t : wf_graphb (u_graph u) = true -> forall nodes bnp,
  np_state_dist (transition_matrix u) (u_states u) (u_maxt u) (get_pmf u) nodes bnp t true = state_dist u t true.
Proof.
  intros Hwf nodes bnp. unfold np_state_dist, state_dist. cbv zeta. rewrite (np_state_dist_evo_model u Hwf).
  destruct (get_pmf u t) as [e|p]; cbn [bind]; [reflexivity|]. rewrite np_vecmat_evo. reflexivity.
Qed.

(** * obs_dist *)
Lemma wf_base_ok g : wf_graphb g = true -> base_ok (g_base g) = true.
Proof. intros H. unfold base_ok. destruct (wfb_base g H) as [-> | ->]; reflexivity. Qed.

Lemma observation_matrix_shape u : wf_graphb (u_graph u) = true ->
  is_shape (u_base u ^ u_n u) (2 ^ (length (u_mods u) * u_n u)) (observation_matrix u).
Proof.
  intros Hwf. unfold observation_matrix.
  destruct (obs_shape (map snd (u_mods u)) (u_n u) (u_base u) (wf_base_ok _ Hwf)) as [H1 H2].
  rewrite map_length in H2. split; assumption.
Qed.

Lemma np_vecmat_obs u sd : wf_graphb (u_graph u) = true -> np_vecmat sd (observation_matrix u) = obs_dist_of u sd.
Proof.
  intros Hwf. unfold np_vecmat, obs_dist_of.
  rewrite (ncols_shape _ _ _ (observation_matrix_shape u Hwf) (nstates_pos _ Hwf)). reflexivity.
Qed.

Theorem np_obs_dist_model u t hmm : wf_graphb (u_graph u) = true -> lnls (u_graph u) <> [] ->
  np_obs_dist (transition_matrix u) (u_states u) (u_maxt u) (get_pmf u) (np_enumerate (lnls (u_graph u)))
              (bn_reading (u_graph u)) (observation_matrix u) None t hmm
  = obs_dist u t hmm
  /\ forall sd,
  np_obs_dist (transition_matrix u) (u_states u) (u_maxt u) (get_pmf u) (np_enumerate (lnls (u_graph u)))
              (bn_reading (u_graph u)) (observation_matrix u) (Some sd) t hmm
  = inr (obs_dist_of u sd).
Proof.
  intros Hwf Hl. unfold np_obs_dist, obs_dist. split.
  - rewrite (np_state_dist_model u t hmm Hwf Hl). destruct (state_dist u t hmm) as [e|sd]; cbn [bind]; [reflexivity|].
    rewrite (np_vecmat_obs u sd Hwf). reflexivity.
  - intros sd. cbn [bind]. rewrite (np_vecmat_obs u sd Hwf). reflexivity.
Qed.

(** * v @ M.T = the dot products of v with the rows of M *)
Lemma sum_nth_dot : forall (v r pre : vec), length r = length v ->
  sumQ (map (fun '(j, p) => p * nth j (pre ++ r) 0) (combine (seq (length pre) (length v)) v)) = dot v r.
Proof.
  induction v as [|a v IH]; intros [|b r] pre H; cbn [length] in H; try discriminate; cbn [length seq combine map sumQ dot];
    [reflexivity|].
  rewrite nth_middle. f_equal.
  replace (pre ++ b :: r) with ((pre ++ [b]) ++ r) by (rewrite <- app_assoc; reflexivity).
  replace (S (length pre)) with (length (pre ++ [b])) by (rewrite app_length; cbn [length]; lia).
  apply IH. lia.
Qed.

Lemma np_vecmat_transpose N v M : (0 < N)%nat -> length v = N -> Forall (fun r => length r = N) M ->
  np_vecmat v (np_transpose 0 M) = map (fun row => dot v row) M.
Proof.
  intros HN Hv HM. destruct M as [|r0 M'] eqn:EM.
  - unfold np_vecmat, np_transpose. cbn [seq map ncols]. destruct v; reflexivity.
  - rewrite <- EM in *. assert (Hc : (match M with [] => 0 | r :: _ => length r end = N)%nat).
    { rewrite EM. rewrite EM in HM. inversion HM; assumption. }
    unfold np_vecmat, np_transpose. rewrite Hc.
    assert (Hn : ncols (map (fun j => map (fun r => nth j r 0) M) (seq 0 N)) = length M).
    { destruct N as [|N']; [lia|]. cbn [seq map ncols]. apply map_length. }
    rewrite Hn.
    rewrite (vecmat_w_tab (fun (j : nat) (r : list Qc) => nth j r 0) M (seq 0 N) v).
    apply map_ext_in. intros r Hr. rewrite Forall_forall in HM. specialize (HM r Hr).
    rewrite <- Hv. apply (sum_nth_dot v r []). rewrite HM, Hv. reflexivity.
Qed.

(** * _bn_likelihood *)
Lemma diagnosis_matrix_rows u data t DM : wf_graphb (u_graph u) = true -> diagnosis_matrix u data t = inr DM ->
  Forall (fun r => length r = (u_base u ^ u_n u)%nat) DM.
Proof.
  intros Hwf. unfold diagnosis_matrix. destruct (data_matrix u data t) as [e|D]; cbn [bind]; [discriminate|].
  intros H. injection H as <-. apply Forall_forall. intros r Hr. apply in_map_iff in Hr. destruct Hr as [enc [<- _]].
  unfold matvec. rewrite map_length. apply (observation_matrix_shape u Hwf).
Qed.
Lemma state_dist_bn_length g sd : state_dist_bn g = inr sd -> length sd = (g_base g ^ nlnls g)%nat.
Proof.
  unfold state_dist_bn. destruct (Nat.eqb (g_base g) 3); [discriminate|]. intros H. injection H as <-.
  rewrite map_length. apply all_states_length.
Qed.

Theorem np_bn_likelihood_model u data t : wf_graphb (u_graph u) = true -> lnls (u_graph u) <> [] ->
  np_bn_likelihood (transition_matrix u) (u_states u) (u_maxt u) (get_pmf u) (np_enumerate (lnls (u_graph u)))
                   (bn_reading (u_graph u)) (diagnosis_matrix u data) t
  = bn_likelihood_factors u data t.
Proof.
  intros Hwf Hl. unfold np_bn_likelihood, bn_likelihood_factors.
  rewrite (np_state_dist_model u _ false Hwf Hl). unfold state_dist.
  destruct (state_dist_bn (u_graph u)) as [e|sd] eqn:Esd; cbn [bind]; [reflexivity|].
  destruct (diagnosis_matrix u data t) as [e|DM] eqn:EDM; cbn [bind]; [reflexivity|]. cbv zeta.
  rewrite (np_vecmat_transpose (u_base u ^ u_n u) sd DM); [reflexivity| | |].
  - apply (nstates_pos _ Hwf).
  - apply (state_dist_bn_length _ _ Esd).
  - apply (diagnosis_matrix_rows u data t DM Hwf EDM).
Qed.

(** * _hmm_likelihood *)
Lemma evo_rows_rows N T : Forall (fun r => length r = N) T -> forall k v, length v = N ->
  Forall (fun r => length r = N) (evo_rows T v k).
Proof.
  intros HT. induction k as [|k IH]; intros v Hv; cbn [evo_rows]; constructor; try exact Hv; [constructor|].
  apply IH. rewrite Hv. apply vecmat_w_length. exact HT.
Qed.
Lemma state_dist_evo_rows u : wf_graphb (u_graph u) = true ->
  Forall (fun r => length r = (u_base u ^ u_n u)%nat) (state_dist_evo u).
Proof.
  intros Hwf. unfold state_dist_evo. apply evo_rows_rows; [|apply onehot0_length].
  apply (transition_matrix_shape _ Hwf).
Qed.

Lemma fold_llh_inl (f : vec -> string -> res vec) e : forall l,
  fold_left (fun (acc : res vec) (t : string) => bind acc (fun llh => f llh t)) l (inl e) = inl e.
Proof. induction l as [|a l IH]; [reflexivity|]. exact IH. Qed.

Lemma fold_bind_sequence (f : string -> res vec) : forall l acc,
  fold_left (fun (acc : res vec) (t : string) => bind acc (fun llh => bind (f t) (fun x => inr (llh ++ x)))) l (inr acc)
  = bind (sequence (map f l)) (fun ls => inr (acc ++ concat ls)).
Proof.
  induction l as [|a l IH]; intros acc; cbn [map sequence fold_left bind concat]; [rewrite app_nil_r; reflexivity|].
  destruct (f a) as [e|x]; cbn [bind].
  - apply (fold_llh_inl (fun llh t => bind (f t) (fun x => inr (llh ++ x)))).
  - rewrite IH. destruct (sequence (map f l)) as [e|ls]; cbn [bind concat]; [reflexivity|].
    rewrite app_assoc. reflexivity.
Qed.

Lemma fold_left_ext2 {A B} (f g : A -> B -> A) : (forall a b, f a b = g a b) ->
  forall l acc, fold_left f l acc = fold_left g l acc.
Proof. intros H. induction l as [|b l IH]; intros acc; cbn [fold_left]; [reflexivity|]. rewrite H. apply IH. Qed.

Theorem np_hmm_likelihood_model u data t : wf_graphb (u_graph u) = true ->
  np_hmm_likelihood (transition_matrix u) (u_states u) (u_maxt u) (get_pmf u) (diagnosis_matrix u data)
                    (valid_t_stages u data) t
  = hmm_likelihood_factors u data t.
Proof.
  intros Hwf. unfold np_hmm_likelihood, hmm_likelihood_factors. cbv zeta.
  rewrite bind_inr_id, (np_state_dist_evo_model u Hwf).
  rewrite (fold_left_ext2 _ (fun (acc : res vec) (ts : string) => bind acc (fun llh =>
             bind (hmm_patient_llhs u data ts) (fun x => inr (llh ++ x))))).
  - rewrite fold_bind_sequence. reflexivity.
  - intros [e|llh] ts; cbn [bind]; [reflexivity|]. unfold hmm_patient_llhs.
    destruct (get_pmf u ts) as [e|p]; cbn [bind]; [reflexivity|].
    destruct (diagnosis_matrix u data (Some ts)) as [e|DM] eqn:EDM; cbn [bind]; [reflexivity|]. cbv zeta.
    rewrite np_vecmat_evo.
    rewrite (np_vecmat_transpose (u_base u ^ u_n u) _ DM); [reflexivity| | |].
    + apply (nstates_pos _ Hwf).
    + apply vecmat_w_length. apply (state_dist_evo_rows u Hwf).
    + apply (diagnosis_matrix_rows u data (Some ts) DM Hwf EDM).
Qed.
