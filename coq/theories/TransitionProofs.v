(** TransitionProofs: proofs of the C05 statements of Transition.v.
    [generate_transition] (Impl, the grid/fancy-indexing computation) equals
    [trans_spec_matrix] (Spec, the per-LNL rule) on every well-formed graph; rows
    of the Spec sum to one, entries lie in [0,1], no LNL regresses or skips a
    state, and the node-level [transition_prob] agrees with the Spec. *)
From LymphModel Require Import Base States Linalg Graph Transition.
Local Open Scope nat_scope.
Open Scope Qc_scope.

(** * Small list / string facts *)
Lemma mem_In s l : mem s l = true <-> In s l.
Proof.
  induction l as [|a l IH]; cbn [mem In].
  - split; [discriminate|tauto].
  - rewrite orb_true_iff, IH. unfold str_eqb. rewrite String.eqb_eq.
    split; intros [H|H]; auto.
Qed.

Lemma index_of_lt s l : In s l -> (index_of s l < length l)%nat.
Proof.
  induction l as [|a l IH]; cbn [In index_of length]; [tauto|].
  intros H. destruct (str_eqb s a) eqn:E; [lia|].
  destruct H as [H|H].
  - subst. unfold str_eqb in E. rewrite String.eqb_refl in E. discriminate.
  - apply IH in H. lia.
Qed.

Lemma index_of_combine l : forall k i s, nodupb l = true ->
  In (i, s) (combine (seq k (length l)) l) -> (k + index_of s l)%nat = i.
Proof.
  induction l as [|a l IH]; intros k i s Hnd Hin; cbn [length seq combine In] in Hin; [tauto|].
  cbn [nodupb] in Hnd. apply andb_true_iff in Hnd. destruct Hnd as [Ha Hnd].
  cbn [index_of]. destruct Hin as [Hin|Hin].
  - inversion Hin; subst. unfold str_eqb. rewrite String.eqb_refl. lia.
  - destruct (str_eqb s a) eqn:E.
    + unfold str_eqb in E. apply String.eqb_eq in E. subst.
      apply in_combine_r in Hin. apply mem_In in Hin. rewrite Hin in Ha. discriminate.
    + apply IH in Hin; [lia|exact Hnd].
Qed.

Lemma digit_lt b n x k : (0 < b)%nat -> In x (all_states b n) -> (digit k x < b)%nat.
Proof.
  intros Hb Hx. apply all_states_In in Hx. destruct Hx as [_ Hf]. unfold digit.
  destruct (Nat.lt_ge_cases k (length x)) as [H|H].
  - rewrite Forall_forall in Hf. apply Hf. apply nth_In. exact H.
  - rewrite nth_overflow by exact H. exact Hb.
Qed.

(** * Folds as products *)
Definition noisy (tp ep : Qc) : Qc := 1 - (1 - tp) * (1 - ep).

Lemma fold_mult_prodQ ps : forall acc, fold_left Qcmult ps acc = acc * prodQ ps.
Proof.
  induction ps as [|p ps IH]; intros acc; cbn [fold_left prodQ]; [ring|].
  rewrite IH. ring.
Qed.
Lemma fold_noisy_prodQ ps : forall acc,
  fold_left noisy ps acc = 1 - (1 - acc) * prodQ (map (fun p => 1 - p) ps).
Proof.
  induction ps as [|p ps IH]; intros acc; cbn [fold_left prodQ map]; [ring|].
  rewrite IH. unfold noisy. ring.
Qed.
Lemma fold_mult_map {A} (h : A -> Qc) l : forall acc,
  fold_left (fun a z => a * h z) l acc = acc * prodQ (map h l).
Proof.
  induction l as [|z l IH]; intros acc; cbn [fold_left prodQ map]; [ring|].
  rewrite IH. ring.
Qed.
Lemma fold_update_rule {A} (t : A -> Qc) a c l : forall acc,
  fold_left (fun m e => update_rule a c m (t e)) l acc
  = if Nat.eqb c (a + 1) then fold_left noisy (map t l) acc else fold_left Qcmult (map t l) acc.
Proof.
  induction l as [|e l IH]; intros acc; cbn [fold_left map].
  - destruct (Nat.eqb c (a + 1)); reflexivity.
  - rewrite IH. unfold update_rule, noisy. destruct (Nat.eqb c (a + 1)); reflexivity.
Qed.

Lemma prodQ_zero_in l : In 0 l -> prodQ l = 0.
Proof.
  induction l as [|a l IH]; cbn [In prodQ]; [tauto|].
  intros [H|H]; [subst; ring|]. rewrite IH by exact H. ring.
Qed.
Lemma prodQ_filter_if {A} (p : A -> bool) (f : A -> Qc) l :
  prodQ (map (fun e => if p e then f e else 1) l) = prodQ (map f (filter p l)).
Proof.
  induction l as [|e l IH]; cbn [map filter prodQ]; [reflexivity|].
  rewrite IH. destruct (p e); cbn [map prodQ]; ring.
Qed.
Lemma prodQ_unit l : (forall a, In a l -> 0 <= a <= 1) -> 0 <= prodQ l <= 1.
Proof.
  induction l as [|a l IH]; intros H; cbn [prodQ].
  - split; discriminate.
  - assert (Ha : 0 <= a <= 1) by (apply H; left; reflexivity).
    assert (Hl : 0 <= prodQ l <= 1) by (apply IH; intros; apply H; right; assumption).
    revert Ha Hl. generalize (prodQ l). intros p [Ha1 Ha2] [Hp1 Hp2]. qc2q.
    revert Ha1 Ha2 Hp1 Hp2. generalize (this a) (this p). intros; split; nra.
Qed.

(** * Entries of an arc's transition tensor *)
Definition arcp (b : nat) (k : ekind) (s m : Qc) (p : nat) : Qc :=
  match k with
  | ETumor => s
  | EGrowth => 0
  | ELnl => match p with
            | O => 0
            | S O => if Nat.eqb b 3 then s * m else s
            | _ => s
            end
  end.
Definition kgrow (k : ekind) : bool := match k with EGrowth => true | _ => false end.
Definition ktum (k : ekind) : bool := match k with ETumor => true | _ => false end.
Definition tent (b : nat) (k : ekind) (s m : Qc) (p a c : nat) : Qc :=
  match a, c with
  | O, O => 1 - arcp b k s m p
  | O, S O => arcp b k s m p
  | S O, S O => if kgrow k then 1 - s else 1
  | S O, S (S O) => if kgrow k then s else 0
  | S (S O), S (S O) => 1
  | _, _ => 0
  end.
Definition ttens (b : nat) (k : ekind) (s m : Qc) : tensor :=
  comp_transition_tensor (if ktum k then 1%nat else b) b (ktum k) (kgrow k) s
    (match k with ETumor => 1 | _ => if Nat.eqb b 3 then m else 1 end).

Lemma ttens_entry b k s m p a c :
  b = 2%nat \/ b = 3%nat -> (a < b)%nat -> (c < b)%nat -> (p < b)%nat ->
  (k = ETumor -> p = 0%nat) -> (k = EGrowth -> b = 3%nat /\ p = a) ->
  tget (ttens b k s m) p a c = tent b k s m p a c.
Proof.
  intros Hb Ha Hc Hp Hkt Hkg.
  destruct k.
  - rewrite (Hkt eq_refl). clear Hkt Hkg Hp.
    destruct Hb; subst b;
      destruct a as [|[|[|a]]], c as [|[|[|c]]]; try lia;
      cbv [ttens ktum kgrow comp_transition_tensor tensor_set set_nth tget nth repeat eye eye_row
           map seq Nat.eqb pad Nat.sub app tent arcp]; try reflexivity; ring.
  - clear Hkt Hkg.
    destruct Hb; subst b;
      destruct a as [|[|[|a]]], c as [|[|[|c]]], p as [|[|[|p]]]; try lia;
      cbv [ttens ktum kgrow comp_transition_tensor tensor_set set_nth tget nth repeat eye eye_row
           map seq Nat.eqb pad Nat.sub app tent arcp]; try reflexivity; ring.
  - destruct (Hkg eq_refl) as [-> ->]. clear Hkt Hkg Hb Hp.
    destruct a as [|[|[|a]]], c as [|[|[|c]]]; try lia;
      cbv [ttens ktum kgrow comp_transition_tensor tensor_set set_nth tget nth repeat eye eye_row
           map seq Nat.eqb pad Nat.sub app tent arcp]; try reflexivity; ring.
Qed.

(** * Arcs of a well-formed graph *)
Lemma wf_base g : wf_graphb g = true -> g_base g = 2%nat \/ g_base g = 3%nat.
Proof.
  unfold wf_graphb. rewrite !andb_true_iff, orb_true_iff, !Nat.eqb_eq. tauto.
Qed.
Lemma wf_nodup g : wf_graphb g = true -> nodupb (lnls g) = true.
Proof. unfold wf_graphb. rewrite !andb_true_iff. tauto. Qed.
Lemma wf_edges g e : wf_graphb g = true -> In e (g_edges g) -> wf_edge g e = true.
Proof.
  unfold wf_graphb. rewrite !andb_true_iff. intros [_ H]. rewrite forallb_forall in H. apply H.
Qed.
Lemma inc_edges_In g lnl e : In e (inc_edges g lnl) <-> In e (g_edges g) /\ e_child e = lnl.
Proof. unfold inc_edges. rewrite filter_In. unfold str_eqb. rewrite String.eqb_eq. tauto. Qed.
Lemma wf_index g i lnl : wf_graphb g = true ->
  In (i, lnl) (combine (seq 0 (nlnls g)) (lnls g)) -> index_of lnl (lnls g) = i.
Proof.
  intros Hwf Hin. unfold nlnls in Hin. apply index_of_combine in Hin; [lia|]. apply wf_nodup, Hwf.
Qed.
Lemma state_digit_lt g x k : wf_graphb g = true -> In x (state_list g) -> (digit k x < g_base g)%nat.
Proof.
  intros Hwf Hx. apply (digit_lt _ (nlnls g)); [|exact Hx]. destruct (wf_base g Hwf); lia.
Qed.

Definition pd (g : graph) (e : edge) (x : state) : nat :=
  if is_tumor_spread e then 0%nat else parent_digit g e x.
Definition tentry (g : graph) (e : edge) (x : state) (a c : nat) : Qc :=
  tent (g_base g) (e_kind e) (e_spread e) (e_micro e) (parent_digit g e x) a c.

Lemma transition_tensor_ttens b e :
  transition_tensor b e = ttens b (e_kind e) (e_spread e) (e_micro e).
Proof.
  unfold transition_tensor, ttens, edge_micro, is_tumor_spread, is_growth.
  destruct (e_kind e); reflexivity.
Qed.

Lemma tget_inc g i lnl x e c :
  wf_graphb g = true -> In (i, lnl) (combine (seq 0 (nlnls g)) (lnls g)) ->
  In x (state_list g) -> In e (inc_edges g lnl) -> (c < g_base g)%nat ->
  tget (transition_tensor (g_base g) e) (pd g e x) (digit i x) c = tentry g e x (digit i x) c.
Proof.
  intros Hwf Hil Hx He Hc.
  pose proof (wf_base g Hwf) as Hb.
  pose proof (state_digit_lt g x i Hwf Hx) as Ha.
  apply inc_edges_In in He. destruct He as [He Hch].
  pose proof (wf_edges g e Hwf He) as Hwe. unfold wf_edge in Hwe.
  apply andb_true_iff in Hwe. destruct Hwe as [Hmc Hk].
  pose proof (wf_index g i lnl Hwf Hil) as Hi.
  rewrite transition_tensor_ttens. unfold tentry, pd, is_tumor_spread.
  destruct (e_kind e) eqn:K.
  - rewrite ttens_entry; try assumption; try lia; try discriminate.
    destruct (digit i x) as [|[|[|a]]], c as [|[|[|c]]]; reflexivity.
  - apply ttens_entry; try assumption; try discriminate.
    apply state_digit_lt; assumption.
  - apply andb_true_iff in Hk. destruct Hk as [Hpc Hb3].
    unfold str_eqb in Hpc. apply String.eqb_eq in Hpc. apply Nat.eqb_eq in Hb3.
    assert (Hp : parent_digit g e x = digit i x).
    { unfold parent_digit. rewrite Hpc, Hch, Hi. reflexivity. }
    apply ttens_entry; try assumption; try discriminate.
    + rewrite Hp. exact Ha.
    + intros _. split; assumption.
Qed.

(** entry lists of the arcs into [lnl] *)
Definition ents (g : graph) (lnl : string) (x : state) (a c : nat) : list Qc :=
  map (fun e => tentry g e x a c) (inc_edges g lnl).

Lemma ents_00 g lnl x : prodQ (ents g lnl x 0 0) = stay_healthy g lnl x.
Proof. reflexivity. Qed.
Lemma ents_01 g lnl x : prodQ (map (fun p => 1 - p) (ents g lnl x 0 1)) = stay_healthy g lnl x.
Proof. unfold ents. rewrite map_map. reflexivity. Qed.
Lemma ents_11 g lnl x : prodQ (ents g lnl x 1 1) = 1 - growth_prob g lnl.
Proof.
  unfold ents, growth_prob, tentry. cbn [tent].
  rewrite <- (prodQ_filter_if is_growth). unfold is_growth, kgrow.
  set (P := prodQ _). ring.
Qed.
Lemma ents_12 g lnl x : prodQ (map (fun p => 1 - p) (ents g lnl x 1 2)) = 1 - growth_prob g lnl.
Proof.
  unfold ents, growth_prob, tentry. cbn [tent]. rewrite map_map.
  rewrite <- (prodQ_filter_if is_growth). unfold is_growth.
  set (P := prodQ _). set (P' := prodQ _).
  assert (E : P = P').
  { subst P P'. apply prodQ_map_ext. intros e _. destruct (e_kind e); cbn [kgrow]; ring. }
  rewrite E. ring.
Qed.
Lemma ents_22 g lnl x : prodQ (ents g lnl x 2 2) = 1.
Proof. unfold ents, tentry. cbn [tent]. apply prodQ_map_one. Qed.
Lemma ents_zero g lnl x a c : (forall b k s m p, tent b k s m p a c = 0) ->
  prodQ (map (fun p => 1 - p) (ents g lnl x a c)) = 1.
Proof.
  intros H. unfold ents, tentry. rewrite map_map.
  rewrite (prodQ_map_ext _ (fun _ => 1)); [apply prodQ_map_one|].
  intros e _. cbv beta. rewrite H. ring.
Qed.

(** the entry-level fold behind [lnl_transition_matrix] *)
Definition Fent (g : graph) (lnl : string) (x : state) (a c : nat) : Qc :=
  fold_left (fun m e => update_rule a c m (tget (transition_tensor (g_base g) e) (pd g e x) a c))
    (inc_edges g lnl) (if Nat.eqb c a then 1 else 0).

Lemma ents_tget g i lnl x c :
  wf_graphb g = true -> In (i, lnl) (combine (seq 0 (nlnls g)) (lnls g)) ->
  In x (state_list g) -> (c < g_base g)%nat ->
  map (fun e => tget (transition_tensor (g_base g) e) (pd g e x) (digit i x) c) (inc_edges g lnl)
  = ents g lnl x (digit i x) c.
Proof.
  intros Hwf Hil Hx Hc. unfold ents. apply map_ext_in. intros e He.
  apply (tget_inc g i lnl); assumption.
Qed.

Lemma Fent_factor g i lnl x c :
  wf_graphb g = true -> In (i, lnl) (combine (seq 0 (nlnls g)) (lnls g)) ->
  In x (state_list g) -> (c < g_base g)%nat ->
  Fent g lnl x (digit i x) c = lnl_factor g x lnl (digit i x) c.
Proof.
  intros Hwf Hil Hx Hc. unfold Fent. rewrite fold_update_rule.
  rewrite (ents_tget g i lnl x c Hwf Hil Hx Hc).
  pose proof (state_digit_lt g x i Hwf Hx) as Ha.
  assert (Hb : (g_base g <= 3)%nat) by (destruct (wf_base g Hwf); lia).
  destruct (digit i x) as [|[|[|a]]], c as [|[|[|c]]]; try lia;
    cbn [Nat.eqb Nat.add lnl_factor];
    rewrite ?fold_mult_prodQ, ?fold_noisy_prodQ, ?ents_00, ?ents_01, ?ents_11, ?ents_12, ?ents_22;
    ring.
Qed.

Lemma comp_trans_prob_factor g i lnl x c :
  wf_graphb g = true -> In (i, lnl) (combine (seq 0 (nlnls g)) (lnls g)) ->
  In x (state_list g) -> (c < g_base g)%nat ->
  comp_trans_prob g x i lnl c = lnl_factor g x lnl (digit i x) c.
Proof.
  intros Hwf Hil Hx Hc.
  change (comp_trans_prob g x i lnl c) with
    (let probs := map (fun e => tget (transition_tensor (g_base g) e) (pd g e x) (digit i x) c)
                      (inc_edges g lnl) in
     if Nat.eqb c (digit i x) then fold_left Qcmult probs 1 else fold_left noisy probs 0).
  cbv zeta. rewrite (ents_tget g i lnl x c Hwf Hil Hx Hc).
  pose proof (state_digit_lt g x i Hwf Hx) as Ha.
  assert (Hb : (g_base g <= 3)%nat) by (destruct (wf_base g Hwf); lia).
  destruct (digit i x) as [|[|[|a]]], c as [|[|[|c]]]; try lia;
    cbn [Nat.eqb Nat.add lnl_factor];
    rewrite ?fold_mult_prodQ, ?fold_noisy_prodQ, ?ents_00, ?ents_01, ?ents_11, ?ents_12, ?ents_22;
    try (rewrite ents_zero by (intros; reflexivity)); ring.
Qed.

(** * Tabulation: the Impl matrices as tables over the state list *)
Definition tab {X} (S : list X) (f : X -> X -> Qc) : mat := map (fun x => map (fun y => f x y) S) S.

Lemma tab_ext {X} (S : list X) f f' :
  (forall x y, In x S -> In y S -> f x y = f' x y) -> tab S f = tab S f'.
Proof.
  intros H. unfold tab. apply map_ext_in. intros x Hx. apply map_ext_in. intros y Hy. apply H; assumption.
Qed.

Lemma hadamard_tab {X} (S : list X) f f' :
  hadamard (tab S f) (tab S f') = tab S (fun x y => f x y * f' x y).
Proof.
  unfold hadamard, tab. rewrite map2_map_map. apply map_ext. intros x.
  unfold vmul. rewrite map2_map_map. reflexivity.
Qed.

Lemma ones_tab {X} (S : list X) :
  repeat (ones (length S)) (length S) = tab S (fun _ _ => 1).
Proof. unfold tab, ones. rewrite <- !map_const_repeat. reflexivity. Qed.

(** parent column of an arc *)
Lemma par_col g e :
  wf_graphb g = true -> In e (g_edges g) ->
  (if is_tumor_spread e then repeat 0%nat (Nat.pow (g_base g) (nlnls g))
   else state_idx_col (index_of (e_parent e) (lnls g)) (nlnls g) (g_base g))
  = map (pd g e) (state_list g).
Proof.
  intros Hwf He. unfold pd, state_list.
  destruct (is_tumor_spread e) eqn:T.
  - rewrite map_const_repeat, all_states_length. reflexivity.
  - unfold parent_digit. rewrite <- digits_of_all_states; [reflexivity|].
    pose proof (wf_edges g e Hwf He) as Hwe. unfold wf_edge in Hwe.
    apply andb_true_iff in Hwe. destruct Hwe as [Hmc Hk].
    unfold is_tumor_spread in T. unfold nlnls. apply index_of_lt.
    destruct (e_kind e); try discriminate.
    + apply andb_true_iff in Hk. destruct Hk as [Hk _]. apply mem_In. exact Hk.
    + apply andb_true_iff in Hk. destruct Hk as [Hk _].
      unfold str_eqb in Hk. apply String.eqb_eq in Hk. rewrite Hk. apply mem_In. exact Hmc.
Qed.

Lemma lnl_matrix_fold g i (S : list state) (l : list edge) :
  (forall e, In e l -> (if is_tumor_spread e then repeat 0%nat (Nat.pow (g_base g) (nlnls g))
     else state_idx_col (index_of (e_parent e) (lnls g)) (nlnls g) (g_base g)) = map (pd g e) S) ->
  forall f : state -> state -> Qc,
  fold_left (fun (M : mat) (e : edge) =>
    let T := transition_tensor (g_base g) e in
    let par := if is_tumor_spread e then repeat 0%nat (Nat.pow (g_base g) (nlnls g))
               else state_idx_col (index_of (e_parent e) (lnls g)) (nlnls g) (g_base g) in
    let grid : mat := map2 (fun p c => map (fun nw => tget T p c nw) (map (digit i) S)) par (map (digit i) S) in
    map3 (fun c Mrow Grow => map3 (update_rule c) (map (digit i) S) Mrow Grow) (map (digit i) S) M grid)
    l (tab S f)
  = tab S (fun x y => fold_left (fun m e =>
        update_rule (digit i x) (digit i y) m
          (tget (transition_tensor (g_base g) e) (pd g e x) (digit i x) (digit i y))) l (f x y)).
Proof.
  induction l as [|e l IH]; intros Hpar f; cbn [fold_left]; [reflexivity|].
  cbv zeta. rewrite (Hpar e) by (left; reflexivity).
  rewrite map2_map_map.
  unfold tab at 1. rewrite map3_map_map_map.
  rewrite (map_ext _ (fun x => map (fun y => update_rule (digit i x) (digit i y) (f x y)
             (tget (transition_tensor (g_base g) e) (pd g e x) (digit i x) (digit i y))) S)).
  2:{ intros x. rewrite map_map. rewrite map3_map_map_map. reflexivity. }
  apply (IH (fun e' H => Hpar e' (or_intror H))
            (fun x y => update_rule (digit i x) (digit i y) (f x y)
               (tget (transition_tensor (g_base g) e) (pd g e x) (digit i x) (digit i y)))).
Qed.

Lemma lnl_matrix_tab g i lnl :
  wf_graphb g = true -> (i < nlnls g)%nat ->
  lnl_transition_matrix g i lnl
  = tab (state_list g) (fun x y => Fent g lnl x (digit i x) (digit i y)).
Proof.
  intros Hwf Hi. unfold lnl_transition_matrix. cbv zeta.
  rewrite <- (digits_of_all_states (g_base g) (nlnls g) i Hi).
  fold (state_list g).
  rewrite map_map.
  rewrite (map_ext _ (fun x => map (fun y => if Nat.eqb (digit i y) (digit i x) then 1 else 0) (state_list g))).
  2:{ intros x. rewrite map_map. reflexivity. }
  change (map (fun x => map (fun y => if Nat.eqb (digit i y) (digit i x) then 1 else 0) (state_list g)) (state_list g))
    with (tab (state_list g) (fun x y => if Nat.eqb (digit i y) (digit i x) then 1 else 0)).
  rewrite (lnl_matrix_fold g i (state_list g) (inc_edges g lnl)).
  - reflexivity.
  - intros e He. apply inc_edges_In in He. destruct He as [He _]. apply par_col; assumption.
Qed.

Lemma generate_fold g (S : list state) (l : list (nat * string)) (h : nat * string -> state -> state -> Qc) :
  (forall il, In il l -> lnl_transition_matrix g (fst il) (snd il) = tab S (h il)) ->
  forall f,
  fold_left (fun (TM : mat) '(i, lnl) => hadamard TM (lnl_transition_matrix g i lnl)) l (tab S f)
  = tab S (fun x y => f x y * prodQ (map (fun il => h il x y) l)).
Proof.
  induction l as [|[i lnl] l IH]; intros H f; cbn [fold_left map prodQ].
  - apply tab_ext. intros. ring.
  - pose proof (H (i, lnl) (or_introl eq_refl)) as H1. cbn [fst snd] in H1.
    rewrite H1, hadamard_tab.
    rewrite IH by (intros il Hil; apply H; right; exact Hil).
    apply tab_ext. intros. ring.
Qed.

Lemma transition_entries : C05_transition_entries_stmt.
Proof.
  intros g Hwf. unfold generate_transition, trans_spec_matrix. cbv zeta.
  assert (HN : Nat.pow (g_base g) (nlnls g) = length (state_list g)).
  { unfold state_list. rewrite all_states_length. reflexivity. }
  rewrite HN, ones_tab.
  rewrite (generate_fold g (state_list g) _
             (fun il x y => Fent g (snd il) x (digit (fst il) x) (digit (fst il) y))).
  - apply tab_ext. intros x y Hx Hy. unfold trans_spec. rewrite Qcmult_1_l.
    apply prodQ_map_ext. intros [i lnl] Hil. cbn [fst snd].
    apply Fent_factor; try assumption. apply state_digit_lt; assumption.
  - intros [i lnl] Hil. cbn [fst snd]. apply lnl_matrix_tab; [exact Hwf|].
    apply in_combine_l in Hil. apply in_seq in Hil. lia.
Qed.

(** * Node level agrees with the Spec *)
Lemma fold_mult_pairs {A B} (h : A -> B -> Qc) l : forall acc,
  fold_left (fun a '(i, s) => a * h i s) l acc = acc * prodQ (map (fun '(i, s) => h i s) l).
Proof.
  induction l as [|[i s] l IH]; intros acc; cbn [fold_left prodQ map]; [ring|].
  rewrite IH. ring.
Qed.

Lemma transition_prob_agrees : C05_transition_prob_agrees_stmt.
Proof.
  intros g x y Hwf Hx Hy. unfold transition_prob, trans_spec.
  rewrite (fold_mult_pairs (fun i lnl => comp_trans_prob g x i lnl (digit i y))).
  rewrite Qcmult_1_l. apply prodQ_map_ext. intros [i lnl] Hil.
  apply comp_trans_prob_factor; try assumption. apply state_digit_lt; assumption.
Qed.

(** * No regression, no skipping *)
Lemma lnl_factor_support g x lnl a c :
  lnl_factor g x lnl a c <> 0 -> (a <= c <= a + 1)%nat.
Proof.
  destruct a as [|[|[|a]]], c as [|[|[|c]]]; cbn [lnl_factor]; intros H; try lia; exfalso; apply H; reflexivity.
Qed.

Lemma combine_seq_nth {A} (l : list A) (d : A) : forall k i, (i < length l)%nat ->
  In ((k + i)%nat, nth i l d) (combine (seq k (length l)) l).
Proof.
  induction l as [|a l IH]; intros k i Hi; cbn [length] in Hi; [lia|].
  cbn [length seq combine]. destruct i as [|i]; cbn [nth].
  - left. f_equal. lia.
  - right. replace (k + S i)%nat with (S k + i)%nat by lia. apply IH. lia.
Qed.

Lemma never_regresses_never_skips : C05_never_regresses_never_skips_stmt.
Proof.
  intros g x y Hwf Hx Hy Hne i Hi.
  apply (lnl_factor_support g x (nth i (lnls g) EmptyString)).
  intros H0. apply Hne. unfold trans_spec. apply prodQ_zero_in.
  apply in_map_iff. exists (i, nth i (lnls g) EmptyString). split; [exact H0|].
  unfold nlnls in *. apply (combine_seq_nth (lnls g) EmptyString 0 i Hi).
Qed.

(** * Entries lie in the unit interval *)
Lemma Qc_unit_compl a : 0 <= a <= 1 -> 0 <= 1 - a <= 1.
Proof.
  intros [H1 H2]. qc2q. revert H1 H2. generalize (this a). intros; split; lra.
Qed.
Lemma Qc_unit_mul a b : 0 <= a <= 1 -> 0 <= b <= 1 -> 0 <= a * b <= 1.
Proof.
  intros [H1 H2] [H3 H4]. qc2q. revert H1 H2 H3 H4. generalize (this a) (this b). intros; split; nra.
Qed.
Lemma Qc_unit_0 : 0 <= 0 <= 1. Proof. split; discriminate. Qed.
Lemma Qc_unit_1 : 0 <= 1 <= 1. Proof. split; discriminate. Qed.

Lemma prodQ_map_unit {A} (f : A -> Qc) l :
  (forall a, In a l -> 0 <= f a <= 1) -> 0 <= prodQ (map f l) <= 1.
Proof.
  intros H. apply prodQ_unit. intros q Hq. apply in_map_iff in Hq. destruct Hq as [a [<- Ha]]. apply H, Ha.
Qed.

Lemma arc_prob_unit g e x : 0 <= e_spread e <= 1 -> 0 <= e_micro e <= 1 -> 0 <= arc_prob g e x <= 1.
Proof.
  intros Hs Hm. unfold arc_prob.
  destruct (e_kind e); [exact Hs| |exact Qc_unit_0].
  destruct (parent_digit g e x) as [|[|p]]; [exact Qc_unit_0| |exact Hs].
  destruct (Nat.eqb (g_base g) 3); [apply Qc_unit_mul; assumption|exact Hs].
Qed.

Lemma lnl_factor_unit g x lnl a c : params_in_unit g -> 0 <= lnl_factor g x lnl a c <= 1.
Proof.
  intros Hp.
  assert (Hsh : 0 <= stay_healthy g lnl x <= 1).
  { unfold stay_healthy. apply prodQ_map_unit. intros e He. apply inc_edges_In in He. destruct He as [He _].
    apply Qc_unit_compl, arc_prob_unit; apply (Hp e He). }
  assert (Hgp : 0 <= growth_prob g lnl <= 1).
  { unfold growth_prob. apply Qc_unit_compl. apply prodQ_map_unit. intros e He.
    apply filter_In in He. destruct He as [He _]. apply inc_edges_In in He. destruct He as [He _].
    apply Qc_unit_compl. apply (Hp e He). }
  destruct a as [|[|[|a]]], c as [|[|[|c]]]; cbn [lnl_factor];
    first [exact Qc_unit_0 | exact Qc_unit_1 | assumption | apply Qc_unit_compl; assumption].
Qed.

Lemma entries_in_unit_interval : C05_entries_in_unit_interval_stmt.
Proof.
  intros g x y Hwf Hp Hx Hy. unfold trans_spec. apply prodQ_map_unit.
  intros [i lnl] _. apply lnl_factor_unit, Hp.
Qed.

(** * Rows sum to one *)
Lemma prod_digits (l : list string) : forall (k : nat) (h : nat -> string -> nat -> Qc) (y : state),
  length y = length l ->
  prodQ (map (fun '(i, s) => h i s (nth (i - k) y 0%nat)) (combine (seq k (length l)) l))
  = prod_over (map (fun '(i, s) => h i s) (combine (seq k (length l)) l)) y.
Proof.
  induction l as [|a l IH]; intros k h [|d y] Hlen; try discriminate;
    cbn [length seq combine map prodQ prod_over]; [reflexivity|].
  replace (k - k)%nat with 0%nat by lia. cbn [nth]. f_equal.
  rewrite <- (IH (S k) h y) by (cbn [length] in Hlen; lia).
  apply prodQ_map_ext. intros [i s] Hin. apply in_combine_l in Hin. apply in_seq in Hin.
  replace (i - k)%nat with (S (i - S k)) by lia. reflexivity.
Qed.

Lemma filter_nil {A} (p : A -> bool) l : (forall a, In a l -> p a = false) -> filter p l = [].
Proof.
  induction l as [|a l IH]; intros H; cbn [filter]; [reflexivity|].
  rewrite (H a) by (left; reflexivity). apply IH. intros a' Ha'. apply H. right. exact Ha'.
Qed.

Lemma growth_prob_binary g lnl : wf_graphb g = true -> g_base g = 2%nat -> growth_prob g lnl = 0.
Proof.
  intros Hwf Hb. unfold growth_prob.
  rewrite filter_nil.
  - cbn [map prodQ]. ring.
  - intros e He. apply inc_edges_In in He. destruct He as [He _].
    pose proof (wf_edges g e Hwf He) as Hwe. unfold wf_edge in Hwe.
    apply andb_true_iff in Hwe. destruct Hwe as [_ Hk]. unfold is_growth.
    destruct (e_kind e); try reflexivity.
    apply andb_true_iff in Hk. destruct Hk as [_ Hk]. rewrite Hb in Hk. discriminate.
Qed.

Lemma lnl_factor_sum g x lnl a :
  wf_graphb g = true -> (a < g_base g)%nat ->
  sumQ (map (lnl_factor g x lnl a) (seq 0 (g_base g))) = 1.
Proof.
  intros Hwf Ha. destruct (wf_base g Hwf) as [Hb|Hb].
  - pose proof (growth_prob_binary g lnl Hwf Hb) as Hg. rewrite Hb in *.
    destruct a as [|[|a]]; try lia; cbn [seq map sumQ lnl_factor]; rewrite ?Hg; ring.
  - rewrite Hb in *.
    destruct a as [|[|[|a]]]; try lia; cbn [seq map sumQ lnl_factor]; ring.
Qed.

Lemma trans_spec_prod_over g x y : length y = nlnls g ->
  trans_spec g x y
  = prod_over (map (fun '(i, s) => lnl_factor g x s (digit i x)) (combine (seq 0 (nlnls g)) (lnls g))) y.
Proof.
  intros Hlen. unfold trans_spec, nlnls in *.
  rewrite <- (prod_digits (lnls g) 0 (fun i s => lnl_factor g x s (digit i x)) y Hlen).
  apply prodQ_map_ext. intros [i s] _. rewrite Nat.sub_0_r. reflexivity.
Qed.

Lemma row_sums : C05_row_sums_stmt.
Proof.
  intros g x Hwf Hx.
  set (fs := map (fun '(i, s) => lnl_factor g x s (digit i x)) (combine (seq 0 (nlnls g)) (lnls g))).
  assert (Hfs : length fs = nlnls g).
  { subst fs. rewrite map_length, combine_length, seq_length. unfold nlnls. apply Nat.min_id. }
  rewrite (map_ext_in _ (prod_over fs)).
  2:{ intros y Hy. apply trans_spec_prod_over. apply all_states_In in Hy. tauto. }
  unfold state_list. rewrite <- Hfs, sum_prod_states.
  subst fs. rewrite map_map.
  rewrite (prodQ_map_ext _ (fun _ => 1)); [apply prodQ_map_one|].
  intros [i s] _. apply lnl_factor_sum; [exact Hwf|]. apply state_digit_lt; assumption.
Qed.
