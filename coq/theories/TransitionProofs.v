(** TransitionProofs: proofs of the C05 statements of Transition.v.
    [generate_transition] (Impl, the grid/fancy-indexing computation) equals
    [trans_spec_matrix] (Spec, the per-LNL rule) on every well-formed graph; rows
    of the Spec sum to one, entries lie in [0,1], no LNL regresses or skips a
    state, and the node-level [transition_prob] agrees with the Spec. *)
From LymphModel Require Import Base States Linalg Graph Transition.
Local Open Scope nat_scope.
Open Scope Qc_scope.

(** * Small list / string facts *)
Lemma mem_In s l : mem s l = true <-> In s l.
Proof.
  induction l as [|a l IH]; cbn [mem In].
  - split; [discriminate|tauto].
  - rewrite orb_true_iff, IH. unfold str_eqb. rewrite String.eqb_eq.
    split; intros [H|H]; auto.
Qed.

Lemma index_of_lt s l : In s l -> (index_of s l < length l)%nat.
Proof.
  induction l as [|a l IH]; cbn [In index_of length]; [tauto|].
  intros H. destruct (str_eqb s a) eqn:E; [lia|].
  destruct H as [H|H].
  - subst. unfold str_eqb in E. rewrite String.eqb_refl in E. discriminate.
  - apply IH in H. lia.
Qed.

Lemma index_of_combine l : forall k i s, nodupb l = true ->
  In (i, s) (combine (seq k (length l)) l) -> (k + index_of s l)%nat = i.
Proof.
  induction l as [|a l IH]; intros k i s Hnd Hin; cbn [length seq combine In] in Hin; [tauto|].
  cbn [nodupb] in Hnd. apply andb_true_iff in Hnd. destruct Hnd as [Ha Hnd].
  cbn [index_of]. destruct Hin as [Hin|Hin].
  - inversion Hin; subst. unfold str_eqb. rewrite String.eqb_refl. lia.
  - destruct (str_eqb s a) eqn:E.
    + unfold str_eqb in E. apply String.eqb_eq in E. subst.
      apply in_combine_r in Hin. apply mem_In in Hin. rewrite Hin in Ha. discriminate.
    + apply IH in Hin; [lia|exact Hnd].
Qed.

Lemma digit_lt b n x k : (0 < b)%nat -> In x (all_states b n) -> (digit k x < b)%nat.
Proof.
  intros Hb Hx. apply all_states_In in Hx. destruct Hx as [_ Hf]. unfold digit.
  destruct (Nat.lt_ge_cases k (length x)) as [H|H].
  - rewrite Forall_forall in Hf. apply Hf. apply nth_In. exact H.
  - rewrite nth_overflow by exact H. exact Hb.
Qed.

(** * Folds as products *)
Definition noisy (tp ep : Qc) : Qc := 1 - (1 - tp) * (1 - ep).

Lemma fold_mult_prodQ ps : forall acc, fold_left Qcmult ps acc = acc * prodQ ps.
Proof.
  induction ps as [|p ps IH]; intros acc; cbn [fold_left prodQ]; [ring|].
  rewrite IH. ring.
Qed.
Lemma fold_noisy_prodQ ps : forall acc,
  fold_left noisy ps acc = 1 - (1 - acc) * prodQ (map (fun p => 1 - p) ps).
Proof.
  induction ps as [|p ps IH]; intros acc; cbn [fold_left prodQ map]; [ring|].
  rewrite IH. unfold noisy. ring.
Qed.
Lemma fold_mult_map {A} (h : A -> Qc) l : forall acc,
  fold_left (fun a z => a * h z) l acc = acc * prodQ (map h l).
Proof.
  induction l as [|z l IH]; intros acc; cbn [fold_left prodQ map]; [ring|].
  rewrite IH. ring.
Qed.
Lemma fold_update_rule {A} (t : A -> Qc) a c l : forall acc,
  fold_left (fun m e => update_rule a c m (t e)) l acc
  = if Nat.eqb c (a + 1) then fold_left noisy (map t l) acc else fold_left Qcmult (map t l) acc.
Proof.
  induction l as [|e l IH]; intros acc; cbn [fold_left map].
  - destruct (Nat.eqb c (a + 1)); reflexivity.
  - rewrite IH. unfold update_rule, noisy. destruct (Nat.eqb c (a + 1)); reflexivity.
Qed.

Lemma prodQ_zero_in l : In 0 l -> prodQ l = 0.
Proof.
  induction l as [|a l IH]; cbn [In prodQ]; [tauto|].
  intros [H|H]; [subst; ring|]. rewrite IH by exact H. ring.
Qed.
Lemma prodQ_filter_if {A} (p : A -> bool) (f : A -> Qc) l :
  prodQ (map (fun e => if p e then f e else 1) l) = prodQ (map f (filter p l)).
Proof.
  induction l as [|e l IH]; cbn [map filter prodQ]; [reflexivity|].
  rewrite IH. destruct (p e); cbn [map prodQ]; ring.
Qed.
Lemma prodQ_unit l : (forall a, In a l -> 0 <= a <= 1) -> 0 <= prodQ l <= 1.
Proof.
  induction l as [|a l IH]; intros H; cbn [prodQ].
  - split; discriminate.
  - assert (Ha : 0 <= a <= 1) by (apply H; left; reflexivity).
    assert (Hl : 0 <= prodQ l <= 1) by (apply IH; intros; apply H; right; assumption).
    revert Ha Hl. generalize (prodQ l). intros p [Ha1 Ha2] [Hp1 Hp2]. qc2q.
    revert Ha1 Ha2 Hp1 Hp2. generalize (this a) (this p). intros; split; nra.
Qed.

(** * Entries of an arc's transition tensor *)
Definition arcp (b : nat) (k : ekind) (s m : Qc) (p : nat) : Qc :=
  match k with
  | ETumor => s
  | EGrowth => 0
  | ELnl => match p with
            | O => 0
            | S O => if Nat.eqb b 3 then s * m else s
            | _ => s
            end
  end.
Definition kgrow (k : ekind) : bool := match k with EGrowth => true | _ => false end.
Definition ktum (k : ekind) : bool := match k with ETumor => true | _ => false end.
Definition tent (b : nat) (k : ekind) (s m : Qc) (p a c : nat) : Qc :=
  match a, c with
  | O, O => 1 - arcp b k s m p
  | O, S O => arcp b k s m p
  | S O, S O => if kgrow k then 1 - s else 1
  | S O, S (S O) => if kgrow k then s else 0
  | S (S O), S (S O) => 1
  | _, _ => 0
  end.
Definition ttens (b : nat) (k : ekind) (s m : Qc) : tensor :=
  comp_transition_tensor (if ktum k then 1%nat else b) b (ktum k) (kgrow k) s
    (match k with ETumor => 1 | _ => if Nat.eqb b 3 then m else 1 end).

Lemma ttens_entry b k s m p a c :
  b = 2%nat \/ b = 3%nat -> (a < b)%nat -> (c < b)%nat -> (p < b)%nat ->
  (k = ETumor -> p = 0%nat) -> (k = EGrowth -> b = 3%nat /\ p = a) ->
  tget (ttens b k s m) p a c = tent b k s m p a c.
Proof.
  intros Hb Ha Hc Hp Hkt Hkg.
  destruct k.
  - rewrite (Hkt eq_refl). clear Hkt Hkg Hp.
    destruct Hb; subst b;
      destruct a as [|[|[|a]]], c as [|[|[|c]]]; try lia;
      cbv [ttens ktum kgrow comp_transition_tensor tensor_set set_nth tget nth repeat eye eye_row
           map seq Nat.eqb pad Nat.sub app tent arcp]; try reflexivity; ring.
  - clear Hkt Hkg.
    destruct Hb; subst b;
      destruct a as [|[|[|a]]], c as [|[|[|c]]], p as [|[|[|p]]]; try lia;
      cbv [ttens ktum kgrow comp_transition_tensor tensor_set set_nth tget nth repeat eye eye_row
           map seq Nat.eqb pad Nat.sub app tent arcp]; try reflexivity; ring.
  - destruct (Hkg eq_refl) as [-> ->]. clear Hkt Hkg Hb Hp.
    destruct a as [|[|[|a]]], c as [|[|[|c]]]; try lia;
      cbv [ttens ktum kgrow comp_transition_tensor tensor_set set_nth tget nth repeat eye eye_row
           map seq Nat.eqb pad Nat.sub app tent arcp]; try reflexivity; ring.
Qed.

(** * Arcs of a well-formed graph *)
Lemma wf_base g : wf_graphb g = true -> g_base g = 2%nat \/ g_base g = 3%nat.
Proof.
  unfold wf_graphb. rewrite !andb_true_iff, orb_true_iff, !Nat.eqb_eq. tauto.
Qed.
Lemma wf_nodup g : wf_graphb g = true -> nodupb (lnls g) = true.
Proof. unfold wf_graphb. rewrite !andb_true_iff. tauto. Qed.
Lemma wf_edges g e : wf_graphb g = true -> In e (g_edges g) -> wf_edge g e = true.
Proof.
  unfold wf_graphb. rewrite !andb_true_iff. intros [_ H]. rewrite forallb_forall in H. apply H.
Qed.
Lemma inc_edges_In g lnl e : In e (inc_edges g lnl) <-> In e (g_edges g) /\ e_child e = lnl.
Proof. unfold inc_edges. rewrite filter_In. unfold str_eqb. rewrite String.eqb_eq. tauto. Qed.
Lemma wf_index g i lnl : wf_graphb g = true ->
  In (i, lnl) (combine (seq 0 (nlnls g)) (lnls g)) -> index_of lnl (lnls g) = i.
Proof.
  intros Hwf Hin. unfold nlnls in Hin. apply index_of_combine in Hin; [lia|]. apply wf_nodup, Hwf.
Qed.
Lemma state_digit_lt g x k : wf_graphb g = true -> In x (state_list g) -> (digit k x < g_base g)%nat.
Proof.
  intros Hwf Hx. apply (digit_lt _ (nlnls g)); [|exact Hx]. destruct (wf_base g Hwf); lia.
Qed.

Definition pd (g : graph) (e : edge) (x : state) : nat :=
  if is_tumor_spread e then 0%nat else parent_digit g e x.
Definition tentry (g : graph) (e : edge) (x : state) (a c : nat) : Qc :=
  tent (g_base g) (e_kind e) (e_spread e) (e_micro e) (parent_digit g e x) a c.

Lemma transition_tensor_ttens b e :
  transition_tensor b e = ttens b (e_kind e) (e_spread e) (e_micro e).
Proof.
  unfold transition_tensor, ttens, edge_micro, is_tumor_spread, is_growth.
  destruct (e_kind e); reflexivity.
Qed.

Lemma tget_inc g i lnl x e c :
  wf_graphb g = true -> In (i, lnl) (combine (seq 0 (nlnls g)) (lnls g)) ->
  In x (state_list g) -> In e (inc_edges g lnl) -> (c < g_base g)%nat ->
  tget (transition_tensor (g_base g) e) (pd g e x) (digit i x) c = tentry g e x (digit i x) c.
Proof.
  intros Hwf Hil Hx He Hc.
  pose proof (wf_base g Hwf) as Hb.
  pose proof (state_digit_lt g x i Hwf Hx) as Ha.
  apply inc_edges_In in He. destruct He as [He Hch].
  pose proof (wf_edges g e Hwf He) as Hwe. unfold wf_edge in Hwe.
  apply andb_true_iff in Hwe. destruct Hwe as [Hmc Hk].
  pose proof (wf_index g i lnl Hwf Hil) as Hi.
  rewrite transition_tensor_ttens. unfold tentry, pd, is_tumor_spread.
  destruct (e_kind e) eqn:K.
  - rewrite ttens_entry; try assumption; try lia; try discriminate.
    + destruct (digit i x) as [|[|[|a]]], c as [|[|[|c]]]; reflexivity.
    + destruct Hb; lia.
  - apply ttens_entry; try assumption; try discriminate.
    apply state_digit_lt; assumption.
  - apply andb_true_iff in Hk. destruct Hk as [Hpc Hb3].
    unfold str_eqb in Hpc. apply String.eqb_eq in Hpc. apply Nat.eqb_eq in Hb3.
    assert (Hp : parent_digit g e x = digit i x).
    { unfold parent_digit. rewrite Hpc, Hch, Hi. reflexivity. }
    apply ttens_entry; try assumption; try discriminate.
    + rewrite Hp. exact Ha.
    + intros _. split; assumption.
Qed.

(** entry lists of the arcs into [lnl] *)
Definition ents (g : graph) (lnl : string) (x : state) (a c : nat) : list Qc :=
  map (fun e => tentry g e x a c) (inc_edges g lnl).

Lemma ents_00 g lnl x : prodQ (ents g lnl x 0 0) = stay_healthy g lnl x.
Proof. reflexivity. Qed.
Lemma ents_01 g lnl x : prodQ (map (fun p => 1 - p) (ents g lnl x 0 1)) = stay_healthy g lnl x.
Proof. unfold ents. rewrite map_map. reflexivity. Qed.
Lemma ents_11 g lnl x : prodQ (ents g lnl x 1 1) = 1 - growth_prob g lnl.
Proof.
  unfold ents, growth_prob, tentry. cbn [tent].
  rewrite <- (prodQ_filter_if is_growth). unfold is_growth.
  set (P := prodQ _). set (P' := prodQ _).
  assert (E : P = P').
  { subst P P'. apply prodQ_map_ext. intros e _. destruct (e_kind e); reflexivity. }
  rewrite E. ring.
Qed.
Lemma ents_12 g lnl x : prodQ (map (fun p => 1 - p) (ents g lnl x 1 2)) = 1 - growth_prob g lnl.
Proof.
  unfold ents, growth_prob, tentry. cbn [tent]. rewrite map_map.
  rewrite <- (prodQ_filter_if is_growth). unfold is_growth.
  set (P := prodQ _). set (P' := prodQ _).
  assert (E : P = P').
  { subst P P'. apply prodQ_map_ext. intros e _. destruct (e_kind e); cbn [kgrow]; ring. }
  rewrite E. ring.
Qed.
Lemma ents_22 g lnl x : prodQ (ents g lnl x 2 2) = 1.
Proof. unfold ents, tentry. cbn [tent]. apply prodQ_map_one. Qed.
Lemma ents_zero g lnl x a c : (forall b k s m p, tent b k s m p a c = 0) ->
  prodQ (map (fun p => 1 - p) (ents g lnl x a c)) = 1.
Proof.
  intros H. unfold ents, tentry. rewrite map_map.
  rewrite <- (prodQ_map_one (inc_edges g lnl)). apply prodQ_map_ext. intros e _. rewrite H. ring.
Qed.

(** the entry-level fold behind [lnl_transition_matrix] *)
Definition Fent (g : graph) (lnl : string) (x : state) (a c : nat) : Qc :=
  fold_left (fun m e => update_rule a c m (tget (transition_tensor (g_base g) e) (pd g e x) a c))
    (inc_edges g lnl) (if Nat.eqb c a then 1 else 0).

Lemma ents_tget g i lnl x c :
  wf_graphb g = true -> In (i, lnl) (combine (seq 0 (nlnls g)) (lnls g)) ->
  In x (state_list g) -> (c < g_base g)%nat ->
  map (fun e => tget (transition_tensor (g_base g) e) (pd g e x) (digit i x) c) (inc_edges g lnl)
  = ents g lnl x (digit i x) c.
Proof.
  intros Hwf Hil Hx Hc. unfold ents. apply map_ext_in. intros e He.
  apply (tget_inc g i lnl); assumption.
Qed.

Lemma Fent_factor g i lnl x c :
  wf_graphb g = true -> In (i, lnl) (combine (seq 0 (nlnls g)) (lnls g)) ->
  In x (state_list g) -> (c < g_base g)%nat ->
  Fent g lnl x (digit i x) c = lnl_factor g x lnl (digit i x) c.
Proof.
  intros Hwf Hil Hx Hc. unfold Fent. rewrite fold_update_rule.
  rewrite (ents_tget g i lnl x c Hwf Hil Hx Hc).
  pose proof (state_digit_lt g x i Hwf Hx) as Ha.
  assert (Hb : (g_base g <= 3)%nat) by (destruct (wf_base g Hwf); lia).
  destruct (digit i x) as [|[|[|a]]], c as [|[|[|c]]]; try lia;
    cbn [Nat.eqb Nat.add lnl_factor];
    rewrite ?fold_mult_prodQ, ?fold_noisy_prodQ, ?ents_00, ?ents_01, ?ents_11, ?ents_12, ?ents_22;
    ring.
Qed.

Lemma comp_trans_prob_factor g i lnl x c :
  wf_graphb g = true -> In (i, lnl) (combine (seq 0 (nlnls g)) (lnls g)) ->
  In x (state_list g) -> (c < g_base g)%nat ->
  comp_trans_prob g x i lnl c = lnl_factor g x lnl (digit i x) c.
Proof.
  intros Hwf Hil Hx Hc.
  change (comp_trans_prob g x i lnl c) with
    (let probs := map (fun e => tget (transition_tensor (g_base g) e) (pd g e x) (digit i x) c)
                      (inc_edges g lnl) in
     if Nat.eqb c (digit i x) then fold_left Qcmult probs 1 else fold_left noisy probs 0).
  cbv zeta. rewrite (ents_tget g i lnl x c Hwf Hil Hx Hc).
  pose proof (state_digit_lt g x i Hwf Hx) as Ha.
  assert (Hb : (g_base g <= 3)%nat) by (destruct (wf_base g Hwf); lia).
  destruct (digit i x) as [|[|[|a]]], c as [|[|[|c]]]; try lia;
    cbn [Nat.eqb Nat.add lnl_factor];
    rewrite ?fold_mult_prodQ, ?fold_noisy_prodQ, ?ents_00, ?ents_01, ?ents_11, ?ents_12, ?ents_22;
    try (rewrite ents_zero by (intros; reflexivity)); ring.
Qed.
