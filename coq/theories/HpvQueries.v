(** HpvQueries: [models.HPVUnilateral.state_dist / posterior_state_dist / marginalize / risk]
    (lymph/models/hpv.py, decorator [select_hpv_model]): the call is delegated to the HPV+
    sub-model for [hpv_status=True], to the HPV- sub-model for [False], and raises
    ValueError when no status is given.  Definitions, statements and the (short) proofs;
    through the delegation every C02 / C07 theorem about [Unilateral] applies to the
    selected sub-model. *)
From LymphModel Require Import Base States Linalg Graph Transition Observation Dist Unilateral UniStatements Models
  ObservationProofs PosteriorProofs.
Local Open Scope nat_scope.
Open Scope Qc_scope.

Definition hpv_select (h : hpvmodel) (status : option bool) : res uni :=
  match status with
  | None => inl MValue
  | Some true => inr (h_hpv h)
  | Some false => inr (h_nohpv h)
  end.
Definition hpv_state_dist (h : hpvmodel) (status : option bool) (t : string) (hmm : bool) : res vec :=
  bind (hpv_select h status) (fun u => state_dist u t hmm).
Definition hpv_posterior (h : hpvmodel) (status : option bool) (d : option diagnosis) (t : string) (hmm : bool)
  : res (option vec) :=
  bind (hpv_select h status) (fun u => bind (state_dist u t hmm) (fun prior => posterior_of u prior d)).
Definition hpv_marginalize (h : hpvmodel) (status : option bool) (inv : pattern) (t : string) (hmm : bool) : res Qc :=
  bind (hpv_select h status) (fun u => bind (state_dist u t hmm) (fun sd => marginalize_of u inv sd)).
Definition hpv_risk (h : hpvmodel) (status : option bool) (inv : pattern) (d : option diagnosis) (t : string)
  (hmm : bool) : res (option Qc) :=
  bind (hpv_select h status) (fun u => risk u inv d t hmm).

Definition hpv_sub (h : hpvmodel) (b : bool) : uni := if b then h_hpv h else h_nohpv h.

(** the four queries are those of the selected sub-model; without a status they raise *)
Definition C02_hpv_delegation_stmt : Prop :=
  forall h b inv d t hmm,
    hpv_risk h (Some b) inv d t hmm = risk (hpv_sub h b) inv d t hmm /\
    hpv_state_dist h (Some b) t hmm = state_dist (hpv_sub h b) t hmm /\
    hpv_posterior h (Some b) d t hmm = bind (state_dist (hpv_sub h b) t hmm) (fun prior => posterior_of (hpv_sub h b) prior d) /\
    hpv_marginalize h (Some b) inv t hmm = bind (state_dist (hpv_sub h b) t hmm) (fun sd => marginalize_of (hpv_sub h b) inv sd) /\
    hpv_risk h None inv d t hmm = inl MValue /\ hpv_state_dist h None t hmm = inl MValue /\
    hpv_posterior h None d t hmm = inl MValue /\ hpv_marginalize h None inv t hmm = inl MValue.
(** the other sub-model's parameters do not enter *)
Definition C02_hpv_other_submodel_irrelevant_stmt : Prop :=
  forall h u' inv d t hmm,
    hpv_risk {| h_hpv := h_hpv h; h_nohpv := u' |} (Some true) inv d t hmm = hpv_risk h (Some true) inv d t hmm /\
    hpv_risk {| h_hpv := u'; h_nohpv := h_nohpv h |} (Some false) inv d t hmm = hpv_risk h (Some false) inv d t hmm.
(** Bayes' rule (C02_risk_bayes) for the HPV model *)
Definition C02_hpv_risk_bayes_stmt : Prop :=
  forall h b prior d inv post r, let u := hpv_sub h b in
    wf_uni u = true -> wf_patient {| p_tstage := ""; p_find := d |} = true ->
    length prior = length (u_states u) ->
    posterior_of u prior (Some d) = inr (Some post) -> marginalize_of u inv post = inr r ->
    r = sumQ (map (fun '(x, j) => if matches_pattern (u_lnls u) inv (u_base u) x then j else 0)
                  (combine (u_states u) (joint_spec u prior d)))
        / sumQ (joint_spec u prior d).

Lemma hpv_delegation : C02_hpv_delegation_stmt.
Proof. intros h b inv d t hmm. destruct b; repeat split; reflexivity. Qed.
Lemma hpv_other_submodel_irrelevant : C02_hpv_other_submodel_irrelevant_stmt.
Proof. intros h u' inv d t hmm. split; reflexivity. Qed.
Lemma hpv_risk_bayes : C02_hpv_risk_bayes_stmt.
Proof. intros h b prior d inv post r u. apply (risk_bayes observation_entries). Qed.
