(** ParamsMidlineMore: Midline, "a keyword beats the positional value" (C10, listed as not
    proved in notes/slice-C10.md).  Statement in the style of ParamsStatements.v, proof from
    the inversion lemmas of ParamsMidline.v ([m_set_params_unfold], [m_chain_inv_mix],
    [m_chain_inv_nomix], [mid_names_ok_final]).  New file; nothing existing is changed. *)
From LymphModel Require Import Base States Linalg Graph Transition Observation Dist Unilateral Models Params
  ParamsStatements ParamsLemmas ParamsProofs ParamsBilateral ParamsMidline.
Local Open Scope nat_scope.
Local Open Scope string_scope.
Local Open Scope list_scope.

(** * Statement *)
(** A distribution parameter is reported under its plain name "t_k" (read from ext.ipsi), but
    on its way ext -> ipsi -> T-stage the more specific keywords "ext_ipsi_t_k", "ipsi_t_k",
    "ext_t_k" take precedence over it (child-prefixed distribution keywords: the accepted known
    finding of slice C11).  [dist_name_plain]: none of them is passed. *)
Definition dist_name_plain (kw : kwargs) (K : path) : Prop :=
  kw_last ("ext" :: "ipsi" :: K) kw = None /\ kw_last ("ipsi" :: K) kw = None /\ kw_last ("ext" :: K) kw = None.

(** [set_params( *a, **kw)] with a keyword for the reported name [K] (any of the names of
    [get_params]: "ipsi_*", "contra_*", "noext_contra_*", "ext_contra_*", "mixing", LNL names,
    distribution names, "midext_prob"): if the call returns, [get_params] reports the keyword's
    value under [K], WHATEVER the positional arguments and the other keywords (global names
    like "spread", "ipsi_spread", ... included) are.  Python keyword arguments form a dict,
    hence [NoDup]. *)
Definition C10_mid_keyword_over_positional_stmt : Prop :=
  forall m a kw K q, mid_set_ok m = true -> NoDup (map fst kw) ->
    In K (map fst (mid_items m)) -> kw_get K kw = Some (V q) ->
    (In K (map fst (u_dist_items (ml_ei m))) -> dist_name_plain kw K) ->
    let r := m_set_params m a kw in
    snd r <> None -> option_map (kw_get K) (m_got (fst r)) = Some (Some q).

(** * Look-ups of a given keyword in an arbitrary keyword dict *)
Section KwGen.
  Variable kw : kwargs.
  Hypothesis Hnd : NoDup (map fst kw).
  Lemma kw_last_get K : kw_last K kw = kw_get K kw.
  Proof. apply kw_last_NoDup, Hnd. Qed.

  Section WithX4.
    Variables (split : list (string * kwargs)) (glob : kwargs).
    Hypothesis Hu : unflatten_and_split kw X4 = (split, glob).

    Lemma g_lk_side side n t x : In side X4 -> kw_get (side :: n :: t) kw = Some x ->
      u_lk (obj_kwargs side split glob) (n :: t) = Some x.
    Proof.
      intros Hs Hin. unfold u_lk. rewrite kw_last_NoDup by (apply (obj_kwargs_NoDup kw X4); exact Hu).
      rewrite (obj_kwargs_lookup kw X4 side (n :: t) split glob not_empty_X4 Hu Hs). unfold eff. rewrite kw_last_get, Hin. reflexivity.
    Qed.
    Lemma g_lk_glob n t x : ~ In n X4 -> kw_get (n :: t) kw = Some x -> u_lk glob (n :: t) = Some x.
    Proof.
      intros Hn Hin. unfold u_lk. destruct (glob_lookup kw X4 (n :: t) split glob not_empty_X4 Hu) as [Hg Hgnd].
      rewrite kw_last_NoDup by exact Hgnd. rewrite Hg. unfold head_of. cbn [partition_key fst]. apply mem_false in Hn. rewrite Hn.
      rewrite kw_last_get, Hin. reflexivity.
    Qed.
    Lemma g_lk_mixing x : kw_get ["mixing"] kw = Some x -> kw_get ["mixing"] glob = Some x.
    Proof.
      intros Hin. destruct (glob_lookup kw X4 ["mixing"] split glob not_empty_X4 Hu) as [Hg _]. rewrite Hg. cbn.
      rewrite kw_last_get. exact Hin.
    Qed.
    Lemma g_lk_nested side nsplit ng n t x : (side = "noext" \/ side = "ext") ->
      unflatten_and_split (sub_kwargs side split) ["contra"] = (nsplit, ng) -> kw_get (side :: "contra" :: n :: t) kw = Some x ->
      u_lk (obj_kwargs "contra" nsplit glob) (n :: t) = Some x.
    Proof.
      intros Hside Hun Hin. assert (Hs : In side X4) by (destruct Hside as [-> | ->]; cbn; tauto).
      destruct (glob_lookup kw X4 (n :: t) split glob not_empty_X4 Hu) as [_ Hgnd].
      assert (Hc : ~ In "" ["contra"]) by (cbn; intuition discriminate).
      destruct (sub_kwargs_lookup (sub_kwargs side split) ["contra"] "contra" (n :: t) nsplit ng Hc Hun (or_introl eq_refl)) as [Hsub Hsnd].
      destruct (sub_kwargs_lookup kw X4 side ("contra" :: n :: t) split glob not_empty_X4 Hu Hs) as [Hsub2 Hsnd2].
      unfold u_lk, obj_kwargs. rewrite kw_last_NoDup by (apply kw_update_NoDup, Hgnd).
      rewrite kw_get_update, kw_get_rev_NoDup by exact Hsnd. rewrite Hsub, kw_last_NoDup by exact Hsnd2. rewrite Hsub2, kw_last_get, Hin. reflexivity.
    Qed.
  End WithX4.

  Lemma g_lk_dist u XDl dsplit dglob ikw ckw t k x : u_names_ok u = true ->
    In "ext" XDl -> (forall s, In s XDl -> In s ["ext"; "noext"; "central"; "unknown"]) ->
    unflatten_and_split kw XDl = (dsplit, dglob) -> side_kwargs (obj_kwargs "ext" dsplit dglob) = (ikw, ckw) ->
    TS u t -> kw_get [t; k] kw = Some x -> dist_name_plain kw [t; k] ->
    u_lk ikw [t; k] = Some x.
  Proof.
    intros Hu Hext Hsub Hud Hsk Ht Hin (N1 & N2 & N3).
    assert (HeD : ~ In "" XDl) by (intros H; apply Hsub in H; cbn in H; intuition discriminate).
    assert (Htres : forall w, In w reserved -> t <> w) by (intros w Hw ->; exact (in_reserved_not_tstage u _ Hu Hw Ht)).
    assert (HtXD : ~ In t XDl) by (intros H; apply Hsub in H; cbn in H; destruct H as [H|[H|[H|[H|[]]]]]; symmetry in H; revert H; apply Htres; cbn; tauto).
    set (ekw := obj_kwargs "ext" dsplit dglob) in *.
    assert (Hend : NoDup (map fst ekw)) by (apply (obj_kwargs_NoDup kw XDl); exact Hud).
    assert (Hekw : forall K, kw_last K ekw = eff XDl kw "ext" K)
      by (intros K; rewrite kw_last_NoDup by exact Hend; apply (obj_kwargs_lookup kw XDl "ext" K dsplit dglob HeD Hud Hext)).
    destruct (side_kwargs_lk ekw ikw ckw Hsk) as [Hlk _]. rewrite Hlk. unfold side_lk, eff at 1. rewrite !Hekw.
    unfold eff. rewrite N1. unfold head_of. cbn [partition_key fst].
    assert (Hi : mem "ipsi" XDl = false) by (apply mem_false; intros H; apply Hsub in H; cbn in H; intuition discriminate).
    rewrite Hi, N2. cbn [mem sides].
    assert (Hts : str_eqb t "ipsi" || (str_eqb t "contra" || false) = false).
    { rewrite !str_eqb_neq; [reflexivity | apply Htres; cbn; tauto | apply Htres; cbn; tauto]. }
    rewrite Hts, N3. apply mem_false in HtXD. rewrite HtXD, kw_last_get, Hin. reflexivity.
  Qed.
End KwGen.

(** the value a block of parameters receives for a key with a keyword *)
Lemma block_In lk ps a qs k q : all_unit (plan lk ps a) = Some qs -> In k (map fst ps) -> lk k = Some (V q) ->
  In (k, q) (combine (map fst ps) qs).
Proof.
  intros Hq Hk Hlk. apply all_unit_Some_vals in Hq. destruct Hq as [Hp _]. apply (plan_In lk ps a qs k q Hp Hk Hlk).
Qed.
Lemma dist_block_In maxt ds lk (ps : list (path * Qc)) a dsi k q :
  dists_put maxt ds (plan lk ps a) = Some dsi -> length ps = length (dists_items ds) -> map fst ps = map fst (dists_items ds) ->
  In k (map fst ps) -> lk k = Some (V q) -> In (k, q) (dists_items dsi).
Proof.
  intros Hdp Hlen Hkeys Hk Hlk.
  destruct (dists_put_spec _ _ _ _ Hdp) as (qD & HuD & HiD & _); [rewrite plan_length; exact Hlen|].
  apply unwrap_Some in HuD. rewrite HiD, <- Hkeys. apply (plan_In lk ps a qD k q HuD Hk Hlk).
Qed.
Lemma in_pre_items p (X : list (path * Qc)) k v : In (k, v) X -> In (p ++ k, v) (pre p X).
Proof. intros H. unfold pre, prefix. apply in_map_iff. exists (k, v). split; [reflexivity | exact H]. Qed.

(** * The spread / distribution chain *)
Section Chain.
  Variables (m0 : midline) (a0 : args) (kw : kwargs) (K : path) (q : Qc) (m' : midline) (r : args).
  Hypothesis Hok : mid_set_ok m0 = true.
  Hypothesis Hnd : NoDup (map fst kw).
  Hypothesis Hch : andthen (m_set_spread_params m0 a0 kw) (fun m1 a1 => m_set_distribution_params m1 a1 kw) = (m', Some r).
  Hypothesis Hkw : kw_get K kw = Some (V q).
  Hypothesis Hplain : In K (map fst (u_dist_items (ml_ei m0))) -> dist_name_plain kw K.
  Let ei := ml_ei m0.
  Let ec := ml_ec m0.
  Let nc := ml_nc m0.
  Let Hok' : mid_names_ok m0 = true. Proof. unfold mid_set_ok in Hok. rewrite !andb_true_iff in Hok. apply Hok. Qed.
  Let Hei : u_names_ok ei = true. Proof. apply (m_ok_parts m0 Hok'). Qed.

  Lemma chain_kw_over :
    mid_names_ok m' = true /\ ml_midext m' = ml_midext m0 /\
    (In K (map fst (mid_spread_items m0 ++ u_dist_items ei)) -> In (K, q) (mid_items m')).
  Proof.
    destruct (m_ok_parts m0 Hok') as (_ & Hec & Hnc & _ & _ & _ & _ & HbsymL).
    pose proof (keys_T_nc m0 Hok') as KTnc. pose proof (keys_T_ec m0 Hok') as KTec. pose proof (keys_L_ec m0 Hok') as KLec.
    fold ei ec nc in KTnc, KTec, KLec.
    assert (HnX4 : forall n, EN ei n -> ~ In n X4).
    { intros n Hn H4. apply (in_reserved_not_edge ei n Hei); [|exact Hn]. cbn in H4. cbn. intuition. }
    (* the distribution block, common to all settings *)
    assert (HD : forall m2 dsplit dglob ikw ckw a2 dsi,
               unflatten_and_split kw (XD m2) = (dsplit, dglob) -> side_kwargs (obj_kwargs "ext" dsplit dglob) = (ikw, ckw) ->
               dists_put (u_maxt ei) (u_dists ei) (plan (u_lk ikw) (u_dist_items ei) a2) = Some dsi ->
               In K (map fst (u_dist_items ei)) -> In (K, q) (dists_items dsi)).
    { intros m2 dsplit dglob ikw ckw a2 dsi HuD Hsk Hdp Hk.
      apply (dist_block_In _ _ _ _ _ _ K q Hdp); [reflexivity | reflexivity | exact Hk|].
      destruct (dist_key_form ei K Hk) as (t & s & -> & Ht). destruct (XD_props m2) as [Hx1 Hx2].
      apply (g_lk_dist kw Hnd ei (XD m2) dsplit dglob ikw ckw t s (V q) Hei Hx1 Hx2 HuD Hsk Ht Hkw (Hplain Hk)). }
    destruct (ml_mixing m0) as [cur|] eqn:Emix.
    - (* with mixing *)
      destruct (m_chain_inv_mix m0 a0 kw m' r cur Hok Emix Hch)
        as (split & glob & qI & qC & mix & qE & qLi & qLe & qLn & m2 & dsplit & dglob & ikw & ckw & dsi & Hc).
      cbv zeta in Hc. fold ei ec nc in Hc.
      destruct Hc as (Hu & HqI & HqC & Hmx & HqLi & HqLe & HqLn & HuD & Hsk & Hdp & Hei' & (dsc & Hec' & Hecok) & (dsn & Hnc' & Hncok) & Hmix' & Hd' & Hs' & Hb').
      assert (Hnames' : mid_names_ok m' = true).
      { apply (mid_names_ok_final m0 m' qI qLi dsi qE qLe dsc qC qLn dsn _ Hok Hei' Hec' Hnc' Hecok Hncok Hdp); [apply plan_length | exact Hs' | exact Hb']. }
      split; [exact Hnames'|]. split; [exact Hd'|].
      destruct (leaf_after_items ei qI qLi dsi) as (I1 & I2 & I3); [apply (plan_lengths _ _ _ _ HqI) | apply (plan_lengths _ _ _ _ HqLi)|].
      destruct (leaf_after_items nc qC qLn dsn) as (N1 & _ & _); [apply (plan_lengths _ _ _ _ HqC) | apply (plan_lengths _ _ _ _ HqLn)|].
      pose proof (leaf_after_lnl ec qE qLe dsc (plan_lengths _ _ _ _ HqLe)) as E2.
      fold (leaf_after ei qI qLi dsi) in Hei'. fold (leaf_after nc qC qLn dsn) in Hnc'. fold (leaf_after ec qE qLe dsc) in Hec'.
      unfold mid_items, mid_spread_items. rewrite Hmix', Hs', Emix. unfold m_mixing_item, m_midext_item. rewrite Hmix', Emix.
      fold ei ec nc. rewrite Hei', Hnc', Hec', I1, I2, I3, N1, E2.
      destruct (ml_symL m0) eqn:EsymL; rewrite ?map_app, ?pre_app, ?map_app, ?in_app_iff, ?in_pre_keys; cbn [map fst In];
        intros HK; rewrite ?pre_app, ?in_app_iff.
      + destruct HK as [[(k & -> & Hk)|[(k & -> & Hk)|[[<-|[]]|Hk]]]|Hk].
        * left. apply in_pre_items. destruct (spread_key_form ei k (or_introl Hk)) as (n & s & -> & Hn).
          apply (block_In _ _ _ _ _ _ HqI Hk). apply (g_lk_side kw Hnd split glob Hu "ipsi" n [s]); [cbn; tauto | exact Hkw].
        * right. left. apply in_pre_items. destruct (spread_key_form nc k (or_introl Hk)) as (n & s & -> & Hn).
          apply (block_In _ _ _ _ _ _ HqC Hk). apply (g_lk_side kw Hnd split glob Hu "contra" n [s]); [cbn; tauto | exact Hkw].
        * right. right. left. left.
          rewrite (g_lk_mixing kw Hnd split glob Hu _ Hkw) in Hmx. apply check_unit_Some in Hmx. destruct Hmx as [[= ->] _]. reflexivity.
        * right. right. right. left. destruct (spread_key_form ei K (or_intror Hk)) as (n & s & -> & Hn).
          apply (block_In _ _ _ _ _ _ HqLi Hk). apply (g_lk_glob kw Hnd split glob Hu n [s]); [apply HnX4, Hn | exact Hkw].
        * right. right. right. right. left. apply (HD m2 dsplit dglob ikw ckw _ dsi HuD Hsk Hdp Hk).
      + destruct HK as [[[(k & -> & Hk)|(k & -> & Hk)]|[[(k & -> & Hk)|(k & -> & Hk)]|[<-|[]]]]|Hk].
        * left. left. apply in_pre_items. destruct (spread_key_form ei k (or_introl Hk)) as (n & s & -> & Hn).
          apply (block_In _ _ _ _ _ _ HqI Hk). apply (g_lk_side kw Hnd split glob Hu "ipsi" n [s]); [cbn; tauto | exact Hkw].
        * left. right. apply in_pre_items. destruct (spread_key_form ei k (or_intror Hk)) as (n & s & -> & Hn).
          apply (block_In _ _ _ _ _ _ HqLi Hk). apply (g_lk_side kw Hnd split glob Hu "ipsi" n [s]); [cbn; tauto | exact Hkw].
        * right. left. left. apply in_pre_items. destruct (spread_key_form nc k (or_introl Hk)) as (n & s & -> & Hn).
          apply (block_In _ _ _ _ _ _ HqC Hk). apply (g_lk_side kw Hnd split glob Hu "contra" n [s]); [cbn; tauto | exact Hkw].
        * right. left. right. apply in_pre_items. destruct (spread_key_form ec k (or_intror Hk)) as (n & s & -> & Hn).
          apply (block_In _ _ _ _ _ _ HqLe Hk). apply (g_lk_side kw Hnd split glob Hu "contra" n [s]); [cbn; tauto | exact Hkw].
        * right. right. left. left.
          rewrite (g_lk_mixing kw Hnd split glob Hu _ Hkw) in Hmx. apply check_unit_Some in Hmx. destruct Hmx as [[= ->] _]. reflexivity.
        * right. right. right. left. apply (HD m2 dsplit dglob ikw ckw _ dsi HuD Hsk Hdp Hk).
    - (* without mixing *)
      destruct (m_chain_inv_nomix m0 a0 kw m' r Hok Emix Hch)
        as (split & glob & nsplit & esplit & ng & eg & qI & qC & qE & qLi & qLe & qLn & m2 & dsplit & dglob & ikw & ckw & dsi & Hc).
      cbv zeta in Hc. fold ei ec nc in Hc.
      destruct Hc as (Hu & Hun & Hue & HqI & HqC & HqE & HqLi & HqLe & HqLn & HuD & Hsk & Hdp & Hei' & (dsc & Hec' & Hecok) & (dsn & Hnc' & Hncok) & Hmix' & Hd' & Hs' & Hb').
      assert (Hnames' : mid_names_ok m' = true).
      { apply (mid_names_ok_final m0 m' qI qLi dsi qE qLe dsc qC qLn dsn _ Hok Hei' Hec' Hnc' Hecok Hncok Hdp); [apply plan_length | exact Hs' | exact Hb']. }
      split; [exact Hnames'|]. split; [exact Hd'|].
      destruct (leaf_after_items ei qI qLi dsi) as (I1 & I2 & I3); [apply (plan_lengths _ _ _ _ HqI) | apply (plan_lengths _ _ _ _ HqLi)|].
      destruct (leaf_after_items nc qC qLn dsn) as (N1 & _ & _); [apply (plan_lengths _ _ _ _ HqC) | apply (plan_lengths _ _ _ _ HqLn)|].
      destruct (leaf_after_items ec qE qLe dsc) as (E1 & E2 & _); [apply (plan_lengths _ _ _ _ HqE) | apply (plan_lengths _ _ _ _ HqLe)|].
      fold (leaf_after ei qI qLi dsi) in Hei'. fold (leaf_after nc qC qLn dsn) in Hnc'. fold (leaf_after ec qE qLe dsc) in Hec'.
      unfold mid_items, mid_spread_items. rewrite Hmix', Hs', Emix. unfold m_midext_item.
      fold ei ec nc. rewrite Hei', Hnc', Hec', I1, I2, I3, N1, E1, E2.
      destruct (ml_symL m0) eqn:EsymL; rewrite ?map_app, ?pre_app, ?map_app, ?in_app_iff, ?in_pre_keys; cbn [map fst In];
        intros HK; rewrite ?pre_app, ?in_app_iff.
      + destruct HK as [[(k & -> & Hk)|[(k & -> & Hk)|[(k & -> & Hk)|Hk]]]|Hk].
        * left. apply in_pre_items. destruct (spread_key_form ei k (or_introl Hk)) as (n & s & -> & Hn).
          apply (block_In _ _ _ _ _ _ HqI Hk). apply (g_lk_side kw Hnd split glob Hu "ipsi" n [s]); [cbn; tauto | exact Hkw].
        * right. left. apply in_pre_items. destruct (spread_key_form nc k (or_introl Hk)) as (n & s & -> & Hn).
          apply (block_In _ _ _ _ _ _ HqC Hk). apply (g_lk_nested kw Hnd split glob Hu "noext" nsplit ng n [s]); [tauto | exact Hun | exact Hkw].
        * right. right. left. apply in_pre_items. destruct (spread_key_form ec k (or_introl Hk)) as (n & s & -> & Hn).
          apply (block_In _ _ _ _ _ _ HqE Hk). apply (g_lk_nested kw Hnd split glob Hu "ext" esplit eg n [s]); [tauto | exact Hue | exact Hkw].
        * right. right. right. left. destruct (spread_key_form ei K (or_intror Hk)) as (n & s & -> & Hn).
          apply (block_In _ _ _ _ _ _ HqLi Hk). apply (g_lk_glob kw Hnd split glob Hu n [s]); [apply HnX4, Hn | exact Hkw].
        * right. right. right. right. left. apply (HD m2 dsplit dglob ikw ckw _ dsi HuD Hsk Hdp Hk).
      + destruct HK as [[[(k & -> & Hk)|(k & -> & Hk)]|[(k & -> & Hk)|[(k & -> & Hk)|(k & -> & Hk)]]]|Hk].
        * left. left. apply in_pre_items. destruct (spread_key_form ei k (or_introl Hk)) as (n & s & -> & Hn).
          apply (block_In _ _ _ _ _ _ HqI Hk). apply (g_lk_side kw Hnd split glob Hu "ipsi" n [s]); [cbn; tauto | exact Hkw].
        * left. right. apply in_pre_items. destruct (spread_key_form ei k (or_intror Hk)) as (n & s & -> & Hn).
          apply (block_In _ _ _ _ _ _ HqLi Hk). apply (g_lk_side kw Hnd split glob Hu "ipsi" n [s]); [cbn; tauto | exact Hkw].
        * right. left. apply in_pre_items. destruct (spread_key_form nc k (or_introl Hk)) as (n & s & -> & Hn).
          apply (block_In _ _ _ _ _ _ HqC Hk). apply (g_lk_nested kw Hnd split glob Hu "noext" nsplit ng n [s]); [tauto | exact Hun | exact Hkw].
        * right. right. left. apply in_pre_items. destruct (spread_key_form ec k (or_introl Hk)) as (n & s & -> & Hn).
          apply (block_In _ _ _ _ _ _ HqE Hk). apply (g_lk_nested kw Hnd split glob Hu "ext" esplit eg n [s]); [tauto | exact Hue | exact Hkw].
        * right. right. right. left. apply in_pre_items. destruct (spread_key_form ec k (or_intror Hk)) as (n & s & -> & Hn).
          apply (block_In _ _ _ _ _ _ HqLe Hk). apply (g_lk_side kw Hnd split glob Hu "contra" n [s]); [cbn; tauto | exact Hkw].
        * right. right. right. right. left. apply (HD m2 dsplit dglob ikw ckw _ dsi HuD Hsk Hdp Hk).
  Qed.
End Chain.

Theorem mid_keyword_over_positional : C10_mid_keyword_over_positional_stmt.
Proof.
  intros m a kw K q Hok Hnd HK Hkw Hplain r Hr. subst r.
  assert (Hok' : mid_names_ok m = true) by (unfold mid_set_ok in Hok; rewrite !andb_true_iff in Hok; apply Hok).
  rewrite (m_set_params_unfold m a kw Hok') in Hr |- *.
  destruct (popat a (Z.of_nat (length (mid_items m)) - 1)) as [[before last] after].
  cbv beta iota zeta in Hr |- *.
  set (mp := match kw_get ["midext"; "prob"] kw with Some v => Some v | None => last end) in *.
  (* the object after the midext_prob step *)
  assert (H0 : exists m0, match mp with None => Some m | Some v => option_map (ml_with_midext m) (check_unit v) end = Some m0
                          /\ mid_set_ok m0 = true /\ ml_ei m0 = ml_ei m /\ mid_spread_items m0 = mid_spread_items m
                          /\ (K = ["midext"; "prob"] -> ml_midext m0 = q)).
  { destruct mp as [vm|] eqn:Emp.
    - destruct (check_unit vm) as [x|] eqn:Ex; [|exfalso; apply Hr; reflexivity]. exists (ml_with_midext m x).
      split; [reflexivity|]. split; [exact Hok|]. split; [reflexivity|]. split; [reflexivity|].
      intros ->. unfold mp in Emp. rewrite Hkw in Emp. injection Emp as <-. apply check_unit_Some in Ex. destruct Ex as [[= ->] _]. reflexivity.
    - exists m. split; [reflexivity|]. split; [exact Hok|]. split; [reflexivity|]. split; [reflexivity|].
      intros ->. unfold mp in Emp. rewrite Hkw in Emp. discriminate. }
  destruct H0 as (m0 & E0 & Hok0 & Hei0 & Hsp0 & Hme0). rewrite E0 in Hr |- *.
  destruct (andthen (m_set_spread_params m0 (before ++ after) kw) (fun m1 a1 => m_set_distribution_params m1 a1 kw)) as [m' [r|]] eqn:Ech;
    [|exfalso; apply Hr; reflexivity]. cbn [fst snd] in *. clear Hr.
  assert (Hplain0 : In K (map fst (u_dist_items (ml_ei m0))) -> dist_name_plain kw K) by (rewrite Hei0; exact Hplain).
  destruct (chain_kw_over m0 (before ++ after) kw K q m' r Hok0 Hnd Ech Hkw Hplain0) as (Hn' & Hd' & Hin').
  rewrite (m_got_spec m' Hn'). cbn [option_map]. do 2 f_equal.
  apply kw_get_NoDup_In; [apply mid_items_NoDup, Hn'|].
  rewrite mid_items_split, !map_app, !in_app_iff in HK.
  destruct HK as [HK|[HK|HK]].
  - apply Hin'. rewrite Hsp0, Hei0, map_app, in_app_iff. left. exact HK.
  - apply Hin'. rewrite Hsp0, Hei0, map_app, in_app_iff. right. exact HK.
  - cbn in HK. destruct HK as [<-|[]]. rewrite mid_items_split, !in_app_iff. right. right. left.
    rewrite Hd', (Hme0 eq_refl). reflexivity.
Qed.
Print Assumptions mid_keyword_over_positional.
