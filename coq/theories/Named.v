(** Named: the named-parameter layer of [lymph.types.Model] (C17), mirrored
    function by function on top of the parameter plumbing of Params.v.

    Conventions (as in Params.v)
    - a Python name is a [path]: "ipsi_TtoII_spread" = ["ipsi";"TtoII";"spread"]
      ([name.split("_")]); [name.count("_")] is [length path - 1], so comparing
      counts of "_" is comparing lengths (the empty path is no Python name);
    - dicts are insertion-ordered association lists ([kw_set], [kw_update], [dict_of]);
    - exceptions are values: [res A = nerr + A].  [ExtraParamsError] and [ValueError]
      are different constructors: [likelihood] maps only the second one to -inf.

    The state of a model object, as far as this layer is concerned, is the parameter
    store (a [Params.model]) plus the attribute [_named_params] ([None] = not set). *)
From LymphModel Require Import Base States Linalg Graph Transition Observation Dist Unilateral Models
  Params ParamsStatements.
Local Open Scope nat_scope.
Local Open Scope string_scope.
Local Open Scope list_scope.

(** * types.does_contain_in_order(sequence, items) *)
Fixpoint does_contain_in_order (sequence items : path) {struct sequence} : bool :=
  match items with
  | [] => true
  | i :: items' =>
      match sequence with
      | [] => false
      | x :: sequence' =>
          if str_eqb x i then does_contain_in_order sequence' items'
          else does_contain_in_order sequence' items
      end
  end.

(** Spec: [items] is a subsequence of [sequence] (same order, gaps allowed) *)
Inductive Subseq : path -> path -> Prop :=
| Subseq_nil s : Subseq [] s
| Subseq_take x i s : Subseq i s -> Subseq (x :: i) (x :: s)
| Subseq_skip x i s : Subseq i s -> Subseq i (x :: s).

Definition memp (k : path) (l : list path) : bool := existsb (path_eqb k) l.

(** * types.create_alias_map(all_params, named_params) *)
(** the inner loop: the parameters a declared name addresses, in parameter order *)
Definition aliases_of (all_params : list path) (name : path) : list path :=
  filter (fun p => does_contain_in_order p name) all_params.
(** [param_aliases[named_param] = [...]] for every declared name, in declared order
    (a name declared twice keeps its first position) *)
Definition create_alias_map (all_params named : list path) : list (path * list path) :=
  dict_of (map (fun n => (n, aliases_of all_params n)) named).

(** * types.reverse_alias_map(aliases) *)
Definition reverse_alias_map (aliases : list (path * list path)) : list (path * path) :=
  dict_of (flat_map (fun nl => map (fun alias => (alias, fst nl)) (snd nl)) aliases).

(** * Model.get_named_params: ownership by specificity *)
(** [if current is None or name.count("_") >= current.count("_"): owner[param] = name] *)
Definition owner_step (name : path) (owner : list (path * path)) (param : path) : list (path * path) :=
  match kw_get param owner with
  | None => kw_set param name owner
  | Some current => if Nat.leb (length current) (length name) then kw_set param name owner else owner
  end.
Definition owners (aliases : list (path * list path)) : list (path * path) :=
  fold_left (fun ow np => fold_left (owner_step (fst np)) (snd np) ow) aliases [].
Fixpoint last_opt {A} (l : list A) : option A :=
  match l with [] => None | [a] => Some a | _ :: r => last_opt r end.
(** [owned_params = [p for p in params if owner[p] == name]];
    [for param in owned_params or params: named_params[name] = all_params[param]]:
    the value of the LAST such parameter; a name without aliases is not reported *)
Definition owned_by (owner : list (path * path)) (name : path) (params : list path) : list path :=
  filter (fun p => match kw_get p owner with Some o => path_eqb o name | None => false end) params.
Definition read_param (owner : list (path * path)) (np : path * list path) : option path :=
  last_opt (match owned_by owner (fst np) (snd np) with [] => snd np | l => l end).
Definition named_entry (all : list (path * Qc)) (owner : list (path * path)) (np : path * list path)
  : list (path * Qc) :=
  match read_param owner np with
  | Some p => match kw_get p all with Some v => [(fst np, v)] | None => [] end
  | None => []
  end.
Definition get_named_items (all : list (path * Qc)) (named : list path) : list (path * Qc) :=
  let aliases := create_alias_map (map fst all) named in
  flat_map (named_entry all (owners aliases)) aliases.

(** * The object: parameter store + [_named_params] *)
Record nstate := { ns_model : model; ns_named : option (list path) }.
Definition mk_nstate (m : model) (n : option (list path)) : nstate := {| ns_model := m; ns_named := n |}.

(** [ValueError]: what [set_params] raises for a rejected value (and what [likelihood]
    catches); [KeyError]: [get_params] of a HPVUnilateral model without the base arc;
    [AttributeError]: [del model.named_params] when nothing is declared *)
Inductive nerr := ExtraParamsError | ValueError | KeyError | AttributeError.
Definition res (A : Type) : Type := (nerr + A)%type.

(** Model.named_params (getter): [getattr(self, "_named_params", self.get_params().keys())];
    the default is evaluated in any case, so a raising [get_params] raises here *)
Definition named_params (s : nstate) : res (list path) :=
  match param_names (ns_model s) with
  | None => inl KeyError
  | Some default => inr (match ns_named s with Some l => l | None => default end)
  end.
(** the names for which the setter issues an InvalidParamNameWarning *)
Definition invalid_names (all_params new_names : list path) : list path :=
  filter (fun n => negb (existsb (fun p => does_contain_in_order p n) all_params)) new_names.
(** Model.named_params (setter): every sequence of identifiers is accepted *)
Definition set_named (s : nstate) (new_names : list path) : res (nstate * list path) :=
  match param_names (ns_model s) with
  | None => inl KeyError
  | Some default => inr (mk_nstate (ns_model s) (Some new_names), invalid_names default new_names)
  end.
(** Model.named_params (deleter): [del self._named_params] *)
Definition del_named (s : nstate) : res nstate :=
  match ns_named s with
  | None => inl AttributeError
  | Some _ => inr (mk_nstate (ns_model s) None)
  end.

(** Model.get_named_params(as_dict=True); [as_dict=False] is [map snd] of it *)
Definition get_named_params (s : nstate) : res (list (path * Qc)) :=
  match param_items (ns_model s) with
  | None => inl KeyError
  | Some all => match named_params s with
                | inl e => inl e
                | inr named => inr (get_named_items all named)
                end
  end.
(** Model.get_num_dims *)
Definition get_num_dims (s : nstate) : res nat :=
  match get_named_params s with inl e => inl e | inr l => inr (length l) end.

(** [new_params = dict(zip(self.named_params, args)); new_params.update(kwargs)] *)
Definition named_kwargs (named : list path) (a : args) (kw : kwargs) : kwargs :=
  kw_update kw (dict_of (combine named a)).
(** Model.set_named_params( *args, **kwargs): the returned state is the object as
    Python leaves it (the partial update when [set_params] raises) *)
Definition set_named_params (s : nstate) (a : args) (kw : kwargs) : nstate * res unit :=
  match named_params s with
  | inl e => (s, inl e)
  | inr named =>
      if forallb (fun k => memp k named) (map fst kw)
      then let r := set_params (ns_model s) [] (named_kwargs named a kw) in
           (mk_nstate (fst r) (ns_named s), match snd r with Some _ => inr tt | None => inl ValueError end)
      else (s, inl ExtraParamsError)
  end.

(** utils.safe_set_params(model, params): [None], a list, or a dict *)
Inductive given := GNone | GList (a : args) | GDict (kw : kwargs).
Definition safe_set_params (s : nstate) (g : given) : nstate * res unit :=
  match g with
  | GNone => (s, inr tt)
  | GList a => set_named_params s a []
  | GDict kw => set_named_params s [] kw
  end.
(** the first lines of every [likelihood(given_params=...)]:
    [try: safe_set_params(...)  except ValueError: return -inf];
    [Scored] = the likelihood of the (updated) object is computed and returned *)
Inductive lik_outcome := Scored | MinusInf | Raised (e : nerr).
Definition likelihood_outcome (s : nstate) (g : given) : nstate * lik_outcome :=
  let r := safe_set_params s g in
  (fst r, match snd r with
          | inr _ => Scored
          | inl ValueError => MinusInf
          | inl e => Raised e
          end).

(** * Histories of calls (what the correspondence check runs) *)
Inductive nop :=
| OSetNamed (names : list path) | ODelNamed | OSetNamedParams (a : args) (kw : kwargs)
| OLikelihood (g : given) | OSetParams (a : args) (kw : kwargs).
(** outcome tag: 0 = returned, 1 = ExtraParamsError, 2 = ValueError, 3 = KeyError, 4 = AttributeError,
    5 = likelihood returned -inf *)
Definition err_tag (e : nerr) : nat :=
  match e with ExtraParamsError => 1 | ValueError => 2 | KeyError => 3 | AttributeError => 4 end.
Definition res_tag {A} (r : res A) : nat := match r with inr _ => 0 | inl e => err_tag e end.
Definition run_op (s : nstate) (o : nop) : nstate * (nat * list path) :=
  match o with
  | OSetNamed names => match set_named s names with inl e => (s, (err_tag e, [])) | inr (s', w) => (s', (0, w)) end
  | ODelNamed => match del_named s with inl e => (s, (err_tag e, [])) | inr s' => (s', (0, [])) end
  | OSetNamedParams a kw => let r := set_named_params s a kw in (fst r, (res_tag (snd r), []))
  | OLikelihood g => let r := likelihood_outcome s g in
                     (fst r, (match snd r with Scored => 0 | MinusInf => 5 | Raised e => err_tag e end, []))
  | OSetParams a kw => let r := set_params (ns_model s) a kw in
                       (mk_nstate (fst r) (ns_named s), (match snd r with Some _ => 0 | None => 2 end, []))
  end.
Definition out_res_items (r : res (list (path * Qc))) : option (list (path * (Z * Z))) :=
  match r with inr l => Some (out_items l) | inl _ => None end.
Definition out_state (s : nstate) :=
  (match named_params s with inr l => Some l | inl _ => None end,
   out_res_items (get_named_params s),
   match get_num_dims s with inr n => Some n | inl _ => None end,
   option_map out_items (param_items (ns_model s))).
Fixpoint run_ops (s : nstate) (ops : list nop) :=
  match ops with
  | [] => []
  | o :: r => let '(s', t) := run_op s o in (t, out_state s') :: run_ops s' r
  end.

(** * Specification vocabulary *)
Fixpoint first_some {A B} (f : A -> option B) (l : list A) : option B :=
  match l with
  | [] => None
  | a :: r => match f a with Some b => Some b | None => first_some f r end
  end.
(** the keywords [set_params] looks up for the parameter [k], in order of priority.
    Unilateral: the full name "edge_spread", then the global "spread" *)
Definition u_cands (k : path) : list path := match k with [] => [] | _ :: t => [k; t] end.
(** Bilateral: "side_edge_spread", "edge_spread", "side_spread", "spread"; a parameter
    of a symmetric group (reported without side) is set through the ipsilateral side *)
Definition eff_cands (expected : list string) (name : string) (t : path) : list path :=
  (name :: t) :: (if mem (head_of t) expected then [] else [t]).
Definition side_cands (side : string) (k : path) : list path :=
  match k with [] => [] | _ :: t => eff_cands sides side k ++ eff_cands sides side t end.
Definition b_cands (k : path) : list path :=
  match k with
  | [] => []
  | h :: t => if String.eqb h "ipsi" then side_cands "ipsi" t
              else if String.eqb h "contra" then side_cands "contra" t
              else side_cands "ipsi" k
  end.
(** the classes for which the theorems below are proved in general *)
Definition covered (m : model) : bool :=
  match m with MUni u => u_names_ok u | MBi b => b_names_ok b | _ => false end.
Definition cands (m : model) (k : path) : list path :=
  match m with MUni _ => u_cands k | MBi _ => b_cands k | _ => [] end.

(** the value a declared name receives from [set_named_params( *a, **kw)]:
    its keyword, else the positional value at its position *)
Definition assigned (named : list path) (a : args) (kw : kwargs) (n : path) : option val :=
  match kw_last n kw with Some v => Some v | None => kw_last n (combine named a) end.

(** Hypotheses on the declared names (booleans, computed on real objects).
    [names_consistent]: the alias map and [set_params] agree on what a declared name
    addresses: for every declared name n and parameter k, n matches k in order iff n
    is one of the keywords [set_params] looks up for k *)
Definition names_consistent (m : model) (names named : list path) : bool :=
  forallb (fun n => forallb (fun k => Bool.eqb (does_contain_in_order k n) (memp n (cands m k))) names) named.
(** [no_ties]: two different declared names addressing the same parameter differ in
    the number of "_" (otherwise "most specific" is ambiguous) *)
Definition no_ties (names named : list path) : bool :=
  forallb (fun k => forallb (fun n1 => forallb (fun n2 =>
     implb (does_contain_in_order k n1 && does_contain_in_order k n2 && Nat.eqb (length n1) (length n2))
           (path_eqb n1 n2)) named) named) names.
(** [each_owns] (DESIGN.md section 6): every declared name addresses at least one
    parameter that no more specific declared name addresses *)
Definition each_owns (names named : list path) : bool :=
  forallb (fun n => existsb (fun k => does_contain_in_order k n &&
     forallb (fun n' => implb (does_contain_in_order k n') (Nat.leb (length n') (length n))) named) names) named.
(** every declared name addresses at least one parameter *)
Definition each_matches (names named : list path) : bool :=
  forallb (fun n => existsb (fun k => does_contain_in_order k n) names) named.

(** * Theorem statements *)
Definition C17_does_contain_in_order_spec_stmt : Prop :=
  forall sequence items, does_contain_in_order sequence items = true <-> Subseq items sequence.

(** the alias map has one entry per declared name, in declared order, holding exactly
    the parameters of which the name is a subsequence, in parameter order *)
Definition C17_alias_map_spec_stmt : Prop :=
  forall all_params named,
    NoDup (map fst (create_alias_map all_params named))
    /\ (NoDup named -> map fst (create_alias_map all_params named) = named)
    /\ (forall n, kw_get n (create_alias_map all_params named)
                  = if memp n named then Some (aliases_of all_params n) else None)
    /\ (forall n p, In p (aliases_of all_params n) <-> In p all_params /\ Subseq n p)
    /\ (forall n, exists keep, aliases_of all_params n = filter keep all_params).
(** the reverse map sends a parameter to a declared name that addresses it *)
Definition C17_reverse_alias_map_spec_stmt : Prop :=
  forall aliases p n, kw_get p (reverse_alias_map aliases) = Some n -> exists l, In (n, l) aliases /\ In p l.

(** positional values go to the declared names in declared order (too few values: the
    first names; surplus values are dropped); a keyword overrides the positional value *)
Definition C17_assigned_positional_stmt : Prop :=
  forall named a kw i n v, NoDup named -> nth_error named i = Some n -> nth_error a i = Some v ->
    assigned named a kw n = match kw_last n kw with Some w => Some w | None => Some v end.
Definition C17_assigned_none_stmt : Prop :=
  forall named a kw n, assigned named a kw n <> None -> In n named \/ In n (map fst kw).

(** COMPLETE description of [set_named_params] that returns normally (Unilateral and
    Bilateral, every graph, every symmetry setting): the declaration and the parameter
    names are unchanged and every parameter k receives the value assigned to the first
    of the keywords [cands k] that was assigned a value -- or keeps its value *)
Definition C17_set_named_spec_stmt : Prop :=
  forall m named a kw s' its,
    covered m = true -> param_items m = Some its ->
    set_named_params (mk_nstate m (Some named)) a kw = (s', inr tt) ->
    ns_named s' = Some named /\ covered (ns_model s') = true /\
    exists its', param_items (ns_model s') = Some its' /\ map fst its' = map fst its /\
      forall k old, In (k, old) its ->
        match first_some (assigned named a kw) (cands m k) with
        | Some v => exists q, v = V q /\ kw_get k its' = Some q
        | None => kw_get k its' = Some old
        end.

(** ... read through the alias map: the WHOLE untouched remainder is equal (every
    parameter that no assigned declared name matches keeps its value) and a parameter
    matched by several declared names receives the value of a most specific one *)
Definition C17_set_named_positional_stmt : Prop :=
  forall m named a kw s' its,
    covered m = true -> param_items m = Some its ->
    names_consistent m (map fst its) named = true ->
    set_named_params (mk_nstate m (Some named)) a kw = (s', inr tt) ->
    ns_named s' = Some named /\
    exists its', param_items (ns_model s') = Some its' /\ map fst its' = map fst its /\
      forall k old, In (k, old) its ->
        ((forall n, In n named -> does_contain_in_order k n = true -> assigned named a kw n = None) ->
           kw_get k its' = Some old)
        /\ (forall n, In n named -> does_contain_in_order k n = true -> assigned named a kw n <> None ->
              exists w q, In w named /\ does_contain_in_order k w = true /\ assigned named a kw w = Some (V q)
                          /\ kw_get k its' = Some q
                          /\ forall n', In n' named -> does_contain_in_order k n' = true ->
                                        assigned named a kw n' <> None -> length n' <= length w).

(** a global name addresses ALL parameters it matches (and nothing else) *)
Definition C17_global_name_addresses_all_matches_stmt : Prop :=
  forall m n v s' its,
    covered m = true -> param_items m = Some its ->
    names_consistent m (map fst its) [n] = true ->
    (exists k, In k (map fst its) /\ does_contain_in_order k n = true) ->
    set_named_params (mk_nstate m (Some [n])) [v] [] = (s', inr tt) ->
    exists q its', v = V q /\ param_items (ns_model s') = Some its' /\ map fst its' = map fst its /\
      forall k old, In (k, old) its ->
        kw_get k its' = Some (if does_contain_in_order k n then q else old).

(** after [set_named_params( *v)], [get_named_params] returns v under the declared names
    in declared order *)
Definition C17_get_named_after_set_stmt : Prop :=
  forall m named qs s' its,
    covered m = true -> param_items m = Some its ->
    NoDup named -> length qs = length named ->
    names_consistent m (map fst its) named = true ->
    no_ties (map fst its) named = true -> each_owns (map fst its) named = true ->
    set_named_params (mk_nstate m (Some named)) (vals qs) [] = (s', inr tt) ->
    get_named_params s' = inr (combine named qs).

(** the number of dimensions is the number of declared names (every class) *)
Definition C17_num_dims_is_declared_count_stmt : Prop :=
  forall m named its,
    param_items m = Some its -> NoDup named -> each_matches (map fst its) named = true ->
    get_num_dims (mk_nstate m (Some named)) = inr (length named)
    /\ exists l, get_named_params (mk_nstate m (Some named)) = inr l /\ map fst l = named.

(** a keyword outside the declared names raises ExtraParamsError, leaves the object
    untouched, is propagated by safe_set_params and is NOT turned into -inf (every class) *)
Definition C17_extra_keyword_raises_stmt : Prop :=
  forall s a kw names k,
    named_params s = inr names -> In k (map fst kw) -> ~ In k names ->
    set_named_params s a kw = (s, inl ExtraParamsError)
    /\ safe_set_params s (GDict kw) = (s, inl ExtraParamsError)
    /\ likelihood_outcome s (GDict kw) = (s, Raised ExtraParamsError)
    /\ Raised ExtraParamsError <> MinusInf.
(** ... whereas a rejected VALUE is mapped to -inf *)
Definition C17_value_error_is_minus_inf_stmt : Prop :=
  forall s g s', safe_set_params s g = (s', inl ValueError) -> likelihood_outcome s g = (s', MinusInf).

(** deleting the declaration restores the default: all parameters (every class) *)
Definition C17_delete_restores_default_stmt : Prop :=
  forall m named its,
    param_items m = Some its -> NoDup (map fst its) ->
    del_named (mk_nstate m (Some named)) = inr (mk_nstate m None)
    /\ named_params (mk_nstate m None) = inr (map fst its)
    /\ get_named_params (mk_nstate m None) = inr its
    /\ get_num_dims (mk_nstate m None) = inr (length its).

(** * Known findings and the necessity of the hypotheses, as refutations with witnesses *)
(** known finding (pinned by the test test_set_global_params_for_side): a side-global
    name such as "ipsi_spread" also sets the parameters of a SYMMETRIC group, which it
    does not match: [names_consistent] fails and a parameter outside every declared
    name changes *)
Definition C17_side_global_leak_refuted_stmt : Prop :=
  exists (b : bilateral) (n k : path) (q : Qc),
    b_wf b = true /\ does_contain_in_order k n = false /\
    option_map (fun ns => names_consistent (MBi b) ns [n]) (param_names (MBi b)) = Some false /\
    let r := set_named_params (mk_nstate (MBi b) (Some [n])) [V q] [] in
    snd r = inr tt /\
    option_map (fun l => option_map qout (kw_get k l)) (param_items (MBi b)) = Some (Some (0, 1)%Z) /\
    option_map (fun l => option_map qout (kw_get k l)) (param_items (ns_model (fst r))) = Some (Some (3, 10)%Z).
(** known finding D8: HPVUnilateral ignores the names it reports *)
Definition C17_hpv_named_refuted_stmt : Prop :=
  exists (h : hpvmodel) (named : list path) (qs : list Qc),
    (exists names, param_names (MHpv h) = Some names /\ incl named names) /\ NoDup named /\
    length qs = length named /\ forallb in_unit qs = true /\
    let r := set_named_params (mk_nstate (MHpv h) (Some named)) (vals qs) [] in
    snd r = inr tt /\ out_res_items (get_named_params (fst r)) <> Some (out_items (combine named qs)).
(** [no_ties] is needed: two equally specific names ("TtoII_spread", "ipsi_spread")
    addressing one parameter: [set_params] gives priority to the edge name,
    [get_named_params] attributes the parameter to the later name *)
Definition C17_no_ties_needed_refuted_stmt : Prop :=
  exists (b : bilateral) (named : list path) (qs : list Qc),
    b_wf b = true /\ NoDup named /\ length qs = length named /\
    option_map (fun ns => (names_consistent (MBi b) ns named, no_ties ns named, each_owns ns named)) (param_names (MBi b))
      = Some (true, false, true) /\
    let r := set_named_params (mk_nstate (MBi b) (Some named)) (vals qs) [] in
    snd r = inr tt /\ out_res_items (get_named_params (fst r)) <> Some (out_items (combine named qs)).

(** * Literal subsets of the parameter names *)
(** every hypothesis above holds for them (Unilateral and Bilateral, in general) *)
Definition C17_literal_subset_hyps_stmt : Prop :=
  forall m named its, covered m = true -> param_items m = Some its -> incl named (map fst its) ->
    names_consistent m (map fst its) named = true /\ no_ties (map fst its) named = true
    /\ each_owns (map fst its) named = true /\ each_matches (map fst its) named = true.
(** hence: the values go to exactly the declared parameters in declared order, every
    other parameter keeps its value, get_named_params returns the vector and the
    number of dimensions is the number of declared names *)
Definition C17_literal_subset_roundtrip_stmt : Prop :=
  forall m named qs s' its,
    covered m = true -> param_items m = Some its -> NoDup named -> incl named (map fst its) ->
    length qs = length named ->
    set_named_params (mk_nstate m (Some named)) (vals qs) [] = (s', inr tt) ->
    get_named_params s' = inr (combine named qs) /\ get_num_dims s' = inr (length named) /\
    exists its', param_items (ns_model s') = Some its' /\ map fst its' = map fst its /\
      (forall n q, In (n, q) (combine named qs) -> kw_get n its' = Some q) /\
      (forall k old, In (k, old) its -> ~ In k named -> kw_get k its' = Some old).
