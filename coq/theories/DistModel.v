(** DistModel: the object level of [lymph/diagnosis_times.py] on top of Dist.v.

    * [Distribution]: a *cell* (its own max_time, frozen array or parametric
      family + keyword list, and the "frozen cache dropped" flag that the
      max_time setter leaves behind);  [__init__] variants, [pmf], [get_params],
      [set_params], the [max_time] setter.
    * utils [popfirst], [flatten], [unflatten_and_split].
    * Aliasing: a *store* of cells, cell id = position, allocation = append.
      Every [Distribution(...)] call allocates.  Composite trees hold ids
      (leaf: [_max_time] and the dict T-stage -> id; branch: ordered children),
      so "independent copies" is a statement about ids and about the cells an
      operation may change.
    * [Composite]: max_time getter (with its re-synchronising side effect) and
      setter, get/set/del/replace/clear distribution(s),
      get/set_distribution_params for leaves and branches.
    * Histories: an operation alphabet, [step], [run_history], and the printable
      observation used by the correspondence harness.

    Everything that evaluates a parametric family is parametrised by
    [W fam maxt kw : option vec] (the weights on the support 0..maxt, [None] =
    the function raised ValueError) and [D fam] (the defaults in the function's
    signature, [Distribution.extract_kwargs]).  The harness instantiates them
    with [fam_weights] / [fam_defaults] (harness/impl.py fam0, fam1).
    Executable definitions and theorem statements only; proofs in DistProofs.v. *)
From LymphModel Require Import Base States Linalg Graph Dist.
From Coq Require Import Ascii.
Local Open Scope nat_scope.
Open Scope Qc_scope.

Inductive derr := DValue | DKey | DType | DAttr.
Definition dres (A : Type) := (derr + A)%type.

(** * utils.py *)

(** utils.popfirst *)
Definition popfirst {A} (l : list A) : option A * list A :=
  match l with [] => (None, []) | a :: r => (Some a, r) end.

(** str.partition("_"): (left, right); right = "" when there is no separator *)
Fixpoint partition_us (s : string) : string * string :=
  match s with
  | EmptyString => (EmptyString, EmptyString)
  | String c r => if Ascii.eqb c "_"%char then (EmptyString, r)
                  else let '(l, rr) := partition_us r in (String c l, rr)
  end.

(** dict.update *)
Fixpoint dict_update {V} (d u : list (string * V)) : list (string * V) :=
  match u with [] => d | (k, v) :: r => dict_update (dict_set k v d) r end.
(** del d[k] (first = only occurrence) *)
Fixpoint dict_remove {V} (k : string) (d : list (string * V)) : list (string * V) :=
  match d with [] => [] | (k', v) :: r => if str_eqb k k' then r else (k', v) :: dict_remove k r end.
Definition dict_get_or {V} (k : string) (d : list (string * V)) (dflt : V) : V :=
  match dict_get k d with Some v => v | None => dflt end.

(** utils.unflatten_and_split (one level, as used here): accumulators start empty *)
Fixpoint unflatten_acc (m : list (string * Qc)) (expected : list string)
         (split : list (string * list (string * Qc))) (glob : list (string * Qc))
  : list (string * list (string * Qc)) * list (string * Qc) :=
  match m with
  | [] => (split, glob)
  | (key, v) :: r =>
      let '(lft, rgt) := partition_us key in
      if mem lft expected
      then unflatten_acc r expected (dict_set lft (dict_set rgt v (dict_get_or lft split [])) split) glob
      else unflatten_acc r expected split (dict_set key v glob)
  end.
Definition unflatten_and_split (m : list (string * Qc)) (expected : list string) :=
  unflatten_acc m expected [] [].

(** utils.flatten on {t_stage: {name: value}} : keys "t_name", built like dict(items) *)
Definition flat_key (t n : string) : string := (t ++ "_" ++ n)%string.
Definition flatten2 (p : list (string * list (string * Qc))) : list (string * Qc) :=
  dict_update [] (flat_map (fun tk => map (fun nv => (flat_key (fst tk) (fst nv), snd nv)) (snd tk)) p).

(** * Cells and the store *)
Record cell := { c_maxt : nat; c_dist : dist; c_stale : bool }.
Definition store := list cell.
Fixpoint upd {A} (l : list A) (i : nat) (a : A) : list A :=
  match l, i with
  | [], _ => []
  | _ :: r, O => a :: r
  | x :: r, S i' => x :: upd r i' a
  end.

(** what is passed as [distribution] to [Distribution(...)] / [set_distribution] *)
Inductive darg :=
| AList (w : vec)        (* a list of weights *)
| AFam (f : nat)         (* a bare callable: keyword defaults from its signature *)
| AObj (id : nat).       (* an existing Distribution object (a cell of the store) *)

(** Distribution.set_params, the loop over [self._func.keywords.items()]:
    positional values are consumed in keyword order with popfirst, a missing or
    [None] positional keeps the current value, a keyword of the same name wins. *)
Fixpoint set_kw (kw : list (string * Qc)) (args : list (option Qc)) (kwargs : list (string * Qc))
  : list (string * Qc) * list (option Qc) :=
  match kw with
  | [] => ([], args)
  | (name, value) :: r =>
      let '(first, args') := popfirst args in
      let first' := match first with Some (Some v) => v | _ => value end in
      let v := match dict_get name kwargs with Some x => x | None => first' end in
      let '(r', rest) := set_kw r args' kwargs in
      ((name, v) :: r', rest)
  end.

(** Spec of the keyword update: i-th keyword (signature order) *)
Definition set_kw_spec (kw : list (string * Qc)) (args : list (option Qc)) (kwargs : list (string * Qc))
  : list (string * Qc) * list (option Qc) :=
  (map (fun ik => let name := fst (snd ik) in
                  (name, match dict_get name kwargs with
                         | Some x => x
                         | None => match nth_error args (fst ik) with
                                   | Some (Some v) => v
                                   | _ => snd (snd ik)
                                   end
                         end))
       (combine (seq 0 (length kw)) kw),
   skipn (length kw) args).

Definition weights_okb (w : vec) : bool := forallb (Qc_leb 0) w && negb (Qc_leb (sumQ w) 0).

Section Families.
  Variable W : nat -> nat -> list (string * Qc) -> option vec.
  Variable D : nat -> list (string * Qc).

  (** generic [Dist.pmf] *)
  Definition pmf_w (maxt : nat) (d : dist) : option vec :=
    match d with
    | Frozen p => Some p
    | Param f kw => option_map normalize (W f maxt kw)
    end.

  (** Distribution.pmf on the object: a frozen distribution whose cache was
      dropped by the max_time setter calls [None(support)] -> TypeError *)
  Definition cell_pmf (c : cell) : dres vec :=
    match c_dist c with
    | Frozen p => if c_stale c then inl DType else inr p
    | Param f kw => match W f (c_maxt c) kw with None => inl DValue | Some w => inr (normalize w) end
    end.

  (** Distribution.get_params (as_dict): {} for a frozen one *)
  Definition cell_kw (c : cell) : list (string * Qc) :=
    match c_dist c with Frozen _ => [] | Param _ kw => kw end.
  Definition cell_updateable (c : cell) : bool :=
    match c_dist c with Frozen _ => false | Param _ _ => true end.

  (** Distribution.max_time setter (value >= 0): new support, [_frozen = None] *)
  Definition cell_set_maxt (c : cell) (v : nat) : cell :=
    {| c_maxt := v; c_dist := c_dist c; c_stale := negb (cell_updateable c) |}.

  (** Distribution.set_params: [inl c'] = ValueError raised, c' is the object
      afterwards (old keywords restored: [keywords.update(old_kwargs)], same keys
      hence same order); [inr (c', rest)] = success.  [c_stale] only matters for
      frozen cells and is carried along. *)
  Definition cell_set_params (c : cell) (args : list (option Qc)) (kwargs : list (string * Qc))
    : cell + (cell * list (option Qc)) :=
    match c_dist c with
    | Frozen _ => inr (c, args)
    | Param f kw =>
        let '(kw', rest) := set_kw kw args kwargs in
        match W f (c_maxt c) kw' with
        | None => inl c
        | Some _ => inr ({| c_maxt := c_maxt c; c_dist := Param f kw'; c_stale := c_stale c |}, rest)
        end
    end.

  (** Distribution.__init__ (callable / instance / array); [mt] = the max_time
      argument.  For an instance the argument is ignored and the instance's own
      max_time is taken over (code: _init_from_instance). *)
  Definition dist_new (s : store) (a : darg) (mt : option nat) (kw : list (string * Qc)) : dres cell :=
    match a with
    | AFam f =>
        match mt with
        | None => inl DValue
        | Some m => let kw0 := dict_update (D f) kw in
                    match W f m kw0 with
                    | None => inl DValue
                    | Some _ => inr {| c_maxt := m; c_dist := Param f kw0; c_stale := false |}
                    end
        end
    | AObj i =>
        match nth_error s i with
        | None => inl DKey
        | Some c0 =>
            match c_dist c0 with
            | Frozen p =>
                if c_stale c0 then inl DType
                else match mk_frozen (c_maxt c0) p with
                     | None => inl DValue
                     | Some d => inr {| c_maxt := c_maxt c0; c_dist := d; c_stale := false |}
                     end
            | Param f kw0 =>
                match W f (c_maxt c0) kw0 with
                | None => inl DValue
                | Some _ => inr {| c_maxt := c_maxt c0; c_dist := Param f kw0; c_stale := false |}
                end
            end
        end
    | AList w =>
        let m := match mt with None => (length w - 1)%nat | Some m => m end in
        match mk_frozen m w with
        | None => inl DValue
        | Some d => inr {| c_maxt := m; c_dist := d; c_stale := false |}
        end
    end.

  (** * Composite trees *)
  Inductive ctree :=
  | Leaf (maxt : nat) (ds : list (string * nat))
  | Branch (ch : forest)
  with forest :=
  | FNil
  | FCons (name : string) (t : ctree) (rest : forest).

  Fixpoint forest_keys (f : forest) : list string :=
    match f with FNil => [] | FCons n _ r => n :: forest_keys r end.
  Fixpoint tree_ids (t : ctree) : list nat :=
    match t with Leaf _ ds => map snd ds | Branch f => forest_ids f end
  with forest_ids (f : forest) : list nat :=
    match f with FNil => [] | FCons _ t r => tree_ids t ++ forest_ids r end.

  Definition leafT := (nat * list (string * nat))%type.

  (** "for child in children: child.op(...)": left to right, stops at the first
      exception; results of all leaves in traversal order *)
  Section Each.
    Context {X R : Type}.
    Variable leaf_op : X -> store -> nat -> list (string * nat) -> store * leafT * dres R.
    Variable descend : list string -> string -> X -> X.

    Fixpoint each_tree (x : X) (s : store) (t : ctree) : store * ctree * dres (list R) :=
      match t with
      | Leaf m ds =>
          let '(s', (m', ds'), r) := leaf_op x s m ds in
          (s', Leaf m' ds', match r with inl e => inl e | inr v => inr [v] end)
      | Branch f =>
          match f with
          | FNil => (s, t, inl DAttr)        (* _is_distribution_leaf raises *)
          | _ => let '(s', f', r) := each_forest (forest_keys f) x s f in (s', Branch f', r)
          end
      end
    with each_forest (keys : list string) (x : X) (s : store) (f : forest) : store * forest * dres (list R) :=
      match f with
      | FNil => (s, FNil, inr [])
      | FCons n t r =>
          let '(s1, t1, r1) := each_tree (descend keys n x) s t in
          match r1 with
          | inl e => (s1, FCons n t1 r, inl e)
          | inr v1 =>
              let '(s2, r2', r2) := each_forest keys x s1 r in
              (s2, FCons n t1 r2', match r2 with inl e => inl e | inr v2 => inr (v1 ++ v2) end)
          end
      end.
  End Each.
  Definition same {X} (_ : list string) (_ : string) (x : X) : X := x.

  (** first leaf (get_all_distributions / get_distribution_params of a branch
      return the first child's) *)
  Fixpoint first_leaf (t : ctree) : option leafT :=
    match t with
    | Leaf m ds => Some (m, ds)
    | Branch f => match f with FNil => None | FCons _ t' _ => first_leaf t' end
    end.

  (** ** Leaf operations *)

  (** Composite.max_time getter in a leaf: re-synchronises contained distributions *)
  Fixpoint sync_cells (s : store) (m : nat) (ds : list (string * nat)) : store :=
    match ds with
    | [] => s
    | (_, i) :: r =>
        sync_cells (match nth_error s i with
                    | Some c => if Nat.eqb (c_maxt c) m then s else upd s i (cell_set_maxt c m)
                    | None => s
                    end) m r
    end.
  Definition leaf_get_max_time (_ : unit) (s : store) (m : nat) (ds : list (string * nat))
    : store * leafT * dres nat := (sync_cells s m ds, (m, ds), inr m).

  (** Composite.max_time setter in a leaf *)
  Fixpoint set_cells_maxt (s : store) (v : nat) (ds : list (string * nat)) : store :=
    match ds with
    | [] => s
    | (_, i) :: r =>
        set_cells_maxt (match nth_error s i with Some c => upd s i (cell_set_maxt c v) | None => s end) v r
    end.
  Definition leaf_set_max_time (v : Z) (s : store) (m : nat) (ds : list (string * nat))
    : store * leafT * dres unit :=
    if (v <? 0)%Z then (s, (m, ds), inl DValue)
    else let v' := Z.to_nat v in (set_cells_maxt s v' ds, (v', ds), inr tt).

  (** Composite.set_distribution in a leaf:
      [self._distributions[t] = Distribution(distribution, self.max_time)] *)
  Definition leaf_set_distribution (x : string * darg) (s : store) (m : nat) (ds : list (string * nat))
    : store * leafT * dres unit :=
    let s1 := sync_cells s m ds in
    match dist_new s1 (snd x) (Some m) [] with
    | inl e => (s1, (m, ds), inl e)
    | inr c => (s1 ++ [c], (m, dict_set (fst x) (length s1) ds), inr tt)
    end.

  Definition leaf_del_distribution (t : string) (s : store) (m : nat) (ds : list (string * nat))
    : store * leafT * dres unit :=
    match dict_get t ds with
    | None => (s, (m, ds), inl DKey)
    | Some _ => (s, (m, dict_remove t ds), inr tt)
    end.

  Fixpoint leaf_set_many (items : list (string * darg)) (s : store) (m : nat) (ds : list (string * nat))
    : store * leafT * dres unit :=
    match items with
    | [] => (s, (m, ds), inr tt)
    | x :: r =>
        let '(s1, (m1, ds1), res) := leaf_set_distribution x s m ds in
        match res with
        | inl e => (s1, (m1, ds1), inl e)
        | inr _ => leaf_set_many r s1 m1 ds1
        end
    end.
  Definition leaf_replace_all (items : list (string * darg)) (s : store) (m : nat) (ds : list (string * nat))
    : store * leafT * dres unit := leaf_set_many items s m [].

  Definition leaf_clear (_ : unit) (s : store) (m : nat) (ds : list (string * nat))
    : store * leafT * dres unit := (s, (m, []), inr tt).

  (** Composite.set_distribution_params in a leaf: loop over the updateable
      distributions in dict order, positional values used up one by one *)
  Fixpoint leaf_params_loop (it : list (string * nat)) (split : list (string * list (string * Qc)))
           (glob : list (string * Qc)) (args : list (option Qc)) (s : store)
    : store * dres (list (option Qc)) :=
    match it with
    | [] => (s, inr args)
    | (t, i) :: r =>
        match nth_error s i with
        | None => (s, inl DKey)
        | Some c =>
            if cell_updateable c
            then match cell_set_params c args (dict_update glob (dict_get_or t split [])) with
                 | inl c' => (upd s i c', inl DValue)
                 | inr (c', rest) => leaf_params_loop r split glob rest (upd s i c')
                 end
            else leaf_params_loop r split glob args s
        end
    end.
  Definition pargs := (list (option Qc) * list (string * Qc))%type.
  Definition leaf_set_distribution_params (x : pargs) (s : store) (m : nat) (ds : list (string * nat))
    : store * leafT * dres (list (option Qc)) :=
    let '(split, glob) := unflatten_and_split (snd x) (map fst ds) in
    let '(s', r) := leaf_params_loop ds split glob (fst x) s in
    (s', (m, ds), r).
  (** branch: child_kwargs = global_kwargs.copy(); update(kwargs.get(key, {})); all args to every child *)
  Definition descend_params (keys : list string) (key : string) (x : pargs) : pargs :=
    let '(split, glob) := unflatten_and_split (snd x) keys in
    (fst x, dict_update glob (dict_get_or key split [])).

  (** Composite.get_distribution_params in a leaf (as_dict, as_flat) *)
  Fixpoint leaf_params (s : store) (ds : list (string * nat)) : list (string * list (string * Qc)) :=
    match ds with
    | [] => []
    | (t, i) :: r =>
        match nth_error s i with
        | Some c => if cell_updateable c then (t, cell_kw c) :: leaf_params s r else leaf_params s r
        | None => leaf_params s r
        end
    end.

  (** ** Composite API (any node of the tree) *)
  Definition lastR {R} (r : dres (list R)) (dflt : R) : dres R :=
    match r with inl e => inl e | inr l => inr (last l dflt) end.
  Definition firstR {R} (r : dres (list R)) (dflt : R) : dres R :=
    match r with inl e => inl e | inr l => inr (hd dflt l) end.

  Definition comp_get_max_time (s : store) (t : ctree) : store * ctree * dres nat :=
    let '(s', t', r) := each_tree leaf_get_max_time same tt s t in (s', t', firstR r 0%nat).
  Definition comp_set_max_time (v : Z) (s : store) (t : ctree) : store * ctree * dres unit :=
    let '(s', t', r) := each_tree leaf_set_max_time same v s t in (s', t', lastR r tt).
  Definition comp_set_distribution (ts : string) (a : darg) (s : store) (t : ctree) : store * ctree * dres unit :=
    let '(s', t', r) := each_tree leaf_set_distribution same (ts, a) s t in (s', t', lastR r tt).
  Definition comp_del_distribution (ts : string) (s : store) (t : ctree) : store * ctree * dres unit :=
    let '(s', t', r) := each_tree leaf_del_distribution same ts s t in (s', t', lastR r tt).
  Definition comp_replace_all (items : list (string * darg)) (s : store) (t : ctree) : store * ctree * dres unit :=
    let '(s', t', r) := each_tree leaf_replace_all same items s t in (s', t', lastR r tt).
  Definition comp_clear (s : store) (t : ctree) : store * ctree * dres unit :=
    let '(s', t', r) := each_tree leaf_clear same tt s t in (s', t', lastR r tt).
  Definition comp_set_distribution_params (args : list (option Qc)) (kwargs : list (string * Qc))
             (s : store) (t : ctree) : store * ctree * dres (list (option Qc)) :=
    let '(s', t', r) := each_tree leaf_set_distribution_params descend_params (args, kwargs) s t in
    (s', t', lastR r []).

  (** get_all_distributions / get_distribution: the first leaf's dict *)
  Definition comp_get_distribution (ts : string) (t : ctree) : dres nat :=
    match first_leaf t with
    | None => inl DAttr
    | Some (_, ds) => match dict_get ts ds with None => inl DKey | Some i => inr i end
    end.
  Definition comp_get_distribution_params (s : store) (t : ctree) : dres (list (string * Qc)) :=
    match first_leaf t with
    | None => inl DAttr
    | Some (_, ds) => inr (flatten2 (leaf_params s ds))
    end.
  (** model.get_distribution(ts).set_params(args..., kwargs...) *)
  Definition comp_cell_set_params (ts : string) (args : list (option Qc)) (kwargs : list (string * Qc))
             (s : store) (t : ctree) : store * ctree * dres (list (option Qc)) :=
    match comp_get_distribution ts t with
    | inl e => (s, t, inl e)
    | inr i =>
        match nth_error s i with
        | None => (s, t, inl DKey)
        | Some c => match cell_set_params c args kwargs with
                    | inl c' => (upd s i c', t, inl DValue)
                    | inr (c', rest) => (upd s i c', t, inr rest)
                    end
        end
    end.

  (** attribute path: model.ipsi, model.ext.contra, ... *)
  Fixpoint forest_get (n : string) (f : forest) : option ctree :=
    match f with FNil => None | FCons n' t r => if str_eqb n n' then Some t else forest_get n r end.
  Fixpoint forest_put (n : string) (t' : ctree) (f : forest) : forest :=
    match f with
    | FNil => FNil
    | FCons n' t r => if str_eqb n n' then FCons n' t' r else FCons n' t (forest_put n t' r)
    end.
  Fixpoint get_sub (p : list string) (t : ctree) : option ctree :=
    match p with
    | [] => Some t
    | n :: p' => match t with
                 | Leaf _ _ => None
                 | Branch f => match forest_get n f with None => None | Some c => get_sub p' c end
                 end
    end.
  Fixpoint put_sub (p : list string) (t' : ctree) (t : ctree) : ctree :=
    match p with
    | [] => t'
    | n :: p' => match t with
                 | Leaf _ _ => t
                 | Branch f => match forest_get n f with
                               | None => t
                               | Some c => Branch (forest_put n (put_sub p' t' c) f)
                               end
                 end
    end.
  Definition at_path {R} (p : list string) (op : store -> ctree -> store * ctree * dres R)
             (s : store) (t : ctree) : store * ctree * dres R :=
    match get_sub p t with
    | None => (s, t, inl DAttr)
    | Some sub => let '(s', sub', r) := op s sub in (s', put_sub p sub' t, r)
    end.

  (** * Histories *)
  Record world := { w_store : store; w_tree : ctree; w_objs : list (option nat) }.
  (** [w_objs]: the k-th [Distribution(...)] call made by the user (outside a
      model) -> its cell, [None] if the constructor raised *)

  Inductive op :=
  | ONew (a : darg) (mt : option nat) (kw : list (string * Qc))        (* d_k = Distribution(a, mt, **kw); AObj k = handle *)
  | OObjSetParams (k : nat) (args : list (option Qc)) (kwargs : list (string * Qc))
  | OObjSetMaxTime (k : nat) (v : Z)
  | OSetDist (p : list string) (ts : string) (a : darg)             (* AObj k = handle *)
  | ODelDist (p : list string) (ts : string)
  | OReplaceAll (p : list string) (items : list (string * darg))
  | OClear (p : list string)
  | OSetMaxTime (p : list string) (v : Z)
  | OGetMaxTime (p : list string)
  | OSetDistParams (p : list string) (args : list (option Qc)) (kwargs : list (string * Qc))
  | OCellSetParams (p : list string) (ts : string) (args : list (option Qc)) (kwargs : list (string * Qc)).

  Inductive oval := VNone | VArgs (l : list (option Qc)) | VNat (n : nat) | VSkip.

  Definition resolve (objs : list (option nat)) (a : darg) : option darg :=
    match a with
    | AObj k => match nth_error objs k with Some (Some i) => Some (AObj i) | _ => None end
    | _ => Some a
    end.
  Fixpoint resolve_items (objs : list (option nat)) (items : list (string * darg)) : option (list (string * darg)) :=
    match items with
    | [] => Some []
    | (t, a) :: r => match resolve objs a, resolve_items objs r with
                     | Some a', Some r' => Some ((t, a') :: r')
                     | _, _ => None
                     end
    end.

  Definition lift {R} (w : world) (f : R -> oval) (x : store * ctree * dres R) : world * dres oval :=
    let '(s, t, r) := x in
    ({| w_store := s; w_tree := t; w_objs := w_objs w |}, match r with inl e => inl e | inr v => inr (f v) end).

  (** a handle whose constructor failed: the harness skips the operation ([VSkip]) *)
  Definition step (w : world) (o : op) : world * dres oval :=
    let s := w_store w in let t := w_tree w in
    match o with
    | ONew a mt kw =>
        match resolve (w_objs w) a with
        | None => (w, inr VSkip)
        | Some a' =>
            match dist_new s a' mt kw with
            | inl e => ({| w_store := s; w_tree := t; w_objs := w_objs w ++ [None] |}, inl e)
            | inr c => ({| w_store := s ++ [c]; w_tree := t; w_objs := w_objs w ++ [Some (length s)] |}, inr VNone)
            end
        end
    | OObjSetParams k args kwargs =>
        match nth_error (w_objs w) k with
        | Some (Some i) =>
            match nth_error s i with
            | None => (w, inl DKey)
            | Some c => match cell_set_params c args kwargs with
                        | inl c' => ({| w_store := upd s i c'; w_tree := t; w_objs := w_objs w |}, inl DValue)
                        | inr (c', rest) => ({| w_store := upd s i c'; w_tree := t; w_objs := w_objs w |}, inr (VArgs rest))
                        end
            end
        | _ => (w, inr VSkip)
        end
    | OObjSetMaxTime k v =>
        match nth_error (w_objs w) k with
        | Some (Some i) =>
            match nth_error s i with
            | None => (w, inl DKey)
            | Some c => if (v <? 0)%Z then (w, inl DValue)
                        else ({| w_store := upd s i (cell_set_maxt c (Z.to_nat v)); w_tree := t; w_objs := w_objs w |}, inr VNone)
            end
        | _ => (w, inr VSkip)
        end
    | OSetDist p ts a =>
        match resolve (w_objs w) a with
        | None => (w, inr VSkip)
        | Some a' => lift w (fun _ => VNone) (at_path p (comp_set_distribution ts a') s t)
        end
    | ODelDist p ts => lift w (fun _ => VNone) (at_path p (comp_del_distribution ts) s t)
    | OReplaceAll p items =>
        match resolve_items (w_objs w) items with
        | None => (w, inr VSkip)
        | Some items' => lift w (fun _ => VNone) (at_path p (comp_replace_all items') s t)
        end
    | OClear p => lift w (fun _ => VNone) (at_path p comp_clear s t)
    | OSetMaxTime p v => lift w (fun _ => VNone) (at_path p (comp_set_max_time v) s t)
    | OGetMaxTime p => lift w VNat (at_path p comp_get_max_time s t)
    | OSetDistParams p args kwargs => lift w VArgs (at_path p (comp_set_distribution_params args kwargs) s t)
    | OCellSetParams p ts args kwargs => lift w VArgs (at_path p (comp_cell_set_params ts args kwargs) s t)
    end.

  Fixpoint run_history (w : world) (h : list op) : world :=
    match h with [] => w | o :: r => run_history (fst (step w o)) r end.

  (** ** Printable observation (exact integers), after every step *)
  Definition show_args (l : list (option Qc)) : list (option (Z * Z)) := map (option_map qout) l.
  Definition show_kw (kw : list (string * Qc)) : list (string * (Z * Z)) := map (fun nv => (fst nv, qout (snd nv))) kw.
  Definition show_cell (c : cell) : nat * bool * list (string * (Z * Z)) * dres (list (Z * Z)) :=
    (c_maxt c, cell_updateable c, show_kw (cell_kw c),
     match cell_pmf c with inl e => inl e | inr p => inr (qouts p) end).
  Fixpoint show_tree (t : ctree) : list (nat * list (string * nat)) :=
    match t with Leaf m ds => [(m, ds)] | Branch f => show_forest f end
  with show_forest (f : forest) : list (nat * list (string * nat)) :=
    match f with FNil => [] | FCons _ t r => show_tree t ++ show_forest r end.
  Definition show_oval (r : dres oval) : dres (nat * list (option (Z * Z))) :=
    match r with
    | inl e => inl e
    | inr VNone => inr (0%nat, [])
    | inr (VArgs l) => inr (1%nat, show_args l)
    | inr (VNat n) => inr (2%nat, [Some (Z.of_nat n, 1%Z)])
    | inr VSkip => inr (3%nat, [])
    end.
  Definition show_world (w : world) :=
    (map show_cell (w_store w), show_tree (w_tree w), w_objs w,
     match comp_get_distribution_params (w_store w) (w_tree w) with
     | inl e => inl e | inr kw => inr (show_kw kw) end).
  Fixpoint trace (w : world) (h : list op) :=
    match h with
    | [] => []
    | o :: r => let '(w', res) := step w o in (show_oval res, show_world w') :: trace w' r
    end.

  (** ** Well-formedness (aliasing discipline) *)
  Definition wf_tree (s : store) (t : ctree) : Prop :=
    NoDup (tree_ids t) /\ (forall i, In i (tree_ids t) -> (i < length s)%nat).
  Definition wf_world (w : world) : Prop :=
    wf_tree (w_store w) (w_tree w)
    /\ (forall k i, nth_error (w_objs w) k = Some (Some i) -> (i < length (w_store w))%nat /\ ~ In i (tree_ids (w_tree w))).
  (** every cell a leaf holds lives on the leaf's support *)
  Fixpoint synced (s : store) (t : ctree) : Prop :=
    match t with
    | Leaf m ds => forall ts i c, In (ts, i) ds -> nth_error s i = Some c -> c_maxt c = m
    | Branch f => synced_forest s f
    end
  with synced_forest (s : store) (f : forest) : Prop :=
    match f with FNil => True | FCons _ t r => synced s t /\ synced_forest s r end.

  (** cells off a set of ids are untouched *)
  Definition same_off (ids : list nat) (s s' : store) : Prop :=
    forall i, (i < length s)%nat -> ~ In i ids -> nth_error s' i = nth_error s i.
End Families.

(** the two concrete families of the harness (harness/impl.py fam0, fam1): defaults *)
Definition fam_defaults (f : nat) : list (string * Qc) :=
  match f with
  | O => [("p"%string, qc 1 2)]
  | _ => [("a"%string, qc 1 2); ("b"%string, 1)]
  end.

(** the models' initial composite trees *)
Definition uni_tree (m : nat) : ctree := Leaf m [].
Definition bi_tree (m : nat) : ctree :=
  Branch (FCons "ipsi" (uni_tree m) (FCons "contra" (uni_tree m) FNil)).
Definition mid_tree (m : nat) (central unknown : bool) : ctree :=
  Branch (FCons "ext" (bi_tree m) (FCons "noext" (bi_tree m)
    ((if central then FCons "central" (bi_tree m) else (fun f => f))
       ((if unknown then FCons "unknown" (bi_tree m) else (fun f => f)) FNil)))).
Definition world0 (t : ctree) : world := {| w_store := []; w_tree := t; w_objs := [] |}.

(** * Theorem statements (C18) *)

(** what a parametric function must deliver to be a distribution *)
Definition W_len (W : nat -> nat -> list (string * Qc) -> option vec) : Prop :=
  forall f m kw w, W f m kw = Some w -> length w = S m.
Definition W_good (W : nat -> nat -> list (string * Qc) -> option vec) : Prop :=
  forall f m kw w, W f m kw = Some w ->
    length w = S m /\ (forall x, In x w -> 0 <= x) /\ 0 < sumQ w.
Definition is_pmf (m : nat) (p : vec) : Prop :=
  length p = S m /\ (forall x, In x p -> 0 <= x) /\ sumQ p = 1.
