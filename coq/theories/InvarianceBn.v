(** InvarianceBn (C15, Bayesian-network mode): the BN state distribution
    [Unilateral.state_dist(mode="BN")] ([state_dist_bn], Spec [bn_spec]), the BN joint
    of a bilateral model (outer product of the two sides), the BN likelihood
    ([bn_likelihood_factors]) and the BN risk ([risk ... false]) do not depend on the
    order in which arcs / nodes / modalities / table columns are listed, nor on the LNL
    names, nor on which side of a bilateral model is called "ipsi".

    The transformations ([arcs_reordered], [nodes_relisted], [graph_relisted],
    [relist], [rename_graph], [rename_uni], [swap_sides], ...) are those of
    Invariance.v; the proofs reuse the lemmas of InvarianceProofs.v.  The BN mode is
    binary only ([state_dist_bn] answers [MNotImpl] for a trinary graph): the
    statements about the Impl vector that need [bn_spec_correct] carry the hypothesis
    [g_base g = 2]; the statements about the Spec [bn_spec] hold for every graph.

    The likelihood and the risk of Invariance.v are [lik_of] / [risk_of] below with the
    HMM prior [prior_spec u pm] plugged in ([lik_of_hmm], [risk_of_hmm]); the transfer
    lemma [transfer_prior] is parametric in the prior, so the BN versions are
    corollaries. *)
From Coq Require Import Permutation.
From LymphModel Require Import Base States Linalg Graph Transition Observation Dist Unilateral
  UniStatements Models Bilateral Midline BiStatements TransitionProofs ObservationProofs PriorProofs
  LikelihoodProofs PosteriorProofs BilateralProofs BnProofs Invariance InvarianceProofs.
Local Open Scope nat_scope.
Open Scope Qc_scope.

(** * Definitions *)
(** one entry of the Impl vector: [state_dist_bn g] is [map (bn_entry g) (state_list g)]
    unless the graph is trinary ([state_dist_bn_entries]) *)
Definition bn_entry (g : graph) (x : state) : Qc :=
  fold_left (fun (r : Qc) '(i, lnl) => r * bn_node_prob g x i lnl) (combine (seq 0 (nlnls g)) (lnls g)) 1.

(** likelihood and risk of one patient for an ARBITRARY prior over the states *)
Definition lik_of (u : uni) (prior : state -> Qc) (p : patient) : Qc :=
  sumQ (map (fun x => prior x * findings_prob u p x) (u_states u)).
Definition risk_of (u : uni) (prior : state -> Qc) (inv : pattern) (p : patient) : Qc :=
  sumQ (map (fun x => if matches_pattern (u_lnls u) inv (u_base u) x
                      then prior x * findings_prob u p x else 0) (u_states u))
  / lik_of u prior p.
(** ... with the BN prior *)
Definition bn_lik_spec (u : uni) (p : patient) : Qc := lik_of u (bn_spec (u_graph u)) p.
Definition bn_risk_spec (u : uni) (inv : pattern) (p : patient) : Qc := risk_of u (bn_spec (u_graph u)) inv p.
(** BN joint of a bilateral model: the two sides are independent *)
Definition bi_bn_joint_spec (b : bilateral) (xi xc : state) : Qc :=
  bn_spec (u_graph (b_ipsi b)) xi * bn_spec (u_graph (b_contra b)) xc.

(** * Statements *)
(** the quantities of Invariance.v are the instances with the HMM prior *)
Definition C15_bn_prior_parametric_stmt : Prop :=
  forall u pm inv p,
    patient_lik_spec u pm p = lik_of u (prior_spec u pm) p /\
    risk_spec u pm inv p = risk_of u (prior_spec u pm) inv p.

(** generic transfer along a relabelling [pi] of the states, for ANY pair of priors
    that correspond under [pi] *)
Definition C15_bn_transfer_prior_stmt : Prop :=
  forall u u' pi (prior prior' : state -> Qc) p p',
    Permutation (map pi (u_states u)) (u_states u') ->
    (forall x, In x (u_states u) -> prior' (pi x) = prior x) ->
    findings_iso u u' pi p p' ->
    lik_of u' prior' p' = lik_of u prior p /\
    (forall inv inv', pattern_iso u u' pi inv inv' -> risk_of u' prior' inv' p' = risk_of u prior inv p).

(** Impl = Spec for the BN likelihood and the BN risk (binary models) *)
Definition C15_bn_likelihood_impl_stmt : Prop :=
  forall u data t, wf_uni u = true -> forallb wf_patient data = true -> u_base u = 2 ->
    bn_likelihood_factors u data t = inr (map (bn_lik_spec u) (select data t)).
Definition C15_bn_risk_impl_stmt : Prop :=
  forall u inv d t r, wf_uni u = true -> wf_patient {| p_tstage := ""; p_find := d |} = true -> u_base u = 2 ->
    risk u inv (Some d) t false = inr (Some r) ->
    r = bn_risk_spec u inv {| p_tstage := ""; p_find := d |}.

(** 1. arc order: no hypothesis on the graph, all states; the Impl vectors are EQUAL
    (also for a trinary graph: both answers are [MNotImpl]) *)
Definition C15_bn_arc_order_stmt : Prop :=
  forall g g', arcs_reordered g g' ->
    (forall x, bn_spec g' x = bn_spec g x) /\
    state_list g' = state_list g /\
    (forall x, bn_entry g' x = bn_entry g x) /\
    state_dist_bn g' = state_dist_bn g.
Definition C15_bn_arc_order_model_stmt : Prop :=
  forall u g' p inv, arcs_reordered (u_graph u) g' ->
    bn_lik_spec (with_graph u g') p = bn_lik_spec u p /\
    bn_risk_spec (with_graph u g') inv p = bn_risk_spec u inv p /\
    (forall data t, bn_likelihood_factors (with_graph u g') data t = bn_likelihood_factors u data t).

(** 3. node order: the BN probability of a state is the BN probability, in the
    re-listed graph, of the state that assigns the same status to every LNL NAME
    ([relist], as in [C15_node_order_stmt]); the Impl vector of the re-listed graph
    is the original distribution read through the inverse relabelling; total mass *)
Definition C15_bn_node_order_stmt : Prop :=
  forall g g', wf_graphb g = true -> nodes_relisted g g' ->
    (forall x, bn_spec g' (relist g g' x) = bn_spec g x) /\
    (forall x', bn_spec g (relist g' g x') = bn_spec g' x') /\
    (g_base g = 2 ->
       state_dist_bn g = inr (map (bn_spec g) (state_list g)) /\
       state_dist_bn g' = inr (map (fun x' => bn_spec g (relist g' g x')) (state_list g'))) /\
    sumQ (map (bn_spec g') (state_list g')) = sumQ (map (bn_spec g) (state_list g)).
(** 3b. nodes AND arcs listed in another order *)
Definition C15_bn_listing_order_stmt : Prop :=
  forall g g', wf_graphb g = true -> graph_relisted g g' ->
    wf_graphb g' = true /\
    (forall x, bn_spec g' (relist g g' x) = bn_spec g x) /\
    (forall x', bn_spec g (relist g' g x') = bn_spec g' x') /\
    (g_base g = 2 ->
       state_dist_bn g = inr (map (bn_spec g) (state_list g)) /\
       state_dist_bn g' = inr (map (fun x' => bn_spec g (relist g' g x')) (state_list g'))) /\
    sumQ (map (bn_spec g') (state_list g')) = sumQ (map (bn_spec g) (state_list g)).
(** findings are keyed by LNL name: the SAME patient record and involvement pattern *)
Definition C15_bn_listing_order_model_stmt : Prop :=
  forall u g' p inv, wf_graphb (u_graph u) = true -> graph_relisted (u_graph u) g' ->
    let pi := relist (u_graph u) g' in
    (forall x, length x = u_n u ->
       bn_spec g' (pi x) * findings_prob (with_graph u g') p (pi x)
       = bn_spec (u_graph u) x * findings_prob u p x) /\
    bn_lik_spec (with_graph u g') p = bn_lik_spec u p /\
    bn_risk_spec (with_graph u g') inv p = bn_risk_spec u inv p.

(** 2. modality order and column order: the BN prior does not involve them *)
Definition C15_bn_modality_order_stmt : Prop :=
  forall u ms' p inv, Permutation (u_mods u) ms' ->
    bn_lik_spec (with_mods u ms') p = bn_lik_spec u p /\
    bn_risk_spec (with_mods u ms') inv p = bn_risk_spec u inv p.
Definition C15_bn_column_order_stmt : Prop :=
  forall u p p' inv inv', same_findings (p_find p) (p_find p') -> same_pattern inv inv' ->
    bn_lik_spec u p' = bn_lik_spec u p /\ bn_risk_spec u inv' p' = bn_risk_spec u inv p.

(** 4. renaming: the Impl vectors are EQUAL *)
Definition C15_bn_renaming_stmt : Prop :=
  forall rho g, injective rho ->
    (forall x, bn_spec (rename_graph rho g) x = bn_spec g x) /\
    state_list (rename_graph rho g) = state_list g /\
    (forall x, bn_entry (rename_graph rho g) x = bn_entry g x) /\
    state_dist_bn (rename_graph rho g) = state_dist_bn g.
Definition C15_bn_renaming_model_stmt : Prop :=
  forall rl rm u p inv, injective rl -> injective rm ->
    let u' := rename_uni rl rm u in
    let p' := rename_patient rl rm p in
    bn_lik_spec u' p' = bn_lik_spec u p /\
    bn_risk_spec u' (rename_pattern rl inv) p' = bn_risk_spec u inv p.

(** 5. side swap of a bilateral model: the BN joint is transposed (no hypothesis), the
    likelihood and the posterior weights are unchanged; Impl: the matrix of the
    swapped model is the table of the transposed joint *)
Definition C15_bn_bilateral_side_swap_stmt : Prop :=
  forall b,
    (forall xi xc, bi_bn_joint_spec (swap_sides b) xc xi = bi_bn_joint_spec b xi xc) /\
    (forall p, bi_patient_lik_spec (swap_sides b) (bi_bn_joint_spec (swap_sides b)) (swap_bpatient p)
               = bi_patient_lik_spec b (bi_bn_joint_spec b) p) /\
    (forall p xi xc, bi_post_weight (swap_sides b) (bi_bn_joint_spec (swap_sides b)) (swap_bpatient p) xc xi
                     = bi_post_weight b (bi_bn_joint_spec b) p xi xc) /\
    (forall t, wf_graphb (u_graph (b_ipsi b)) = true -> wf_graphb (u_graph (b_contra b)) = true ->
       u_base (b_ipsi b) = 2 -> u_base (b_contra b) = 2 ->
       bi_state_dist b t false
       = inr (tab2 (bi_bn_joint_spec b) (u_states (b_ipsi b)) (u_states (b_contra b))) /\
       bi_state_dist (swap_sides b) t false
       = inr (tab2 (transpose_fun (bi_bn_joint_spec b)) (u_states (b_contra b)) (u_states (b_ipsi b)))).
(** Impl = Spec for the bilateral BN likelihood *)
Definition C15_bn_bilateral_likelihood_impl_stmt : Prop :=
  forall b data t, wf_bilateral b = true -> forallb wf_bpatient data = true -> u_base (b_ipsi b) = 2 ->
    bi_bn_likelihood_factors b data t
    = inr (map (bi_patient_lik_spec b (bi_bn_joint_spec b))
               (match t with None => data | Some ts => filter (fun p => str_eqb (bp_t p) ts) data end)).
(** both sides of a bilateral model re-listed (independently): joint and likelihood *)
Definition with_graphs (b : bilateral) (gi gc : graph) : bilateral :=
  {| b_ipsi := with_graph (b_ipsi b) gi; b_contra := with_graph (b_contra b) gc;
     b_symT := b_symT b; b_symL := b_symL b |}.
Definition C15_bn_bilateral_listing_order_stmt : Prop :=
  forall b gi' gc' p,
    wf_graphb (u_graph (b_ipsi b)) = true -> wf_graphb (u_graph (b_contra b)) = true ->
    graph_relisted (u_graph (b_ipsi b)) gi' -> graph_relisted (u_graph (b_contra b)) gc' ->
    (forall xi xc, bi_bn_joint_spec (with_graphs b gi' gc')
                     (relist (u_graph (b_ipsi b)) gi' xi) (relist (u_graph (b_contra b)) gc' xc)
                   = bi_bn_joint_spec b xi xc) /\
    bi_patient_lik_spec (with_graphs b gi' gc') (bi_bn_joint_spec (with_graphs b gi' gc')) p
    = bi_patient_lik_spec b (bi_bn_joint_spec b) p.
Definition rename_bi (rl rm : string -> string) (b : bilateral) : bilateral :=
  {| b_ipsi := rename_uni rl rm (b_ipsi b); b_contra := rename_uni rl rm (b_contra b);
     b_symT := b_symT b; b_symL := b_symL b |}.
Definition rename_bpatient (rl rm : string -> string) (p : bpatient) : bpatient :=
  {| bp_t := bp_t p; bp_ipsi := rename_diag rl rm (bp_ipsi p); bp_contra := rename_diag rl rm (bp_contra p) |}.
Definition C15_bn_bilateral_renaming_stmt : Prop :=
  forall rl rm b p, injective rl -> injective rm ->
    (forall xi xc, bi_bn_joint_spec (rename_bi rl rm b) xi xc = bi_bn_joint_spec b xi xc) /\
    bi_patient_lik_spec (rename_bi rl rm b) (bi_bn_joint_spec (rename_bi rl rm b)) (rename_bpatient rl rm p)
    = bi_patient_lik_spec b (bi_bn_joint_spec b) p.

(** acyclicity of the LNL arcs (the hypothesis of C07_bn_sum_one) does not depend on
    the listing either, although the order computed by [topo_sort] does *)
Definition C15_bn_acyclic_preserved_stmt : Prop :=
  (forall g g', graph_relisted g g' -> (acyclic g <-> acyclic g')) /\
  (forall rho g, injective rho -> (acyclic g <-> acyclic (rename_graph rho g))).

(** * Proofs *)
(** ** the Impl vector *)
Lemma state_dist_bn_entries g :
  state_dist_bn g = if Nat.eqb (g_base g) 3 then inl MNotImpl else inr (map (bn_entry g) (state_list g)).
Proof. reflexivity. Qed.

Lemma bn_entry_prod g x :
  bn_entry g x = prodQ (map (fun '(i, lnl) => bn_node_prob g x i lnl) (combine (seq 0 (nlnls g)) (lnls g))).
Proof. unfold bn_entry. rewrite (fold_pair_prodQ (bn_node_prob g x)). ring. Qed.

Definition bn_tensor_entry (g : graph) (x : state) (e : edge) : Qc :=
  tget (transition_tensor (g_base g) e) (if is_tumor_spread e then 0%nat else parent_digit g e x) 0 0.
Lemma bn_node_prob_prod g x i lnl :
  bn_node_prob g x i lnl
  = (if Nat.eqb (digit i x) 0 then 1 else -(1)) * prodQ (map (bn_tensor_entry g x) (inc_edges g lnl))
    + qnat (digit i x).
Proof. unfold bn_node_prob. cbv zeta. rewrite (fold_mult_map_prodQ (bn_tensor_entry g x)). reflexivity. Qed.

(** the per-LNL Impl factor depends on the graph only through the multiset of the
    LNL's incoming arcs (kind, spread, micro-modifier) and the parents' digits *)
Definition edge_corr_all (g g' : graph) (x x' : state) (f : edge -> edge) (e : edge) : Prop :=
  e_kind (f e) = e_kind e /\ e_spread (f e) = e_spread e /\ e_micro (f e) = e_micro e /\
  parent_digit g' (f e) x' = parent_digit g e x.
Lemma bn_node_prob_ext g g' x x' i i' lnl lnl' (f : edge -> edge) :
  g_base g' = g_base g -> digit i' x' = digit i x ->
  Permutation (map f (inc_edges g lnl)) (inc_edges g' lnl') ->
  (forall e, In e (inc_edges g lnl) -> edge_corr_all g g' x x' f e) ->
  bn_node_prob g' x' i' lnl' = bn_node_prob g x i lnl.
Proof.
  intros Hb Hd Hperm Hc. rewrite !bn_node_prob_prod, Hd. f_equal. f_equal.
  rewrite <- (prodQ_map_Permutation _ _ _ Hperm), map_map. apply prodQ_map_ext. intros e He.
  destruct (Hc e He) as (Hk & Hs & Hm & Hp). unfold bn_tensor_entry.
  assert (Ht : transition_tensor (g_base g') (f e) = transition_tensor (g_base g) e).
  { unfold transition_tensor, is_tumor_spread, is_growth, edge_micro. rewrite Hk, Hs, Hm, Hb. reflexivity. }
  rewrite Ht, Hp. unfold is_tumor_spread. rewrite Hk. reflexivity.
Qed.

(** the per-LNL Spec factor *)
Lemma bn_spec_stay g x :
  bn_spec g x = prodQ (map (fun '(i, lnl) => if Nat.eqb (digit i x) 0 then bn_stay g x lnl else 1 - bn_stay g x lnl)
                           (combine (seq 0 (nlnls g)) (lnls g))).
Proof. reflexivity. Qed.
Lemma bn_stay_ext g g' x x' lnl lnl' (f : edge -> edge) :
  Permutation (map f (inc_edges g lnl)) (inc_edges g' lnl') ->
  (forall e, In e (inc_edges g lnl) -> edge_corr g g' x x' f e) ->
  bn_stay g' x' lnl' = bn_stay g x lnl.
Proof.
  intros Hperm Hc. unfold bn_stay. rewrite <- (prodQ_map_Permutation _ _ _ Hperm), map_map.
  apply prodQ_map_ext. intros e He. destruct (Hc e He) as (Hk & Hs & _ & Hp).
  unfold bn_arc. rewrite Hk, Hs. destruct (e_kind e); try reflexivity. rewrite Hp by reflexivity. reflexivity.
Qed.

(** ** 1. arc order *)
Lemma bn_arc_order : C15_bn_arc_order_stmt.
Proof.
  intros g g' H. pose proof (arcs_lnls g g' H) as Hl. pose proof (arcs_states g g' H) as Hs.
  destruct H as (Hb & Hn & Hp).
  assert (Hinc : forall lnl, Permutation (map (fun e => e) (inc_edges g lnl)) (inc_edges g' lnl)).
  { intros lnl. rewrite map_id. unfold inc_edges. apply Permutation_filter. exact Hp. }
  assert (Hsp : forall x, bn_spec g' x = bn_spec g x).
  { intros x. rewrite !bn_spec_stay. unfold nlnls. rewrite Hl. apply prodQ_map_ext. intros [i lnl] _.
    rewrite (bn_stay_ext g g' x x lnl lnl (fun e => e)); [reflexivity|apply Hinc|].
    intros e _. repeat split. intros _. unfold parent_digit. rewrite Hl. reflexivity. }
  assert (He : forall x, bn_entry g' x = bn_entry g x).
  { intros x. rewrite !bn_entry_prod. unfold nlnls. rewrite Hl. apply prodQ_map_ext. intros [i lnl] _.
    apply bn_node_prob_ext with (f := fun e => e); [exact Hb|reflexivity|apply Hinc|].
    intros e _. repeat split. unfold parent_digit. rewrite Hl. reflexivity. }
  split; [exact Hsp|]. split; [exact Hs|]. split; [exact He|].
  rewrite !state_dist_bn_entries, Hb, Hs. destruct (Nat.eqb (g_base g) 3); [reflexivity|].
  f_equal. apply map_ext. exact He.
Qed.

(** ** 4. renaming *)
Lemma bn_renaming : C15_bn_renaming_stmt.
Proof.
  intros rho g Hi.
  assert (Hpd : forall e x, parent_digit (rename_graph rho g) (rename_edge rho e) x = parent_digit g e x).
  { intros e x. unfold parent_digit. cbn [rename_edge e_parent].
    rewrite rename_lnls, index_of_map_inj by exact Hi. reflexivity. }
  assert (Hsp : forall x, bn_spec (rename_graph rho g) x = bn_spec g x).
  { intros x. rewrite !bn_spec_stay. unfold nlnls. rewrite rename_lnls, map_length.
    rewrite combine_map_r, map_map. apply prodQ_map_ext. intros [i lnl] _. cbn [fst snd].
    rewrite (bn_stay_ext g (rename_graph rho g) x x lnl (rho lnl) (rename_edge rho)); [reflexivity| |].
    - rewrite rename_inc_edges by exact Hi. apply Permutation_refl.
    - intros e _. repeat split. intros _. apply Hpd. }
  assert (He : forall x, bn_entry (rename_graph rho g) x = bn_entry g x).
  { intros x. rewrite !bn_entry_prod. unfold nlnls. rewrite rename_lnls, map_length.
    rewrite combine_map_r, map_map. apply prodQ_map_ext. intros [i lnl] _. cbn [fst snd].
    apply bn_node_prob_ext with (f := rename_edge rho); [reflexivity|reflexivity| |].
    - rewrite rename_inc_edges by exact Hi. apply Permutation_refl.
    - intros e _. repeat split. apply Hpd. }
  split; [exact Hsp|]. split; [apply rename_states|]. split; [exact He|].
  rewrite !state_dist_bn_entries, rename_states. cbn [rename_graph g_base].
  destruct (Nat.eqb (g_base g) 3); [reflexivity|]. f_equal. apply map_ext. exact He.
Qed.

(** ** 3. node order *)
Lemma bn_factor_assign g x l :
  bn_factor g x l = if Nat.eqb (assign g x l) 0 then bn_stay g x l else 1 - bn_stay g x l.
Proof. reflexivity. Qed.

Lemma relisted_bn_spec g g' : wf_graphb g = true -> nodes_relisted g g' ->
  forall x, bn_spec g' (relist g g' x) = bn_spec g x.
Proof.
  intros Hwf H x. pose proof (relisted_lnls g g' H) as Hl.
  pose proof (wf_nodup g Hwf) as Hnd. pose proof (wf_nodup g' (relisted_wf g g' H Hwf)) as Hnd'.
  rewrite (bn_spec_factors g' _ Hnd'), (bn_spec_factors g x Hnd).
  rewrite <- (prodQ_map_Permutation _ _ _ Hl). apply prodQ_map_ext. intros l Hin.
  assert (Hin' : In l (lnls g')) by (eapply Permutation_in; eassumption).
  rewrite !bn_factor_assign, assign_relist by exact Hin'.
  destruct H as (Hb & He & _).
  rewrite (bn_stay_ext g g' x (relist g g' x) l l (fun e => e)); [reflexivity| |].
  - rewrite map_id. unfold inc_edges. rewrite He. apply Permutation_refl.
  - intros e He'. repeat split. intros Hk. apply inc_edges_In in He'. destruct He' as [He' _].
    pose proof (wf_edges g e Hwf He') as Hwe. unfold wf_edge in Hwe. rewrite Hk in Hwe.
    apply andb_true_iff in Hwe. destruct Hwe as [_ Hwe]. apply andb_true_iff in Hwe. destruct Hwe as [Hp _].
    apply TransitionProofs.mem_In in Hp. apply (assign_relist g g' x). eapply Permutation_in; eassumption.
Qed.

Lemma bn_mass_transfer g g' pi :
  Permutation (map pi (state_list g)) (state_list g') ->
  (forall x, In x (state_list g) -> bn_spec g' (pi x) = bn_spec g x) ->
  sumQ (map (bn_spec g') (state_list g')) = sumQ (map (bn_spec g) (state_list g)).
Proof.
  intros Hperm Hsp. rewrite <- (sumQ_map_Permutation _ _ _ Hperm), map_map. apply sumQ_map_ext. exact Hsp.
Qed.

Lemma bn_node_order : C15_bn_node_order_stmt.
Proof.
  intros g g' Hwf H.
  pose proof (relisted_wf g g' H Hwf) as Hwf'. pose proof (relisted_sym g g' H) as H'.
  assert (Hinv : forall x', bn_spec g (relist g' g x') = bn_spec g' x')
    by (apply relisted_bn_spec; assumption).
  split; [apply relisted_bn_spec; assumption|]. split; [exact Hinv|]. split.
  - intros Hb. split; [apply bn_spec_correct; assumption|].
    rewrite (bn_spec_correct g' Hwf') by (destruct H as (Hb' & _); congruence).
    f_equal. apply map_ext. intros x'. symmetry. apply Hinv.
  - apply (bn_mass_transfer g g' (relist g g')); [apply relisted_bijection; assumption|].
    intros x _. apply relisted_bn_spec; assumption.
Qed.

(** ** 3b. nodes and arcs *)
Lemma graph_relisted_sym g g' : graph_relisted g g' -> graph_relisted g' g.
Proof. intros (Hb & Hn & He). repeat split; [congruence|apply Permutation_sym, Hn|apply Permutation_sym, He]. Qed.

Lemma listed_bn_spec g g' : wf_graphb g = true -> graph_relisted g g' ->
  forall x, bn_spec g' (relist g g' x) = bn_spec g x.
Proof.
  intros Hwf H x. pose proof (mid_arcs g g' H) as Ha. pose proof (mid_nodes g g' H) as Hn.
  destruct wf_preserved as (Hwa & _). pose proof (Hwa _ _ Ha Hwf) as Hwf1.
  destruct (bn_arc_order _ _ Ha) as (Hs1 & _). rewrite <- Hs1, <- mid_relist.
  apply relisted_bn_spec; assumption.
Qed.

Lemma bn_listing_order : C15_bn_listing_order_stmt.
Proof.
  intros g g' Hwf H.
  destruct (listing_order g g' Hwf H) as (Hwf' & _ & _ & (Hperm & _)).
  pose proof (graph_relisted_sym g g' H) as H'.
  assert (Hinv : forall x', bn_spec g (relist g' g x') = bn_spec g' x')
    by (apply listed_bn_spec; assumption).
  split; [exact Hwf'|]. split; [apply listed_bn_spec; assumption|]. split; [exact Hinv|]. split.
  - intros Hb. split; [apply bn_spec_correct; assumption|].
    rewrite (bn_spec_correct g' Hwf') by (destruct H as (Hb' & _); congruence).
    f_equal. apply map_ext. intros x'. symmetry. apply Hinv.
  - apply (bn_mass_transfer g g' (relist g g')); [exact Hperm|].
    intros x _. apply listed_bn_spec; assumption.
Qed.

(** ** likelihood and risk for an arbitrary prior *)
Lemma bn_prior_parametric : C15_bn_prior_parametric_stmt.
Proof. intros u pm inv p. split; reflexivity. Qed.

Lemma transfer_prior : C15_bn_transfer_prior_stmt.
Proof.
  intros u u' pi prior prior' p p' Hperm Hpr Hf.
  assert (Hw : forall x, In x (u_states u) ->
            prior' (pi x) * findings_prob u' p' (pi x) = prior x * findings_prob u p x).
  { intros x Hx. rewrite Hpr, Hf by exact Hx. reflexivity. }
  assert (Hl : lik_of u' prior' p' = lik_of u prior p).
  { unfold lik_of. rewrite <- (sumQ_map_Permutation _ _ _ Hperm), map_map. apply sumQ_map_ext. exact Hw. }
  split; [exact Hl|]. intros inv inv' Hinv. unfold risk_of. rewrite Hl. f_equal.
  rewrite <- (sumQ_map_Permutation _ _ _ Hperm), map_map. apply sumQ_map_ext.
  intros x Hx. rewrite Hinv, Hw by exact Hx. reflexivity.
Qed.

(** models that agree pointwise *)
Lemma lik_risk_eq u u' (prior prior' : state -> Qc) p p' inv inv' :
  u_states u' = u_states u ->
  (forall x, prior' x = prior x) ->
  (forall x, findings_prob u' p' x = findings_prob u p x) ->
  (forall x, matches_pattern (u_lnls u') inv' (u_base u') x = matches_pattern (u_lnls u) inv (u_base u) x) ->
  lik_of u' prior' p' = lik_of u prior p /\ risk_of u' prior' inv' p' = risk_of u prior inv p.
Proof.
  intros Hs Hp Hf Hm.
  destruct (transfer_prior u u' (fun x => x) prior prior' p p') as (Hl & Hr).
  - rewrite map_id, Hs. apply Permutation_refl.
  - intros x _. apply Hp.
  - intros x _. apply Hf.
  - split; [exact Hl|]. apply Hr. intros x _. apply Hm.
Qed.

(** ** Impl = Spec for the BN likelihood and risk *)
Lemma bn_likelihood_impl : C15_bn_likelihood_impl_stmt.
Proof.
  intros u data t Hwf Hdata Hb. unfold bn_likelihood_factors.
  rewrite (bn_spec_correct (u_graph u) (wf_uni_graph u Hwf) Hb). cbn [bind].
  rewrite (diagnosis_matrix_entry observation_entries u data t Hwf Hdata). cbn [bind].
  rewrite map_map. f_equal. apply map_ext. intros p. apply dot_map_l.
Qed.

Lemma bn_risk_impl : C15_bn_risk_impl_stmt.
Proof.
  intros u inv d t r Hwf Hd Hb Hr. unfold risk, state_dist in Hr.
  rewrite (bn_spec_correct (u_graph u) (wf_uni_graph u Hwf) Hb) in Hr. cbn [bind] in Hr.
  set (prior := map (bn_spec (u_graph u)) (state_list (u_graph u))) in *.
  destruct (posterior_of u prior (Some d)) as [e|[post|]] eqn:Hpost; cbn [bind] in Hr; try discriminate.
  destruct (marginalize_of u inv post) as [e|r'] eqn:Hm; cbn [bind] in Hr; try discriminate.
  inversion Hr; subst r'.
  assert (Hlen : length prior = length (u_states u)) by (unfold prior; apply map_length).
  rewrite (risk_bayes observation_entries u prior d inv post r Hwf Hd Hlen Hpost Hm).
  assert (HJ : joint_spec u prior d
               = map (fun x => bn_spec (u_graph u) x * findings_prob u {| p_tstage := ""; p_find := d |} x)
                     (u_states u)).
  { unfold joint_spec, prior. fold (u_states u). rewrite combine_map_self, map_map. reflexivity. }
  rewrite HJ, combine_map_self, map_map. reflexivity.
Qed.

(** ** the model statements *)
Lemma bn_arc_order_model : C15_bn_arc_order_model_stmt.
Proof.
  intros u g' p inv H. destruct (bn_arc_order _ _ H) as (Hsp & Hs & _ & Hsd).
  destruct (arc_order_model u g' [] p inv H) as (_ & Hf & _).
  pose proof (arcs_lnls _ _ H) as Hl. pose proof H as (Hb & _).
  assert (Hm : forall x, matches_pattern (u_lnls (with_graph u g')) inv (u_base (with_graph u g')) x
                         = matches_pattern (u_lnls u) inv (u_base u) x).
  { intros x. unfold u_lnls, u_base. cbn [with_graph u_graph]. rewrite Hl, Hb. reflexivity. }
  destruct (lik_risk_eq u (with_graph u g') (bn_spec (u_graph u)) (bn_spec g') p p inv inv Hs Hsp Hf Hm) as (Hlk & Hr).
  split; [exact Hlk|]. split; [exact Hr|].
  intros data t. unfold bn_likelihood_factors. cbn [with_graph u_graph]. rewrite Hsd.
  destruct (state_dist_bn (u_graph u)) as [e|sd]; [reflexivity|]. cbn [bind].
  unfold diagnosis_matrix, data_matrix, observation_matrix, u_lnls, u_mod_names, u_n, u_base.
  cbn [with_graph u_graph u_mods]. unfold nlnls. rewrite Hl, Hb. reflexivity.
Qed.

Lemma bn_listing_order_model : C15_bn_listing_order_model_stmt.
Proof.
  intros u g' p inv Hwf H pi.
  pose proof (mid_arcs _ _ H) as Ha. pose proof (mid_nodes _ _ H) as Hn.
  destruct wf_preserved as (Hwa & _). pose proof (Hwa _ _ Ha Hwf) as Hwf1.
  set (g1 := mid_graph (u_graph u) g') in *.
  destruct (arc_order_model u g1 [] p inv Ha) as (_ & Hf1 & _).
  pose proof (arcs_lnls _ _ Ha) as Hl1.
  destruct (listing_order _ _ Hwf H) as (_ & _ & _ & (Hperm & _)).
  assert (Hlen : forall x, In x (u_states u) -> length x = u_n u).
  { intros x Hx. apply all_states_In in Hx. tauto. }
  assert (Hsp : forall x, bn_spec g' (pi x) = bn_spec (u_graph u) x)
    by (apply listed_bn_spec; assumption).
  assert (Hf : forall x, length x = u_n u -> findings_prob (with_graph u g') p (pi x) = findings_prob u p x).
  { intros x Hx. rewrite <- (Hf1 x). apply (relisted_findings (with_graph u g1) g' p x Hwf1 Hn). exact Hx. }
  assert (Hm : forall x, length x = u_n u ->
            matches_pattern (u_lnls (with_graph u g')) inv (u_base (with_graph u g')) (pi x)
            = matches_pattern (u_lnls u) inv (u_base u) x).
  { intros x Hx. unfold u_lnls, u_base. cbn [with_graph u_graph].
    transitivity (matches_pattern (lnls g1) inv (g_base g1) x);
      [exact (relisted_matches g1 g' inv x Hwf1 Hn Hx)|rewrite Hl1; reflexivity]. }
  destruct (transfer_prior u (with_graph u g') pi (bn_spec (u_graph u)) (bn_spec g') p p) as (Hlk & Hr).
  - exact Hperm.
  - intros x _. apply Hsp.
  - intros x Hx. apply Hf, Hlen, Hx.
  - split; [intros x Hx; rewrite Hsp, Hf by exact Hx; reflexivity|]. split; [exact Hlk|].
    apply Hr. intros x Hx. apply Hm, Hlen, Hx.
Qed.

Lemma bn_modality_order : C15_bn_modality_order_stmt.
Proof.
  intros u ms' p inv H. destruct (modality_order u ms' [] p inv H) as (Hf & _).
  apply lik_risk_eq; [reflexivity|reflexivity|exact Hf|reflexivity].
Qed.

Lemma bn_column_order : C15_bn_column_order_stmt.
Proof.
  intros u p p' inv inv' Hf Hi.
  apply lik_risk_eq; [reflexivity|reflexivity| |].
  - intros x. apply findings_prob_same, Hf.
  - intros x. apply matches_pattern_same, Hi.
Qed.

Lemma bn_renaming_model : C15_bn_renaming_model_stmt.
Proof.
  intros rl rm u p inv Hl Hm u' p'.
  destruct (bn_renaming rl (u_graph u) Hl) as (Hsp & Hs & _).
  destruct (renaming_model rl rm u [] p inv Hl Hm) as (_ & Hf & Hi & _).
  apply lik_risk_eq; [exact Hs|exact Hsp|exact Hf|exact Hi].
Qed.

(** ** 5. bilateral models *)
Lemma bi_bn_state_dist b t :
  wf_graphb (u_graph (b_ipsi b)) = true -> wf_graphb (u_graph (b_contra b)) = true ->
  u_base (b_ipsi b) = 2 -> u_base (b_contra b) = 2 ->
  bi_state_dist b t false = inr (tab2 (bi_bn_joint_spec b) (u_states (b_ipsi b)) (u_states (b_contra b))).
Proof.
  intros Hi Hc Hbi Hbc. unfold bi_state_dist.
  rewrite (bn_spec_correct _ Hi Hbi), (bn_spec_correct _ Hc Hbc). cbn [bind]. f_equal.
  apply (outer_tab (bn_spec (u_graph (b_ipsi b))) (bn_spec (u_graph (b_contra b)))).
Qed.

Lemma bn_bilateral_side_swap : C15_bn_bilateral_side_swap_stmt.
Proof.
  intros b.
  assert (Hj : forall xi xc, bi_bn_joint_spec (swap_sides b) xc xi = bi_bn_joint_spec b xi xc).
  { intros xi xc. unfold bi_bn_joint_spec. cbn [swap_sides b_ipsi b_contra]. ring. }
  split; [exact Hj|]. split; [|split].
  - intros p. unfold bi_patient_lik_spec. cbn [swap_sides b_ipsi b_contra].
    rewrite sumQ_swap. apply sumQ_map_ext. intros xi _. apply sumQ_map_ext. intros xc _.
    change (ipsi_patient (swap_bpatient p)) with (contra_patient p).
    change (contra_patient (swap_bpatient p)) with (ipsi_patient p).
    rewrite (Hj xi xc). ring.
  - intros p xi xc. unfold bi_post_weight. rewrite (Hj xi xc). cbn [swap_sides b_ipsi b_contra].
    change (ipsi_patient (swap_bpatient p)) with (contra_patient p).
    change (contra_patient (swap_bpatient p)) with (ipsi_patient p). ring.
  - intros t Hi Hc Hbi Hbc. split; [apply bi_bn_state_dist; assumption|].
    rewrite (bi_bn_state_dist (swap_sides b) t) by assumption. cbn [swap_sides b_ipsi b_contra].
    f_equal. apply tab2_ext. intros xc xi _ _. unfold transpose_fun. apply Hj.
Qed.

Lemma bn_bilateral_likelihood_impl : C15_bn_bilateral_likelihood_impl_stmt.
Proof.
  intros b data t Hwf Hdata Hb. destruct (wf_bi_parts b Hwf) as (Hi & Hc & _ & Hbb).
  unfold bi_bn_likelihood_factors.
  rewrite (bi_bn_state_dist b ""%string (wf_uni_graph _ Hi) (wf_uni_graph _ Hc) Hb) by congruence.
  cbn [bind]. apply (bi_patient_likelihoods b data t (bi_bn_joint_spec b) Hwf Hdata).
Qed.

(** the bilateral likelihood under independent relabellings of the two sides, for
    ANY pair of corresponding joints *)
Lemma bi_lik_transfer b b' pii pic (J J' : state -> state -> Qc) p p' :
  Permutation (map pii (u_states (b_ipsi b))) (u_states (b_ipsi b')) ->
  Permutation (map pic (u_states (b_contra b))) (u_states (b_contra b')) ->
  (forall xi xc, In xi (u_states (b_ipsi b)) -> In xc (u_states (b_contra b)) -> J' (pii xi) (pic xc) = J xi xc) ->
  findings_iso (b_ipsi b) (b_ipsi b') pii (ipsi_patient p) (ipsi_patient p') ->
  findings_iso (b_contra b) (b_contra b') pic (contra_patient p) (contra_patient p') ->
  bi_patient_lik_spec b' J' p' = bi_patient_lik_spec b J p.
Proof.
  intros Hpi Hpc HJ Hfi Hfc. unfold bi_patient_lik_spec.
  rewrite <- (sumQ_map_Permutation _ _ _ Hpi), map_map. apply sumQ_map_ext. intros xi Hxi.
  rewrite <- (sumQ_map_Permutation _ _ _ Hpc), map_map. apply sumQ_map_ext. intros xc Hxc.
  rewrite HJ, Hfi, Hfc by assumption. reflexivity.
Qed.

Lemma listed_findings u g' p x : wf_graphb (u_graph u) = true -> graph_relisted (u_graph u) g' ->
  length x = u_n u ->
  findings_prob (with_graph u g') p (relist (u_graph u) g' x) = findings_prob u p x.
Proof.
  intros Hwf H Hx. pose proof (mid_arcs _ _ H) as Ha. pose proof (mid_nodes _ _ H) as Hn.
  destruct wf_preserved as (Hwa & _). pose proof (Hwa _ _ Ha Hwf) as Hwf1.
  destruct (arc_order_model u (mid_graph (u_graph u) g') [] p [] Ha) as (_ & Hf1 & _).
  rewrite <- (Hf1 x). apply (relisted_findings (with_graph u (mid_graph (u_graph u) g')) g' p x Hwf1 Hn). exact Hx.
Qed.

Lemma bn_bilateral_listing_order : C15_bn_bilateral_listing_order_stmt.
Proof.
  intros b gi' gc' p Hwi Hwc Hi Hc.
  assert (Hj : forall xi xc, bi_bn_joint_spec (with_graphs b gi' gc')
                 (relist (u_graph (b_ipsi b)) gi' xi) (relist (u_graph (b_contra b)) gc' xc)
               = bi_bn_joint_spec b xi xc).
  { intros xi xc. unfold bi_bn_joint_spec. cbn [with_graphs b_ipsi b_contra with_graph u_graph].
    rewrite (listed_bn_spec _ _ Hwi Hi), (listed_bn_spec _ _ Hwc Hc). reflexivity. }
  split; [exact Hj|].
  destruct (listing_order _ _ Hwi Hi) as (_ & _ & _ & (Hpi & _)).
  destruct (listing_order _ _ Hwc Hc) as (_ & _ & _ & (Hpc & _)).
  apply (bi_lik_transfer b (with_graphs b gi' gc') (relist (u_graph (b_ipsi b)) gi') (relist (u_graph (b_contra b)) gc')).
  - exact Hpi.
  - exact Hpc.
  - intros xi xc _ _. apply Hj.
  - intros x Hx. apply all_states_In in Hx. apply (listed_findings (b_ipsi b) gi'); tauto.
  - intros x Hx. apply all_states_In in Hx. apply (listed_findings (b_contra b) gc'); tauto.
Qed.

Lemma bn_bilateral_renaming : C15_bn_bilateral_renaming_stmt.
Proof.
  intros rl rm b p Hl Hm.
  assert (Hj : forall xi xc, bi_bn_joint_spec (rename_bi rl rm b) xi xc = bi_bn_joint_spec b xi xc).
  { intros xi xc. unfold bi_bn_joint_spec. cbn [rename_bi b_ipsi b_contra rename_uni u_graph].
    destruct (bn_renaming rl (u_graph (b_ipsi b)) Hl) as (Hi & _).
    destruct (bn_renaming rl (u_graph (b_contra b)) Hl) as (Hc & _). rewrite Hi, Hc. reflexivity. }
  split; [exact Hj|].
  apply (bi_lik_transfer b (rename_bi rl rm b) (fun x => x) (fun x => x)).
  - rewrite map_id. unfold u_states. cbn [rename_bi b_ipsi rename_uni u_graph]. rewrite rename_states.
    apply Permutation_refl.
  - rewrite map_id. unfold u_states. cbn [rename_bi b_contra rename_uni u_graph]. rewrite rename_states.
    apply Permutation_refl.
  - intros xi xc _ _. apply Hj.
  - intros x _. apply (rename_findings rl rm (b_ipsi b) (ipsi_patient p) x Hl Hm).
  - intros x _. apply (rename_findings rl rm (b_contra b) (contra_patient p) x Hl Hm).
Qed.

(** ** acyclicity *)
Lemma listed_topo_orderb g g' ord : graph_relisted g g' -> topo_orderb g' ord = topo_orderb g ord.
Proof.
  intros (Hb & Hn & He).
  assert (Hl : Permutation (lnls g) (lnls g')) by (unfold lnls; apply Permutation_map, Permutation_filter, Hn).
  unfold topo_orderb, nlnls, arcs_forward.
  rewrite <- (Permutation_length Hl), <- (forallb_Permutation _ _ _ He). f_equal. f_equal.
  apply forallb_ext_in'. intros s _. symmetry. apply mem_Permutation, Hl.
Qed.

Lemma renamed_topo_orderb rho g ord : injective rho ->
  topo_orderb (rename_graph rho g) (map rho ord) = topo_orderb g ord.
Proof.
  intros Hi. unfold topo_orderb, nlnls, arcs_forward. rewrite rename_lnls, !map_length.
  rewrite nodupb_map_inj by exact Hi. cbn [rename_graph g_edges]. rewrite !forallb_map'. f_equal; [f_equal|].
  - apply forallb_ext_in'. intros s _. apply mem_map_inj, Hi.
  - apply forallb_ext_in'. intros e _. unfold is_lnl_arc. cbn [rename_edge e_kind e_parent e_child].
    rewrite !index_of_map_inj by exact Hi. reflexivity.
Qed.

Lemma preimage_list {A B} (f : A -> B) (l : list A) (l' : list B) :
  (forall s, In s l' -> In s (map f l)) -> exists l0, map f l0 = l'.
Proof.
  induction l' as [|s l' IH]; intros H; [exists []; reflexivity|].
  destruct IH as [l0 Hl0]; [intros s' Hs'; apply H; right; exact Hs'|].
  assert (Hs : In s (map f l)) by (apply H; left; reflexivity).
  apply in_map_iff in Hs. destruct Hs as [a [Ha _]]. exists (a :: l0). cbn [map]. rewrite Ha, Hl0. reflexivity.
Qed.

Lemma bn_acyclic_preserved : C15_bn_acyclic_preserved_stmt.
Proof.
  split.
  - intros g g' H. rewrite !acyclic_iff. split; intros [ord Hord]; exists ord.
    + rewrite (listed_topo_orderb g g' ord H). exact Hord.
    + rewrite <- (listed_topo_orderb g g' ord H). exact Hord.
  - intros rho g Hi. rewrite !acyclic_iff. split; intros [ord Hord].
    + exists (map rho ord). rewrite renamed_topo_orderb by exact Hi. exact Hord.
    + destruct (topo_orderb_spec _ _ Hord) as (_ & _ & Hin & _). rewrite rename_lnls in Hin.
      destruct (preimage_list rho (lnls g) ord Hin) as [ord0 Ho]. exists ord0.
      rewrite <- (renamed_topo_orderb rho g ord0 Hi), Ho. exact Hord.
Qed.

(** * Concrete instances for the non-vacuity examples of properties/C15_bn.v *)
Local Open Scope string_scope.
(** binary DAG, LNLs listed II, III, IV; the arcs IV -> II and IV -> III run against the
    listing order (the graph of C07_bn_ex_dag) *)
Definition C15bn_ex_dict : gdict :=
  [ (("tumor", "T"), CList ["II"; "III"; "IV"]); (("lnl", "II"), CList ["III"]);
    (("lnl", "III"), CList []); (("lnl", "IV"), CList ["II"; "III"]) ].
(** the same dictionary with its keys listed III, IV, T, II and the connection lists of
    T and IV reversed *)
Definition C15bn_ex_dict' : gdict :=
  [ (("lnl", "III"), CList []); (("lnl", "IV"), CList ["III"; "II"]);
    (("tumor", "T"), CList ["IV"; "III"; "II"]); (("lnl", "II"), CList ["III"]) ].
Definition C15bn_ex_params : list (string * (Qc * Qc)) :=
  [ ("TtoII", (qc 1 2, 1%Qc)); ("TtoIII", (qc 1 4, 1%Qc)); ("TtoIV", (qc 1 5, 1%Qc));
    ("IItoIII", (qc 1 3, 1%Qc)); ("IVtoII", (qc 2 5, 1%Qc)); ("IVtoIII", (qc 1 7, 1%Qc)) ].
Definition C15bn_ex_graph : graph := set_edges (force_graph (build_graph 2 C15bn_ex_dict)) C15bn_ex_params.
Definition C15bn_ex_graph' : graph := set_edges (force_graph (build_graph 2 C15bn_ex_dict')) C15bn_ex_params.
Definition C15bn_ex_uni : uni :=
  {| u_graph := C15bn_ex_graph; u_mods := C15_ex_mods;
     u_dists := [("early", Frozen [qc 1 2; qc 1 4; qc 1 4])]; u_maxt := 2 |}.
Definition C15bn_ex_patient : patient :=
  {| p_tstage := "early";
     p_find := [("CT", [("II", Some IInvolved); ("III", Some IHealthy); ("IV", None)]);
                ("path", [("II", None); ("III", Some IInvolved); ("IV", Some IHealthy)])] |}.
(** the same patient with the table's columns in another order *)
Definition C15bn_ex_patient' : patient :=
  {| p_tstage := "early";
     p_find := [("path", [("IV", Some IHealthy); ("II", None); ("III", Some IInvolved)]);
                ("CT", [("III", Some IHealthy); ("IV", None); ("II", Some IInvolved)])] |}.
Definition C15bn_ex_inv : pattern := [("III", Some IInvolved); ("IV", Some IHealthy)].
Definition C15bn_ex_dict_renamed : gdict :=
  [ (("tumor", "xT"), CList ["xII"; "xIII"; "xIV"]); (("lnl", "xII"), CList ["xIII"]);
    (("lnl", "xIII"), CList []); (("lnl", "xIV"), CList ["xII"; "xIII"]) ].
Definition C15bn_ex_params_renamed : list (string * (Qc * Qc)) :=
  [ ("xTtoxII", (qc 1 2, 1%Qc)); ("xTtoxIII", (qc 1 4, 1%Qc)); ("xTtoxIV", (qc 1 5, 1%Qc));
    ("xIItoxIII", (qc 1 3, 1%Qc)); ("xIVtoxII", (qc 2 5, 1%Qc)); ("xIVtoxIII", (qc 1 7, 1%Qc)) ].
(** a bilateral model with weaker tumour spread on the contralateral side *)
Definition C15bn_ex_contra : uni :=
  {| u_graph := set_edges C15bn_ex_graph
                  [("TtoII", (qc 1 20, 1%Qc)); ("TtoIII", (qc 1 40, 1%Qc)); ("TtoIV", (qc 1 50, 1%Qc))];
     u_mods := C15_ex_mods; u_dists := u_dists C15bn_ex_uni; u_maxt := 2 |}.
Definition C15bn_ex_bi : bilateral :=
  {| b_ipsi := C15bn_ex_uni; b_contra := C15bn_ex_contra; b_symT := false; b_symL := true |}.
Definition C15bn_ex_bpatient : bpatient :=
  {| bp_t := "early"; bp_ipsi := p_find C15bn_ex_patient; bp_contra := [("CT", [("II", Some IHealthy)])] |}.
