(** InvarianceProofs: proofs of the C15 statements of Invariance.v. *)
From Coq Require Import Permutation.
From LymphModel Require Import Base States Linalg Graph Transition Observation Dist Unilateral
  UniStatements Models Bilateral TransitionProofs Invariance.
Local Open Scope nat_scope.
Open Scope Qc_scope.

(** * Sums, products and filters under [Permutation] *)
Lemma prodQ_Permutation l l' : Permutation l l' -> prodQ l = prodQ l'.
Proof.
  induction 1 as [|a l l' _ IH|a b l|l l' l'' _ IH1 _ IH2]; cbn [prodQ].
  - reflexivity.
  - rewrite IH. reflexivity.
  - ring.
  - rewrite IH1. exact IH2.
Qed.
Lemma sumQ_Permutation l l' : Permutation l l' -> sumQ l = sumQ l'.
Proof.
  induction 1 as [|a l l' _ IH|a b l|l l' l'' _ IH1 _ IH2]; cbn [sumQ].
  - reflexivity.
  - rewrite IH. reflexivity.
  - ring.
  - rewrite IH1. exact IH2.
Qed.
Lemma Permutation_filter {A} (p : A -> bool) l l' :
  Permutation l l' -> Permutation (filter p l) (filter p l').
Proof.
  induction 1 as [|a l l' _ IH|a b l|l l' l'' _ IH1 _ IH2]; cbn [filter].
  - constructor.
  - destruct (p a); [constructor|]; exact IH.
  - destruct (p a), (p b); try apply Permutation_refl. constructor.
  - eapply Permutation_trans; eassumption.
Qed.
Lemma prodQ_map_Permutation {A} (f : A -> Qc) l l' :
  Permutation l l' -> prodQ (map f l) = prodQ (map f l').
Proof. intros H. apply prodQ_Permutation, Permutation_map, H. Qed.
Lemma sumQ_map_Permutation {A} (f : A -> Qc) l l' :
  Permutation l l' -> sumQ (map f l) = sumQ (map f l').
Proof. intros H. apply sumQ_Permutation, Permutation_map, H. Qed.
Lemma forallb_Permutation {A} (f : A -> bool) l l' : Permutation l l' -> forallb f l = forallb f l'.
Proof.
  induction 1 as [|a l l' _ IH|a b l|l l' l'' _ IH1 _ IH2]; cbn [forallb].
  - reflexivity.
  - rewrite IH. reflexivity.
  - destruct (f a), (f b); reflexivity.
  - rewrite IH1. exact IH2.
Qed.
Lemma filter_map_comm {A B} (p : B -> bool) (f : A -> B) l :
  filter p (map f l) = map f (filter (fun a => p (f a)) l).
Proof.
  induction l as [|a l IH]; cbn [map filter]; [reflexivity|].
  rewrite IH. destruct (p (f a)); reflexivity.
Qed.
Lemma filter_ext_in' {A} (p q : A -> bool) l : (forall a, In a l -> p a = q a) -> filter p l = filter q l.
Proof.
  induction l as [|a l IH]; intros H; cbn [filter]; [reflexivity|].
  rewrite (H a) by (left; reflexivity). rewrite IH; [reflexivity|].
  intros b Hb. apply H. right. exact Hb.
Qed.

(** * Strings *)
Lemma streqb_eq a b : str_eqb a b = true <-> a = b.
Proof. unfold str_eqb. apply String.eqb_eq. Qed.
Lemma streqb_refl a : str_eqb a a = true.
Proof. apply streqb_eq. reflexivity. Qed.
Lemma streqb_inj rho a b : injective rho -> str_eqb (rho a) (rho b) = str_eqb a b.
Proof.
  intros Hi. destruct (str_eqb a b) eqn:E.
  - apply streqb_eq in E. subst. apply streqb_refl.
  - destruct (str_eqb (rho a) (rho b)) eqn:E'; [|reflexivity].
    apply streqb_eq in E'. apply Hi in E'. subst. rewrite streqb_refl in E. discriminate.
Qed.
Lemma nodupb_NoDup' l : nodupb l = true <-> NoDup l.
Proof.
  induction l as [|a l IH]; cbn [nodupb].
  - split; [constructor|reflexivity].
  - rewrite andb_true_iff, negb_true_iff, IH. split.
    + intros [Hm Hn]. constructor; [|exact Hn]. intros Hin. apply mem_In in Hin. congruence.
    + intros H. inversion H as [|? ? Hn Hd]; subst. split; [|exact Hd].
      destruct (mem a l) eqn:E; [|reflexivity]. apply mem_In in E. contradiction.
Qed.
Lemma mem_Permutation s l l' : Permutation l l' -> mem s l = mem s l'.
Proof.
  intros H. destruct (mem s l) eqn:E; symmetry.
  - apply mem_In. apply mem_In in E. eapply Permutation_in; eassumption.
  - destruct (mem s l') eqn:E'; [|reflexivity]. apply mem_In in E'.
    apply Permutation_sym in H. apply (Permutation_in _ H) in E'. apply mem_In in E'. congruence.
Qed.
Lemma index_of_map_inj rho s l : injective rho -> index_of (rho s) (map rho l) = index_of s l.
Proof.
  intros Hi. induction l as [|a l IH]; cbn [map index_of]; [reflexivity|].
  rewrite streqb_inj by exact Hi. rewrite IH. reflexivity.
Qed.
Lemma mem_map_inj rho s l : injective rho -> mem (rho s) (map rho l) = mem s l.
Proof.
  intros Hi. induction l as [|a l IH]; cbn [map mem]; [reflexivity|].
  rewrite streqb_inj by exact Hi. rewrite IH. reflexivity.
Qed.
Lemma nodupb_map_inj rho l : injective rho -> nodupb (map rho l) = nodupb l.
Proof.
  intros Hi. induction l as [|a l IH]; cbn [map nodupb]; [reflexivity|].
  rewrite mem_map_inj by exact Hi. rewrite IH. reflexivity.
Qed.
(** position of the i-th element of a duplicate-free list *)
Lemma index_of_nth l : forall i d, NoDup l -> (i < length l)%nat -> index_of (nth i l d) l = i.
Proof.
  induction l as [|a l IH]; intros i d Hnd Hi; cbn [length] in Hi; [lia|].
  inversion Hnd as [|? ? Hn Hd]; subst. destruct i as [|i]; cbn [nth index_of].
  - rewrite streqb_refl. reflexivity.
  - destruct (str_eqb (nth i l d) a) eqn:E.
    + apply streqb_eq in E. exfalso. apply Hn. rewrite <- E. apply nth_In. lia.
    + rewrite IH by (assumption || lia). reflexivity.
Qed.
Lemma nth_index_of s l d : In s l -> nth (index_of s l) l d = s.
Proof.
  induction l as [|a l IH]; cbn [In index_of]; [tauto|].
  intros H. destruct (str_eqb s a) eqn:E; cbn [nth].
  - apply streqb_eq in E. auto.
  - destruct H as [H|H]; [subst; rewrite streqb_refl in E; discriminate|]. apply IH, H.
Qed.

(** * The generic transfer along a relabelling of states *)
Lemma transfer_evo : C15_transfer_evo_stmt.
Proof.
  intros g g' pi (Hperm & Htr & Hh) t.
  induction t as [|t IH]; intros x Hx; cbn [evo_spec].
  - destruct (list_eq_dec Nat.eq_dec (pi x) (healthy (nlnls g'))) as [E|E];
      destruct (list_eq_dec Nat.eq_dec x (healthy (nlnls g))) as [E'|E']; try reflexivity.
    + apply (Hh x Hx) in E. contradiction.
    + apply (Hh x Hx) in E'. contradiction.
  - rewrite <- (sumQ_map_Permutation _ _ _ Hperm), map_map.
    apply sumQ_map_ext. intros z Hz. rewrite IH by exact Hz. rewrite Htr by assumption. reflexivity.
Qed.

Lemma prior_spec_transfer u u' pi pm : uni_iso u u' pi ->
  forall x, In x (u_states u) -> prior_spec u' pm (pi x) = prior_spec u pm x.
Proof.
  intros (Hm & Hg) x Hx. unfold prior_spec. rewrite Hm.
  apply sumQ_map_ext. intros [t w] _. rewrite (transfer_evo _ _ _ Hg t x Hx). reflexivity.
Qed.

Lemma sum_states_transfer u u' pi (F' F : state -> Qc) : uni_iso u u' pi ->
  (forall x, In x (u_states u) -> F' (pi x) = F x) ->
  sumQ (map F' (u_states u')) = sumQ (map F (u_states u)).
Proof.
  intros (_ & Hperm & _) HF. unfold u_states in *.
  rewrite <- (sumQ_map_Permutation _ _ _ Hperm), map_map. apply sumQ_map_ext. exact HF.
Qed.

Lemma transfer_uni : C15_transfer_uni_stmt.
Proof.
  intros u u' pi pm p p' Hiso Hf.
  assert (Hpr := prior_spec_transfer u u' pi pm Hiso).
  assert (Hpw : forall x, In x (u_states u) -> post_weight u' pm p' (pi x) = post_weight u pm p x).
  { intros x Hx. unfold post_weight. rewrite Hpr, Hf by exact Hx. reflexivity. }
  assert (Hl : patient_lik_spec u' pm p' = patient_lik_spec u pm p).
  { unfold patient_lik_spec. apply (sum_states_transfer u u' pi); [exact Hiso|]. exact Hpw. }
  repeat split; try assumption.
  intros inv inv' Hinv. unfold risk_spec. rewrite Hl. f_equal.
  apply (sum_states_transfer u u' pi); [exact Hiso|].
  intros x Hx. rewrite Hinv, Hpw by exact Hx. reflexivity.
Qed.

Lemma bi_joint_transfer b b' pii pic pm :
  uni_iso (b_ipsi b) (b_ipsi b') pii -> uni_iso (b_contra b) (b_contra b') pic ->
  forall xi xc, In xi (u_states (b_ipsi b)) -> In xc (u_states (b_contra b)) ->
    bi_joint_spec b' pm (pii xi) (pic xc) = bi_joint_spec b pm xi xc.
Proof.
  intros (Hmi & Hgi) (_ & Hgc) xi xc Hxi Hxc. unfold bi_joint_spec. rewrite Hmi.
  apply sumQ_map_ext. intros [t w] _.
  rewrite (transfer_evo _ _ _ Hgi t xi Hxi), (transfer_evo _ _ _ Hgc t xc Hxc). reflexivity.
Qed.

Lemma transfer_bi : C15_transfer_bi_stmt.
Proof.
  intros b b' pii pic pm p p' Hi Hc Hfi Hfc.
  assert (Hj := bi_joint_transfer b b' pii pic pm Hi Hc).
  split; [exact Hj|].
  unfold bi_patient_lik_spec.
  apply (sum_states_transfer (b_ipsi b) (b_ipsi b') pii); [exact Hi|]. intros xi Hxi.
  apply (sum_states_transfer (b_contra b) (b_contra b') pic); [exact Hc|]. intros xc Hxc.
  rewrite Hj, Hfi, Hfc by assumption. reflexivity.
Qed.

(** identity relabelling: when one step and the state list are literally equal *)
Lemma graph_iso_id g g' :
  state_list g' = state_list g -> nlnls g' = nlnls g ->
  (forall x y, trans_spec g' x y = trans_spec g x y) -> graph_iso g g' (fun x => x).
Proof.
  intros Hs Hn Ht. repeat split.
  - rewrite map_id, Hs. apply Permutation_refl.
  - intros x y _ _. apply Ht.
  - rewrite Hn. tauto.
  - rewrite Hn. tauto.
Qed.
Lemma evo_spec_eq g g' :
  state_list g' = state_list g -> nlnls g' = nlnls g ->
  (forall x y, trans_spec g' x y = trans_spec g x y) -> forall t x, evo_spec g' t x = evo_spec g t x.
Proof.
  intros Hs Hn Ht t. induction t as [|t IH]; intros x; cbn [evo_spec].
  - rewrite Hn. reflexivity.
  - rewrite Hs. apply sumQ_map_ext. intros z _. rewrite IH, Ht. reflexivity.
Qed.

(** * The per-LNL factor depends on the graph only through the multiset of the
      LNL's incoming arcs and the parents' digits *)
Lemma arc_prob_ext g g' e e' x x' :
  g_base g' = g_base g -> e_kind e' = e_kind e -> e_spread e' = e_spread e -> e_micro e' = e_micro e ->
  (e_kind e = ELnl -> parent_digit g' e' x' = parent_digit g e x) ->
  arc_prob g' e' x' = arc_prob g e x.
Proof.
  intros Hb Hk Hs Hm Hp. unfold arc_prob. rewrite Hk, Hs, Hm, Hb.
  destruct (e_kind e); try reflexivity. rewrite Hp by reflexivity. reflexivity.
Qed.

Definition edge_corr (g g' : graph) (x x' : state) (f : edge -> edge) (e : edge) : Prop :=
  e_kind (f e) = e_kind e /\ e_spread (f e) = e_spread e /\ e_micro (f e) = e_micro e /\
  (e_kind e = ELnl -> parent_digit g' (f e) x' = parent_digit g e x).

Lemma lnl_factor_ext g g' x x' lnl lnl' (f : edge -> edge) a c :
  g_base g' = g_base g ->
  Permutation (map f (inc_edges g lnl)) (inc_edges g' lnl') ->
  (forall e, In e (inc_edges g lnl) -> edge_corr g g' x x' f e) ->
  lnl_factor g' x' lnl' a c = lnl_factor g x lnl a c.
Proof.
  intros Hb Hperm Hc.
  assert (Hs : stay_healthy g' lnl' x' = stay_healthy g lnl x).
  { unfold stay_healthy. rewrite <- (prodQ_map_Permutation _ _ _ Hperm), map_map.
    apply prodQ_map_ext. intros e He. destruct (Hc e He) as (Hk & Hsp & Hm & Hp).
    rewrite (arc_prob_ext g g' e (f e) x x') by assumption. reflexivity. }
  assert (Hg : growth_prob g' lnl' = growth_prob g lnl).
  { unfold growth_prob. f_equal.
    rewrite <- (prodQ_map_Permutation _ _ _ (Permutation_filter is_growth _ _ Hperm)).
    rewrite filter_map_comm, map_map.
    rewrite (filter_ext_in' _ is_growth).
    2:{ intros e He. destruct (Hc e He) as (Hk & _). unfold is_growth. rewrite Hk. reflexivity. }
    apply prodQ_map_ext. intros e He. apply filter_In in He. destruct He as [He _].
    destruct (Hc e He) as (_ & Hsp & _). rewrite Hsp. reflexivity. }
  unfold lnl_factor. rewrite Hs, Hg. reflexivity.
Qed.

(** * Models that agree pointwise *)
Lemma prior_spec_eq u u' pm : u_maxt u' = u_maxt u ->
  (forall t x, evo_spec (u_graph u') t x = evo_spec (u_graph u) t x) ->
  forall x, prior_spec u' pm x = prior_spec u pm x.
Proof.
  intros Hm He x. unfold prior_spec. rewrite Hm. apply sumQ_map_ext. intros [t w] _. rewrite He. reflexivity.
Qed.
Lemma model_eq u u' pm p p' inv inv' :
  u_states u' = u_states u ->
  (forall x, prior_spec u' pm x = prior_spec u pm x) ->
  (forall x, findings_prob u' p' x = findings_prob u p x) ->
  (forall x, matches_pattern (u_lnls u') inv' (u_base u') x = matches_pattern (u_lnls u) inv (u_base u) x) ->
  patient_lik_spec u' pm p' = patient_lik_spec u pm p /\ risk_spec u' pm inv' p' = risk_spec u pm inv p.
Proof.
  intros Hs Hp Hf Hm.
  assert (Hl : patient_lik_spec u' pm p' = patient_lik_spec u pm p).
  { unfold patient_lik_spec. rewrite Hs. apply sumQ_map_ext. intros x _. rewrite Hp, Hf. reflexivity. }
  split; [exact Hl|]. unfold risk_spec. rewrite Hl, Hs. f_equal.
  apply sumQ_map_ext. intros x _. unfold post_weight. rewrite Hm, Hp, Hf. reflexivity.
Qed.

(** * 1. Arc order *)
Lemma arcs_lnls g g' : arcs_reordered g g' -> lnls g' = lnls g.
Proof. intros (_ & Hn & _). unfold lnls. rewrite Hn. reflexivity. Qed.
Lemma arcs_trans g g' : arcs_reordered g g' -> forall x y, trans_spec g' x y = trans_spec g x y.
Proof.
  intros H x y. pose proof (arcs_lnls g g' H) as Hl. destruct H as (Hb & Hn & Hp).
  unfold trans_spec, nlnls. rewrite Hl. apply prodQ_map_ext. intros [i lnl] _.
  apply lnl_factor_ext with (f := fun e => e).
  - exact Hb.
  - rewrite map_id. unfold inc_edges. apply Permutation_filter. exact Hp.
  - intros e _. repeat split. intros _. unfold parent_digit. rewrite Hl. reflexivity.
Qed.
Lemma arcs_states g g' : arcs_reordered g g' -> state_list g' = state_list g.
Proof.
  intros H. pose proof (arcs_lnls g g' H) as Hl. destruct H as (Hb & _).
  unfold state_list, nlnls. rewrite Hl, Hb. reflexivity.
Qed.
Lemma arc_order : C15_arc_order_stmt.
Proof.
  intros g g' H. split; [apply arcs_trans, H|]. split; [|apply arcs_states, H].
  apply evo_spec_eq; [apply arcs_states, H | unfold nlnls; rewrite (arcs_lnls g g' H); reflexivity | apply arcs_trans, H].
Qed.
Lemma arc_order_model : C15_arc_order_model_stmt.
Proof.
  intros u g' pm p inv H. destruct (arc_order _ _ H) as (Ht & He & Hs).
  pose proof (arcs_lnls _ _ H) as Hl. pose proof H as (Hb & _).
  assert (Hp : forall x, prior_spec (with_graph u g') pm x = prior_spec u pm x).
  { apply prior_spec_eq; [reflexivity|]. exact He. }
  assert (Hf : forall x, findings_prob (with_graph u g') p x = findings_prob u p x).
  { intros x. unfold findings_prob, u_lnls, u_base. cbn [with_graph u_graph u_mods]. rewrite Hl, Hb. reflexivity. }
  split; [exact Hp|]. split; [exact Hf|].
  apply model_eq; try assumption.
  intros x. unfold u_lnls, u_base. cbn [with_graph u_graph]. rewrite Hl, Hb. reflexivity.
Qed.

(** * 2. Modality order *)
Lemma modality_order : C15_modality_order_stmt.
Proof.
  intros u ms' pm p inv H.
  assert (Hf : forall x, findings_prob (with_mods u ms') p x = findings_prob u p x).
  { intros x. unfold findings_prob. cbn [with_mods u_mods]. symmetry.
    apply (prodQ_map_Permutation _ _ _ H). }
  assert (Hp : forall x, prior_spec (with_mods u ms') pm x = prior_spec u pm x) by reflexivity.
  split; [exact Hf|]. split; [exact Hp|].
  apply model_eq; try assumption; reflexivity.
Qed.

(** * 2b. Column order: look-ups by key in a duplicate-free association list *)
Definition keyp {V} (k : string) (kv : string * V) : bool := str_eqb k (fst kv).
Lemma find_key_Permutation {V} (l l' : list (string * V)) k :
  NoDup (map fst l) -> Permutation l l' -> find (keyp k) l' = find (keyp k) l.
Proof.
  intros Hnd H. revert Hnd.
  induction H as [|a l l' _ IH|a b l|l l' l'' H1 IH1 _ IH2]; intros Hnd; cbn [find].
  - reflexivity.
  - cbn [map] in Hnd. inversion Hnd; subst. rewrite IH by assumption. reflexivity.
  - cbn [map] in Hnd. inversion Hnd as [|? ? Hn Hd]; subst.
    unfold keyp. destruct (str_eqb k (fst a)) eqn:Ea, (str_eqb k (fst b)) eqn:Eb; try reflexivity.
    apply streqb_eq in Ea, Eb. exfalso. apply Hn. left. congruence.
  - rewrite IH2, IH1; [reflexivity|exact Hnd|].
    eapply Permutation_NoDup; [apply Permutation_map, H1|exact Hnd].
Qed.
Lemma pat_get_find l (p : pattern) :
  pat_get l p = match find (keyp l) p with Some kv => snd kv | None => None end.
Proof.
  induction p as [|[k v] p IH]; cbn [pat_get find]; [reflexivity|].
  unfold keyp at 1. cbn [fst]. destruct (str_eqb l k); [reflexivity|exact IH].
Qed.
Lemma diag_get_find m (d : diagnosis) :
  diag_get m d = match find (keyp m) d with Some kv => Some (snd kv) | None => None end.
Proof.
  induction d as [|[k v] d IH]; cbn [diag_get find]; [reflexivity|].
  unfold keyp at 1. cbn [fst]. destruct (str_eqb m k); [reflexivity|exact IH].
Qed.
Lemma same_pattern_refl p : same_pattern p p.
Proof. intros l. reflexivity. Qed.
Lemma forallb_ext_in' {A} (f g : A -> bool) l : (forall a, In a l -> f a = g a) -> forallb f l = forallb g l.
Proof.
  induction l as [|a l IH]; intros H; cbn [forallb]; [reflexivity|].
  rewrite (H a) by (left; reflexivity). rewrite IH; [reflexivity|].
  intros b Hb. apply H. right. exact Hb.
Qed.
Lemma matches_pattern_same names inv inv' b x :
  same_pattern inv inv' -> matches_pattern names inv' b x = matches_pattern names inv b x.
Proof.
  intros H. unfold matches_pattern. apply forallb_ext_in'. intros [l d] _. rewrite H. reflexivity.
Qed.
Lemma findings_prob_same u p p' x :
  same_findings (p_find p) (p_find p') -> findings_prob u p' x = findings_prob u p x.
Proof.
  intros H. unfold findings_prob. apply prodQ_map_ext. intros [name m] _.
  specialize (H name). destruct (diag_get name (p_find p)) as [pat|], (diag_get name (p_find p')) as [pat'|];
    try contradiction; [|reflexivity].
  apply prodQ_map_ext. intros [l s] _. rewrite H. reflexivity.
Qed.
Lemma column_order : C15_column_order_stmt.
Proof.
  split; [|split].
  - intros p p' Hnd H l. rewrite !pat_get_find, (find_key_Permutation p p' l Hnd H). reflexivity.
  - intros d d' Hnd H m. rewrite !diag_get_find, (find_key_Permutation d d' m Hnd H).
    destruct (find (keyp m) d); [apply same_pattern_refl|exact I].
  - intros u pm p p' inv inv' Hf Hi.
    assert (Hfp : forall x, findings_prob u p' x = findings_prob u p x)
      by (intros x; apply findings_prob_same, Hf).
    split; [exact Hfp|].
    apply model_eq; try assumption; try reflexivity.
    intros x. apply matches_pattern_same, Hi.
Qed.

(** * 5. Side swap *)
Lemma bi_lik_ext b (J1 J2 : state -> state -> Qc) p :
  (forall xi xc, J1 xi xc = J2 xi xc) -> bi_patient_lik_spec b J1 p = bi_patient_lik_spec b J2 p.
Proof.
  intros H. unfold bi_patient_lik_spec. apply sumQ_map_ext. intros xi _.
  apply sumQ_map_ext. intros xc _. rewrite H. reflexivity.
Qed.
Lemma side_swap : C15_side_swap_stmt.
Proof.
  intros b pm Hm.
  assert (Hj : forall xi xc, bi_joint_spec (swap_sides b) pm xc xi = bi_joint_spec b pm xi xc).
  { intros xi xc. unfold bi_joint_spec. cbn [swap_sides b_ipsi b_contra]. rewrite Hm.
    apply sumQ_map_ext. intros [t w] _. ring. }
  assert (Hl : forall joint p, bi_patient_lik_spec (swap_sides b) (transpose_fun joint) (swap_bpatient p)
                               = bi_patient_lik_spec b joint p).
  { intros joint p. unfold bi_patient_lik_spec. cbn [swap_sides b_ipsi b_contra].
    rewrite sumQ_swap. apply sumQ_map_ext. intros xi _. apply sumQ_map_ext. intros xc _.
    unfold transpose_fun.
    change (ipsi_patient (swap_bpatient p)) with (contra_patient p).
    change (contra_patient (swap_bpatient p)) with (ipsi_patient p). ring. }
  split; [exact Hj|]. split; [exact Hl|]. split.
  - intros p. rewrite <- Hl. apply bi_lik_ext. intros xc xi. unfold transpose_fun. apply Hj.
  - intros prior p xi xc. unfold bi_post_weight, transpose_fun. cbn [swap_sides b_ipsi b_contra].
    change (ipsi_patient (swap_bpatient p)) with (contra_patient p).
    change (contra_patient (swap_bpatient p)) with (ipsi_patient p). ring.
Qed.

(** * 4. Renaming *)
Lemma rename_lnls rho g : lnls (rename_graph rho g) = map rho (lnls g).
Proof.
  unfold lnls. cbn [rename_graph g_nodes]. rewrite filter_map_comm, !map_map. reflexivity.
Qed.
Lemma rename_tumors rho g : tumors (rename_graph rho g) = map rho (tumors g).
Proof.
  unfold tumors. cbn [rename_graph g_nodes]. rewrite filter_map_comm, !map_map. reflexivity.
Qed.
Lemma rename_inc_edges rho g lnl : injective rho ->
  inc_edges (rename_graph rho g) (rho lnl) = map (rename_edge rho) (inc_edges g lnl).
Proof.
  intros Hi. unfold inc_edges. cbn [rename_graph g_edges]. rewrite filter_map_comm. f_equal.
  apply filter_ext_in'. intros e _. cbn [rename_edge e_child]. apply streqb_inj, Hi.
Qed.
Lemma combine_map_r {A B C} (f : B -> C) (l : list A) (l' : list B) :
  combine l (map f l') = map (fun ab => (fst ab, f (snd ab))) (combine l l').
Proof.
  revert l'. induction l as [|a l IH]; intros [|b l']; cbn [map combine]; try reflexivity.
  rewrite IH. reflexivity.
Qed.
Lemma rename_trans rho g : injective rho ->
  forall x y, trans_spec (rename_graph rho g) x y = trans_spec g x y.
Proof.
  intros Hi x y. unfold trans_spec, nlnls. rewrite rename_lnls, map_length.
  rewrite combine_map_r, map_map. apply prodQ_map_ext. intros [i lnl] _. cbn [fst snd].
  apply lnl_factor_ext with (f := rename_edge rho).
  - reflexivity.
  - rewrite rename_inc_edges by exact Hi. apply Permutation_refl.
  - intros e _. repeat split. intros _. unfold parent_digit. cbn [rename_edge e_parent].
    rewrite rename_lnls, index_of_map_inj by exact Hi. reflexivity.
Qed.
Lemma rename_states rho g : state_list (rename_graph rho g) = state_list g.
Proof. unfold state_list, nlnls. rewrite rename_lnls, map_length. reflexivity. Qed.
Lemma renaming : C15_renaming_stmt.
Proof.
  intros rho g Hi. split; [apply rename_trans, Hi|]. split; [|apply rename_states].
  apply evo_spec_eq; [apply rename_states | unfold nlnls; rewrite rename_lnls; apply map_length | apply rename_trans, Hi].
Qed.

Lemma combine_map_l {A B C} (f : A -> C) (l : list A) (l' : list B) :
  combine (map f l) l' = map (fun ab => (f (fst ab), snd ab)) (combine l l').
Proof.
  revert l'. induction l as [|a l IH]; intros [|b l']; cbn [map combine]; try reflexivity.
  rewrite IH. reflexivity.
Qed.
Lemma forallb_map' {A B} (f : B -> bool) (g : A -> B) l : forallb f (map g l) = forallb (fun a => f (g a)) l.
Proof. induction l as [|a l IH]; cbn [map forallb]; [reflexivity|]. rewrite IH. reflexivity. Qed.
Lemma pat_get_rename rho l p : injective rho -> pat_get (rho l) (rename_pattern rho p) = pat_get l p.
Proof.
  intros Hi. induction p as [|[k v] p IH]; cbn [rename_pattern map pat_get fst snd]; [reflexivity|].
  rewrite streqb_inj by exact Hi. destruct (str_eqb l k); [reflexivity|exact IH].
Qed.
Lemma diag_get_rename rl rm m d : injective rm ->
  diag_get (rm m) (rename_diag rl rm d) = option_map (rename_pattern rl) (diag_get m d).
Proof.
  intros Hi. induction d as [|[k v] d IH]; cbn [rename_diag map diag_get fst snd]; [reflexivity|].
  rewrite streqb_inj by exact Hi. destruct (str_eqb m k); [reflexivity|exact IH].
Qed.
Lemma rename_matches rho names inv b x : injective rho ->
  matches_pattern (map rho names) (rename_pattern rho inv) b x = matches_pattern names inv b x.
Proof.
  intros Hi. unfold matches_pattern. rewrite combine_map_l, forallb_map'.
  apply forallb_ext_in'. intros [l d] _. cbn [fst snd]. rewrite pat_get_rename by exact Hi. reflexivity.
Qed.
Lemma rename_findings rl rm u p x : injective rl -> injective rm ->
  findings_prob (rename_uni rl rm u) (rename_patient rl rm p) x = findings_prob u p x.
Proof.
  intros Hl Hm. unfold findings_prob. cbn [rename_uni u_mods rename_patient p_find].
  rewrite map_map. apply prodQ_map_ext. intros [name m] _. cbn [fst snd].
  rewrite diag_get_rename by exact Hm. destruct (diag_get name (p_find p)) as [pat|]; cbn [option_map]; [|reflexivity].
  unfold u_lnls, u_base. cbn [rename_uni u_graph rename_graph g_base].
  rewrite rename_lnls, combine_map_l, map_map. apply prodQ_map_ext. intros [l s] _. cbn [fst snd].
  rewrite pat_get_rename by exact Hl. reflexivity.
Qed.
Lemma renaming_model : C15_renaming_model_stmt.
Proof.
  intros rl rm u pm p inv Hl Hm u' p'. destruct (renaming rl (u_graph u) Hl) as (Ht & He & Hs).
  assert (Hp : forall x, prior_spec u' pm x = prior_spec u pm x).
  { apply prior_spec_eq; [reflexivity|]. exact He. }
  assert (Hf : forall x, findings_prob u' p' x = findings_prob u p x).
  { intros x. apply rename_findings; assumption. }
  assert (Hi : forall x, matches_pattern (u_lnls u') (rename_pattern rl inv) (u_base u') x
                         = matches_pattern (u_lnls u) inv (u_base u) x).
  { intros x. unfold u_lnls, u_base. subst u'. cbn [rename_uni u_graph]. rewrite rename_lnls.
    apply rename_matches, Hl. }
  split; [exact Hp|]. split; [exact Hf|]. split; [exact Hi|].
  apply model_eq; try assumption.
Qed.

(** * 3. Node order *)
(** ** lists of names and positions *)
Lemma combine_seq_index l : forall k, NoDup l ->
  combine (seq k (length l)) l = map (fun s => ((k + index_of s l)%nat, s)) l.
Proof.
  induction l as [|a l IH]; intros k Hnd; cbn [length seq combine map]; [reflexivity|].
  inversion Hnd as [|? ? Hn Hd]; subst. cbn [index_of]. rewrite streqb_refl, Nat.add_0_r. f_equal.
  rewrite IH by exact Hd. apply map_ext_in. intros s Hs.
  destruct (str_eqb s a) eqn:E.
  - apply streqb_eq in E. subst. contradiction.
  - f_equal. lia.
Qed.
Lemma combine_map_self {A B} (f : A -> B) l : combine l (map f l) = map (fun a => (a, f a)) l.
Proof. induction l as [|a l IH]; cbn [map combine]; [reflexivity|]. rewrite IH. reflexivity. Qed.
Lemma nth_map_index (F : string -> nat) l s : In s l -> nth (index_of s l) (map F l) 0%nat = F s.
Proof.
  intros Hs. rewrite (nth_indep _ 0%nat (F EmptyString)) by (rewrite map_length; apply index_of_lt, Hs).
  rewrite map_nth, nth_index_of by exact Hs. reflexivity.
Qed.
(** reading a state by names in listing order gives the state back *)
Lemma relist_id l x : NoDup l -> length x = length l ->
  map (fun s => digit (index_of s l) x) l = x.
Proof.
  intros Hnd Hlen. apply (nth_ext _ _ 0%nat 0%nat); [rewrite map_length; symmetry; exact Hlen|].
  intros i Hi. rewrite map_length in Hi.
  rewrite (nth_indep _ 0%nat (digit (index_of EmptyString l) x)) by (rewrite map_length; exact Hi).
  rewrite (map_nth (fun s => digit (index_of s l) x)), index_of_nth by assumption. reflexivity.
Qed.
Lemma combine_names l x : NoDup l -> length x = length l ->
  combine l x = map (fun s => (s, digit (index_of s l) x)) l.
Proof.
  intros Hnd Hlen. transitivity (combine l (map (fun s => digit (index_of s l) x) l)).
  - f_equal. symmetry. apply relist_id; assumption.
  - apply combine_map_self.
Qed.
Lemma digit_healthy k n : digit k (healthy n) = 0%nat.
Proof.
  unfold digit, healthy. revert k. induction n as [|n IH]; intros [|k]; cbn [repeat nth]; try reflexivity. apply IH.
Qed.

(** ** the state list is duplicate-free *)
Lemma NoDup_app_intro' {A} (l1 l2 : list A) :
  NoDup l1 -> NoDup l2 -> (forall x, In x l1 -> ~ In x l2) -> NoDup (l1 ++ l2).
Proof.
  induction l1 as [|a l1 IH]; intros H1 H2 Hd; cbn [app]; [exact H2|].
  inversion H1 as [|? ? Hn Hd1]; subst. constructor.
  - rewrite in_app_iff. intros [H|H]; [contradiction|]. apply (Hd a); [left; reflexivity|exact H].
  - apply IH; [exact Hd1|exact H2|]. intros x Hx. apply Hd. right. exact Hx.
Qed.
Lemma NoDup_map_in {A B} (f : A -> B) l :
  NoDup l -> (forall a b, In a l -> In b l -> f a = f b -> a = b) -> NoDup (map f l).
Proof.
  induction l as [|a l IH]; intros Hnd Hinj; cbn [map]; [constructor|].
  inversion Hnd as [|? ? Hn Hd]; subst. constructor.
  - intros Hin. apply in_map_iff in Hin. destruct Hin as [b [Hfb Hb]].
    apply Hinj in Hfb; [subst; contradiction|right; exact Hb|left; reflexivity].
  - apply IH; [exact Hd|]. intros x y Hx Hy. apply Hinj; right; assumption.
Qed.
Lemma all_states_NoDup' b n : NoDup (all_states b n).
Proof.
  induction n as [|n IH]; cbn [all_states]; [constructor; [intros []|constructor]|].
  assert (H : forall ds, NoDup ds -> NoDup (flat_map (fun d => map (cons d) (all_states b n)) ds)).
  { induction ds as [|d ds IHd]; intros Hnd; cbn [flat_map]; [constructor|].
    inversion Hnd as [|? ? Hn Hd]; subst. apply NoDup_app_intro'.
    - apply NoDup_map_in; [exact IH|]. intros x y _ _ E. inversion E. reflexivity.
    - apply IHd, Hd.
    - intros x Hx Hx'. apply in_map_iff in Hx. destruct Hx as [y [<- _]].
      apply in_flat_map in Hx'. destruct Hx' as [d' [Hd' Hy]]. apply in_map_iff in Hy.
      destruct Hy as [y' [E _]]. inversion E; subst. contradiction. }
  apply H, seq_NoDup.
Qed.

(** ** names of a re-listed graph *)
Lemma relisted_lnls g g' : nodes_relisted g g' -> Permutation (lnls g) (lnls g').
Proof. intros (_ & _ & H). unfold lnls. apply Permutation_map, Permutation_filter, H. Qed.
Lemma relisted_tumors g g' : nodes_relisted g g' -> Permutation (tumors g) (tumors g').
Proof. intros (_ & _ & H). unfold tumors. apply Permutation_map, Permutation_filter, H. Qed.
Lemma relisted_sym g g' : nodes_relisted g g' -> nodes_relisted g' g.
Proof. intros (Hb & He & Hp). repeat split; [congruence|congruence|apply Permutation_sym, Hp]. Qed.
Lemma relisted_nlnls g g' : nodes_relisted g g' -> nlnls g' = nlnls g.
Proof. intros H. unfold nlnls. symmetry. apply Permutation_length, relisted_lnls, H. Qed.
Lemma relisted_wf g g' : nodes_relisted g g' -> wf_graphb g = true -> wf_graphb g' = true.
Proof.
  intros H Hwf. pose proof (relisted_lnls g g' H) as Hl. pose proof (relisted_tumors g g' H) as Ht.
  destruct H as (Hb & He & _). unfold wf_graphb in *. rewrite !andb_true_iff in *.
  destruct Hwf as [[H1 H2] H3]. rewrite Hb, He. repeat split.
  - exact H1.
  - apply nodupb_NoDup'. apply nodupb_NoDup' in H2. eapply Permutation_NoDup; eassumption.
  - rewrite <- H3. apply forallb_ext_in'. intros e _. unfold wf_edge.
    rewrite Hb, <- (mem_Permutation _ _ _ Hl), <- (mem_Permutation _ _ _ Hl), <- (mem_Permutation _ _ _ Ht).
    reflexivity.
Qed.

(** ** one step *)
Definition assign (g : graph) (x : state) (l : string) : nat := digit (index_of l (lnls g)) x.
Lemma trans_spec_names g x y : NoDup (lnls g) ->
  trans_spec g x y = prodQ (map (fun l => lnl_factor g x l (assign g x l) (assign g y l)) (lnls g)).
Proof.
  intros Hnd. unfold trans_spec, nlnls. rewrite (combine_seq_index _ 0 Hnd), map_map. reflexivity.
Qed.
Lemma assign_relist g g' x l : In l (lnls g') -> assign g' (relist g g' x) l = assign g x l.
Proof. intros Hl. unfold assign, relist, digit. rewrite (nth_map_index (fun l => nth (index_of l (lnls g)) x 0%nat)) by exact Hl. reflexivity. Qed.

Lemma relisted_trans g g' : wf_graphb g = true -> nodes_relisted g g' ->
  forall x y, trans_spec g' (relist g g' x) (relist g g' y) = trans_spec g x y.
Proof.
  intros Hwf H x y. pose proof (relisted_lnls g g' H) as Hl.
  pose proof (wf_nodup g Hwf) as Hnd. apply nodupb_NoDup' in Hnd.
  assert (Hnd' : NoDup (lnls g')) by (eapply Permutation_NoDup; eassumption).
  rewrite (trans_spec_names g' _ _ Hnd'), (trans_spec_names g x y Hnd).
  rewrite <- (prodQ_map_Permutation _ _ _ Hl). apply prodQ_map_ext. intros l Hin.
  assert (Hin' : In l (lnls g')) by (eapply Permutation_in; eassumption).
  rewrite !assign_relist by exact Hin'.
  destruct H as (Hb & He & _).
  apply lnl_factor_ext with (f := fun e => e).
  - exact Hb.
  - rewrite map_id. unfold inc_edges. rewrite He. apply Permutation_refl.
  - intros e He'. repeat split. intros Hk. apply inc_edges_In in He'. destruct He' as [He' _].
    pose proof (wf_edges g e Hwf He') as Hwe. unfold wf_edge in Hwe. rewrite Hk in Hwe.
    apply andb_true_iff in Hwe. destruct Hwe as [_ Hwe]. apply andb_true_iff in Hwe. destruct Hwe as [Hp _].
    apply mem_In in Hp. apply (assign_relist g g' x). eapply Permutation_in; eassumption.
Qed.

(** ** the relabelling is a bijection of the state lists *)
Lemma relist_length g g' x : length (relist g g' x) = nlnls g'.
Proof. unfold relist. apply map_length. Qed.
Lemma relist_inverse g g' : wf_graphb g = true -> nodes_relisted g g' ->
  forall x, length x = nlnls g -> relist g' g (relist g g' x) = x.
Proof.
  intros Hwf H x Hlen. pose proof (relisted_lnls g g' H) as Hl.
  pose proof (wf_nodup g Hwf) as Hnd. apply nodupb_NoDup' in Hnd.
  unfold relist at 1. rewrite (map_ext_in _ (fun l => digit (index_of l (lnls g)) x)).
  - apply relist_id; assumption.
  - intros l Hin. apply (assign_relist g g' x). eapply Permutation_in; eassumption.
Qed.
Lemma relist_in_states g g' x : wf_graphb g = true -> nodes_relisted g g' ->
  In x (state_list g) -> In (relist g g' x) (state_list g').
Proof.
  intros Hwf H Hx. apply all_states_In. split; [apply relist_length|].
  apply Forall_forall. intros d Hd. unfold relist in Hd. apply in_map_iff in Hd. destruct Hd as [l [<- _]].
  destruct H as (Hb & _). rewrite Hb. apply (state_digit_lt g x _ Hwf Hx).
Qed.
Lemma relisted_bijection g g' : wf_graphb g = true -> nodes_relisted g g' ->
  Permutation (map (relist g g') (state_list g)) (state_list g').
Proof.
  intros Hwf H. apply NoDup_Permutation_bis.
  - apply NoDup_map_in; [apply all_states_NoDup'|]. intros a b Ha Hb E.
    apply all_states_In in Ha, Hb.
    rewrite <- (relist_inverse g g' Hwf H a), <- (relist_inverse g g' Hwf H b) by tauto. rewrite E. reflexivity.
  - rewrite map_length. unfold state_list. rewrite !all_states_length, (relisted_nlnls g g' H).
    destruct H as (Hb & _). rewrite Hb. apply Nat.le_refl.
  - intros z Hz. apply in_map_iff in Hz. destruct Hz as [x [<- Hx]]. apply relist_in_states; assumption.
Qed.
Lemma relist_healthy g g' m : relist g g' (healthy m) = healthy (nlnls g').
Proof.
  unfold relist. rewrite (map_ext _ (fun _ => 0%nat)) by (intros l; apply digit_healthy).
  apply map_const_repeat.
Qed.
Lemma relisted_healthy g g' : wf_graphb g = true -> nodes_relisted g g' ->
  forall x, length x = nlnls g -> (relist g g' x = healthy (nlnls g') <-> x = healthy (nlnls g)).
Proof.
  intros Hwf H x Hlen. split; intros E.
  - rewrite <- (relist_inverse g g' Hwf H x Hlen), E. apply relist_healthy.
  - rewrite E. apply relist_healthy.
Qed.
Lemma relisted_evo g g' : wf_graphb g = true -> nodes_relisted g g' ->
  forall t x, length x = nlnls g -> evo_spec g' t (relist g g' x) = evo_spec g t x.
Proof.
  intros Hwf H t. induction t as [|t IH]; intros x Hlen; cbn [evo_spec].
  - pose proof (relisted_healthy g g' Hwf H x Hlen) as Hh.
    destruct (list_eq_dec Nat.eq_dec (relist g g' x) (healthy (nlnls g'))) as [E|E];
      destruct (list_eq_dec Nat.eq_dec x (healthy (nlnls g))) as [E'|E']; try reflexivity; tauto.
  - rewrite <- (sumQ_map_Permutation _ _ _ (relisted_bijection g g' Hwf H)), map_map.
    apply sumQ_map_ext. intros z Hz. apply all_states_In in Hz.
    rewrite IH by tauto. rewrite relisted_trans by assumption. reflexivity.
Qed.
Lemma relisted_iso g g' : wf_graphb g = true -> nodes_relisted g g' -> graph_iso g g' (relist g g').
Proof.
  intros Hwf H. split; [apply relisted_bijection; assumption|]. split.
  - intros x y _ _. apply relisted_trans; assumption.
  - intros x Hx. apply all_states_In in Hx. apply relisted_healthy; tauto.
Qed.
Lemma node_order : C15_node_order_stmt.
Proof.
  intros g g' Hwf H. split; [apply relisted_trans; assumption|].
  split; [apply relisted_bijection; assumption|].
  split; [apply relist_inverse; assumption|].
  split; [apply relisted_evo; assumption|apply relisted_iso; assumption].
Qed.

(** ** the model on a re-listed graph *)
Lemma relisted_findings u g' p x : wf_graphb (u_graph u) = true -> nodes_relisted (u_graph u) g' ->
  length x = u_n u ->
  findings_prob (with_graph u g') p (relist (u_graph u) g' x) = findings_prob u p x.
Proof.
  intros Hwf H Hlen. pose proof (relisted_lnls _ _ H) as Hl.
  pose proof (wf_nodup _ Hwf) as Hnd. apply nodupb_NoDup' in Hnd.
  unfold findings_prob. cbn [with_graph u_mods]. apply prodQ_map_ext. intros [name m] _.
  destruct (diag_get name (p_find p)) as [pat|]; [|reflexivity].
  unfold u_lnls, u_base. cbn [with_graph u_graph].
  rewrite (combine_names (lnls (u_graph u)) x Hnd Hlen), map_map.
  unfold relist. rewrite combine_map_self, map_map.
  destruct H as (Hb & _). rewrite Hb. symmetry. apply (prodQ_map_Permutation _ _ _ Hl).
Qed.
Lemma relisted_matches g g' inv x : wf_graphb g = true -> nodes_relisted g g' -> length x = nlnls g ->
  matches_pattern (lnls g') inv (g_base g') (relist g g' x) = matches_pattern (lnls g) inv (g_base g) x.
Proof.
  intros Hwf H Hlen. pose proof (relisted_lnls _ _ H) as Hl.
  pose proof (wf_nodup _ Hwf) as Hnd. apply nodupb_NoDup' in Hnd.
  unfold matches_pattern. rewrite (combine_names (lnls g) x Hnd Hlen), forallb_map'.
  unfold relist. rewrite combine_map_self, forallb_map'.
  destruct H as (Hb & _). rewrite Hb. symmetry. apply (forallb_Permutation _ _ _ Hl).
Qed.
Lemma node_order_model : C15_node_order_model_stmt.
Proof.
  intros u g' pm p inv Hwf H pi.
  assert (Hiso : uni_iso u (with_graph u g') pi).
  { split; [reflexivity|]. apply relisted_iso; assumption. }
  assert (Hlen : forall x, In x (u_states u) -> length x = u_n u).
  { intros x Hx. apply all_states_In in Hx. tauto. }
  assert (Hf : findings_iso u (with_graph u g') pi p p).
  { intros x Hx. apply relisted_findings; auto. }
  assert (Hm : pattern_iso u (with_graph u g') pi inv inv).
  { intros x Hx. apply relisted_matches; auto. }
  destruct (transfer_uni u (with_graph u g') pi pm p p Hiso Hf) as (_ & _ & Hl & Hr).
  split.
  { intros x Hx. unfold prior_spec. cbn [with_graph u_graph u_maxt]. apply sumQ_map_ext. intros [t w] _.
    subst pi. rewrite relisted_evo by assumption. reflexivity. }
  split; [intros x Hx; apply relisted_findings; assumption|].
  split; [intros x Hx; apply relisted_matches; assumption|].
  split; [exact Hl|apply Hr, Hm].
Qed.

(** * Well-formedness is preserved *)
Lemma rename_wf_edge rho g e : injective rho -> wf_edge (rename_graph rho g) (rename_edge rho e) = wf_edge g e.
Proof.
  intros Hi. unfold wf_edge. rewrite rename_lnls, rename_tumors. cbn [rename_edge e_child e_parent e_kind rename_graph g_base].
  rewrite !mem_map_inj, streqb_inj by exact Hi. reflexivity.
Qed.
Lemma rename_wf rho g : injective rho -> wf_graphb (rename_graph rho g) = wf_graphb g.
Proof.
  intros Hi. unfold wf_graphb. rewrite rename_lnls, nodupb_map_inj by exact Hi.
  cbn [rename_graph g_base g_edges]. rewrite forallb_map'. f_equal.
  apply forallb_ext_in'. intros e _. apply rename_wf_edge, Hi.
Qed.
Lemma rename_binary_pattern rho pat : binary_pattern (rename_pattern rho pat) = binary_pattern pat.
Proof. unfold binary_pattern, rename_pattern. rewrite forallb_map'. reflexivity. Qed.
Lemma wf_preserved : C15_wf_preserved_stmt.
Proof.
  split; [|split; [|split; [|split; [|split]]]].
  - intros g g' H Hwf. pose proof (arcs_lnls g g' H) as Hl. destruct H as (Hb & Hn & Hp).
    unfold wf_graphb in *. rewrite Hl, Hb. rewrite !andb_true_iff in *. destruct Hwf as [H12 H3].
    split; [exact H12|]. rewrite <- (forallb_Permutation _ _ _ Hp). rewrite <- H3.
    apply forallb_ext_in'. intros e _. unfold wf_edge, tumors. rewrite Hl, Hb, Hn. reflexivity.
  - intros g g'. apply relisted_wf.
  - intros rho g. apply rename_wf.
  - intros u ms' H Hwf. unfold wf_uni in *. cbn [with_mods u_graph u_mods].
    rewrite andb_true_iff in *. destruct Hwf as [H1 H2]. split; [exact H1|].
    apply nodupb_NoDup'. apply nodupb_NoDup' in H2.
    eapply Permutation_NoDup; [apply Permutation_map, H|exact H2].
  - intros rl rm u Hl Hm. unfold wf_uni. cbn [rename_uni u_graph u_mods].
    rewrite rename_wf by exact Hl. f_equal. rewrite map_map. cbn [fst].
    rewrite <- (map_map fst rm), nodupb_map_inj by exact Hm. reflexivity.
  - intros rl rm p. unfold wf_patient. cbn [rename_patient p_find]. unfold rename_diag.
    rewrite forallb_map'. apply forallb_ext_in'. intros [k v] _. cbn [snd]. apply rename_binary_pattern.
Qed.

(** * [risk_spec] is the quantity of C02_risk_bayes *)
Lemma risk_spec_is_C02 : C15_risk_spec_is_C02_stmt.
Proof.
  intros u pm inv p prior J. unfold risk_spec.
  assert (HJ : J = map (post_weight u pm p) (u_states u)).
  { subst J prior. unfold joint_spec. rewrite combine_map_self, map_map. reflexivity. }
  rewrite HJ, combine_map_self, map_map. reflexivity.
Qed.

(** * 3b. Nodes and arcs re-listed: composition of 1 and 3 *)
Definition mid_graph (g g' : graph) : graph :=
  {| g_base := g_base g; g_nodes := g_nodes g; g_edges := g_edges g' |}.
Lemma mid_arcs g g' : graph_relisted g g' -> arcs_reordered g (mid_graph g g').
Proof. intros (_ & _ & He). repeat split. exact He. Qed.
Lemma mid_nodes g g' : graph_relisted g g' -> nodes_relisted (mid_graph g g') g'.
Proof. intros (Hb & Hn & _). repeat split; [exact Hb|exact Hn]. Qed.
Lemma mid_relist g g' x : relist (mid_graph g g') g' x = relist g g' x.
Proof. reflexivity. Qed.
Lemma listing_order : C15_listing_order_stmt.
Proof.
  intros g g' Hwf H. pose proof (mid_arcs g g' H) as Ha. pose proof (mid_nodes g g' H) as Hn.
  destruct wf_preserved as (Hwa & Hwn & _).
  pose proof (Hwa _ _ Ha Hwf) as Hwf1.
  destruct (arc_order _ _ Ha) as (Ht1 & He1 & Hs1).
  destruct (node_order _ _ Hwf1 Hn) as (Ht2 & Hp2 & _ & He2 & _).
  assert (Hnn : nlnls (mid_graph g g') = nlnls g) by reflexivity.
  assert (Ht : forall x y, trans_spec g' (relist g g' x) (relist g g' y) = trans_spec g x y).
  { intros x y. rewrite <- Ht1. apply Ht2. }
  assert (He : forall t x, length x = nlnls g -> evo_spec g' t (relist g g' x) = evo_spec g t x).
  { intros t x Hlen. rewrite <- He1. apply He2. exact Hlen. }
  split; [apply (Hwn _ _ Hn Hwf1)|]. split; [exact Ht|]. split; [exact He|].
  split; [rewrite <- Hs1; exact Hp2|]. split.
  - intros x y _ _. apply Ht.
  - intros x Hx. apply all_states_In in Hx. rewrite <- Hnn.
    apply (relisted_healthy _ _ Hwf1 Hn). tauto.
Qed.
Lemma listing_order_model : C15_listing_order_model_stmt.
Proof.
  intros u g' pm p inv Hwf H pi.
  pose proof (mid_arcs _ _ H) as Ha. pose proof (mid_nodes _ _ H) as Hn.
  destruct wf_preserved as (Hwa & _). pose proof (Hwa _ _ Ha Hwf) as Hwf1.
  set (g1 := mid_graph (u_graph u) g') in *.
  destruct (arc_order_model u g1 pm p inv Ha) as (Hp1 & Hf1 & Hl1 & Hr1).
  destruct (node_order_model (with_graph u g1) g' pm p inv Hwf1 Hn) as (Hp2 & Hf2 & _ & Hl2 & Hr2).
  change (with_graph (with_graph u g1) g') with (with_graph u g') in *.
  change (relist (u_graph (with_graph u g1)) g') with pi in *.
  change (u_n (with_graph u g1)) with (u_n u) in *.
  assert (Hp : forall x, length x = u_n u -> prior_spec (with_graph u g') pm (pi x) = prior_spec u pm x).
  { intros x Hx. rewrite <- Hp1. apply Hp2, Hx. }
  split; [exact Hp|]. split.
  { intros x Hx. unfold post_weight. rewrite Hp by exact Hx. rewrite <- (Hf1 x). rewrite Hf2 by exact Hx. reflexivity. }
  split; [rewrite <- Hl1; exact Hl2 | rewrite <- Hr1; exact Hr2].
Qed.

(** * Helper for concrete instances: a list re-ordered by an index permutation *)
Definition pick {A} (idx : list nat) (l : list A) (d : A) : list A := map (fun i => nth i l d) idx.
Fixpoint nodup_nat (l : list nat) : bool :=
  match l with [] => true | a :: r => negb (existsb (Nat.eqb a) r) && nodup_nat r end.
Definition is_perm_idx (idx : list nat) (n : nat) : bool :=
  Nat.eqb (length idx) n && forallb (fun i => Nat.ltb i n) idx && nodup_nat idx.
Lemma nodup_nat_NoDup l : nodup_nat l = true -> NoDup l.
Proof.
  induction l as [|a l IH]; cbn [nodup_nat]; intros H; [constructor|].
  apply andb_true_iff in H. destruct H as [H1 H2]. constructor; [|apply IH, H2].
  intros Hin. apply negb_true_iff in H1. assert (existsb (Nat.eqb a) l = true); [|congruence].
  apply existsb_exists. exists a. split; [exact Hin|apply Nat.eqb_refl].
Qed.
Lemma pick_seq {A} (l : list A) d : pick (seq 0 (length l)) l d = l.
Proof.
  unfold pick. apply (nth_ext _ _ d d); [rewrite map_length, seq_length; reflexivity|].
  intros i Hi. rewrite map_length, seq_length in Hi.
  rewrite (nth_indep _ d (nth 0 l d)) by (rewrite map_length, seq_length; exact Hi).
  rewrite (map_nth (fun i => nth i l d) (seq 0 (length l)) 0%nat i), seq_nth by exact Hi. reflexivity.
Qed.
Lemma pick_perm {A} idx (l : list A) d : is_perm_idx idx (length l) = true -> Permutation l (pick idx l d).
Proof.
  unfold is_perm_idx. rewrite !andb_true_iff. intros [[H1 H2] H3].
  apply Nat.eqb_eq in H1. rewrite <- (pick_seq l d) at 1. unfold pick. apply Permutation_map.
  apply Permutation_sym. apply NoDup_Permutation_bis.
  - apply nodup_nat_NoDup, H3.
  - rewrite seq_length, H1. apply Nat.le_refl.
  - intros i Hi. rewrite forallb_forall in H2. apply H2 in Hi. apply Nat.ltb_lt in Hi. apply in_seq. lia.
Qed.
(** a prefix is an injective renaming *)
Lemma prefix_injective c : injective (String c).
Proof. intros a b H. inversion H. reflexivity. Qed.

(** * Concrete instances for the non-vacuity examples of properties/C15.v *)
Local Open Scope string_scope.
(** trinary graph, LNLs listed II, III, I, arc I -> II against the listing order *)
Definition C15_ex_dict : gdict :=
  [ (("tumor", "T"), CList ["II"; "III"]); (("lnl", "II"), CList ["III"]);
    (("lnl", "III"), CList []); (("lnl", "I"), CList ["II"]) ].
(** the same dictionary with its keys listed III, I, T, II and T's connections as III, II *)
Definition C15_ex_dict' : gdict :=
  [ (("lnl", "III"), CList []); (("lnl", "I"), CList ["II"]);
    (("tumor", "T"), CList ["III"; "II"]); (("lnl", "II"), CList ["III"]) ].
Definition C15_ex_params : list (string * (Qc * Qc)) :=
  [ ("TtoII", (qc 1 5, 1%Qc)); ("TtoIII", (qc 1 10, 1%Qc));
    ("IItoIII", (qc 3 10, qc 1 2)); ("ItoII", (qc 2 5, qc 1 4));
    ("II", (qc 1 2, 1%Qc)); ("III", (qc 1 3, 1%Qc)); ("I", (qc 1 4, 1%Qc)) ].
Definition C15_ex_graph : graph := set_edges (force_graph (build_graph 3 C15_ex_dict)) C15_ex_params.
Definition C15_ex_graph' : graph := set_edges (force_graph (build_graph 3 C15_ex_dict')) C15_ex_params.
Definition C15_ex_mods : list (string * modality) :=
  [("CT", {| m_spec := qc 4 5; m_sens := qc 3 4; m_path := false |});
   ("path", {| m_spec := qc 9 10; m_sens := qc 7 10; m_path := true |})].
Definition C15_ex_uni : uni :=
  {| u_graph := C15_ex_graph; u_mods := C15_ex_mods;
     u_dists := [("early", Frozen [qc 1 2; qc 1 4; qc 1 4])]; u_maxt := 2 |}.
Definition C15_ex_pm : vec := [qc 1 2; qc 1 4; qc 1 4].
Definition C15_ex_patient : patient :=
  {| p_tstage := "early";
     p_find := [("CT", [("II", Some IInvolved); ("III", Some IHealthy); ("I", None)]);
                ("path", [("II", None); ("III", Some IInvolved); ("I", Some IHealthy)])] |}.
(** the same patient with the table's columns in another order *)
Definition C15_ex_patient' : patient :=
  {| p_tstage := "early";
     p_find := [("path", [("I", Some IHealthy); ("II", None); ("III", Some IInvolved)]);
                ("CT", [("III", Some IHealthy); ("I", None); ("II", Some IInvolved)])] |}.
Definition C15_ex_inv : pattern := [("III", Some IInvolved); ("I", Some IHealthy)].
(** renaming: every LNL / tumour / modality name gets the prefix "x" / "m" *)
Definition C15_ex_rl : string -> string := fun s => "x" ++ s.
Definition C15_ex_rm : string -> string := fun s => "m" ++ s.
Lemma C15_ex_rl_injective : injective C15_ex_rl.
Proof. intros a b H. unfold C15_ex_rl in H. cbn [append] in H. inversion H. reflexivity. Qed.
Lemma C15_ex_rm_injective : injective C15_ex_rm.
Proof. intros a b H. unfold C15_ex_rm in H. cbn [append] in H. inversion H. reflexivity. Qed.
Definition C15_ex_dict_renamed : gdict :=
  [ (("tumor", "xT"), CList ["xII"; "xIII"]); (("lnl", "xII"), CList ["xIII"]);
    (("lnl", "xIII"), CList []); (("lnl", "xI"), CList ["xII"]) ].
Definition C15_ex_params_renamed : list (string * (Qc * Qc)) :=
  [ ("xTtoxII", (qc 1 5, 1%Qc)); ("xTtoxIII", (qc 1 10, 1%Qc));
    ("xIItoxIII", (qc 3 10, qc 1 2)); ("xItoxII", (qc 2 5, qc 1 4));
    ("xII", (qc 1 2, 1%Qc)); ("xIII", (qc 1 3, 1%Qc)); ("xI", (qc 1 4, 1%Qc)) ].
(** a bilateral model with different parameters on the two sides *)
Definition C15_ex_contra : uni :=
  {| u_graph := set_edges C15_ex_graph [("TtoII", (qc 1 20, 1%Qc)); ("TtoIII", (qc 1 40, 1%Qc))];
     u_mods := C15_ex_mods; u_dists := u_dists C15_ex_uni; u_maxt := 2 |}.
Definition C15_ex_bi : bilateral :=
  {| b_ipsi := C15_ex_uni; b_contra := C15_ex_contra; b_symT := false; b_symL := true |}.
Definition C15_ex_bpatient : bpatient :=
  {| bp_t := "early"; bp_ipsi := p_find C15_ex_patient; bp_contra := [("CT", [("II", Some IHealthy)])] |}.
