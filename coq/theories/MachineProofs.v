(** MachineProofs: the cached machine of Machine.v simulates the cache-free one (C09). *)
From LymphModel Require Import Base States Linalg Graph Transition Observation Dist Unilateral Machine.
Local Open Scope nat_scope.

(** * Association lists *)
Section AssocLemmas.
  Context {K V : Type} (dec : K -> K -> bool).
  Lemma aset_In k (v : V) c e : In e (aset dec k v c) -> e = (k, v) \/ In e c.
  Proof.
    induction c as [|[k' v'] c IH]; cbn [aset].
    - intros [<-|[]]; left; reflexivity.
    - destruct (dec k k'); cbn [In].
      + intros [<-|H]; [left; reflexivity | right; right; exact H].
      + intros [<-|H]; [right; left; reflexivity|]. destruct (IH H) as [->|H']; [left; reflexivity | right; right; exact H'].
  Qed.
  Lemma adel_In k (c c' : list (K * V)) e : adel dec k c = Some c' -> In e c' -> In e c.
  Proof.
    revert c'. induction c as [|[k' v'] c IH]; intros c'; cbn [adel]; [discriminate|].
    destruct (dec k k').
    - intros H; inversion H; subst. intros; right; assumption.
    - destruct (adel dec k c) as [r|]; cbn [option_map]; [|discriminate].
      intros H; inversion H; subst. intros [<-|H']; [left; reflexivity | right; apply (IH r); auto].
  Qed.
  (** a hit returns an entry stored under this very key: the only place where the
      soundness of the equality test (no key collision) is used *)
  Hypothesis dec_sound : forall a b, dec a b = true -> a = b.
  Lemma lookup_In k (c : list (K * V)) v : lookup dec k c = Some v -> In (k, v) c.
  Proof.
    induction c as [|[k' v'] c IH]; cbn [lookup]; [discriminate|].
    destruct (dec k k') eqn:E; intros H; [inversion H; apply dec_sound in E; subst; left; reflexivity | right; auto].
  Qed.
  Lemma memo_list_ok (f : K -> V) ks (c : list (K * V)) :
    (forall k v, In (k, v) c -> v = f k) ->
    fst (memo_list dec f ks c) = map f ks /\ (forall k v, In (k, v) (snd (memo_list dec f ks c)) -> v = f k).
  Proof.
    revert c. induction ks as [|k ks IH]; intros c Hc; cbn [memo_list map]; [split; auto|].
    unfold memo. destruct (lookup dec k c) as [v|] eqn:E.
    - specialize (IH c Hc). destruct (memo_list dec f ks c) as [vs c2]. cbn [fst snd] in *.
      destruct IH as [-> H2]. split; [|exact H2]. f_equal. apply Hc, lookup_In, E.
    - assert (Hc' : forall k0 v, In (k0, v) ((k, f k) :: c) -> v = f k0).
      { intros k0 v [H|H]; [inversion H; reflexivity | auto]. }
      specialize (IH _ Hc'). destruct (memo_list dec f ks ((k, f k) :: c)) as [vs c2]. cbn [fst snd] in *.
      destruct IH as [-> H2]. split; [reflexivity | exact H2].
  Qed.
End AssocLemmas.

Lemma remove_nth_In {A} k (l : list A) e : In e (remove_nth k l) -> In e l.
Proof.
  revert k. induction l as [|a l IH]; intros [|k]; cbn [remove_nth In]; auto.
  intros [H|H]; [left; exact H | right; eapply IH; exact H].
Qed.

Section StripLemmas.
  Context {K B C : Type} (dec : K -> K -> bool).
  Lemma strip_aset k (v : B) (x : C) l : strip (aset dec k (v, x) l) = aset dec k v (strip l).
  Proof.
    induction l as [|[k' [v' x']] l IH]; cbn [aset strip map fst snd]; [reflexivity|].
    destruct (dec k k'); cbn [map fst snd]; [reflexivity|]. f_equal. exact IH.
  Qed.
  Lemma strip_adel k (l : list (K * (B * C))) : adel dec k (strip l) = option_map strip (adel dec k l).
  Proof.
    induction l as [|[k' [v' x']] l IH]; cbn [adel strip map fst snd]; [reflexivity|].
    destruct (dec k k'); [reflexivity|].
    change (map (fun e : K * (B * C) => (fst e, fst (snd e))) l) with (strip l). rewrite IH.
    destruct (adel dec k l); reflexivity.
  Qed.
  Lemma lookup_strip k (l : list (K * (B * C))) : lookup dec k (strip l) = option_map fst (lookup dec k l).
  Proof.
    induction l as [|[k' [v' x']] l IH]; cbn [lookup strip map fst snd]; [reflexivity|].
    destruct (dec k k'); [reflexivity | exact IH].
  Qed.
  Lemma strip_embed (f : K * B -> C) (l : list (K * B)) : strip (map (fun e => (fst e, (snd e, f e))) l) = l.
  Proof. unfold strip. rewrite map_map. cbn [fst snd]. rewrite <- (map_id l) at 2. apply map_ext. intros [a b]; reflexivity. Qed.
  Lemma map_fst_strip (l : list (K * (B * C))) : map fst (strip l) = map fst l.
  Proof. unfold strip. rewrite map_map. reflexivity. Qed.
End StripLemmas.

Lemma upd_nth_map {A B} (f : A -> B) k a l : map f (upd_nth k a l) = upd_nth k (f a) (map f l).
Proof. revert k. induction l as [|b l IH]; intros [|k]; cbn [upd_nth map]; try reflexivity. f_equal. apply IH. Qed.
Lemma upd_nth_same {A} k (a : A) l : nth_error l k = Some a -> upd_nth k a l = l.
Proof. revert k. induction l as [|b l IH]; intros [|k]; cbn [upd_nth nth_error]; try discriminate.
  - intros H; inversion H; reflexivity.
  - intros H. f_equal. apply IH, H. Qed.
Lemma Forall2_upd_nth {A B} (R : A -> B -> Prop) la lb k a b :
  Forall2 R la lb -> R a b -> Forall2 R (upd_nth k a la) (upd_nth k b lb).
Proof.
  intros H. revert k. induction H as [|x y la lb Hxy H IH]; intros [|k] Hab; cbn [upd_nth]; constructor; auto.
Qed.
Lemma Forall2_nth_error_r {A B} (R : A -> B -> Prop) la lb k b :
  Forall2 R la lb -> nth_error lb k = Some b -> exists a, nth_error la k = Some a /\ R a b.
Proof.
  intros H. revert k. induction H as [|x y la lb Hxy H IH]; intros [|k]; cbn [nth_error]; try discriminate.
  - intros E; inversion E; subst. exists x; split; auto.
  - apply IH.
Qed.
Lemma table_at_app {A} (h : list A) v tb a : table_at h v = Some tb -> table_at (h ++ [a]) v = Some tb.
Proof.
  destruct v as [|v]; cbn [table_at]; [discriminate|]. intros H.
  rewrite nth_error_app1; [exact H|]. apply nth_error_Some. rewrite H. discriminate.
Qed.
Lemma table_at_last {A} (h : list A) a : table_at (h ++ [a]) (S (length h)) = Some a.
Proof. cbn [table_at]. rewrite nth_error_app2 by lia. rewrite Nat.sub_diag. reflexivity. Qed.

Section Proofs.
  Variable M : sig.
  Local Notation cm_coherent := (cm_coherent M).
  Local Notation pmf_coherent := (pmf_coherent M).
  Local Notation caches_coherent := (caches_coherent M).
  Local Notation inst_coherent := (inst_coherent M).

  Lemma mkey_dec_sound a b : mkey_dec M a b = true -> a = b.
  Proof.
    revert b. induction a as [|[n1 c1] a IH]; intros [|[n2 c2] b]; cbn [mkey_dec]; intros E; try reflexivity; try discriminate.
    apply andb_prop in E. destruct E as [E E3]. apply andb_prop in E. destruct E as [E1 E2].
    apply sg_mname_eqb_spec in E1. apply sg_cmval_eqb_spec in E2. apply IH in E3. congruence.
  Qed.
  Lemma key_dec_sound a b : key_dec M a b = true -> a = b.
  Proof.
    destruct a as [[t1 m1] v1], b as [[t2 m2] v2]. cbn [key_dec]. intros E.
    apply andb_prop in E. destruct E as [E E3]. apply andb_prop in E. destruct E as [E1 E2].
    apply Nat.eqb_eq in E1. apply mkey_dec_sound in E2. subst.
    destruct t1 as [x|], t2 as [y|]; try discriminate; [|reflexivity].
    apply sg_tstage_eqb_spec in E3. subst. reflexivity.
  Qed.
  Lemma tkey_dec_sound a b : sg_tkey_eqb M a b = true -> a = b.
  Proof. apply sg_tkey_eqb_spec. Qed.

  (** ** Reading confusion matrices and pmfs through their caches *)
  Lemma content_c_ok s mods : cm_coherent s mods -> content_c M s mods = content M s (strip mods).
  Proof.
    intros H. unfold content_c, content, strip. rewrite map_map. apply map_ext_in.
    intros [n [v [c|]]] Hin; unfold cm_read; cbn [fst snd]; [|reflexivity]. f_equal. apply (H n v c Hin).
  Qed.
  Lemma strip_fill_cms s mods : strip (fill_cms M s mods) = strip mods.
  Proof. unfold fill_cms, strip. rewrite map_map. reflexivity. Qed.
  Lemma fill_cms_coherent s mods : cm_coherent s mods -> cm_coherent s (fill_cms M s mods).
  Proof.
    intros H n v c Hin. unfold fill_cms in Hin. apply in_map_iff in Hin. destruct Hin as [[n' [v' c']] [E Hin]].
    unfold cm_read in E. cbn [fst snd] in E. destruct c' as [c'|]; inversion E; subst; [apply (H _ _ _ Hin) | reflexivity].
  Qed.
  Lemma pmfs_c_ok m ds : pmf_coherent m ds -> pmfs_c M m ds = map (fun e => (fst e, sg_pmf_of M m (snd e))) (strip ds).
  Proof.
    intros H. unfold pmfs_c, strip. rewrite map_map. apply map_ext_in.
    intros [t [d [p|]]] Hin; unfold pmf_read; cbn [fst snd]; [|reflexivity]. f_equal. apply (H t d p Hin).
  Qed.
  Lemma strip_fill_pmfs m ds : strip (fill_pmfs M m ds) = strip ds.
  Proof. unfold fill_pmfs, strip. rewrite map_map. reflexivity. Qed.
  Lemma fill_pmfs_coherent m ds : pmf_coherent m ds -> pmf_coherent m (fill_pmfs M m ds).
  Proof.
    intros H t d p Hin. unfold fill_pmfs in Hin. apply in_map_iff in Hin. destruct Hin as [[t' [d' p']] [E Hin]].
    unfold pmf_read in E. cbn [fst snd] in E. destruct p' as [p'|]; inversion E; subst; [apply (H _ _ _ Hin) | reflexivity].
  Qed.

  (** ** The data / diagnosis matrix procedures *)
  Lemma dm_none_ok h s ver mc tb c :
    caches_coherent h s c -> table_at h ver = Some tb ->
    fst (dm_none M KFull s ver mc tb c) = dm_fun M s None mc tb /\ caches_coherent h s (snd (dm_none M KFull s ver mc tb c)).
  Proof.
    intros [Hd Hg] Ht. unfold dm_none, memo, mk_key.
    destruct (lookup (key_dec M) (None, mc, ver) (fst c)) as [v|] eqn:E; cbn [fst snd].
    - apply (lookup_In _ (key_dec_sound)) in E. destruct (Hd _ _ _ _ E) as [tb' [Ht' ->]]. rewrite Ht in Ht'. inversion Ht'; subst.
      split; [reflexivity | split; assumption].
    - split; [reflexivity|]. split; [|exact Hg]. cbn [fst]. intros t mc' v val [H|H]; [|eauto].
      inversion H; subst. exists tb. split; [exact Ht | reflexivity].
  Qed.
  Lemma gm_none_ok h s ver mc tb c :
    caches_coherent h s c -> table_at h ver = Some tb ->
    fst (gm_none M KFull s ver mc tb c) = gm_fun M s None mc tb /\ caches_coherent h s (snd (gm_none M KFull s ver mc tb c)).
  Proof.
    intros Hc Ht. unfold gm_none, mk_key.
    destruct (lookup (key_dec M) (None, mc, ver) (snd c)) as [g|] eqn:E; cbn [fst snd].
    - apply (lookup_In _ (key_dec_sound)) in E. destruct Hc as [Hd Hg]. destruct (Hg _ _ _ _ E) as [tb' [Ht' ->]]. rewrite Ht in Ht'.
      inversion Ht'; subst. split; [reflexivity | split; assumption].
    - destruct (dm_none_ok h s ver mc tb c Hc Ht) as [Hv [Hd Hg]].
      destruct (dm_none M KFull s ver mc tb c) as [d c1]. cbn [fst snd] in *. subst d.
      split; [reflexivity|]. split; [exact Hd|]. cbn [snd]. intros t mc' v val [H|H]; [|eauto].
      inversion H; subst. exists tb. split; [exact Ht | reflexivity].
  Qed.
  Lemma dm_at_ok h t s ver mc tb c :
    caches_coherent h s c -> table_at h ver = Some tb ->
    fst (dm_at M KFull t s ver mc tb c) = dm_fun M s t mc tb /\ caches_coherent h s (snd (dm_at M KFull t s ver mc tb c)).
  Proof.
    intros Hc Ht. unfold dm_at.
    destruct (dm_none_ok h s ver mc tb c Hc Ht) as [Hv Hc1].
    destruct (dm_none M KFull s ver mc tb c) as [full c1]. cbn [fst snd] in *. subst full.
    destruct t as [ts|]; [|split; [reflexivity | exact Hc1]].
    unfold mk_key. destruct (lookup (key_dec M) (Some ts, mc, ver) (fst c1)) as [v|] eqn:E; cbn [fst snd].
    - apply (lookup_In _ (key_dec_sound)) in E. destruct Hc1 as [Hd Hg]. destruct (Hd _ _ _ _ E) as [tb' [Ht' ->]]. rewrite Ht in Ht'.
      inversion Ht'; subst. split; [reflexivity | split; assumption].
    - destruct (gm_none_ok h s ver mc tb c1 Hc1 Ht) as [_ [Hd Hg]].
      destruct (gm_none M KFull s ver mc tb c1) as [g c2]. cbn [fst snd] in *.
      split; [reflexivity|]. split; [|exact Hg]. cbn [fst]. intros t mc' v val [H|H]; [|eauto].
      inversion H; subst. exists tb. split; [exact Ht | reflexivity].
  Qed.
  Lemma gm_at_ok h t s ver data mc c :
    caches_coherent h s c -> data = table_at h ver ->
    fst (gm_at M KFull t s ver data mc c) = option_map (gm_fun M s t mc) data
    /\ caches_coherent h s (snd (gm_at M KFull t s ver data mc c)).
  Proof.
    intros Hc Hdata. unfold gm_at, mk_key.
    destruct (lookup (key_dec M) (t, mc, ver) (snd c)) as [g|] eqn:E; cbn [fst snd].
    - apply (lookup_In _ (key_dec_sound)) in E. destruct Hc as [Hd Hg]. destruct (Hg _ _ _ _ E) as [tb' [Ht' ->]].
      subst data. rewrite Ht'. split; [reflexivity | split; assumption].
    - destruct data as [tb|]; [|split; [reflexivity | exact Hc]]. symmetry in Hdata.
      destruct (dm_at_ok h t s ver mc tb c Hc Hdata) as [Hv [Hd Hg]].
      destruct (dm_at M KFull t s ver mc tb c) as [d c1]. cbn [fst snd] in *. subst d.
      split; [reflexivity|]. split; [exact Hd|]. cbn [snd]. intros t' mc' v val [H|H]; [|eauto].
      inversion H; subst. exists tb. split; [exact Hdata | reflexivity].
  Qed.
  Lemma gm_list_ok h ts s ver data mc c :
    caches_coherent h s c -> data = table_at h ver ->
    fst (gm_list M KFull ts s ver data mc c) = map (fun t => option_map (gm_fun M s t mc) data) ts
    /\ caches_coherent h s (snd (gm_list M KFull ts s ver data mc c)).
  Proof.
    revert c. induction ts as [|t ts IH]; intros c Hc Hdata; cbn [gm_list map]; [split; [reflexivity | exact Hc]|].
    destruct (gm_at_ok h t s ver data mc c Hc Hdata) as [Hv Hc1].
    destruct (gm_at M KFull t s ver data mc c) as [g c1]. cbn [fst snd] in *.
    destruct (IH c1 Hc1 Hdata) as [Hvs Hc2]. destruct (gm_list M KFull ts s ver data mc c1) as [gs c2]. cbn [fst snd] in *.
    subst. split; [reflexivity | exact Hc2].
  Qed.

  (** ** One operation on one instance *)
  Definition ghost (o : iop M) (h : list (sg_table M)) : list (sg_table M) :=
    match o with Load _ tb => h ++ [tb] | _ => h end.

  Lemma caches_coherent_app h s c tb : caches_coherent h s c -> caches_coherent (h ++ [tb]) s c.
  Proof.
    intros [Hd Hg]. split; intros t mc v val Hin.
    - destruct (Hd _ _ _ _ Hin) as [tb' [H1 H2]]. exists tb'. split; [apply table_at_app, H1 | exact H2].
    - destruct (Hg _ _ _ _ Hin) as [tb' [H1 H2]]. exists tb'. split; [apply table_at_app, H1 | exact H2].
  Qed.

  Ltac split_inv H := destruct H as (Hver & Hdata & Hcm & Hpmf & Hcc).
  Ltac simp_inst := cbn [set_mods set_dists set_dcache set_gcache set_mods_caches set_params_dists set_maxt_dists set_data
                         i_static i_mods i_data i_version i_params i_dists i_maxt i_dcache i_gcache
                         c_static c_mods c_data c_params c_dists c_maxt fst snd] in *.
  Ltac coh_split := unfold inst_coherent; simp_inst; refine (conj _ (conj _ (conj _ (conj _ _)))); try assumption.

  Lemma istep_ok o h x mc :
    inst_coherent h x -> mcache_coherent M mc ->
    fst (fst (istep M KFull o x mc)) = fst (sistep M o (abs_i M x))
    /\ abs_i M (snd (fst (istep M KFull o x mc))) = snd (sistep M o (abs_i M x))
    /\ inst_coherent (ghost o h) (snd (fst (istep M KFull o x mc)))
    /\ mcache_coherent M (snd (istep M KFull o x mc)).
  Proof.
    intros Hinv Hmc. split_inv Hinv.
    destruct o; cbn [istep sistep ghost].
    - (* SetMod *)
      unfold abs_i; simp_inst. rewrite strip_aset.
      split; [reflexivity|]. split; [reflexivity|]. split; [|exact Hmc]. coh_split.
      intros n' v' c' Hin. apply aset_In in Hin. destruct Hin as [H|H]; [inversion H | eauto].
    - (* UpdMod *)
      cbn [abs_i c_mods]. rewrite lookup_strip.
      destruct (lookup (sg_mname_eqb M) n (i_mods M x)) as [[v cc]|]; cbn [option_map fst].
      2:{ simp_inst. split; [reflexivity|]. split; [reflexivity|]. split; [|exact Hmc]. coh_split. }
      destruct (sg_apply_mupd M u v) as [v'|].
      2:{ simp_inst. split; [reflexivity|]. split; [reflexivity|]. split; [|exact Hmc]. coh_split. }
      unfold abs_i; simp_inst. rewrite strip_aset.
      split; [reflexivity|]. split; [reflexivity|]. split; [|exact Hmc]. coh_split.
      intros n' v'' c' Hin. apply aset_In in Hin. destruct Hin as [H|H]; [inversion H | eauto].
    - (* DelMod *)
      cbn [abs_i c_mods]. rewrite strip_adel.
      destruct (adel (sg_mname_eqb M) n (i_mods M x)) as [m|] eqn:E; cbn [option_map].
      2:{ simp_inst. split; [reflexivity|]. split; [reflexivity|]. split; [|exact Hmc]. coh_split. }
      unfold abs_i; simp_inst.
      split; [reflexivity|]. split; [reflexivity|]. split; [|exact Hmc]. coh_split.
      intros n' v' c' Hin. eapply Hcm. eapply adel_In; eauto.
    - (* ReplaceMods *)
      unfold abs_i; simp_inst. rewrite (strip_embed (fun _ => None)).
      split; [reflexivity|]. split; [reflexivity|]. split; [|exact Hmc]. coh_split.
      intros n' v' c' Hin. apply in_map_iff in Hin. destruct Hin as [e [E _]]. inversion E.
    - (* ClearMods *)
      unfold abs_i; simp_inst.
      split; [reflexivity|]. split; [reflexivity|]. split; [|exact Hmc]. coh_split.
      intros n' v' c' [].
    - (* Load *)
      unfold abs_i; simp_inst.
      split; [reflexivity|]. split; [reflexivity|]. split; [|exact Hmc].
      unfold inst_coherent; simp_inst. refine (conj _ (conj _ (conj _ (conj _ _)))); try assumption.
      + rewrite app_length, Hver. cbn [length]. lia.
      + rewrite Hver. symmetry. apply table_at_last.
      + apply caches_coherent_app, Hcc.
    - (* SetParams *)
      unfold abs_i; simp_inst.
      split; [reflexivity|]. split.
      { f_equal. unfold strip. rewrite !map_map. apply map_ext. intros [t [d p]]. cbn [fst snd].
        destruct (sg_updateable M d); reflexivity. }
      split; [|exact Hmc]. coh_split.
      intros t d p Hin. apply in_map_iff in Hin.
      destruct Hin as [[t' [d' p']] [E Hin]]. cbn [fst snd] in E. destruct (sg_updateable M d').
      + inversion E; subst. reflexivity.
      + inversion E; subst. eauto.
    - (* SetDist *)
      unfold abs_i; simp_inst. rewrite strip_aset.
      split; [reflexivity|]. split; [reflexivity|]. split; [|exact Hmc]. coh_split.
      intros t' d' p' Hin. apply aset_In in Hin. destruct Hin as [H|H]; [inversion H; subst; reflexivity | eauto].
    - (* DelDist *)
      cbn [abs_i c_dists]. rewrite strip_adel.
      destruct (adel (sg_tstage_eqb M) t (i_dists M x)) as [m|] eqn:E; cbn [option_map].
      2:{ simp_inst. split; [reflexivity|]. split; [reflexivity|]. split; [|exact Hmc]. coh_split. }
      unfold abs_i; simp_inst.
      split; [reflexivity|]. split; [reflexivity|]. split; [|exact Hmc]. coh_split.
      intros t' d' p' Hin. eapply Hpmf. eapply adel_In; eauto.
    - (* ReplaceDists *)
      unfold abs_i; simp_inst. rewrite (strip_embed (fun e => Some (sg_pmf_of M (i_maxt M x) (snd e)))).
      split; [reflexivity|]. split; [reflexivity|]. split; [|exact Hmc]. coh_split.
      intros t' d' p' Hin. apply in_map_iff in Hin. destruct Hin as [e [E _]]. inversion E; subst. reflexivity.
    - (* ClearDists *)
      unfold abs_i; simp_inst.
      split; [reflexivity|]. split; [reflexivity|]. split; [|exact Hmc]. coh_split.
      intros t' d' p' [].
    - (* SetMaxTime *)
      unfold abs_i; simp_inst.
      split; [reflexivity|]. split.
      { f_equal. unfold strip. rewrite map_map. reflexivity. }
      split; [|exact Hmc]. coh_split.
      intros t' d' p' Hin. apply in_map_iff in Hin. destruct Hin as [e [E _]]. inversion E.
    - (* DataMatrix *)
      unfold dm_spec. cbn [abs_i c_data c_static c_mods].
      destruct (i_data M x) as [tb|] eqn:Ed; cbn [option_map].
      2:{ simp_inst. split; [reflexivity|]. split; [reflexivity|]. split; [|exact Hmc]. coh_split. rewrite Ed. exact Hdata. }
      assert (Ht : table_at h (i_version M x) = Some tb) by (symmetry; exact Hdata).
      destruct (dm_at_ok h t (i_static M x) (i_version M x) (content_c M (i_static M x) (i_mods M x)) tb _ Hcc Ht) as [Hv Hc'].
      destruct (dm_at M KFull t (i_static M x) (i_version M x) (content_c M (i_static M x) (i_mods M x)) tb
                  (i_dcache M x, i_gcache M x)) as [v c'].
      simp_inst. subst v. rewrite content_c_ok by exact Hcm.
      split; [reflexivity|]. unfold abs_i; simp_inst.
      rewrite strip_fill_cms, Ed. split; [reflexivity|]. split; [|exact Hmc].
      coh_split; try (rewrite Ed; exact Hdata); try (apply fill_cms_coherent, Hcm); try (destruct c'; exact Hc').
    - (* DiagMatrix *)
      unfold gm_spec. cbn [abs_i c_data c_static c_mods].
      destruct (gm_at_ok h t (i_static M x) (i_version M x) (i_data M x) (content_c M (i_static M x) (i_mods M x)) _ Hcc Hdata)
        as [Hv Hc'].
      destruct (gm_at M KFull t (i_static M x) (i_version M x) (i_data M x) (content_c M (i_static M x) (i_mods M x))
                  (i_dcache M x, i_gcache M x)) as [g c'].
      simp_inst. subst g. rewrite content_c_ok by exact Hcm.
      split; [destruct (i_data M x); reflexivity|]. unfold abs_i; simp_inst.
      rewrite strip_fill_cms. split; [reflexivity|]. split; [|exact Hmc].
      coh_split; try (rewrite Ed; exact Hdata); try (apply fill_cms_coherent, Hcm); try (destruct c'; exact Hc').
    - (* PatientData *)
      cbn [abs_i c_data].
      destruct (i_data M x) as [tb|] eqn:Ed.
      2:{ simp_inst. split; [reflexivity|]. split; [reflexivity|]. split; [|exact Hmc]. coh_split. rewrite Ed. exact Hdata. }
      rewrite <- Ed.
      assert (Hdata' : i_data M x = table_at h (i_version M x)) by (rewrite Ed; exact Hdata).
      destruct (gm_at_ok h None (i_static M x) (i_version M x) (i_data M x) (content_c M (i_static M x) (i_mods M x)) _ Hcc Hdata')
        as [Hv Hc'].
      destruct (gm_at M KFull None (i_static M x) (i_version M x) (i_data M x) (content_c M (i_static M x) (i_mods M x))
                  (i_dcache M x, i_gcache M x)) as [g c'].
      simp_inst. split; [reflexivity|].
      unfold abs_i; simp_inst.
      rewrite strip_fill_cms. split; [reflexivity|]. split; [|exact Hmc].
      coh_split; try (rewrite Ed; exact Hdata); try (apply fill_cms_coherent, Hcm); try (destruct c'; exact Hc').
    - (* Query *)
      unfold query_spec, pmfs_spec, gm_spec. cbn [abs_i c_static c_mods c_data c_params c_dists c_maxt].
      destruct (memo_list_ok (sg_tkey_eqb M) tkey_dec_sound (sg_tensor M) (sg_tkeys M (i_static M x) (i_params M x)) mc Hmc) as [Htv Hmc'].
      destruct (memo_list (sg_tkey_eqb M) (sg_tensor M) (sg_tkeys M (i_static M x) (i_params M x)) mc) as [tv mc'].
      cbn [fst snd] in Htv, Hmc'. subst tv.
      destruct (gm_list_ok h (sg_qstages M q (i_static M x) (map fst (i_dists M x)) (i_data M x)) (i_static M x) (i_version M x)
                  (i_data M x) (content_c M (i_static M x) (i_mods M x)) _ Hcc Hdata) as [Hgs Hc'].
      destruct (gm_list M KFull (sg_qstages M q (i_static M x) (map fst (i_dists M x)) (i_data M x)) (i_static M x) (i_version M x)
                  (i_data M x) (content_c M (i_static M x) (i_mods M x)) (i_dcache M x, i_gcache M x)) as [gs c'].
      simp_inst. subst gs.
      rewrite content_c_ok by exact Hcm. rewrite pmfs_c_ok by exact Hpmf. rewrite map_fst_strip.
      split; [reflexivity|].
      unfold abs_i; simp_inst.
      rewrite strip_fill_cms, strip_fill_pmfs. split; [reflexivity|]. split; [|exact Hmc'].
      coh_split; try (apply fill_cms_coherent, Hcm); try (apply fill_pmfs_coherent, Hpmf); try (destruct c'; exact Hc').
    - (* EvictD *)
      unfold abs_i; simp_inst.
      split; [reflexivity|]. split; [reflexivity|]. split; [|exact Hmc]. coh_split.
      destruct Hcc as [Hd Hg]. split; simp_inst; [|exact Hg].
      intros t mc' v val Hin. apply remove_nth_In in Hin. eauto.
    - (* EvictG *)
      unfold abs_i; simp_inst.
      split; [reflexivity|]. split; [reflexivity|]. split; [|exact Hmc]. coh_split.
      destruct Hcc as [Hd Hg]. split; simp_inst; [exact Hd|].
      intros t mc' v val Hin. apply remove_nth_In in Hin. eauto.
    - (* EvictCM *)
      unfold abs_i; simp_inst.
      split; [reflexivity|]. split.
      { f_equal. unfold strip. rewrite map_map. apply map_ext. intros [n' [v' c']]. cbn [fst snd].
        destruct (sg_mname_eqb M n n'); reflexivity. }
      split; [|exact Hmc]. coh_split.
      intros n' v' c' Hin. apply in_map_iff in Hin. destruct Hin as [[n2 [v2 c2]] [E Hin]].
      cbn [fst snd] in E. destruct (sg_mname_eqb M n n2); inversion E; subst. eauto.
    - (* EvictFrozen *)
      unfold abs_i; simp_inst.
      split; [reflexivity|]. split.
      { f_equal. unfold strip. rewrite map_map. apply map_ext. intros [n' [v' c']]. cbn [fst snd].
        destruct (sg_tstage_eqb M t n'); reflexivity. }
      split; [|exact Hmc]. coh_split.
      intros n' v' c' Hin. apply in_map_iff in Hin. destruct Hin as [[n2 [v2 c2]] [E Hin]].
      cbn [fst snd] in E. destruct (sg_tstage_eqb M t n2); inversion E; subst. eauto.
  Qed.

  (** ** One step of the whole machine *)
  Lemma new_inst_coherent s : inst_coherent [] (new_inst M s).
  Proof.
    unfold inst_coherent, new_inst; cbn [i_static i_mods i_data i_version i_dists i_maxt i_dcache i_gcache length table_at].
    refine (conj _ (conj _ (conj _ (conj _ _)))); try reflexivity.
    - intros n v c [].
    - intros n v c [].
    - split; intros t mc v val [].
  Qed.

  Lemma cstep_ok st o :
    cache_coherent M st ->
    fst (cstep M st o) = fst (sstep M (abs M st) o) /\ abs M (snd (cstep M st o)) = snd (sstep M (abs M st) o)
    /\ cache_coherent M (snd (cstep M st o)).
  Proof.
    destruct st as [insts mc]. intros [[hs Hhs] Hmc]. cbn [fst snd] in *.
    destruct o as [s|i io|k]; unfold cstep; cbn [cstep_gen sstep fst snd].
    - split; [reflexivity|]. split.
      + unfold abs; cbn [fst]. rewrite map_app. reflexivity.
      + split; [|exact Hmc]. exists (hs ++ [[]]). cbn [fst]. apply Forall2_app; [exact Hhs|].
        constructor; [apply new_inst_coherent | constructor].
    - unfold abs; cbn [fst]. rewrite nth_error_map.
      destruct (nth_error insts i) as [x|] eqn:Ex; cbn [option_map].
      2:{ cbn [fst snd]. split; [reflexivity|]. split; [reflexivity|]. split; [exists hs; exact Hhs | exact Hmc]. }
      destruct (Forall2_nth_error_r _ _ _ _ _ Hhs Ex) as [h [Eh Hx]].
      destruct (istep_ok io h x mc Hx Hmc) as (H1 & H2 & H3 & H4).
      destruct (istep M KFull io x mc) as [[out x'] mc']. destruct (sistep M io (abs_i M x)) as [out2 c'].
      cbn [fst snd] in *. subst out2 c'. split; [reflexivity|]. split.
      + apply upd_nth_map.
      + split; [|exact H4]. exists (upd_nth i (ghost io h) hs). cbn [fst]. apply Forall2_upd_nth; assumption.
    - split; [reflexivity|]. split; [reflexivity|]. split; [exists hs; exact Hhs|].
      cbn [snd]. intros k' v Hin. apply remove_nth_In in Hin. auto.
  Qed.

  Lemma crun_ok ops : forall st, cache_coherent M st ->
    fst (crun M st ops) = fst (srun M (abs M st) ops) /\ abs M (snd (crun M st ops)) = snd (srun M (abs M st) ops)
    /\ cache_coherent M (snd (crun M st ops)).
  Proof.
    induction ops as [|o ops IH]; intros st Hst; unfold crun; cbn [crun_gen srun fst snd]; [auto|].
    destruct (cstep_ok st o Hst) as (H1 & H2 & H3). fold (cstep M st o).
    destruct (cstep M st o) as [out st1]. destruct (sstep M (abs M st) o) as [out2 cs1]. cbn [fst snd] in *. subst out2 cs1.
    destruct (IH st1 H3) as (I1 & I2 & I3). fold (crun M st1 ops).
    destruct (crun M st1 ops) as [outs st2]. destruct (srun M (abs M st1) ops) as [outs2 cs2]. cbn [fst snd] in *. subst.
    auto.
  Qed.

  Lemma init_coherent : cache_coherent M (init M).
  Proof. split; [exists []; constructor | intros k v []]. Qed.

  Lemma abs_fresh cs : abs M (fresh M cs) = cs.
  Proof.
    unfold abs, fresh; cbn [fst]. rewrite map_map. rewrite <- (map_id cs) at 2. apply map_ext.
    intros [s m d p ds mt]. unfold abs_i, fresh_i; cbn [i_static i_mods i_data i_params i_dists i_maxt c_static c_mods c_data c_params c_dists c_maxt].
    rewrite (strip_embed (fun _ => None)), (strip_embed (fun _ => None)). reflexivity.
  Qed.
  Lemma fresh_coherent cs : cache_coherent M (fresh M cs).
  Proof.
    split; [|intros k v []]. exists (map (fun c => match c_data M c with Some tb => [tb] | None => [] end) cs).
    unfold fresh; cbn [fst]. induction cs as [|c cs IH]; cbn [map]; constructor; [|exact IH].
    unfold inst_coherent, fresh_i; cbn [i_static i_mods i_data i_version i_dists i_maxt i_dcache i_gcache].
    refine (conj _ (conj _ (conj _ (conj _ _)))).
    - destruct (c_data M c); reflexivity.
    - destruct (c_data M c); reflexivity.
    - intros n v c' Hin. apply in_map_iff in Hin. destruct Hin as [e [E _]]. inversion E.
    - intros n v c' Hin. apply in_map_iff in Hin. destruct Hin as [e [E _]]. inversion E.
    - split; intros t mc v val [].
  Qed.

  (** ** Queries and evictions leave the configuration alone (no invariant needed, any key mode) *)
  Lemma istep_pure_abs mode io x mc :
    match io with DataMatrix _ _ | DiagMatrix _ _ | PatientData _ | Query _ _ | EvictD _ _ | EvictG _ _ | EvictCM _ _
                | EvictFrozen _ _ => true | _ => false end = true ->
    abs_i M (snd (fst (istep M mode io x mc))) = abs_i M x.
  Proof.
    destruct io; try discriminate; intros _; cbn [istep].
    - destruct (i_data M x); [|reflexivity]. destruct (dm_at _ _ _ _ _ _ _ _) as [v c]. cbn [fst snd].
      unfold abs_i; cbn [set_mods_caches i_static i_mods i_data i_params i_dists i_maxt]. rewrite strip_fill_cms. reflexivity.
    - destruct (gm_at _ _ _ _ _ _ _ _) as [v c]. cbn [fst snd].
      unfold abs_i; cbn [set_mods_caches i_static i_mods i_data i_params i_dists i_maxt]. rewrite strip_fill_cms. reflexivity.
    - destruct (i_data M x) eqn:Ed; [|reflexivity]. destruct (gm_at _ _ _ _ _ _ _ _) as [v c]. cbn [fst snd].
      unfold abs_i; cbn [set_mods_caches i_static i_mods i_data i_params i_dists i_maxt]. rewrite strip_fill_cms. reflexivity.
    - destruct (memo_list _ _ _ _) as [tv mc']. destruct (gm_list _ _ _ _ _ _ _ _) as [gs c]. cbn [fst snd].
      unfold abs_i; cbn [set_dists set_mods_caches i_static i_mods i_data i_params i_dists i_maxt].
      rewrite strip_fill_cms, strip_fill_pmfs. reflexivity.
    - reflexivity.
    - reflexivity.
    - cbn [fst snd]. unfold abs_i; cbn [set_mods i_static i_mods i_data i_params i_dists i_maxt]. f_equal.
      unfold strip. rewrite map_map. apply map_ext. intros [n' [v' c']]. cbn [fst snd]. destruct (sg_mname_eqb M n n'); reflexivity.
    - cbn [fst snd]. unfold abs_i; cbn [set_dists i_static i_mods i_data i_params i_dists i_maxt]. f_equal.
      unfold strip. rewrite map_map. apply map_ext. intros [n' [v' c']]. cbn [fst snd]. destruct (sg_tstage_eqb M t n'); reflexivity.
  Qed.

  Lemma cstep_gen_pure_abs mode st o :
    is_query M o = true \/ is_evict M o = true -> abs M (snd (cstep_gen M mode st o)) = abs M st.
  Proof.
    destruct st as [insts mc]. destruct o as [s|i io|k]; cbn [is_query is_evict cstep_gen fst snd].
    - intros [H|H]; discriminate.
    - intros H. destruct (nth_error insts i) as [x|] eqn:Ex; [|reflexivity].
      assert (Hio : abs_i M (snd (fst (istep M mode io x mc))) = abs_i M x).
      { apply istep_pure_abs. destruct io; cbn in H; try reflexivity; destruct H; discriminate. }
      destruct (istep M mode io x mc) as [[out x'] mc']. cbn [fst snd] in *.
      unfold abs; cbn [fst]. rewrite upd_nth_map, Hio. apply upd_nth_same. rewrite nth_error_map, Ex. reflexivity.
    - reflexivity.
  Qed.

  Lemma crun_pure_abs ops : forall st,
    forallb (fun b => is_query M b || is_evict M b) ops = true -> abs M (snd (crun M st ops)) = abs M st.
  Proof.
    induction ops as [|o ops IH]; intros st H; unfold crun; cbn [crun_gen]; [reflexivity|].
    cbn [forallb] in H. apply andb_prop in H. destruct H as [Ho Hops]. apply orb_prop in Ho.
    pose proof (cstep_gen_pure_abs KFull st o Ho) as H1.
    destruct (cstep_gen M KFull st o) as [out st1]. cbn [snd] in H1.
    pose proof (IH st1 Hops) as H2. unfold crun in H2. destruct (crun_gen M KFull st1 ops) as [outs st2]. cbn [snd] in *.
    congruence.
  Qed.
End Proofs.

(** * The theorems *)
Theorem cache_coherent_init : C09_cache_coherent_init_stmt.
Proof. intros M. apply init_coherent. Qed.
Theorem cache_coherent_step : C09_cache_coherent_step_stmt.
Proof. intros M st o H. apply (cstep_ok M st o H). Qed.
Theorem step_simulation : C09_step_simulation_stmt.
Proof. intros M st o H. destruct (cstep_ok M st o H) as (H1 & H2 & _). auto. Qed.
Theorem history_independent_from : C09_history_independent_from_stmt.
Proof. intros M st ops H. apply crun_ok, H. Qed.
Theorem history_independent : C09_history_independent_stmt.
Proof. intros M ops. destruct (crun_ok M ops (init M) (init_coherent M)) as (H1 & H2 & _). auto. Qed.
Theorem output_depends_on_abs : C09_output_depends_on_abs_stmt.
Proof.
  intros M st1 st2 o H1 H2 E.
  destruct (cstep_ok M st1 o H1) as (A1 & B1 & _). destruct (cstep_ok M st2 o H2) as (A2 & B2 & _).
  rewrite A1, A2, B1, B2, E. auto.
Qed.
Theorem fresh_equiv : C09_fresh_equiv_stmt.
Proof.
  intros M ops o st.
  destruct (crun_ok M ops (init M) (init_coherent M)) as (_ & _ & Hst). fold st in Hst.
  split; [apply fresh_coherent|]. split; [apply abs_fresh|].
  apply (output_depends_on_abs M st (fresh M (abs M st)) o Hst (fresh_coherent M _)). symmetry. apply abs_fresh.
Qed.
Theorem queries_are_pure : C09_queries_are_pure_stmt.
Proof. intros M st o H. apply cstep_gen_pure_abs, H. Qed.
Theorem repeated_query : C09_repeated_query_stmt.
Proof.
  intros M st o between Hst Hq Hb.
  destruct (cstep_ok M st o Hst) as (A1 & _ & C1).
  assert (Habs1 : abs M (snd (cstep M st o)) = abs M st) by (apply cstep_gen_pure_abs; left; exact Hq).
  destruct (crun_ok M between _ C1) as (_ & _ & C2).
  pose proof (crun_pure_abs M between (snd (cstep M st o)) Hb) as Habs2.
  destruct (cstep_ok M _ o C2) as (A3 & _ & _).
  rewrite A3, A1, Habs2, Habs1. reflexivity.
Qed.

(** * Non-vacuity: the faulty keys are refuted, the real key passes the same histories *)
Theorem stale_version_refuted : C09_stale_version_refuted_stmt.
Proof. split; [vm_compute; intros H; discriminate H | vm_compute; reflexivity]. Qed.
Theorem stale_mods_refuted : C09_stale_mods_refuted_stmt.
Proof. split; [vm_compute; intros H; discriminate H | vm_compute; reflexivity]. Qed.

(** * The Unilateral instance uses the functions of Observation.v / Unilateral.v *)
Theorem observe_faithful : C09_observe_faithful_stmt.
Proof.
  intros mods n b. unfold generate_observation, generate_observation_cm.
  generalize (repeat [1%Qc] (Nat.pow b n)). induction mods as [|m mods IH]; intros O; cbn [map fold_left]; [reflexivity|].
  apply IH.
Qed.

Lemma sequence_filter {A B} (f : A -> res B) (P : A -> bool) l rows :
  sequence (map f l) = inr rows ->
  sequence (map f (filter P l)) = inr (map snd (filter (fun e => P (fst e)) (combine l rows))).
Proof.
  revert rows. induction l as [|a l IH]; intros rows; cbn [map sequence filter combine].
  - intros _. reflexivity.
  - destruct (f a) as [e|b] eqn:Ea; cbn [bind]; [discriminate|].
    destruct (sequence (map f l)) as [e|rs] eqn:Es; cbn [bind]; [discriminate|].
    intros H; inversion H; subst. cbn [combine filter fst].
    destruct (P a); cbn [map sequence snd].
    + rewrite Ea. cbn [bind]. rewrite (IH rs eq_refl). reflexivity.
    + apply IH. reflexivity.
Qed.

Theorem uni_matrices_faithful : C09_uni_matrices_faithful_stmt.
Proof.
  intros c tb t full Hd u Hl Hb Hfull.
  unfold dm_spec, gm_spec. rewrite Hd. cbn [option_map].
  assert (Hdm : dm_fun uni_sig (c_static uni_sig c) t (content uni_sig (c_static uni_sig c) (c_mods uni_sig c)) tb
                = data_matrix u tb t).
  { unfold dm_fun. cbn [uni_sig sg_encode sg_selectT]. unfold content. rewrite map_map. cbn [fst].
    unfold data_matrix, u_lnls, u_mod_names in *. cbn [u uni_of u_graph u_mods select] in *. rewrite <- Hl.
    change (encode_table (lnls (c_params uni_sig c)) (map (fun x => fst x) (c_mods uni_sig c)) tb)
      with (sequence (map (patient_encoding (lnls (c_params uni_sig c)) (map fst (c_mods uni_sig c))) tb)).
    destruct t as [ts|]; cbn [select]; [|reflexivity].
    rewrite (sequence_filter _ (fun p => str_eqb (p_tstage p) ts) _ _ Hfull).
    unfold select_rows.
    match goal with |- bind ?X _ = _ => replace X with (@inr merr _ full) by (symmetry; exact Hfull) end.
    reflexivity. }
  split; [rewrite Hdm; reflexivity|].
  unfold gm_fun. rewrite Hdm. cbn [uni_sig sg_diagf sg_observe]. f_equal.
  unfold diagnosis_matrix. f_equal.
  unfold observation_matrix, u_n, u_base, nlnls. cbn [u uni_of u_graph u_mods]. rewrite Hl, Hb.
  rewrite observe_faithful. unfold content. rewrite !map_map. cbn [snd fst uni_sig sg_cm]. reflexivity.
Qed.
