(** ParamsProofs: proofs of the C10 statements (ParamsStatements.v). *)
From LymphModel Require Import Base States Linalg Graph Transition Observation Dist Unilateral Models Params
  ParamsStatements ParamsLemmas.
Local Open Scope nat_scope.
Local Open Scope string_scope.
Local Open Scope list_scope.

(** * What well-formed names give *)
Lemma in_reserved_not_edge u s : u_names_ok u = true -> In s reserved -> ~ In s (u_edge_names u).
Proof.
  intros H Hs Hin. unfold u_names_ok in H. apply andb_true_iff in H. destruct H as [H _].
  apply andb_true_iff in H. destruct H as [H _]. apply nodupb_NoDup in H.
  apply (NoDup_app_disj _ _ s H Hin). rewrite in_app_iff. right. exact Hs.
Qed.
Lemma in_reserved_not_tstage u s : u_names_ok u = true -> In s reserved -> ~ In s (u_tstages u).
Proof.
  intros H Hs Hin. unfold u_names_ok in H. apply andb_true_iff in H. destruct H as [H _].
  apply andb_true_iff in H. destruct H as [H _]. apply nodupb_NoDup in H.
  apply NoDup_app_r in H. apply (NoDup_app_disj _ _ s H Hin Hs).
Qed.
Lemma names_ok_edges_NoDup u : u_names_ok u = true -> NoDup (u_edge_names u).
Proof.
  intros H. unfold u_names_ok in H. apply andb_true_iff in H. destruct H as [H _].
  apply andb_true_iff in H. destruct H as [H _]. apply nodupb_NoDup in H. apply (NoDup_app_l _ _ H).
Qed.
Lemma names_ok_tstages_NoDup u : u_names_ok u = true -> NoDup (u_tstages u).
Proof.
  intros H. unfold u_names_ok in H. apply andb_true_iff in H. destruct H as [H _].
  apply andb_true_iff in H. destruct H as [H _]. apply nodupb_NoDup in H. apply NoDup_app_r in H. apply (NoDup_app_l _ _ H).
Qed.
Lemma names_ok_edge_not_tstage u s : u_names_ok u = true -> In s (u_edge_names u) -> ~ In s (u_tstages u).
Proof.
  intros H Hin Hin'. unfold u_names_ok in H. apply andb_true_iff in H. destruct H as [H _].
  apply andb_true_iff in H. destruct H as [H _]. apply nodupb_NoDup in H.
  apply (NoDup_app_disj _ _ s H Hin). rewrite in_app_iff. left. exact Hin'.
Qed.
Lemma names_ok_dist_keys u : u_names_ok u = true -> dist_keys_ok (u_dists u) = true.
Proof. intros H. unfold u_names_ok in H. apply andb_true_iff in H. destruct H as [H _]. apply andb_true_iff in H. apply H. Qed.
Lemma names_ok_kw_not_tstage u k : u_names_ok u = true -> In k (dist_kw_names (u_dists u)) -> ~ In k (u_tstages u).
Proof.
  intros H Hin. unfold u_names_ok in H. apply andb_true_iff in H. destruct H as [_ H].
  rewrite forallb_forall in H. specialize (H k Hin). apply negb_true_iff in H. apply mem_false. exact H.
Qed.

Lemma filter_names_NoDup (sel : edge -> bool) es : NoDup (map e_name es) -> NoDup (map e_name (filter sel es)).
Proof. intros H. apply (NoDup_app_l _ _ (NoDup_map_filter_split e_name sel es H)). Qed.
Lemma in_filter_names (sel : edge -> bool) es s : In s (map e_name (filter sel es)) -> In s (map e_name es).
Proof. intros H. apply in_map_iff in H. destruct H as (e & <- & Hin). apply filter_In in Hin. apply in_map, Hin. Qed.

(** * get_params of a unilateral model is the documented list *)
Lemma u_tumor_flat u : u_names_ok u = true ->
  u_get_tumor_spread_params u true = leaves (u_tumor_items u).
Proof.
  intros H. unfold u_get_tumor_spread_params, u_tumor_items, tumor_edges. rewrite sel_params_filter.
  apply edges_get_params_flat, filter_names_NoDup, names_ok_edges_NoDup, H.
Qed.
Lemma u_lnl_flat u : u_names_ok u = true ->
  u_get_lnl_spread_params u true = leaves (u_lnl_items u).
Proof.
  intros H. unfold u_get_lnl_spread_params, u_lnl_items, lnl_edges. rewrite sel_params_filter.
  apply edges_get_params_flat, filter_names_NoDup, names_ok_edges_NoDup, H.
Qed.
Lemma u_dist_flat u : u_names_ok u = true -> u_get_distribution_params u true = leaves (u_dist_items u).
Proof.
  intros H. apply dists_get_params_flat; [apply names_ok_tstages_NoDup, H | apply names_ok_dist_keys, H].
Qed.





Lemma u_tumor_keys_NoDup u : u_names_ok u = true -> NoDup (map fst (u_tumor_items u)).
Proof.
  intros H. unfold u_tumor_items. rewrite sel_params_filter.
  apply edges_flat_keys_NoDup, filter_names_NoDup, names_ok_edges_NoDup, H.
Qed.
Lemma u_lnl_keys_NoDup u : u_names_ok u = true -> NoDup (map fst (u_lnl_items u)).
Proof.
  intros H. unfold u_lnl_items. rewrite sel_params_filter.
  apply edges_flat_keys_NoDup, filter_names_NoDup, names_ok_edges_NoDup, H.
Qed.
Lemma u_dist_keys_NoDup u : u_names_ok u = true -> NoDup (map fst (u_dist_items u)).
Proof. intros H. apply dists_items_keys_NoDup; [apply names_ok_tstages_NoDup, H | apply names_ok_dist_keys, H]. Qed.

Lemma u_spread_keys_NoDup u : u_names_ok u = true -> NoDup (map fst (u_tumor_items u ++ u_lnl_items u)).
Proof.
  intros H. unfold u_tumor_items, u_lnl_items. rewrite !sel_params_filter, <- flat_map_app.
  apply edges_flat_keys_NoDup. rewrite map_app. apply NoDup_map_filter_split, names_ok_edges_NoDup, H.
Qed.
Lemma u_tumor_lnl_disjoint u k : u_names_ok u = true -> In k (map fst (u_lnl_items u)) -> ~ In k (map fst (u_tumor_items u)).
Proof.
  intros H H2 H1. pose proof (u_spread_keys_NoDup u H) as Hnd. rewrite map_app in Hnd.
  exact (NoDup_app_disj _ _ k Hnd H1 H2).
Qed.
Lemma u_spread_key_head u k : In k (map fst (u_tumor_items u ++ u_lnl_items u)) ->
  exists n s, k = [n; s] /\ In n (u_edge_names u) /\ In s ["spread"; "growth"; "micro"].
Proof.
  rewrite map_app, in_app_iff. intros [H|H]; apply sel_params_heads in H; destruct H as (e & s & Hin & _ & -> & Hs);
    exists (e_name e), s; repeat split; try assumption; apply in_map, Hin.
Qed.
Lemma u_names_NoDup u : u_names_ok u = true -> NoDup (u_names u).
Proof.
  intros H. unfold u_names, u_items. rewrite app_assoc, map_app. apply NoDup_app_intro.
  - apply u_spread_keys_NoDup, H.
  - apply u_dist_keys_NoDup, H.
  - intros k Hk Hk'. apply u_spread_key_head in Hk. destruct Hk as (n & s & -> & Hn & _).
    apply dists_items_heads in Hk'. destruct Hk' as (t & s' & Ht & Heq & _). injection Heq as -> _.
    exact (names_ok_edge_not_tstage u _ H Hn Ht).
Qed.

Lemma u_spread_flat u : u_names_ok u = true ->
  u_get_spread_params u true = leaves (u_tumor_items u ++ u_lnl_items u).
Proof.
  intros H. unfold u_get_spread_params, maybe_flatten. rewrite (u_tumor_flat u H), (u_lnl_flat u H), kw_update_leaves.
  rewrite kw_update_fresh; [| apply u_lnl_keys_NoDup, H | intros k; apply u_tumor_lnl_disjoint, H].
  apply flatten_leaves, u_spread_keys_NoDup, H.
Qed.
Lemma u_got_spec u : u_names_ok u = true -> u_got u = u_items u.
Proof.
  intros H. unfold u_got, u_get_params, maybe_flatten. rewrite (u_spread_flat u H), (u_dist_flat u H), kw_update_leaves.
  pose proof (u_names_NoDup u H) as Hnd. unfold u_names, u_items in Hnd. rewrite app_assoc, map_app in Hnd.
  rewrite kw_update_fresh; [| apply u_dist_keys_NoDup, H | intros k Hk Hk'; exact (NoDup_app_disj _ _ k Hnd Hk' Hk)].
  rewrite flatten_leaves by (rewrite map_app; exact Hnd). rewrite items_leaves. unfold u_items. rewrite app_assoc. reflexivity.
Qed.

Theorem uni_names_nodup : C10_uni_names_nodup_stmt.
Proof. intros u H. split; [apply u_got_spec, H | apply u_names_NoDup, H]. Qed.

(** nested form *)
Lemma u_nested_spec u : u_names_ok u = true ->
  u_get_params u false = edges_nested (u_tri u) (tumor_edges (u_graph u)) ++ edges_nested (u_tri u) (lnl_edges (u_graph u))
                         ++ dists_nested (u_dists u).
Proof.
  intros H. unfold u_get_params, u_get_spread_params, u_get_tumor_spread_params, u_get_lnl_spread_params,
    u_get_distribution_params, maybe_flatten.
  pose proof (names_ok_edges_NoDup u H) as Hen.
  pose proof (NoDup_map_filter_split e_name is_tumor_spread (u_edges u) Hen) as Hsplit.
  rewrite !edges_get_params_nested by (apply filter_names_NoDup; exact Hen).
  rewrite dists_get_params_nested by (apply names_ok_tstages_NoDup, H).
  assert (Hk : forall es, map fst (edges_nested (u_tri u) es) = map (fun n => [n]) (map e_name es)).
  { intros es. unfold edges_nested. rewrite !map_map. reflexivity. }
  assert (Hkd : forall k, In k (map fst (dists_nested (u_dists u))) -> exists t, k = [t] /\ In t (u_tstages u)).
  { intros k Hk'. unfold dists_nested in Hk'. rewrite map_flat_map' in Hk'. apply in_flat_map in Hk'.
    destruct Hk' as (td & Htd & Hk'). destruct (snd td); [destruct Hk'|]. destruct Hk' as [<-|[]].
    exists (fst td). split; [reflexivity | apply in_map, Htd]. }
  rewrite (kw_update_fresh (edges_nested _ (lnl_edges _))).
  - rewrite kw_update_fresh; [rewrite <- app_assoc; reflexivity | |].
    + unfold dists_nested. clear Hkd.
      pose proof (names_ok_tstages_NoDup u H) as Ht. unfold u_tstages in Ht.
      induction (u_dists u) as [|[t d] r IH]; [constructor|]. cbn [flat_map map fst snd] in *. inversion Ht; subst.
      destruct d; cbn [app map fst]; [apply IH; assumption|]. constructor; [|apply IH; assumption].
      intros Hin. rewrite map_flat_map' in Hin. apply in_flat_map in Hin. destruct Hin as (td & Htd & Hin).
      destruct (snd td); [destruct Hin|]. destruct Hin as [Heq|[]]. injection Heq as Heq.
      match goal with Hn : ~ In t _ |- _ => apply Hn end. rewrite <- Heq. apply in_map, Htd.
    + intros k Hk1 Hk2. destruct (Hkd k Hk1) as (t & -> & Ht). rewrite map_app, !Hk, in_app_iff in Hk2.
      assert (Hin : In t (u_edge_names u)).
      { destruct Hk2 as [Hk2|Hk2]; apply in_map_iff in Hk2; destruct Hk2 as (n & [= ->] & Hn); eapply in_filter_names; exact Hn. }
      exact (names_ok_edge_not_tstage u t H Hin Ht).
  - rewrite Hk. apply NoDup_map_inj; [intros x y [= Hxy]; exact Hxy|]. apply (NoDup_app_r _ _ Hsplit).
  - intros k. rewrite !Hk. intros Hk1 Hk2. apply in_map_iff in Hk1. destruct Hk1 as (n & <- & Hn).
    apply in_map_iff in Hk2. destruct Hk2 as (n' & [= ->] & Hn').
    exact (NoDup_app_disj _ _ n Hsplit Hn' Hn).
Qed.

Theorem uni_nested_flattens_to_flat : C10_uni_nested_flattens_to_flat_stmt.
Proof.
  intros u H. rewrite (u_nested_spec u H), (u_got_spec u H), !flat_items_dict_app, !flat_items_edges_nested, flat_items_dists_nested.
  unfold u_items, u_tumor_items, u_lnl_items, u_dist_items, tumor_edges, lnl_edges. rewrite !sel_params_filter. reflexivity.
Qed.

(** * set_params of a unilateral model *)
Definition lk_of (X : list string) (kw : kwargs) (k : path) : option val :=
  match k with [] => None | n :: t => eff X kw n t end.

Lemma lk_of_u_lk X kw n s : ~ In s X -> lk_of X kw [n; s] = u_lk kw [n; s].
Proof.
  intros H. unfold lk_of, u_lk, eff. destruct (kw_last [n; s] kw); [reflexivity|].
  unfold head_of. cbn [partition_key fst]. apply mem_false in H. rewrite H. reflexivity.
Qed.

Section GraphSet.
  Variables (sel : edge -> bool) (g : graph) (kw : kwargs).
  Let es := g_edges g.
  Let X := map e_name (filter sel es).
  Hypothesis HX : forall s, In s reserved -> ~ In s X.

  Lemma graph_lookup split glob :
    unflatten_and_split kw X = (split, glob) ->
    forall e t, In e es -> sel e = true -> kw_get t (obj_kwargs (e_name e) split glob) = lk_of X kw (e_name e :: t).
  Proof.
    intros Hu e t Hin Hs. apply (obj_kwargs_lookup kw X); [apply HX; cbn; tauto | exact Hu |].
    apply in_map, filter_In. split; assumption.
  Qed.
  Lemma graph_plan_lk a : plan (lk_of X kw) (sel_params (g_tri g) sel es) a = plan (u_lk kw) (sel_params (g_tri g) sel es) a.
  Proof.
    apply plan_ext. intros k Hk. apply sel_params_heads in Hk. destruct Hk as (e & s & _ & _ & -> & Hs).
    apply lk_of_u_lk. apply HX. cbn in Hs. cbn. intuition.
  Qed.
  Lemma graph_set_sel_ok a qs :
    all_unit (plan (u_lk kw) (sel_params (g_tri g) sel es) a) = Some qs ->
    graph_set_params_sel sel g a kw
    = (with_edges g (edges_put (g_tri g) sel es qs), Some (skipn (length (sel_params (g_tri g) sel es)) a)).
  Proof.
    intros H. unfold graph_set_params_sel. fold es. fold X. destruct (unflatten_and_split kw X) as [split glob] eqn:Hu.
    rewrite (set_edges_for_ok (g_tri g) sel split glob (lk_of X kw) es a qs); [reflexivity | apply graph_lookup, Hu |].
    rewrite graph_plan_lk. exact H.
  Qed.
  Lemma graph_set_sel_fail a :
    all_unit (plan (u_lk kw) (sel_params (g_tri g) sel es) a) = None ->
    snd (graph_set_params_sel sel g a kw) = None.
  Proof.
    intros H. unfold graph_set_params_sel. fold es. fold X. destruct (unflatten_and_split kw X) as [split glob] eqn:Hu.
    pose proof (set_edges_for_fail (g_tri g) sel split glob (lk_of X kw) es a (graph_lookup split glob Hu)) as Hf.
    rewrite graph_plan_lk in Hf. specialize (Hf H).
    destruct (set_edges_for (g_tri g) sel split glob es a) as [es' o]. cbn [snd] in *. exact Hf.
  Qed.
End GraphSet.

Section DistSet.
  Variables (u : uni) (kw : kwargs).
  Hypothesis Hok : u_names_ok u = true.
  Let X := map fst (u_dists u).

  Lemma dist_plan_lk a : plan (lk_of X kw) (u_dist_items u) a = plan (u_lk kw) (u_dist_items u) a.
  Proof.
    apply plan_ext. intros k Hk. apply dists_items_heads in Hk. destruct Hk as (t & s & _ & -> & Hs).
    apply lk_of_u_lk. apply (names_ok_kw_not_tstage u s Hok Hs).
  Qed.
  Lemma u_set_dist_spec a :
    match dists_put (u_maxt u) (u_dists u) (plan (u_lk kw) (u_dist_items u) a) with
    | Some ds' => u_set_distribution_params u a kw = (u_with_dists u ds', Some (skipn (length (u_dist_items u)) a))
    | None => snd (u_set_distribution_params u a kw) = None
    end.
  Proof.
    unfold u_set_distribution_params. fold X. destruct (unflatten_and_split kw X) as [split glob] eqn:Hu.
    pose proof (set_dists_for_spec (u_maxt u) split glob (lk_of X kw) (u_dists u) a) as Hs.
    rewrite <- dist_plan_lk. unfold u_dist_items in *.
    assert (Hlk : forall td t, In td (u_dists u) -> kw_get t (obj_kwargs (fst td) split glob) = lk_of X kw (fst td :: t)).
    { intros td t Hin. apply (obj_kwargs_lookup kw X); [apply (in_reserved_not_tstage u "" Hok); cbn; tauto | exact Hu | apply in_map, Hin]. }
    specialize (Hs Hlk). destruct (dists_put _ _ _) as [ds'|].
    - rewrite Hs. reflexivity.
    - destruct (set_dists_for _ _ _ _ _) as [ds' o]. cbn [snd] in *. exact Hs.
  Qed.
End DistSet.

(** the object after a successful call *)
Definition u_put (u : uni) (qT qL : list Qc) (ds' : list (string * dist)) : uni :=
  u_with_dists
    (u_with_graph u (with_edges (u_graph u)
       (edges_put (u_tri u) sel_lnl (edges_put (u_tri u) is_tumor_spread (u_edges u) qT) qL))) ds'.

Lemma reserved_not_filter u sel s : u_names_ok u = true -> In s reserved -> ~ In s (map e_name (filter sel (u_edges u))).
Proof. intros H Hs Hin. apply (in_reserved_not_edge u s H Hs). eapply in_filter_names. exact Hin. Qed.

Lemma tumor_not_lnl e : is_tumor_spread e = true -> sel_lnl e = false.
Proof. unfold sel_lnl. intros ->. reflexivity. Qed.
Lemma lnl_not_tumor e : sel_lnl e = true -> is_tumor_spread e = false.
Proof. unfold sel_lnl. destruct (is_tumor_spread e); [discriminate | reflexivity]. Qed.

Lemma u_new_split u a kw :
  u_new u a kw = plan (u_lk kw) (u_tumor_items u) a
                 ++ plan (u_lk kw) (u_lnl_items u) (skipn (length (u_tumor_items u)) a)
                 ++ plan (u_lk kw) (u_dist_items u) (skipn (u_num_spread u) a).
Proof.
  unfold u_new, u_items, u_num_spread. rewrite !plan_app, skipn_skipn, app_length. reflexivity.
Qed.

Lemma g_tri_with_edges g es : g_tri (with_edges g es) = g_tri g.
Proof. reflexivity. Qed.
Lemma g_edges_with_edges g es : g_edges (with_edges g es) = es.
Proof. reflexivity. Qed.

Lemma u_set_spread_ok u a kw qT qL : u_names_ok u = true ->
  all_unit (plan (u_lk kw) (u_tumor_items u) a) = Some qT ->
  all_unit (plan (u_lk kw) (u_lnl_items u) (skipn (length (u_tumor_items u)) a)) = Some qL ->
  u_set_spread_params u a kw = (u_put u qT qL (u_dists u), Some (skipn (u_num_spread u) a)).
Proof.
  intros H HT HL. unfold u_set_spread_params, u_set_tumor_spread_params, u_set_lnl_spread_params, lift_graph.
  rewrite (graph_set_sel_ok is_tumor_spread (u_graph u) kw (fun s => reserved_not_filter u _ s H) a qT HT).
  cbn [fst snd andthen u_with_graph u_graph].
  assert (Htri : g_tri (with_edges (u_graph u) (edges_put (g_tri (u_graph u)) is_tumor_spread (g_edges (u_graph u)) qT)) = u_tri u) by reflexivity.
  pose proof (sel_params_put_other (u_tri u) is_tumor_spread sel_lnl (u_edges u) kind_sel_lnl tumor_not_lnl qT) as Hsame.
  erewrite graph_set_sel_ok with (qs := qL).
  - cbn [fst snd with_edges g_edges g_base g_nodes]. unfold u_put, u_with_dists, u_with_graph, with_edges, u_num_spread.
    cbn [u_graph u_mods u_dists u_maxt g_base g_nodes g_edges]. fold (u_tri u). fold (u_edges u).
    change (g_tri {| g_base := g_base (u_graph u); g_nodes := g_nodes (u_graph u);
                     g_edges := edges_put (u_tri u) is_tumor_spread (u_edges u) qT |}) with (u_tri u).
    rewrite Hsame, skipn_skipn, app_length. destruct u; reflexivity.
  - intros s Hs. rewrite g_edges_with_edges. fold (u_tri u) (u_edges u).
    rewrite (edges_put_filter_other (u_tri u) is_tumor_spread sel_lnl (u_edges u) kind_sel_lnl tumor_not_lnl).
    apply reserved_not_filter; assumption.
  - rewrite g_tri_with_edges, g_edges_with_edges. fold (u_tri u) (u_edges u). rewrite Hsame. exact HL.
Qed.

Lemma u_set_spread_fail u a kw : u_names_ok u = true ->
  all_unit (plan (u_lk kw) (u_tumor_items u ++ u_lnl_items u) a) = None ->
  snd (u_set_spread_params u a kw) = None.
Proof.
  intros H Hall. rewrite plan_app, all_unit_app in Hall.
  unfold u_set_spread_params, u_set_tumor_spread_params, u_set_lnl_spread_params, lift_graph.
  destruct (all_unit (plan (u_lk kw) (u_tumor_items u) a)) as [qT|] eqn:HT.
  - rewrite (graph_set_sel_ok is_tumor_spread (u_graph u) kw (fun s => reserved_not_filter u _ s H) a qT HT).
    cbn [fst snd andthen u_with_graph u_graph].
    destruct (all_unit (plan (u_lk kw) (u_lnl_items u) _)) eqn:HL; [discriminate|].
    pose proof (sel_params_put_other (u_tri u) is_tumor_spread sel_lnl (u_edges u) kind_sel_lnl tumor_not_lnl qT) as Hsame.
    cbn [snd]. apply graph_set_sel_fail.
    + intros s Hs. rewrite g_edges_with_edges. fold (u_tri u) (u_edges u).
      rewrite (edges_put_filter_other (u_tri u) is_tumor_spread sel_lnl (u_edges u) kind_sel_lnl tumor_not_lnl).
      apply reserved_not_filter; assumption.
    + rewrite g_tri_with_edges, g_edges_with_edges. fold (u_tri u) (u_edges u). rewrite Hsame. exact HL.
  - pose proof (graph_set_sel_fail is_tumor_spread (u_graph u) kw (fun s => reserved_not_filter u _ s H) a HT) as Hf.
    destruct (graph_set_params_sel is_tumor_spread (u_graph u) a kw) as [g' o]. cbn [snd fst] in *. subst o. reflexivity.
Qed.

Lemma u_put_dists u qT qL ds' : u_dists (u_put u qT qL ds') = ds'.
Proof. reflexivity. Qed.
Lemma u_put_maxt u qT qL ds' : u_maxt (u_put u qT qL ds') = u_maxt u.
Proof. reflexivity. Qed.
Lemma u_put_tri u qT qL ds' : u_tri (u_put u qT qL ds') = u_tri u.
Proof. reflexivity. Qed.
Lemma u_put_edges u qT qL ds' :
  u_edges (u_put u qT qL ds') = edges_put (u_tri u) sel_lnl (edges_put (u_tri u) is_tumor_spread (u_edges u) qT) qL.
Proof. reflexivity. Qed.
Lemma u_put_edge_names u qT qL ds' : u_edge_names (u_put u qT qL ds') = u_edge_names u.
Proof. unfold u_edge_names. rewrite u_put_edges, !edges_put_names. reflexivity. Qed.

Lemma u_put_with_dists u qT qL ds ds' : u_with_dists (u_put u qT qL ds) ds' = u_put u qT qL ds'.
Proof. reflexivity. Qed.
Lemma u_put_items_dist u qT qL ds' : u_dist_items (u_put u qT qL ds') = dists_items ds'.
Proof. reflexivity. Qed.
Lemma u_put_tumor_items u qT qL ds' : length qT = length (u_tumor_items u) ->
  u_tumor_items (u_put u qT qL ds') = combine (map fst (u_tumor_items u)) qT.
Proof.
  intros Hl. unfold u_tumor_items. rewrite u_put_tri, u_put_edges.
  rewrite (sel_params_put_other (u_tri u) sel_lnl is_tumor_spread _ kind_sel_tumor lnl_not_tumor).
  apply sel_params_put; [apply kind_sel_tumor | exact Hl].
Qed.
Lemma u_put_lnl_items u qT qL ds' : length qL = length (u_lnl_items u) ->
  u_lnl_items (u_put u qT qL ds') = combine (map fst (u_lnl_items u)) qL.
Proof.
  intros Hl. unfold u_lnl_items. rewrite u_put_tri, u_put_edges.
  pose proof (sel_params_put_other (u_tri u) is_tumor_spread sel_lnl (u_edges u) kind_sel_lnl tumor_not_lnl qT) as Hsame.
  rewrite sel_params_put; [rewrite Hsame; reflexivity | apply kind_sel_lnl | rewrite Hsame; exact Hl].
Qed.

(** the main lemma: success *)
Lemma u_set_params_ok u a kw qT qL ds' : u_names_ok u = true ->
  all_unit (plan (u_lk kw) (u_tumor_items u) a) = Some qT ->
  all_unit (plan (u_lk kw) (u_lnl_items u) (skipn (length (u_tumor_items u)) a)) = Some qL ->
  dists_put (u_maxt u) (u_dists u) (plan (u_lk kw) (u_dist_items u) (skipn (u_num_spread u) a)) = Some ds' ->
  u_set_params u a kw = (u_put u qT qL ds', Some (skipn (length (u_items u)) a)).
Proof.
  intros H HT HL HD. unfold u_set_params. rewrite (u_set_spread_ok u a kw qT qL H HT HL). cbn [andthen].
  assert (Hok' : u_names_ok (u_put u qT qL (u_dists u)) = true).
  { unfold u_names_ok in *. rewrite u_put_edge_names. exact H. }
  pose proof (u_set_dist_spec (u_put u qT qL (u_dists u)) kw Hok' (skipn (u_num_spread u) a)) as Hs.
  rewrite u_put_maxt, u_put_dists, u_put_items_dist in Hs. fold (u_dist_items u) in Hs. rewrite HD in Hs.
  rewrite Hs, u_put_with_dists, skipn_skipn. unfold u_items, u_num_spread. rewrite !app_length. do 2 f_equal. f_equal. lia.
Qed.
(** the main lemma: failure *)
Lemma u_set_params_fail u a kw : u_names_ok u = true ->
  u_accepts u (u_new u a kw) = false -> snd (u_set_params u a kw) = None.
Proof.
  intros H Hacc. unfold u_accepts in Hacc. rewrite u_new_split in Hacc.
  rewrite app_assoc in Hacc.
  assert (Hlen : length (plan (u_lk kw) (u_tumor_items u) a ++ plan (u_lk kw) (u_lnl_items u) (skipn (length (u_tumor_items u)) a))
                 = u_num_spread u) by (unfold u_num_spread; rewrite !app_length, !plan_length; reflexivity).
  rewrite firstn_app_len, skipn_app_len in Hacc by exact Hlen.
  unfold u_set_params.
  destruct (all_unit (plan (u_lk kw) (u_tumor_items u) a ++ _)) as [qs|] eqn:Hall.
  - rewrite all_unit_app in Hall.
    destruct (all_unit (plan (u_lk kw) (u_tumor_items u) a)) as [qT|] eqn:HT; [|discriminate].
    destruct (all_unit (plan (u_lk kw) (u_lnl_items u) _)) as [qL|] eqn:HL; [|discriminate].
    rewrite (u_set_spread_ok u a kw qT qL H HT HL). cbn [andthen is_some andb] in *.
    assert (Hok' : u_names_ok (u_put u qT qL (u_dists u)) = true).
    { unfold u_names_ok in *. rewrite u_put_edge_names. exact H. }
    pose proof (u_set_dist_spec (u_put u qT qL (u_dists u)) kw Hok' (skipn (u_num_spread u) a)) as Hs.
    rewrite u_put_maxt, u_put_dists, u_put_items_dist in Hs. fold (u_dist_items u) in Hs.
    destruct (dists_put _ _ _); [discriminate | exact Hs].
  - rewrite <- plan_app in Hall. pose proof (u_set_spread_fail u a kw H Hall) as Hf.
    destruct (u_set_spread_params u a kw) as [u' o]. cbn [snd] in Hf. subst o. reflexivity.
Qed.

Lemma vals_app l1 l2 : vals (l1 ++ l2) = vals l1 ++ vals l2.
Proof. apply map_app. Qed.
Lemma vals_length l : length (vals l) = length l.
Proof. apply map_length. Qed.
Lemma vals_inj l1 l2 : vals l1 = vals l2 -> l1 = l2.
Proof. revert l2. induction l1 as [|a l1 IH]; intros [|b l2] H; cbn in H; try discriminate; [reflexivity|]. injection H as -> H. f_equal. apply IH, H. Qed.

(** decomposition of an accepted call *)
Lemma u_accepts_inv u a kw : u_accepts u (u_new u a kw) = true ->
  exists qT qL ds',
    all_unit (plan (u_lk kw) (u_tumor_items u) a) = Some qT /\
    all_unit (plan (u_lk kw) (u_lnl_items u) (skipn (length (u_tumor_items u)) a)) = Some qL /\
    dists_put (u_maxt u) (u_dists u) (plan (u_lk kw) (u_dist_items u) (skipn (u_num_spread u) a)) = Some ds'.
Proof.
  intros Hacc. unfold u_accepts in Hacc. rewrite u_new_split, app_assoc in Hacc.
  assert (Hlen : length (plan (u_lk kw) (u_tumor_items u) a ++ plan (u_lk kw) (u_lnl_items u) (skipn (length (u_tumor_items u)) a))
                 = u_num_spread u) by (unfold u_num_spread; rewrite !app_length, !plan_length; reflexivity).
  rewrite firstn_app_len, skipn_app_len in Hacc by exact Hlen. rewrite all_unit_app in Hacc.
  destruct (all_unit (plan (u_lk kw) (u_tumor_items u) a)) as [qT|]; [|discriminate].
  destruct (all_unit (plan (u_lk kw) (u_lnl_items u) _)) as [qL|]; [|discriminate].
  destruct (dists_put _ _ _) as [ds'|]; [|discriminate]. exists qT, qL, ds'. repeat split.
Qed.

Lemma u_put_names_ok u qT qL ds' new : u_names_ok u = true ->
  dists_put (u_maxt u) (u_dists u) new = Some ds' -> length new = length (u_dist_items u) ->
  u_names_ok (u_put u qT qL ds') = true.
Proof.
  intros H HD Hl. destruct (dists_put_spec _ _ _ _ HD Hl) as (qD & _ & _ & Hn).
  destruct (dists_put_shape _ _ _ _ HD Hl) as (Hk & Hko & _).
  unfold u_names_ok in *. rewrite u_put_edge_names. unfold u_tstages in *. rewrite u_put_dists, Hn, Hk, Hko. exact H.
Qed.

Lemma u_set_params_struct u a kw : u_names_ok u = true -> u_accepts u (u_new u a kw) = true ->
  exists qT qL qD ds',
    u_set_params u a kw = (u_put u qT qL ds', Some (skipn (length (u_items u)) a)) /\
    u_new u a kw = vals (qT ++ qL ++ qD) /\
    length qT = length (u_tumor_items u) /\ length qL = length (u_lnl_items u) /\
    dists_put (u_maxt u) (u_dists u) (vals qD) = Some ds' /\ length qD = length (u_dist_items u) /\
    forallb in_unit (qT ++ qL) = true /\
    u_items (u_put u qT qL ds') = combine (u_names u) (qT ++ qL ++ qD) /\
    u_names_ok (u_put u qT qL ds') = true.
Proof.
  intros H Hacc. destruct (u_accepts_inv u a kw Hacc) as (qT & qL & ds' & HT & HL & HD).
  pose proof (all_unit_length _ _ HT) as HlT. pose proof (all_unit_length _ _ HL) as HlL. rewrite plan_length in HlT, HlL.
  destruct (all_unit_Some_vals _ _ HT) as [ET HuT]. destruct (all_unit_Some_vals _ _ HL) as [EL HuL].
  assert (HlD : length (plan (u_lk kw) (u_dist_items u) (skipn (u_num_spread u) a)) = length (u_dist_items u)) by apply plan_length.
  destruct (dists_put_spec _ _ _ _ HD HlD) as (qD & HuD & HiD & HnD). apply unwrap_Some in HuD.
  exists qT, qL, qD, ds'.
  assert (HlqD : length qD = length (u_dist_items u)) by (rewrite <- HlD, HuD, vals_length; reflexivity).
  split; [apply u_set_params_ok; assumption|].
  split; [rewrite u_new_split, ET, EL, HuD, !vals_app; reflexivity|].
  split; [exact HlT|]. split; [exact HlL|]. split; [rewrite <- HuD; exact HD|]. split; [exact HlqD|].
  split; [rewrite forallb_app, HuT, HuL; reflexivity|].
  split.
  - unfold u_items at 1. rewrite (u_put_tumor_items u qT qL ds' HlT), (u_put_lnl_items u qT qL ds' HlL), u_put_items_dist, HiD.
    unfold u_names, u_items. rewrite !map_app.
    rewrite combine_app by (rewrite map_length; lia). rewrite combine_app by (rewrite map_length; lia). reflexivity.
  - apply (u_put_names_ok u qT qL ds' _ H HD HlD).
Qed.

Theorem uni_set_spec : C10_uni_set_spec_stmt.
Proof.
  intros u a kw H r. destruct (u_accepts u (u_new u a kw)) eqn:Hacc; [|apply u_set_params_fail; assumption].
  destruct (u_set_params_struct u a kw H Hacc) as (qT & qL & qD & ds' & Hr & Hnew & HlT & HlL & HD & HlD & Hunit & Hitems & Hok').
  exists (qT ++ qL ++ qD). subst r. rewrite Hr. cbn [fst snd].
  split; [exact Hnew|]. split; [reflexivity|]. split; [rewrite (u_got_spec _ Hok'); exact Hitems|]. split; [exact Hok'|].
  intros Hv. unfold u_vals_ok in *. apply andb_true_iff in Hv. destruct Hv as [Hve Hvd]. apply andb_true_iff. split.
  - rewrite u_put_edges. rewrite forallb_app in Hunit. apply andb_true_iff in Hunit. destruct Hunit as [HuT HuL].
    apply (edges_put_vals_ok (u_tri u) sel_lnl); [|exact HuL]. apply (edges_put_vals_ok (u_tri u) is_tumor_spread); [exact Hve | exact HuT].
  - rewrite u_put_dists, u_put_maxt.
    assert (Hl : length (vals qD) = length (dists_items (u_dists u))) by (rewrite vals_length; exact HlD).
    destruct (dists_put_shape _ _ _ _ HD Hl) as (_ & _ & Hval). exact Hval.
Qed.

(** * Corollaries for the unilateral model *)
Lemma u_names_nonempty u k : In k (u_names u) -> exists o t, k = o :: t.
Proof.
  unfold u_names, u_items. rewrite app_assoc, map_app, in_app_iff. intros [H|H].
  - apply u_spread_key_head in H. destruct H as (n & s & -> & _). eauto.
  - apply dists_items_heads in H. destruct H as (t & s & _ & -> & _). eauto.
Qed.
Lemma u_lk_nil k : u_lk [] k = None.
Proof. destruct k; reflexivity. Qed.
Lemma u_not_raise_accepts u a kw : u_names_ok u = true -> snd (u_set_params u a kw) <> None -> u_accepts u (u_new u a kw) = true.
Proof. intros H Hr. destruct (u_accepts u (u_new u a kw)) eqn:E; [reflexivity|]. exfalso. apply Hr, u_set_params_fail; assumption. Qed.

Lemma u_result_of_new u a kw v : u_names_ok u = true -> length v = length (u_items u) ->
  u_new u a kw = vals v -> snd (u_set_params u a kw) <> None ->
  snd (u_set_params u a kw) = Some (skipn (length (u_items u)) a)
  /\ map snd (u_got (fst (u_set_params u a kw))) = v /\ map fst (u_got (fst (u_set_params u a kw))) = u_names u.
Proof.
  intros H Hl Hnew Hr. pose proof (uni_set_spec u a kw H) as Hs. cbv zeta in Hs.
  rewrite (u_not_raise_accepts u a kw H Hr) in Hs. destruct Hs as (qs & Hq & Hsnd & Hgot & _).
  rewrite Hnew in Hq. apply vals_inj in Hq. subst qs. split; [exact Hsnd|]. rewrite Hgot.
  unfold u_names. rewrite map_snd_combine, map_fst_combine by (rewrite map_length; lia). split; reflexivity.
Qed.

Theorem uni_set_get_positional : C10_uni_set_get_positional_stmt.
Proof.
  intros u v rest H Hl r Hr. subst r.
  assert (Hnew : u_new u (vals v ++ rest) [] = vals v).
  { unfold u_new. apply plan_no_kw; [intros; apply u_lk_nil | exact Hl]. }
  destruct (u_result_of_new u _ _ v H Hl Hnew Hr) as (H1 & H2 & H3). split; [|split; assumption].
  rewrite H1. f_equal. apply skipn_app_len. rewrite vals_length. exact Hl.
Qed.

Lemma u_lk_kw_of u v k x : u_names_ok u = true -> length v = length (u_items u) ->
  In (k, x) (combine (u_names u) (vals v)) -> u_lk (kw_of (u_names u) v) k = Some x.
Proof.
  intros H Hl Hin. assert (Hk : In k (u_names u)) by (apply in_combine_l in Hin; exact Hin).
  destruct (u_names_nonempty u k Hk) as (o & t & ->). unfold u_lk, kw_of.
  rewrite kw_last_NoDup by (rewrite map_fst_combine; [apply u_names_NoDup, H | unfold u_names; rewrite vals_length, map_length; lia]).
  rewrite (kw_get_NoDup_In _ x); [reflexivity | | exact Hin].
  rewrite map_fst_combine; [apply u_names_NoDup, H | unfold u_names; rewrite vals_length, map_length; lia].
Qed.

Theorem uni_set_get_keyword : C10_uni_set_get_keyword_stmt.
Proof.
  intros u v H Hl r Hr. subst r.
  assert (Hnew : u_new u [] (kw_of (u_names u) v) = vals v).
  { unfold u_new. apply plan_all_kw; [rewrite vals_length; exact Hl|]. intros k x Hin. apply u_lk_kw_of; assumption. }
  destruct (u_result_of_new u _ _ v H Hl Hnew Hr) as (H1 & H2 & H3). split; [|split; assumption].
  rewrite H1. destruct (length (u_items u)); reflexivity.
Qed.

Theorem uni_keyword_over_positional : C10_uni_keyword_over_positional_stmt.
Proof.
  intros u a kw k q H Hk Hlast r Hr. subst r. pose proof (uni_set_spec u a kw H) as Hs. cbv zeta in Hs.
  rewrite (u_not_raise_accepts u a kw H Hr) in Hs. destruct Hs as (qs & Hq & _ & Hgot & _). rewrite Hgot.
  destruct (u_names_nonempty u k Hk) as (o & t & ->).
  assert (Hlk : u_lk kw (o :: t) = Some (V q)) by (unfold u_lk; rewrite Hlast; reflexivity).
  apply kw_get_NoDup_In.
  - rewrite map_fst_combine; [apply u_names_NoDup, H|]. unfold u_names. rewrite map_length.
    apply (f_equal (@length _)) in Hq. unfold u_new in Hq. rewrite plan_length, vals_length in Hq. exact Hq.
  - apply (plan_In (u_lk kw) (u_items u) a qs _ q Hq Hk Hlk).
Qed.

Theorem uni_specific_over_global : C10_uni_specific_over_global_stmt.
Proof.
  intros u a kw o t q H Hk Hnone Hglob r Hr. subst r. pose proof (uni_set_spec u a kw H) as Hs. cbv zeta in Hs.
  rewrite (u_not_raise_accepts u a kw H Hr) in Hs. destruct Hs as (qs & Hq & _ & Hgot & _). rewrite Hgot.
  assert (Hlk : u_lk kw (o :: t) = Some (V q)) by (unfold u_lk; rewrite Hnone; exact Hglob).
  apply kw_get_NoDup_In.
  - rewrite map_fst_combine; [apply u_names_NoDup, H|]. unfold u_names. rewrite map_length.
    apply (f_equal (@length _)) in Hq. unfold u_new in Hq. rewrite plan_length, vals_length in Hq. exact Hq.
  - apply (plan_In (u_lk kw) (u_items u) a qs _ q Hq Hk Hlk).
Qed.

(** identity *)
Lemma sel_params_vals_unit tri sel es : forallb edge_vals_ok es = true ->
  forallb in_unit (map snd (sel_params tri sel es)) = true.
Proof.
  induction es as [|e r IH]; intros H; [reflexivity|]. cbn [forallb] in H. apply andb_true_iff in H. destruct H as [He Hr].
  rewrite sel_params_cons, map_app, forallb_app, (IH Hr), andb_true_r. destruct (sel e); [|reflexivity].
  rewrite pre_vals, edge_params_cases. unfold edge_vals_ok in He. apply andb_true_iff in He. destruct He as [H1 H2].
  destruct (is_growth e); [|destruct (has_micro tri e)]; cbn [map snd forallb]; rewrite ?H1, ?H2; reflexivity.
Qed.
Lemma combine_fst_snd {A B} (l : list (A * B)) : combine (map fst l) (map snd l) = l.
Proof. induction l as [|[a b] l IH]; [reflexivity|]. cbn. rewrite IH. reflexivity. Qed.
Lemma dists_put_own maxt ds : forallb (fun td => dist_valid maxt (snd td)) ds = true ->
  dists_put maxt ds (vals (map snd (dists_items ds))) = Some ds.
Proof.
  induction ds as [|[t d] r IH]; intros H; [reflexivity|]. cbn [forallb snd] in H. apply andb_true_iff in H. destruct H as [Hd Hr].
  cbn [dists_put dists_items flat_map fst snd]. fold (dists_items r). rewrite map_app, vals_app, pre_vals.
  rewrite firstn_app_len, skipn_app_len by (rewrite vals_length, map_length; reflexivity). rewrite (IH Hr).
  destruct d as [p|f kws]; [reflexivity|]. cbn [dist_put dist_local]. rewrite map_map. cbn [snd]. rewrite unwrap_vals, combine_fst_snd.
  cbn [dist_valid] in Hd. destruct (fam_weights f maxt kws); [reflexivity | discriminate].
Qed.
Lemma own_kwargs_lk u k x : u_names_ok u = true -> In (k, x) (u_items u) -> u_lk (own_kwargs (u_items u)) k = Some (V x).
Proof.
  intros H Hin. assert (Hk : In k (u_names u)) by (apply in_map_iff; exists (k, x); split; [reflexivity | exact Hin]).
  destruct (u_names_nonempty u k Hk) as (o & t & ->). unfold u_lk.
  assert (Hkeys : map fst (own_kwargs (u_items u)) = u_names u) by (unfold own_kwargs, u_names; rewrite map_map; reflexivity).
  rewrite kw_last_NoDup by (rewrite Hkeys; apply u_names_NoDup, H).
  rewrite (kw_get_NoDup_In _ (V x)); [reflexivity | rewrite Hkeys; apply u_names_NoDup, H |].
  unfold own_kwargs. apply in_map_iff. exists (o :: t, x). split; [reflexivity | exact Hin].
Qed.
Lemma plan_own lk ps : forall a, (forall k x, In (k, x) ps -> lk k = Some (V x)) -> plan lk ps a = vals (map snd ps).
Proof.
  induction ps as [|[k x] r IH]; intros a H; [reflexivity|]. cbn [plan map snd vals].
  rewrite (H k x) by (left; reflexivity). cbn [pick]. f_equal. apply IH. intros k' x' Hin. apply H. right. exact Hin.
Qed.

Theorem uni_set_own_params_is_identity : C10_uni_set_own_params_is_identity_stmt.
Proof.
  intros u Hwf. unfold u_wf in Hwf. apply andb_true_iff in Hwf. destruct Hwf as [H Hv]. rewrite (u_got_spec u H).
  unfold u_vals_ok in Hv. apply andb_true_iff in Hv. destruct Hv as [Hve Hvd].
  set (kw := own_kwargs (u_items u)).
  assert (Hin : forall part, (forall kx, In kx part -> In kx (u_items u)) -> forall a, plan (u_lk kw) part a = vals (map snd part)).
  { intros part Hsub a. apply plan_own. intros k x Hkx. apply own_kwargs_lk; [exact H | apply Hsub, Hkx]. }
  rewrite (u_set_params_ok u [] kw (map snd (u_tumor_items u)) (map snd (u_lnl_items u)) (u_dists u) H).
  - f_equal; [|destruct (length (u_items u)); reflexivity].
    unfold u_put, u_tumor_items, u_lnl_items. rewrite edges_put_own, edges_put_own.
    destruct u as [[b n es] m ds mt]. reflexivity.
  - rewrite Hin by (intros kx Hkx; unfold u_items; rewrite in_app_iff; left; exact Hkx).
    apply all_unit_vals, sel_params_vals_unit, Hve.
  - rewrite Hin by (intros kx Hkx; unfold u_items; rewrite !in_app_iff; right; left; exact Hkx).
    apply all_unit_vals, sel_params_vals_unit, Hve.
  - rewrite Hin by (intros kx Hkx; unfold u_items; rewrite !in_app_iff; right; right; exact Hkx).
    apply dists_put_own, Hvd.
Qed.

(** unknown names *)
Lemma kw_last_nil' {A} k : @kw_last A k [] = None.
Proof. reflexivity. Qed.
Lemma lk_of_nil X k : lk_of X [] k = None.
Proof. destruct k as [|n t]; [reflexivity|]. unfold lk_of, eff. rewrite !kw_last_nil'. destruct (mem (head_of t) X); reflexivity. Qed.

Lemma graph_set_unknown sel g a kw :
  (forall s, In s reserved -> ~ In s (map e_name (filter sel (g_edges g)))) ->
  (forall k, In k (map fst (sel_params (g_tri g) sel (g_edges g))) -> u_lk kw k = None) ->
  graph_set_params_sel sel g a kw = graph_set_params_sel sel g a [].
Proof.
  intros HX Hun. unfold graph_set_params_sel. set (X := map e_name (filter sel (g_edges g))).
  destruct (unflatten_and_split kw X) as [s1 g1] eqn:H1. destruct (unflatten_and_split [] X) as [s2 g2] eqn:H2.
  rewrite (set_edges_for_ext (g_tri g) sel s1 g1 s2 g2 (g_edges g) a); [reflexivity|].
  intros e t Hin Hs Ht.
  rewrite (graph_lookup sel g kw HX s1 g1 H1 e t Hin Hs), (graph_lookup sel g [] HX s2 g2 H2 e t Hin Hs), lk_of_nil.
  assert (Hk : In (e_name e :: t) (map fst (sel_params (g_tri g) sel (g_edges g)))).
  { unfold sel_params. rewrite map_flat_map'. apply in_flat_map. exists e. split; [exact Hin|]. rewrite Hs, pre_keys.
    apply in_map_iff. exists t. split; [reflexivity | exact Ht]. }
  pose proof (sel_params_heads _ _ _ _ Hk) as (e0 & s & _ & _ & Heq & Hs0). injection Heq as _ ->.
  rewrite lk_of_u_lk; [apply Hun, Hk|]. apply HX. cbn in Hs0. cbn. intuition.
Qed.
Lemma graph_set_shape sel g a kw :
  shape (g_edges (fst (graph_set_params_sel sel g a kw))) = shape (g_edges g)
  /\ g_base (fst (graph_set_params_sel sel g a kw)) = g_base g.
Proof.
  unfold graph_set_params_sel. destruct (unflatten_and_split _ _) as [s1 g1].
  pose proof (set_edges_for_shape (g_tri g) sel s1 g1 (g_edges g) a) as Hs.
  destruct (set_edges_for _ _ _ _ _ _) as [es o]. cbn [fst] in *. split; [exact Hs | reflexivity].
Qed.

Lemma u_dist_set_unknown u a kw : u_names_ok u = true ->
  (forall k, In k (map fst (u_dist_items u)) -> u_lk kw k = None) ->
  u_set_distribution_params u a kw = u_set_distribution_params u a [].
Proof.
  intros H Hun. unfold u_set_distribution_params. set (X := map fst (u_dists u)).
  destruct (unflatten_and_split kw X) as [s1 g1] eqn:H1. destruct (unflatten_and_split [] X) as [s2 g2] eqn:H2.
  rewrite (set_dists_for_ext (u_maxt u) s1 g1 s2 g2 (u_dists u) a); [reflexivity|].
  intros td s Hin Hs.
  assert (He : ~ In "" X) by (apply (in_reserved_not_tstage u "" H); cbn; tauto).
  rewrite (obj_kwargs_lookup kw X (fst td) [s] s1 g1 He H1) by (apply in_map, Hin).
  rewrite (obj_kwargs_lookup [] X (fst td) [s] s2 g2 He H2) by (apply in_map, Hin).
  change (lk_of X kw [fst td; s] = lk_of X [] [fst td; s]). rewrite lk_of_nil.
  assert (Hkw : In s (dist_kw_names (u_dists u))).
  { unfold dist_kw_names in *. apply in_flat_map. exists td. split; [exact Hin|]. cbn [flat_map] in Hs. rewrite app_nil_r in Hs. exact Hs. }
  rewrite lk_of_u_lk by (apply (names_ok_kw_not_tstage u s H Hkw)). apply Hun.
  unfold u_dist_items, dists_items. rewrite map_flat_map'. apply in_flat_map. exists td. split; [exact Hin|].
  rewrite pre_keys. apply in_map_iff. exists [s]. split; [reflexivity|].
  unfold dist_kw_names in Hs. cbn [flat_map] in Hs. rewrite app_nil_r in Hs.
  destruct (snd td) as [p|f kws]; [destruct Hs|]. cbn [dist_local]. rewrite map_map. cbn [fst].
  apply in_map_iff in Hs. destruct Hs as (kv & <- & Hkv). apply in_map_iff. exists kv. split; [reflexivity | exact Hkv].
Qed.

Theorem uni_unknown_names_ignored : C10_uni_unknown_names_ignored_stmt.
Proof.
  intros u a kw H Hun.
  assert (HunT : forall k, In k (map fst (u_tumor_items u)) -> u_lk kw k = None)
    by (intros k Hk; apply Hun; unfold u_names, u_items; rewrite !map_app, !in_app_iff; tauto).
  assert (HunL : forall k, In k (map fst (u_lnl_items u)) -> u_lk kw k = None)
    by (intros k Hk; apply Hun; unfold u_names, u_items; rewrite !map_app, !in_app_iff; tauto).
  assert (HunD : forall k, In k (map fst (u_dist_items u)) -> u_lk kw k = None)
    by (intros k Hk; apply Hun; unfold u_names, u_items; rewrite !map_app, !in_app_iff; tauto).
  unfold u_set_params, u_set_spread_params, u_set_tumor_spread_params, u_set_lnl_spread_params, lift_graph.
  rewrite (graph_set_unknown is_tumor_spread (u_graph u) a kw (fun s => reserved_not_filter u _ s H) HunT).
  pose proof (graph_set_shape is_tumor_spread (u_graph u) a []) as [Hsh Hb].
  destruct (graph_set_params_sel is_tumor_spread (u_graph u) a []) as [g1 [a1|]]; cbn [fst snd andthen u_with_graph u_graph] in *; [|reflexivity].
  assert (Htri : g_tri g1 = u_tri u) by (unfold u_tri, g_tri; rewrite Hb; reflexivity).
  rewrite (graph_set_unknown sel_lnl g1 a1 kw).
  - pose proof (graph_set_shape sel_lnl g1 a1 []) as [Hsh2 Hb2].
    destruct (graph_set_params_sel sel_lnl g1 a1 []) as [g2 [a2|]]; cbn [fst snd andthen] in *; [|reflexivity].
    apply u_dist_set_unknown.
    + unfold u_names_ok, u_edge_names, u_edges, u_tstages in *. cbn [u_with_graph u_graph u_dists].
      rewrite (shape_names _ _ Hsh2), (shape_names _ _ Hsh). exact H.
    + exact HunD.
  - intros s Hs. rewrite (shape_filter_names sel_lnl _ kind_sel_lnl _ Hsh). apply reserved_not_filter; assumption.
  - intros k Hk. apply HunL. unfold u_lnl_items, u_edges. rewrite Htri in Hk.
    rewrite <- (shape_sel_keys (u_tri u) sel_lnl _ kind_sel_lnl _ Hsh). exact Hk.
Qed.

(** acceptance of unit vectors (binomial families) *)
Definition fam0_only (ds : list (string * dist)) : bool :=
  forallb (fun td => match snd td with Param f _ => Nat.eqb f 0 | Frozen _ => true end) ds.
Lemma fam0_accepts maxt kws : forallb in_unit (map snd kws) = true -> fam_weights 0 maxt kws <> None.
Proof.
  intros H. cbn [fam_weights]. unfold Dist.kw_get.
  assert (Hp : in_unit (match dict_get "p" kws with Some v => v | None => qc 1 2 end) = true).
  { induction kws as [|[k v] r IH]; [vm_compute; reflexivity|]. cbn [map snd forallb] in H. apply andb_true_iff in H. destruct H as [Hv Hr].
    cbn [dict_get]. destruct (str_eqb "p" k); [exact Hv | apply IH, Hr]. }
  unfold in_unit in Hp. rewrite Hp. discriminate.
Qed.
Lemma dists_put_fam0 maxt ds : fam0_only ds = true -> forall qs, length qs = length (dists_items ds) ->
  forallb in_unit qs = true -> dists_put maxt ds (vals qs) <> None.
Proof.
  induction ds as [|[t d] r IH]; intros Hf qs Hl Hu; [discriminate|].
  cbn [fam0_only forallb snd] in Hf. apply andb_true_iff in Hf. destruct Hf as [Hd Hr].
  cbn [dists_put]. cbn [dists_items flat_map fst snd] in Hl. fold (dists_items r) in Hl. rewrite app_length, pre_length in Hl.
  unfold vals. rewrite firstn_map, skipn_map. fold (vals (firstn (length (dist_local d)) qs)) (vals (skipn (length (dist_local d)) qs)).
  specialize (IH Hr (skipn (length (dist_local d)) qs)).
  destruct (dists_put maxt r (vals (skipn (length (dist_local d)) qs))).
  - destruct d as [p|f kws]; [discriminate|]. cbn [dist_put]. rewrite unwrap_vals.
    apply Nat.eqb_eq in Hd. subst f. cbn [dist_local] in *. rewrite map_length in *.
    pose proof (fam0_accepts maxt (combine (map fst kws) (firstn (length kws) qs))) as Ha.
    destruct (fam_weights 0 maxt _); [discriminate|]. exfalso. apply Ha; [|reflexivity].
    rewrite map_snd_combine by (rewrite map_length, firstn_length; lia). apply forallb_firstn, Hu.
  - exfalso. apply IH; [rewrite skipn_length; lia | apply forallb_skipn, Hu | reflexivity].
Qed.

Lemma u_accepts_unit u v : u_names_ok u = true -> length v = length (u_items u) -> forallb in_unit v = true ->
  fam0_only (u_dists u) = true -> u_accepts u (vals v) = true.
Proof.
  intros H Hl Hu Hf. unfold u_accepts, vals. rewrite firstn_map, skipn_map. fold (vals (firstn (u_num_spread u) v)) (vals (skipn (u_num_spread u) v)).
  rewrite all_unit_vals by (apply forallb_firstn, Hu). cbn [is_some andb].
  pose proof (dists_put_fam0 (u_maxt u) (u_dists u) Hf (skipn (u_num_spread u) v)) as Hd.
  destruct (dists_put _ _ _); [reflexivity|]. exfalso. apply Hd; [|apply forallb_skipn, Hu | reflexivity].
  rewrite skipn_length, Hl. unfold u_items, u_num_spread. rewrite !app_length. fold (u_dist_items u). unfold u_dist_items. lia.
Qed.

Theorem uni_unit_vectors_accepted : C10_uni_unit_vectors_accepted_stmt.
Proof.
  intros u v rest H Hl Hu Hf. fold (fam0_only (u_dists u)) in Hf. pose proof (u_accepts_unit u v H Hl Hu Hf) as Hacc. split.
  - assert (Hnew : u_new u (vals v ++ rest) [] = vals v).
    { unfold u_new. apply plan_no_kw; [intros; apply u_lk_nil | exact Hl]. }
    pose proof (uni_set_spec u (vals v ++ rest) [] H) as Hs. cbv zeta in Hs. rewrite Hnew, Hacc in Hs.
    destruct Hs as (qs & _ & Hsnd & _). rewrite Hsnd. discriminate.
  - assert (Hnew : u_new u [] (kw_of (u_names u) v) = vals v).
    { unfold u_new. apply plan_all_kw; [rewrite vals_length; exact Hl|]. intros k x Hin. apply u_lk_kw_of; assumption. }
    pose proof (uni_set_spec u [] (kw_of (u_names u) v) H) as Hs. cbv zeta in Hs. rewrite Hnew, Hacc in Hs.
    destruct Hs as (qs & _ & Hsnd & _). rewrite Hsnd. discriminate.
Qed.

(** * Known findings: refutations by concrete witnesses *)
Definition C10_g2 : graph :=
  force_graph (build_graph 2 [ (("tumor", "T"), CList ["II"; "III"]); (("lnl", "II"), CList ["III"]); (("lnl", "III"), CList []) ]).
Definition C10_u2 : uni := new_uni C10_g2 [] 3.
Definition C10_v6 : list Qc := [qc 1 10; qc 2 10; qc 3 10; qc 4 10; qc 5 10; qc 6 10].

Theorem positional_order_refuted : C10_positional_order_refuted_stmt.
Proof.
  exists (new_bilateral C10_u2 false false), C10_v6.
  split; [vm_compute; reflexivity|]. split; [reflexivity|]. split; [reflexivity|].
  split; [vm_compute; reflexivity|]. split; [vm_compute; reflexivity|]. split; [vm_compute; reflexivity|].
  split.
  - intros H. apply (f_equal (map qout)) in H. vm_compute in H. discriminate H.
  - apply (f_equal (map qout)) || idtac. vm_compute. reflexivity.
Qed.

Theorem midline_positional_order_refuted : C10_midline_positional_order_refuted_stmt.
Proof.
  exists (new_midline C10_u2 true false true true false), (C10_v6 ++ [qc 7 10; qc 8 10]).
  split; [reflexivity|]. split; [vm_compute; reflexivity|]. split; [vm_compute; reflexivity|]. split; [vm_compute; reflexivity|].
  intros H. apply (f_equal (option_map (map qout))) in H. vm_compute in H. discriminate H.
Qed.

Theorem hpv_roundtrip_refuted : C10_hpv_roundtrip_refuted_stmt.
Proof.
  exists (new_hpv C10_u2), [["hpv"; "TtoII"; "spread"]; ["hpv"; "TtoIII"; "spread"]; ["nohpv"; "TtoII"; "spread"]; ["IItoIII"; "spread"]],
    [qc 1 10; qc 2 10; qc 3 10; qc 4 10].
  split; [vm_compute; reflexivity|]. split; [reflexivity|]. split; [vm_compute; reflexivity|]. split; [vm_compute; reflexivity|].
  split; [intros H; apply (f_equal (option_map (map qout))) in H; vm_compute in H; discriminate H|].
  split; [vm_compute; reflexivity|].
  intros H. apply (f_equal (option_map (map qout))) in H. vm_compute in H. discriminate H.
Qed.
