(** ParamsProofs: proofs of the C10 statements (ParamsStatements.v). *)
From LymphModel Require Import Base States Linalg Graph Transition Observation Dist Unilateral Models Params
  ParamsStatements ParamsLemmas.
Local Open Scope nat_scope.
Local Open Scope string_scope.
Local Open Scope list_scope.

(** * What well-formed names give *)
Lemma in_reserved_not_edge u s : u_names_ok u = true -> In s reserved -> ~ In s (u_edge_names u).
Proof.
  intros H Hs Hin. unfold u_names_ok in H. apply andb_true_iff in H. destruct H as [H _].
  apply andb_true_iff in H. destruct H as [H _]. apply nodupb_NoDup in H.
  apply (NoDup_app_disj _ _ s H Hin). rewrite in_app_iff. right. exact Hs.
Qed.
Lemma in_reserved_not_tstage u s : u_names_ok u = true -> In s reserved -> ~ In s (u_tstages u).
Proof.
  intros H Hs Hin. unfold u_names_ok in H. apply andb_true_iff in H. destruct H as [H _].
  apply andb_true_iff in H. destruct H as [H _]. apply nodupb_NoDup in H.
  apply NoDup_app_r in H. apply (NoDup_app_disj _ _ s H Hin Hs).
Qed.
Lemma names_ok_edges_NoDup u : u_names_ok u = true -> NoDup (u_edge_names u).
Proof.
  intros H. unfold u_names_ok in H. apply andb_true_iff in H. destruct H as [H _].
  apply andb_true_iff in H. destruct H as [H _]. apply nodupb_NoDup in H. apply (NoDup_app_l _ _ H).
Qed.
Lemma names_ok_tstages_NoDup u : u_names_ok u = true -> NoDup (u_tstages u).
Proof.
  intros H. unfold u_names_ok in H. apply andb_true_iff in H. destruct H as [H _].
  apply andb_true_iff in H. destruct H as [H _]. apply nodupb_NoDup in H. apply NoDup_app_r in H. apply (NoDup_app_l _ _ H).
Qed.
Lemma names_ok_edge_not_tstage u s : u_names_ok u = true -> In s (u_edge_names u) -> ~ In s (u_tstages u).
Proof.
  intros H Hin Hin'. unfold u_names_ok in H. apply andb_true_iff in H. destruct H as [H _].
  apply andb_true_iff in H. destruct H as [H _]. apply nodupb_NoDup in H.
  apply (NoDup_app_disj _ _ s H Hin). rewrite in_app_iff. left. exact Hin'.
Qed.
Lemma names_ok_dist_keys u : u_names_ok u = true -> dist_keys_ok (u_dists u) = true.
Proof. intros H. unfold u_names_ok in H. apply andb_true_iff in H. destruct H as [H _]. apply andb_true_iff in H. apply H. Qed.
Lemma names_ok_kw_not_tstage u k : u_names_ok u = true -> In k (dist_kw_names (u_dists u)) -> ~ In k (u_tstages u).
Proof.
  intros H Hin. unfold u_names_ok in H. apply andb_true_iff in H. destruct H as [_ H].
  rewrite forallb_forall in H. specialize (H k Hin). apply negb_true_iff in H. apply mem_false. exact H.
Qed.

Lemma filter_names_NoDup (sel : edge -> bool) es : NoDup (map e_name es) -> NoDup (map e_name (filter sel es)).
Proof. intros H. apply (NoDup_app_l _ _ (NoDup_map_filter_split e_name sel es H)). Qed.
Lemma in_filter_names (sel : edge -> bool) es s : In s (map e_name (filter sel es)) -> In s (map e_name es).
Proof. intros H. apply in_map_iff in H. destruct H as (e & <- & Hin). apply filter_In in Hin. apply in_map, Hin. Qed.

(** * get_params of a unilateral model is the documented list *)
Lemma u_tumor_flat u : u_names_ok u = true ->
  u_get_tumor_spread_params u true = leaves (u_tumor_items u).
Proof.
  intros H. unfold u_get_tumor_spread_params, u_tumor_items, tumor_edges. rewrite sel_params_filter.
  apply edges_get_params_flat, filter_names_NoDup, names_ok_edges_NoDup, H.
Qed.
Lemma u_lnl_flat u : u_names_ok u = true ->
  u_get_lnl_spread_params u true = leaves (u_lnl_items u).
Proof.
  intros H. unfold u_get_lnl_spread_params, u_lnl_items, lnl_edges. rewrite sel_params_filter.
  apply edges_get_params_flat, filter_names_NoDup, names_ok_edges_NoDup, H.
Qed.
Lemma u_dist_flat u : u_names_ok u = true -> u_get_distribution_params u true = leaves (u_dist_items u).
Proof.
  intros H. apply dists_get_params_flat; [apply names_ok_tstages_NoDup, H | apply names_ok_dist_keys, H].
Qed.

Lemma sel_params_heads tri sel es k : In k (map fst (sel_params tri sel es)) ->
  exists e s, In e es /\ sel e = true /\ k = [e_name e; s] /\ In s ["spread"; "growth"; "micro"].
Proof.
  unfold sel_params. rewrite map_flat_map'. intros H. apply in_flat_map in H. destruct H as (e & He & Hk).
  destruct (sel e) eqn:Es; [|destruct Hk]. rewrite pre_keys in Hk. apply in_map_iff in Hk. destruct Hk as (t & <- & Ht).
  rewrite edge_params_cases in Ht. exists e.
  destruct (is_growth e); [|destruct (has_micro tri e)]; cbn in Ht;
    repeat (destruct Ht as [<-|Ht]; [eexists; repeat split; try eassumption; cbn; auto|]); destruct Ht.
Qed.
