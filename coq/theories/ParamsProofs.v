(** ParamsProofs: proofs of the C10 statements (ParamsStatements.v). *)
From LymphModel Require Import Base States Linalg Graph Transition Observation Dist Unilateral Models Params
  ParamsStatements ParamsLemmas.
Local Open Scope nat_scope.
Local Open Scope string_scope.
Local Open Scope list_scope.

(** * What well-formed names give *)
Lemma in_reserved_not_edge u s : u_names_ok u = true -> In s reserved -> ~ In s (u_edge_names u).
Proof.
  intros H Hs Hin. unfold u_names_ok in H. apply andb_true_iff in H. destruct H as [H _].
  apply andb_true_iff in H. destruct H as [H _]. apply nodupb_NoDup in H.
  apply (NoDup_app_disj _ _ s H Hin). rewrite in_app_iff. right. exact Hs.
Qed.
Lemma in_reserved_not_tstage u s : u_names_ok u = true -> In s reserved -> ~ In s (u_tstages u).
Proof.
  intros H Hs Hin. unfold u_names_ok in H. apply andb_true_iff in H. destruct H as [H _].
  apply andb_true_iff in H. destruct H as [H _]. apply nodupb_NoDup in H.
  apply NoDup_app_r in H. apply (NoDup_app_disj _ _ s H Hin Hs).
Qed.
Lemma names_ok_edges_NoDup u : u_names_ok u = true -> NoDup (u_edge_names u).
Proof.
  intros H. unfold u_names_ok in H. apply andb_true_iff in H. destruct H as [H _].
  apply andb_true_iff in H. destruct H as [H _]. apply nodupb_NoDup in H. apply (NoDup_app_l _ _ H).
Qed.
Lemma names_ok_tstages_NoDup u : u_names_ok u = true -> NoDup (u_tstages u).
Proof.
  intros H. unfold u_names_ok in H. apply andb_true_iff in H. destruct H as [H _].
  apply andb_true_iff in H. destruct H as [H _]. apply nodupb_NoDup in H. apply NoDup_app_r in H. apply (NoDup_app_l _ _ H).
Qed.
Lemma names_ok_edge_not_tstage u s : u_names_ok u = true -> In s (u_edge_names u) -> ~ In s (u_tstages u).
Proof.
  intros H Hin Hin'. unfold u_names_ok in H. apply andb_true_iff in H. destruct H as [H _].
  apply andb_true_iff in H. destruct H as [H _]. apply nodupb_NoDup in H.
  apply (NoDup_app_disj _ _ s H Hin). rewrite in_app_iff. left. exact Hin'.
Qed.
Lemma names_ok_dist_keys u : u_names_ok u = true -> dist_keys_ok (u_dists u) = true.
Proof. intros H. unfold u_names_ok in H. apply andb_true_iff in H. destruct H as [H _]. apply andb_true_iff in H. apply H. Qed.
Lemma names_ok_kw_not_tstage u k : u_names_ok u = true -> In k (dist_kw_names (u_dists u)) -> ~ In k (u_tstages u).
Proof.
  intros H Hin. unfold u_names_ok in H. apply andb_true_iff in H. destruct H as [_ H].
  rewrite forallb_forall in H. specialize (H k Hin). apply negb_true_iff in H. apply mem_false. exact H.
Qed.

Lemma filter_names_NoDup (sel : edge -> bool) es : NoDup (map e_name es) -> NoDup (map e_name (filter sel es)).
Proof. intros H. apply (NoDup_app_l _ _ (NoDup_map_filter_split e_name sel es H)). Qed.
Lemma in_filter_names (sel : edge -> bool) es s : In s (map e_name (filter sel es)) -> In s (map e_name es).
Proof. intros H. apply in_map_iff in H. destruct H as (e & <- & Hin). apply filter_In in Hin. apply in_map, Hin. Qed.

(** * get_params of a unilateral model is the documented list *)
Lemma u_tumor_flat u : u_names_ok u = true ->
  u_get_tumor_spread_params u true = leaves (u_tumor_items u).
Proof.
  intros H. unfold u_get_tumor_spread_params, u_tumor_items, tumor_edges. rewrite sel_params_filter.
  apply edges_get_params_flat, filter_names_NoDup, names_ok_edges_NoDup, H.
Qed.
Lemma u_lnl_flat u : u_names_ok u = true ->
  u_get_lnl_spread_params u true = leaves (u_lnl_items u).
Proof.
  intros H. unfold u_get_lnl_spread_params, u_lnl_items, lnl_edges. rewrite sel_params_filter.
  apply edges_get_params_flat, filter_names_NoDup, names_ok_edges_NoDup, H.
Qed.
Lemma u_dist_flat u : u_names_ok u = true -> u_get_distribution_params u true = leaves (u_dist_items u).
Proof.
  intros H. apply dists_get_params_flat; [apply names_ok_tstages_NoDup, H | apply names_ok_dist_keys, H].
Qed.

Lemma sel_params_heads tri sel es k : In k (map fst (sel_params tri sel es)) ->
  exists e s, In e es /\ sel e = true /\ k = [e_name e; s] /\ In s ["spread"; "growth"; "micro"].
Proof.
  unfold sel_params. rewrite map_flat_map'. intros H. apply in_flat_map in H. destruct H as (e & He & Hk).
  destruct (sel e) eqn:Es; [|destruct Hk]. rewrite pre_keys in Hk. apply in_map_iff in Hk. destruct Hk as (t & <- & Ht).
  rewrite edge_params_cases in Ht. exists e.
  destruct (is_growth e); [|destruct (has_micro tri e)]; cbn in Ht;
    repeat (destruct Ht as [<-|Ht]; [eexists; repeat split; try eassumption; cbn; auto|]); destruct Ht.
Qed.

Lemma dists_items_heads ds k : In k (map fst (dists_items ds)) ->
  exists t s, In t (map fst ds) /\ k = [t; s] /\ In s (dist_kw_names ds).
Proof.
  unfold dists_items, dist_kw_names. rewrite map_flat_map'. intros H. apply in_flat_map in H. destruct H as (td & Htd & Hk).
  rewrite pre_keys in Hk. apply in_map_iff in Hk. destruct Hk as (t & <- & Ht).
  destruct (snd td) as [p|f kws] eqn:Ed; cbn [dist_local map] in Ht; [destruct Ht|].
  rewrite map_map in Ht. cbn [fst] in Ht. apply in_map_iff in Ht. destruct Ht as (kv & <- & Hkv).
  exists (fst td), (fst kv). repeat split.
  - apply in_map, Htd.
  - apply in_flat_map. exists td. split; [exact Htd|]. rewrite Ed. apply in_map, Hkv.
Qed.

Lemma u_tumor_keys_NoDup u : u_names_ok u = true -> NoDup (map fst (u_tumor_items u)).
Proof.
  intros H. unfold u_tumor_items. rewrite sel_params_filter.
  apply edges_flat_keys_NoDup, filter_names_NoDup, names_ok_edges_NoDup, H.
Qed.
Lemma u_lnl_keys_NoDup u : u_names_ok u = true -> NoDup (map fst (u_lnl_items u)).
Proof.
  intros H. unfold u_lnl_items. rewrite sel_params_filter.
  apply edges_flat_keys_NoDup, filter_names_NoDup, names_ok_edges_NoDup, H.
Qed.
Lemma u_dist_keys_NoDup u : u_names_ok u = true -> NoDup (map fst (u_dist_items u)).
Proof. intros H. apply dists_items_keys_NoDup; [apply names_ok_tstages_NoDup, H | apply names_ok_dist_keys, H]. Qed.

Lemma u_spread_keys_NoDup u : u_names_ok u = true -> NoDup (map fst (u_tumor_items u ++ u_lnl_items u)).
Proof.
  intros H. unfold u_tumor_items, u_lnl_items. rewrite !sel_params_filter, <- flat_map_app.
  apply edges_flat_keys_NoDup. rewrite map_app. apply NoDup_map_filter_split, names_ok_edges_NoDup, H.
Qed.
Lemma u_tumor_lnl_disjoint u k : u_names_ok u = true -> In k (map fst (u_lnl_items u)) -> ~ In k (map fst (u_tumor_items u)).
Proof.
  intros H H2 H1. pose proof (u_spread_keys_NoDup u H) as Hnd. rewrite map_app in Hnd.
  exact (NoDup_app_disj _ _ k Hnd H1 H2).
Qed.
Lemma u_spread_key_head u k : In k (map fst (u_tumor_items u ++ u_lnl_items u)) ->
  exists n s, k = [n; s] /\ In n (u_edge_names u) /\ In s ["spread"; "growth"; "micro"].
Proof.
  rewrite map_app, in_app_iff. intros [H|H]; apply sel_params_heads in H; destruct H as (e & s & Hin & _ & -> & Hs);
    exists (e_name e), s; repeat split; try assumption; apply in_map, Hin.
Qed.
Lemma u_names_NoDup u : u_names_ok u = true -> NoDup (u_names u).
Proof.
  intros H. unfold u_names, u_items. rewrite app_assoc, map_app. apply NoDup_app_intro.
  - apply u_spread_keys_NoDup, H.
  - apply u_dist_keys_NoDup, H.
  - intros k Hk Hk'. apply u_spread_key_head in Hk. destruct Hk as (n & s & -> & Hn & _).
    apply dists_items_heads in Hk'. destruct Hk' as (t & s' & Ht & Heq & _). injection Heq as -> _.
    exact (names_ok_edge_not_tstage u _ H Hn Ht).
Qed.

Lemma u_spread_flat u : u_names_ok u = true ->
  u_get_spread_params u true = leaves (u_tumor_items u ++ u_lnl_items u).
Proof.
  intros H. unfold u_get_spread_params, maybe_flatten. rewrite (u_tumor_flat u H), (u_lnl_flat u H), kw_update_leaves.
  rewrite kw_update_fresh; [| apply u_lnl_keys_NoDup, H | intros k; apply u_tumor_lnl_disjoint, H].
  apply flatten_leaves, u_spread_keys_NoDup, H.
Qed.
Lemma u_got_spec u : u_names_ok u = true -> u_got u = u_items u.
Proof.
  intros H. unfold u_got, u_get_params, maybe_flatten. rewrite (u_spread_flat u H), (u_dist_flat u H), kw_update_leaves.
  pose proof (u_names_NoDup u H) as Hnd. unfold u_names, u_items in Hnd. rewrite app_assoc, map_app in Hnd.
  rewrite kw_update_fresh; [| apply u_dist_keys_NoDup, H | intros k Hk Hk'; exact (NoDup_app_disj _ _ k Hnd Hk' Hk)].
  rewrite flatten_leaves by (rewrite map_app; exact Hnd). rewrite items_leaves. unfold u_items. rewrite app_assoc. reflexivity.
Qed.

Theorem uni_names_nodup : C10_uni_names_nodup_stmt.
Proof. intros u H. split; [apply u_got_spec, H | apply u_names_NoDup, H]. Qed.

(** nested form *)
Lemma u_nested_spec u : u_names_ok u = true ->
  u_get_params u false = edges_nested (u_tri u) (tumor_edges (u_graph u)) ++ edges_nested (u_tri u) (lnl_edges (u_graph u))
                         ++ dists_nested (u_dists u).
Proof.
  intros H. unfold u_get_params, u_get_spread_params, u_get_tumor_spread_params, u_get_lnl_spread_params,
    u_get_distribution_params, maybe_flatten.
  pose proof (names_ok_edges_NoDup u H) as Hen.
  pose proof (NoDup_map_filter_split e_name is_tumor_spread (u_edges u) Hen) as Hsplit.
  rewrite !edges_get_params_nested by (apply filter_names_NoDup; exact Hen).
  rewrite dists_get_params_nested by (apply names_ok_tstages_NoDup, H).
  assert (Hk : forall es, map fst (edges_nested (u_tri u) es) = map (fun n => [n]) (map e_name es)).
  { intros es. unfold edges_nested. rewrite !map_map. reflexivity. }
  assert (Hkd : forall k, In k (map fst (dists_nested (u_dists u))) -> exists t, k = [t] /\ In t (u_tstages u)).
  { intros k Hk'. unfold dists_nested in Hk'. rewrite map_flat_map' in Hk'. apply in_flat_map in Hk'.
    destruct Hk' as (td & Htd & Hk'). destruct (snd td); [destruct Hk'|]. destruct Hk' as [<-|[]].
    exists (fst td). split; [reflexivity | apply in_map, Htd]. }
  rewrite (kw_update_fresh (edges_nested _ (lnl_edges _))).
  - rewrite kw_update_fresh; [rewrite <- app_assoc; reflexivity | |].
    + unfold dists_nested. clear Hkd.
      pose proof (names_ok_tstages_NoDup u H) as Ht. unfold u_tstages in Ht.
      induction (u_dists u) as [|[t d] r IH]; [constructor|]. cbn [flat_map map fst snd] in *. inversion Ht; subst.
      destruct d; cbn [app map fst]; [apply IH; assumption|]. constructor; [|apply IH; assumption].
      intros Hin. rewrite map_flat_map' in Hin. apply in_flat_map in Hin. destruct Hin as (td & Htd & Hin).
      destruct (snd td); [destruct Hin|]. destruct Hin as [Heq|[]]. injection Heq as Heq.
      match goal with Hn : ~ In t _ |- _ => apply Hn end. rewrite <- Heq. apply in_map, Htd.
    + intros k Hk1 Hk2. destruct (Hkd k Hk1) as (t & -> & Ht). rewrite map_app, !Hk, in_app_iff in Hk2.
      assert (Hin : In t (u_edge_names u)).
      { destruct Hk2 as [Hk2|Hk2]; apply in_map_iff in Hk2; destruct Hk2 as (n & [= ->] & Hn); eapply in_filter_names; exact Hn. }
      exact (names_ok_edge_not_tstage u t H Hin Ht).
  - rewrite Hk. apply NoDup_map_inj; [intros x y [= Hxy]; exact Hxy|]. apply (NoDup_app_r _ _ Hsplit).
  - intros k. rewrite !Hk. intros Hk1 Hk2. apply in_map_iff in Hk1. destruct Hk1 as (n & <- & Hn).
    apply in_map_iff in Hk2. destruct Hk2 as (n' & [= ->] & Hn').
    exact (NoDup_app_disj _ _ n Hsplit Hn' Hn).
Qed.

Theorem uni_nested_flattens_to_flat : C10_uni_nested_flattens_to_flat_stmt.
Proof.
  intros u H. rewrite (u_nested_spec u H), (u_got_spec u H), !flat_items_dict_app, !flat_items_edges_nested, flat_items_dists_nested.
  unfold u_items, u_tumor_items, u_lnl_items, u_dist_items, tumor_edges, lnl_edges. rewrite !sel_params_filter. reflexivity.
Qed.

(** * set_params of a unilateral model *)
Definition lk_of (X : list string) (kw : kwargs) (k : path) : option val :=
  match k with [] => None | n :: t => eff X kw n t end.

Lemma lk_of_u_lk X kw n s : ~ In s X -> lk_of X kw [n; s] = u_lk kw [n; s].
Proof.
  intros H. unfold lk_of, u_lk, eff. destruct (kw_last [n; s] kw); [reflexivity|].
  unfold head_of. cbn [partition_key fst]. apply mem_false in H. rewrite H. reflexivity.
Qed.

Section GraphSet.
  Variables (sel : edge -> bool) (g : graph) (kw : kwargs).
  Let es := g_edges g.
  Let X := map e_name (filter sel es).
  Hypothesis HX : forall s, In s reserved -> ~ In s X.

  Lemma graph_lookup split glob :
    unflatten_and_split kw X = (split, glob) ->
    forall e t, In e es -> sel e = true -> kw_get t (obj_kwargs (e_name e) split glob) = lk_of X kw (e_name e :: t).
  Proof.
    intros Hu e t Hin Hs. apply (obj_kwargs_lookup kw X); [apply HX; cbn; tauto | exact Hu |].
    apply in_map, filter_In. split; assumption.
  Qed.
  Lemma graph_plan_lk a : plan (lk_of X kw) (sel_params (g_tri g) sel es) a = plan (u_lk kw) (sel_params (g_tri g) sel es) a.
  Proof.
    apply plan_ext. intros k Hk. apply sel_params_heads in Hk. destruct Hk as (e & s & _ & _ & -> & Hs).
    apply lk_of_u_lk. apply HX. cbn in Hs. cbn. intuition.
  Qed.
  Lemma graph_set_sel_ok a qs :
    all_unit (plan (u_lk kw) (sel_params (g_tri g) sel es) a) = Some qs ->
    graph_set_params_sel sel g a kw
    = (with_edges g (edges_put (g_tri g) sel es qs), Some (skipn (length (sel_params (g_tri g) sel es)) a)).
  Proof.
    intros H. unfold graph_set_params_sel. fold es. fold X. destruct (unflatten_and_split kw X) as [split glob] eqn:Hu.
    rewrite (set_edges_for_ok (g_tri g) sel split glob (lk_of X kw) es a qs); [reflexivity | apply graph_lookup, Hu |].
    rewrite graph_plan_lk. exact H.
  Qed.
  Lemma graph_set_sel_fail a :
    all_unit (plan (u_lk kw) (sel_params (g_tri g) sel es) a) = None ->
    snd (graph_set_params_sel sel g a kw) = None.
  Proof.
    intros H. unfold graph_set_params_sel. fold es. fold X. destruct (unflatten_and_split kw X) as [split glob] eqn:Hu.
    pose proof (set_edges_for_fail (g_tri g) sel split glob (lk_of X kw) es a (graph_lookup split glob Hu)) as Hf.
    rewrite graph_plan_lk in Hf. specialize (Hf H).
    destruct (set_edges_for (g_tri g) sel split glob es a) as [es' o]. cbn [snd] in *. exact Hf.
  Qed.
End GraphSet.

Section DistSet.
  Variables (u : uni) (kw : kwargs).
  Hypothesis Hok : u_names_ok u = true.
  Let X := map fst (u_dists u).

  Lemma dist_plan_lk a : plan (lk_of X kw) (u_dist_items u) a = plan (u_lk kw) (u_dist_items u) a.
  Proof.
    apply plan_ext. intros k Hk. apply dists_items_heads in Hk. destruct Hk as (t & s & _ & -> & Hs).
    apply lk_of_u_lk. apply (names_ok_kw_not_tstage u s Hok Hs).
  Qed.
  Lemma u_set_dist_spec a :
    match dists_put (u_maxt u) (u_dists u) (plan (u_lk kw) (u_dist_items u) a) with
    | Some ds' => u_set_distribution_params u a kw = (u_with_dists u ds', Some (skipn (length (u_dist_items u)) a))
    | None => snd (u_set_distribution_params u a kw) = None
    end.
  Proof.
    unfold u_set_distribution_params. fold X. destruct (unflatten_and_split kw X) as [split glob] eqn:Hu.
    pose proof (set_dists_for_spec (u_maxt u) split glob (lk_of X kw) (u_dists u) a) as Hs.
    rewrite <- dist_plan_lk. unfold u_dist_items in *.
    assert (Hlk : forall td t, In td (u_dists u) -> kw_get t (obj_kwargs (fst td) split glob) = lk_of X kw (fst td :: t)).
    { intros td t Hin. apply (obj_kwargs_lookup kw X); [apply (in_reserved_not_tstage u "" Hok); cbn; tauto | exact Hu | apply in_map, Hin]. }
    specialize (Hs Hlk). destruct (dists_put _ _ _) as [ds'|].
    - rewrite Hs. reflexivity.
    - destruct (set_dists_for _ _ _ _ _) as [ds' o]. cbn [snd] in *. exact Hs.
  Qed.
End DistSet.

(** the object after a successful call *)
Definition u_put (u : uni) (qT qL : list Qc) (ds' : list (string * dist)) : uni :=
  u_with_dists
    (u_with_graph u (with_edges (u_graph u)
       (edges_put (u_tri u) sel_lnl (edges_put (u_tri u) is_tumor_spread (u_edges u) qT) qL))) ds'.

Lemma reserved_not_filter u sel s : u_names_ok u = true -> In s reserved -> ~ In s (map e_name (filter sel (u_edges u))).
Proof. intros H Hs Hin. apply (in_reserved_not_edge u s H Hs). eapply in_filter_names. exact Hin. Qed.

Lemma tumor_not_lnl e : is_tumor_spread e = true -> sel_lnl e = false.
Proof. unfold sel_lnl. intros ->. reflexivity. Qed.
Lemma lnl_not_tumor e : sel_lnl e = true -> is_tumor_spread e = false.
Proof. unfold sel_lnl. destruct (is_tumor_spread e); [discriminate | reflexivity]. Qed.

Lemma u_new_split u a kw :
  u_new u a kw = plan (u_lk kw) (u_tumor_items u) a
                 ++ plan (u_lk kw) (u_lnl_items u) (skipn (length (u_tumor_items u)) a)
                 ++ plan (u_lk kw) (u_dist_items u) (skipn (u_num_spread u) a).
Proof.
  unfold u_new, u_items, u_num_spread. rewrite !plan_app, skipn_skipn, app_length. reflexivity.
Qed.

Lemma g_tri_with_edges g es : g_tri (with_edges g es) = g_tri g.
Proof. reflexivity. Qed.
Lemma g_edges_with_edges g es : g_edges (with_edges g es) = es.
Proof. reflexivity. Qed.

Lemma u_set_spread_ok u a kw qT qL : u_names_ok u = true ->
  all_unit (plan (u_lk kw) (u_tumor_items u) a) = Some qT ->
  all_unit (plan (u_lk kw) (u_lnl_items u) (skipn (length (u_tumor_items u)) a)) = Some qL ->
  u_set_spread_params u a kw = (u_put u qT qL (u_dists u), Some (skipn (u_num_spread u) a)).
Proof.
  intros H HT HL. unfold u_set_spread_params, u_set_tumor_spread_params, u_set_lnl_spread_params, lift_graph.
  rewrite (graph_set_sel_ok is_tumor_spread (u_graph u) kw (fun s => reserved_not_filter u _ s H) a qT HT).
  cbn [fst snd andthen u_with_graph u_graph].
  assert (Htri : g_tri (with_edges (u_graph u) (edges_put (g_tri (u_graph u)) is_tumor_spread (g_edges (u_graph u)) qT)) = u_tri u) by reflexivity.
  pose proof (sel_params_put_other (u_tri u) is_tumor_spread sel_lnl (u_edges u) kind_sel_lnl tumor_not_lnl qT) as Hsame.
  erewrite graph_set_sel_ok with (qs := qL).
  - cbn [fst snd with_edges g_edges g_base g_nodes]. unfold u_put, u_with_dists, u_with_graph, with_edges, u_num_spread.
    cbn [u_graph u_mods u_dists u_maxt g_base g_nodes g_edges]. fold (u_tri u). fold (u_edges u).
    change (g_tri {| g_base := g_base (u_graph u); g_nodes := g_nodes (u_graph u);
                     g_edges := edges_put (u_tri u) is_tumor_spread (u_edges u) qT |}) with (u_tri u).
    rewrite Hsame, skipn_skipn, app_length. destruct u; reflexivity.
  - intros s Hs. rewrite g_edges_with_edges. fold (u_tri u) (u_edges u).
    rewrite (edges_put_filter_other (u_tri u) is_tumor_spread sel_lnl (u_edges u) kind_sel_lnl tumor_not_lnl).
    apply reserved_not_filter; assumption.
  - rewrite g_tri_with_edges, g_edges_with_edges. fold (u_tri u) (u_edges u). rewrite Hsame. exact HL.
Qed.

Lemma u_set_spread_fail u a kw : u_names_ok u = true ->
  all_unit (plan (u_lk kw) (u_tumor_items u ++ u_lnl_items u) a) = None ->
  snd (u_set_spread_params u a kw) = None.
Proof.
  intros H Hall. rewrite plan_app, all_unit_app in Hall.
  unfold u_set_spread_params, u_set_tumor_spread_params, u_set_lnl_spread_params, lift_graph.
  destruct (all_unit (plan (u_lk kw) (u_tumor_items u) a)) as [qT|] eqn:HT.
  - rewrite (graph_set_sel_ok is_tumor_spread (u_graph u) kw (fun s => reserved_not_filter u _ s H) a qT HT).
    cbn [fst snd andthen u_with_graph u_graph].
    destruct (all_unit (plan (u_lk kw) (u_lnl_items u) _)) eqn:HL; [discriminate|].
    pose proof (sel_params_put_other (u_tri u) is_tumor_spread sel_lnl (u_edges u) kind_sel_lnl tumor_not_lnl qT) as Hsame.
    cbn [snd]. apply graph_set_sel_fail.
    + intros s Hs. rewrite g_edges_with_edges. fold (u_tri u) (u_edges u).
      rewrite (edges_put_filter_other (u_tri u) is_tumor_spread sel_lnl (u_edges u) kind_sel_lnl tumor_not_lnl).
      apply reserved_not_filter; assumption.
    + rewrite g_tri_with_edges, g_edges_with_edges. fold (u_tri u) (u_edges u). rewrite Hsame. exact HL.
  - pose proof (graph_set_sel_fail is_tumor_spread (u_graph u) kw (fun s => reserved_not_filter u _ s H) a HT) as Hf.
    destruct (graph_set_params_sel is_tumor_spread (u_graph u) a kw) as [g' o]. cbn [snd fst] in *. subst o. reflexivity.
Qed.

Lemma u_put_dists u qT qL ds' : u_dists (u_put u qT qL ds') = ds'.
Proof. reflexivity. Qed.
Lemma u_put_maxt u qT qL ds' : u_maxt (u_put u qT qL ds') = u_maxt u.
Proof. reflexivity. Qed.
Lemma u_put_tri u qT qL ds' : u_tri (u_put u qT qL ds') = u_tri u.
Proof. reflexivity. Qed.
Lemma u_put_edges u qT qL ds' :
  u_edges (u_put u qT qL ds') = edges_put (u_tri u) sel_lnl (edges_put (u_tri u) is_tumor_spread (u_edges u) qT) qL.
Proof. reflexivity. Qed.
Lemma u_put_edge_names u qT qL ds' : u_edge_names (u_put u qT qL ds') = u_edge_names u.
Proof. unfold u_edge_names. rewrite u_put_edges, !edges_put_names. reflexivity. Qed.

Lemma u_put_with_dists u qT qL ds ds' : u_with_dists (u_put u qT qL ds) ds' = u_put u qT qL ds'.
Proof. reflexivity. Qed.
Lemma u_put_items_dist u qT qL ds' : u_dist_items (u_put u qT qL ds') = dists_items ds'.
Proof. reflexivity. Qed.
Lemma u_put_tumor_items u qT qL ds' : length qT = length (u_tumor_items u) ->
  u_tumor_items (u_put u qT qL ds') = combine (map fst (u_tumor_items u)) qT.
Proof.
  intros Hl. unfold u_tumor_items. rewrite u_put_tri, u_put_edges.
  rewrite (sel_params_put_other (u_tri u) sel_lnl is_tumor_spread _ kind_sel_tumor lnl_not_tumor).
  apply sel_params_put; [apply kind_sel_tumor | exact Hl].
Qed.
Lemma u_put_lnl_items u qT qL ds' : length qL = length (u_lnl_items u) ->
  u_lnl_items (u_put u qT qL ds') = combine (map fst (u_lnl_items u)) qL.
Proof.
  intros Hl. unfold u_lnl_items. rewrite u_put_tri, u_put_edges.
  pose proof (sel_params_put_other (u_tri u) is_tumor_spread sel_lnl (u_edges u) kind_sel_lnl tumor_not_lnl qT) as Hsame.
  rewrite sel_params_put; [rewrite Hsame; reflexivity | apply kind_sel_lnl | rewrite Hsame; exact Hl].
Qed.

(** the main lemma: success *)
Lemma u_set_params_ok u a kw qT qL ds' : u_names_ok u = true ->
  all_unit (plan (u_lk kw) (u_tumor_items u) a) = Some qT ->
  all_unit (plan (u_lk kw) (u_lnl_items u) (skipn (length (u_tumor_items u)) a)) = Some qL ->
  dists_put (u_maxt u) (u_dists u) (plan (u_lk kw) (u_dist_items u) (skipn (u_num_spread u) a)) = Some ds' ->
  u_set_params u a kw = (u_put u qT qL ds', Some (skipn (length (u_items u)) a)).
Proof.
  intros H HT HL HD. unfold u_set_params. rewrite (u_set_spread_ok u a kw qT qL H HT HL). cbn [andthen].
  assert (Hok' : u_names_ok (u_put u qT qL (u_dists u)) = true).
  { unfold u_names_ok in *. rewrite u_put_edge_names. exact H. }
  pose proof (u_set_dist_spec (u_put u qT qL (u_dists u)) kw Hok' (skipn (u_num_spread u) a)) as Hs.
  rewrite u_put_maxt, u_put_dists, u_put_items_dist in Hs. fold (u_dist_items u) in Hs. rewrite HD in Hs.
  rewrite Hs, u_put_with_dists, skipn_skipn. unfold u_items, u_num_spread. rewrite !app_length. do 2 f_equal. f_equal. lia.
Qed.
(** the main lemma: failure *)
Lemma u_set_params_fail u a kw : u_names_ok u = true ->
  u_accepts u (u_new u a kw) = false -> snd (u_set_params u a kw) = None.
Proof.
  intros H Hacc. unfold u_accepts in Hacc. rewrite u_new_split in Hacc.
  rewrite app_assoc in Hacc.
  assert (Hlen : length (plan (u_lk kw) (u_tumor_items u) a ++ plan (u_lk kw) (u_lnl_items u) (skipn (length (u_tumor_items u)) a))
                 = u_num_spread u) by (unfold u_num_spread; rewrite !app_length, !plan_length; reflexivity).
  rewrite firstn_app_len, skipn_app_len in Hacc by exact Hlen.
  unfold u_set_params.
  destruct (all_unit (plan (u_lk kw) (u_tumor_items u) a ++ _)) as [qs|] eqn:Hall.
  - rewrite all_unit_app in Hall.
    destruct (all_unit (plan (u_lk kw) (u_tumor_items u) a)) as [qT|] eqn:HT; [|discriminate].
    destruct (all_unit (plan (u_lk kw) (u_lnl_items u) _)) as [qL|] eqn:HL; [|discriminate].
    rewrite (u_set_spread_ok u a kw qT qL H HT HL). cbn [andthen is_some andb] in *.
    assert (Hok' : u_names_ok (u_put u qT qL (u_dists u)) = true).
    { unfold u_names_ok in *. rewrite u_put_edge_names. exact H. }
    pose proof (u_set_dist_spec (u_put u qT qL (u_dists u)) kw Hok' (skipn (u_num_spread u) a)) as Hs.
    rewrite u_put_maxt, u_put_dists, u_put_items_dist in Hs. fold (u_dist_items u) in Hs.
    destruct (dists_put _ _ _); [discriminate | exact Hs].
  - rewrite <- plan_app in Hall. pose proof (u_set_spread_fail u a kw H Hall) as Hf.
    destruct (u_set_spread_params u a kw) as [u' o]. cbn [snd] in Hf. subst o. reflexivity.
Qed.
