(** SafeProofs: proofs of the C12 statements of Safe.v for Unilateral, Bilateral and
    HPVUnilateral, the configuration-preservation theorem for all classes and the
    distribution-restore facts.  The Midline statements are proved in SafeMidline.v. *)
From LymphModel Require Import Base States Linalg Graph Transition Observation Dist Unilateral Models Params
  ParamsStatements ParamsLemmas ParamsProofs ParamsBilateral Safe.
Local Open Scope nat_scope.
Local Open Scope string_scope.
Local Open Scope list_scope.

(** * Generic facts about [set_named_params] / [likelihood_given] *)
Lemma path_mem_In k l : In k l -> path_mem k l = true.
Proof.
  intros H. unfold path_mem. apply existsb_exists. exists k. split; [exact H | apply path_eqb_refl].
Qed.
Lemma combine_nil_r {A B} (l : list A) : combine l (@nil B) = [].
Proof. destruct l; reflexivity. Qed.
Lemma combine_keys {A B} (l : list A) (l' : list B) : length l = length l' -> map fst (combine l l') = l.
Proof. apply map_fst_combine. Qed.

(** with declared / default names [names] (no duplicates), a full-length list and the dict
    with the same bindings both end in [set_params( **dict(zip(names, v)))] *)
Lemma set_named_both_forms np m names (v : list val) g :
  named_params np m = Some names -> NoDup names -> length v = length names -> both_forms names v g ->
  safe_set_params np m g
  = (fst (set_params m [] (combine names v)),
     match snd (set_params m [] (combine names v)) with Some _ => SetOk | None => SetValueError end).
Proof.
  intros Hn Hnd Hl Hg.
  assert (Hk : map fst (combine names v) = names) by (apply combine_keys; symmetry; exact Hl).
  assert (Hd : dict_of (combine names v) = combine names v) by (apply dict_of_NoDup_id; rewrite Hk; exact Hnd).
  destruct Hg as [-> | ->]; cbn [safe_set_params]; unfold set_named_params; rewrite Hn.
  - cbn [map forallb]. rewrite kw_update_nil. rewrite Hd.
    destruct (set_params m [] (combine names v)) as [m' [r|]]; reflexivity.
  - assert (Hall : forallb (fun k => path_mem k names) (map fst (combine names v)) = true).
    { rewrite Hk. apply forallb_forall. intros k Hin. apply path_mem_In, Hin. }
    rewrite Hall, combine_nil_r. change (kw_update (combine names v) (dict_of [])) with (dict_of (combine names v)). rewrite Hd.
    destruct (set_params m [] (combine names v)) as [m' [r|]]; reflexivity.
Qed.

Lemma likelihood_both_forms R (lik : model -> R) np m names (v : list val) g :
  named_params np m = Some names -> NoDup names -> length v = length names -> both_forms names v g ->
  likelihood_given R lik np m g
  = (fst (set_params m [] (combine names v)),
     match snd (set_params m [] (combine names v)) with
     | Some _ => LVal (lik (fst (set_params m [] (combine names v))))
     | None => LMinusInf
     end).
Proof.
  intros Hn Hnd Hl Hg. unfold likelihood_given. rewrite (set_named_both_forms np m names v g Hn Hnd Hl Hg).
  destruct (snd (set_params m [] (combine names v))); reflexivity.
Qed.

(** * Lists of values *)
Lemma all_unit_nth_None l : forall i x, nth_error l i = Some x -> check_unit x = None -> all_unit l = None.
Proof.
  induction l as [|y l IH]; intros [|i] x H Hc; cbn [nth_error] in H; try discriminate.
  - injection H as ->. cbn [all_unit]. rewrite Hc. reflexivity.
  - cbn [all_unit]. rewrite (IH i x H Hc). destruct (check_unit y); reflexivity.
Qed.
Lemma unwrap_nth_Bad l : forall i, nth_error l i = Some Bad -> unwrap l = None.
Proof.
  induction l as [|y l IH]; intros [|i] H; cbn [nth_error] in H; try discriminate.
  - injection H as ->. reflexivity.
  - cbn [unwrap]. destruct y; [|reflexivity]. rewrite (IH i H). reflexivity.
Qed.
Lemma nth_error_firstn {A} (l : list A) n i : i < n -> nth_error (firstn n l) i = nth_error l i.
Proof.
  revert l i. induction n as [|n IH]; intros l i H; [lia|].
  destruct l as [|x l]; [destruct i; reflexivity|]. destruct i as [|i]; [reflexivity|]. cbn. apply IH. lia.
Qed.
Lemma nth_error_skipn {A} (l : list A) n i : nth_error (skipn n l) i = nth_error l (n + i).
Proof.
  revert l. induction n as [|n IH]; intros l; [reflexivity|]. destruct l as [|x l]; [destruct i; reflexivity|]. cbn. apply IH.
Qed.
Lemma dist_local_length_Param f kws : length (dist_local (Param f kws)) = length kws.
Proof. cbn. apply map_length. Qed.
(** a NaN / infinite value among the distribution parameters is rejected *)
Lemma dists_put_Bad maxt ds : forall new j, nth_error new j = Some Bad -> j < length (dists_items ds) -> dists_put maxt ds new = None.
Proof.
  induction ds as [|[t d] r IH]; intros new j Hn Hj; [cbn in Hj; lia|].
  cbn [dists_items flat_map fst snd] in Hj. fold (dists_items r) in Hj. rewrite app_length, pre_length in Hj.
  cbn [dists_put]. destruct (Nat.lt_ge_cases j (length (dist_local d))) as [Hlt|Hge].
  - assert (Hd : dist_put maxt d (firstn (length (dist_local d)) new) = None).
    { destruct d as [p|f kws]; [cbn in Hlt; lia|]. cbn [dist_put].
      rewrite (unwrap_nth_Bad _ j); [reflexivity|]. rewrite nth_error_firstn by exact Hlt. exact Hn. }
    rewrite Hd. reflexivity.
  - rewrite (IH (skipn (length (dist_local d)) new) (j - length (dist_local d))).
    + destruct (dist_put maxt d _); reflexivity.
    + rewrite nth_error_skipn. replace (length (dist_local d) + (j - length (dist_local d))) with j by lia. exact Hn.
    + lia.
Qed.

(** * Unilateral *)
Lemma param_names_uni u : u_names_ok u = true -> param_names (MUni u) = Some (u_names u).
Proof.
  intros H. unfold param_names, param_items, get_params. cbn [option_map].
  change (items (u_get_params u true)) with (u_got u). rewrite (u_got_spec u H). reflexivity.
Qed.
Lemma param_values_uni u : u_names_ok u = true -> param_values (MUni u) = Some (map snd (u_items u)).
Proof.
  intros H. unfold param_values, param_items, get_params. cbn [option_map].
  change (items (u_get_params u true)) with (u_got u). rewrite (u_got_spec u H). reflexivity.
Qed.
Lemma u_names_length u : length (u_names u) = length (u_items u).
Proof. apply map_length. Qed.

(** lookup of a reported name in the full keyword assignment (any values, also NaN) *)
Lemma u_lk_combine u (vs : list val) k x : u_names_ok u = true -> length vs = length (u_items u) ->
  In (k, x) (combine (u_names u) vs) -> u_lk (combine (u_names u) vs) k = Some x.
Proof.
  intros H Hl Hin. assert (Hk : In k (u_names u)) by (apply in_combine_l in Hin; exact Hin).
  destruct (u_names_nonempty u k Hk) as (o & t & ->). unfold u_lk.
  assert (Hnd : NoDup (map fst (combine (u_names u) vs))).
  { rewrite map_fst_combine; [apply u_names_NoDup, H | rewrite u_names_length; lia]. }
  rewrite kw_last_NoDup by exact Hnd. rewrite (kw_get_NoDup_In _ x _ Hnd Hin). reflexivity.
Qed.
Lemma u_new_combine u (vs : list val) : u_names_ok u = true -> length vs = length (u_items u) ->
  u_new u [] (combine (u_names u) vs) = vs.
Proof.
  intros H Hl. unfold u_new. apply plan_all_kw; [exact Hl|]. intros k x Hin. apply u_lk_combine; assumption.
Qed.

Lemma u_set_full_accepted u v : u_names_ok u = true -> length v = length (u_items u) -> u_accepts u (vals v) = true ->
  let r := u_set_params u [] (kw_of (u_names u) v) in
  snd r = Some [] /\ u_got (fst r) = combine (u_names u) v /\ u_names_ok (fst r) = true.
Proof.
  intros H Hl Hacc r. subst r. pose proof (uni_set_spec u [] (kw_of (u_names u) v) H) as Hs. cbv zeta in Hs.
  unfold kw_of in *. rewrite (u_new_combine u (vals v) H) in Hs by (rewrite vals_length; exact Hl). rewrite Hacc in Hs.
  destruct Hs as (qs & Hq & Hsnd & Hgot & Hok & _). apply vals_inj in Hq. subst qs.
  split; [rewrite Hsnd; destruct (length (u_items u)); reflexivity|]. split; assumption.
Qed.

Theorem uni_given_params_scored : C12_uni_given_params_scored_stmt.
Proof.
  intros R lik u v g H Hl Hacc Hg m'.
  destruct (u_set_full_accepted u v H Hl Hacc) as (Hsnd & Hgot & Hok').
  rewrite (likelihood_both_forms R lik None (MUni u) (u_names u) (vals v) g).
  - cbn [set_params]. fold (kw_of (u_names u) v).
    destruct (u_set_params u [] (kw_of (u_names u) v)) as [u' o] eqn:E. cbn [fst snd] in *. subst o m'. cbn [fst snd].
    split; [reflexivity|]. split.
    + change (param_names (MUni u')) with (Some (map fst (u_got u'))). rewrite Hgot, map_fst_combine; [reflexivity | rewrite u_names_length; lia].
    + change (param_values (MUni u')) with (Some (map snd (u_got u'))). rewrite Hgot, map_snd_combine; [reflexivity | rewrite u_names_length; lia].
  - unfold named_params. rewrite (param_names_uni u H). reflexivity.
  - apply u_names_NoDup, H.
  - rewrite vals_length, u_names_length. exact Hl.
  - exact Hg.
Qed.

Theorem uni_invalid_gives_minus_inf : C12_uni_invalid_gives_minus_inf_stmt.
Proof.
  intros R lik u v g H Hl Hacc Hg.
  rewrite (likelihood_both_forms R lik None (MUni u) (u_names u) v g).
  - cbn [set_params fst snd].
    pose proof (u_set_params_fail u [] (combine (u_names u) v) H) as Hf. rewrite (u_new_combine u v H Hl) in Hf.
    specialize (Hf Hacc). destruct (u_set_params u [] (combine (u_names u) v)) as [u' o]. cbn [snd] in *. subst o. reflexivity.
  - unfold named_params. rewrite (param_names_uni u H). reflexivity.
  - apply u_names_NoDup, H.
  - rewrite u_names_length. exact Hl.
  - exact Hg.
Qed.

Lemma u_items_length u : length (u_items u) = u_num_spread u + length (u_dist_items u).
Proof. unfold u_items, u_num_spread. rewrite !app_length. lia. Qed.

Theorem uni_invalid_position : C12_uni_invalid_position_stmt.
Proof.
  intros u v i x Hl Hn Hx. unfold u_accepts.
  assert (Hi : i < length v) by (apply nth_error_Some; rewrite Hn; discriminate).
  destruct (Nat.lt_ge_cases i (u_num_spread u)) as [Hlt|Hge].
  - assert (Hc : check_unit x = None) by (destruct Hx as [->|[_ Hc]]; [reflexivity | exact Hc]).
    rewrite (all_unit_nth_None _ i x); [reflexivity | rewrite nth_error_firstn by exact Hlt; exact Hn | exact Hc].
  - destruct Hx as [->|[Hlt _]]; [|lia].
    rewrite (dists_put_Bad (u_maxt u) (u_dists u) _ (i - u_num_spread u)).
    + apply andb_false_r.
    + rewrite nth_error_skipn. replace (u_num_spread u + (i - u_num_spread u)) with i by lia. exact Hn.
    + rewrite u_items_length in Hl. unfold u_dist_items in Hl. lia.
Qed.

(** * The configuration is preserved by every setter, raising or not *)
Lemma has_micro_with_spread tri e q : has_micro tri (with_spread e q) = has_micro tri e.
Proof. reflexivity. Qed.
Lemma has_micro_with_micro tri e q : has_micro tri (with_micro e q) = has_micro tri e.
Proof. reflexivity. Qed.
Lemma sk_edge_with_spread tri e q : sk_edge tri (with_spread e q) = sk_edge tri e.
Proof. unfold sk_edge. rewrite has_micro_with_spread. destruct (has_micro tri e); reflexivity. Qed.
Lemma sk_edge_with_micro tri e q : has_micro tri e = true -> sk_edge tri (with_micro e q) = sk_edge tri e.
Proof. intros H. unfold sk_edge. rewrite has_micro_with_micro, H. reflexivity. Qed.

Lemma sk_edge_set tri e a kw : sk_edge tri (fst (edge_set_params tri e a kw)) = sk_edge tri e.
Proof.
  unfold edge_set_params. destruct (popfirst a) as [first a1].
  destruct (check_unit _) as [s|]; [|reflexivity].
  destruct (has_micro tri e) eqn:Em; [|cbn [fst]; apply sk_edge_with_spread].
  destruct (popfirst a1) as [first2 a2]. destruct (check_unit _) as [mm|]; cbn [fst].
  - rewrite sk_edge_with_micro by (rewrite has_micro_with_spread; exact Em). apply sk_edge_with_spread.
  - apply sk_edge_with_spread.
Qed.
Lemma sk_set_edges_for tri sel split glob es : forall a,
  map (sk_edge tri) (fst (set_edges_for tri sel split glob es a)) = map (sk_edge tri) es.
Proof.
  induction es as [|e r IH]; intros a; [reflexivity|]. cbn [set_edges_for]. destruct (sel e).
  - pose proof (sk_edge_set tri e a (obj_kwargs (e_name e) split glob)) as He.
    destruct (edge_set_params tri e a (obj_kwargs (e_name e) split glob)) as [e' [a'|]]; cbn [fst] in He.
    + specialize (IH a'). destruct (set_edges_for tri sel split glob r a') as [r' o]. cbn [fst map] in *. rewrite He, IH. reflexivity.
    + cbn [fst map]. rewrite He. reflexivity.
  - specialize (IH a). destruct (set_edges_for tri sel split glob r a) as [r' o]. cbn [fst map] in *. rewrite IH. reflexivity.
Qed.

(** what [sk_uni] looks at *)
Lemma sk_uni_eq u u' :
  g_base (u_graph u') = g_base (u_graph u) -> g_nodes (u_graph u') = g_nodes (u_graph u) ->
  map (sk_edge (u_tri u)) (u_edges u') = map (sk_edge (u_tri u)) (u_edges u) ->
  u_mods u' = u_mods u -> sk_dists (u_dists u') = sk_dists (u_dists u) -> u_maxt u' = u_maxt u ->
  sk_uni u' = sk_uni u.
Proof.
  intros Hb Hn He Hm Hd Ht. unfold sk_uni, sk_uni_dists, u_with_dists, u_with_graph, with_edges. cbn [u_graph u_mods u_dists u_maxt].
  assert (Htri : u_tri u' = u_tri u) by (unfold u_tri, g_tri; rewrite Hb; reflexivity).
  rewrite Htri, Hb, Hn, He, Hm, Hd, Ht. reflexivity.
Qed.
Lemma sk_uni_graph_set sel u a kw : sk_uni (fst (lift_graph u (graph_set_params_sel sel (u_graph u) a kw))) = sk_uni u.
Proof.
  unfold lift_graph, graph_set_params_sel. destruct (unflatten_and_split kw _) as [split glob].
  pose proof (sk_set_edges_for (g_tri (u_graph u)) sel split glob (g_edges (u_graph u)) a) as He.
  destruct (set_edges_for _ _ _ _ _ _) as [es o]. cbn [fst snd] in *. apply sk_uni_eq; try reflexivity. exact He.
Qed.

Lemma sk_dist_set maxt d a kw : sk_dist (fst (dist_set_params maxt d a kw)) = sk_dist d.
Proof.
  destruct d as [p|f kws]; [reflexivity|]. cbn [dist_set_params]. rewrite dist_assign_spec.
  rewrite all_vals_combine by (rewrite plan_length, !map_length; reflexivity).
  destruct (unwrap _) as [qs|] eqn:Eu; cbn [option_map]; [|reflexivity].
  destruct (fam_weights f maxt _); [|reflexivity]. cbn [fst sk_dist]. f_equal.
  apply unwrap_length in Eu. rewrite plan_length, map_length in Eu.
  clear - Eu. revert qs Eu. induction kws as [|[k x] kws IH]; intros [|q qs] Hl; cbn [length] in Hl; try discriminate; [reflexivity|].
  cbn [map fst snd combine]. f_equal. apply IH. lia.
Qed.
Lemma sk_set_dists_for maxt split glob ds : forall a, sk_dists (fst (set_dists_for maxt split glob ds a)) = sk_dists ds.
Proof.
  induction ds as [|[t d] r IH]; intros a; [reflexivity|]. cbn [set_dists_for]. destruct d as [p|f kws].
  - specialize (IH a). destruct (set_dists_for maxt split glob r a) as [r' o]. cbn [fst] in *. unfold sk_dists in *. cbn [map fst snd]. rewrite IH. reflexivity.
  - pose proof (sk_dist_set maxt (Param f kws) a (obj_kwargs t split glob)) as Hd.
    destruct (dist_set_params maxt (Param f kws) a (obj_kwargs t split glob)) as [d' [a'|]]; cbn [fst] in Hd.
    + specialize (IH a'). destruct (set_dists_for maxt split glob r a') as [r' o]. cbn [fst] in *. unfold sk_dists in *. cbn [map fst snd]. rewrite Hd, IH. reflexivity.
    + cbn [fst]. unfold sk_dists. cbn [map fst snd]. rewrite Hd. reflexivity.
Qed.
Lemma sk_uni_with_dists u ds : sk_dists ds = sk_dists (u_dists u) -> sk_uni (u_with_dists u ds) = sk_uni u.
Proof. intros H. apply sk_uni_eq; try reflexivity. exact H. Qed.
Lemma sk_uni_dists_with_dists u ds : sk_dists ds = sk_dists (u_dists u) -> sk_uni_dists (u_with_dists u ds) = sk_uni_dists u.
Proof. intros H. unfold sk_uni_dists, u_with_dists. cbn [u_graph u_mods u_dists u_maxt]. rewrite H. reflexivity. Qed.
Lemma u_set_dist_form u a kw : exists ds, fst (u_set_distribution_params u a kw) = u_with_dists u ds /\ sk_dists ds = sk_dists (u_dists u).
Proof.
  unfold u_set_distribution_params. destruct (unflatten_and_split kw _) as [split glob].
  pose proof (sk_set_dists_for (u_maxt u) split glob (u_dists u) a) as Hd.
  destruct (set_dists_for _ _ _ _ _) as [ds o]. cbn [fst] in *. exists ds. split; [reflexivity | exact Hd].
Qed.
Lemma sk_uni_set_dist u a kw : sk_uni (fst (u_set_distribution_params u a kw)) = sk_uni u.
Proof. destruct (u_set_dist_form u a kw) as (ds & -> & H). apply sk_uni_with_dists, H. Qed.
Lemma sk_uni_dists_set_dist u a kw : sk_uni_dists (fst (u_set_distribution_params u a kw)) = sk_uni_dists u.
Proof. destruct (u_set_dist_form u a kw) as (ds & -> & H). apply sk_uni_dists_with_dists, H. Qed.

(** sequencing *)
Lemma andthen_fst {S} (P : S -> Prop) (r : S * option args) (f : S -> args -> S * option args) :
  P (fst r) -> (forall s a, P s -> P (fst (f s a))) -> P (fst (andthen r f)).
Proof. destruct r as [s [a|]]; cbn [andthen fst]; intros H Hf; [apply Hf, H | exact H]. Qed.

Lemma sk_uni_set_tumor u a kw : sk_uni (fst (u_set_tumor_spread_params u a kw)) = sk_uni u.
Proof. apply sk_uni_graph_set. Qed.
Lemma sk_uni_set_lnl u a kw : sk_uni (fst (u_set_lnl_spread_params u a kw)) = sk_uni u.
Proof. apply sk_uni_graph_set. Qed.
Lemma sk_uni_set_spread u a kw : sk_uni (fst (u_set_spread_params u a kw)) = sk_uni u.
Proof.
  unfold u_set_spread_params. apply (andthen_fst (fun s => sk_uni s = sk_uni u)); [apply sk_uni_set_tumor|].
  intros s a' Hs. rewrite sk_uni_set_lnl. exact Hs.
Qed.
Lemma sk_uni_set_params u a kw : sk_uni (fst (u_set_params u a kw)) = sk_uni u.
Proof.
  unfold u_set_params. apply (andthen_fst (fun s => sk_uni s = sk_uni u)); [apply sk_uni_set_spread|].
  intros s a' Hs. rewrite sk_uni_set_dist. exact Hs.
Qed.

(** synchronisation *)
Lemma sk_sync_edges tri_from tri sel from to :
  map (sk_edge tri) (fst (sync_edges tri_from tri sel from to)) = map (sk_edge tri) to.
Proof.
  induction to as [|e r IH]; [reflexivity|]. cbn [sync_edges]. destruct (sel e).
  - destruct (find_edge (e_name e) (filter sel from)) as [ef|]; [|reflexivity].
    pose proof (sk_edge_set tri e [] (edge_kwargs tri_from ef)) as He.
    destruct (edge_set_params tri e [] (edge_kwargs tri_from ef)) as [e' [a'|]]; cbn [fst] in He.
    + destruct (sync_edges tri_from tri sel from r) as [r' ok]. cbn [fst map] in *. rewrite He, IH. reflexivity.
    + cbn [fst map]. rewrite He. reflexivity.
  - destruct (sync_edges tri_from tri sel from r) as [r' ok]. cbn [fst map] in *. rewrite IH. reflexivity.
Qed.
Lemma sk_uni_sync sel from to : sk_uni (fst (u_sync sel from to)) = sk_uni to.
Proof.
  unfold u_sync. pose proof (sk_sync_edges (u_tri from) (u_tri to) sel (g_edges (u_graph from)) (g_edges (u_graph to))) as He.
  destruct (sync_edges _ _ _ _ _) as [es ok]. cbn [fst] in *. apply sk_uni_eq; try reflexivity. exact He.
Qed.

(** Bilateral *)
Lemma sk_bi_with b i c : sk_uni i = sk_uni (b_ipsi b) -> sk_uni c = sk_uni (b_contra b) -> sk_bi (b_with b i c) = sk_bi b.
Proof. intros Hi Hc. unfold sk_bi, b_with. cbn [b_ipsi b_contra b_symT b_symL]. rewrite Hi, Hc. reflexivity. Qed.
Lemma sk_bi_set_side sel sym b a kw : sk_bi (fst (b_set_side_params sel sym b a kw)) = sk_bi b.
Proof.
  unfold b_set_side_params. destruct (side_kwargs kw) as [ikw ckw].
  pose proof (sk_uni_graph_set sel (b_ipsi b) a ikw) as Hi.
  destruct (lift_graph (b_ipsi b) _) as [i' [a1|]]; cbn [fst] in Hi.
  - destruct sym.
    + pose proof (sk_uni_sync sel i' (b_contra b)) as Hc. destruct (u_sync sel i' (b_contra b)) as [c' ok]. cbn [fst] in *.
      apply sk_bi_with; assumption.
    + pose proof (sk_uni_graph_set sel (b_contra b) a1 ckw) as Hc.
      destruct (lift_graph (b_contra b) _) as [c' o]. cbn [fst] in *. apply sk_bi_with; assumption.
  - cbn [fst]. apply sk_bi_with; [exact Hi | reflexivity].
Qed.
Lemma b_set_dist_form b a kw : exists i c, fst (b_set_distribution_params b a kw) = b_with b i c
  /\ sk_uni i = sk_uni (b_ipsi b) /\ sk_uni c = sk_uni (b_contra b)
  /\ sk_uni_dists i = sk_uni_dists (b_ipsi b) /\ sk_uni_dists c = sk_uni_dists (b_contra b).
Proof.
  unfold b_set_distribution_params. destruct (side_kwargs kw) as [ikw ckw].
  pose proof (sk_uni_set_dist (b_ipsi b) a ikw) as Hi. pose proof (sk_uni_dists_set_dist (b_ipsi b) a ikw) as Hi'.
  destruct (u_set_distribution_params (b_ipsi b) a ikw) as [i' [a1|]]; cbn [fst] in *.
  - pose proof (sk_uni_set_dist (b_contra b) a ckw) as Hc. pose proof (sk_uni_dists_set_dist (b_contra b) a ckw) as Hc'.
    destruct (u_set_distribution_params (b_contra b) a ckw) as [c' o]. cbn [fst] in *. exists i', c'. repeat split; assumption.
  - exists i', (b_contra b). repeat split; assumption.
Qed.
Lemma sk_bi_set_dist b a kw : sk_bi (fst (b_set_distribution_params b a kw)) = sk_bi b.
Proof. destruct (b_set_dist_form b a kw) as (i & c & -> & Hi & Hc & _). apply sk_bi_with; assumption. Qed.
Lemma sk_bi_dists_set_dist b a kw : sk_bi_dists (fst (b_set_distribution_params b a kw)) = sk_bi_dists b.
Proof.
  destruct (b_set_dist_form b a kw) as (i & c & -> & _ & _ & Hi & Hc).
  unfold sk_bi_dists, b_with. cbn [b_ipsi b_contra b_symT b_symL]. rewrite Hi, Hc. reflexivity.
Qed.
Lemma sk_bi_set_tumor b a kw : sk_bi (fst (b_set_tumor_spread_params b a kw)) = sk_bi b.
Proof. apply sk_bi_set_side. Qed.
Lemma sk_bi_set_lnl b a kw : sk_bi (fst (b_set_lnl_spread_params b a kw)) = sk_bi b.
Proof. apply sk_bi_set_side. Qed.
Lemma b_symL_set_side sel sym b a kw : b_symL (fst (b_set_side_params sel sym b a kw)) = b_symL b
  /\ b_symT (fst (b_set_side_params sel sym b a kw)) = b_symT b.
Proof.
  unfold b_set_side_params. destruct (side_kwargs kw) as [ikw ckw]. destruct (lift_graph (b_ipsi b) _) as [i' [a1|]]; [|split; reflexivity].
  destruct sym; [destruct (u_sync sel i' (b_contra b)) | destruct (lift_graph (b_contra b) _)]; split; reflexivity.
Qed.
Lemma sk_bi_set_params b a kw : sk_bi (fst (b_set_params b a kw)) = sk_bi b.
Proof.
  unfold b_set_params. apply (andthen_fst (fun s => sk_bi s = sk_bi b)).
  - unfold b_set_spread_params. apply (andthen_fst (fun s => sk_bi s = sk_bi b)); [apply sk_bi_set_tumor|].
    intros s a' Hs. rewrite sk_bi_set_lnl. exact Hs.
  - intros s a' Hs. rewrite sk_bi_set_dist. exact Hs.
Qed.

(** Midline *)
Lemma sk_bi_with_ipsi b u : sk_uni u = sk_uni (b_ipsi b) -> sk_bi (b_with_ipsi b u) = sk_bi b.
Proof. intros H. apply sk_bi_with; [exact H | reflexivity]. Qed.
Lemma sk_bi_with_contra b u : sk_uni u = sk_uni (b_contra b) -> sk_bi (b_with_contra b u) = sk_bi b.
Proof. intros H. apply sk_bi_with; [reflexivity | exact H]. Qed.
Lemma sk_mid_with_ext m b : sk_bi b = sk_bi (ml_ext m) -> sk_mid (ml_with_ext m b) = sk_mid m.
Proof. intros H. unfold sk_mid, ml_with_ext, ml_with_models. cbn. rewrite H. reflexivity. Qed.
Lemma sk_mid_with_noext m b : sk_bi b = sk_bi (ml_noext m) -> sk_mid (ml_with_noext m b) = sk_mid m.
Proof. intros H. unfold sk_mid, ml_with_noext, ml_with_models. cbn. rewrite H. reflexivity. Qed.
Lemma sk_mid_with_central m c c0 : ml_central m = Some c0 -> sk_bi c = sk_bi c0 -> sk_mid (ml_with_central m c) = sk_mid m.
Proof. intros E H. unfold sk_mid, ml_with_central, ml_with_models. cbn. rewrite E. cbn. rewrite H. reflexivity. Qed.
Lemma sk_mid_with_unknown m k k0 : ml_unknown m = Some k0 -> sk_bi_dists k = sk_bi_dists k0 -> sk_mid (ml_with_unknown m k) = sk_mid m.
Proof. intros E H. unfold sk_mid, ml_with_unknown, ml_with_models. cbn. rewrite E. cbn. rewrite H. reflexivity. Qed.
Lemma sk_mid_with_mixing m q q0 : ml_mixing m = Some q0 -> sk_mid (ml_with_mixing m q) = sk_mid m.
Proof. intros E. unfold sk_mid, ml_with_mixing. cbn. rewrite E. reflexivity. Qed.
Lemma sk_mid_with_midext m q : sk_mid (ml_with_midext m q) = sk_mid m.
Proof. reflexivity. Qed.
Lemma sk_mid_ext m m' : sk_mid m' = sk_mid m -> sk_bi (ml_ext m') = sk_bi (ml_ext m).
Proof. intros H. apply (f_equal ml_ext) in H. exact H. Qed.
Lemma sk_mid_noext m m' : sk_mid m' = sk_mid m -> sk_bi (ml_noext m') = sk_bi (ml_noext m).
Proof. intros H. apply (f_equal ml_noext) in H. exact H. Qed.

(** one leaf of ext / noext is replaced by the result of a unilateral setter *)
Lemma sk_mid_ext_ipsi m u : sk_uni u = sk_uni (b_ipsi (ml_ext m)) -> sk_mid (ml_with_ext m (b_with_ipsi (ml_ext m) u)) = sk_mid m.
Proof. intros H. apply sk_mid_with_ext, sk_bi_with_ipsi, H. Qed.
Lemma sk_mid_ext_contra m u : sk_uni u = sk_uni (b_contra (ml_ext m)) -> sk_mid (ml_with_ext m (b_with_contra (ml_ext m) u)) = sk_mid m.
Proof. intros H. apply sk_mid_with_ext, sk_bi_with_contra, H. Qed.
Lemma sk_mid_noext_ipsi m u : sk_uni u = sk_uni (b_ipsi (ml_noext m)) -> sk_mid (ml_with_noext m (b_with_ipsi (ml_noext m) u)) = sk_mid m.
Proof. intros H. apply sk_mid_with_noext, sk_bi_with_ipsi, H. Qed.
Lemma sk_mid_noext_contra m u : sk_uni u = sk_uni (b_contra (ml_noext m)) -> sk_mid (ml_with_noext m (b_with_contra (ml_noext m) u)) = sk_mid m.
Proof. intros H. apply sk_mid_with_noext, sk_bi_with_contra, H. Qed.

Lemma sk_mid_set_tumor m a kw : sk_mid (fst (m_set_tumor_spread_params m a kw)) = sk_mid m.
Proof.
  unfold m_set_tumor_spread_params. destruct (unflatten_and_split kw _) as [split glob].
  set (ipsi_kw := obj_kwargs "ipsi" split glob).
  (* central *)
  assert (H1 : sk_mid (fst (match ml_central m with
                            | None => (m, true)
                            | Some c => let '(c', ok) := ok_of (b_set_tumor_spread_params c a ipsi_kw) in (ml_with_central m c', ok)
                            end)) = sk_mid m).
  { destruct (ml_central m) as [c|] eqn:Ec; [|reflexivity]. unfold ok_of.
    pose proof (sk_bi_set_tumor c a ipsi_kw) as Hc. destruct (b_set_tumor_spread_params c a ipsi_kw) as [c' o]. cbn [fst] in *.
    apply (sk_mid_with_central m c' c Ec Hc). }
  destruct (match ml_central m with None => (m, true) | Some c => _ end) as [m1 ok1]. cbn [fst] in H1.
  destruct ok1; cbn [negb]; [|exact H1].
  (* ext.ipsi *)
  unfold ok_of at 1. pose proof (sk_uni_set_tumor (b_ipsi (ml_ext m1)) a ipsi_kw) as H2.
  destruct (u_set_tumor_spread_params (b_ipsi (ml_ext m1)) a ipsi_kw) as [ei o2]. cbn [fst snd] in *.
  set (m2 := ml_with_ext m1 (b_with_ipsi (ml_ext m1) ei)).
  assert (Hm2 : sk_mid m2 = sk_mid m) by (unfold m2; rewrite sk_mid_ext_ipsi by exact H2; exact H1).
  destruct o2 as [a2|]; cbn [negb]; [|exact Hm2].
  (* noext.ipsi *)
  pose proof (sk_uni_set_tumor (b_ipsi (ml_noext m2)) a ipsi_kw) as H3.
  destruct (u_set_tumor_spread_params (b_ipsi (ml_noext m2)) a ipsi_kw) as [ni o3]. cbn [fst] in H3.
  set (m3 := ml_with_noext m2 (b_with_ipsi (ml_noext m2) ni)).
  assert (Hm3 : sk_mid m3 = sk_mid m) by (unfold m3; rewrite sk_mid_noext_ipsi by exact H3; exact Hm2).
  destruct o3 as [a3|]; [|exact Hm3].
  destruct (ml_mixing m3) as [cur|] eqn:Emix.
  - (* mixing *)
    set (contra_kw := obj_kwargs "contra" split glob).
    pose proof (sk_uni_set_tumor (b_contra (ml_noext m3)) a3 contra_kw) as H4.
    destruct (u_set_tumor_spread_params (b_contra (ml_noext m3)) a3 contra_kw) as [nc o4]. cbn [fst] in H4.
    set (m4 := ml_with_noext m3 (b_with_contra (ml_noext m3) nc)).
    assert (Hm4 : sk_mid m4 = sk_mid m) by (unfold m4; rewrite sk_mid_noext_contra by exact H4; exact Hm3).
    destruct o4 as [a4|]; [|exact Hm4].
    destruct (popfirst a4) as [first a5]. destruct (check_unit _) as [mix|]; [|exact Hm4].
    set (m5 := ml_with_mixing m4 mix).
    assert (Hm5 : sk_mid m5 = sk_mid m) by (unfold m5; rewrite (sk_mid_with_mixing m4 mix cur) by exact Emix; exact Hm4).
    unfold ok_of. pose proof (sk_uni_set_tumor (b_contra (ml_ext m5)) [] (mixed_kwargs mix m5)) as H6.
    destruct (u_set_tumor_spread_params (b_contra (ml_ext m5)) [] (mixed_kwargs mix m5)) as [ec o6]. cbn [fst snd] in *.
    rewrite sk_mid_ext_contra by exact H6. exact Hm5.
  - destruct (unflatten_and_split (sub_kwargs "noext" split) _) as [noext_split g1].
    set (nkw := obj_kwargs "contra" noext_split glob).
    pose proof (sk_uni_set_tumor (b_contra (ml_noext m3)) a3 nkw) as H4.
    destruct (u_set_tumor_spread_params (b_contra (ml_noext m3)) a3 nkw) as [nc o4]. cbn [fst] in H4.
    set (m4 := ml_with_noext m3 (b_with_contra (ml_noext m3) nc)).
    assert (Hm4 : sk_mid m4 = sk_mid m) by (unfold m4; rewrite sk_mid_noext_contra by exact H4; exact Hm3).
    destruct o4 as [a4|]; [|exact Hm4].
    destruct (unflatten_and_split (sub_kwargs "ext" split) _) as [ext_split g2].
    set (ekw := obj_kwargs "contra" ext_split glob).
    pose proof (sk_uni_set_tumor (b_contra (ml_ext m4)) a4 ekw) as H5.
    destruct (u_set_tumor_spread_params (b_contra (ml_ext m4)) a4 ekw) as [ec o5]. cbn [fst] in *.
    rewrite sk_mid_ext_contra by exact H5. exact Hm4.
Qed.

Lemma sk_mid_with_leaf m l u u0 : ml_leaf m l = Some u0 -> sk_uni u = sk_uni u0 -> sk_mid (ml_with_leaf m l u) = sk_mid m.
Proof.
  destruct l; cbn [ml_leaf ml_with_leaf].
  - destruct (ml_central m) as [c|] eqn:Ec; cbn [option_map]; [|discriminate]. intros [= <-] H.
    apply (sk_mid_with_central m _ c Ec). apply sk_bi_with_ipsi, H.
  - destruct (ml_central m) as [c|] eqn:Ec; cbn [option_map]; [|discriminate]. intros [= <-] H.
    apply (sk_mid_with_central m _ c Ec). apply sk_bi_with_contra, H.
  - intros [= <-] H. apply sk_mid_ext_ipsi, H.
  - intros [= <-] H. apply sk_mid_ext_contra, H.
  - intros [= <-] H. apply sk_mid_noext_ipsi, H.
  - intros [= <-] H. apply sk_mid_noext_contra, H.
Qed.
Lemma sk_mid_set_lnl_block ls : forall m a kw, sk_mid (fst (m_set_lnl_block m ls a kw)) = sk_mid m.
Proof.
  induction ls as [|l r IH]; intros m a kw; [reflexivity|]. cbn [m_set_lnl_block].
  destruct (ml_leaf m l) as [u|] eqn:El; [|apply IH].
  pose proof (sk_uni_set_lnl u a kw) as Hu. destruct (u_set_lnl_spread_params u a kw) as [u' o]. cbn [fst] in Hu.
  pose proof (sk_mid_with_leaf m l u' u El Hu) as Hm.
  destruct o as [a'|]; [|exact Hm]. destruct r as [|l2 r2]; [exact Hm|]. rewrite IH. exact Hm.
Qed.
Lemma sk_mid_set_lnl m a kw : sk_mid (fst (m_set_lnl_spread_params m a kw)) = sk_mid m.
Proof.
  unfold m_set_lnl_spread_params. destruct (unflatten_and_split kw _) as [split glob]. destruct (ml_symL m).
  - apply sk_mid_set_lnl_block.
  - apply (andthen_fst (fun s => sk_mid s = sk_mid m)); [apply sk_mid_set_lnl_block|].
    intros s a' Hs. rewrite sk_mid_set_lnl_block. exact Hs.
Qed.
Lemma sk_mid_set_spread m a kw : sk_mid (fst (m_set_spread_params m a kw)) = sk_mid m.
Proof.
  unfold m_set_spread_params. apply (andthen_fst (fun s => sk_mid s = sk_mid m)); [apply sk_mid_set_tumor|].
  intros s a' Hs. rewrite sk_mid_set_lnl. exact Hs.
Qed.
Lemma sk_mid_set_dist m a kw : sk_mid (fst (m_set_distribution_params m a kw)) = sk_mid m.
Proof.
  unfold m_set_distribution_params. destruct (unflatten_and_split kw _) as [split glob].
  pose proof (sk_bi_set_dist (ml_ext m) a (obj_kwargs "ext" split glob)) as H1.
  destruct (b_set_distribution_params (ml_ext m) a (obj_kwargs "ext" split glob)) as [e' o1]. cbn [fst] in H1.
  set (m1 := ml_with_ext m e'). assert (Hm1 : sk_mid m1 = sk_mid m) by (apply sk_mid_with_ext, H1).
  destruct o1 as [a1|]; [|exact Hm1].
  pose proof (sk_bi_set_dist (ml_noext m1) a (obj_kwargs "noext" split glob)) as H2.
  destruct (b_set_distribution_params (ml_noext m1) a (obj_kwargs "noext" split glob)) as [n' o2]. cbn [fst] in H2.
  set (m2 := ml_with_noext m1 n'). assert (Hm2 : sk_mid m2 = sk_mid m) by (unfold m2; rewrite sk_mid_with_noext by exact H2; exact Hm1).
  destruct o2 as [a2|]; [|exact Hm2].
  assert (H3 : sk_mid (fst (match ml_central m2 with
                            | None => (m2, Some a2)
                            | Some c => let '(c', o) := b_set_distribution_params c a (obj_kwargs "central" split glob) in (ml_with_central m2 c', o)
                            end)) = sk_mid m).
  { destruct (ml_central m2) as [c|] eqn:Ec; [|exact Hm2].
    pose proof (sk_bi_set_dist c a (obj_kwargs "central" split glob)) as Hc.
    destruct (b_set_distribution_params c a (obj_kwargs "central" split glob)) as [c' o]. cbn [fst] in *.
    rewrite (sk_mid_with_central m2 c' c Ec Hc). exact Hm2. }
  destruct (match ml_central m2 with None => _ | Some c => _ end) as [m3 o3]. cbn [fst] in H3.
  destruct o3 as [a3|]; [|exact H3].
  destruct (ml_unknown m3) as [k|] eqn:Ek; [|exact H3].
  pose proof (sk_bi_dists_set_dist k a (obj_kwargs "unknown" split glob)) as Hk.
  destruct (b_set_distribution_params k a (obj_kwargs "unknown" split glob)) as [k' o]. cbn [fst] in *.
  rewrite (sk_mid_with_unknown m3 k' k Ek Hk). exact H3.
Qed.
Lemma sk_mid_set_params m a kw : sk_mid (fst (m_set_params m a kw)) = sk_mid m.
Proof.
  unfold m_set_params. destruct (m_get_params m true) as [ps|]; [|reflexivity].
  destruct (popat a _) as [[before last] after].
  destruct (match match kw_get ["midext"; "prob"] kw with Some v => Some v | None => last end with
            | None => Some m | Some v => option_map (ml_with_midext m) (check_unit v) end) as [m0|] eqn:E0; [|reflexivity].
  assert (H0 : sk_mid m0 = sk_mid m).
  { destruct (match kw_get ["midext"; "prob"] kw with Some v => Some v | None => last end) as [v|].
    - destruct (check_unit v) as [q|]; cbn [option_map] in E0; [|discriminate]. injection E0 as <-. apply sk_mid_with_midext.
    - injection E0 as <-. reflexivity. }
  apply (andthen_fst (fun s => sk_mid s = sk_mid m)).
  - rewrite sk_mid_set_spread. exact H0.
  - intros s a' Hs. rewrite sk_mid_set_dist. exact Hs.
Qed.

(** HPVUnilateral *)
Lemma sk_hpv_with h p n : sk_uni p = sk_uni (h_hpv h) -> sk_uni n = sk_uni (h_nohpv h) -> sk_hpv (h_with h p n) = sk_hpv h.
Proof. intros Hp Hn. unfold sk_hpv, h_with. cbn [h_hpv h_nohpv]. rewrite Hp, Hn. reflexivity. Qed.
Lemma sk_hpv_set_tumor h a kw : sk_hpv (fst (h_set_tumor_spread_params h a kw)) = sk_hpv h.
Proof.
  unfold h_set_tumor_spread_params. destruct (hpv_kwargs kw) as [pkw nkw].
  pose proof (sk_uni_set_tumor (h_hpv h) a pkw) as Hp. destruct (u_set_tumor_spread_params (h_hpv h) a pkw) as [p' [a1|]]; cbn [fst] in Hp.
  - pose proof (sk_uni_set_tumor (h_nohpv h) a1 nkw) as Hn. destruct (u_set_tumor_spread_params (h_nohpv h) a1 nkw) as [n' [a2|]]; cbn [fst] in Hn.
    + pose proof (sk_uni_sync sel_lnl p' n') as Hs. destruct (u_sync sel_lnl p' n') as [n'' ok]. cbn [fst] in *.
      apply sk_hpv_with; [exact Hp | rewrite Hs; exact Hn].
    + cbn [fst]. apply sk_hpv_with; assumption.
  - cbn [fst]. apply sk_hpv_with; [exact Hp | reflexivity].
Qed.
Lemma sk_hpv_set_lnl h a kw : sk_hpv (fst (h_set_lnl_spread_params h a kw)) = sk_hpv h.
Proof.
  unfold h_set_lnl_spread_params. destruct (hpv_kwargs kw) as [pkw nkw].
  pose proof (sk_uni_set_lnl (h_hpv h) a pkw) as Hp. destruct (u_set_lnl_spread_params (h_hpv h) a pkw) as [p' [a1|]]; cbn [fst] in Hp.
  - pose proof (sk_uni_set_lnl (h_nohpv h) a1 nkw) as Hn. destruct (u_set_lnl_spread_params (h_nohpv h) a1 nkw) as [n' o]. cbn [fst] in *.
    apply sk_hpv_with; assumption.
  - cbn [fst]. apply sk_hpv_with; [exact Hp | reflexivity].
Qed.
Lemma sk_hpv_set_dist h a kw : sk_hpv (fst (h_set_distribution_params h a kw)) = sk_hpv h.
Proof.
  unfold h_set_distribution_params. destruct (unflatten_and_split kw _) as [split glob].
  pose proof (sk_uni_set_dist (h_hpv h) a (obj_kwargs "hpv" split glob)) as Hp.
  destruct (u_set_distribution_params (h_hpv h) a (obj_kwargs "hpv" split glob)) as [p' [a1|]]; cbn [fst] in Hp.
  - pose proof (sk_uni_set_dist (h_nohpv h) a (obj_kwargs "nohpv" split glob)) as Hn.
    destruct (u_set_distribution_params (h_nohpv h) a (obj_kwargs "nohpv" split glob)) as [n' o]. cbn [fst] in *.
    apply sk_hpv_with; assumption.
  - cbn [fst]. apply sk_hpv_with; [exact Hp | reflexivity].
Qed.
Lemma sk_hpv_set_params h a kw : sk_hpv (fst (h_set_params h a kw)) = sk_hpv h.
Proof.
  unfold h_set_params. apply (andthen_fst (fun s => sk_hpv s = sk_hpv h)).
  - unfold h_set_spread_params. apply (andthen_fst (fun s => sk_hpv s = sk_hpv h)); [apply sk_hpv_set_tumor|].
    intros s a' Hs. rewrite sk_hpv_set_lnl. exact Hs.
  - intros s a' Hs. rewrite sk_hpv_set_dist. exact Hs.
Qed.

(** all classes *)
Lemma sk_model_set_params m a kw : sk_model (fst (set_params m a kw)) = sk_model m.
Proof.
  destruct m as [u|b|ml|h]; cbn [set_params].
  - pose proof (sk_uni_set_params u a kw) as H. destruct (u_set_params u a kw). cbn [fst sk_model] in *. rewrite H. reflexivity.
  - pose proof (sk_bi_set_params b a kw) as H. destruct (b_set_params b a kw). cbn [fst sk_model] in *. rewrite H. reflexivity.
  - pose proof (sk_mid_set_params ml a kw) as H. destruct (m_set_params ml a kw). cbn [fst sk_model] in *. rewrite H. reflexivity.
  - pose proof (sk_hpv_set_params h a kw) as H. destruct (h_set_params h a kw). cbn [fst sk_model] in *. rewrite H. reflexivity.
Qed.
Lemma sk_model_safe_set np m g : sk_model (fst (safe_set_params np m g)) = sk_model m.
Proof.
  assert (H : forall a kw, sk_model (fst (set_named_params np m a kw)) = sk_model m).
  { intros a kw. unfold set_named_params. destruct (named_params np m) as [names|]; [|reflexivity].
    destruct (forallb _ _); [|reflexivity].
    pose proof (sk_model_set_params m [] (kw_update kw (dict_of (combine names a)))) as Hs.
    destruct (set_params m [] _) as [m' [r|]]; exact Hs. }
  destruct g; [reflexivity | apply H | apply H].
Qed.
Lemma sk_model_likelihood_given R (lik : model -> R) np m g : sk_model (fst (likelihood_given R lik np m g)) = sk_model m.
Proof.
  unfold likelihood_given. pose proof (sk_model_safe_set np m g) as H. destruct (safe_set_params np m g) as [m' r]. exact H.
Qed.
Theorem config_preserved : C12_config_preserved_stmt.
Proof.
  intros R lik np m gs. unfold same_config, after_given. revert m.
  induction gs as [|g r IH]; intros m; [reflexivity|]. cbn [run_given].
  pose proof (sk_model_likelihood_given R lik np m g) as H1. destruct (likelihood_given R lik np m g) as [m1 x]. cbn [fst] in H1.
  specialize (IH m1). destruct (run_given R lik np m1 r) as [m2 xs]. cbn [fst] in *. rewrite IH. exact H1.
Qed.

(** * Objects of the same configuration *)
Lemma sk_edge_fields tri e1 e2 : sk_edge tri e1 = sk_edge tri e2 ->
  e_name e1 = e_name e2 /\ e_parent e1 = e_parent e2 /\ e_child e1 = e_child e2 /\ e_kind e1 = e_kind e2
  /\ (has_micro tri e1 = false -> e_micro e1 = e_micro e2).
Proof.
  intros H.
  assert (Hk : e_kind e1 = e_kind e2).
  { apply (f_equal e_kind) in H. unfold sk_edge in H. destruct (has_micro tri e1), (has_micro tri e2); exact H. }
  assert (Hm : has_micro tri e1 = has_micro tri e2) by (unfold has_micro, is_lnl_spread; rewrite Hk; reflexivity).
  unfold sk_edge in H. rewrite <- Hm in H. destruct (has_micro tri e1);
    unfold with_micro, with_spread in H; cbn in H; injection H; intros; repeat split; try assumption; try discriminate; intros _; assumption.
Qed.
Lemma edge_put_sk tri e1 e2 qs : sk_edge tri e1 = sk_edge tri e2 -> length qs = length (edge_params tri e1) ->
  edge_put tri e1 qs = edge_put tri e2 qs.
Proof.
  intros H Hl. destruct (sk_edge_fields tri e1 e2 H) as (Hn & Hp & Hc & Hk & Hm).
  rewrite edge_params_cases in Hl.
  assert (Hmicro : length qs = 1 -> e_micro e1 = e_micro e2).
  { intros H1. apply Hm. destruct (is_growth e1) eqn:Eg; [apply growth_no_micro, Eg|].
    destruct (has_micro tri e1); [cbn in Hl; lia | reflexivity]. }
  destruct qs as [|s [|mm [|? ?]]]; cbn [edge_put].
  - destruct (is_growth e1); [|destruct (has_micro tri e1)]; cbn in Hl; lia.
  - specialize (Hmicro eq_refl). destruct e1, e2; cbn in *; subst. reflexivity.
  - destruct e1, e2; cbn in *; subst. reflexivity.
  - destruct (is_growth e1); [|destruct (has_micro tri e1)]; cbn in Hl; lia.
Qed.

Definition agree (tri : bool) (P : edge -> bool) (e1 e2 : edge) : Prop :=
  sk_edge tri e1 = sk_edge tri e2 /\ (P e1 = true -> e1 = e2).
Lemma agree_kind tri P e1 e2 : agree tri P e1 e2 -> e_kind e1 = e_kind e2.
Proof. intros [H _]. apply (sk_edge_fields tri e1 e2 H). Qed.
Lemma edge_params_length_kind tri e e' : e_kind e = e_kind e' -> length (edge_params tri e) = length (edge_params tri e').
Proof. intros H. rewrite <- (map_length fst), (edge_params_keys_kind tri e e' H), map_length. reflexivity. Qed.

Lemma edges_put_agree tri sel P : kind_sel sel -> forall es1 es2 qs,
  Forall2 (agree tri P) es1 es2 -> length qs = length (sel_params tri sel es1) ->
  Forall2 (agree tri (fun e => P e || sel e)) (edges_put tri sel es1 qs) (edges_put tri sel es2 qs).
Proof.
  intros Hsel es1 es2 qs HF. revert qs. induction HF as [|e1 e2 r1 r2 Ha HF IH]; intros qs Hl; [constructor|].
  pose proof (agree_kind tri P e1 e2 Ha) as Hk. cbn [edges_put]. rewrite <- (Hsel e1 e2 Hk).
  rewrite sel_params_cons in Hl. destruct (sel e1) eqn:Es.
  - rewrite app_length, pre_length in Hl. rewrite <- (edge_params_length_kind tri e1 e2 Hk).
    set (k := length (edge_params tri e1)) in *.
    assert (He : edge_put tri e1 (firstn k qs) = edge_put tri e2 (firstn k qs)).
    { apply edge_put_sk; [apply Ha | rewrite firstn_length; fold k; lia]. }
    constructor.
    + rewrite He. split; [reflexivity | intros _; reflexivity].
    + apply IH. rewrite skipn_length. lia.
  - cbn [app] in Hl. constructor; [|apply IH, Hl].
    destruct Ha as [Hs Hp]. split; [exact Hs|]. rewrite Es, orb_false_r. exact Hp.
Qed.
Lemma agree_all_eq tri P l1 l2 : (forall e, P e = true) -> Forall2 (agree tri P) l1 l2 -> l1 = l2.
Proof. intros HP HF. induction HF as [|e1 e2 r1 r2 [_ He] _ IH]; [reflexivity|]. rewrite (He (HP e1)), IH. reflexivity. Qed.
Lemma agree_init tri l1 : forall l2, map (sk_edge tri) l1 = map (sk_edge tri) l2 -> Forall2 (agree tri (fun _ => false)) l1 l2.
Proof.
  induction l1 as [|e1 r1 IH]; intros [|e2 r2] H; cbn [map] in H; try discriminate; [constructor|].
  injection H as He Hr. constructor; [split; [exact He | discriminate] | apply IH, Hr].
Qed.
Lemma tumor_or_lnl e : false || is_tumor_spread e || sel_lnl e = true.
Proof. unfold sel_lnl. destruct (is_tumor_spread e); reflexivity. Qed.

(** both groups of arcs overwritten: nothing of the old values is left *)
Lemma edges_put_both_sk tri es1 es2 qT qL : map (sk_edge tri) es1 = map (sk_edge tri) es2 ->
  length qT = length (sel_params tri is_tumor_spread es1) -> length qL = length (sel_params tri sel_lnl es1) ->
  edges_put tri sel_lnl (edges_put tri is_tumor_spread es1 qT) qL = edges_put tri sel_lnl (edges_put tri is_tumor_spread es2 qT) qL.
Proof.
  intros H HT HL. apply (agree_all_eq tri (fun e => false || is_tumor_spread e || sel_lnl e)); [apply tumor_or_lnl|].
  apply (edges_put_agree tri sel_lnl (fun e => false || is_tumor_spread e) kind_sel_lnl).
  - apply (edges_put_agree tri is_tumor_spread (fun _ => false) kind_sel_tumor); [apply agree_init, H | exact HT].
  - rewrite <- (map_length fst), (sel_params_put_other tri is_tumor_spread sel_lnl es1 kind_sel_lnl tumor_not_lnl), map_length. exact HL.
Qed.

Lemma sk_uni_inv u1 u2 : sk_uni u1 = sk_uni u2 ->
  u_tri u1 = u_tri u2 /\ g_base (u_graph u1) = g_base (u_graph u2) /\ g_nodes (u_graph u1) = g_nodes (u_graph u2)
  /\ map (sk_edge (u_tri u1)) (u_edges u1) = map (sk_edge (u_tri u1)) (u_edges u2)
  /\ u_mods u1 = u_mods u2 /\ sk_dists (u_dists u1) = sk_dists (u_dists u2) /\ u_maxt u1 = u_maxt u2.
Proof.
  intros H.
  assert (Hb : g_base (u_graph u1) = g_base (u_graph u2)) by (apply (f_equal (fun u => g_base (u_graph u))) in H; exact H).
  assert (Ht : u_tri u1 = u_tri u2) by (unfold u_tri, g_tri; rewrite Hb; reflexivity).
  split; [exact Ht|]. split; [exact Hb|].
  split; [apply (f_equal (fun u => g_nodes (u_graph u))) in H; exact H|].
  split; [apply (f_equal (fun u => g_edges (u_graph u))) in H; cbn in H; rewrite <- Ht in H; exact H|].
  split; [apply (f_equal u_mods) in H; exact H|].
  split; [apply (f_equal u_dists) in H; exact H | apply (f_equal u_maxt) in H; exact H].
Qed.

Lemma shape_map_sk tri es : shape (map (sk_edge tri) es) = shape es.
Proof.
  unfold shape. rewrite map_map. apply map_ext. intros e. unfold sk_edge. destruct (has_micro tri e); reflexivity.
Qed.
Lemma sk_shape u1 u2 : sk_uni u1 = sk_uni u2 -> shape (u_edges u1) = shape (u_edges u2).
Proof.
  intros H. destruct (sk_uni_inv u1 u2 H) as (_ & _ & _ & He & _).
  rewrite <- (shape_map_sk (u_tri u1) (u_edges u1)), He. apply shape_map_sk.
Qed.
Lemma sk_sel_keys sel u1 u2 : kind_sel sel -> sk_uni u1 = sk_uni u2 ->
  map fst (u_sel_items sel u1) = map fst (u_sel_items sel u2).
Proof.
  intros Hk H. unfold u_sel_items. destruct (sk_uni_inv u1 u2 H) as (Ht & _). rewrite <- Ht.
  apply shape_sel_keys; [exact Hk | apply sk_shape, H].
Qed.

(** distributions *)
Lemma sk_dist_local_keys d : map fst (dist_local (sk_dist d)) = map fst (dist_local d).
Proof. destruct d as [p|f kws]; [reflexivity|]. cbn [sk_dist dist_local]. rewrite !map_map. reflexivity. Qed.
Lemma dist_put_sk maxt d new : dist_put maxt (sk_dist d) new = option_map (fun d' => d') (dist_put maxt d new) -> True.
Proof. trivial. Qed.
Lemma dist_put_sk_eq maxt d1 d2 new : sk_dist d1 = sk_dist d2 -> dist_put maxt d1 new = dist_put maxt d2 new.
Proof.
  destruct d1 as [p1|f1 k1], d2 as [p2|f2 k2]; cbn [sk_dist]; intros H; try discriminate.
  - injection H as ->. reflexivity.
  - injection H as -> Hk. cbn [dist_put].
    assert (Hkeys : map fst k1 = map fst k2).
    { apply (f_equal (map fst)) in Hk. rewrite !map_map in Hk. exact Hk. }
    rewrite Hkeys. reflexivity.
Qed.
Lemma dist_local_length_sk d1 d2 : sk_dist d1 = sk_dist d2 -> length (dist_local d1) = length (dist_local d2).
Proof.
  intros H. rewrite <- (map_length fst (dist_local d1)), <- (sk_dist_local_keys d1), H, sk_dist_local_keys, map_length. reflexivity.
Qed.
Lemma dists_put_sk maxt ds1 : forall ds2 new, sk_dists ds1 = sk_dists ds2 -> dists_put maxt ds1 new = dists_put maxt ds2 new.
Proof.
  induction ds1 as [|[t1 d1] r1 IH]; intros [|[t2 d2] r2] new H; cbn [sk_dists map fst snd] in H; try discriminate; [reflexivity|].
  injection H as -> Hd Hr. cbn [dists_put].
  rewrite (dist_local_length_sk d1 d2 Hd), (dist_put_sk_eq maxt d1 d2 _ Hd), (IH r2 _ Hr). reflexivity.
Qed.
Lemma dists_items_keys_sk ds1 : forall ds2, sk_dists ds1 = sk_dists ds2 -> map fst (dists_items ds1) = map fst (dists_items ds2).
Proof.
  induction ds1 as [|[t1 d1] r1 IH]; intros [|[t2 d2] r2] H; cbn [sk_dists map fst snd] in H; try discriminate; [reflexivity|].
  injection H as -> Hd Hr. cbn [dists_items flat_map fst snd]. fold (dists_items r1) (dists_items r2).
  rewrite !map_app, !pre_keys, (IH r2 Hr). f_equal. f_equal.
  rewrite <- (sk_dist_local_keys d1), Hd, sk_dist_local_keys. reflexivity.
Qed.
Lemma dist_kw_names_sk ds : dist_kw_names (sk_dists ds) = dist_kw_names ds.
Proof.
  induction ds as [|[t d] r IH]; [reflexivity|]. unfold dist_kw_names in *. cbn [sk_dists map flat_map fst snd]. unfold sk_dists in IH. rewrite IH.
  destruct d as [p|f kws]; cbn [sk_dist]; [reflexivity|]. rewrite map_map. reflexivity.
Qed.
Lemma dist_keys_ok_sk ds : dist_keys_ok (sk_dists ds) = dist_keys_ok ds.
Proof.
  induction ds as [|[t d] r IH]; [reflexivity|]. unfold dist_keys_ok in *. cbn [sk_dists map forallb fst snd]. unfold sk_dists in IH. rewrite IH.
  destruct d as [p|f kws]; cbn [sk_dist]; [reflexivity|]. rewrite map_map. reflexivity.
Qed.
Lemma sk_dists_tstages ds : map fst (sk_dists ds) = map fst ds.
Proof. unfold sk_dists. rewrite map_map. reflexivity. Qed.

Lemma u_names_ok_sk u1 u2 : sk_uni u1 = sk_uni u2 -> u_names_ok u1 = u_names_ok u2.
Proof.
  intros H. destruct (sk_uni_inv u1 u2 H) as (_ & _ & _ & _ & _ & Hd & _).
  unfold u_names_ok, u_edge_names, u_tstages.
  rewrite (shape_names _ _ (sk_shape u1 u2 H)).
  rewrite <- (sk_dists_tstages (u_dists u1)), <- (dist_keys_ok_sk (u_dists u1)), <- (dist_kw_names_sk (u_dists u1)), Hd.
  rewrite sk_dists_tstages, dist_keys_ok_sk, dist_kw_names_sk. reflexivity.
Qed.
Lemma u_dist_keys_sk u1 u2 : sk_uni u1 = sk_uni u2 -> map fst (u_dist_items u1) = map fst (u_dist_items u2).
Proof. intros H. destruct (sk_uni_inv u1 u2 H) as (_ & _ & _ & _ & _ & Hd & _). apply dists_items_keys_sk, Hd. Qed.
Lemma u_names_sk u1 u2 : sk_uni u1 = sk_uni u2 -> u_names u1 = u_names u2.
Proof.
  intros H. unfold u_names, u_items. rewrite !map_app.
  change (u_tumor_items u1) with (u_sel_items is_tumor_spread u1). change (u_tumor_items u2) with (u_sel_items is_tumor_spread u2).
  change (u_lnl_items u1) with (u_sel_items sel_lnl u1). change (u_lnl_items u2) with (u_sel_items sel_lnl u2).
  rewrite (sk_sel_keys is_tumor_spread u1 u2 kind_sel_tumor H), (sk_sel_keys sel_lnl u1 u2 kind_sel_lnl H), (u_dist_keys_sk u1 u2 H). reflexivity.
Qed.
Lemma u_items_length_sk u1 u2 : sk_uni u1 = sk_uni u2 -> length (u_items u1) = length (u_items u2).
Proof. intros H. rewrite <- !u_names_length, (u_names_sk u1 u2 H). reflexivity. Qed.
Lemma u_num_spread_sk u1 u2 : sk_uni u1 = sk_uni u2 -> u_num_spread u1 = u_num_spread u2.
Proof.
  intros H. unfold u_num_spread. rewrite <- !(map_length fst), !map_app.
  change (u_tumor_items u1) with (u_sel_items is_tumor_spread u1). change (u_tumor_items u2) with (u_sel_items is_tumor_spread u2).
  change (u_lnl_items u1) with (u_sel_items sel_lnl u1). change (u_lnl_items u2) with (u_sel_items sel_lnl u2).
  rewrite (sk_sel_keys is_tumor_spread u1 u2 kind_sel_tumor H), (sk_sel_keys sel_lnl u1 u2 kind_sel_lnl H). reflexivity.
Qed.
Lemma u_accepts_sk u1 u2 new : sk_uni u1 = sk_uni u2 -> u_accepts u1 new = u_accepts u2 new.
Proof.
  intros H. destruct (sk_uni_inv u1 u2 H) as (_ & _ & _ & _ & _ & Hd & Hm).
  unfold u_accepts. rewrite (u_num_spread_sk u1 u2 H), Hm, (dists_put_sk _ _ _ _ Hd). reflexivity.
Qed.

(** the leaf after both groups of arcs and the distributions were overwritten *)
Lemma leaf_absorb u1 u2 qT qL ds : sk_uni u1 = sk_uni u2 ->
  length qT = length (u_tumor_items u1) -> length qL = length (u_lnl_items u1) ->
  u_with_dists (u_put_sel sel_lnl (u_put_sel is_tumor_spread u1 qT) qL) ds
  = u_with_dists (u_put_sel sel_lnl (u_put_sel is_tumor_spread u2 qT) qL) ds.
Proof.
  intros H HT HL. destruct (sk_uni_inv u1 u2 H) as (Ht & Hb & Hn & He & Hm & _ & Hx).
  unfold u_put_sel, u_with_dists, u_with_graph, with_edges. cbn [u_graph u_mods u_dists u_maxt g_base g_nodes g_edges].
  change (u_tri {| u_graph := {| g_base := g_base (u_graph u1); g_nodes := g_nodes (u_graph u1);
                                 g_edges := edges_put (u_tri u1) is_tumor_spread (u_edges u1) qT |};
                   u_mods := u_mods u1; u_dists := u_dists u1; u_maxt := u_maxt u1 |}) with (u_tri u1).
  change (u_tri {| u_graph := {| g_base := g_base (u_graph u2); g_nodes := g_nodes (u_graph u2);
                                 g_edges := edges_put (u_tri u2) is_tumor_spread (u_edges u2) qT |};
                   u_mods := u_mods u2; u_dists := u_dists u2; u_maxt := u_maxt u2 |}) with (u_tri u2).
  change (u_edges {| u_graph := {| g_base := g_base (u_graph u1); g_nodes := g_nodes (u_graph u1);
                                   g_edges := edges_put (u_tri u1) is_tumor_spread (u_edges u1) qT |};
                     u_mods := u_mods u1; u_dists := u_dists u1; u_maxt := u_maxt u1 |})
    with (edges_put (u_tri u1) is_tumor_spread (u_edges u1) qT).
  change (u_edges {| u_graph := {| g_base := g_base (u_graph u2); g_nodes := g_nodes (u_graph u2);
                                   g_edges := edges_put (u_tri u2) is_tumor_spread (u_edges u2) qT |};
                     u_mods := u_mods u2; u_dists := u_dists u2; u_maxt := u_maxt u2 |})
    with (edges_put (u_tri u2) is_tumor_spread (u_edges u2) qT).
  rewrite <- Ht, <- Hb, <- Hn, <- Hm, <- Hx.
  rewrite (edges_put_both_sk (u_tri u1) (u_edges u1) (u_edges u2) qT qL He HT HL). reflexivity.
Qed.
Lemma u_put_as_sel u qT qL ds : u_put u qT qL ds = u_with_dists (u_put_sel sel_lnl (u_put_sel is_tumor_spread u qT) qL) ds.
Proof. reflexivity. Qed.

Lemma app_inv_length {A} (a1 a2 b1 b2 : list A) : length a1 = length a2 -> a1 ++ b1 = a2 ++ b2 -> a1 = a2 /\ b1 = b2.
Proof.
  revert a2. induction a1 as [|x a1 IH]; intros [|y a2] Hl H; cbn in Hl; try discriminate; [split; [reflexivity | exact H]|].
  cbn in H. injection H as -> H. destruct (IH a2 (eq_add_S _ _ Hl) H) as [-> ->]. split; reflexivity.
Qed.

Theorem uni_full_assignment_absorbing : C12_uni_full_assignment_absorbing_stmt.
Proof.
  intros u1 u2 v H1 Hsk Hl Hacc.
  assert (H2 : u_names_ok u2 = true) by (rewrite <- (u_names_ok_sk u1 u2 Hsk); exact H1).
  assert (Hn : u_names u2 = u_names u1) by (symmetry; apply u_names_sk, Hsk).
  assert (Hl2 : length v = length (u_items u2)) by (rewrite <- (u_items_length_sk u1 u2 Hsk); exact Hl).
  assert (Hacc2 : u_accepts u2 (vals v) = true) by (rewrite <- (u_accepts_sk u1 u2 _ Hsk); exact Hacc).
  set (kw := kw_of (u_names u1) v).
  assert (Hnew1 : u_new u1 [] kw = vals v) by (apply u_new_combine; [exact H1 | rewrite vals_length; exact Hl]).
  assert (Hnew2 : u_new u2 [] kw = vals v) by (unfold kw; rewrite <- Hn; apply u_new_combine; [exact H2 | rewrite vals_length; exact Hl2]).
  destruct (u_set_params_struct u1 [] kw H1) as (qT & qL & qD & ds & Hr & Hv & HlT & HlL & HD & HlD & _); [rewrite Hnew1; exact Hacc|].
  destruct (u_set_params_struct u2 [] kw H2) as (qT2 & qL2 & qD2 & ds2 & Hr2 & Hv2 & HlT2 & HlL2 & HD2 & HlD2 & _); [rewrite Hnew2; exact Hacc2|].
  rewrite Hnew1 in Hv. rewrite Hnew2 in Hv2. rewrite Hv in Hv2. apply vals_inj in Hv2.
  assert (HkT : length (u_tumor_items u1) = length (u_tumor_items u2)).
  { rewrite <- !(map_length fst). change (u_tumor_items u1) with (u_sel_items is_tumor_spread u1).
    change (u_tumor_items u2) with (u_sel_items is_tumor_spread u2). rewrite (sk_sel_keys _ u1 u2 kind_sel_tumor Hsk). reflexivity. }
  assert (HkL : length (u_lnl_items u1) = length (u_lnl_items u2)).
  { rewrite <- !(map_length fst). change (u_lnl_items u1) with (u_sel_items sel_lnl u1).
    change (u_lnl_items u2) with (u_sel_items sel_lnl u2). rewrite (sk_sel_keys _ u1 u2 kind_sel_lnl Hsk). reflexivity. }
  destruct (app_inv_length qT qT2 _ _ ltac:(lia) Hv2) as [<- Hv3].
  destruct (app_inv_length qL qL2 _ _ ltac:(lia) Hv3) as [<- <-].
  destruct (sk_uni_inv u1 u2 Hsk) as (_ & _ & _ & _ & _ & Hd & Hm).
  rewrite <- Hm, <- (dists_put_sk _ _ _ _ Hd), HD in HD2. injection HD2 as <-.
  rewrite Hr, Hr2. split; [|cbn [snd]; destruct (length (u_items u1)); reflexivity].
  rewrite <- (u_items_length_sk u1 u2 Hsk). f_equal. rewrite !u_put_as_sel. apply leaf_absorb; assumption.
Qed.

Lemma MUni_inj a b : MUni a = MUni b -> a = b.
Proof. intros H. injection H as ->. reflexivity. Qed.
Lemma MBi_inj a b : MBi a = MBi b -> a = b.
Proof. intros H. injection H as ->. reflexivity. Qed.
Lemma MMid_inj a b : MMid a = MMid b -> a = b.
Proof. intros H. injection H as ->. reflexivity. Qed.

Lemma after_given_uni R (lik : model -> R) np u gs : exists u1, after_given R lik np (MUni u) gs = MUni u1 /\ sk_uni u1 = sk_uni u.
Proof.
  pose proof (config_preserved R lik np (MUni u) gs) as H. unfold same_config in H.
  destruct (after_given R lik np (MUni u) gs) as [u1|b|ml|h]; cbn [sk_model] in H; try discriminate.
  apply MUni_inj in H. exists u1. split; [reflexivity | exact H].
Qed.

Theorem uni_rejected_then_valid : C12_uni_rejected_then_valid_stmt.
Proof.
  intros R lik u u0 gs v g H Hcfg Hl Hacc Hg.
  destruct (after_given_uni R lik None u gs) as (u1 & -> & Hsk1).
  unfold same_config in Hcfg. cbn [sk_model] in Hcfg. apply MUni_inj in Hcfg. rename Hcfg into Hsk0.
  assert (H1 : u_names_ok u1 = true) by (rewrite (u_names_ok_sk u1 u Hsk1); exact H).
  assert (H0 : u_names_ok u0 = true) by (rewrite <- (u_names_ok_sk u u0 Hsk0); exact H).
  assert (Hn1 : u_names u1 = u_names u) by (apply u_names_sk, Hsk1).
  assert (Hn0 : u_names u0 = u_names u) by (symmetry; apply u_names_sk, Hsk0).
  assert (Hlen : length (vals v) = length (u_names u)) by (rewrite vals_length, u_names_length; exact Hl).
  rewrite (likelihood_both_forms R lik None (MUni u1) (u_names u) (vals v) g);
    [| unfold named_params; rewrite (param_names_uni u1 H1), Hn1; reflexivity | apply u_names_NoDup, H | exact Hlen | exact Hg].
  rewrite (likelihood_both_forms R lik None (MUni u0) (u_names u) (vals v) g);
    [| unfold named_params; rewrite (param_names_uni u0 H0), Hn0; reflexivity | apply u_names_NoDup, H | exact Hlen | exact Hg].
  cbn [set_params]. fold (kw_of (u_names u) v).
  assert (Habs : u_set_params u1 [] (kw_of (u_names u) v) = u_set_params u0 [] (kw_of (u_names u) v)).
  { rewrite <- Hn1. apply (uni_full_assignment_absorbing u1 u0 v H1).
    - rewrite Hsk1. exact Hsk0.
    - rewrite (u_items_length_sk u1 u Hsk1). exact Hl.
    - rewrite (u_accepts_sk u1 u _ Hsk1). exact Hacc. }
  rewrite Habs. reflexivity.
Qed.

(** * Distributions: a failed update restores; validity is an invariant *)
Theorem failed_dist_update_restores : C12_failed_dist_update_restores_stmt.
Proof.
  intros maxt d a kw. destruct d as [p|f kws]; [reflexivity|]. cbn [dist_set_params].
  destruct (dist_assign kws a kw) as [new a']. destruct (all_vals new) as [kws'|]; [|reflexivity].
  destruct (fam_weights f maxt kws'); [discriminate | reflexivity].
Qed.
Lemma dist_set_valid maxt d a kw : dist_valid maxt d = true -> dist_valid maxt (fst (dist_set_params maxt d a kw)) = true.
Proof.
  intros H. destruct d as [p|f kws]; [exact H|]. cbn [dist_set_params].
  destruct (dist_assign kws a kw) as [new a']. destruct (all_vals new) as [kws'|]; [|exact H].
  destruct (fam_weights f maxt kws') eqn:E; [|exact H]. cbn [fst dist_valid]. rewrite E. reflexivity.
Qed.
Lemma set_dists_for_valid maxt split glob ds : forall a,
  forallb (fun td => dist_valid maxt (snd td)) ds = true ->
  forallb (fun td => dist_valid maxt (snd td)) (fst (set_dists_for maxt split glob ds a)) = true.
Proof.
  induction ds as [|[t d] r IH]; intros a H; [reflexivity|]. cbn [forallb snd] in H. apply andb_true_iff in H. destruct H as [Hd Hr].
  cbn [set_dists_for]. destruct d as [p|f kws].
  - specialize (IH a Hr). destruct (set_dists_for maxt split glob r a) as [r' o]. cbn [fst forallb snd] in *. rewrite IH. reflexivity.
  - pose proof (dist_set_valid maxt (Param f kws) a (obj_kwargs t split glob) Hd) as Hv.
    destruct (dist_set_params maxt (Param f kws) a (obj_kwargs t split glob)) as [d' [a'|]]; cbn [fst] in Hv.
    + specialize (IH a' Hr). destruct (set_dists_for maxt split glob r a') as [r' o]. cbn [fst forallb snd] in *. rewrite Hv, IH. reflexivity.
    + cbn [fst forallb snd]. rewrite Hv, Hr. reflexivity.
Qed.
Lemma u_set_dist_valid u a kw : u_dists_valid u = true -> u_dists_valid (fst (u_set_distribution_params u a kw)) = true.
Proof.
  intros H. unfold u_set_distribution_params. destruct (unflatten_and_split kw _) as [split glob].
  pose proof (set_dists_for_valid (u_maxt u) split glob (u_dists u) a H) as Hv.
  destruct (set_dists_for _ _ _ _ _) as [ds o]. exact Hv.
Qed.
Lemma u_graph_set_dists sel u a kw :
  u_dists (fst (lift_graph u (graph_set_params_sel sel (u_graph u) a kw))) = u_dists u
  /\ u_maxt (fst (lift_graph u (graph_set_params_sel sel (u_graph u) a kw))) = u_maxt u.
Proof. split; reflexivity. Qed.
Theorem leaf_dists_stay_valid : C12_leaf_dists_stay_valid_stmt.
Proof.
  intros u a kw H. split; [apply u_set_dist_valid, H|].
  unfold u_set_params. apply (andthen_fst (fun s => u_dists_valid s = true)).
  - unfold u_set_spread_params. apply (andthen_fst (fun s => u_dists_valid s = true)); [exact H|]. intros s a' Hs. exact Hs.
  - intros s a' Hs. apply u_set_dist_valid, Hs.
Qed.

(** * named_params declared as a literal subset of the names *)
Lemma in_combine_vals {A} (names : list A) : forall v k q, In (k, q) (combine names v) -> In (k, V q) (combine names (vals v)).
Proof.
  induction names as [|n names IH]; intros [|x v] k q H; cbn in *; try tauto.
  destruct H as [[= <- <-]|H]; [left; reflexivity | right; apply IH, H].
Qed.
Theorem uni_named_subset_scored : C12_uni_named_subset_scored_stmt.
Proof.
  intros R lik u names v g H Hnd Hincl Hl Hg r. subst r.
  rewrite (likelihood_both_forms R lik (Some names) (MUni u) names (vals v) g);
    [| unfold named_params; rewrite (param_names_uni u H); reflexivity | exact Hnd | rewrite vals_length; exact Hl | exact Hg].
  cbn [set_params fst snd].
  destruct (u_set_params u [] (combine names (vals v))) as [u' o] eqn:E. cbn [fst snd]. destruct o as [rest|]; [right | left; reflexivity].
  split; [reflexivity|]. intros k q Hin.
  change (param_items (MUni u')) with (Some (u_got u')). cbn [option_map]. f_equal.
  pose proof (uni_keyword_over_positional u [] (combine names (vals v)) k q H) as Hk. cbv zeta in Hk. rewrite E in Hk. cbn [fst snd] in Hk.
  apply Hk; [apply Hincl; apply in_combine_l in Hin; exact Hin | | discriminate].
  assert (Hnd' : NoDup (map fst (combine names (vals v)))) by (rewrite combine_keys by (rewrite vals_length; lia); exact Hnd).
  rewrite kw_last_NoDup by exact Hnd'. apply kw_get_NoDup_In; [exact Hnd' | apply in_combine_vals, Hin].
Qed.

(** * Bilateral *)
Lemma param_names_bi b : param_names (MBi b) = Some (map fst (b_got b)).
Proof. reflexivity. Qed.
Lemma param_values_bi b : param_values (MBi b) = Some (map snd (b_got b)).
Proof. reflexivity. Qed.
Lemma b_names_length b : length (map fst (b_items b)) = length (b_items b).
Proof. apply map_length. Qed.

Theorem bi_given_params_scored : C12_bi_given_params_scored_stmt.
Proof.
  intros R lik b v g H Hl Hacc Hg m'. set (names := map fst (b_items b)) in *.
  pose proof (bi_set_spec b [] (kw_of names v) H) as Hs. cbv zeta in Hs. rewrite Hacc in Hs. destruct Hs as (qs & _ & Hsnd & _).
  pose proof (bi_set_get_keyword b v H Hl) as Hk. cbv zeta in Hk. fold names in Hk.
  destruct Hk as (_ & Hvals & Hnames); [rewrite Hsnd; discriminate|].
  rewrite (likelihood_both_forms R lik None (MBi b) names (vals v) g).
  - cbn [set_params]. fold (kw_of names v).
    destruct (b_set_params b [] (kw_of names v)) as [b' o] eqn:E. cbn [fst snd] in *. subst o m'. cbn [fst snd].
    split; [reflexivity|]. rewrite param_names_bi, param_values_bi, Hnames, Hvals. split; reflexivity.
  - unfold named_params. rewrite param_names_bi, (b_got_spec b H). reflexivity.
  - apply b_items_NoDup, H.
  - rewrite vals_length. unfold names. rewrite b_names_length. exact Hl.
  - exact Hg.
Qed.

Theorem bi_invalid_gives_minus_inf : C12_bi_invalid_gives_minus_inf_stmt.
Proof.
  intros R lik b v g H Hl Hacc Hg. set (names := map fst (b_items b)) in *.
  rewrite (likelihood_both_forms R lik None (MBi b) names v g).
  - cbn [set_params fst snd]. pose proof (bi_set_spec b [] (combine names v) H) as Hs. cbv zeta in Hs. rewrite Hacc in Hs.
    destruct (b_set_params b [] (combine names v)) as [b' o]. cbn [snd] in *. subst o. reflexivity.
  - unfold named_params. rewrite param_names_bi, (b_got_spec b H). reflexivity.
  - apply b_items_NoDup, H.
  - unfold names. rewrite b_names_length. exact Hl.
  - exact Hg.
Qed.

(** lookup of a reported name in a full keyword assignment with arbitrary values *)
Lemma b_lk_combine b (vs : list val) k x : b_names_ok b = true -> length vs = length (b_items b) ->
  In (k, x) (combine (map fst (b_items b)) vs) -> b_lk (combine (map fst (b_items b)) vs) k = Some x.
Proof.
  intros Hok Hl Hin. set (names := map fst (b_items b)) in *. set (kw := combine names vs).
  assert (Hkeys : map fst kw = names) by (apply combine_keys; unfold names; rewrite map_length; lia).
  assert (Hnd : NoDup (map fst kw)) by (rewrite Hkeys; apply b_items_NoDup, Hok).
  assert (Hk : In k names) by (apply in_combine_l in Hin; exact Hin).
  assert (Hlast : kw_last k kw = Some x) by (rewrite kw_last_NoDup by exact Hnd; apply kw_get_NoDup_In; [exact Hnd | exact Hin]).
  assert (Hnone : forall k', ~ In k' names -> kw_last k' kw = None).
  { intros k' Hni. rewrite kw_last_NoDup by exact Hnd. apply kw_get_In_None. rewrite Hkeys. exact Hni. }
  destruct (b_name_form b Hok k Hk) as [(n & t & ->)|[(n & t & ->)|(n & t & -> & H1 & H2 & Hni)]].
  - cbn [b_lk String.eqb Ascii.eqb Bool.eqb]. unfold side_lk, eff. rewrite Hlast. reflexivity.
  - cbn [b_lk]. change (String.eqb "contra" "ipsi") with false. change (String.eqb "contra" "contra") with true. cbv iota.
    unfold side_lk, eff. rewrite Hlast. reflexivity.
  - rewrite b_lk_plain by assumption. unfold side_lk, eff. rewrite (Hnone _ Hni).
    unfold head_of. cbn [partition_key fst mem sides]. apply str_eqb_neq in H1, H2. rewrite H1, H2. cbn [orb]. rewrite Hlast. reflexivity.
Qed.

Lemma nth_error_combine {A B} (l : list A) : forall (l' : list B) i a b,
  nth_error l i = Some a -> nth_error l' i = Some b -> In (a, b) (combine l l').
Proof.
  induction l as [|x l IH]; intros [|y l'] [|i] a b Ha Hb; cbn in *; try discriminate.
  - injection Ha as ->. injection Hb as ->. left. reflexivity.
  - right. apply (IH l' i); assumption.
Qed.
Lemma plan_In_val lk ps : forall a k x, In k (map fst ps) -> lk k = Some x -> In x (plan lk ps a).
Proof.
  induction ps as [|[k' old] r IH]; intros a k x Hin Hlk; [destruct Hin|]. cbn [plan map fst] in *. destruct Hin as [->|Hin].
  - left. rewrite Hlk. reflexivity.
  - right. apply (IH _ k); assumption.
Qed.
Lemma all_unit_In_None l x : In x l -> check_unit x = None -> all_unit l = None.
Proof. intros Hin Hc. apply In_nth_error in Hin. destruct Hin as [i Hi]. apply (all_unit_nth_None l i x Hi Hc). Qed.

Lemma b_spread_length b : b_names_ok b = true -> length (b_spread_items b) = b_num_spread b.
Proof. intros H. unfold b_num_spread. rewrite b_items_split, app_length. lia. Qed.
Lemma b_spread_order_keys b k :
  In k (map fst (b_spread_items b))
  <-> In k (map fst (side_order is_tumor_spread (b_symT b) b ++ side_order sel_lnl (b_symL b) b)).
Proof.
  unfold b_spread_items, side_order, u_sel_items, u_tumor_items, u_lnl_items.
  destruct (b_symT b), (b_symL b); rewrite ?map_app, ?pre_app, ?map_app, ?in_app_iff; tauto.
Qed.

Theorem bi_invalid_position : C12_bi_invalid_position_stmt.
Proof.
  intros b v i x Hok Hl Hn Hx. set (names := map fst (b_items b)) in *. set (kw := combine names v).
  assert (Hi : i < length v) by (apply nth_error_Some; rewrite Hn; discriminate).
  destruct (nth_error names i) as [k|] eqn:Ek; [|apply nth_error_None in Ek; unfold names in Ek; rewrite map_length in Ek; lia].
  assert (Hlk : b_lk kw k = Some x) by (apply b_lk_combine; [exact Hok | exact Hl | apply (nth_error_combine names v i); assumption]).
  unfold b_accepts. fold kw. rewrite (b_new_split b [] kw Hok).
  set (lenT := side_len is_tumor_spread (b_symT b) b). set (lenL := side_len sel_lnl (b_symL b) b).
  assert (HnS : b_num_spread b = lenT + lenL) by apply (b_num_spread_eq b Hok).
  set (sT := side_plan is_tumor_spread (b_symT b) b [] kw). set (sL := side_plan sel_lnl (b_symL b) b (skipn lenT []) kw).
  assert (Hlen : length (sT ++ sL) = b_num_spread b) by (rewrite app_length; unfold sT, sL; rewrite !side_plan_length; fold lenT lenL; lia).
  rewrite app_assoc, firstn_app_len, skipn_app_len by exact Hlen.
  destruct (Nat.lt_ge_cases i (b_num_spread b)) as [Hlt|Hge].
  - assert (Hc : check_unit x = None) by (destruct Hx as [->|[_ Hc]]; [reflexivity | exact Hc]).
    assert (Hk : In k (map fst (b_spread_items b))).
    { unfold names in Ek. rewrite b_items_split, map_app in Ek. rewrite nth_error_app1 in Ek by (rewrite map_length, (b_spread_length b Hok); exact Hlt).
      apply nth_error_In in Ek. exact Ek. }
    apply b_spread_order_keys in Hk.
    assert (Hin : In x (sT ++ sL)).
    { unfold sT, sL. rewrite <- !(plan_side_order _ _ _ _ _ Hok). rewrite skipn_nil.
      replace (plan (b_lk kw) (side_order is_tumor_spread (b_symT b) b) [] ++ plan (b_lk kw) (side_order sel_lnl (b_symL b) b) [])
        with (plan (b_lk kw) (side_order is_tumor_spread (b_symT b) b ++ side_order sel_lnl (b_symL b) b) [])
        by (rewrite plan_app, skipn_nil; reflexivity).
      apply (plan_In_val _ _ _ k); assumption. }
    rewrite (all_unit_In_None _ x Hin Hc). reflexivity.
  - destruct Hx as [->|[Hlt _]]; [|lia].
    assert (Hk : In k (map fst (u_dist_items (b_ipsi b)))).
    { unfold names in Ek. rewrite b_items_split, map_app in Ek. rewrite nth_error_app2 in Ek by (rewrite map_length, (b_spread_length b Hok); exact Hge).
      apply nth_error_In in Ek. exact Ek. }
    assert (Hin : In Bad (plan (side_lk "ipsi" kw) (u_dist_items (b_ipsi b)) (skipn (b_num_spread b) []))).
    { rewrite <- (plan_b_lk_dists kw (b_ipsi b)) by apply (b_names_ok_parts b Hok). apply (plan_In_val _ _ _ k); assumption. }
    apply In_nth_error in Hin. destruct Hin as [j Hj].
    assert (Hjl : j < length (dists_items (u_dists (b_ipsi b)))).
    { assert (Hj' : j < length (plan (side_lk "ipsi" kw) (u_dist_items (b_ipsi b)) (skipn (b_num_spread b) []))) by (apply nth_error_Some; rewrite Hj; discriminate).
      rewrite plan_length in Hj'. exact Hj'. }
    rewrite (dists_put_Bad _ _ _ j Hj Hjl). rewrite andb_false_r. reflexivity.
Qed.

(** a plan that finds a keyword for every parameter does not look at the old values *)
Lemma plan_covered lk p1 : forall p2 a, map fst p1 = map fst p2 -> (forall k, In k (map fst p1) -> lk k <> None) ->
  plan lk p1 a = plan lk p2 a.
Proof.
  induction p1 as [|[k o1] r1 IH]; intros [|[k2 o2] r2] a Hk Hc; cbn [map fst] in Hk; try discriminate; [reflexivity|].
  injection Hk as <- Hk. cbn [plan]. destruct (lk k) eqn:E; [|exfalso; apply (Hc k); [left; reflexivity | exact E]].
  cbn [pick]. f_equal. apply IH; [exact Hk | intros k' Hk'; apply Hc; right; exact Hk'].
Qed.

Lemma sk_bi_inv b1 b2 : sk_bi b1 = sk_bi b2 ->
  sk_uni (b_ipsi b1) = sk_uni (b_ipsi b2) /\ sk_uni (b_contra b1) = sk_uni (b_contra b2)
  /\ b_symT b1 = b_symT b2 /\ b_symL b1 = b_symL b2.
Proof.
  intros H. repeat split.
  - apply (f_equal b_ipsi) in H. exact H.
  - apply (f_equal b_contra) in H. exact H.
  - apply (f_equal b_symT) in H. exact H.
  - apply (f_equal b_symL) in H. exact H.
Qed.
Lemma shape_eqb_of_shape es1 : forall es2, shape es1 = shape es2 -> shape_eqb es1 es2 = true.
Proof.
  induction es1 as [|e1 r1 IH]; intros [|e2 r2] H; cbn [shape map] in H; try discriminate; [reflexivity|].
  injection H as Hn Hk Hr. cbn [shape_eqb]. rewrite Hn, Hk, String.eqb_refl, Nat.eqb_refl. apply IH, Hr.
Qed.
Lemma keys_eqb_refl k : keys_eqb k k = true.
Proof. induction k as [|a r IH]; [reflexivity|]. cbn [keys_eqb]. rewrite path_eqb_refl. exact IH. Qed.
Lemma b_names_ok_sk b1 b2 : sk_bi b1 = sk_bi b2 -> b_names_ok b1 = true -> b_names_ok b2 = true.
Proof.
  intros Hsk H. destruct (sk_bi_inv b1 b2 Hsk) as (Hi & Hc & _ & _).
  destruct (b_names_ok_parts b1 H) as (H1 & H2 & Hshape & Htri).
  pose proof (b_dist_keys b1 H) as Hdk.
  unfold b_names_ok. rewrite <- (u_names_ok_sk _ _ Hi), <- (u_names_ok_sk _ _ Hc), H1, H2. cbn [andb].
  apply andb_true_iff. split.
  - unfold same_shape. apply andb_true_iff. split.
    + destruct (sk_uni_inv _ _ Hi) as (_ & Hbi & _). destruct (sk_uni_inv _ _ Hc) as (_ & Hbc & _).
      rewrite <- Hbi, <- Hbc. unfold b_names_ok, same_shape in H. rewrite !andb_true_iff in H. tauto.
    + apply shape_eqb_of_shape. rewrite <- (sk_shape _ _ Hi), <- (sk_shape _ _ Hc). exact Hshape.
  - unfold same_dist_keys. fold (u_dist_items (b_ipsi b2)) (u_dist_items (b_contra b2)).
    rewrite <- (u_dist_keys_sk _ _ Hi), <- (u_dist_keys_sk _ _ Hc), Hdk. apply keys_eqb_refl.
Qed.
Lemma side_order_keys_sk sel sym b1 b2 : kind_sel sel -> sk_bi b1 = sk_bi b2 ->
  map fst (side_order sel sym b1) = map fst (side_order sel sym b2).
Proof.
  intros Hk Hsk. destruct (sk_bi_inv b1 b2 Hsk) as (Hi & Hc & _ & _). unfold side_order. destruct sym.
  - apply sk_sel_keys; assumption.
  - rewrite !map_app, !pre_keys, (sk_sel_keys sel _ _ Hk Hi), (sk_sel_keys sel _ _ Hk Hc). reflexivity.
Qed.
Lemma b_set_order_keys_sk b1 b2 : sk_bi b1 = sk_bi b2 -> map fst (b_set_order b1) = map fst (b_set_order b2).
Proof.
  intros Hsk. destruct (sk_bi_inv b1 b2 Hsk) as (Hi & _ & HT & HL). rewrite !b_set_order_split, !map_app, HT, HL.
  rewrite (side_order_keys_sk is_tumor_spread _ b1 b2 kind_sel_tumor Hsk), (side_order_keys_sk sel_lnl _ b1 b2 kind_sel_lnl Hsk).
  fold (u_dist_items (b_ipsi b1)). rewrite (u_dist_keys_sk _ _ Hi). reflexivity.
Qed.
Lemma b_items_keys_sk b1 b2 : sk_bi b1 = sk_bi b2 -> map fst (b_items b1) = map fst (b_items b2).
Proof.
  intros Hsk. destruct (sk_bi_inv b1 b2 Hsk) as (Hi & Hc & HT & HL). unfold b_items. rewrite <- HT, <- HL.
  pose proof (sk_sel_keys is_tumor_spread _ _ kind_sel_tumor Hi) as HTi. pose proof (sk_sel_keys sel_lnl _ _ kind_sel_lnl Hi) as HLi.
  pose proof (sk_sel_keys is_tumor_spread _ _ kind_sel_tumor Hc) as HTc. pose proof (sk_sel_keys sel_lnl _ _ kind_sel_lnl Hc) as HLc.
  pose proof (u_dist_keys_sk _ _ Hi) as HD. unfold u_sel_items in *.
  fold (u_tumor_items (b_ipsi b1)) (u_tumor_items (b_ipsi b2)) (u_lnl_items (b_ipsi b1)) (u_lnl_items (b_ipsi b2)) in HTi, HLi.
  fold (u_tumor_items (b_contra b1)) (u_tumor_items (b_contra b2)) (u_lnl_items (b_contra b1)) (u_lnl_items (b_contra b2)) in HTc, HLc.
  destruct (b_symT b1), (b_symL b1); rewrite ?map_app, ?pre_app, ?map_app, ?pre_keys, ?HTi, ?HLi, ?HTc, ?HLc, ?HD; reflexivity.
Qed.

(** the three plans of a full keyword assignment do not depend on the current values *)
Section BiFull.
  Variables (b : bilateral) (v : list Qc).
  Hypothesis Hok : b_names_ok b = true.
  Hypothesis Hl : length v = length (b_items b).
  Let names := map fst (b_items b).
  Let kw := kw_of names v.

  Lemma bi_kw_full k : In k names -> exists x, In (k, x) (combine names (vals v)) /\ kw_last k kw = Some x.
  Proof.
    intros Hk. destruct (In_nth_error _ _ Hk) as [i Hi].
    assert (Hi' : i < length (vals v)).
    { rewrite vals_length, Hl, <- (map_length fst (b_items b)). apply nth_error_Some. fold names. rewrite Hi. discriminate. }
    destruct (nth_error (vals v) i) as [x|] eqn:Ex; [|apply nth_error_None in Ex; lia].
    assert (Hin : In (k, x) (combine names (vals v))) by (apply (nth_error_combine names (vals v) i); assumption).
    exists x. split; [exact Hin|].
    assert (Hnd : NoDup (map fst kw)).
    { unfold kw, kw_of. rewrite combine_keys by (unfold names; rewrite vals_length, map_length; lia). apply b_items_NoDup, Hok. }
    rewrite kw_last_NoDup by exact Hnd. apply kw_get_NoDup_In; [exact Hnd | exact Hin].
  Qed.
  Lemma b_lk_full k : In k names -> b_lk kw k <> None.
  Proof.
    intros Hk. destruct (bi_kw_full k Hk) as (x & Hin & _).
    unfold kw, kw_of, names in *. rewrite (b_lk_combine b (vals v) k x Hok); [discriminate | rewrite vals_length; exact Hl | exact Hin].
  Qed.
  Lemma side_order_names sel sym : (sel = is_tumor_spread /\ sym = b_symT b) \/ (sel = sel_lnl /\ sym = b_symL b) ->
    forall k, In k (map fst (side_order sel sym b)) -> In k names.
  Proof.
    intros Hs k Hk. apply b_order_same_names. rewrite b_set_order_split, !map_app, !in_app_iff.
    destruct Hs as [[-> ->]|[-> ->]]; [left | right; left]; exact Hk.
  Qed.
  Lemma dist_names k : In k (map fst (u_dist_items (b_ipsi b))) -> In k names.
  Proof. intros Hk. unfold names. rewrite b_items_split, map_app, in_app_iff. right. exact Hk. Qed.
  Lemma side_lk_contra_dist k : In k (map fst (u_dist_items (b_contra b))) -> side_lk "contra" kw k <> None.
  Proof.
    intros Hk. rewrite (b_dist_keys b Hok) in Hk. destruct (bi_kw_full k (dist_names k Hk)) as (x & _ & Hlast).
    destruct (dist_key_form (b_ipsi b) k Hk) as (t & s & -> & Ht).
    destruct (not_side_TS b Hok t Ht) as [H1 H2].
    unfold side_lk, eff. destruct (kw_last ["contra"; t; s] kw); [discriminate|].
    unfold head_of. cbn [partition_key fst mem sides]. apply str_eqb_neq in H1, H2. rewrite H1, H2. cbn [orb]. rewrite Hlast. discriminate.
  Qed.
End BiFull.

Lemma sel_len_sk sel u1 u2 : kind_sel sel -> sk_uni u1 = sk_uni u2 -> length (u_sel_items sel u1) = length (u_sel_items sel u2).
Proof. intros Hk H. rewrite <- !(map_length fst), (sk_sel_keys sel u1 u2 Hk H). reflexivity. Qed.

Lemma b_final_sk b1 b2 qsT qsL dsi dsc : sk_bi b1 = sk_bi b2 -> b_names_ok b1 = true ->
  length qsT = side_len is_tumor_spread (b_symT b1) b1 -> length qsL = side_len sel_lnl (b_symL b1) b1 ->
  b_final b1 qsT qsL dsi dsc = b_final b2 qsT qsL dsi dsc.
Proof.
  intros Hsk Hok HlT HlL. destruct (sk_bi_inv b1 b2 Hsk) as (Hi & Hc & HT & HL).
  pose proof (contra_sel_length is_tumor_spread b1 kind_sel_tumor Hok) as HcT.
  pose proof (contra_sel_length sel_lnl b1 kind_sel_lnl Hok) as HcL.
  unfold b_final, b_after_spread, side_result, b_with. cbn [b_ipsi b_contra b_symT b_symL].
  rewrite !(u_sel_items_put_other is_tumor_spread sel_lnl) by (try apply kind_sel_lnl; apply tumor_not_lnl).
  rewrite <- HT, <- HL, <- (sel_len_sk is_tumor_spread _ _ kind_sel_tumor Hi), <- (sel_len_sk sel_lnl _ _ kind_sel_lnl Hi).
  unfold side_len in HlT, HlL.
  set (nT := length (u_sel_items is_tumor_spread (b_ipsi b1))) in *. set (nL := length (u_sel_items sel_lnl (b_ipsi b1))) in *.
  f_equal.
  - apply leaf_absorb; [exact Hi | |]; rewrite firstn_length.
    + change (length (u_tumor_items (b_ipsi b1))) with nT. destruct (b_symT b1); lia.
    + change (length (u_lnl_items (b_ipsi b1))) with nL. destruct (b_symL b1); lia.
  - apply leaf_absorb; [exact Hc | |].
    + change (u_tumor_items (b_contra b1)) with (u_sel_items is_tumor_spread (b_contra b1)). rewrite HcT. fold nT.
      destruct (b_symT b1); [rewrite firstn_length | rewrite skipn_length]; lia.
    + change (u_lnl_items (b_contra b1)) with (u_sel_items sel_lnl (b_contra b1)). rewrite HcL. fold nL.
      destruct (b_symL b1); [rewrite firstn_length | rewrite skipn_length]; lia.
Qed.

Theorem bi_full_assignment_absorbing : C12_bi_full_assignment_absorbing_stmt.
Proof.
  intros b1 b2 v H1 Hsk Hl Hacc. set (names := map fst (b_items b1)) in *. set (kw := kw_of names v) in *.
  assert (H2 : b_names_ok b2 = true) by (apply (b_names_ok_sk b1 b2 Hsk H1)).
  destruct (sk_bi_inv b1 b2 Hsk) as (Hi & Hc & HT & HL).
  destruct (b_names_ok_parts b1 H1) as (Hi1 & Hc1 & _). destruct (b_names_ok_parts b2 H2) as (Hi2 & Hc2 & _).
  assert (HpT : side_plan is_tumor_spread (b_symT b2) b2 [] kw = side_plan is_tumor_spread (b_symT b1) b1 [] kw).
  { rewrite <- !plan_side_order by assumption. rewrite <- HT. symmetry. apply plan_covered.
    - apply side_order_keys_sk; [apply kind_sel_tumor | exact Hsk].
    - intros k Hk. apply (b_lk_full b1 v H1 Hl). apply (side_order_names b1 is_tumor_spread (b_symT b1)); [left; split; reflexivity | exact Hk]. }
  assert (HpL : side_plan sel_lnl (b_symL b2) b2 [] kw = side_plan sel_lnl (b_symL b1) b1 [] kw).
  { rewrite <- !plan_side_order by assumption. rewrite <- HL. symmetry. apply plan_covered.
    - apply side_order_keys_sk; [apply kind_sel_lnl | exact Hsk].
    - intros k Hk. apply (b_lk_full b1 v H1 Hl). apply (side_order_names b1 sel_lnl (b_symL b1)); [right; split; reflexivity | exact Hk]. }
  assert (HpDi : plan (side_lk "ipsi" kw) (u_dist_items (b_ipsi b2)) [] = plan (side_lk "ipsi" kw) (u_dist_items (b_ipsi b1)) []).
  { rewrite <- (plan_b_lk_dists kw (b_ipsi b2) [] Hi2), <- (plan_b_lk_dists kw (b_ipsi b1) [] Hi1). symmetry. apply plan_covered.
    - apply u_dist_keys_sk, Hi.
    - intros k Hk. apply (b_lk_full b1 v H1 Hl). apply (dist_names b1), Hk. }
  assert (HpDc : plan (side_lk "contra" kw) (u_dist_items (b_contra b2)) [] = plan (side_lk "contra" kw) (u_dist_items (b_contra b1)) []).
  { symmetry. apply plan_covered; [apply u_dist_keys_sk, Hc | intros k Hk; apply (side_lk_contra_dist b1 v H1 Hl), Hk]. }
  assert (Hsome : snd (b_set_params b1 [] kw) <> None).
  { pose proof (bi_set_spec b1 [] kw H1) as Hs. cbv zeta in Hs. rewrite Hacc in Hs. destruct Hs as (qs & _ & Hsnd & _). rewrite Hsnd. discriminate. }
  pose proof (b_set_params_steps b1 [] kw H1) as S1. pose proof (b_set_params_steps b2 [] kw H2) as S2. cbv zeta in S1, S2.
  rewrite !skipn_nil in S1, S2. rewrite HpT, HpL, HpDi, HpDc in S2.
  destruct (sk_uni_inv _ _ Hi) as (_ & _ & _ & _ & _ & Hdi & Hmi). destruct (sk_uni_inv _ _ Hc) as (_ & _ & _ & _ & _ & Hdc & Hmc).
  rewrite <- Hmi, <- Hmc, <- (dists_put_sk _ _ _ _ Hdi), <- (dists_put_sk _ _ _ _ Hdc) in S2.
  destruct (all_unit (side_plan is_tumor_spread (b_symT b1) b1 [] kw)) as [qsT|] eqn:ET; [|contradiction].
  destruct (all_unit (side_plan sel_lnl (b_symL b1) b1 [] kw)) as [qsL|] eqn:EL; [|contradiction].
  destruct (dists_put (u_maxt (b_ipsi b1)) _ _) as [dsi|]; [|contradiction].
  destruct (dists_put (u_maxt (b_contra b1)) _ _) as [dsc|]; [|contradiction].
  rewrite S1, S2. fold (b_final b1 qsT qsL dsi dsc) (b_final b2 qsT qsL dsi dsc). split; [|reflexivity].
  rewrite ?skipn_nil. f_equal. apply b_final_sk; [exact Hsk | exact H1 | |].
  - apply all_unit_length in ET. rewrite side_plan_length in ET. exact ET.
  - apply all_unit_length in EL. rewrite side_plan_length in EL. exact EL.
Qed.

Lemma after_given_bi R (lik : model -> R) np b gs : exists b1, after_given R lik np (MBi b) gs = MBi b1 /\ sk_bi b1 = sk_bi b.
Proof.
  pose proof (config_preserved R lik np (MBi b) gs) as H. unfold same_config in H.
  destruct (after_given R lik np (MBi b) gs) as [u1|b1|ml|h]; cbn [sk_model] in H; try discriminate.
  apply MBi_inj in H. exists b1. split; [reflexivity | exact H].
Qed.
Lemma b_accepts_full_sk b1 b2 v : sk_bi b1 = sk_bi b2 -> b_names_ok b1 = true -> length v = length (b_items b1) ->
  b_accepts b1 [] (kw_of (map fst (b_items b1)) v) = true -> b_accepts b2 [] (kw_of (map fst (b_items b1)) v) = true.
Proof.
  intros Hsk H1 Hl Hacc. pose proof (b_names_ok_sk b1 b2 Hsk H1) as H2.
  destruct (bi_full_assignment_absorbing b1 b2 v H1 Hsk Hl Hacc) as [Heq Hsnd].
  apply (b_not_raise_accepts b2 _ _ H2). rewrite <- Heq, Hsnd. discriminate.
Qed.

Theorem bi_rejected_then_valid : C12_bi_rejected_then_valid_stmt.
Proof.
  intros R lik b b0 gs v g H Hcfg Hl Hacc Hg.
  destruct (after_given_bi R lik None b gs) as (b1 & -> & Hsk1).
  unfold same_config in Hcfg. cbn [sk_model] in Hcfg. apply MBi_inj in Hcfg. rename Hcfg into Hsk0.
  assert (H1 : b_names_ok b1 = true) by (apply (b_names_ok_sk b b1); [symmetry; exact Hsk1 | exact H]).
  assert (H0 : b_names_ok b0 = true) by (apply (b_names_ok_sk b b0 Hsk0 H)).
  set (names := map fst (b_items b)) in *.
  assert (Hn1 : map fst (b_items b1) = names) by (apply b_items_keys_sk, Hsk1).
  assert (Hn0 : map fst (b_items b0) = names) by (symmetry; apply b_items_keys_sk, Hsk0).
  assert (Hlen : length (vals v) = length names) by (rewrite vals_length; unfold names; rewrite map_length; exact Hl).
  rewrite (likelihood_both_forms R lik None (MBi b1) names (vals v) g);
    [| unfold named_params; rewrite param_names_bi, (b_got_spec b1 H1), Hn1; reflexivity | apply b_items_NoDup, H | exact Hlen | exact Hg].
  rewrite (likelihood_both_forms R lik None (MBi b0) names (vals v) g);
    [| unfold named_params; rewrite param_names_bi, (b_got_spec b0 H0), Hn0; reflexivity | apply b_items_NoDup, H | exact Hlen | exact Hg].
  cbn [set_params]. fold (kw_of names v).
  destruct (bi_full_assignment_absorbing b b1 v H (eq_sym Hsk1) Hl Hacc) as [E1 _].
  destruct (bi_full_assignment_absorbing b b0 v H Hsk0 Hl Hacc) as [E0 _].
  fold names in E1, E0. rewrite <- E1, <- E0. reflexivity.
Qed.

Theorem bi_named_subset_scored : C12_bi_named_subset_scored_stmt.
Proof.
  intros R lik b names v g H Hnd Hincl Hl Hg r. subst r.
  rewrite (likelihood_both_forms R lik (Some names) (MBi b) names (vals v) g);
    [| unfold named_params; rewrite param_names_bi; reflexivity | exact Hnd | rewrite vals_length; exact Hl | exact Hg].
  cbn [set_params fst snd]. set (kw := combine names (vals v)).
  destruct (b_set_params b [] kw) as [b' o] eqn:E. cbn [fst snd]. destruct o as [rest|]; [right | left; reflexivity].
  split; [reflexivity|]. intros k q Hin.
  change (param_items (MBi b')) with (Some (b_got b')). cbn [option_map]. f_equal.
  pose proof (bi_keyword_over_positional b [] kw k q H) as Hk. cbv zeta in Hk. rewrite E in Hk. cbn [fst snd] in Hk.
  assert (Hkn : In k (map fst (b_items b))) by (apply Hincl; apply in_combine_l in Hin; exact Hin).
  apply Hk; [exact Hkn | | discriminate].
  (* the keyword reaches the parameter: the only more specific spelling, "ipsi_" ++ k, is not a declared name *)
  assert (Hnd' : NoDup (map fst kw)) by (unfold kw; rewrite combine_keys by (rewrite vals_length; lia); exact Hnd).
  assert (Hkeys : map fst kw = names) by (unfold kw; apply combine_keys; rewrite vals_length; lia).
  assert (Hlast : kw_last k kw = Some (V q)).
  { rewrite kw_last_NoDup by exact Hnd'. apply kw_get_NoDup_In; [exact Hnd' | apply in_combine_vals, Hin]. }
  assert (Hnone : forall k', ~ In k' (map fst (b_items b)) -> kw_last k' kw = None).
  { intros k' Hni. rewrite kw_last_NoDup by exact Hnd'. apply kw_get_In_None. rewrite Hkeys. intros Hx. apply Hni, Hincl, Hx. }
  destruct (b_name_form b H k Hkn) as [(n & t & ->)|[(n & t & ->)|(n & t & -> & Hn1 & Hn2 & Hni)]].
  - cbn [b_lk String.eqb Ascii.eqb Bool.eqb]. unfold side_lk, eff. rewrite Hlast. reflexivity.
  - cbn [b_lk]. change (String.eqb "contra" "ipsi") with false. change (String.eqb "contra" "contra") with true. cbv iota.
    unfold side_lk, eff. rewrite Hlast. reflexivity.
  - rewrite b_lk_plain by assumption. unfold side_lk, eff. rewrite (Hnone _ Hni).
    unfold head_of. cbn [partition_key fst mem sides]. apply str_eqb_neq in Hn1, Hn2. rewrite Hn1, Hn2. cbn [orb]. rewrite Hlast. reflexivity.
Qed.

(** * HPVUnilateral (known finding D8): refutations by concrete witnesses *)
Definition C12_hpv : hpvmodel := new_hpv (new_uni C10_g2 [("early", Param 0 [("p", qc 1 2)])] 3).
Definition C12_hpv_names : list path :=
  [["hpv"; "TtoII"; "spread"]; ["hpv"; "TtoIII"; "spread"]; ["nohpv"; "TtoII"; "spread"]; ["IItoIII"; "spread"]; ["early"; "p"]].

Theorem hpv_not_at_v_refuted : C12_hpv_not_at_v_refuted_stmt.
Proof.
  exists C12_hpv, C12_hpv_names, [qc 1 10; qc 2 10; qc 3 10; qc 4 10; qc 1 4].
  split; [vm_compute; reflexivity|]. split; [reflexivity|]. split; [vm_compute; reflexivity|].
  intros R lik g [-> | ->]; cbv zeta; (split; [vm_compute; reflexivity|]);
    intros H; apply (f_equal (option_map (map qout))) in H; vm_compute in H; discriminate H.
Qed.
Theorem hpv_invalid_not_rejected_refuted : C12_hpv_invalid_not_rejected_refuted_stmt.
Proof.
  exists C12_hpv, C12_hpv_names, [Bad; V (qc 2 1); Bad; V (qc 1 2); V (qc 1 4)].
  split; [vm_compute; reflexivity|]. split; [reflexivity|]. split; [left; reflexivity|]. split; [right; left; reflexivity|].
  intros R lik g [-> | ->]; eexists; vm_compute; reflexivity.
Qed.
