(** Numpy: list semantics of the numpy primitives that the source translator (harness/translate2.py) maps Python
    expressions to, and the lemmas the generated equality proofs use.  The definitions are the translator's reading of
    numpy (trusted base); every lemma below is proved, nothing is assumed. *)
From LymphModel Require Import Base States Linalg.
Local Open Scope nat_scope.

(** np.arange(n).reshape(n, -1): an n x 1 column *)
Definition np_col {A} (v : list A) : list (list A) := map (fun a => [a]) v.
(** np.tile(M, (a, b)) for a 2-D M: every row repeated b times side by side, the block of rows a times *)
Definition np_tile2 {A} (M : list (list A)) (a b : nat) : list (list A) := tile a (map (tile b) M).
(** np.repeat(M, k, axis=0) / axis=1 *)
Definition np_repeat0 {A} (M : list (list A)) (k : nat) : list (list A) := repeat_each k M.
Definition np_repeat1 {A} (M : list (list A)) (k : nat) : list (list A) := map (repeat_each k) M.
(** rows filled one by one: result = zeros((R, _)); for i in range(R): result[i] = f i *)
Definition np_fill_rows {A} (R : nat) (f : nat -> A) : list A := map f (seq 0 R).
(** q ** n for a natural exponent *)
Fixpoint qpow (q : Qc) (n : nat) : Qc := match n with O => 1%Qc | S n' => (q * qpow q n')%Qc end.

Lemma tile_single {A} (a : A) m : tile m [a] = repeat a m.
Proof. induction m as [|m IH]; cbn [tile repeat app]; [reflexivity|]. rewrite IH. reflexivity. Qed.
Lemma map_tile {A B} (f : A -> B) k l : map f (tile k l) = tile k (map f l).
Proof. induction k as [|k IH]; cbn [tile map]; [reflexivity|]. rewrite map_app, IH. reflexivity. Qed.
Lemma map_repeat' {A B} (f : A -> B) a k : map f (repeat a k) = repeat (f a) k.
Proof. induction k as [|k IH]; cbn [repeat map]; [reflexivity|]. rewrite IH. reflexivity. Qed.
Lemma map_repeat_each {A B} (f : A -> B) k l : map f (repeat_each k l) = repeat_each k (map f l).
Proof.
  unfold repeat_each. induction l as [|a l IH]; cbn [flat_map map]; [reflexivity|].
  rewrite map_app, IH, map_repeat'. reflexivity.
Qed.
Lemma tile_one {A} (l : list A) : tile 1 l = l.
Proof. cbn [tile]. apply app_nil_r. Qed.
Lemma repeat_each_one {A} (l : list A) : repeat_each 1 l = l.
Proof. unfold repeat_each. induction l as [|a l IH]; cbn [flat_map]; [reflexivity|]. rewrite IH. reflexivity. Qed.

(** utils.get_state_idx_matrix read with the numpy semantics above: every column is [state_idx_col] *)
Lemma np_state_idx_matrix b k n :
  np_repeat0 (np_tile2 (np_col (seq 0 b)) (b ^ k) (b ^ n)) (b ^ (n - k - 1))
  = map (fun c => repeat c (b ^ n)) (state_idx_col k n b).
Proof.
  unfold np_repeat0, np_tile2, np_col, state_idx_col.
  rewrite map_map.
  rewrite (map_ext (fun a => tile (b ^ n) [a]) (fun a => repeat a (b ^ n))) by (intros a; apply tile_single).
  rewrite map_repeat_each, map_tile. reflexivity.
Qed.

(** utils.tile_and_repeat applied to a 1-D element (numpy promotes it to one row), row 0 *)
Lemma np_tile_and_repeat_row {A} (el : list A) t r :
  nth 0 (np_repeat1 (np_repeat0 (np_tile2 [el] 1 t) 1) r) [] = repeat_each r (tile t el).
Proof.
  unfold np_repeat1, np_repeat0, np_tile2. cbn [map]. rewrite tile_one, repeat_each_one. reflexivity.
Qed.

(** row-filling loop = map2 *)
Lemma np_fill_rows_map2 {A B C} (f : A -> B -> C) (da : A) (db : B) (la : list A) (lb : list B) :
  length la = length lb ->
  np_fill_rows (length la) (fun i => f (nth i la da) (nth i lb db)) = map2 f la lb.
Proof.
  unfold np_fill_rows. revert lb. induction la as [|a la IH]; intros [|b lb] H; cbn [length] in H; try discriminate;
    [reflexivity|].
  cbn [length seq map map2 nth]. f_equal. rewrite <- seq_shift, map_map. cbn [nth]. apply IH. lia.
Qed.

(** folds *)
Lemma fold_left_map_acc {A B C} (g : C -> B -> C) (f : A -> B) l : forall acc,
  fold_left g (map f l) acc = fold_left (fun c a => g c (f a)) l acc.
Proof. induction l as [|a l IH]; intros acc; cbn [map fold_left]; [reflexivity|]. apply IH. Qed.

Open Scope Qc_scope.
Lemma fold_mul_zero {A} (f : A -> Qc) l : fold_left (fun acc x => acc * f x) l 0 = 0.
Proof. induction l as [|a l IH]; cbn [fold_left]; [reflexivity|]. replace (0 * f a) with 0 by ring. exact IH. Qed.

(** a multiplicative accumulation that stops ("break") as soon as the product is zero computes the full product *)
Lemma fold_break_mul {A} (f : A -> Qc) l : forall acc (stop : bool), (stop = true -> acc = 0) ->
  fst (fold_left (fun (st : Qc * bool) x =>
         let '(acc, stop) := st in
         if stop then (acc, stop) else (acc * f x, Qc_eqb (acc * f x) 0)) l (acc, stop))
  = fold_left (fun acc x => acc * f x) l acc.
Proof.
  induction l as [|a l IH]; intros acc stop H; cbn [fold_left]; [reflexivity|].
  destruct stop.
  - rewrite (H eq_refl). replace (0 * f a) with 0 by ring. rewrite fold_mul_zero.
    rewrite <- (fold_mul_zero f l) at 2. apply IH. intros _. reflexivity.
  - apply IH. unfold Qc_eqb. destruct (Qc_eq_dec (acc * f a) 0) as [E|E]; [intros _; exact E|discriminate].
Qed.

Lemma fold_break_mul_ext {A} (step : Qc * bool -> A -> Qc * bool) (f : A -> Qc) :
  (forall acc stop x, step (acc, stop) x = if stop then (acc, stop) else (acc * f x, Qc_eqb (acc * f x) 0)) ->
  forall l acc (stop : bool), (stop = true -> acc = 0) ->
  fst (fold_left step l (acc, stop)) = fold_left (fun acc x => acc * f x) l acc.
Proof.
  intros Hstep l acc stop H. rewrite <- (fold_break_mul f l acc stop H). f_equal.
  generalize (acc, stop). induction l as [|a l IH]; intros st; cbn [fold_left]; [reflexivity|].
  rewrite IH. destruct st as [c b]. rewrite Hstep. reflexivity.
Qed.

Lemma qpow_m1_0 : qpow (-(1)) 0 = 1.  Proof. reflexivity. Qed.
Lemma qpow_m1_1 : qpow (-(1)) 1 = -(1).  Proof. cbn [qpow]. ring. Qed.
