(** Monotone (C14): irreversibility and monotonicity of the progression model.

    The theorems are about the Spec quantities of Transition.v / Unilateral.v
    ([trans_spec], [evo_spec], [prior_spec]); C05 / C07 identify these with what the
    code computes ([generate_transition], [state_dist_evo], [state_dist]), and the
    C14 harness additionally compares [marg] below with
    [Unilateral.marginalize(involvement={lnl: True | "macro"}, given_state_dist=...)]
    of the implementation.

    This file: definitions and the [C14_*_stmt] statements only (proofs in
    MonotoneProofs.v, closed in properties/C14.v). *)
From LymphModel Require Import Base States Linalg Graph Transition Observation Dist Unilateral.
Local Open Scope nat_scope.
Open Scope Qc_scope.

(** * The observed quantity *)
(** [marg g t i a] = P_t(x_i >= a): probability, after [t] time steps from the
    all-healthy state, that LNL number [i] (position in [lnls g]) is in a state >= a.
    a = 1: involved (binary: state 1; trinary: micro- or macroscopic);
    a = 2: macroscopically involved (trinary).
    This is marginalize(involvement={lnl: True}) resp. {lnl: "macro"} applied to row
    [t] of state_dist_evo(). *)
Definition marg (g : graph) (t i a : nat) : Qc :=
  sumQ (map (fun x => if (a <=? digit i x)%nat then evo_spec g t x else 0) (state_list g)).

(** the same marginal of the time-marginalised prior [prior_spec] (= state_dist(t_stage)
    for the T-stage whose diagnosis-time pmf is [pm], C07_state_dist_spec) *)
Definition prior_marg (u : uni) (pm : vec) (i a : nat) : Qc :=
  sumQ (map (fun x => if (a <=? digit i x)%nat then prior_spec u pm x else 0) (u_states u)).

(** sum over time of pmf(t) * P_t(x_i >= a) *)
Definition time_marg (g : graph) (pm : vec) (i a : nat) : Qc :=
  sumQ (map (fun '(t, w) => w * marg g t i a) (combine (seq 0 (length pm)) pm)).

(** ** Executable forms (what the correspondence check evaluates) *)
(** [evo_spec] recomputes the whole history for every state; [evo_vec] carries the
    row of the previous time step along.  [C14_marg_fast_stmt] identifies the two. *)
Definition step_vec (g : graph) (v : vec) : vec :=
  map (fun y => sumQ (map (fun '(x, p) => p * trans_spec g x y) (combine (state_list g) v))) (state_list g).
Fixpoint evo_vec (g : graph) (t : nat) : vec :=
  match t with
  | O => map (evo_spec g 0) (state_list g)
  | S t' => step_vec g (evo_vec g t')
  end.
Definition marg_of (g : graph) (v : vec) (i a : nat) : Qc :=
  sumQ (map (fun '(x, p) => if (a <=? digit i x)%nat then p else 0) (combine (state_list g) v)).
Definition marg_fast (g : graph) (t i a : nat) : Qc := marg_of g (evo_vec g t) i a.
(** rows t = 0 .. T; per LNL the pair (P_t(involved), P_t(macroscopic)) *)
Definition marg_table (g : graph) (T : nat) : list (list (list Qc)) :=
  map (fun t => let v := evo_vec g t in
                map (fun i => [marg_of g v i 1; marg_of g v i 2]) (seq 0 (nlnls g)))
      (seq 0 (S T)).
Definition time_marg_fast (g : graph) (pm : vec) (i a : nat) : Qc :=
  sumQ (map (fun '(t, w) => w * marg_fast g t i a) (combine (seq 0 (length pm)) pm)).

Definition C14_marg_fast_stmt : Prop :=
  (forall g t i a, marg_fast g t i a = marg g t i a) /\
  (forall g pm i a, time_marg_fast g pm i a = time_marg g pm i a) /\
  (forall g T, marg_table g T
     = map (fun t => map (fun i => [marg g t i 1; marg g t i 2]) (seq 0 (nlnls g))) (seq 0 (S T))).

(** boolean forms of the hypotheses, for concrete graphs *)
Definition unit_arcb (e : edge) : bool :=
  Qc_leb 0 (e_spread e) && Qc_leb (e_spread e) 1 && Qc_leb 0 (e_micro e) && Qc_leb (e_micro e) 1.
Definition params_in_unitb (g : graph) : bool := forallb unit_arcb (g_edges g).

(** * Time *)
(** Holds for every position [i] and every threshold [a] (for a = 0 and a >= 3 both
    sides are 1 resp. 0; for i >= nlnls g the digit is read as 0). *)
Definition C14_time_monotone_stmt : Prop :=
  forall g t i a, wf_graphb g = true -> params_in_unit g ->
    marg g t i a <= marg g (S t) i a.

(** * Parameters *)
(** Two graphs with the same base, nodes and arcs (names, end points, kinds), that may
    differ in the numeric parameters of the arcs only.  [set_edges] produces such
    graphs ([same_skeleton_set_edges] in MonotoneProofs.v). *)
Definition arc_same (e e' : edge) : Prop :=
  e_name e = e_name e' /\ e_parent e = e_parent e' /\ e_child e = e_child e' /\ e_kind e = e_kind e'.
Definition same_skeleton (g g' : graph) : Prop :=
  g_base g = g_base g' /\ g_nodes g = g_nodes g' /\ Forall2 arc_same (g_edges g) (g_edges g').
(** every spread / growth probability ([e_spread] of a tumour, LNL or growth arc) and
    every micro modifier ([e_micro]) of [g] is at most the one of [g'] *)
Definition arc_le (e e' : edge) : Prop :=
  e_spread e <= e_spread e' /\ e_micro e <= e_micro e'.
Definition params_le (g g' : graph) : Prop := Forall2 arc_le (g_edges g) (g_edges g').

Definition C14_param_monotone_stmt : Prop :=
  forall g g' t i a, wf_graphb g = true -> same_skeleton g g' ->
    params_in_unit g -> params_in_unit g' -> params_le g g' ->
    marg g t i a <= marg g' t i a.

(** The property's wording: ONE coordinate (the spread probability of a tumour or LNL
    arc, the growth probability = [e_spread] of a growth arc, or the micro modifier of
    an LNL arc) is increased, all others stay fixed.  The arc called [name] gets the
    new pair (sp, mi), which must not be below its current pair (take [mi] = its
    current micro modifier to move the spread alone, and vice versa). *)
Definition C14_single_coordinate_stmt : Prop :=
  forall g name sp mi t i a, wf_graphb g = true -> params_in_unit g ->
    0 <= sp <= 1 -> 0 <= mi <= 1 ->
    (forall e, In e (g_edges g) -> e_name e = name -> e_spread e <= sp /\ e_micro e <= mi) ->
    marg g t i a <= marg (set_edges g [(name, (sp, mi))]) t i a.

(** * Diagnosis-time distributions *)
Definition tail_sum (k : nat) (pm : vec) : Qc := sumQ (skipn k pm).
(** [pm'] is stochastically later than [pm]: same length, same total mass, and every
    tail sum of [pm] is at most the tail sum of [pm'].  (Non-negativity of the
    weights is not needed.) *)
Definition st_le (pm pm' : vec) : Prop :=
  length pm = length pm' /\ sumQ pm = sumQ pm' /\ forall k, tail_sum k pm <= tail_sum k pm'.

Definition C14_prior_marg_stmt : Prop :=
  forall u pm i a, length pm = S (u_maxt u) ->
    prior_marg u pm i a = time_marg (u_graph u) pm i a.

Definition C14_later_diagnosis_monotone_stmt : Prop :=
  forall u pm pm' i a, wf_graphb (u_graph u) = true -> params_in_unit (u_graph u) ->
    length pm = S (u_maxt u) -> st_le pm pm' ->
    prior_marg u pm i a <= prior_marg u pm' i a.

(** * Unreachable LNLs *)
(** An LNL is reachable when a tumour arc with non-zero spread enters it, or an LNL
    arc with non-zero spread enters it from a reachable LNL.  (A sound
    over-approximation of "can become involved": a trinary parent whose only
    microscopic contribution is spread * micro = 0 and that can never grow is still
    counted as able to spread.) *)
Inductive reachable (g : graph) : string -> Prop :=
| reach_tumor e : In e (g_edges g) -> e_kind e = ETumor -> e_spread e <> 0 ->
    reachable g (e_child e)
| reach_lnl e : In e (g_edges g) -> e_kind e = ELnl -> e_spread e <> 0 ->
    reachable g (e_parent e) -> reachable g (e_child e).

(** A checkable certificate: a set [U] of LNLs such that every arc into [U] is a
    growth arc, has spread 0, or is an LNL arc that starts in [U].  No member of such
    a set is reachable ([C14_unreachable_cert_stmt]). *)
Definition unreachable_cert (g : graph) (U : list string) : bool :=
  forallb (fun e => negb (mem (e_child e) U) || is_growth e || Qc_eqb (e_spread e) 0
                    || (negb (is_tumor_spread e) && mem (e_parent e) U)) (g_edges g).
Definition C14_unreachable_cert_stmt : Prop :=
  forall g U l, unreachable_cert g U = true -> In l U -> ~ reachable g l.

(** every state of positive probability has the unreachable LNL healthy ... *)
Definition C14_unreachable_support_stmt : Prop :=
  forall g l t x, wf_graphb g = true -> In l (lnls g) -> ~ reachable g l ->
    In x (state_list g) -> evo_spec g t x <> 0 -> digit (index_of l (lnls g)) x = 0%nat.
(** ... hence it is involved with probability zero at every time *)
Definition C14_unreachable_stays_healthy_stmt : Prop :=
  forall g l t, wf_graphb g = true -> In l (lnls g) -> ~ reachable g l ->
    marg g t (index_of l (lnls g)) 1 = 0.
