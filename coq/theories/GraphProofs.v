(** Proofs of the C19 statements (GraphStatements.v) about Graph.v. *)
From LymphModel Require Import Base States Graph Transition GraphStatements.
Local Open Scope nat_scope.

(** * Strings, membership, duplicates *)
Lemma seqb_eq a b : str_eqb a b = true <-> a = b.
Proof. apply String.eqb_eq. Qed.
Lemma seqb_neq a b : str_eqb a b = false <-> a <> b.
Proof. apply String.eqb_neq. Qed.
Lemma seqb_refl a : str_eqb a a = true.
Proof. apply String.eqb_refl. Qed.

Lemma gmem_In s l : mem s l = true <-> In s l.
Proof.
  induction l as [|a l IH]; cbn [mem In]; [split; [discriminate|tauto]|].
  rewrite orb_true_iff, IH, seqb_eq. split; intros [H|H]; auto.
Qed.
Lemma gmem_nIn s l : mem s l = false <-> ~ In s l.
Proof. rewrite <- gmem_In. destruct (mem s l); split; intros; try reflexivity; try discriminate. exfalso; auto. Qed.

Lemma nodupb_NoDup l : nodupb l = true <-> NoDup l.
Proof.
  induction l as [|a l IH]; cbn [nodupb]; [split; [constructor|reflexivity]|].
  rewrite andb_true_iff, negb_true_iff, gmem_nIn, IH. split.
  - intros [H1 H2]. constructor; assumption.
  - intros H. inversion H; subst. split; assumption.
Qed.
Lemma nodupb_false l : nodupb l = false <-> ~ NoDup l.
Proof. rewrite <- nodupb_NoDup. destruct (nodupb l); split; intros; try reflexivity; try discriminate. exfalso; auto. Qed.

Lemma dedup_length_le l : length (dedup l) <= length l.
Proof. induction l as [|a l IH]; cbn [dedup length]; [lia|]. destruct (mem a l); cbn [length]; lia. Qed.
Lemma dedup_length_eq l : Nat.eqb (length (dedup l)) (length l) = nodupb l.
Proof.
  induction l as [|a l IH]; cbn [dedup length nodupb]; [reflexivity|].
  destruct (mem a l); cbn [negb andb length].
  - apply Nat.eqb_neq. pose proof (dedup_length_le l). lia.
  - exact IH.
Qed.

(** * List helpers *)
Lemma NoDup_app_l {A} (l1 l2 : list A) : NoDup (l1 ++ l2) -> NoDup l1.
Proof.
  induction l1 as [|a l1 IH]; cbn [app]; intros H; [constructor|].
  apply NoDup_cons_iff in H; destruct H as [H2 H3]. constructor; [|apply IH; assumption].
  intros Hin. apply H2. apply in_or_app. left. exact Hin.
Qed.
Lemma NoDup_app_r {A} (l1 l2 : list A) : NoDup (l1 ++ l2) -> NoDup l2.
Proof. induction l1 as [|a l1 IH]; cbn [app]; intros H; [exact H|]. inversion H; subst. apply IH. assumption. Qed.
Lemma NoDup_app_disj {A} (l1 l2 : list A) x : NoDup (l1 ++ l2) -> In x l1 -> ~ In x l2.
Proof.
  induction l1 as [|a l1 IH]; cbn [app]; intros H Hin; [destruct Hin|].
  apply NoDup_cons_iff in H; destruct H as [H2 H3]. destruct Hin as [<-|Hin].
  - intros Hx. apply H2. apply in_or_app. right. assumption.
  - apply IH; assumption.
Qed.
Lemma NoDup_app_intro {A} (l1 l2 : list A) :
  NoDup l1 -> NoDup l2 -> (forall x, In x l1 -> ~ In x l2) -> NoDup (l1 ++ l2).
Proof.
  induction l1 as [|a l1 IH]; cbn [app]; intros H1 H2 Hd; [exact H2|].
  apply NoDup_cons_iff in H1; destruct H1 as [H3 H4]. constructor.
  - intros Hin. apply in_app_or in Hin. destruct Hin as [Hin|Hin]; [contradiction|].
    apply (Hd a); [left; reflexivity|exact Hin].
  - apply IH; try assumption. intros x Hx. apply Hd. right. exact Hx.
Qed.
Lemma NoDup_map_filter {A B} (f : A -> B) (p : A -> bool) l : NoDup (map f l) -> NoDup (map f (filter p l)).
Proof.
  induction l as [|a l IH]; cbn [map filter]; intros H; [constructor|].
  apply NoDup_cons_iff in H; destruct H as [H2 H3]. destruct (p a); cbn [map]; [|apply IH; assumption].
  constructor; [|apply IH; assumption].
  intros Hin. apply H2. apply in_map_iff in Hin. destruct Hin as [x [Hx Hin]].
  apply filter_In in Hin. apply in_map_iff. exists x. tauto.
Qed.
Lemma NoDup_map_inj_in {A B} (f : A -> B) l a b :
  NoDup (map f l) -> In a l -> In b l -> f a = f b -> a = b.
Proof.
  induction l as [|h l IH]; cbn [map]; intros H Ha Hb Hf; [destruct Ha|].
  apply NoDup_cons_iff in H; destruct H as [H2 H3]. destruct Ha as [<-|Ha], Hb as [<-|Hb]; try reflexivity.
  - exfalso. apply H2. rewrite Hf. apply in_map. exact Hb.
  - exfalso. apply H2. rewrite <- Hf. apply in_map. exact Ha.
  - apply IH; assumption.
Qed.
Lemma filter_flat_map {A B} (p : B -> bool) (f : A -> list B) l :
  filter p (flat_map f l) = flat_map (fun a => filter p (f a)) l.
Proof.
  induction l as [|a l IH]; cbn [flat_map filter]; [reflexivity|].
  rewrite filter_app, IH. reflexivity.
Qed.
Lemma filter_map_comm {A B} (p : B -> bool) (f : A -> B) l :
  filter p (map f l) = map f (filter (fun a => p (f a)) l).
Proof.
  induction l as [|a l IH]; cbn [map filter]; [reflexivity|].
  destruct (p (f a)); cbn [map]; rewrite IH; reflexivity.
Qed.
Lemma filter_all {A} (p : A -> bool) l : (forall a, In a l -> p a = true) -> filter p l = l.
Proof.
  induction l as [|a l IH]; cbn [filter]; intros H; [reflexivity|].
  rewrite H by (left; reflexivity). rewrite IH; [reflexivity|]. intros; apply H; right; assumption.
Qed.
Lemma filter_none {A} (p : A -> bool) l : (forall a, In a l -> p a = false) -> filter p l = [].
Proof.
  induction l as [|a l IH]; cbn [filter]; intros H; [reflexivity|].
  rewrite H by (left; reflexivity). apply IH. intros; apply H; right; assumption.
Qed.
Lemma flat_map_nil {A B} (f : A -> list B) l : (forall a, In a l -> f a = []) -> flat_map f l = [].
Proof.
  induction l as [|a l IH]; cbn [flat_map]; intros H; [reflexivity|].
  rewrite H by (left; reflexivity). apply IH. intros; apply H; right; assumption.
Qed.
Lemma flat_map_select {A B} (key : A -> string) (F : A -> list B) l e :
  NoDup (map key l) -> In e l ->
  flat_map (fun h => if str_eqb (key h) (key e) then F h else []) l = F e.
Proof.
  induction l as [|h l IH]; cbn [map flat_map]; intros H Hin; [destruct Hin|].
  apply NoDup_cons_iff in H; destruct H as [H2 H3].
  destruct (str_eqb (key h) (key e)) eqn:E.
  - apply seqb_eq in E.
    assert (h = e).
    { destruct Hin as [->|Hin]; [reflexivity|]. exfalso. apply H2. rewrite E. apply in_map. exact Hin. }
    subst h. rewrite flat_map_nil; [apply app_nil_r|].
    intros a Ha. destruct (str_eqb (key a) (key e)) eqn:E2; [|reflexivity].
    apply seqb_eq in E2. exfalso. apply H2. rewrite <- E2. apply in_map. exact Ha.
  - cbn [app]. apply IH; [assumption|]. destruct Hin as [->|Hin]; [|exact Hin].
    rewrite seqb_refl in E. discriminate.
Qed.

(** * Dictionaries as association lists *)
Lemma dict_set_fresh {V} k (v : V) acc : ~ In k (map fst acc) -> dict_set k v acc = acc ++ [(k, v)].
Proof.
  induction acc as [|[k' v'] acc IH]; cbn [dict_set map fst In app]; intros H; [reflexivity|].
  destruct (str_eqb k k') eqn:E.
  - apply seqb_eq in E. exfalso. apply H. left. symmetry. exact E.
  - rewrite IH; [reflexivity|]. intros Hin. apply H. right. exact Hin.
Qed.
Lemma dict_get_In {V} k (v : V) l : NoDup (map fst l) -> In (k, v) l -> dict_get k l = Some v.
Proof.
  induction l as [|[k' v'] l IH]; cbn [map fst dict_get]; intros H Hin; [destruct Hin|].
  apply NoDup_cons_iff in H; destruct H as [H2 H3]. destruct Hin as [Heq|Hin].
  - inversion Heq; subst. rewrite seqb_refl. reflexivity.
  - destruct (str_eqb k k') eqn:E.
    + apply seqb_eq in E. subst k'. exfalso. apply H2. apply in_map_iff. exists (k, v). split; [reflexivity|exact Hin].
    + apply IH; assumption.
Qed.
Lemma dict_get_Some_In {V} k (v : V) l : dict_get k l = Some v -> In (k, v) l.
Proof.
  induction l as [|[k' v'] l IH]; cbn [dict_get]; intros H; [discriminate|].
  destruct (str_eqb k k') eqn:E.
  - apply seqb_eq in E. inversion H; subst. left. reflexivity.
  - right. apply IH. exact H.
Qed.
(** successive assignments of fresh keys append *)
Lemma dict_set_all_fresh (xs : list edge) : forall acc,
  NoDup (map fst acc ++ map e_name xs) ->
  fold_left (fun a x => dict_set (e_name x) x a) xs acc = acc ++ map (fun x => (e_name x, x)) xs.
Proof.
  induction xs as [|x xs IH]; intros acc H; cbn [fold_left map].
  - rewrite app_nil_r. reflexivity.
  - cbn [map] in H. rewrite dict_set_fresh.
    + rewrite IH.
      * rewrite <- app_assoc. reflexivity.
      * rewrite map_app. cbn [map fst]. rewrite <- app_assoc. exact H.
    + intros Hin. apply (NoDup_app_disj _ _ _ H Hin). left. reflexivity.
Qed.

(** * check_unique_names *)
Lemma check_conns_app d1 d2 : check_conns d1 = None -> check_conns (d1 ++ d2) = check_conns d2.
Proof.
  induction d1 as [|[[ty nm] c] d1 IH]; cbn [app check_conns]; intros H; [reflexivity|].
  destruct c as [l|l]; [|discriminate].
  destruct (negb (nodupb l)); [discriminate|]. destruct (mem nm l); [discriminate|]. apply IH. exact H.
Qed.
Lemma check_conns_None d :
  check_conns d = None <->
  forall e, In e d -> is_list (snd e) = true /\ nodupb (ent_conns e) = true /\ mem (ent_name e) (ent_conns e) = false.
Proof.
  induction d as [|[[ty nm] c] d IH]; cbn [check_conns].
  - split; [intros _ e []|reflexivity].
  - destruct c as [l|l].
    + destruct (nodupb l) eqn:E1; cbn [negb].
      * destruct (mem nm l) eqn:E2.
        -- split; [discriminate|]. intros H. destruct (H _ (or_introl eq_refl)) as [_ [_ H3]].
           unfold ent_name, ent_conns in H3. cbn in H3. congruence.
        -- rewrite IH. split.
           ++ intros H e [<-|Hin]; [|apply H; exact Hin]. unfold ent_name, ent_conns. cbn. auto.
           ++ intros H e Hin. apply H. right. exact Hin.
      * split; [discriminate|]. intros H. destruct (H _ (or_introl eq_refl)) as [_ [H2 _]].
        unfold ent_conns in H2. cbn in H2. congruence.
    + split; [discriminate|]. intros H. destruct (H _ (or_introl eq_refl)) as [H1 _]. cbn in H1. discriminate.
Qed.
Lemma check_unique_names_spec d :
  check_unique_names d =
  match check_conns d with Some e => Some e | None => if nodupb (dict_names d) then None else Some EDupName end.
Proof.
  unfold check_unique_names. destruct (check_conns d); [reflexivity|].
  change (map (fun e : string * string * conns => snd (fst e)) d) with (dict_names d).
  replace (length d) with (length (dict_names d)) by apply map_length.
  rewrite dedup_length_eq. reflexivity.
Qed.

(** * _init_nodes *)
Lemma lnl_not_tumor e : is_lnl_ent e = true -> is_tumor_ent e = false.
Proof. unfold is_lnl_ent, is_tumor_ent. intros H. apply seqb_eq in H. rewrite H. reflexivity. Qed.
Lemma tumor_not_lnl e : is_tumor_ent e = true -> is_lnl_ent e = false.
Proof. unfold is_lnl_ent, is_tumor_ent. intros H. apply seqb_eq in H. rewrite H. reflexivity. Qed.

Definition mk_node (e : entry) : string * node := (ent_name e, {| n_tumor := is_tumor_ent e; n_name := ent_name e |}).
Definition node_of (e : entry) : list (string * node) :=
  if is_tumor_ent e || is_lnl_ent e then [mk_node e] else [].
Definition nodes_spec (d : gdict) : list (string * node) := flat_map node_of d.

Lemma init_nodes_spec d : forall acc,
  NoDup (map fst acc ++ dict_names d) -> init_nodes d acc = acc ++ nodes_spec d.
Proof.
  induction d as [|[[ty nm] c] d IH]; intros acc H; cbn [init_nodes nodes_spec flat_map].
  - rewrite app_nil_r. reflexivity.
  - cbn [dict_names map] in H. change (ent_name (ty, nm, c)) with nm in H.
    assert (Hfresh : ~ In nm (map fst acc)).
    { intros Hin. apply (NoDup_app_disj _ _ _ H Hin). left. reflexivity. }
    assert (Hnext : forall v : node, NoDup (map fst (acc ++ [(nm, v)]) ++ dict_names d)).
    { intros v. rewrite map_app. cbn [map fst]. rewrite <- app_assoc. exact H. }
    unfold node_of, mk_node, is_tumor_ent, is_lnl_ent, ent_kind, ent_name. cbn [fst snd].
    destruct (str_eqb ty "tumor") eqn:Et; cbn [orb].
    + rewrite dict_set_fresh by exact Hfresh. rewrite (IH _ (Hnext _)). rewrite <- app_assoc. reflexivity.
    + destruct (str_eqb ty "lnl") eqn:El.
      * rewrite dict_set_fresh by exact Hfresh. rewrite (IH _ (Hnext _)). rewrite <- app_assoc. reflexivity.
      * cbn [app]. apply IH. apply NoDup_remove_1 in H. exact H.
Qed.

Lemma nodes_spec_keys d : map fst (nodes_spec d) = map ent_name (filter (fun e => is_tumor_ent e || is_lnl_ent e) d).
Proof.
  induction d as [|e d IH]; cbn [nodes_spec flat_map filter map]; [reflexivity|].
  rewrite map_app. fold (nodes_spec d). rewrite IH. unfold node_of.
  destruct (is_tumor_ent e || is_lnl_ent e); reflexivity.
Qed.
Lemma nodes_spec_NoDup d : NoDup (dict_names d) -> NoDup (map fst (nodes_spec d)).
Proof. intros H. rewrite nodes_spec_keys. apply NoDup_map_filter. exact H. Qed.
Lemma nodes_spec_all d : forallb (fun e => is_tumor_ent e || is_lnl_ent e) d = true -> nodes_spec d = map mk_node d.
Proof.
  induction d as [|e d IH]; cbn [forallb nodes_spec flat_map map]; intros H; [reflexivity|].
  apply andb_true_iff in H. destruct H as [H1 H2]. fold (nodes_spec d). rewrite (IH H2).
  unfold node_of. rewrite H1. reflexivity.
Qed.
Lemma nodes_spec_tumors d :
  filter (fun kv => n_tumor (snd kv)) (nodes_spec d) = map mk_node (filter is_tumor_ent d).
Proof.
  induction d as [|e d IH]; cbn [nodes_spec flat_map filter map]; [reflexivity|].
  rewrite filter_app. fold (nodes_spec d). rewrite IH. unfold node_of.
  destruct (is_tumor_ent e) eqn:Et; cbn [orb filter mk_node snd n_tumor].
  - rewrite Et. reflexivity.
  - destruct (is_lnl_ent e); cbn [filter mk_node snd n_tumor]; try rewrite Et; reflexivity.
Qed.
Lemma nodes_spec_lnls d :
  filter (fun kv => negb (n_tumor (snd kv))) (nodes_spec d) = map mk_node (filter is_lnl_ent d).
Proof.
  induction d as [|e d IH]; cbn [nodes_spec flat_map filter map]; [reflexivity|].
  rewrite filter_app. fold (nodes_spec d). rewrite IH. unfold node_of.
  destruct (is_tumor_ent e) eqn:Et; cbn [orb filter mk_node snd n_tumor].
  - rewrite Et. cbn [negb]. rewrite (tumor_not_lnl _ Et). reflexivity.
  - destruct (is_lnl_ent e); cbn [filter mk_node snd n_tumor]; try rewrite Et; reflexivity.
Qed.

Lemma dict_get_start d e :
  NoDup (dict_names d) -> In e d -> is_tumor_ent e || is_lnl_ent e = true ->
  dict_get (ent_name e) (nodes_spec d) = Some (snd (mk_node e)).
Proof.
  intros Hnd Hin Hk. apply dict_get_In; [apply nodes_spec_NoDup; exact Hnd|].
  unfold nodes_spec. apply in_flat_map. exists e. split; [exact Hin|].
  unfold node_of. rewrite Hk. left. reflexivity.
Qed.
Lemma dict_get_target d c :
  NoDup (dict_names d) -> In c (lnl_names d) ->
  dict_get c (nodes_spec d) = Some {| n_tumor := false; n_name := c |}.
Proof.
  intros Hnd Hin. unfold lnl_names in Hin. apply in_map_iff in Hin. destruct Hin as [e [<- Hin]].
  apply filter_In in Hin. destruct Hin as [Hin Hl].
  rewrite (dict_get_start d e Hnd Hin) by (rewrite Hl; apply orb_true_r).
  unfold mk_node. cbn [snd]. rewrite (lnl_not_tumor _ Hl). reflexivity.
Qed.
Lemma dict_get_nodes_inv d k n :
  dict_get k (nodes_spec d) = Some n ->
  exists e, In e d /\ ent_name e = k /\ is_tumor_ent e || is_lnl_ent e = true /\ n_tumor n = is_tumor_ent e.
Proof.
  intros H. apply dict_get_Some_In in H. unfold nodes_spec in H. apply in_flat_map in H.
  destruct H as [e [Hin H]]. unfold node_of in H. destruct (is_tumor_ent e || is_lnl_ent e) eqn:E; [|destruct H].
  destruct H as [H|[]]. unfold mk_node in H. inversion H; subst. exists e. cbn. auto.
Qed.

Lemma mem_tumor_names d e : NoDup (dict_names d) -> In e d -> mem (ent_name e) (tumor_names d) = is_tumor_ent e.
Proof.
  intros Hnd Hin. destruct (is_tumor_ent e) eqn:E.
  - apply gmem_In. unfold tumor_names. apply in_map. apply filter_In. auto.
  - apply gmem_nIn. intros H. unfold tumor_names in H. apply in_map_iff in H. destruct H as [e' [Hn H]].
    apply filter_In in H. destruct H as [Hin' Ht].
    assert (e' = e) by (apply (NoDup_map_inj_in ent_name d); assumption). subst. congruence.
Qed.
Lemma mem_lnl_names d e : NoDup (dict_names d) -> In e d -> mem (ent_name e) (lnl_names d) = is_lnl_ent e.
Proof.
  intros Hnd Hin. destruct (is_lnl_ent e) eqn:E.
  - apply gmem_In. unfold lnl_names. apply in_map. apply filter_In. auto.
  - apply gmem_nIn. intros H. unfold lnl_names in H. apply in_map_iff in H. destruct H as [e' [Hn H]].
    apply filter_In in H. destruct H as [Hin' Ht].
    assert (e' = e) by (apply (NoDup_map_inj_in ent_name d); assumption). subst. congruence.
Qed.

(** * _init_edges *)
Definition set_edge_in (a : list (string * edge)) (x : edge) := dict_set (e_name x) x a.

Lemma mk_edge_spec tri e c :
  mk_edge tri (snd (mk_node e)) {| n_tumor := false; n_name := c |} = spec_spread_edge e c.
Proof. unfold mk_edge, mk_node, spec_spread_edge. cbn [snd n_tumor n_name]. destruct (is_tumor_ent e); reflexivity. Qed.

Lemma init_conn_edges_fold tri nodes e ends :
  (forall c, In c ends -> dict_get c nodes = Some {| n_tumor := false; n_name := c |}) ->
  forall acc, init_conn_edges tri nodes (snd (mk_node e)) ends acc
              = inr (fold_left set_edge_in (map (spec_spread_edge e) ends) acc).
Proof.
  induction ends as [|c ends IH]; intros H acc; cbn [init_conn_edges map fold_left]; [reflexivity|].
  rewrite (H c) by (left; reflexivity). cbn [n_tumor]. rewrite mk_edge_spec.
  apply IH. intros c' Hc'. apply H. right. exact Hc'.
Qed.

Lemma init_edges_fold tri nodes d0 :
  (forall e, In e d0 ->
     dict_get (ent_name e) nodes = Some (snd (mk_node e)) /\
     negb (is_tumor_ent e) = is_lnl_ent e /\
     forall c, In c (ent_conns e) -> dict_get c nodes = Some {| n_tumor := false; n_name := c |}) ->
  forall acc, init_edges tri nodes d0 acc = inr (fold_left set_edge_in (spec_edges tri d0) acc).
Proof.
  induction d0 as [|e d0 IH]; intros H acc; [reflexivity|].
  destruct (H e (or_introl eq_refl)) as [Hs [Hk Hc]].
  destruct e as [[ty nm] c]. cbn [init_edges].
  change nm with (ent_name (ty, nm, c)) at 1. rewrite Hs.
  change (conns_items c) with (ent_conns (ty, nm, c)).
  rewrite init_conn_edges_fold by exact Hc.
  cbn [spec_edges flat_map]. fold (spec_edges tri d0). unfold spec_entry_edges.
  rewrite !fold_left_app.
  rewrite IH by (intros e' He'; apply H; right; exact He').
  f_equal. f_equal. f_equal.
  unfold mk_node at 1 2. cbn [snd n_tumor]. rewrite Hk.
  destruct (is_lnl_ent (ty, nm, c) && tri); reflexivity.
Qed.

Lemma spec_edges_names tri d : map e_name (spec_edges tri d) = arc_names tri d.
Proof.
  unfold spec_edges, arc_names. rewrite map_flat_map. apply flat_map_ext. intros e.
  unfold spec_entry_edges. rewrite map_app, map_map. f_equal.
  destruct (is_lnl_ent e && tri); reflexivity.
Qed.

(** * The graph of a valid dictionary, explicitly *)
Record valid_facts (base : nat) (d : gdict) : Prop := {
  vf_base : base = 2 \/ base = 3;
  vf_lists : forall e, In e d -> is_list (snd e) = true;
  vf_kinds : forallb (fun e => is_tumor_ent e || is_lnl_ent e) d = true;
  vf_names : NoDup (dict_names d);
  vf_nodup_conns : forall e, In e d -> nodupb (ent_conns e) = true;
  vf_noself : forall e, In e d -> mem (ent_name e) (ent_conns e) = false;
  vf_targets : forall e c, In e d -> In c (ent_conns e) -> In c (lnl_names d);
  vf_tumor : tumor_names d <> [];
  vf_lnl : lnl_names d <> [];
  vf_arcs : NoDup (arc_names (Nat.eqb base 3) d) }.

Lemma length_nonzero {A} (l : list A) : negb (Nat.eqb (length l) 0) = true -> l <> [].
Proof. destruct l; [discriminate|intros _; discriminate]. Qed.

Lemma valid_dict_facts base d : valid_dict base d = true -> valid_facts base d.
Proof.
  unfold valid_dict. rewrite !andb_true_iff.
  intros [[[[[[[[[Hb Hl] Hk] Hn] Hdc] Hs] Ht] Htu] Hln] Ha].
  rewrite forallb_forall in Hl, Hdc, Hs, Ht.
  constructor.
  - apply orb_true_iff in Hb. destruct Hb as [Hb|Hb]; apply Nat.eqb_eq in Hb; auto.
  - exact Hl.
  - exact Hk.
  - apply nodupb_NoDup. exact Hn.
  - exact Hdc.
  - intros e He. apply negb_true_iff. apply Hs. exact He.
  - intros e c He Hc. specialize (Ht e He). rewrite forallb_forall in Ht. apply gmem_In. apply Ht. exact Hc.
  - apply length_nonzero. exact Htu.
  - apply length_nonzero. exact Hln.
  - apply nodupb_NoDup. exact Ha.
Qed.

Lemma kinds_in d e : forallb (fun e => is_tumor_ent e || is_lnl_ent e) d = true -> In e d ->
  is_tumor_ent e || is_lnl_ent e = true.
Proof. intros H. rewrite forallb_forall in H. apply H. Qed.
Lemma kind_negb e : is_tumor_ent e || is_lnl_ent e = true -> negb (is_tumor_ent e) = is_lnl_ent e.
Proof.
  destruct (is_tumor_ent e) eqn:Et; cbn [orb negb].
  - intros _. symmetry. apply tumor_not_lnl. exact Et.
  - intros H. symmetry. exact H.
Qed.

Definition graph_of (base : nat) (d : gdict) : graph :=
  {| g_base := base; g_nodes := map (fun e => snd (mk_node e)) d; g_edges := spec_edges (Nat.eqb base 3) d |}.

Lemma nonempty_length {A} (l : list A) : l <> [] -> Nat.eqb (length l) 0 = false.
Proof. destruct l; [congruence|reflexivity]. Qed.

Lemma build_graph_valid base d : valid_dict base d = true -> build_graph base d = inr (graph_of base d).
Proof.
  intros Hv. apply valid_dict_facts in Hv. destruct Hv.
  unfold build_graph. rewrite check_unique_names_spec.
  assert (Hcc : check_conns d = None).
  { apply check_conns_None. intros e He. auto. }
  rewrite Hcc. apply nodupb_NoDup in vf_names0 as Hnb. rewrite Hnb.
  rewrite (init_nodes_spec d []) by exact vf_names0. cbn [app].
  rewrite nodes_spec_tumors, nodes_spec_lnls, !map_length.
  unfold tumor_names in vf_tumor0. unfold lnl_names in vf_lnl0.
  rewrite nonempty_length by (intros E; apply vf_tumor0; rewrite E; reflexivity).
  rewrite nonempty_length by (intros E; apply vf_lnl0; rewrite E; reflexivity).
  rewrite init_edges_fold.
  - unfold set_edge_in. rewrite dict_set_all_fresh.
    + cbn [app]. unfold graph_of. f_equal. f_equal.
      * rewrite (nodes_spec_all d vf_kinds0), map_map. reflexivity.
      * rewrite map_map. cbn [snd]. apply map_id.
    + cbn [map app]. rewrite spec_edges_names. exact vf_arcs0.
  - intros e He. pose proof (kinds_in d e vf_kinds0 He) as Hk. split; [|split].
    + apply dict_get_start; assumption.
    + apply kind_negb. exact Hk.
    + intros c Hc. apply dict_get_target; [assumption|]. apply (vf_targets0 e); assumption.
Qed.

(** accessors of the explicit graph *)
Lemma graph_of_tumors base d : tumors (graph_of base d) = tumor_names d.
Proof.
  unfold tumors, graph_of, tumor_names. cbn [g_nodes].
  rewrite filter_map_comm, map_map. cbn [mk_node snd n_tumor n_name]. reflexivity.
Qed.
Lemma graph_of_lnls base d : forallb (fun e => is_tumor_ent e || is_lnl_ent e) d = true ->
  lnls (graph_of base d) = lnl_names d.
Proof.
  intros Hk. unfold lnls, graph_of, lnl_names. cbn [g_nodes].
  rewrite filter_map_comm, map_map. cbn [mk_node snd n_tumor n_name].
  rewrite (filter_ext_in _ is_lnl_ent); [reflexivity|].
  intros e He. apply kind_negb. apply (kinds_in d); assumption.
Qed.

(** * Theorems *)
Lemma nodes_in_order : C19_nodes_in_order_stmt.
Proof.
  intros base d Hv. exists (graph_of base d). pose proof (valid_dict_facts _ _ Hv) as F.
  split; [apply build_graph_valid; exact Hv|]. split; [reflexivity|]. split; [|split].
  - unfold graph_of. cbn [g_nodes]. rewrite map_map. reflexivity.
  - apply graph_of_tumors.
  - apply graph_of_lnls. apply F.
Qed.

Lemma spread_not_growth e c : is_growth (spec_spread_edge e c) = false.
Proof. unfold is_growth, spec_spread_edge. cbn [e_kind]. destruct (is_tumor_ent e); reflexivity. Qed.

Lemma spec_edges_nongrowth tri d :
  filter (fun x => negb (is_growth x)) (spec_edges tri d) = flat_map (fun e => map (spec_spread_edge e) (ent_conns e)) d.
Proof.
  unfold spec_edges. rewrite filter_flat_map. apply flat_map_ext. intros e.
  unfold spec_entry_edges. rewrite filter_app.
  rewrite (filter_all _ (map _ _)).
  - destruct (is_lnl_ent e && tri); reflexivity.
  - intros x Hx. apply in_map_iff in Hx. destruct Hx as [c [<- _]]. rewrite spread_not_growth. reflexivity.
Qed.
Lemma spec_edges_growth tri d :
  filter is_growth (spec_edges tri d) = if tri then map spec_growth_edge (lnl_names d) else [].
Proof.
  unfold spec_edges. rewrite filter_flat_map.
  induction d as [|e d IH]; cbn [flat_map]; [destruct tri; reflexivity|].
  rewrite IH. unfold spec_entry_edges at 1. rewrite filter_app.
  rewrite (filter_none _ (map _ _)).
  - unfold lnl_names. cbn [filter]. destruct (is_lnl_ent e), tri; reflexivity.
  - intros x Hx. apply in_map_iff in Hx. destruct Hx as [c [<- _]]. apply spread_not_growth.
Qed.

Lemma edges_one_per_connection : C19_edges_one_per_connection_stmt.
Proof.
  intros base d g Hv Hg. rewrite (build_graph_valid _ _ Hv) in Hg. inversion Hg; subst g. clear Hg.
  pose proof (valid_dict_facts _ _ Hv) as F.
  unfold growth_edges. cbn [graph_of g_edges].
  split; [reflexivity|]. split; [apply spec_edges_nongrowth|]. split; [|split; [apply spec_edges_growth|split]].
  - rewrite spec_edges_nongrowth. unfold connections. rewrite map_flat_map. apply flat_map_ext. intros e.
    rewrite map_map. reflexivity.
  - intros x Hx. rewrite graph_of_tumors. unfold spec_edges in Hx. apply in_flat_map in Hx.
    destruct Hx as [e [He Hx]]. unfold spec_entry_edges in Hx. apply in_app_or in Hx. destruct Hx as [Hx|Hx].
    + destruct (is_lnl_ent e) eqn:El; cbn [andb] in Hx; [|destruct Hx].
      destruct (Nat.eqb base 3); [|destruct Hx]. destruct Hx as [<-|[]].
      cbn [spec_growth_edge e_parent]. rewrite (mem_tumor_names d e (vf_names _ _ F) He).
      rewrite (lnl_not_tumor _ El). reflexivity.
    + apply in_map_iff in Hx. destruct Hx as [c [<- _]].
      cbn [spec_spread_edge e_parent]. rewrite (mem_tumor_names d e (vf_names _ _ F) He).
      unfold is_tumor_spread, spec_spread_edge. cbn [e_kind]. destruct (is_tumor_ent e); reflexivity.
  - rewrite spec_edges_names. apply F.
Qed.

(** * state_list *)
Lemma NoDup_flat_map_disj {A B} (f : A -> list B) l :
  NoDup l -> (forall a, In a l -> NoDup (f a)) ->
  (forall a a' x, In a l -> In a' l -> In x (f a) -> In x (f a') -> a = a') ->
  NoDup (flat_map f l).
Proof.
  induction l as [|a l IH]; cbn [flat_map]; intros Hl Hf Hd; [constructor|].
  apply NoDup_cons_iff in Hl. destruct Hl as [Hni Hl].
  apply NoDup_app_intro.
  - apply Hf. left. reflexivity.
  - apply IH; [exact Hl| |].
    + intros a' Ha'. apply Hf. right. exact Ha'.
    + intros a1 a2 x H1 H2. apply Hd; right; assumption.
  - intros x Hx Hx'. apply in_flat_map in Hx'. destruct Hx' as [a' [Ha' Hx']].
    assert (a = a') by (apply (Hd a a' x); auto; [left; reflexivity|right; exact Ha']).
    subst a'. contradiction.
Qed.

Lemma NoDup_map_injective {A B} (f : A -> B) l :
  (forall x y, f x = f y -> x = y) -> NoDup l -> NoDup (map f l).
Proof.
  intros Hf. induction l as [|a l IH]; cbn [map]; intros H; [constructor|].
  apply NoDup_cons_iff in H. destruct H as [Hni H]. constructor; [|apply IH; exact H].
  intros Hin. apply in_map_iff in Hin. destruct Hin as [x [Hx Hin]]. apply Hf in Hx. subst. contradiction.
Qed.

Lemma all_states_NoDup b n : NoDup (all_states b n).
Proof.
  induction n as [|n IH]; cbn [all_states].
  - constructor; [intros []|constructor].
  - apply NoDup_flat_map_disj.
    + apply seq_NoDup.
    + intros a _. apply NoDup_map_injective; [|exact IH]. intros x y H. inversion H. reflexivity.
    + intros a a' x _ _ H1 H2. apply in_map_iff in H1, H2.
      destruct H1 as [y [<- _]]. destruct H2 as [y' [H2 _]]. inversion H2. reflexivity.
Qed.

(** position q*m + r of a concatenation of blocks of length m *)
Lemma nth_flat_map_blocks {A B} (f : A -> list B) m (d0 : A) (dflt : B) l :
  (forall a, length (f a) = m) ->
  forall q r, q < length l -> r < m ->
  nth (q * m + r) (flat_map f l) dflt = nth r (f (nth q l d0)) dflt.
Proof.
  intros Hm. induction l as [|a l IH]; intros q r Hq Hr; cbn [length] in Hq; [lia|].
  cbn [flat_map]. destruct q as [|q].
  - cbn [Nat.mul Nat.add nth]. apply app_nth1. rewrite Hm. exact Hr.
  - rewrite app_nth2 by (rewrite Hm; cbn [Nat.mul]; lia).
    rewrite Hm. replace (S q * m + r - m) with (q * m + r) by (cbn [Nat.mul]; lia).
    cbn [nth]. apply IH; lia.
Qed.

Lemma nth_all_states_S b n i : i < b ^ S n ->
  nth i (all_states b (S n)) [] = (i / b ^ n) :: nth (i mod b ^ n) (all_states b n) [].
Proof.
  intros Hi. set (m := b ^ n).
  assert (Hm : m <> 0).
  { unfold m. apply Nat.pow_nonzero. intros ->. cbn [Nat.pow Nat.mul] in Hi. lia. }
  assert (Hq : i / m < b).
  { apply Nat.div_lt_upper_bound; [exact Hm|]. cbn [Nat.pow] in Hi. fold m in Hi. lia. }
  assert (Hr : i mod m < m) by (apply Nat.mod_upper_bound; exact Hm).
  cbn [all_states].
  rewrite (Nat.div_mod i m Hm) at 1. rewrite (Nat.mul_comm m (i / m)).
  rewrite (nth_flat_map_blocks (fun d => map (cons d) (all_states b n)) m 0 []).
  - rewrite seq_nth by exact Hq. cbn [Nat.add].
    rewrite (nth_indep _ [] (i / m :: [])) by (rewrite map_length, all_states_length; exact Hr).
    apply map_nth.
  - intros a. rewrite map_length. apply all_states_length.
  - rewrite seq_length. exact Hq.
  - exact Hr.
Qed.

Lemma digit_arith i p b c' : p <> 0 -> b <> 0 -> c' <> 0 ->
  ((i mod (p * (b * c'))) / p) mod b = (i / p) mod b.
Proof.
  intros Hp Hb Hc.
  rewrite (Nat.mod_mul_r i p (b * c')) by (try exact Hp; apply Nat.neq_mul_0; auto).
  rewrite (Nat.mul_comm p), Nat.add_comm, Nat.div_add_l by exact Hp.
  rewrite (Nat.div_small (i mod p)) by (apply Nat.mod_upper_bound; exact Hp).
  rewrite Nat.add_0_r.
  rewrite (Nat.mod_mul_r (i / p) b c') by assumption.
  rewrite (Nat.mul_comm b), Nat.mod_add by exact Hb.
  apply Nat.mod_mod. exact Hb.
Qed.

Lemma nth_all_states_digit b n : 0 < b -> forall i k, i < b ^ n -> k < n ->
  digit k (nth i (all_states b n) []) = (i / b ^ (n - 1 - k)) mod b.
Proof.
  intros Hb. induction n as [|n IH]; intros i k Hi Hk; [lia|].
  rewrite nth_all_states_S by exact Hi.
  assert (Hpow : forall j, b ^ j <> 0) by (intros j; apply Nat.pow_nonzero; lia).
  destruct k as [|k]; unfold digit; cbn [nth].
  - replace (S n - 1 - 0) with n by lia. symmetry. apply Nat.mod_small.
    apply Nat.div_lt_upper_bound; [apply Hpow|]. cbn [Nat.pow] in Hi. lia.
  - fold (digit k (nth (i mod b ^ n) (all_states b n) [])).
    rewrite IH by (try lia; apply Nat.mod_upper_bound; apply Hpow).
    replace (S n - 1 - S k) with (n - 1 - k) by lia.
    replace n with ((n - 1 - k) + S k) at 1 by lia.
    rewrite Nat.pow_add_r. cbn [Nat.pow].
    apply digit_arith; try apply Hpow; lia.
Qed.

Lemma state_list_enumerates : C19_state_list_enumerates_stmt.
Proof.
  intros base d g Hv Hg n. rewrite (build_graph_valid _ _ Hv) in Hg. inversion Hg; subst g. clear Hg.
  pose proof (valid_dict_facts _ _ Hv) as F.
  unfold state_list, nlnls. rewrite graph_of_lnls by apply F. cbn [graph_of g_base]. fold n.
  split; [apply all_states_length|]. split; [apply all_states_NoDup|]. split; [apply all_states_In|].
  intros i k Hi Hk. apply nth_all_states_digit; try assumption.
  destruct (vf_base _ _ F); lia.
Qed.

(** * to_dict *)
Lemma out_children_spec tri d e : NoDup (dict_names d) -> In e d ->
  map e_child (filter (fun x => str_eqb (e_parent x) (ent_name e) && negb (is_growth x)) (spec_edges tri d))
  = ent_conns e.
Proof.
  intros Hnd He. unfold spec_edges. rewrite filter_flat_map.
  rewrite (flat_map_ext _ (fun h => if str_eqb (ent_name h) (ent_name e) then map (spec_spread_edge h) (ent_conns h) else [])).
  - rewrite (flat_map_select ent_name _ d e Hnd He). rewrite map_map. cbn [spec_spread_edge e_child]. apply map_id.
  - intros h. unfold spec_entry_edges. rewrite filter_app.
    assert (Hg : filter (fun x => str_eqb (e_parent x) (ent_name e) && negb (is_growth x))
                   (if is_lnl_ent h && tri then [spec_growth_edge (ent_name h)] else []) = []).
    { destruct (is_lnl_ent h && tri); [|reflexivity]. cbn [filter spec_growth_edge e_parent is_growth e_kind negb].
      rewrite andb_false_r. reflexivity. }
    rewrite Hg. cbn [app]. destruct (str_eqb (ent_name h) (ent_name e)) eqn:E.
    + apply filter_all. intros x Hx. apply in_map_iff in Hx. destruct Hx as [c [<- _]].
      rewrite spread_not_growth. cbn [spec_spread_edge e_parent negb]. rewrite E. reflexivity.
    + apply filter_none. intros x Hx. apply in_map_iff in Hx. destruct Hx as [c [<- _]].
      cbn [spec_spread_edge e_parent]. rewrite E. reflexivity.
Qed.

Lemma to_dict_roundtrip : C19_to_dict_roundtrip_stmt.
Proof.
  intros base d g Hv Hg. rewrite (build_graph_valid _ _ Hv) in Hg. inversion Hg; subst g. clear Hg.
  pose proof (valid_dict_facts _ _ Hv) as F.
  unfold to_dict. cbn [graph_of g_nodes]. rewrite map_map. apply map_ext_in. intros e He.
  unfold out_children. cbn [graph_of g_edges mk_node snd n_tumor n_name].
  rewrite (out_children_spec _ d e (vf_names _ _ F) He). f_equal.
  pose proof (kinds_in d e (vf_kinds _ _ F) He) as Hk.
  destruct e as [[ty nm] c]. unfold is_tumor_ent, is_lnl_ent, ent_kind, ent_name in *. cbn [fst snd] in *.
  destruct (str_eqb ty "tumor") eqn:Et.
  - apply seqb_eq in Et. subst. reflexivity.
  - cbn [orb] in Hk. apply seqb_eq in Hk. subst. reflexivity.
Qed.

(** * Well-formedness for the numerical theorems *)
Lemma build_graph_wf : C19_build_graph_wf_stmt.
Proof.
  intros base d g Hv Hg. rewrite (build_graph_valid _ _ Hv) in Hg. inversion Hg; subst g. clear Hg.
  pose proof (valid_dict_facts _ _ Hv) as F. destruct F.
  unfold wf_graphb. rewrite graph_of_lnls by assumption. cbn [graph_of g_base g_edges].
  rewrite !andb_true_iff. split; [split|].
  - destruct vf_base0; subst; reflexivity.
  - apply nodupb_NoDup. unfold lnl_names. apply NoDup_map_filter. exact vf_names0.
  - apply forallb_forall. intros x Hx. unfold wf_edge.
    rewrite graph_of_lnls by assumption. rewrite graph_of_tumors. cbn [graph_of g_base].
    unfold spec_edges in Hx. apply in_flat_map in Hx. destruct Hx as [e [He Hx]].
    unfold spec_entry_edges in Hx. apply in_app_or in Hx. destruct Hx as [Hx|Hx].
    + destruct (is_lnl_ent e) eqn:El; cbn [andb] in Hx; [|destruct Hx].
      destruct (Nat.eqb base 3) eqn:Eb; [|destruct Hx]. destruct Hx as [<-|[]].
      cbn [spec_growth_edge e_child e_kind e_parent].
      rewrite (mem_lnl_names d e vf_names0 He), El, seqb_refl. reflexivity.
    + apply in_map_iff in Hx. destruct Hx as [c [<- Hc]].
      unfold spec_spread_edge. cbn [e_child e_kind e_parent].
      assert (Hm : mem c (lnl_names d) = true) by (apply gmem_In; apply (vf_targets0 e); assumption).
      rewrite Hm. cbn [andb].
      pose proof (kinds_in d e vf_kinds0 He) as Hk.
      destruct (is_tumor_ent e) eqn:Et.
      * rewrite (mem_tumor_names d e vf_names0 He). exact Et.
      * cbn [orb] in Hk. rewrite (mem_lnl_names d e vf_names0 He), Hk. cbn [andb].
        apply negb_true_iff. apply seqb_neq. intros Heq.
        pose proof (vf_noself0 e He) as Hs. apply gmem_nIn in Hs. rewrite Heq in Hs. contradiction.
Qed.

(** * Malformed dictionaries *)
Lemma build_graph_check_fail base d e : check_unique_names d = Some e -> build_graph base d = inl e.
Proof. intros H. unfold build_graph. rewrite H. reflexivity. Qed.

Lemma malformed_rejected : C19_malformed_rejected_stmt.
Proof.
  repeat split.
  - intros base d1 [ty nm] l d2 H1. apply build_graph_check_fail.
    rewrite check_unique_names_spec, (check_conns_app _ _ H1). reflexivity.
  - intros base d1 [ty nm] l d2 H1 Hl. apply build_graph_check_fail.
    rewrite check_unique_names_spec, (check_conns_app _ _ H1). cbn [check_conns]. rewrite Hl. reflexivity.
  - intros base d1 [ty nm] l d2 H1 Hl Hs. apply build_graph_check_fail. cbn [snd] in Hs.
    rewrite check_unique_names_spec, (check_conns_app _ _ H1). cbn [check_conns]. rewrite Hl, Hs. reflexivity.
  - intros base d Hc Hn. apply build_graph_check_fail.
    rewrite check_unique_names_spec, Hc, Hn. reflexivity.
  - intros base d Hc Hn Ht. unfold build_graph. rewrite check_unique_names_spec, Hc, Hn.
    rewrite (init_nodes_spec d []) by (apply nodupb_NoDup; exact Hn). cbn [app].
    rewrite nodes_spec_tumors, map_length. unfold tumor_names in Ht.
    rewrite <- (map_length ent_name), Ht. reflexivity.
  - intros base d Hc Hn Ht Hl. unfold build_graph. rewrite check_unique_names_spec, Hc, Hn.
    rewrite (init_nodes_spec d []) by (apply nodupb_NoDup; exact Hn). cbn [app].
    rewrite nodes_spec_tumors, nodes_spec_lnls, !map_length. unfold tumor_names in Ht. unfold lnl_names in Hl.
    rewrite nonempty_length by (intros E; apply Ht; rewrite E; reflexivity).
    rewrite <- (map_length ent_name (filter is_lnl_ent d)), Hl. reflexivity.
Qed.

(** * What is accepted is valid *)
Lemma init_conn_edges_inv tri nodes start ends : forall acc es,
  init_conn_edges tri nodes start ends acc = inr es ->
  forall c, In c ends -> exists n, dict_get c nodes = Some n /\ n_tumor n = false.
Proof.
  induction ends as [|c0 ends IH]; intros acc es H c Hc; [destruct Hc|].
  cbn [init_conn_edges] in H. destruct (dict_get c0 nodes) as [n0|] eqn:E0; [|discriminate].
  destruct (n_tumor n0) eqn:Et; [discriminate|].
  destruct Hc as [<-|Hc]; [exists n0; auto|]. apply (IH _ _ H). exact Hc.
Qed.
Lemma init_edges_inv tri nodes d0 : forall acc es,
  init_edges tri nodes d0 acc = inr es ->
  forall e, In e d0 ->
    (exists s, dict_get (ent_name e) nodes = Some s) /\
    forall c, In c (ent_conns e) -> exists n, dict_get c nodes = Some n /\ n_tumor n = false.
Proof.
  induction d0 as [|[[ty nm] c] d0 IH]; intros acc es H e He; [destruct He|].
  cbn [init_edges] in H. destruct (dict_get nm nodes) as [s|] eqn:Es; [|discriminate].
  match type of H with match ?X with _ => _ end = _ => destruct X as [err|acc2] eqn:Ec; [discriminate|] end.
  destruct He as [<-|He].
  - split; [exists s; exact Es|]. apply (init_conn_edges_inv _ _ _ _ _ _ Ec).
  - apply (IH _ _ H). exact He.
Qed.

Lemma length_zero_false {A} (l : list A) : Nat.eqb (length l) 0 = false -> negb (Nat.eqb (length l) 0) = true.
Proof. intros ->. reflexivity. Qed.

Lemma accepted_only_if_valid : C19_accepted_only_if_valid_stmt.
Proof.
  intros base d g H. unfold build_graph in H. rewrite check_unique_names_spec in H.
  destruct (check_conns d) eqn:Hc; [discriminate|].
  destruct (nodupb (dict_names d)) eqn:Hn; [|discriminate].
  assert (Hnd : NoDup (dict_names d)) by (apply nodupb_NoDup; exact Hn).
  rewrite (init_nodes_spec d []) in H by exact Hnd. cbn [app] in H.
  rewrite nodes_spec_tumors, nodes_spec_lnls, !map_length in H.
  destruct (Nat.eqb (length (filter is_tumor_ent d)) 0) eqn:Ht; [discriminate|].
  destruct (Nat.eqb (length (filter is_lnl_ent d)) 0) eqn:Hl; [discriminate|].
  destruct (init_edges (Nat.eqb base 3) (nodes_spec d) d []) as [err|es] eqn:He; [discriminate|].
  pose proof (init_edges_inv _ _ _ _ _ He) as Hinv.
  pose proof (proj1 (check_conns_None d) Hc) as Hcn.
  assert (Hkind : forall e, In e d -> is_tumor_ent e || is_lnl_ent e = true).
  { intros e Hin. destruct (Hinv e Hin) as [[s Hs] _].
    apply dict_get_nodes_inv in Hs. destruct Hs as [e' [Hin' [Hname [Hk _]]]].
    assert (e' = e) by (apply (NoDup_map_inj_in ent_name d); assumption). subst. exact Hk. }
  unfold accepted_dict. rewrite !andb_true_iff. repeat split.
  - apply forallb_forall. intros e Hin. apply (Hcn e Hin).
  - apply forallb_forall. exact Hkind.
  - exact Hn.
  - apply forallb_forall. intros e Hin. apply (Hcn e Hin).
  - apply forallb_forall. intros e Hin. apply negb_true_iff. apply (Hcn e Hin).
  - apply forallb_forall. intros e Hin. apply forallb_forall. intros c Hcin.
    destruct (Hinv e Hin) as [_ Htg]. destruct (Htg c Hcin) as [n [Hget Hnt]].
    apply dict_get_nodes_inv in Hget. destruct Hget as [e' [Hin' [Hname [Hk Hnt']]]].
    rewrite <- Hname, (mem_lnl_names d e' Hnd Hin'). rewrite <- (kind_negb _ Hk), <- Hnt', Hnt. reflexivity.
  - unfold tumor_names. rewrite map_length. apply length_zero_false. exact Ht.
  - unfold lnl_names. rewrite map_length. apply length_zero_false. exact Hl.
Qed.

Lemma valid_iff_accepted : C19_valid_iff_accepted_stmt.
Proof. intros base d. unfold valid_dict, accepted_dict. rewrite !andb_assoc. reflexivity. Qed.
