(** NumpyNamed: the named-parameter machinery of [lymph.types.Model] read statement by statement, as the Python code
    manipulates its lists, dicts and the attribute [_named_params] (the name follows Numpy.v / NumpyParams.v although this
    file is about dicts), and the STATIC proofs that this reading equals the hand-written model of Named.v.
    The source translator harness/translate11.py regenerates every [np_<function>] below from the Python source on every
    run ([gen_<function>]) and checks the generated term against the one written here by conversion ([reflexivity]).

    Reading of Python values (the conventions of Params.v / Named.v):
    - a Python name is a [path]; [name.split("_")] is the name, [name.count("_")] is [path_count] ([length - 1]: no
      Python string splits into the empty list; the lemmas about [get_named_params] need the declared names to be
      non-empty paths), [==] on names is [path_eqb], on components [str_eqb]; [name.isidentifier()] is an abstract
      predicate;
    - a dict is an insertion-ordered association list with unique keys: [d[k] = v] is [kw_set], [d.get(k)] is [kw_get]
      (an [option]), READING [d[k]] is [py_getitem] (KeyError when absent), [d.keys()] is [map fst], [d.items()] the list,
      [dict(zip(a, b))] is [dict_of (combine a b)], [d.update(s)] is [kw_update s d];
      [d[k].append(p)] on a dict whose values are fresh [[]] literals is [d[k] = d[k] + [p]];
    - [set(a).issuperset(b)] is [py_issuperset], [set(a) - set(b)] is [py_set_diff], [a or b] on lists is [py_or_list],
      a list comprehension with a filter that can raise is [py_filter];
    - exceptions are the values [inl e] of [Named.res]; a loop whose body can raise is [py_for] (the first exception ends
      it), a loop that cannot is [fold_left];
    - the object is [Named.nstate], threaded through the statements of a method: a method is a function
      [nstate -> ... -> nstate * res R].  [getattr(self, "_named_params", d)] is [py_getattr_named] (d is evaluated
      first), assignment [py_setattr_named], [del] [py_delattr_named] (AttributeError when the attribute is not set);
    - [self.get_params(as_dict=True)] and [self.set_params( **d)] are ABSTRACT methods: function parameters
      [get_params : nstate -> nstate * res (list (path * Qc))] and [set_params : nstate -> args -> kwargs -> nstate * res args].
      The lemmas assume that on the object at hand they behave like [model_get_params] / [model_set_params] below
      (the generic Params.get_params / Params.set_params on the parameter store, [_named_params] untouched).

    Contents: [np_named_params_eq], [np_set_named_eq] / [np_set_named_invalid], [np_del_named_eq],
    [np_does_contain_in_order_eq], [np_create_alias_map_eq], [np_get_named_params_eq], [np_set_named_params_eq],
    [np_get_num_dims_eq], [np_safe_set_params_eq]. *)
From LymphModel Require Import Base States Linalg Graph Transition Observation Dist Unilateral Models Params ParamsStatements
  ParamsLemmas Named.
Local Open Scope nat_scope.
Local Open Scope string_scope.
Local Open Scope list_scope.

(** * Primitives *)
(** d[k] (read): KeyError when the key is absent *)
Definition py_getitem {A} (k : path) (d : list (path * A)) : res A :=
  match kw_get k d with Some v => inr v | None => inl KeyError end.
(** for x in l: BODY, where BODY rebinds the carried variable(s) [s] and may raise *)
Fixpoint py_for {X S} (body : X -> S -> res S) (l : list X) (s : S) : res S :=
  match l with
  | [] => inr s
  | x :: r => match body x s with inl e => inl e | inr s => py_for body r s end
  end.
(** [x for x in l if TEST] where TEST may raise *)
Fixpoint py_filter {X} (test : X -> res bool) (l : list X) : res (list X) :=
  match l with
  | [] => inr []
  | x :: r =>
      match test x with
      | inl e => inl e
      | inr b => match py_filter test r with inl e => inl e | inr r' => inr (if b then x :: r' else r') end
      end
  end.
(** a or b on lists *)
Definition py_or_list {A} (a b : list A) : list A := match a with [] => b | _ :: _ => a end.
(** set(a).issuperset(b), set(a) - set(b) on lists of names *)
Definition py_issuperset (a b : list path) : bool := forallb (fun k => memp k a) b.
Definition py_set_diff (a b : list path) : list path := filter (fun k => negb (memp k b)) a.
(** name.count("_") *)
Definition path_count (p : path) : nat := length p - 1.

(** the attribute [_named_params] of the object *)
Definition py_getattr_named (self : nstate) (default : list path) : list path :=
  match ns_named self with Some l => l | None => default end.
Definition py_setattr_named (self : nstate) (l : list path) : nstate := mk_nstate (ns_model self) (Some l).
Definition py_delattr_named (self : nstate) : nstate * res unit :=
  match ns_named self with
  | None => (self, inl AttributeError)
  | Some _ => (mk_nstate (ns_model self) None, inr tt)
  end.

(** what the abstract methods are instantiated with: the generic get_params / set_params of the model class *)
Definition model_get_params (s : nstate) : nstate * res (list (path * Qc)) :=
  (s, match param_items (ns_model s) with Some its => inr its | None => inl KeyError end).
Definition model_set_params (s : nstate) (a : args) (kw : kwargs) : nstate * res args :=
  let r := set_params (ns_model s) a kw in
  (mk_nstate (fst r) (ns_named s), match snd r with Some x => inr x | None => inl ValueError end).

(** * types.does_contain_in_order *)
(** if not items: return True ; if not sequence: return False ;
    if sequence[0] == items[0]: return f(sequence[1:], items[1:]) ; return f(sequence[1:], items) *)
Fixpoint np_does_contain_in_order (sequence items : path) {struct sequence} : bool :=
  match items with
  | [] => true
  | items_0 :: items_tl =>
      match sequence with
      | [] => false
      | sequence_0 :: sequence_tl =>
          if str_eqb sequence_0 items_0 then np_does_contain_in_order sequence_tl items_tl
          else np_does_contain_in_order sequence_tl items
      end
  end.
Lemma np_does_contain_in_order_eq s i : np_does_contain_in_order s i = does_contain_in_order s i.
Proof.
  revert i. induction s as [|x s IH]; intros [|i0 i]; cbn [np_does_contain_in_order does_contain_in_order]; try reflexivity;
    rewrite !IH; reflexivity.
Qed.

(** * Model.named_params: getter, setter, deleter *)
(** return getattr(self, "_named_params", self.get_params(as_dict=True).keys()) *)
Definition np_named_params (get_params : nstate -> nstate * res (list (path * Qc))) (self : nstate) : nstate * res (list path) :=
  match get_params self with
  | (self, inl e) => (self, inl e)
  | (self, inr x1) => (self, inr (py_getattr_named self (map fst x1)))
  end.
Lemma np_named_params_eq gp s : gp s = model_get_params s -> np_named_params gp s = (s, named_params s).
Proof.
  intros H. unfold np_named_params, named_params, param_names, py_getattr_named. rewrite H. unfold model_get_params.
  destruct (param_items (ns_model s)); reflexivity.
Qed.

(** is_valid = False ; for default_name in default_params: if does_contain_in_order(...): is_valid = True *)
Definition np_is_valid_step (name : path) (is_valid : bool) (default_name : path) : bool :=
  let is_valid := if np_does_contain_in_order default_name name then let is_valid := true in is_valid else is_valid in
  is_valid.
Definition np_is_valid (default_params : list path) (name : path) : bool :=
  let is_valid := false in
  let is_valid := fold_left (np_is_valid_step name) default_params is_valid in
  is_valid.
(** the body of [for name in new_names]; the InvalidParamNameWarning is recorded in the log [warned] *)
Definition np_set_named_body (isidentifier : path -> bool) (default_params : list path) (name : path) (warned : list path)
  : res (list path) :=
  if negb (isidentifier name) then inl ValueError
  else
    let is_valid := np_is_valid default_params name in
    let warned := if negb is_valid then let warned := warned ++ [name] in warned else warned in
    inr warned.
(** the setter; it returns the log of warnings in place of None *)
Definition np_set_named (isidentifier : path -> bool) (get_params : nstate -> nstate * res (list (path * Qc)))
    (self : nstate) (new_names : list path) : nstate * res (list path) :=
  let warned := [] in
  match get_params self with
  | (self, inl e) => (self, inl e)
  | (self, inr x1) =>
      let default_params := map fst x1 in
      match py_for (np_set_named_body isidentifier default_params) new_names warned with
      | inl e => (self, inl e)
      | inr warned =>
          let self := py_setattr_named self new_names in
          (self, inr warned)
      end
  end.

Lemma np_is_valid_eq all n : np_is_valid all n = existsb (fun p => does_contain_in_order p n) all.
Proof.
  unfold np_is_valid. cbv zeta.
  assert (E : forall v, fold_left (np_is_valid_step n) all v = v || existsb (fun p => does_contain_in_order p n) all).
  { induction all as [|p all IH]; intros v; cbn [fold_left existsb]; [rewrite orb_false_r; reflexivity|].
    rewrite IH. unfold np_is_valid_step. cbv zeta. rewrite np_does_contain_in_order_eq.
    destruct (does_contain_in_order p n), v; reflexivity. }
  apply E.
Qed.

Lemma np_set_named_loop isid all names : forallb isid names = true -> forall w,
  py_for (np_set_named_body isid all) names w = inr (w ++ invalid_names all names).
Proof.
  unfold invalid_names. induction names as [|n names IH]; cbn [forallb py_for filter]; intros Hid w.
  - rewrite app_nil_r. reflexivity.
  - apply andb_true_iff in Hid. destruct Hid as [Hn Hid]. unfold np_set_named_body at 1. rewrite Hn. cbn [negb]. cbv zeta.
    rewrite np_is_valid_eq. destruct (existsb (fun p => does_contain_in_order p n) all); cbn [negb].
    + apply IH, Hid.
    + rewrite (IH Hid). rewrite <- app_assoc. reflexivity.
Qed.

Lemma np_set_named_loop_invalid isid all names : forallb isid names = false -> forall w,
  py_for (np_set_named_body isid all) names w = inl ValueError.
Proof.
  induction names as [|n names IH]; cbn [forallb py_for]; intros Hid w; [discriminate Hid|].
  unfold np_set_named_body at 1. destruct (isid n); cbn [negb andb] in *; [|reflexivity]. cbv zeta.
  apply IH, Hid.
Qed.

Lemma np_set_named_eq isid gp s names : gp s = model_get_params s -> forallb isid names = true ->
  np_set_named isid gp s names = match set_named s names with inl e => (s, inl e) | inr (s', w) => (s', inr w) end.
Proof.
  intros H Hid. unfold np_set_named, set_named, param_names. cbv zeta. rewrite H. unfold model_get_params.
  destruct (param_items (ns_model s)) as [its|]; cbn [option_map]; [|reflexivity].
  rewrite (np_set_named_loop isid (map fst its) names Hid []). reflexivity.
Qed.

(** a name that is no identifier: ValueError, the object is unchanged (the model covers sequences of identifiers) *)
Lemma np_set_named_invalid isid gp s names its : gp s = model_get_params s -> param_items (ns_model s) = Some its ->
  forallb isid names = false -> np_set_named isid gp s names = (s, inl ValueError).
Proof.
  intros H Hi Hid. unfold np_set_named. cbv zeta. rewrite H. unfold model_get_params. rewrite Hi.
  rewrite (np_set_named_loop_invalid isid (map fst its) names Hid []). reflexivity.
Qed.

(** del self._named_params *)
Definition np_del_named (self : nstate) : nstate * res unit :=
  match py_delattr_named self with
  | (self, inl e) => (self, inl e)
  | (self, inr _) => (self, inr tt)
  end.
Lemma np_del_named_eq s : np_del_named s = match del_named s with inl e => (s, inl e) | inr s' => (s', inr tt) end.
Proof. unfold np_del_named, py_delattr_named, del_named. destruct (ns_named s); reflexivity. Qed.

(** * types.create_alias_map *)
(** for param in all_params: if does_contain_in_order(...): param_aliases[named_param].append(param) *)
Definition np_alias_step (named_param param : path) (param_aliases : list (path * list path)) : res (list (path * list path)) :=
  match (if np_does_contain_in_order param named_param then
           match py_getitem named_param param_aliases with
           | inl e => inl e
           | inr x1 =>
               let param_aliases := kw_set named_param (x1 ++ [param]) param_aliases in
               inr param_aliases
           end
         else inr param_aliases) with
  | inl e => inl e
  | inr param_aliases => inr param_aliases
  end.
(** for named_param in named_params: param_aliases[named_param] = [] ; <inner loop> *)
Definition np_alias_outer_step (all_params : list path) (named_param : path) (param_aliases : list (path * list path))
  : res (list (path * list path)) :=
  let param_aliases := kw_set named_param [] param_aliases in
  match py_for (np_alias_step named_param) all_params param_aliases with
  | inl e => inl e
  | inr param_aliases => inr param_aliases
  end.
Definition np_create_alias_map (all_params named_params : list path) : res (list (path * list path)) :=
  let param_aliases := [] in
  match py_for (np_alias_outer_step all_params) named_params param_aliases with
  | inl e => inl e
  | inr param_aliases => inr param_aliases
  end.

Lemma nn_kw_set_set_same {A} (k : path) (v w : A) d : kw_set k v (kw_set k w d) = kw_set k v d.
Proof.
  induction d as [|[k' v'] d IH]; cbn [kw_set]; [rewrite path_eqb_refl; reflexivity|].
  destruct (path_eqb k k') eqn:E; cbn [kw_set]; [rewrite path_eqb_refl; reflexivity | rewrite E, IH; reflexivity].
Qed.

Lemma nn_kw_set_same_value {A} (k : path) (v : A) d : kw_get k d = Some v -> kw_set k v d = d.
Proof.
  induction d as [|[k' v'] d IH]; cbn [kw_get kw_set]; [discriminate|].
  destruct (path_eqb k k') eqn:E; [apply path_eqb_eq in E; subst; intros [= ->]; reflexivity | intros H; rewrite (IH H); reflexivity].
Qed.

Lemma np_alias_inner_eq n all : forall l d, kw_get n d = Some l ->
  py_for (np_alias_step n) all d = inr (kw_set n (l ++ filter (fun p => does_contain_in_order p n) all) d).
Proof.
  induction all as [|p all IH]; intros l d Hd; cbn [py_for filter].
  - rewrite app_nil_r, (nn_kw_set_same_value n l d Hd). reflexivity.
  - unfold np_alias_step at 1. rewrite np_does_contain_in_order_eq. destruct (does_contain_in_order p n).
    + unfold py_getitem. rewrite Hd. cbv beta iota zeta. rewrite (IH (l ++ [p])) by apply kw_get_set_same.
      rewrite nn_kw_set_set_same, <- app_assoc. reflexivity.
    + cbv beta iota. apply IH, Hd.
Qed.

Lemma np_create_alias_map_loop all named : forall d,
  py_for (np_alias_outer_step all) named d = inr (kw_update (map (fun n => (n, aliases_of all n)) named) d).
Proof.
  induction named as [|n named IH]; intros d; cbn [py_for map]; [reflexivity|].
  unfold np_alias_outer_step at 1. cbv zeta.
  rewrite (np_alias_inner_eq n all [] (kw_set n [] d)) by apply kw_get_set_same.
  rewrite nn_kw_set_set_same. cbn [app]. rewrite IH, kw_update_cons. reflexivity.
Qed.

Lemma np_create_alias_map_eq all named : np_create_alias_map all named = inr (create_alias_map all named).
Proof. unfold np_create_alias_map, create_alias_map, dict_of. cbv zeta. rewrite np_create_alias_map_loop. reflexivity. Qed.

(** * Model.get_named_params *)
(** current = owner.get(param) ; if current is None or name.count("_") >= current.count("_"): owner[param] = name *)
Definition np_owner_step (name : path) (owner : list (path * path)) (param : path) : list (path * path) :=
  let current := kw_get param owner in
  let owner :=
    if (match current with None => true | Some current => Nat.leb (path_count current) (path_count name) end)
    then let owner := kw_set param name owner in owner
    else owner in
  owner.
Definition np_owners_step (owner : list (path * path)) (np : path * list path) : list (path * path) :=
  let '(name, params) := np in
  let owner := fold_left (np_owner_step name) params owner in
  owner.
Definition np_owners (param_aliases : list (path * list path)) : list (path * path) :=
  let owner := [] in
  let owner := fold_left np_owners_step param_aliases owner in
  owner.
(** owned_params = [param for param in params if owner[param] == name]
    for param in owned_params or params: named_params[name] = all_params[param] *)
Definition np_owned_test (owner : list (path * path)) (name param : path) : res bool :=
  match py_getitem param owner with
  | inl e => inl e
  | inr x6 => inr (path_eqb x6 name)
  end.
Definition np_named_step (all_params : list (path * Qc)) (name param : path) (named_params : list (path * Qc))
  : res (list (path * Qc)) :=
  match py_getitem param all_params with
  | inl e => inl e
  | inr x7 =>
      let named_params := kw_set name x7 named_params in
      inr named_params
  end.
Definition np_named_body (all_params : list (path * Qc)) (owner : list (path * path)) (np : path * list path)
  : list (path * Qc) -> res (list (path * Qc)) :=
  let '(name, params) := np in
  fun named_params =>
  match py_filter (np_owned_test owner name) params with
  | inl e => inl e
  | inr x5 =>
      let owned_params := x5 in
      match py_for (np_named_step all_params name) (py_or_list owned_params params) named_params with
      | inl e => inl e
      | inr named_params => inr named_params
      end
  end.
Definition np_get_named_params (get_params : nstate -> nstate * res (list (path * Qc))) (self : nstate)
  : nstate * res (list (path * Qc)) :=
  match get_params self with
  | (self, inl e) => (self, inl e)
  | (self, inr x1) =>
      let all_params := x1 in
      match np_named_params get_params self with
      | (self, inl e) => (self, inl e)
      | (self, inr x2) =>
          match np_create_alias_map (map fst all_params) x2 with
          | inl e => (self, inl e)
          | inr x3 =>
              let param_aliases := x3 in
              let owner := np_owners param_aliases in
              let named_params := [] in
              match py_for (np_named_body all_params owner) param_aliases named_params with
              | inl e => (self, inl e)
              | inr named_params => (self, inr named_params)
              end
          end
      end
  end.

Lemma nn_fold_left_ext_in {A B} (f g : A -> B -> A) l : (forall a b, In b l -> f a b = g a b) ->
  forall a, fold_left f l a = fold_left g l a.
Proof.
  induction l as [|b l IH]; intros H a; cbn [fold_left]; [reflexivity|].
  rewrite H by (left; reflexivity). apply IH. intros a' b' Hb. apply H. right. exact Hb.
Qed.

Lemma np_owner_step_eq name owner param : name <> [] -> np_owner_step name owner param = owner_step name owner param.
Proof.
  intros Hn. unfold np_owner_step, owner_step, path_count. cbv zeta. destruct (kw_get param owner) as [c|]; [|reflexivity].
  destruct name as [|x name]; [contradiction|]. destruct c as [|y c]; cbn [length Nat.sub Nat.leb]; [reflexivity|].
  rewrite !Nat.sub_0_r. reflexivity.
Qed.

Lemma np_owners_eq aliases : (forall n ps, In (n, ps) aliases -> n <> []) -> np_owners aliases = owners aliases.
Proof.
  intros H. unfold np_owners, owners. cbv zeta. apply nn_fold_left_ext_in. intros ow [n ps] Hin.
  unfold np_owners_step. cbn [fst snd]. cbv zeta.
  apply nn_fold_left_ext_in. intros ow' p _. apply np_owner_step_eq. apply (H n ps Hin).
Qed.

(** every parameter of every alias list has an owner *)
Lemma owner_step_keeps name ow p q : kw_get q ow <> None -> kw_get q (owner_step name ow p) <> None.
Proof.
  intros Hq. unfold owner_step. destruct (kw_get p ow) as [c|] eqn:E.
  - destruct (Nat.leb (length c) (length name)); [|exact Hq].
    destruct (path_eqb q p) eqn:Eq.
    + apply path_eqb_eq in Eq. subst. rewrite kw_get_set_same. discriminate.
    + rewrite kw_get_set_other; [exact Hq | intros ->; rewrite path_eqb_refl in Eq; discriminate].
  - destruct (path_eqb q p) eqn:Eq.
    + apply path_eqb_eq in Eq. subst. rewrite kw_get_set_same. discriminate.
    + rewrite kw_get_set_other; [exact Hq | intros ->; rewrite path_eqb_refl in Eq; discriminate].
Qed.
Lemma owner_step_adds name ow p : kw_get p (owner_step name ow p) <> None.
Proof.
  unfold owner_step. destruct (kw_get p ow) as [c|] eqn:E.
  - destruct (Nat.leb (length c) (length name)); [rewrite kw_get_set_same; discriminate | rewrite E; discriminate].
  - rewrite kw_get_set_same. discriminate.
Qed.
Lemma owner_inner_keeps name ps : forall ow q, kw_get q ow <> None -> kw_get q (fold_left (owner_step name) ps ow) <> None.
Proof. induction ps as [|p ps IH]; intros ow q H; cbn [fold_left]; [exact H | apply IH, owner_step_keeps, H]. Qed.
Lemma owner_inner_adds name ps : forall ow q, In q ps -> kw_get q (fold_left (owner_step name) ps ow) <> None.
Proof.
  induction ps as [|p ps IH]; intros ow q Hin; [destruct Hin|]. destruct Hin as [H|H]; cbn [fold_left].
  - subst. apply owner_inner_keeps, owner_step_adds.
  - apply IH, H.
Qed.
Lemma owners_total aliases : forall n ps q, In (n, ps) aliases -> In q ps -> kw_get q (owners aliases) <> None.
Proof.
  unfold owners.
  assert (K : forall al ow q, kw_get q ow <> None ->
              kw_get q (fold_left (fun ow np => fold_left (owner_step (fst np)) (snd np) ow) al ow) <> None).
  { induction al as [|np al IH]; intros ow q H; cbn [fold_left]; [exact H | apply IH, owner_inner_keeps, H]. }
  generalize (@nil (path * path)) as ow. induction aliases as [|np al IH]; intros ow n ps q Hin Hq; [destruct Hin|].
  destruct Hin as [H|H]; cbn [fold_left].
  - subst. cbn [fst snd]. apply K, owner_inner_adds, Hq.
  - apply (IH _ n ps q H Hq).
Qed.

Lemma np_owned_filter owner n ps : (forall p, In p ps -> kw_get p owner <> None) ->
  py_filter (np_owned_test owner n) ps = inr (owned_by owner n ps).
Proof.
  unfold owned_by. induction ps as [|p ps IH]; intros H; cbn [py_filter filter]; [reflexivity|].
  unfold np_owned_test at 1, py_getitem. destruct (kw_get p owner) as [o|] eqn:E; [|exfalso; apply (H p (or_introl eq_refl) E)].
  rewrite IH by (intros q Hq; apply H; right; exact Hq). reflexivity.
Qed.

(** the entry the inner loop leaves under [n]: the value of the LAST parameter of the list *)
Definition entry_of (all : list (path * Qc)) (n : path) (l : list path) : list (path * Qc) :=
  match last_opt l with
  | Some p => match kw_get p all with Some v => [(n, v)] | None => [] end
  | None => []
  end.
Lemma nn_last_opt_In {A} (l : list A) q : last_opt l = Some q -> In q l.
Proof.
  induction l as [|a l IH]; cbn [last_opt]; [discriminate|]. destruct l as [|b l]; [intros [= ->]; left; reflexivity|].
  intros H. right. apply IH, H.
Qed.
Lemma nn_last_opt_cons {A} (a : A) l : last_opt (a :: l) <> None.
Proof. revert a. induction l as [|b l IH]; intros a; cbn [last_opt]; [discriminate | apply IH]. Qed.
Lemma np_named_inner all n l : (forall p, In p l -> kw_get p all <> None) -> forall acc,
  py_for (np_named_step all n) l acc = inr (kw_update (entry_of all n l) acc).
Proof.
  induction l as [|p l IH]; intros H acc; cbn [py_for]; [reflexivity|].
  unfold np_named_step at 1, py_getitem. destruct (kw_get p all) as [v|] eqn:E; [|exfalso; apply (H p (or_introl eq_refl) E)].
  cbv beta iota zeta. rewrite IH by (intros q Hq; apply H; right; exact Hq).
  destruct l as [|p' l'].
  - unfold entry_of. cbn [last_opt]. rewrite E. reflexivity.
  - assert (E' : entry_of all n (p :: p' :: l') = entry_of all n (p' :: l')) by reflexivity. rewrite E'.
    unfold entry_of. destruct (last_opt (p' :: l')) as [q|] eqn:El; [|exfalso; apply (nn_last_opt_cons p' l' El)].
    destruct (kw_get q all) as [v'|] eqn:Eq; [|exfalso; apply (H q); [right; apply nn_last_opt_In, El | exact Eq]].
    cbn [kw_update fold_left fst snd].
    rewrite nn_kw_set_set_same. reflexivity.
Qed.

Lemma np_named_body_eq all owner n ps acc :
  (forall p, In p ps -> kw_get p owner <> None) -> (forall p, In p ps -> kw_get p all <> None) ->
  np_named_body all owner (n, ps) acc = inr (kw_update (named_entry all owner (n, ps)) acc).
Proof.
  intros Ho Ha. unfold np_named_body. cbv beta iota. rewrite (np_owned_filter owner n ps Ho). cbv beta iota zeta.
  assert (Hsub : forall p, In p (py_or_list (owned_by owner n ps) ps) -> kw_get p all <> None).
  { intros p Hp. apply Ha. unfold py_or_list in Hp. destruct (owned_by owner n ps) eqn:E; [exact Hp|].
    rewrite <- E in Hp. unfold owned_by in Hp. apply filter_In in Hp. apply Hp. }
  rewrite (np_named_inner all n _ Hsub). f_equal. f_equal.
  unfold entry_of, named_entry, read_param, py_or_list. cbn [fst snd].
  destruct (owned_by owner n ps); reflexivity.
Qed.

Lemma np_named_loop all owner al : (forall n ps p, In (n, ps) al -> In p ps -> kw_get p owner <> None) ->
  (forall n ps p, In (n, ps) al -> In p ps -> kw_get p all <> None) -> forall acc,
  py_for (np_named_body all owner) al acc = inr (kw_update (flat_map (named_entry all owner) al) acc).
Proof.
  induction al as [|[n ps] al IH]; intros Ho Ha acc; cbn [py_for flat_map]; [reflexivity|].
  rewrite np_named_body_eq; [| intros p Hp; apply (Ho n ps p (or_introl eq_refl) Hp) | intros p Hp; apply (Ha n ps p (or_introl eq_refl) Hp)].
  rewrite IH; [rewrite kw_update_app; reflexivity | |]; intros n' ps' p Hin Hp; [apply (Ho n' ps' p) | apply (Ha n' ps' p)];
    try (right; exact Hin); exact Hp.
Qed.

Lemma named_entries_keys all owner al k :
  In k (map fst (flat_map (named_entry all owner) al)) -> In k (map fst al).
Proof.
  induction al as [|np al IH]; cbn [flat_map map]; [tauto|]. rewrite map_app, in_app_iff. intros [H|H]; [left | right; apply IH, H].
  unfold named_entry in H. destruct (read_param owner np); [|destruct H]. destruct (kw_get p all); [|destruct H].
  destruct H as [H|[]]. exact H.
Qed.
Lemma named_entries_NoDup all owner al : NoDup (map fst al) -> NoDup (map fst (flat_map (named_entry all owner) al)).
Proof.
  induction al as [|np al IH]; cbn [flat_map map]; intros H; [constructor|]. inversion H as [|? ? Hni Hnd]; subst.
  rewrite map_app. unfold named_entry at 1. destruct (read_param owner np); [|apply IH, Hnd].
  destruct (kw_get p all); [|apply IH, Hnd]. cbn [map app fst]. constructor; [|apply IH, Hnd].
  intros Hin. apply Hni. apply (named_entries_keys all owner al _ Hin).
Qed.

Lemma alias_map_In all named n ps : In (n, ps) (create_alias_map all named) -> In n named /\ ps = aliases_of all n.
Proof.
  intros Hin. unfold create_alias_map in *.
  pose proof (kw_get_NoDup_In n ps _ (dict_of_NoDup _) Hin) as Hg. unfold dict_of in Hg. rewrite kw_get_update in Hg.
  cbn [kw_get] in Hg. destruct (kw_get n (rev (map (fun n0 => (n0, aliases_of all n0)) named))) as [l|] eqn:E; [|discriminate Hg].
  injection Hg as ->. apply kw_get_Some_In in E. apply in_rev in E. apply in_map_iff in E. destruct E as [n0 [[= -> ->] Hn0]].
  split; [exact Hn0 | reflexivity].
Qed.

Lemma np_get_named_params_eq gp s : gp s = model_get_params s ->
  (forall named, named_params s = inr named -> ~ In [] named) ->
  np_get_named_params gp s = (s, get_named_params s).
Proof.
  intros H Hne. unfold np_get_named_params, get_named_params. rewrite H. unfold model_get_params at 1.
  destruct (param_items (ns_model s)) as [all|] eqn:Ei; [|reflexivity]. cbv zeta.
  rewrite (np_named_params_eq gp s H). destruct (named_params s) as [e|named] eqn:En; [reflexivity|].
  rewrite np_create_alias_map_eq. unfold get_named_items.
  set (aliases := create_alias_map (map fst all) named).
  assert (Hal : forall n ps, In (n, ps) aliases -> In n named /\ ps = aliases_of (map fst all) n)
    by (intros n ps; apply alias_map_In).
  rewrite np_owners_eq.
  2:{ intros n ps Hin ->. apply (Hne named eq_refl). apply (Hal _ _ Hin). }
  rewrite np_named_loop.
  - cbv beta iota. change (kw_update ?l []) with (dict_of l). rewrite dict_of_NoDup_id; [reflexivity|].
    apply named_entries_NoDup. apply dict_of_NoDup.
  - intros n ps p Hin Hp. apply (owners_total aliases n ps p Hin Hp).
  - intros n ps p Hin Hp. destruct (Hal n ps Hin) as [_ ->]. unfold aliases_of in Hp. apply filter_In in Hp.
    destruct Hp as [Hp _]. intros Hk. apply kw_get_In_None in Hk. contradiction.
Qed.

(** * Model.set_named_params *)
Definition np_set_named_params (get_params : nstate -> nstate * res (list (path * Qc)))
    (set_params : nstate -> args -> kwargs -> nstate * res args) (self : nstate) (args0 : args) (kwargs0 : kwargs)
  : nstate * res unit :=
  match np_named_params get_params self with
  | (self, inl e) => (self, inl e)
  | (self, inr x1) =>
      if negb (py_issuperset x1 (map fst kwargs0)) then
        match np_named_params get_params self with
        | (self, inl e) => (self, inl e)
        | (self, inr x2) =>
            let extra := py_set_diff (map fst kwargs0) x2 in
            (self, inl ExtraParamsError)
        end
      else
        match np_named_params get_params self with
        | (self, inl e) => (self, inl e)
        | (self, inr x3) =>
            let new_params := dict_of (combine x3 args0) in
            let new_params := kw_update kwargs0 new_params in
            match set_params self [] new_params with
            | (self, inl e) => (self, inl e)
            | (self, inr _) => (self, inr tt)
            end
        end
  end.

Lemma np_set_named_params_eq gp sp s a kw : gp s = model_get_params s ->
  (forall kw', sp s [] kw' = model_set_params s [] kw') ->
  np_set_named_params gp sp s a kw = set_named_params s a kw.
Proof.
  intros H Hs. unfold np_set_named_params, set_named_params. rewrite !(np_named_params_eq gp s H).
  destruct (named_params s) as [e|named]; [reflexivity|]. unfold py_issuperset.
  destruct (forallb (fun k => memp k named) (map fst kw)); cbn [negb]; [|reflexivity]. cbv zeta.
  rewrite Hs. unfold model_set_params, named_kwargs. cbv zeta.
  destruct (set_params (ns_model s) [] (kw_update kw (dict_of (combine named a)))) as [m' [a'|]]; reflexivity.
Qed.

(** * Model.get_num_dims:  return len(self.get_named_params()) *)
Definition np_get_num_dims (get_params : nstate -> nstate * res (list (path * Qc))) (self : nstate) : nstate * res nat :=
  match np_get_named_params get_params self with
  | (self, inl e) => (self, inl e)
  | (self, inr x1) => (self, inr (length x1))
  end.
Lemma np_get_num_dims_eq gp s : gp s = model_get_params s ->
  (forall named, named_params s = inr named -> ~ In [] named) ->
  np_get_num_dims gp s = (s, get_num_dims s).
Proof.
  intros H Hne. unfold np_get_num_dims, get_num_dims. rewrite (np_get_named_params_eq gp s H Hne).
  destruct (get_named_params s); reflexivity.
Qed.

(** * utils.safe_set_params(model, params) *)
Definition np_safe_set_params (get_params : nstate -> nstate * res (list (path * Qc)))
    (set_params : nstate -> args -> kwargs -> nstate * res args) (model : nstate) (params : given) : nstate * res unit :=
  match params with
  | GNone => (model, inr tt)
  | GList params =>
      match np_set_named_params get_params set_params model params [] with
      | (model, inl e) => (model, inl e)
      | (model, inr _) => (model, inr tt)
      end
  | GDict params =>
      match np_set_named_params get_params set_params model [] params with
      | (model, inl e) => (model, inl e)
      | (model, inr _) => (model, inr tt)
      end
  end.
Lemma np_safe_set_params_eq gp sp s p : gp s = model_get_params s ->
  (forall kw', sp s [] kw' = model_set_params s [] kw') ->
  np_safe_set_params gp sp s p = safe_set_params s p.
Proof.
  intros H Hs. unfold np_safe_set_params, safe_set_params. destruct p as [|a|kw]; [reflexivity| |];
    rewrite (np_set_named_params_eq gp sp s _ _ H Hs);
    match goal with |- context [set_named_params s ?a ?k] => destruct (set_named_params s a k) as [s' [e|[]]] end; reflexivity.
Qed.
