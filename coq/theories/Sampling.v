(** Sampling: [numpy.random.Generator.choice(a, p=p)] as a function of the uniform
    it consumes (inverse CDF, [searchsorted(side="right")] on the renormalised
    cumulative sum), and the three samplers [Unilateral.draw_patients],
    [Bilateral.draw_patients], [Midline.draw_patients] (with
    [Unilateral.draw_diagnosis], [utils.draw_diagnosis],
    [Distribution.draw_diag_times]) as deterministic functions of the STREAM of
    uniforms, in the order in which the code consumes them; the emitted table rows;
    the statements of the C16 theorems.  Executable definitions only.

    TRUSTED, not modelled: that numpy's bit generator yields independent uniforms
    on [0,1).  Under that assumption "the preimage of an outcome is a product of
    intervals of lengths l1 .. lk" reads "the outcome has probability l1 * .. * lk". *)
From LymphModel Require Import Base States Linalg Graph Transition Observation Dist Unilateral UniStatements
  Models Bilateral Midline BiStatements.
From Coq Require Import Permutation.
Local Open Scope nat_scope.
Open Scope Qc_scope.

(** * Generator.choice *)
(** p.cumsum() *)
Fixpoint cumsum (acc : Qc) (p : vec) : vec :=
  match p with [] => [] | a :: r => (acc + a) :: cumsum (acc + a) r end.
(** cdf = p.cumsum(); cdf /= cdf[-1] *)
Definition np_cdf (p : vec) : vec := let c := cumsum 0 p in map (fun x => x / last c 0) c.
(** cdf.searchsorted(u, side="right") on a sorted array: the number of entries <= u *)
Definition searchsorted_right (c : vec) (u : Qc) : nat := length (filter (fun x => Qc_leb x u) c).
(** the INDEX that [rng.choice(a, p=p)] selects when the generator's next uniform is [u]
    (all samplers pass a = arange(..) or a list indexed by the result) *)
Definition choice (p : vec) (u : Qc) : nat := searchsorted_right (np_cdf p) u.

(** Spec: normalised partial sums, cells of the partition of [0,1) *)
Definition cdf (p : vec) (k : nat) : Qc := sumQ (firstn k p) / sumQ p.
Definition valid_weights (p : vec) : Prop := (forall a, In a p -> 0 <= a) /\ 0 < sumQ p.
Definition unit_u (u : Qc) : Prop := 0 <= u /\ u < 1.
Definition in_cell (p : vec) (k : nat) (u : Qc) : Prop := cdf p k <= u /\ u < cdf p (S k).
Definition cell_len (p : vec) (k : nat) : Qc := cdf p (S k) - cdf p k.

(** * Pieces shared by the samplers *)
(** if sum(stage_dist) != 1.0: stage_dist = np.array(stage_dist) / sum(stage_dist) *)
Definition renorm_stage_dist (sd : vec) : vec :=
  if Qc_eqb (sumQ sd) 1 then sd else map (fun a => a / sumQ sd) sd.
(** get_t_stages("distributions") / t_stages: keys of the distributions dict *)
Definition stage_names (u : uni) : list string := map fst (u_dists u).
(** distributions[t_stage].pmf for the stage with index [s]; a distribution that went
    through the constructor / set_params cannot raise here (C18): [] stands for that case *)
Definition stage_pmf (u : uni) (s : nat) : vec :=
  match get_pmf u (nth s (stage_names u) ""%string) with inr p => p | inl _ => [] end.
(** Distribution.draw_diag_times(rng=rng) = rng.choice(a=support, p=pmf): support = arange(max_time+1) *)
Definition draw_diag_time (u : uni) (s : nat) (x : Qc) : nat := choice (stage_pmf u s) x.
Definition obs_width (u : uni) : nat := Nat.pow 2 (length (u_mods u) * u_n u).
(** utils.draw_diagnosis(diagnosis_times, state_evolution, observation_matrix, possible_diagnosis, rng):
    one scalar rng.choice per time, p = state_evolution[t] @ observation_matrix; returns indices into obs_list *)
Definition draw_diagnosis_with (w : nat) (evo : list vec) (O : mat) (times : list nat) (xs : list Qc) : list nat :=
  map2 (fun t x => choice (vecmat_w w (nth t evo []) O) x) times xs.
(** Unilateral.draw_diagnosis(diag_times, rng) *)
Definition draw_diagnosis (u : uni) (times : list nat) (xs : list Qc) : list nat :=
  draw_diagnosis_with (obs_width u) (state_dist_evo u) (observation_matrix u) times xs.

Fixpoint map4 {A B C D E} (f : A -> B -> C -> D -> E) (la : list A) (lb : list B) (lc : list C) (ld : list D) : list E :=
  match la, lb, lc, ld with
  | a :: la', b :: lb', c :: lc', d :: ld' => f a b c d :: map4 f la' lb' lc' ld'
  | _, _, _, _ => []
  end.

(** the model's predictive distribution of the complete observation at time [t]
    ([uo] supplies the observation matrix, [evo] the evolution of the hidden state) *)
Definition obs_probs_of (uo : uni) (evo : list vec) (t : nat) : vec := obs_dist_of uo (nth t evo []).
Definition obs_probs (u : uni) (t : nat) : vec := obs_probs_of u (state_dist_evo u) t.

(** * Unilateral.draw_patients(num, stage_dist, rng): (stage index, time, observation index) per patient.
    Order of consumption: one vector draw of [num] T-stages, then one time per patient,
    then one observation per patient. *)
Definition draw_patients_uni (u : uni) (num : nat) (sd : vec) (xs : list Qc) : list (nat * nat * nat) :=
  let stages := map (choice (renorm_stage_dist sd)) (firstn num xs) in
  let xs1 := skipn num xs in
  let times := map2 (draw_diag_time u) stages (firstn num xs1) in
  let xs2 := skipn num xs1 in
  let obs := draw_diagnosis u times (firstn num xs2) in
  map3 (fun s t o => (s, t, o)) stages times obs.

(** * Bilateral.draw_patients: T-stages, times, all ipsilateral observations, then all
    contralateral observations (both sides from the SAME list of times) *)
Definition draw_patients_bi (b : bilateral) (num : nat) (sd : vec) (xs : list Qc) : list (nat * nat * nat * nat) :=
  let u := b_ipsi b in
  let stages := map (choice (renorm_stage_dist sd)) (firstn num xs) in
  let xs1 := skipn num xs in
  let times := map2 (draw_diag_time u) stages (firstn num xs1) in
  let xs2 := skipn num xs1 in
  let oi := draw_diagnosis (b_ipsi b) times (firstn num xs2) in
  let xs3 := skipn num xs2 in
  let oc := draw_diagnosis (b_contra b) times (firstn num xs3) in
  map4 (fun s t i c => (s, t, i, c)) stages times oi oc.

(** * Midline.draw_patients *)
Definition ml_ipsi (ml : midline) : uni := b_ipsi (ml_ext ml).
Definition case_model (ml : midline) (e : bool) : bilateral := if e then ml_ext ml else ml_noext ml.
(** rng.choice(a=[False, True], p=..): index 1 = True *)
Definition ext_of_index (k : nat) : bool := negb (Nat.eqb k 0).
Definition index_of_ext (e : bool) : nat := if e then 1 else 0.
(** midext_evo[t] as the weight vector, resp. [1 - midext_prob, midext_prob] *)
Definition ext_probs (ml : midline) (t : nat) : vec :=
  if ml_evo ml then (let '(a, b) := nth t (midext_evo ml) (0, 0) in [a; b])
  else [1 - ml_midext ml; ml_midext ml].
Definition Qc_ltb (x y : Qc) : bool := negb (Qc_leb y x).
(** np.divide(joint_evo, norm, out=zeros_like, where=norm > 0) with norm = row sums *)
Definition normalise_rows (rows : list vec) : list vec :=
  map (fun r => let n := sumQ r in if Qc_ltb 0 n then map (fun a => a / n) r else zeros (length r)) rows.
(** contra_evo[case]: rows of contra_state_dist_evo() normalised per time step *)
Definition contra_cond (ml : midline) (e : bool) : list vec :=
  normalise_rows (if e then snd (contra_state_dist_evo ml) else fst (contra_state_dist_evo ml)).
(** arr[mask] and the pair of assignments out[mask] = ts; out[~mask] = fs *)
Fixpoint mask_select {A} (m : list bool) (l : list A) : list A :=
  match m, l with
  | b :: m', a :: l' => if b then a :: mask_select m' l' else mask_select m' l'
  | _, _ => []
  end.
Fixpoint mask_scatter {A} (m : list bool) (ts fs : list A) : list A :=
  match m with
  | [] => []
  | true :: m' => match ts with a :: ts' => a :: mask_scatter m' ts' fs | [] => [] end
  | false :: m' => match fs with a :: fs' => a :: mask_scatter m' ts fs' | [] => [] end
  end.
Definition count_true (m : list bool) : nat := length (filter (fun b => b) m).

(** (stage index, time, extension, ipsi observation index, contra observation index).
    Order of consumption: T-stages (vector), times, extension (per patient from
    midext_evo[t], or one vector draw of the static coin), then for case "ext" and then
    for case "noext": the ipsilateral findings of that group, the contralateral findings
    of that group.  use_central raises NotImplementedError. *)
Definition ml_draw := (nat * nat * bool * nat * nat)%type.
Definition draw_patients_ml (ml : midline) (num : nat) (sd : vec) (xs : list Qc) : res (list ml_draw) :=
  match ml_central ml with
  | Some _ => inl MNotImpl
  | None =>
    let u := ml_ipsi ml in
    let stages := map (choice (renorm_stage_dist sd)) (firstn num xs) in
    let xs1 := skipn num xs in
    let times := map2 (draw_diag_time u) stages (firstn num xs1) in
    let xs2 := skipn num xs1 in
    let exts := if ml_evo ml
                then map2 (fun t x => ext_of_index (choice (ext_probs ml t) x)) times (firstn num xs2)
                else map (fun x => ext_of_index (choice [1 - ml_midext ml; ml_midext ml] x)) (firstn num xs2) in
    let xs3 := skipn num xs2 in
    let ipsi_evo := state_dist_evo u in
    let cond_noext := contra_cond ml false in
    let cond_ext := contra_cond ml true in
    (* case "ext" *)
    let t_e := mask_select exts times in
    let k_e := length t_e in
    let oi_e := draw_diagnosis_with (obs_width (b_ipsi (ml_ext ml))) ipsi_evo (observation_matrix (b_ipsi (ml_ext ml)))
                  t_e (firstn k_e xs3) in
    let xs4 := skipn k_e xs3 in
    let oc_e := draw_diagnosis_with (obs_width (b_contra (ml_ext ml))) cond_ext (observation_matrix (b_contra (ml_ext ml)))
                  t_e (firstn k_e xs4) in
    let xs5 := skipn k_e xs4 in
    (* case "noext" *)
    let t_n := mask_select (map negb exts) times in
    let k_n := length t_n in
    let oi_n := draw_diagnosis_with (obs_width (b_ipsi (ml_noext ml))) ipsi_evo (observation_matrix (b_ipsi (ml_noext ml)))
                  t_n (firstn k_n xs5) in
    let xs6 := skipn k_n xs5 in
    let oc_n := draw_diagnosis_with (obs_width (b_contra (ml_noext ml))) cond_noext (observation_matrix (b_contra (ml_noext ml)))
                  t_n (firstn k_n xs6) in
    (* drawn_diags[drawn_midexts == (case == "ext")] = concatenate([ipsi, contra], axis=1) *)
    let diags := mask_scatter exts (combine oi_e oc_e) (combine oi_n oc_n) in
    inr (map4 (fun s t e d => (s, t, e, fst d, snd d)) stages times exts diags)
  end.

(** * The emitted table *)
(** A table row, read by column labels: T-stage name, (midline) extension and diagnosis
    time columns, and per side one (modality, LNL) finding per column.  pandas'
    reorder_levels / sort_index only permute labelled columns; they are not modelled
    (the harness reads the DataFrame by label and checks the set of labels). *)
Record trow := { tr_stage : string; tr_ext : option bool; tr_time : option nat;
                 tr_ipsi : diagnosis; tr_contra : option diagnosis }.
Definition ind_of_bit (d : nat) : indicator := if Nat.eqb d 0 then IHealthy else IInvolved.
(** obs_list[idx].astype(bool) under the columns product(modalities, lnls) *)
Definition diag_of_obs (mods lnls : list string) (z : state) : diagnosis :=
  map (fun '(m, zm) => (m, map (fun '(l, d) => (l, Some (ind_of_bit d))) (combine lnls zm)))
      (combine mods (chunk (length lnls) (length mods) z)).
Definition side_diag (u : uni) (o : nat) : diagnosis :=
  diag_of_obs (u_mod_names u) (u_lnls u) (nth o (u_obs_list u) []).
Definition stage_name (u : uni) (s : nat) : string := nth s (stage_names u) ""%string.

Definition uni_row (u : uni) (d : nat * nat * nat) : trow :=
  let '(s, t, o) := d in
  {| tr_stage := stage_name u s; tr_ext := None; tr_time := None; tr_ipsi := side_diag u o; tr_contra := None |}.
Definition bi_row (b : bilateral) (d : nat * nat * nat * nat) : trow :=
  let '(s, t, i, c) := d in
  {| tr_stage := stage_name (b_ipsi b) s; tr_ext := None; tr_time := None;
     tr_ipsi := side_diag (b_ipsi b) i; tr_contra := Some (side_diag (b_contra b) c) |}.
(** possible_diagnosis = case_model.ipsi.obs_list / case_model.contra.obs_list *)
Definition ml_row (ml : midline) (d : ml_draw) : trow :=
  let '(s, t, e, i, c) := d in
  {| tr_stage := stage_name (ml_ipsi ml) s; tr_ext := Some e; tr_time := Some t;
     tr_ipsi := side_diag (b_ipsi (case_model ml e)) i;
     tr_contra := Some (side_diag (b_contra (case_model ml e)) c) |}.
Definition table_uni (u : uni) num sd xs : list trow := map (uni_row u) (draw_patients_uni u num sd xs).
Definition table_bi (b : bilateral) num sd xs : list trow := map (bi_row b) (draw_patients_bi b num sd xs).
Definition table_ml (ml : midline) num sd xs : res (list trow) :=
  bind (draw_patients_ml ml num sd xs) (fun ds => inr (map (ml_row ml) ds)).

(** load_patient_data(table, mapping = identity), one side of one row *)
Definition patient_of_row (side_contra : bool) (r : trow) : patient :=
  {| p_tstage := tr_stage r;
     p_find := if side_contra then (match tr_contra r with Some d => d | None => [] end) else tr_ipsi r |}.
(** the row of data_matrix() that marks exactly the observation with index [o] *)
Definition onehot_at (o len : nat) : bvec := map (Nat.eqb o) (seq 0 len).

(** * The per-patient samplers (Spec form): the outcome as a function of that patient's
    own coordinates of the stream *)
Definition draw_one_uni (u : uni) (sd : vec) (xs xt xo : Qc) : nat * nat * nat :=
  let s := choice (renorm_stage_dist sd) xs in
  let t := draw_diag_time u s xt in
  (s, t, choice (obs_probs u t) xo).
Definition draw_one_bi (b : bilateral) (sd : vec) (xs xt xi xc : Qc) : nat * nat * nat * nat :=
  let s := choice (renorm_stage_dist sd) xs in
  let t := draw_diag_time (b_ipsi b) s xt in
  (s, t, choice (obs_probs (b_ipsi b) t) xi, choice (obs_probs (b_contra b) t) xc).
(** predictive distributions of the two sides given the time and the extension status *)
Definition ml_ipsi_probs (ml : midline) (e : bool) (t : nat) : vec :=
  obs_probs_of (b_ipsi (case_model ml e)) (state_dist_evo (ml_ipsi ml)) t.
Definition ml_contra_probs (ml : midline) (e : bool) (t : nat) : vec :=
  obs_probs_of (b_contra (case_model ml e)) (contra_cond ml e) t.
Definition draw_one_ml (ml : midline) (sd : vec) (xs xt xe : Qc) (xic : Qc * Qc) : ml_draw :=
  let s := choice (renorm_stage_dist sd) xs in
  let t := draw_diag_time (ml_ipsi ml) s xt in
  let e := ext_of_index (choice (ext_probs ml t) xe) in
  (s, t, e, choice (ml_ipsi_probs ml e t) (fst xic), choice (ml_contra_probs ml e t) (snd xic)).

(** the coordinates of the stream that each patient receives (polymorphic in the
    element type, so that instantiating with positions shows it is a rearrangement) *)
Definition chunk_s {A} (num : nat) (xs : list A) : list A := firstn num xs.
Definition chunk_t {A} (num : nat) (xs : list A) : list A := firstn num (skipn num xs).
Definition chunk_3 {A} (num : nat) (xs : list A) : list A := firstn num (skipn num (skipn num xs)).
Definition chunk_4 {A} (num : nat) (xs : list A) : list A := firstn num (skipn num (skipn num (skipn num xs))).
(** midline: the (ipsi, contra) coordinates of the patients, routed by the extension mask:
    the j-th patient WITH extension gets positions j and k+j after the first 3 num uniforms,
    the j-th patient WITHOUT gets 2k+j and 2k+k'+j  (k, k' = number of patients with / without) *)
Definition ml_obs_coords {A} (num : nat) (exts : list bool) (xs : list A) : list (A * A) :=
  let xs3 := skipn num (skipn num (skipn num xs)) in
  let k := count_true exts in
  let k' := count_true (map negb exts) in
  let xs5 := skipn k (skipn k xs3) in
  mask_scatter exts (combine (firstn k xs3) (firstn k (skipn k xs3)))
                    (combine (firstn k' xs5) (firstn k' (skipn k' xs5))).
(** the extension flags drawn from the first 3 num uniforms *)
Definition ml_exts (ml : midline) (num : nat) (sd : vec) (xs : list Qc) : list bool :=
  map3 (fun a b c => let s := choice (renorm_stage_dist sd) a in
                     let t := draw_diag_time (ml_ipsi ml) s b in
                     ext_of_index (choice (ext_probs ml t) c))
       (chunk_s num xs) (chunk_t num xs) (chunk_3 num xs).
Definition flat_pairs {A} (l : list (A * A)) : list A := flat_map (fun p => [fst p; snd p]) l.

(** * Well-formedness of the sampled objects (boolean / unit-interval hypotheses) *)
Definition uni_in_unit (u : uni) : Prop := params_in_unit (u_graph u) /\ mods_in_unit (map snd (u_mods u)).
Definition stages_ok (u : uni) (sd : vec) : Prop :=
  valid_weights sd /\
  forall s, (s < length sd)%nat -> valid_weights (stage_pmf u s) /\ length (stage_pmf u s) = S (u_maxt u).
Definition wf_bi_sampler (b : bilateral) : bool := wf_bilateral b.
Definition wf_ml_sampler (ml : midline) : bool :=
  wf_midline ml
  && Nat.eqb (nlnls (u_graph (b_ipsi (ml_noext ml)))) (nlnls (u_graph (b_ipsi (ml_ext ml))))
  && match ml_central ml with None => true | Some _ => false end.
Definition ml_in_unit (ml : midline) : Prop :=
  uni_in_unit (b_ipsi (ml_ext ml)) /\ uni_in_unit (b_contra (ml_ext ml)) /\
  uni_in_unit (b_ipsi (ml_noext ml)) /\ uni_in_unit (b_contra (ml_noext ml)) /\
  0 <= ml_midext ml <= 1.
(** P(extension status = e | diagnosis time t) *)
Definition ext_prob (ml : midline) (t : nat) (e : bool) : Qc :=
  if ml_evo ml then (if e then 1 - qpow (1 - ml_midext ml) t else qpow (1 - ml_midext ml) t)
  else (if e then ml_midext ml else 1 - ml_midext ml).
(** a distribution: non-negative entries that sum to one *)
Definition is_dist (p : vec) : Prop := (forall a, In a p -> 0 <= a) /\ sumQ p = 1.

(** * Statements *)
(** the preimage of outcome k under [choice p] is the interval [cdf p k, cdf p (S k)),
    of length p_k / sum p; outcomes are always in range *)
Definition C16_choice_interval_stmt : Prop :=
  forall p u k, valid_weights p -> unit_u u ->
    (choice p u = k <-> in_cell p k u) /\
    cell_len p k = nth k p 0 / sumQ p /\
    (choice p u < length p)%nat.
(** renormalising stage_dist does not change the cells *)
Definition C16_stage_dist_renormalised_stmt : Prop :=
  forall sd s, valid_weights sd ->
    valid_weights (renorm_stage_dist sd) /\ length (renorm_stage_dist sd) = length sd /\
    cell_len (renorm_stage_dist sd) s = nth s sd 0 / sumQ sd.

(** every patient's outcome is the per-patient sampler applied to that patient's own
    coordinates, and the coordinates of all patients together are exactly the first
    3 / 4 / 5 * num uniforms of the stream, each used once *)
Definition C16_uni_stream_stmt : Prop :=
  forall u num sd xs,
    draw_patients_uni u num sd xs
    = map3 (draw_one_uni u sd) (chunk_s num xs) (chunk_t num xs) (chunk_3 num xs).
Definition C16_bi_stream_stmt : Prop :=
  forall b num sd xs,
    draw_patients_bi b num sd xs
    = map4 (draw_one_bi b sd) (chunk_s num xs) (chunk_t num xs) (chunk_3 num xs) (chunk_4 num xs).
Definition C16_ml_stream_stmt : Prop :=
  forall ml num sd xs, ml_central ml = None -> (5 * num <= length xs)%nat ->
    draw_patients_ml ml num sd xs
    = inr (map4 (draw_one_ml ml sd) (chunk_s num xs) (chunk_t num xs) (chunk_3 num xs)
                (ml_obs_coords num (ml_exts ml num sd xs) xs)).
Definition C16_chunks_partition_stmt : Prop :=
  forall A num (xs : list A),
    chunk_s num xs ++ chunk_t num xs ++ chunk_3 num xs = firstn (3 * num) xs /\
    chunk_s num xs ++ chunk_t num xs ++ chunk_3 num xs ++ chunk_4 num xs = firstn (4 * num) xs.
Definition C16_ml_coords_rearrange_stmt : Prop :=
  forall A num (exts : list bool) (xs : list A), length exts = num -> (5 * num <= length xs)%nat ->
    length (ml_obs_coords num exts xs) = num /\
    Permutation (chunk_s num xs ++ chunk_t num xs ++ chunk_3 num xs ++ flat_pairs (ml_obs_coords num exts xs))
                (firstn (5 * num) xs).
Definition C16_ml_central_not_implemented_stmt : Prop :=
  forall ml c num sd xs, ml_central ml = Some c -> table_ml ml num sd xs = inl MNotImpl.

(** the predictive distributions are distributions *)
Definition C16_predictive_is_dist_stmt : Prop :=
  forall u t, wf_uni u = true -> uni_in_unit u -> (t <= u_maxt u)%nat -> is_dist (obs_probs u t).

(** draw_is_predictive, unilateral: outcome (s, t, o) <-> the three coordinates lie in
    their cells; the cell lengths are stage_dist(s)/sum, pmf_s(t)/sum pmf_s, P(o | t) *)
Definition C16_uni_draw_is_predictive_stmt : Prop :=
  forall u sd xs xt xo s t o,
    wf_uni u = true -> uni_in_unit u -> stages_ok u sd ->
    unit_u xs -> unit_u xt -> unit_u xo ->
    (draw_one_uni u sd xs xt xo = (s, t, o)
     <-> in_cell (renorm_stage_dist sd) s xs /\ in_cell (stage_pmf u s) t xt /\ in_cell (obs_probs u t) o xo)
    /\ cell_len (renorm_stage_dist sd) s = nth s sd 0 / sumQ sd
    /\ cell_len (stage_pmf u s) t = nth t (stage_pmf u s) 0 / sumQ (stage_pmf u s)
    /\ ((t <= u_maxt u)%nat -> cell_len (obs_probs u t) o = nth o (obs_probs u t) 0).
(** bilateral: both sides of one patient from the same time *)
Definition C16_bi_draw_is_predictive_stmt : Prop :=
  forall b sd xs xt xi xc s t oi oc,
    wf_bi_sampler b = true -> uni_in_unit (b_ipsi b) -> uni_in_unit (b_contra b) -> stages_ok (b_ipsi b) sd ->
    unit_u xs -> unit_u xt -> unit_u xi -> unit_u xc ->
    (draw_one_bi b sd xs xt xi xc = (s, t, oi, oc)
     <-> in_cell (renorm_stage_dist sd) s xs /\ in_cell (stage_pmf (b_ipsi b) s) t xt
         /\ in_cell (obs_probs (b_ipsi b) t) oi xi /\ in_cell (obs_probs (b_contra b) t) oc xc)
    /\ cell_len (renorm_stage_dist sd) s = nth s sd 0 / sumQ sd
    /\ cell_len (stage_pmf (b_ipsi b) s) t = nth t (stage_pmf (b_ipsi b) s) 0 / sumQ (stage_pmf (b_ipsi b) s)
    /\ ((t <= u_maxt (b_ipsi b))%nat ->
        cell_len (obs_probs (b_ipsi b) t) oi = nth oi (obs_probs (b_ipsi b) t) 0 /\
        cell_len (obs_probs (b_contra b) t) oc = nth oc (obs_probs (b_contra b) t) 0).
(** midline: extension from P(e | t); the ipsilateral side from the ipsilateral evolution
    at t, the contralateral side from the model's conditional P(X^c_t | e_t = e) *)
Definition C16_ml_draw_is_predictive_stmt : Prop :=
  forall ml sd xs xt xe xi xc s t e oi oc,
    wf_ml_sampler ml = true -> ml_in_unit ml -> stages_ok (ml_ipsi ml) sd ->
    unit_u xs -> unit_u xt -> unit_u xe -> unit_u xi -> unit_u xc ->
    (draw_one_ml ml sd xs xt xe (xi, xc) = (s, t, e, oi, oc)
     <-> in_cell (renorm_stage_dist sd) s xs /\ in_cell (stage_pmf (ml_ipsi ml) s) t xt
         /\ in_cell (ext_probs ml t) (index_of_ext e) xe
         /\ in_cell (ml_ipsi_probs ml e t) oi xi /\ in_cell (ml_contra_probs ml e t) oc xc)
    /\ cell_len (renorm_stage_dist sd) s = nth s sd 0 / sumQ sd
    /\ cell_len (stage_pmf (ml_ipsi ml) s) t = nth t (stage_pmf (ml_ipsi ml) s) 0 / sumQ (stage_pmf (ml_ipsi ml) s)
    /\ ((t <= ml_maxt ml)%nat ->
        cell_len (ext_probs ml t) (index_of_ext e) = ext_prob ml t e /\
        cell_len (ml_ipsi_probs ml e t) oi = nth oi (ml_ipsi_probs ml e t) 0 /\
        (0 < ext_prob ml t e ->
           cell_len (ml_contra_probs ml e t) oc = nth oc (ml_contra_probs ml e t) 0 /\
           (* the state distribution behind the contralateral draw is the model's conditional *)
           nth t (contra_cond ml e) []
           = map (fun x => ml_contra_spec ml t e x / ext_prob ml t e) (u_states (b_contra (case_model ml e))))).

(** loading a drawn row back (identity mapping) marks exactly the drawn observation *)
Definition C16_table_roundtrip_stmt : Prop :=
  forall u o ts, wf_uni u = true -> (o < length (u_obs_list u))%nat ->
    patient_encoding (u_lnls u) (u_mod_names u) {| p_tstage := ts; p_find := side_diag u o |}
    = inr (onehot_at o (length (u_obs_list u))).
Definition C16_rows_roundtrip_stmt : Prop :=
  (forall u s t o, wf_uni u = true -> (o < length (u_obs_list u))%nat ->
     data_matrix u [patient_of_row false (uni_row u (s, t, o))] None = inr [onehot_at o (length (u_obs_list u))]) /\
  (forall b s t i c, wf_uni (b_ipsi b) = true -> wf_uni (b_contra b) = true ->
     (i < length (u_obs_list (b_ipsi b)))%nat -> (c < length (u_obs_list (b_contra b)))%nat ->
     data_matrix (b_ipsi b) [patient_of_row false (bi_row b (s, t, i, c))] None
       = inr [onehot_at i (length (u_obs_list (b_ipsi b)))] /\
     data_matrix (b_contra b) [patient_of_row true (bi_row b (s, t, i, c))] None
       = inr [onehot_at c (length (u_obs_list (b_contra b)))]) /\
  (forall ml s t e i c, wf_uni (b_ipsi (case_model ml e)) = true -> wf_uni (b_contra (case_model ml e)) = true ->
     (i < length (u_obs_list (b_ipsi (case_model ml e))))%nat -> (c < length (u_obs_list (b_contra (case_model ml e))))%nat ->
     tr_ext (ml_row ml (s, t, e, i, c)) = Some e /\
     data_matrix (b_ipsi (case_model ml e)) [patient_of_row false (ml_row ml (s, t, e, i, c))] None
       = inr [onehot_at i (length (u_obs_list (b_ipsi (case_model ml e))))] /\
     data_matrix (b_contra (case_model ml e)) [patient_of_row true (ml_row ml (s, t, e, i, c))] None
       = inr [onehot_at c (length (u_obs_list (b_contra (case_model ml e))))]).

(** equal streams (equal seeds) give equal tables *)
Definition C16_seed_determinism_stmt : Prop :=
  forall num sd xs xs', xs = xs' ->
    (forall u, table_uni u num sd xs = table_uni u num sd xs') /\
    (forall b, table_bi b num sd xs = table_bi b num sd xs') /\
    (forall ml, table_ml ml num sd xs = table_ml ml num sd xs').
