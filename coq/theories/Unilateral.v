(** Unilateral: the numerical core of [models.Unilateral]: state_dist_evo, evolve,
    state_dist (HMM / BN), obs_dist, data encoding, diagnosis_matrix, the HMM / BN
    likelihood, posterior_state_dist, marginalize, risk  (Impl, mirroring the matrix
    products of the code) and the per-state Spec ([evo_spec], [patient_lik_spec],
    [bayes_spec]).  Executable definitions only. *)
From LymphModel Require Import Base States Linalg Graph Transition Observation Dist.
Local Open Scope nat_scope.
Open Scope Qc_scope.

Record uni := { u_graph : graph; u_mods : list (string * modality);
                u_dists : list (string * dist); u_maxt : nat }.

Definition u_base (u : uni) : nat := g_base (u_graph u).
Definition u_n (u : uni) : nat := nlnls (u_graph u).
Definition u_states (u : uni) : list state := state_list (u_graph u).
Definition transition_matrix (u : uni) : mat := generate_transition (u_graph u).
Definition observation_matrix (u : uni) : mat :=
  generate_observation (map snd (u_mods u)) (u_n u) (u_base u).
Definition u_obs_list (u : uni) : list state := obs_list (length (u_mods u)) (u_n u).

(** * Priors *)
(** Unilateral.evolve *)
Fixpoint evolve (T : mat) (v : vec) (k : nat) : vec :=
  match k with O => v | S k' => evolve T (vecmat_w (length v) v T) k' end.
(** Unilateral.state_dist_evo: rows t = 0 .. max_time *)
Fixpoint evo_rows (T : mat) (v : vec) (k : nat) : list vec :=
  match k with O => [v] | S k' => v :: evo_rows T (vecmat_w (length v) v T) k' end.
Definition state_dist_evo (u : uni) : list vec :=
  evo_rows (transition_matrix u) (onehot0 (Nat.pow (u_base u) (u_n u))) (u_maxt u).

Inductive merr := MKey | MValue | MNotImpl | MAttr.
Definition res (A : Type) := (merr + A)%type.
Definition bind {A B} (r : res A) (f : A -> res B) : res B := match r with inl e => inl e | inr a => f a end.

Definition get_pmf (u : uni) (t : string) : res vec :=
  match dict_get t (u_dists u) with
  | None => inl MKey
  | Some d => match pmf (u_maxt u) d with None => inl MValue | Some p => inr p end
  end.

(** comp_bayes_net_prob for LNL [lnl] with the system in state [x] (binary only) *)
Definition bn_node_prob (g : graph) (x : state) (i : nat) (lnl : string) : Qc :=
  let s := digit i x in
  let prod := fold_left (fun (r : Qc) e =>
      let ps := if is_tumor_spread e then 0%nat else parent_digit g e x in
      r * tget (transition_tensor (g_base g) e) ps 0 0)
      (inc_edges g lnl) (if Nat.eqb s 0 then 1 else -(1)) in
  prod + qnat s.
Definition state_dist_bn (g : graph) : res vec :=
  if Nat.eqb (g_base g) 3 then inl MNotImpl else
  inr (map (fun x => fold_left (fun (r : Qc) '(i, lnl) => r * bn_node_prob g x i lnl)
                       (combine (seq 0 (nlnls g)) (lnls g)) 1) (state_list g)).

(** Unilateral.state_dist(t_stage, mode) *)
Definition state_dist (u : uni) (t : string) (hmm : bool) : res vec :=
  if hmm then bind (get_pmf u t) (fun p => inr (vecmat_w (Nat.pow (u_base u) (u_n u)) p (state_dist_evo u)))
  else state_dist_bn (u_graph u).
Definition obs_dist_of (u : uni) (sd : vec) : vec :=
  vecmat_w (Nat.pow 2 (length (u_mods u) * u_n u)) sd (observation_matrix u).
Definition obs_dist (u : uni) (t : string) (hmm : bool) : res vec :=
  bind (state_dist u t hmm) (fun sd => inr (obs_dist_of u sd)).

(** * Patient data *)
(** One row of the loaded table for one side: mapped T-stage and, per modality
    present in the table, the recorded finding of each LNL of the graph
    (IHealthy / IInvolved; [None] = missing value or missing column). *)
Record patient := { p_tstage : string; p_find : diagnosis }.

(** matrix.generate_data_encoding, one row: kron over the MODEL's modalities; a
    modality absent from the table contributes the all-true factor *)
Definition patient_encoding (lnl_names : list string) (mod_names : list string) (p : patient) : res bvec :=
  fold_left (fun (acc : res bvec) m =>
      bind acc (fun enc =>
        match diag_get m (p_find p) with
        | None => inr (kron_bvec enc (repeat true (Nat.pow 2 (length lnl_names))))
        | Some pat => match compute_encoding lnl_names pat 2 with
                      | None => inl MValue
                      | Some e => inr (kron_bvec enc e)
                      end
        end)) mod_names (inr [true]).

Definition u_lnls (u : uni) : list string := lnls (u_graph u).
Definition u_mod_names (u : uni) : list string := map fst (u_mods u).

Fixpoint sequence {A} (l : list (res A)) : res (list A) :=
  match l with
  | [] => inr []
  | r :: rest => bind r (fun a => bind (sequence rest) (fun t => inr (a :: t)))
  end.

(** data_matrix(t_stage): [None] = all patients *)
Definition select (data : list patient) (t : option string) : list patient :=
  match t with None => data | Some ts => filter (fun p => str_eqb (p_tstage p) ts) data end.
Definition data_matrix (u : uni) (data : list patient) (t : option string) : res (list bvec) :=
  sequence (map (patient_encoding (u_lnls u) (u_mod_names u)) (select data t)).
(** diagnosis_matrix(t_stage): one row per patient, P(findings | state) for every state *)
Definition diagnosis_matrix (u : uni) (data : list patient) (t : option string) : res mat :=
  bind (data_matrix u data t) (fun D =>
    inr (map (fun enc => matvec (observation_matrix u) (map b2q enc)) D)).

(** * Likelihood *)
(** pmf @ evo @ diag.T : per-patient likelihoods of T-stage t, in table order *)
Definition hmm_patient_llhs (u : uni) (data : list patient) (t : string) : res vec :=
  bind (get_pmf u t) (fun p =>
  bind (diagnosis_matrix u data (Some t)) (fun DM =>
    let prior := vecmat_w (Nat.pow (u_base u) (u_n u)) p (state_dist_evo u) in
    inr (map (fun row => dot prior row) DM))).

(** get_t_stages("valid") up to order: distribution stages that occur in the data *)
Definition valid_t_stages (u : uni) (data : list patient) : list string :=
  filter (fun t => existsb (fun p => str_eqb (p_tstage p) t) data) (map fst (u_dists u)).

(** the factors whose product is likelihood(log=False) and whose log-sum is
    likelihood(log=True): [t] = None scores all valid stages *)
Definition hmm_likelihood_factors (u : uni) (data : list patient) (t : option string) : res vec :=
  let stages := match t with None => valid_t_stages u data | Some ts => [ts] end in
  bind (sequence (map (hmm_patient_llhs u data) stages)) (fun ls => inr (concat ls)).
Definition bn_likelihood_factors (u : uni) (data : list patient) (t : option string) : res vec :=
  bind (state_dist_bn (u_graph u)) (fun sd =>
  bind (diagnosis_matrix u data t) (fun DM => inr (map (fun row => dot sd row) DM))).

(** * Posterior and risk *)
(** Unilateral.compute_encoding(given_diagnosis) *)
Definition diagnosis_encoding (u : uni) (d : diagnosis) : res bvec :=
  fold_left (fun (acc : res bvec) m =>
      bind acc (fun enc =>
        let pat := match diag_get m d with None => [] | Some p => p end in
        match compute_encoding (u_lnls u) pat 2 with
        | None => inl MValue
        | Some e => inr (kron_bvec enc e)
        end)) (u_mod_names u) (inr [true]).

(** posterior_state_dist(given_state_dist, given_diagnosis); [None] = 0/0 (NaN) *)
Definition posterior_of (u : uni) (prior : vec) (d : option diagnosis) : res (option vec) :=
  match d with
  | None => inr (Some prior)
  | Some dg =>
      bind (diagnosis_encoding u dg) (fun enc =>
        let dgs := matvec (observation_matrix u) (map b2q enc) in
        let joint := vmul prior dgs in
        let z := sumQ joint in
        if Qc_eqb z 0 then inr None else inr (Some (map (fun a => a / z) joint)))
  end.
Definition marginalize_of (u : uni) (inv : pattern) (sd : vec) : res Qc :=
  match compute_encoding (u_lnls u) inv (u_base u) with
  | None => inl MValue
  | Some enc => inr (dot (map b2q enc) sd)
  end.
Definition risk (u : uni) (inv : pattern) (d : option diagnosis) (t : string) (hmm : bool) : res (option Qc) :=
  bind (state_dist u t hmm) (fun prior =>
  bind (posterior_of u prior d) (fun po =>
    match po with
    | None => inr None
    | Some post => bind (marginalize_of u inv post) (fun r => inr (Some r))
    end)).

(** * Spec *)
(** t-step evolution of the all-healthy state under the per-LNL rules *)
Definition healthy (n : nat) : state := repeat 0%nat n.
Fixpoint evo_spec (g : graph) (t : nat) (y : state) : Qc :=
  match t with
  | O => if list_eq_dec Nat.eq_dec y (healthy (nlnls g)) then 1 else 0
  | S t' => sumQ (map (fun x => evo_spec g t' x * trans_spec g x y) (state_list g))
  end.
(** probability of one recorded finding given the LNL's state *)
Definition finding_factor (b : nat) (m : modality) (s : nat) (f : option indicator) : Qc :=
  match f with None => 1 | Some ind => conf b m s (obs_of_indicator ind) end.
(** P(recorded findings of p | x): unrecorded findings contribute the factor 1 *)
Definition findings_prob (u : uni) (p : patient) (x : state) : Qc :=
  prodQ (map (fun '(name, m) =>
      match diag_get name (p_find p) with
      | None => 1
      | Some pat => prodQ (map (fun '(l, s) => finding_factor (u_base u) m s (pat_get l pat))
                                (combine (u_lnls u) x))
      end) (u_mods u)).
Definition prior_spec (u : uni) (pm : vec) (x : state) : Qc :=
  sumQ (map (fun '(t, w) => w * evo_spec (u_graph u) t x) (combine (seq 0 (S (u_maxt u))) pm)).
Definition patient_lik_spec (u : uni) (pm : vec) (p : patient) : Qc :=
  sumQ (map (fun x => prior_spec u pm x * findings_prob u p x) (u_states u)).
