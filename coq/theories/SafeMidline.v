(** SafeMidline: Midline.set_params called with keywords only and a FULL assignment
    [dict(zip(names, v))] (what [likelihood(given_params=...)] does with a full proposal):
    it succeeds iff the proposal is acceptable ([Safe.m_accepts]), and then the object it
    leaves is an explicit function of the configuration and the proposal.  From this the
    Midline statements of C12 follow.  The getter fact [mid_names_nodup_stmt] (C10) is a
    premise. *)
From LymphModel Require Import Base States Linalg Graph Transition Observation Dist Unilateral Models Params
  ParamsStatements ParamsLemmas ParamsProofs ParamsBilateral Safe SafeProofs.
Local Open Scope nat_scope.
Local Open Scope string_scope.
Local Open Scope list_scope.

(** * Sub-models of a well-formed midline model *)
Definition TK (m : midline) : list path := map fst (u_tumor_items (m_ei m)).
Definition LK (m : midline) : list path := map fst (u_lnl_items (m_ei m)).
Definition DK (m : midline) : list path := map fst (u_dist_items (m_ei m)).

Lemma same_shape_parts u1 u2 : same_shape u1 u2 = true -> shape (u_edges u1) = shape (u_edges u2) /\ u_tri u2 = u_tri u1.
Proof.
  unfold same_shape. rewrite andb_true_iff. intros [Hb Hs]. split; [apply shape_eqb_shape, Hs|].
  apply Nat.eqb_eq in Hb. unfold u_tri, g_tri. rewrite Hb. reflexivity.
Qed.
Lemma shape_keys sel u1 u2 : kind_sel sel -> shape (u_edges u1) = shape (u_edges u2) -> u_tri u2 = u_tri u1 ->
  map fst (u_sel_items sel u2) = map fst (u_sel_items sel u1).
Proof. intros Hk Hs Ht. unfold u_sel_items. rewrite Ht. symmetry. apply shape_sel_keys; assumption. Qed.

(** a unilateral model with the names and the parameter keys of ext.ipsi *)
Definition like_ei (m : midline) (u : uni) : Prop :=
  u_names_ok u = true /\ map fst (u_tumor_items u) = TK m /\ map fst (u_lnl_items u) = LK m /\ map fst (u_dist_items u) = DK m.

Lemma m_ok_bi m b : m_names_ok m = true -> In b (m_bis m) ->
  b_names_ok b = true /\ like_ei m (b_ipsi b) /\ like_ei m (b_contra b) /\ b_symL b = ml_symL m.
Proof.
  unfold m_names_ok. rewrite !andb_true_iff. intros [[[[[Hb Hsh] _] _] _] Hsym] Hin.
  rewrite forallb_forall in Hb, Hsh, Hsym. specialize (Hb b Hin). specialize (Hsh b Hin). specialize (Hsym b Hin).
  apply andb_true_iff in Hsh. destruct Hsh as [Hshape Hdk]. apply Bool.eqb_prop in Hsym.
  destruct (same_shape_parts _ _ Hshape) as [Hs Ht]. apply keys_eqb_eq in Hdk.
  destruct (b_names_ok_parts b Hb) as (Hi & Hc & _ & _).
  assert (Hli : like_ei m (b_ipsi b)).
  { split; [exact Hi|]. split; [apply (shape_keys is_tumor_spread _ _ kind_sel_tumor Hs Ht)|].
    split; [apply (shape_keys sel_lnl _ _ kind_sel_lnl Hs Ht) | symmetry; exact Hdk]. }
  split; [exact Hb|]. split; [exact Hli|]. split; [|exact Hsym].
  destruct Hli as (_ & HT & HL & HD). split; [exact Hc|].
  split; [rewrite <- HT; apply (contra_sel_keys is_tumor_spread b kind_sel_tumor Hb)|].
  split; [rewrite <- HL; apply (contra_sel_keys sel_lnl b kind_sel_lnl Hb) | rewrite <- HD; apply (b_dist_keys b Hb)].
Qed.
Lemma m_ok_ext m : m_names_ok m = true -> In (ml_ext m) (m_bis m). Proof. intros _. left. reflexivity. Qed.
Lemma m_ok_noext m : m_names_ok m = true -> In (ml_noext m) (m_bis m). Proof. intros _. right. left. reflexivity. Qed.
Lemma m_ok_central m c : ml_central m = Some c -> In c (m_bis m).
Proof. intros E. unfold m_bis. rewrite E. cbn. tauto. Qed.
Lemma m_ok_unknown m k : ml_unknown m = Some k -> In k (m_bis m).
Proof. intros E. unfold m_bis. rewrite E. destruct (ml_central m); cbn; tauto. Qed.
Lemma m_ok_flags m : m_names_ok m = true ->
  b_symT (ml_ext m) = false /\ b_symT (ml_noext m) = false /\ (forall c, ml_central m = Some c -> b_symT c = true).
Proof.
  unfold m_names_ok. rewrite !andb_true_iff. intros [[[[_ H1] H2] H3] _].
  apply negb_true_iff in H1, H2. repeat split; try assumption. intros c E. rewrite E in H3. exact H3.
Qed.
Lemma like_ei_ei m : m_names_ok m = true -> like_ei m (m_ei m).
Proof. intros H. apply (m_ok_bi m (ml_ext m) H (m_ok_ext m H)). Qed.

Definition ENm (m : midline) (s : string) : Prop := EN (m_ei m) s.
Definition TSm (m : midline) (s : string) : Prop := TS (m_ei m) s.
Lemma EN_not_reserved m s : m_names_ok m = true -> ENm m s -> In s reserved -> False.
Proof. intros H He Hr. destruct (like_ei_ei m H) as (Hn & _). exact (in_reserved_not_edge _ s Hn Hr He). Qed.
Lemma TS_not_reserved m s : m_names_ok m = true -> TSm m s -> In s reserved -> False.
Proof. intros H Ht Hr. destruct (like_ei_ei m H) as (Hn & _). exact (in_reserved_not_tstage _ s Hn Hr Ht). Qed.
Lemma EN_TS m s : m_names_ok m = true -> ENm m s -> TSm m s -> False.
Proof. intros H. destruct (like_ei_ei m H) as (Hn & _). apply (EN_TS_disj _ Hn). Qed.
Lemma TK_form m k : In k (TK m) -> exists n s, k = [n; s] /\ ENm m n.
Proof. intros H. apply (spread_key_form (m_ei m) k). left. exact H. Qed.
Lemma LK_form m k : In k (LK m) -> exists n s, k = [n; s] /\ ENm m n.
Proof. intros H. apply (spread_key_form (m_ei m) k). right. exact H. Qed.
Lemma DK_form m k : In k (DK m) -> exists t s, k = [t; s] /\ TSm m t.
Proof. intros H. apply (dist_key_form (m_ei m) k H). Qed.

(** * The names in terms of TK / LK / DK *)
Definition cpre (m : midline) : path := match ml_mixing m with Some _ => ["contra"] | None => ["noext"; "contra"] end.
Definition lpre (m : midline) (side : string) : path := if ml_symL m then [] else [side].
Definition m_spread_keys (m : midline) : list path :=
  match ml_mixing m, ml_symL m with
  | Some _, true => map (app ["ipsi"]) (TK m) ++ map (app ["contra"]) (TK m) ++ [["mixing"]] ++ LK m
  | Some _, false => map (app ["ipsi"]) (TK m ++ LK m) ++ map (app ["contra"]) (TK m ++ LK m) ++ [["mixing"]]
  | None, true => map (app ["ipsi"]) (TK m) ++ map (app ["noext"; "contra"]) (TK m) ++ map (app ["ext"; "contra"]) (TK m) ++ LK m
  | None, false => map (app ["ipsi"]) (TK m ++ LK m) ++ map (app ["noext"; "contra"]) (TK m)
                   ++ map (app ["ext"; "contra"]) (TK m) ++ map (app ["contra"]) (LK m)
  end.
Lemma m_spread_keys_eq m : m_names_ok m = true -> map fst (m_spread_items m) = m_spread_keys m.
Proof.
  intros H. destruct (m_ok_bi m _ H (m_ok_ext m H)) as (_ & _ & (_ & HTec & HLec & _) & _).
  destruct (m_ok_bi m _ H (m_ok_noext m H)) as (_ & _ & (_ & HTnc & _ & _) & _).
  unfold m_spread_items, m_spread_keys. fold (m_ei m).
  destruct (ml_mixing m), (ml_symL m); rewrite ?map_app, ?pre_keys, ?map_app, ?HTec, ?HLec, ?HTnc; reflexivity.
Qed.
Lemma m_names_eq m : m_names_ok m = true -> m_names m = m_spread_keys m ++ DK m ++ [["midext"; "prob"]].
Proof. intros H. unfold m_names, m_items. rewrite !map_app, (m_spread_keys_eq m H). reflexivity. Qed.
Lemma m_spread_keys_length m : m_names_ok m = true -> length (m_spread_keys m) = length (m_spread_items m).
Proof. intros H. rewrite <- (m_spread_keys_eq m H), map_length. reflexivity. Qed.

Lemma in_map_app (p : path) K k : In k (map (app p) K) <-> exists k', k = p ++ k' /\ In k' K.
Proof. rewrite in_map_iff. split; intros (k' & H1 & H2); exists k'; split; auto. Qed.

(** every name has one of eight forms *)
Inductive name_form (m : midline) : path -> Prop :=
| NFipsi n s : ENm m n -> name_form m ["ipsi"; n; s]
| NFcontra n s : ENm m n -> name_form m ["contra"; n; s]
| NFnoext n s : ENm m n -> name_form m ["noext"; "contra"; n; s]
| NFext n s : ENm m n -> name_form m ["ext"; "contra"; n; s]
| NFmixing : name_form m ["mixing"]
| NFedge n s : ENm m n -> name_form m [n; s]
| NFdist t s : TSm m t -> name_form m [t; s]
| NFmidext : name_form m ["midext"; "prob"].

Lemma m_name_form m k : m_names_ok m = true -> In k (m_names m) -> name_form m k.
Proof.
  intros H. rewrite (m_names_eq m H), !in_app_iff.
  assert (HT : forall p k', In k' (TK m) -> exists n s, p ++ k' = p ++ [n; s] /\ ENm m n)
    by (intros p k' Hk; destruct (TK_form m k' Hk) as (n & s & -> & Hn); eauto).
  assert (HL : forall p k', In k' (LK m) -> exists n s, p ++ k' = p ++ [n; s] /\ ENm m n)
    by (intros p k' Hk; destruct (LK_form m k' Hk) as (n & s & -> & Hn); eauto).
  assert (HTL : forall p k', In k' (TK m ++ LK m) -> exists n s, p ++ k' = p ++ [n; s] /\ ENm m n)
    by (intros p k' Hk; apply in_app_iff in Hk; destruct Hk; [apply HT | apply HL]; assumption).
  intros [Hs|[Hd|[<-|[]]]]; [| destruct (DK_form m k Hd) as (t & s & -> & Ht); apply NFdist, Ht | apply NFmidext].
  unfold m_spread_keys in Hs.
  destruct (ml_mixing m), (ml_symL m); rewrite ?in_app_iff, ?in_map_app in Hs; cbn [In] in Hs.
  - destruct Hs as [(k' & -> & Hk)|[(k' & -> & Hk)|[[<-|[]]|Hk]]].
    + destruct (HT ["ipsi"] k' Hk) as (n & s & -> & Hn). apply NFipsi, Hn.
    + destruct (HT ["contra"] k' Hk) as (n & s & -> & Hn). apply NFcontra, Hn.
    + apply NFmixing.
    + destruct (LK_form m k Hk) as (n & s & -> & Hn). apply NFedge, Hn.
  - destruct Hs as [(k' & -> & Hk)|[(k' & -> & Hk)|[<-|[]]]].
    + destruct (HTL ["ipsi"] k' Hk) as (n & s & -> & Hn). apply NFipsi, Hn.
    + destruct (HTL ["contra"] k' Hk) as (n & s & -> & Hn). apply NFcontra, Hn.
    + apply NFmixing.
  - destruct Hs as [(k' & -> & Hk)|[(k' & -> & Hk)|[(k' & -> & Hk)|Hk]]].
    + destruct (HT ["ipsi"] k' Hk) as (n & s & -> & Hn). apply NFipsi, Hn.
    + destruct (HT ["noext"; "contra"] k' Hk) as (n & s & -> & Hn). apply NFnoext, Hn.
    + destruct (HT ["ext"; "contra"] k' Hk) as (n & s & -> & Hn). apply NFext, Hn.
    + destruct (LK_form m k Hk) as (n & s & -> & Hn). apply NFedge, Hn.
  - destruct Hs as [(k' & -> & Hk)|[(k' & -> & Hk)|[(k' & -> & Hk)|(k' & -> & Hk)]]].
    + destruct (HTL ["ipsi"] k' Hk) as (n & s & -> & Hn). apply NFipsi, Hn.
    + destruct (HT ["noext"; "contra"] k' Hk) as (n & s & -> & Hn). apply NFnoext, Hn.
    + destruct (HT ["ext"; "contra"] k' Hk) as (n & s & -> & Hn). apply NFext, Hn.
    + destruct (HL ["contra"] k' Hk) as (n & s & -> & Hn). apply NFcontra, Hn.
Qed.

(** membership of the keys every step looks up *)
Lemma M_ipsiT m k : m_names_ok m = true -> In k (TK m) -> In ("ipsi" :: k) (m_names m).
Proof.
  intros H Hk. rewrite (m_names_eq m H), in_app_iff. left. unfold m_spread_keys.
  destruct (ml_mixing m), (ml_symL m); rewrite ?in_app_iff, ?in_map_app; left; exists k; rewrite ?in_app_iff; auto.
Qed.
Lemma M_contraT m k : m_names_ok m = true -> In k (TK m) -> In (cpre m ++ k) (m_names m).
Proof.
  intros H Hk. rewrite (m_names_eq m H), in_app_iff. left. unfold m_spread_keys, cpre.
  destruct (ml_mixing m), (ml_symL m); rewrite ?in_app_iff, ?in_map_app; right; left; exists k; rewrite ?in_app_iff; auto.
Qed.
Lemma M_extT m k : m_names_ok m = true -> ml_mixing m = None -> In k (TK m) -> In ("ext" :: "contra" :: k) (m_names m).
Proof.
  intros H E Hk. rewrite (m_names_eq m H), in_app_iff. left. unfold m_spread_keys. rewrite E.
  destruct (ml_symL m); rewrite ?in_app_iff, ?in_map_app; right; right; left; exists k; auto.
Qed.
Lemma M_mixing m q : m_names_ok m = true -> ml_mixing m = Some q -> In ["mixing"] (m_names m).
Proof.
  intros H E. rewrite (m_names_eq m H), in_app_iff. left. unfold m_spread_keys. rewrite E.
  destruct (ml_symL m); rewrite ?in_app_iff; cbn [In]; tauto.
Qed.
Lemma M_lnl m side k : m_names_ok m = true -> side = "ipsi" \/ side = "contra" -> In k (LK m) -> In (lpre m side ++ k) (m_names m).
Proof.
  intros H Hs Hk. rewrite (m_names_eq m H), in_app_iff. left. unfold m_spread_keys, lpre.
  destruct (ml_mixing m), (ml_symL m); rewrite ?in_app_iff, ?in_map_app; cbn [app].
  - right. right. right. exact Hk.
  - destruct Hs as [-> | ->]; [left | right; left]; exists k; rewrite in_app_iff; auto.
  - right. right. right. exact Hk.
  - destruct Hs as [-> | ->]; [left; exists k; rewrite in_app_iff; auto | right; right; right; exists k; auto].
Qed.
Lemma M_dist m k : m_names_ok m = true -> In k (DK m) -> In k (m_names m).
Proof. intros H Hk. rewrite (m_names_eq m H), !in_app_iff. right. left. exact Hk. Qed.
Lemma M_midext m : m_names_ok m = true -> In ["midext"; "prob"] (m_names m).
Proof. intros H. rewrite (m_names_eq m H), !in_app_iff. right. right. left. reflexivity. Qed.

(** * The full keyword assignment and what every sub-model looks up in it *)
Definition mkw (m : midline) (v : list val) : kwargs := combine (m_names m) v.
Definition LV (m : midline) (v : list val) (k : path) : val := match kw_get k (mkw m v) with Some x => x | None => Bad end.
Definition X4 : list string := ["ipsi"; "noext"; "ext"; "contra"].
Definition XB : list string := ["ext"; "noext"; "central"; "unknown"].

Lemma plan_map lk ps a (f : path -> val) : (forall k, In k (map fst ps) -> lk k = Some (f k)) -> plan lk ps a = map f (map fst ps).
Proof.
  revert a. induction ps as [|[k old] r IH]; intros a H; [reflexivity|]. cbn [plan map fst].
  rewrite (H k) by (left; reflexivity). cbn [pick]. f_equal. apply IH. intros k' Hk'. apply H. right. exact Hk'.
Qed.
Lemma not_empty_X4 : ~ In "" X4. Proof. cbn. intuition discriminate. Qed.
Lemma not_empty_sub X : incl X XB -> ~ In "" X.
Proof. intros Hi H. apply Hi in H. cbn in H. intuition discriminate. Qed.

Lemma combine_lookup_map (ks : list path) : forall (v : list val), length v = length ks -> NoDup ks ->
  v = map (fun k => match kw_get k (combine ks v) with Some x => x | None => Bad end) ks.
Proof.
  induction ks as [|k ks IH]; intros [|x v] Hl Hn; cbn [length] in Hl; try discriminate; [reflexivity|].
  inversion Hn as [|? ? Hni Hn']; subst. cbn [map combine kw_get]. rewrite path_eqb_refl. f_equal.
  rewrite (IH v) at 1 by (try lia; assumption). apply map_ext_in. intros k' Hk'.
  rewrite (path_eqb_neq k' k) by (intros ->; contradiction). reflexivity.
Qed.

Section Full.
  Variables (m : midline) (v : list val).
  Hypothesis Hok : m_names_ok m = true.
  Hypothesis Hnd : NoDup (m_names m).
  Hypothesis Hl : length v = length (m_items m).
  Notation kw := (mkw m v).
  Notation lv := (LV m v).

  Lemma kw_keys : map fst kw = m_names m.
  Proof. unfold mkw. apply combine_keys. unfold m_names. rewrite map_length. symmetry. exact Hl. Qed.
  Lemma kw_nodup : NoDup (map fst kw).
  Proof. rewrite kw_keys. exact Hnd. Qed.
  Lemma kw_in k : In k (m_names m) -> kw_last k kw = Some (lv k).
  Proof.
    intros Hk. rewrite kw_last_NoDup by apply kw_nodup. unfold LV.
    destruct (kw_get k kw) eqn:E; [reflexivity|]. apply kw_get_In_None in E. rewrite kw_keys in E. contradiction.
  Qed.
  Lemma kw_out k : ~ In k (m_names m) -> kw_last k kw = None.
  Proof. intros Hk. rewrite kw_last_NoDup by apply kw_nodup. apply kw_get_In_None. rewrite kw_keys. exact Hk. Qed.
  Lemma kw_out_nf k : ~ name_form m k -> kw_last k kw = None.
  Proof. intros H. apply kw_out. intros Hin. apply H, m_name_form; assumption. Qed.
  Lemma v_as_map : v = map lv (m_names m).
  Proof. unfold LV, mkw. apply combine_lookup_map; [unfold m_names; rewrite map_length; exact Hl | exact Hnd]. Qed.

  Lemma EN_notX4 n : ENm m n -> mem n X4 = false.
  Proof. intros H. apply mem_false. intros Hx. apply (EN_not_reserved m n Hok H). cbn in Hx. cbn. intuition. Qed.
  Lemma EN_notsides n : ENm m n -> mem n sides = false.
  Proof. intros H. apply mem_false. intros Hx. apply (EN_not_reserved m n Hok H). cbn in Hx. cbn. intuition. Qed.
  Lemma TS_notXB t : TSm m t -> forall X, incl X XB -> mem t X = false.
  Proof. intros H X Hi. apply mem_false. intros Hx. apply Hi in Hx. apply (TS_not_reserved m t Hok H). cbn in Hx. cbn. intuition. Qed.
  Lemma TS_notsides t : TSm m t -> mem t sides = false.
  Proof. intros H. apply mem_false. intros Hx. apply (TS_not_reserved m t Hok H). cbn in Hx. cbn. intuition. Qed.

  Section Spread.
    Variables (split : list (string * kwargs)) (glob : kwargs).
    Hypothesis Hu : unflatten_and_split kw X4 = (split, glob).

    Lemma okw_get side t : In side X4 -> kw_get t (obj_kwargs side split glob) = eff X4 kw side t.
    Proof. intros Hs. apply (obj_kwargs_lookup kw X4 side t split glob not_empty_X4 Hu Hs). Qed.
    Lemma okw_last side t : In side X4 -> kw_last t (obj_kwargs side split glob) = eff X4 kw side t.
    Proof. intros Hs. rewrite kw_last_NoDup by (apply (obj_kwargs_NoDup kw X4); exact Hu). apply okw_get, Hs. Qed.
    Lemma glob_get k : kw_get k glob = if mem (head_of k) X4 then None else kw_last k kw.
    Proof. pose proof (unflatten_inv kw X4 not_empty_X4) as (Hg & _). rewrite Hu in Hg. apply Hg. Qed.
    Lemma glob_nodup : NoDup (map fst glob).
    Proof. pose proof (unflatten_glob_NoDup kw X4) as H. rewrite Hu in H. exact H. Qed.

    (** a leaf addressed through "ipsi_" / "contra_" *)
    Lemma lk_side side n t : In side X4 -> In (side :: n :: t) (m_names m) ->
      u_lk (obj_kwargs side split glob) (n :: t) = Some (lv (side :: n :: t)).
    Proof.
      intros Hs Hin. unfold u_lk. rewrite (okw_last side (n :: t) Hs). unfold eff. rewrite (kw_in _ Hin). reflexivity.
    Qed.
    (** a leaf that receives the global keywords (symmetric LNL spread) *)
    Lemma lk_glob n t : ENm m n -> In (n :: t) (m_names m) -> u_lk glob (n :: t) = Some (lv (n :: t)).
    Proof.
      intros Hn Hin. unfold u_lk. rewrite kw_last_NoDup by apply glob_nodup. rewrite glob_get.
      unfold head_of. cbn [partition_key fst]. rewrite (EN_notX4 n Hn), (kw_in _ Hin). reflexivity.
    Qed.
    Lemma glob_mixing q : ml_mixing m = Some q -> kw_get ["mixing"] glob = Some (lv ["mixing"]).
    Proof. intros E. rewrite glob_get. cbn. apply kw_in. apply (M_mixing m q Hok E). Qed.
    (** the central model: Bilateral.set_tumor_spread_params( **ipsi_kwargs) splits once more *)
    Lemma lk_central n s : ENm m n -> In ["ipsi"; n; s] (m_names m) ->
      side_lk "ipsi" (obj_kwargs "ipsi" split glob) [n; s] = Some (lv ["ipsi"; n; s]).
    Proof.
      intros Hn Hin. assert (Hi : In "ipsi" X4) by (left; reflexivity).
      unfold side_lk. unfold eff at 1. rewrite (okw_last "ipsi" ["ipsi"; n; s] Hi). unfold eff at 1.
      rewrite kw_out_nf by (intros F; inversion F). change (mem (head_of ["ipsi"; n; s]) X4) with true. cbv iota.
      change (head_of [n; s]) with n. rewrite (EN_notsides n Hn).
      rewrite (okw_last "ipsi" [n; s] Hi). unfold eff. rewrite (kw_in _ Hin). reflexivity.
    Qed.
    (** without mixing: "noext_contra_" / "ext_contra_" are unflattened a second time *)
    Lemma lk_nested w n t nsplit g' : w = "noext" \/ w = "ext" -> ENm m n ->
      unflatten_and_split (sub_kwargs w split) ["contra"] = (nsplit, g') ->
      In (w :: "contra" :: n :: t) (m_names m) ->
      u_lk (obj_kwargs "contra" nsplit glob) (n :: t) = Some (lv (w :: "contra" :: n :: t)).
    Proof.
      intros Hw Hn Hu2 Hin.
      assert (HwX : mem w X4 = true) by (destruct Hw as [-> | ->]; reflexivity).
      pose proof (unflatten_inv kw X4 not_empty_X4) as (_ & Hs & Hnn). rewrite Hu in Hs, Hnn. cbn [fst] in Hs, Hnn.
      assert (Hne : ~ In "" ["contra"]) by (cbn; intuition discriminate).
      pose proof (unflatten_inv (sub_kwargs w split) ["contra"] Hne) as (_ & Hs2 & Hnn2). rewrite Hu2 in Hs2, Hnn2. cbn [fst] in Hs2, Hnn2.
      unfold u_lk, obj_kwargs.
      rewrite kw_last_NoDup by (apply kw_update_NoDup, glob_nodup).
      rewrite kw_get_update, kw_get_rev_NoDup by apply Hnn2.
      rewrite Hs2. cbn [mem str_eqb]. change (str_eqb "contra" "contra") with true. cbn [orb].
      rewrite kw_last_NoDup by apply Hnn. rewrite Hs, HwX, (kw_in _ Hin). reflexivity.
    Qed.
  End Spread.

  (** distributions: Midline splits by sub-model name, Bilateral by side, the leaf by T-stage *)
  Lemma lk_dist X split0 glob0 nm side t s : incl X XB -> unflatten_and_split kw X = (split0, glob0) -> In nm X ->
    side = "ipsi" \/ side = "contra" -> In [t; s] (DK m) ->
    side_lk side (obj_kwargs nm split0 glob0) [t; s] = Some (lv [t; s]).
  Proof.
    intros HX Hu Hnm Hside Hk. destruct (DK_form m _ Hk) as (t' & s' & [= <- <-] & Ht).
    assert (Hne : ~ In "" X) by (apply not_empty_sub, HX).
    assert (Hlast : forall key, kw_last key (obj_kwargs nm split0 glob0) = eff X kw nm key).
    { intros key. rewrite kw_last_NoDup by (apply (obj_kwargs_NoDup kw X); exact Hu). apply (obj_kwargs_lookup kw X nm key split0 glob0 Hne Hu Hnm). }
    assert (HnmB : In nm XB) by (apply HX, Hnm).
    assert (Hside_notX : mem side X = false).
    { apply mem_false. intros Hx. apply HX in Hx. cbn in Hx. destruct Hside as [-> | ->]; intuition discriminate. }
    unfold side_lk. unfold eff at 1. rewrite (Hlast (side :: [t; s])). unfold eff at 1.
    rewrite kw_out_nf.
    2:{ intros F. cbn in HnmB. inversion F; subst; try (destruct Hside as [-> | ->]; discriminate);
        try (apply (EN_TS m t Hok); assumption); intuition discriminate. }
    unfold head_of at 1. cbn [partition_key fst]. rewrite Hside_notX.
    rewrite kw_out_nf.
    2:{ intros F. inversion F; subst; try (apply (EN_TS m t Hok); assumption);
        try (apply (EN_not_reserved m side Hok); [assumption | destruct Hside as [-> | ->]; cbn; tauto]);
        try (apply (TS_not_reserved m side Hok); [assumption | destruct Hside as [-> | ->]; cbn; tauto]). }
    unfold head_of at 1. cbn [partition_key fst]. rewrite (TS_notsides t Ht).
    rewrite (Hlast [t; s]). unfold eff.
    rewrite kw_out_nf.
    2:{ intros F. cbn in HnmB. inversion F; subst;
        try (apply (EN_not_reserved m nm Hok); [assumption | cbn; intuition]);
        try (apply (TS_not_reserved m nm Hok); [assumption | cbn; intuition]); intuition discriminate. }
    unfold head_of. cbn [partition_key fst]. rewrite (TS_notXB t Ht X HX).
    rewrite (kw_in [t; s]) by (apply M_dist; assumption). reflexivity.
  Qed.
End Full.

(** * States of the same configuration as m *)
Lemma like_ei_sk m u u0 : like_ei m u0 -> sk_uni u = sk_uni u0 -> like_ei m u.
Proof.
  intros (Hn & HT & HL & HD) Hsk. split; [rewrite (u_names_ok_sk u u0 Hsk); exact Hn|].
  split; [rewrite <- HT; apply (sk_sel_keys is_tumor_spread u u0 kind_sel_tumor Hsk)|].
  split; [rewrite <- HL; apply (sk_sel_keys sel_lnl u u0 kind_sel_lnl Hsk) | rewrite <- HD; apply (u_dist_keys_sk u u0 Hsk)].
Qed.
Definition bi_facts (m : midline) (b b0 : bilateral) : Prop :=
  b_names_ok b = true /\ like_ei m (b_ipsi b) /\ like_ei m (b_contra b) /\ b_symL b = ml_symL m /\ b_symT b = b_symT b0.
Lemma bi_facts_sk m b b0 : m_names_ok m = true -> In b0 (m_bis m) -> sk_bi b = sk_bi b0 -> bi_facts m b b0.
Proof.
  intros H Hin Hsk. destruct (m_ok_bi m b0 H Hin) as (Hb & Hi & Hc & HL). destruct (sk_bi_inv b b0 Hsk) as (Ski & Skc & HsT & HsL).
  split; [apply (b_names_ok_sk b0 b (eq_sym Hsk) Hb)|].
  split; [apply (like_ei_sk m _ _ Hi Ski)|]. split; [apply (like_ei_sk m _ _ Hc Skc)|]. split; [rewrite HsL; exact HL | exact HsT].
Qed.
Lemma sk_uni_of_dists u1 u2 : sk_uni_dists u1 = sk_uni_dists u2 -> sk_uni u1 = sk_uni u2.
Proof.
  intros H. set (F := fun x : uni => u_with_graph x (with_edges (u_graph x) (map (sk_edge (u_tri x)) (u_edges x)))).
  change (sk_uni u1) with (F (sk_uni_dists u1)). change (sk_uni u2) with (F (sk_uni_dists u2)). rewrite H. reflexivity.
Qed.
Lemma sk_bi_of_dists b1 b2 : sk_bi_dists b1 = sk_bi_dists b2 -> sk_bi b1 = sk_bi b2.
Proof.
  intros H. unfold sk_bi.
  rewrite (sk_uni_of_dists (b_ipsi b1) (b_ipsi b2)) by (apply (f_equal b_ipsi) in H; exact H).
  rewrite (sk_uni_of_dists (b_contra b1) (b_contra b2)) by (apply (f_equal b_contra) in H; exact H).
  unfold b_with. apply (f_equal b_symT) in H as HT. apply (f_equal b_symL) in H as HL. cbn in HT, HL. rewrite HT, HL. reflexivity.
Qed.

Section Inv.
  Variable m : midline.
  Hypothesis Hok : m_names_ok m = true.
  Definition St (mk : midline) : Prop := sk_mid mk = sk_mid m.

  Lemma St_ext mk : St mk -> bi_facts m (ml_ext mk) (ml_ext m).
  Proof. intros H. apply bi_facts_sk; [exact Hok | apply m_ok_ext, Hok | apply sk_mid_ext, H]. Qed.
  Lemma St_noext mk : St mk -> bi_facts m (ml_noext mk) (ml_noext m).
  Proof. intros H. apply bi_facts_sk; [exact Hok | apply m_ok_noext, Hok | apply sk_mid_noext, H]. Qed.
  Lemma St_central mk c : St mk -> ml_central mk = Some c -> exists c0, ml_central m = Some c0 /\ bi_facts m c c0.
  Proof.
    intros H E. apply (f_equal ml_central) in H. cbn in H. rewrite E in H. destruct (ml_central m) as [c0|] eqn:E0; [|discriminate].
    cbn in H. exists c0. split; [reflexivity|]. apply bi_facts_sk; [exact Hok | apply m_ok_central, E0 | congruence].
  Qed.
  Lemma St_unknown mk k : St mk -> ml_unknown mk = Some k -> exists k0, ml_unknown m = Some k0 /\ bi_facts m k k0.
  Proof.
    intros H E. apply (f_equal ml_unknown) in H. cbn in H. rewrite E in H. destruct (ml_unknown m) as [k0|] eqn:E0; [|discriminate].
    cbn in H. exists k0. split; [reflexivity|]. apply bi_facts_sk; [exact Hok | apply m_ok_unknown, E0 | apply sk_bi_of_dists; congruence].
  Qed.
  Lemma St_central_none mk : St mk -> ml_central mk = None -> ml_central m = None.
  Proof. intros H E. apply (f_equal ml_central) in H. cbn in H. rewrite E in H. destruct (ml_central m); [discriminate | reflexivity]. Qed.
  Lemma St_unknown_none mk : St mk -> ml_unknown mk = None -> ml_unknown m = None.
  Proof. intros H E. apply (f_equal ml_unknown) in H. cbn in H. rewrite E in H. destruct (ml_unknown m); [discriminate | reflexivity]. Qed.
  Lemma St_symL mk : St mk -> ml_symL mk = ml_symL m.
  Proof. intros H. apply (f_equal ml_symL) in H. exact H. Qed.
  Lemma St_mixing mk : St mk -> (exists q, ml_mixing mk = Some q) <-> (exists q, ml_mixing m = Some q).
  Proof.
    intros H. apply (f_equal ml_mixing) in H. cbn in H. destruct (ml_mixing mk), (ml_mixing m); cbn in H; try discriminate; split; intros [x Hx]; eauto; discriminate.
  Qed.
  Lemma St_refl : St m. Proof. reflexivity. Qed.
End Inv.

(** * One group of arcs of one leaf, keywords only *)
Lemma skipn_nil' {A} n : skipn n (@nil A) = [].
Proof. destruct n; reflexivity. Qed.
Lemma leaf_set_kw sel u kwL (K : list path) (f : path -> val) : u_names_ok u = true ->
  map fst (u_sel_items sel u) = K -> (forall k, In k K -> u_lk kwL k = Some (f k)) ->
  match all_unit (map f K) with
  | Some qs => lift_graph u (graph_set_params_sel sel (u_graph u) [] kwL) = (u_put_sel sel u qs, Some [])
  | None => snd (lift_graph u (graph_set_params_sel sel (u_graph u) [] kwL)) = None
  end.
Proof.
  intros Hn HK Hlk. assert (Hp : plan (u_lk kwL) (u_sel_items sel u) [] = map f K).
  { rewrite <- HK. apply plan_map. intros k Hk. apply Hlk. rewrite <- HK. exact Hk. }
  destruct (all_unit (map f K)) as [qs|] eqn:E.
  - rewrite (leaf_step_ok sel u [] kwL qs Hn) by (rewrite Hp; exact E). rewrite skipn_nil'. reflexivity.
  - apply (leaf_step_fail sel u [] kwL Hn). rewrite Hp. exact E.
Qed.

(** the mixture mix * ipsi + (1 - mix) * noext.contra stays in [0,1] *)
Lemma in_unit_iff q : in_unit q = true <-> (0 <= q /\ q <= 1)%Qc.
Proof. unfold in_unit. rewrite andb_true_iff, !Qc_leb_spec. tauto. Qed.
Lemma in_unit_mix mix a b : in_unit mix = true -> in_unit a = true -> in_unit b = true ->
  in_unit (mix * a + (1 - mix) * b)%Qc = true.
Proof.
  rewrite !in_unit_iff. intros [M0 M1] [A0 A1] [B0 B1]. revert M0 M1 A0 A1 B0 B1. qc2q.
  generalize (this mix) (this a) (this b). intros x y z; intros. split; nra.
Qed.
Definition mixed (mix : Qc) (qi qc : list Qc) : list Qc := map (fun p => (mix * fst p + (1 - mix) * snd p)%Qc) (combine qi qc).
Lemma mixed_unit mix : in_unit mix = true -> forall qi qc, forallb in_unit qi = true -> forallb in_unit qc = true ->
  forallb in_unit (mixed mix qi qc) = true.
Proof.
  intros Hm. induction qi as [|a qi IH]; intros [|b qc] Hi Hc; try reflexivity. cbn [forallb] in Hi, Hc.
  apply andb_true_iff in Hi. destruct Hi as [Ha Hi]. apply andb_true_iff in Hc. destruct Hc as [Hb Hc].
  unfold mixed. cbn [combine map forallb fst snd]. rewrite (in_unit_mix mix a b Hm Ha Hb). apply IH; assumption.
Qed.
Lemma mixed_length mix qi qc : length qi = length qc -> length (mixed mix qi qc) = length qi.
Proof. intros H. unfold mixed. rewrite map_length, combine_length. lia. Qed.

(** * The steps of Midline.set_params on a full keyword assignment *)
Notation T := is_tumor_spread (only parsing).
Notation L := sel_lnl (only parsing).

Lemma mixed_kwargs_combine mix (K : list path) : forall qi qc, length qi = length K -> length qc = length K ->
  map (fun p : (path * Qc) * Qc => (fst (fst p), V (mix * snd (fst p) + (1 - mix) * snd p)%Qc)) (combine (combine K qi) qc)
  = combine K (vals (mixed mix qi qc)).
Proof.
  induction K as [|k K IH]; intros [|a qi] [|b qc] Hi Hc; cbn [length] in *; try discriminate; [reflexivity|].
  unfold mixed. cbn [combine map vals fst snd]. f_equal. apply IH; lia.
Qed.
Lemma items_tumor u : u_names_ok u = true -> items (u_get_tumor_spread_params u true) = u_tumor_items u.
Proof. intros H. rewrite (u_tumor_flat u H). apply items_leaves. Qed.
Lemma u_lk_combine_keys (K : list path) (vs : list val) k x : NoDup K -> length vs = length K -> k <> [] ->
  In (k, x) (combine K vs) -> u_lk (combine K vs) k = Some x.
Proof.
  intros Hnd Hl Hne Hin. destruct k as [|n t]; [congruence|]. unfold u_lk.
  assert (Hnd' : NoDup (map fst (combine K vs))) by (rewrite combine_keys by (symmetry; exact Hl); exact Hnd).
  rewrite kw_last_NoDup by exact Hnd'. rewrite (kw_get_NoDup_In _ x _ Hnd' Hin). reflexivity.
Qed.

Lemma step_mixed K u_i u_c u_e mix qTi qTc :
  u_names_ok u_i = true -> u_names_ok u_c = true -> u_names_ok u_e = true ->
  map fst (u_tumor_items u_i) = K -> map fst (u_tumor_items u_c) = K -> map fst (u_tumor_items u_e) = K ->
  length qTi = length K -> length qTc = length K ->
  in_unit mix = true -> forallb in_unit qTi = true -> forallb in_unit qTc = true ->
  lift_graph u_e (graph_set_params_sel T (u_graph u_e) []
    (map (fun p : (path * Qc) * Qc => (fst (fst p), V (mix * snd (fst p) + (1 - mix) * snd p)%Qc))
       (combine (items (u_get_tumor_spread_params (u_put_sel T u_i qTi) true))
                (map snd (items (u_get_tumor_spread_params (u_put_sel T u_c qTc) true))))))
  = (u_put_sel T u_e (mixed mix qTi qTc), Some []).
Proof.
  intros Hi Hc He Ki Kc Ke Li Lc Hm Ui Uc.
  assert (HKnd : NoDup K) by (rewrite <- Ki; apply u_tumor_keys_NoDup, Hi).
  rewrite !items_tumor by (rewrite u_put_sel_names_ok; assumption).
  change (u_tumor_items (u_put_sel T u_i qTi)) with (u_sel_items T (u_put_sel T u_i qTi)).
  change (u_tumor_items (u_put_sel T u_c qTc)) with (u_sel_items T (u_put_sel T u_c qTc)).
  rewrite !u_sel_items_put; try apply kind_sel_tumor;
    try (change (u_sel_items T u_i) with (u_tumor_items u_i); rewrite <- (map_length fst), Ki; exact Li);
    try (change (u_sel_items T u_c) with (u_tumor_items u_c); rewrite <- (map_length fst), Kc; exact Lc).
  change (u_sel_items T u_i) with (u_tumor_items u_i). change (u_sel_items T u_c) with (u_tumor_items u_c). rewrite Ki, Kc.
  rewrite (map_snd_combine K qTc) by (symmetry; exact Lc).
  rewrite (mixed_kwargs_combine mix K qTi qTc Li Lc).
  set (qs := mixed mix qTi qTc). assert (Hlq : length qs = length K) by (unfold qs; rewrite mixed_length; lia).
  rewrite (leaf_step_ok T u_e [] (combine K (vals qs)) qs He); [rewrite skipn_nil'; reflexivity|].
  replace (plan (u_lk (combine K (vals qs))) (u_sel_items T u_e) []) with (vals qs).
  - apply all_unit_vals. apply mixed_unit; assumption.
  - symmetry. apply plan_all_kw; [rewrite vals_length; change (u_sel_items T u_e) with (u_tumor_items u_e); rewrite <- (map_length fst), Ke; exact Hlq|].
    change (u_sel_items T u_e) with (u_tumor_items u_e). rewrite Ke. intros k x Hin.
    apply u_lk_combine_keys; [exact HKnd | rewrite vals_length; exact Hlq | | exact Hin].
    apply in_combine_l in Hin. rewrite <- Ke in Hin. destruct (spread_key_form u_e k (or_introl Hin)) as (n & s & -> & _). discriminate.
Qed.

Section Steps.
  Variables (m : midline) (v : list val).
  Hypothesis Hok : m_names_ok m = true.
  Hypothesis Hnd : NoDup (m_names m).
  Hypothesis Hl : length v = length (m_items m).
  Notation kw := (mkw m v).
  Notation lv := (LV m v).

  Definition vTi : list val := map (fun k => lv ("ipsi" :: k)) (TK m).
  Definition vTc : list val := map (fun k => lv (cpre m ++ k)) (TK m).
  Definition vTe : list val := map (fun k => lv ("ext" :: "contra" :: k)) (TK m).

  Definition with_central_T (mk : midline) (qTi : list Qc) : midline :=
    match ml_central mk with
    | Some c => ml_with_central mk (b_with c (u_put_sel T (b_ipsi c) qTi) (u_put_sel T (b_contra c) qTi))
    | None => mk
    end.
  Definition tumor_fin (mk : midline) (qTi qTc qTe : list Qc) (mixo : option Qc) : midline :=
    let m1 := with_central_T mk qTi in
    let m2 := ml_with_ext m1 (b_with_ipsi (ml_ext m1) (u_put_sel T (b_ipsi (ml_ext m1)) qTi)) in
    let m3 := ml_with_noext m2 (b_with_ipsi (ml_noext m2) (u_put_sel T (b_ipsi (ml_noext m2)) qTi)) in
    let m4 := ml_with_noext m3 (b_with_contra (ml_noext m3) (u_put_sel T (b_contra (ml_noext m3)) qTc)) in
    match mixo with
    | Some mix => let m5 := ml_with_mixing m4 mix in
                  ml_with_ext m5 (b_with_contra (ml_ext m5) (u_put_sel T (b_contra (ml_ext m5)) (mixed mix qTi qTc)))
    | None => ml_with_ext m4 (b_with_contra (ml_ext m4) (u_put_sel T (b_contra (ml_ext m4)) qTe))
    end.
  Definition tumor_vals : option (list Qc * list Qc * list Qc * option Qc) :=
    match all_unit vTi, all_unit vTc with
    | Some qTi, Some qTc =>
        match ml_mixing m with
        | Some _ => match check_unit (lv ["mixing"]) with Some mix => Some (qTi, qTc, [], Some mix) | None => None end
        | None => match all_unit vTe with Some qTe => Some (qTi, qTc, qTe, None) | None => None end
        end
    | _, _ => None
    end.

  (** keys of a leaf like ext.ipsi *)
  Lemma like_T u : like_ei m u -> map fst (u_sel_items T u) = TK m.
  Proof. intros (_ & H & _). exact H. Qed.
  Lemma like_L u : like_ei m u -> map fst (u_sel_items L u) = LK m.
  Proof. intros (_ & _ & H & _). exact H. Qed.
  Lemma like_ok u : like_ei m u -> u_names_ok u = true.
  Proof. intros (H & _). exact H. Qed.

  Lemma step_central mk split glob : St m mk -> unflatten_and_split kw X4 = (split, glob) ->
    match all_unit vTi with
    | Some qTi =>
        (match ml_central mk with
         | None => (mk, true)
         | Some c => let '(c', ok) := ok_of (b_set_tumor_spread_params c [] (obj_kwargs "ipsi" split glob)) in (ml_with_central mk c', ok)
         end) = (with_central_T mk qTi, true)
    | None => forall c, ml_central mk = Some c -> snd (b_set_tumor_spread_params c [] (obj_kwargs "ipsi" split glob)) = None
    end.
  Proof.
    intros HS Hu.
    assert (Hplan : forall c c0, bi_facts m c c0 ->
              plan (side_lk "ipsi" (obj_kwargs "ipsi" split glob)) (u_sel_items T (b_ipsi c)) [] = vTi).
    { intros c c0 (_ & Hci & _). rewrite (plan_map _ _ _ (fun k => lv ("ipsi" :: k))); [rewrite (like_T _ Hci); reflexivity|].
      rewrite (like_T _ Hci). intros k Hk. destruct (TK_form m k Hk) as (n & s & -> & Hn).
      apply (lk_central m v Hok Hnd Hl split glob Hu n s Hn). apply (M_ipsiT m [n; s] Hok Hk). }
    destruct (all_unit vTi) as [qTi|] eqn:ETi.
    - unfold with_central_T. destruct (ml_central mk) as [c|] eqn:Ec; [|reflexivity].
      destruct (St_central m Hok mk c HS Ec) as (c0 & E0 & Hf). pose proof Hf as (Hbc & Hci & Hcc & _ & HcT).
      destruct (m_ok_flags m Hok) as (_ & _ & Hcen). rewrite (Hcen c0 E0) in HcT.
      unfold b_set_tumor_spread_params. rewrite HcT.
      pose proof (b_side_spec T true c [] (obj_kwargs "ipsi" split glob) kind_sel_tumor Hbc) as Hs.
      unfold side_plan, side_result, side_len in Hs. rewrite (Hplan c c0 Hf), app_nil_r, ETi in Hs. rewrite Hs. unfold ok_of. cbn [fst snd].
      assert (Hlen : length qTi = length (u_sel_items T (b_ipsi c))).
      { apply all_unit_length in ETi. unfold vTi in ETi. rewrite map_length in ETi. rewrite <- (map_length fst (u_sel_items T (b_ipsi c))), (like_T _ Hci). exact ETi. }
      rewrite <- Hlen, firstn_all. reflexivity.
    - intros c Ec. destruct (St_central m Hok mk c HS Ec) as (c0 & E0 & Hf). pose proof Hf as (Hbc & Hci & Hcc & _ & HcT).
      destruct (m_ok_flags m Hok) as (_ & _ & Hcen). rewrite (Hcen c0 E0) in HcT.
      unfold b_set_tumor_spread_params. rewrite HcT.
      pose proof (b_side_spec T true c [] (obj_kwargs "ipsi" split glob) kind_sel_tumor Hbc) as Hs.
      unfold side_plan in Hs. rewrite (Hplan c c0 Hf), app_nil_r, ETi in Hs. exact Hs.
  Qed.

  Lemma with_central_T_ext mk q : ml_ext (with_central_T mk q) = ml_ext mk /\ ml_noext (with_central_T mk q) = ml_noext mk
    /\ ml_mixing (with_central_T mk q) = ml_mixing mk.
  Proof. unfold with_central_T. destruct (ml_central mk); repeat split; reflexivity. Qed.

  Lemma step_tumor mk : St m mk ->
    match tumor_vals with
    | Some (qTi, qTc, qTe, mixo) => m_set_tumor_spread_params mk [] kw = (tumor_fin mk qTi qTc qTe mixo, Some [])
    | None => snd (m_set_tumor_spread_params mk [] kw) = None
    end.
  Proof.
    intros HS. unfold m_set_tumor_spread_params, u_set_tumor_spread_params, ok_of. destruct (unflatten_and_split kw ["ipsi"; "noext"; "ext"; "contra"]) as [split glob] eqn:Hu.
    change ["ipsi"; "noext"; "ext"; "contra"] with X4 in Hu.
    set (ikw := obj_kwargs "ipsi" split glob).
    pose proof (St_ext m Hok mk HS) as (Hbe & Hei & Hec & _ & _). pose proof (St_noext m Hok mk HS) as (Hbn & Hni & Hnc & _ & _).
    assert (HlkI : forall k, In k (TK m) -> u_lk ikw k = Some (lv ("ipsi" :: k))).
    { intros k Hk. destruct (TK_form m k Hk) as (n & s & -> & Hn).
      apply (lk_side m v Hnd Hl split glob Hu "ipsi" n [s]); [left; reflexivity | apply (M_ipsiT m [n; s] Hok Hk)]. }
    pose proof (step_central mk split glob HS Hu) as Hcen. fold ikw in Hcen. unfold ok_of in Hcen.
    unfold tumor_vals. destruct (all_unit vTi) as [qTi|] eqn:ETi.
    2:{ (* the ipsilateral tumor values are rejected: by the central model if there is one, else by ext.ipsi *)
      destruct (ml_central mk) as [c|] eqn:Ec.
      - specialize (Hcen c eq_refl). destruct (b_set_tumor_spread_params c [] ikw) as [c' o]. cbn [snd] in Hcen. subst o. reflexivity.
      - cbn [negb]. pose proof (leaf_set_kw T (b_ipsi (ml_ext mk)) ikw (TK m) (fun k => lv ("ipsi" :: k)) (like_ok _ Hei) (like_T _ Hei) HlkI) as H2.
        change (map (fun k : path => lv ("ipsi" :: k)) (TK m)) with vTi in H2. rewrite ETi in H2.
        destruct (lift_graph (b_ipsi (ml_ext mk)) _) as [e' o]. cbn [snd] in H2. subst o. reflexivity. }
    rewrite Hcen. cbn [negb]. set (m1 := with_central_T mk qTi).
    destruct (with_central_T_ext mk qTi) as (Hx1 & Hn1 & Hmix1). fold m1 in Hx1, Hn1, Hmix1.
    assert (HlqTi : length qTi = length (TK m)) by (apply all_unit_length in ETi; unfold vTi in ETi; rewrite map_length in ETi; exact ETi).
    (* ext.ipsi *)
    pose proof (leaf_set_kw T (b_ipsi (ml_ext m1)) ikw (TK m) (fun k => lv ("ipsi" :: k))) as H2.
    change (map (fun k : path => lv ("ipsi" :: k)) (TK m)) with vTi in H2. rewrite ETi in H2. 
    rewrite H2; [| rewrite Hx1; apply (like_ok _ Hei) | rewrite Hx1; apply (like_T _ Hei) | exact HlkI]. cbn [fst snd negb].
    set (m2 := ml_with_ext m1 (b_with_ipsi (ml_ext m1) (u_put_sel T (b_ipsi (ml_ext m1)) qTi))).
    (* noext.ipsi *)
    pose proof (leaf_set_kw T (b_ipsi (ml_noext m2)) ikw (TK m) (fun k => lv ("ipsi" :: k))) as H3.
    change (map (fun k : path => lv ("ipsi" :: k)) (TK m)) with vTi in H3. rewrite ETi in H3. 
    rewrite H3; [| change (ml_noext m2) with (ml_noext m1); rewrite Hn1; apply (like_ok _ Hni)
                 | change (ml_noext m2) with (ml_noext m1); rewrite Hn1; apply (like_T _ Hni) | exact HlkI].
    set (m3 := ml_with_noext m2 (b_with_ipsi (ml_noext m2) (u_put_sel T (b_ipsi (ml_noext m2)) qTi))).
    assert (Hnc3 : b_contra (ml_noext m3) = b_contra (ml_noext mk)) by (change (b_contra (ml_noext m3)) with (b_contra (ml_noext m1)); rewrite Hn1; reflexivity).
    assert (Hec3 : b_contra (ml_ext m3) = b_contra (ml_ext mk)) by (change (b_contra (ml_ext m3)) with (b_contra (ml_ext m1)); rewrite Hx1; reflexivity).
    assert (Hmix3 : ml_mixing m3 = ml_mixing mk) by (change (ml_mixing m3) with (ml_mixing m1); exact Hmix1).
    pose proof (St_mixing m mk HS) as Hmixiff.
    destruct (ml_mixing m3) as [cur|] eqn:Emix3.
    - (* use_mixing *)
      destruct (proj1 Hmixiff (ex_intro _ cur (eq_trans (eq_sym Hmix3) eq_refl))) as [q0 Eq0].
      rewrite Eq0. unfold vTc, cpre. rewrite Eq0.
      set (ckw := obj_kwargs "contra" split glob).
      assert (HlkC : forall k, In k (TK m) -> u_lk ckw k = Some (lv (["contra"] ++ k))).
      { intros k Hk. destruct (TK_form m k Hk) as (n & s & -> & Hn).
        apply (lk_side m v Hnd Hl split glob Hu "contra" n [s]); [right; right; right; left; reflexivity|].
        pose proof (M_contraT m [n; s] Hok Hk) as HM. unfold cpre in HM. rewrite Eq0 in HM. exact HM. }
      pose proof (leaf_set_kw T (b_contra (ml_noext m3)) ckw (TK m) (fun k => lv (["contra"] ++ k))) as H4.
      specialize (H4 ltac:(rewrite Hnc3; apply (like_ok _ Hnc)) ltac:(rewrite Hnc3; apply (like_T _ Hnc)) HlkC).
      
      change (all_unit (map (fun k : list string => lv (["contra"] ++ k)) (TK m))) with (all_unit (map (fun k : path => lv (["contra"] ++ k)) (TK m))).
      destruct (all_unit (map (fun k : path => lv (["contra"] ++ k)) (TK m))) as [qTc|] eqn:ETc.
      2:{ destruct (lift_graph (b_contra (ml_noext m3)) _) as [nc' o]. cbn [snd] in H4. subst o. reflexivity. }
      rewrite H4.
      set (m4 := ml_with_noext m3 (b_with_contra (ml_noext m3) (u_put_sel T (b_contra (ml_noext m3)) qTc))).
      cbn [popfirst]. rewrite (glob_mixing m v Hok Hnd Hl split glob Hu q0 Eq0).
      destruct (check_unit (lv ["mixing"])) as [mix|] eqn:Emix; [|reflexivity].
      set (m5 := ml_with_mixing m4 mix).
      assert (HlqTc : length qTc = length (TK m)) by (apply all_unit_length in ETc; rewrite map_length in ETc; exact ETc).
      destruct (all_unit_Some_vals _ _ ETi) as [_ UTi]. destruct (all_unit_Some_vals _ _ ETc) as [_ UTc].
      destruct (check_unit_Some _ _ Emix) as [_ Umix].
      change (mixed_kwargs mix m5) with
        (map (fun p : (path * Qc) * Qc => (fst (fst p), V (mix * snd (fst p) + (1 - mix) * snd p)%Qc))
           (combine (items (u_get_tumor_spread_params (u_put_sel T (b_ipsi (ml_ext m1)) qTi) true))
                    (map snd (items (u_get_tumor_spread_params (u_put_sel T (b_contra (ml_noext m3)) qTc) true))))).
      rewrite (step_mixed (TK m) (b_ipsi (ml_ext m1)) (b_contra (ml_noext m3)) (b_contra (ml_ext m5)) mix qTi qTc);
        try assumption.
      + cbn [fst snd]. reflexivity.
      + rewrite Hx1. apply (like_ok _ Hei).
      + rewrite Hnc3. apply (like_ok _ Hnc).
      + change (b_contra (ml_ext m5)) with (b_contra (ml_ext m3)). rewrite Hec3. apply (like_ok _ Hec).
      + rewrite Hx1. apply (like_T _ Hei).
      + rewrite Hnc3. apply (like_T _ Hnc).
      + change (b_contra (ml_ext m5)) with (b_contra (ml_ext m3)). rewrite Hec3. apply (like_T _ Hec).
    - (* no mixing *)
      assert (Eq0 : ml_mixing m = None).
      { destruct (ml_mixing m) as [q0|] eqn:E; [|reflexivity]. destruct (proj2 Hmixiff (ex_intro _ q0 eq_refl)) as [x Hx]. congruence. }
      rewrite Eq0. unfold vTc, cpre. rewrite Eq0.
      destruct (unflatten_and_split (sub_kwargs "noext" split) ["contra"]) as [nsplit g1] eqn:Hu1.
      set (nkw := obj_kwargs "contra" nsplit glob).
      assert (HlkN : forall k, In k (TK m) -> u_lk nkw k = Some (lv (["noext"; "contra"] ++ k))).
      { intros k Hk. destruct (TK_form m k Hk) as (n & s & -> & Hn).
        apply (lk_nested m v Hnd Hl split glob Hu "noext" n [s] nsplit g1); [left; reflexivity | exact Hn | exact Hu1|].
        pose proof (M_contraT m [n; s] Hok Hk) as HM. unfold cpre in HM. rewrite Eq0 in HM. exact HM. }
      pose proof (leaf_set_kw T (b_contra (ml_noext m3)) nkw (TK m) (fun k => lv (["noext"; "contra"] ++ k))) as H4.
      specialize (H4 ltac:(rewrite Hnc3; apply (like_ok _ Hnc)) ltac:(rewrite Hnc3; apply (like_T _ Hnc)) HlkN).
      
      change (all_unit (map (fun k : list string => lv (["noext"; "contra"] ++ k)) (TK m))) with (all_unit (map (fun k : path => lv (["noext"; "contra"] ++ k)) (TK m))).
      destruct (all_unit (map (fun k : path => lv (["noext"; "contra"] ++ k)) (TK m))) as [qTc|] eqn:ETc.
      2:{ destruct (lift_graph (b_contra (ml_noext m3)) _) as [nc' o]. cbn [snd] in H4. subst o. reflexivity. }
      rewrite H4.
      set (m4 := ml_with_noext m3 (b_with_contra (ml_noext m3) (u_put_sel T (b_contra (ml_noext m3)) qTc))).
      destruct (unflatten_and_split (sub_kwargs "ext" split) ["contra"]) as [esplit g2] eqn:Hu2.
      set (ekw := obj_kwargs "contra" esplit glob).
      assert (HlkE : forall k, In k (TK m) -> u_lk ekw k = Some (lv ("ext" :: "contra" :: k))).
      { intros k Hk. destruct (TK_form m k Hk) as (n & s & -> & Hn).
        apply (lk_nested m v Hnd Hl split glob Hu "ext" n [s] esplit g2); [right; reflexivity | exact Hn | exact Hu2|].
        apply (M_extT m [n; s] Hok Eq0 Hk). }
      pose proof (leaf_set_kw T (b_contra (ml_ext m4)) ekw (TK m) (fun k => lv ("ext" :: "contra" :: k))) as H5.
      assert (Hec4 : b_contra (ml_ext m4) = b_contra (ml_ext mk)) by (change (b_contra (ml_ext m4)) with (b_contra (ml_ext m3)); exact Hec3).
      specialize (H5 ltac:(rewrite Hec4; apply (like_ok _ Hec)) ltac:(rewrite Hec4; apply (like_T _ Hec)) HlkE).
      change (map (fun k : path => lv ("ext" :: "contra" :: k)) (TK m)) with vTe in H5. 
      destruct (all_unit vTe) as [qTe|] eqn:ETe.
      + rewrite H5. reflexivity.
      + destruct (lift_graph (b_contra (ml_ext m4)) _) as [ec' o]. cbn [snd] in *. subst o. reflexivity.
  Qed.

  (** ** LNL spread *)
  Definition vLi : list val := map (fun k : path => lv (lpre m "ipsi" ++ k)) (LK m).
  Definition vLc : list val := map (fun k : path => lv (lpre m "contra" ++ k)) (LK m).
  Definition put_leaf (qL : list Qc) (mk : midline) (l : leaf_id) : midline :=
    match ml_leaf mk l with Some u => ml_with_leaf mk l (u_put_sel L u qL) | None => mk end.

  Lemma St_leaf mk l u : St m mk -> ml_leaf mk l = Some u -> like_ei m u.
  Proof.
    intros HS. pose proof (St_ext m Hok mk HS) as (_ & Hei & Hec & _). pose proof (St_noext m Hok mk HS) as (_ & Hni & Hnc & _).
    destruct l; cbn [ml_leaf].
    - destruct (ml_central mk) as [c|] eqn:Ec; cbn [option_map]; [|discriminate]. intros [= <-].
      destruct (St_central m Hok mk c HS Ec) as (c0 & _ & (_ & H & _)). exact H.
    - destruct (ml_central mk) as [c|] eqn:Ec; cbn [option_map]; [|discriminate]. intros [= <-].
      destruct (St_central m Hok mk c HS Ec) as (c0 & _ & (_ & _ & H & _)). exact H.
    - intros [= <-]. exact Hei.
    - intros [= <-]. exact Hec.
    - intros [= <-]. exact Hni.
    - intros [= <-]. exact Hnc.
  Qed.

  Lemma block_kw kwL (f : path -> val) : (forall k, In k (LK m) -> u_lk kwL k = Some (f k)) ->
    forall ls mk, St m mk ->
    match all_unit (map f (LK m)) with
    | Some qL => m_set_lnl_block mk ls [] kwL = (fold_left (put_leaf qL) ls mk, Some [])
    | None => (exists l, In l ls /\ ml_leaf mk l <> None) -> snd (m_set_lnl_block mk ls [] kwL) = None
    end.
  Proof.
    intros Hlk. destruct (all_unit (map f (LK m))) as [qL|] eqn:EL.
    - induction ls as [|l r IH]; intros mk HS; [reflexivity|]. cbn [m_set_lnl_block fold_left]. unfold put_leaf at 2.
      destruct (ml_leaf mk l) as [u|] eqn:El; [|apply IH, HS].
      pose proof (St_leaf mk l u HS El) as Hu.
      pose proof (leaf_set_kw L u kwL (LK m) f (like_ok _ Hu) (like_L _ Hu) Hlk) as H1. rewrite EL in H1.
      unfold u_set_lnl_spread_params. rewrite H1.
      assert (HS' : St m (ml_with_leaf mk l (u_put_sel L u qL))).
      { unfold St. rewrite (sk_mid_with_leaf mk l (u_put_sel L u qL) u El); [exact HS|].
        pose proof (sk_uni_graph_set L u [] kwL) as Hsk. rewrite H1 in Hsk. exact Hsk. }
      destruct r as [|l2 r2]; [reflexivity|]. apply IH, HS'.
    - induction ls as [|l r IH]; intros mk HS (l0 & Hin & Hex); [destruct Hin|]. cbn [m_set_lnl_block].
      destruct (ml_leaf mk l) as [u|] eqn:El.
      + pose proof (St_leaf mk l u HS El) as Hu.
        pose proof (leaf_set_kw L u kwL (LK m) f (like_ok _ Hu) (like_L _ Hu) Hlk) as H1. rewrite EL in H1.
        unfold u_set_lnl_spread_params. destruct (lift_graph u _) as [u' o]. cbn [snd] in H1. subst o. reflexivity.
      + apply IH; [exact HS|]. destruct Hin as [<-|Hin]; [contradiction|]. exists l0. split; assumption.
  Qed.

  Definition lnl_vals : option (list Qc * list Qc) :=
    match all_unit vLi, all_unit vLc with Some qLi, Some qLc => Some (qLi, qLc) | _, _ => None end.
  Definition lnl_fin (mk : midline) (qLi qLc : list Qc) : midline :=
    if ml_symL m then fold_left (put_leaf qLi) [LCentralIpsi; LCentralContra; LExtIpsi; LExtContra; LNoextIpsi; LNoextContra] mk
    else fold_left (put_leaf qLc) [LCentralContra; LExtContra; LNoextContra]
           (fold_left (put_leaf qLi) [LCentralIpsi; LExtIpsi; LNoextIpsi] mk).

  Lemma fold_put_leaf_St qL ls : forall mk, St m mk -> St m (fold_left (put_leaf qL) ls mk).
  Proof.
    induction ls as [|l r IH]; intros mk HS; [exact HS|]. cbn [fold_left]. apply IH. unfold put_leaf.
    destruct (ml_leaf mk l) as [u|] eqn:El; [|exact HS]. unfold St.
    rewrite (sk_mid_with_leaf mk l (u_put_sel L u qL) u El); [exact HS|].
    pose proof (St_leaf mk l u HS El) as Hu.
    (* u_put_sel is what the setter returns on some keyword assignment, e.g. on its own values; simpler: by shape *)
    apply sk_uni_eq; try reflexivity. cbn [u_edges u_put_sel u_with_graph u_graph with_edges g_edges].
    clear. unfold u_edges. generalize (g_edges (u_graph u)) as es. intros es. revert qL.
    induction es as [|e es IHe]; intros qL; [reflexivity|]. cbn [edges_put]. destruct (sel_lnl e).
    - cbn [map]. rewrite IHe. f_equal.
      pose proof (edge_params_length_pos (u_tri u) e) as Hlen.
      destruct (firstn (length (edge_params (u_tri u) e)) qL) as [|s [|mm [|? ?]]] eqn:Ef; cbn [edge_put]; try reflexivity.
      assert (Hl2 : length (edge_params (u_tri u) e) = 2).
      { apply (f_equal (@length _)) in Ef. rewrite firstn_length in Ef. cbn in Ef. lia. }
      rewrite edge_params_cases in Hl2. destruct (is_growth e); [discriminate|]. destruct (has_micro (u_tri u) e) eqn:Em; [|discriminate].
      rewrite sk_edge_with_micro by (rewrite has_micro_with_spread; exact Em). apply sk_edge_with_spread.
    - cbn [map]. rewrite IHe. reflexivity.
  Qed.

  Lemma step_lnl mk : St m mk ->
    match lnl_vals with
    | Some (qLi, qLc) => m_set_lnl_spread_params mk [] kw = (lnl_fin mk qLi qLc, Some [])
    | None => snd (m_set_lnl_spread_params mk [] kw) = None
    end.
  Proof.
    intros HS. unfold m_set_lnl_spread_params. destruct (unflatten_and_split kw ["ipsi"; "noext"; "ext"; "contra"]) as [split glob] eqn:Hu.
    change ["ipsi"; "noext"; "ext"; "contra"] with X4 in Hu.
    rewrite (St_symL m mk HS). unfold lnl_vals, lnl_fin, vLi, vLc, lpre. destruct (ml_symL m) eqn:EsL.
    - (* symmetric: every leaf receives the global keywords *)
      assert (Hlk : forall k, In k (LK m) -> u_lk glob k = Some (lv ([] ++ k))).
      { intros k Hk. destruct (LK_form m k Hk) as (n & s & -> & Hn).
        apply (lk_glob m v Hok Hnd Hl split glob Hu n [s] Hn).
        pose proof (M_lnl m "ipsi" [n; s] Hok (or_introl eq_refl) Hk) as HM. unfold lpre in HM. rewrite EsL in HM. exact HM. }
      pose proof (block_kw glob (fun k => lv ([] ++ k)) Hlk
                    [LCentralIpsi; LCentralContra; LExtIpsi; LExtContra; LNoextIpsi; LNoextContra] mk HS) as HB.
      destruct (all_unit (map (fun k : path => lv ([] ++ k)) (LK m))) as [qL|]; [exact HB|].
      apply HB. exists LExtIpsi. split; [cbn; tauto | discriminate].
    - (* asymmetric: the ipsilateral leaves, then the contralateral ones *)
      assert (HlkI : forall k, In k (LK m) -> u_lk (obj_kwargs "ipsi" split glob) k = Some (lv (["ipsi"] ++ k))).
      { intros k Hk. destruct (LK_form m k Hk) as (n & s & -> & Hn).
        apply (lk_side m v Hnd Hl split glob Hu "ipsi" n [s]); [left; reflexivity|].
        pose proof (M_lnl m "ipsi" [n; s] Hok (or_introl eq_refl) Hk) as HM. unfold lpre in HM. rewrite EsL in HM. exact HM. }
      assert (HlkC : forall k, In k (LK m) -> u_lk (obj_kwargs "contra" split glob) k = Some (lv (["contra"] ++ k))).
      { intros k Hk. destruct (LK_form m k Hk) as (n & s & -> & Hn).
        apply (lk_side m v Hnd Hl split glob Hu "contra" n [s]); [right; right; right; left; reflexivity|].
        pose proof (M_lnl m "contra" [n; s] Hok (or_intror eq_refl) Hk) as HM. unfold lpre in HM. rewrite EsL in HM. exact HM. }
      pose proof (block_kw _ (fun k => lv (["ipsi"] ++ k)) HlkI [LCentralIpsi; LExtIpsi; LNoextIpsi] mk HS) as HB1.
      destruct (all_unit (map (fun k : path => lv (["ipsi"] ++ k)) (LK m))) as [qLi|].
      + rewrite HB1. cbn [andthen].
        pose proof (fold_put_leaf_St qLi [LCentralIpsi; LExtIpsi; LNoextIpsi] mk HS) as HS1.
        pose proof (block_kw _ (fun k => lv (["contra"] ++ k)) HlkC [LCentralContra; LExtContra; LNoextContra] _ HS1) as HB2.
        destruct (all_unit (map (fun k : path => lv (["contra"] ++ k)) (LK m))) as [qLc|]; [exact HB2|].
        apply HB2. exists LExtContra. split; [cbn; tauto | discriminate].
      + assert (Hf : snd (m_set_lnl_block mk [LCentralIpsi; LExtIpsi; LNoextIpsi] [] (obj_kwargs "ipsi" split glob)) = None).
        { apply HB1. exists LExtIpsi. split; [cbn; tauto | discriminate]. }
        destruct (m_set_lnl_block mk _ [] (obj_kwargs "ipsi" split glob)) as [m' o]. cbn [snd] in Hf. subst o. reflexivity.
  Qed.
End Steps.

Section Steps2.
  Variables (m : midline) (v : list val).
  Hypothesis Hok : m_names_ok m = true.
  Hypothesis Hnd : NoDup (m_names m).
  Hypothesis Hl : length v = length (m_items m).
  Notation kw := (mkw m v).
  Notation lv := (LV m v).

  (** ** Distributions *)
  Definition vD : list val := map lv (DK m).
  Definition leaf_ds (u : uni) : option (list (string * dist)) := dists_put (u_maxt u) (u_dists u) vD.
  Definition force_ds (u : uni) : list (string * dist) := match leaf_ds u with Some ds => ds | None => u_dists u end.
  Definition bi_ds (b : bilateral) : bilateral :=
    b_with b (u_with_dists (b_ipsi b) (force_ds (b_ipsi b))) (u_with_dists (b_contra b) (force_ds (b_contra b))).
  Definition bi_ds_ok (b : bilateral) : bool := is_some (leaf_ds (b_ipsi b)) && is_some (leaf_ds (b_contra b)).
  Definition dist_ok (mk : midline) : bool := forallb bi_ds_ok (m_bis mk).
  Definition dist_fin (mk : midline) : midline :=
    let m1 := ml_with_ext mk (bi_ds (ml_ext mk)) in
    let m2 := ml_with_noext m1 (bi_ds (ml_noext m1)) in
    let m3 := match ml_central m2 with Some c => ml_with_central m2 (bi_ds c) | None => m2 end in
    match ml_unknown m3 with Some k => ml_with_unknown m3 (bi_ds k) | None => m3 end.

  Lemma like_D u : like_ei m u -> map fst (u_dist_items u) = DK m.
  Proof. intros (_ & _ & _ & H). exact H. Qed.

  Lemma bi_dist_kw X split0 glob0 nm b b0 : incl X XB -> unflatten_and_split kw X = (split0, glob0) -> In nm X ->
    bi_facts m b b0 ->
    if bi_ds_ok b then b_set_distribution_params b [] (obj_kwargs nm split0 glob0) = (bi_ds b, Some [])
    else snd (b_set_distribution_params b [] (obj_kwargs nm split0 glob0)) = None.
  Proof.
    intros HX Hu Hnm (Hb & Hi & Hc & _). set (bkw := obj_kwargs nm split0 glob0).
    assert (Hplan : forall side u, side = "ipsi" \/ side = "contra" -> like_ei m u ->
              plan (side_lk side bkw) (u_dist_items u) [] = vD).
    { intros side u Hside Hu'. rewrite (plan_map _ _ _ lv); [rewrite (like_D u Hu'); reflexivity|].
      rewrite (like_D u Hu'). intros k Hk. destruct (DK_form m k Hk) as (t & s & -> & _).
      apply (lk_dist m v Hok Hnd Hl X split0 glob0 nm side t s HX Hu Hnm Hside Hk). }
    pose proof (b_dist_step b [] bkw Hb) as HD.
    rewrite (Hplan "ipsi" (b_ipsi b) (or_introl eq_refl) Hi), (Hplan "contra" (b_contra b) (or_intror eq_refl) Hc) in HD.
    unfold bi_ds_ok, bi_ds, force_ds, leaf_ds.
    destruct (dists_put (u_maxt (b_ipsi b)) (u_dists (b_ipsi b)) vD) as [dsi|]; cbn [is_some andb]; [|exact HD].
    destruct (dists_put (u_maxt (b_contra b)) (u_dists (b_contra b)) vD) as [dsc|]; cbn [is_some]; [|exact HD].
    rewrite HD, skipn_nil'. reflexivity.
  Qed.

  Lemma step_dist mk : St m mk ->
    if dist_ok mk then m_set_distribution_params mk [] kw = (dist_fin mk, Some [])
    else snd (m_set_distribution_params mk [] kw) = None.
  Proof.
    intros HS. unfold m_set_distribution_params, dist_ok, dist_fin, m_bis.
    pose proof (St_ext m Hok mk HS) as Fe. pose proof (St_noext m Hok mk HS) as Fn.
    destruct (ml_central mk) as [c|] eqn:Ec; destruct (ml_unknown mk) as [k|] eqn:Ek; cbn [app opt_list forallb];
      match goal with |- context [unflatten_and_split kw ?X0] => set (X := X0) end;
      (assert (HX : incl X XB) by (unfold X, XB; intros x Hx; cbn in *; intuition));
      (assert (Hext : In "ext" X) by (left; reflexivity)); (assert (Hnoext : In "noext" X) by (right; left; reflexivity));
      destruct (unflatten_and_split kw X) as [split0 glob0] eqn:Hu;
      pose proof (bi_dist_kw X split0 glob0 "ext" (ml_ext mk) (ml_ext m) HX Hu Hext Fe) as H1;
      (destruct (bi_ds_ok (ml_ext mk)); cbn [andb];
        [rewrite H1 | destruct (b_set_distribution_params (ml_ext mk) [] _) as [e' o]; cbn [snd] in H1; subst o; reflexivity]);
      cbn [ml_noext ml_with_ext ml_with_models];
      pose proof (bi_dist_kw X split0 glob0 "noext" (ml_noext mk) (ml_noext m) HX Hu Hnoext Fn) as H2;
      (destruct (bi_ds_ok (ml_noext mk)); cbn [andb];
        [rewrite H2 | destruct (b_set_distribution_params (ml_noext mk) [] _) as [n' o]; cbn [snd] in H2; subst o; reflexivity]);
      cbn [ml_central ml_unknown ml_with_noext ml_with_ext ml_with_models]; rewrite ?Ec, ?Ek.
    - (* central and unknown *)
      destruct (St_central m Hok mk c HS Ec) as (c0 & _ & Fc). destruct (St_unknown m Hok mk k HS Ek) as (k0 & _ & Fk).
      pose proof (bi_dist_kw X split0 glob0 "central" c c0 HX Hu ltac:(cbn; tauto) Fc) as H3.
      destruct (bi_ds_ok c); cbn [andb];
        [rewrite H3 | destruct (b_set_distribution_params c [] _) as [c' o]; cbn [snd] in H3; subst o; reflexivity].
      cbn [ml_unknown ml_with_central ml_with_noext ml_with_ext ml_with_models]. rewrite Ek.
      pose proof (bi_dist_kw X split0 glob0 "unknown" k k0 HX Hu ltac:(cbn; tauto) Fk) as H4.
      destruct (bi_ds_ok k); cbn [andb];
        [rewrite H4; reflexivity | destruct (b_set_distribution_params k [] _) as [k' o]; cbn [snd] in H4; subst o; reflexivity].
    - destruct (St_central m Hok mk c HS Ec) as (c0 & _ & Fc).
      pose proof (bi_dist_kw X split0 glob0 "central" c c0 HX Hu ltac:(cbn; tauto) Fc) as H3.
      destruct (bi_ds_ok c); cbn [andb];
        [rewrite H3 | destruct (b_set_distribution_params c [] _) as [c' o]; cbn [snd] in H3; subst o; reflexivity].
      cbn [ml_unknown ml_with_central ml_with_noext ml_with_ext ml_with_models]. rewrite Ek. reflexivity.
    - destruct (St_unknown m Hok mk k HS Ek) as (k0 & _ & Fk).
      cbn [ml_unknown ml_with_noext ml_with_ext ml_with_models]. rewrite Ek.
      pose proof (bi_dist_kw X split0 glob0 "unknown" k k0 HX Hu ltac:(cbn; tauto) Fk) as H4.
      destruct (bi_ds_ok k); cbn [andb];
        [rewrite H4; reflexivity | destruct (b_set_distribution_params k [] _) as [k' o]; cbn [snd] in H4; subst o; reflexivity].
    - cbn [ml_unknown ml_with_noext ml_with_ext ml_with_models]. rewrite Ek. reflexivity.
  Qed.
End Steps2.

(** * Midline.set_params on a full keyword assignment *)
Lemma popat_nil {A} z : popat (@nil A) z = ([], None, []).
Proof.
  unfold popat. cbn [length Z.of_nat]. destruct (z <? 0)%Z eqn:E1.
  - rewrite Z.add_0_r, E1. reflexivity.
  - rewrite E1. destruct (z >=? 0)%Z eqn:E2; [reflexivity|]. apply Z.ltb_ge in E1. rewrite Z.geb_leb in E2. apply Z.leb_gt in E2. lia.
Qed.

Section Spec.
  Variables (m : midline) (v : list val).
  Hypothesis Hok : m_names_ok m = true.
  Hypothesis HN : mid_names_nodup_stmt.
  Hypothesis Hl : length v = length (m_items m).
  Notation kw := (mkw m v).
  Notation lv := (LV m v).
  Let Hnd : NoDup (m_names m) := proj2 (HN m Hok).

  Definition spread_fin (q : Qc) (tv : list Qc * list Qc * list Qc * option Qc) (ls : list Qc * list Qc) : midline :=
    let '(qTi, qTc, qTe, mixo) := tv in let '(qLi, qLc) := ls in
    lnl_fin m (tumor_fin (ml_with_midext m q) qTi qTc qTe mixo) qLi qLc.
  Definition spread_vals : option (Qc * (list Qc * list Qc * list Qc * option Qc) * (list Qc * list Qc)) :=
    match check_unit (lv ["midext"; "prob"]), tumor_vals m v, lnl_vals m v with
    | Some q, Some tv, Some ls => Some (q, tv, ls)
    | _, _, _ => None
    end.

  Lemma m_set_full :
    match spread_vals with
    | Some (q, tv, ls) =>
        if dist_ok m v (spread_fin q tv ls)
        then m_set_params m [] kw = (dist_fin m v (spread_fin q tv ls), Some [])
        else snd (m_set_params m [] kw) = None
    | None => snd (m_set_params m [] kw) = None
    end.
  Proof.
    unfold m_set_params, spread_vals.
    pose proof (proj1 (HN m Hok)) as Hgot. unfold m_got in Hgot. destruct (m_get_params m true) as [ps|]; [|discriminate]. clear Hgot.
    rewrite popat_nil.
    assert (Hme : kw_get ["midext"; "prob"] kw = Some (lv ["midext"; "prob"])).
    { rewrite <- (kw_last_NoDup _ kw (kw_nodup m v Hnd Hl)). apply (kw_in m v Hnd Hl). apply M_midext, Hok. }
    rewrite Hme. destruct (check_unit (lv ["midext"; "prob"])) as [q|]; cbn [option_map]; [|reflexivity].
    set (m0 := ml_with_midext m q). assert (HS0 : St m m0) by reflexivity.
    cbn [app]. unfold m_set_spread_params.
    pose proof (step_tumor m v Hok Hnd Hl m0 HS0) as HT.
    destruct (tumor_vals m v) as [[[[qTi qTc] qTe] mixo]|]; cbn [andthen].
    2:{ destruct (m_set_tumor_spread_params m0 [] kw) as [m' o]. cbn [snd] in HT. subst o. reflexivity. }
    rewrite HT. cbn [andthen]. set (mT := tumor_fin m0 qTi qTc qTe mixo) in *.
    assert (HST : St m mT).
    { unfold St. pose proof (sk_mid_set_tumor m0 [] kw) as Hsk. rewrite HT in Hsk. exact Hsk. }
    pose proof (step_lnl m v Hok Hnd Hl mT HST) as HL.
    destruct (lnl_vals m v) as [[qLi qLc]|].
    2:{ destruct (m_set_lnl_spread_params mT [] kw) as [m' o]. cbn [snd] in HL. subst o. reflexivity. }
    rewrite HL. cbn [andthen]. unfold spread_fin. fold m0. fold mT. set (mL := lnl_fin m mT qLi qLc) in *.
    assert (HSL : St m mL).
    { unfold St. pose proof (sk_mid_set_lnl mT [] kw) as Hsk. rewrite HL in Hsk. cbn [fst] in Hsk. rewrite Hsk. exact HST. }
    exact (step_dist m v Hok Hnd Hl mL HSL).
  Qed.
End Spec.

(** * The object after a successful full assignment, leaf by leaf *)
Definition leaf_fin (m : midline) (v : list val) (u : uni) (qT qL : list Qc) : uni :=
  let u' := u_put_sel L (u_put_sel T u qT) qL in u_with_dists u' (force_ds m v u').
Definition m_explicit (m : midline) (v : list val) (q : Qc) (qTi qTc qTe : list Qc) (mixo : option Qc) (qLi qLc : list Qc) : midline :=
  let qLc' := if ml_symL m then qLi else qLc in
  let qTec := match mixo with Some mix => mixed mix qTi qTc | None => qTe end in
  {| ml_ext := b_with (ml_ext m) (leaf_fin m v (b_ipsi (ml_ext m)) qTi qLi) (leaf_fin m v (b_contra (ml_ext m)) qTec qLc');
     ml_noext := b_with (ml_noext m) (leaf_fin m v (b_ipsi (ml_noext m)) qTi qLi) (leaf_fin m v (b_contra (ml_noext m)) qTc qLc');
     ml_central := option_map (fun c => b_with c (leaf_fin m v (b_ipsi c) qTi qLi) (leaf_fin m v (b_contra c) qTi qLc')) (ml_central m);
     ml_unknown := option_map (bi_ds m v) (ml_unknown m);
     ml_mixing := match mixo with Some mix => Some mix | None => ml_mixing m end;
     ml_midext := q; ml_evo := ml_evo m; ml_symL := ml_symL m |}.

Lemma midline_ext m1 m2 : ml_ext m1 = ml_ext m2 -> ml_noext m1 = ml_noext m2 -> ml_central m1 = ml_central m2 ->
  ml_unknown m1 = ml_unknown m2 -> ml_mixing m1 = ml_mixing m2 -> ml_midext m1 = ml_midext m2 -> ml_evo m1 = ml_evo m2 ->
  ml_symL m1 = ml_symL m2 -> m1 = m2.
Proof. destruct m1, m2. cbn. intros; subst; reflexivity. Qed.
Lemma b_with_with b i c i' c' : b_with (b_with b i c) i' c' = b_with b i' c'.
Proof. reflexivity. Qed.

(** the fields after each step *)
Definition put2 (sel : edge -> bool) (b : bilateral) (qi qc : list Qc) : bilateral :=
  b_with b (u_put_sel sel (b_ipsi b) qi) (u_put_sel sel (b_contra b) qc).
Lemma tumor_fin_fields mk qTi qTc qTe mixo :
  let qTec := match mixo with Some mix => mixed mix qTi qTc | None => qTe end in
  let r := tumor_fin mk qTi qTc qTe mixo in
  ml_ext r = put2 T (ml_ext mk) qTi qTec /\ ml_noext r = put2 T (ml_noext mk) qTi qTc
  /\ ml_central r = option_map (fun c => put2 T c qTi qTi) (ml_central mk) /\ ml_unknown r = ml_unknown mk
  /\ ml_mixing r = match mixo with Some mix => Some mix | None => ml_mixing mk end
  /\ ml_midext r = ml_midext mk /\ ml_evo r = ml_evo mk /\ ml_symL r = ml_symL mk.
Proof.
  unfold tumor_fin, with_central_T, put2. destruct mk as [ext noext central unknown mixing midext evo symL].
  destruct central as [c|], mixo as [mix|]; cbn; repeat split; reflexivity.
Qed.
Lemma lnl_fin_fields m mk qLi qLc :
  let qLc' := if ml_symL m then qLi else qLc in
  let r := lnl_fin m mk qLi qLc in
  ml_ext r = put2 L (ml_ext mk) qLi qLc' /\ ml_noext r = put2 L (ml_noext mk) qLi qLc'
  /\ ml_central r = option_map (fun c => put2 L c qLi qLc') (ml_central mk) /\ ml_unknown r = ml_unknown mk
  /\ ml_mixing r = ml_mixing mk /\ ml_midext r = ml_midext mk /\ ml_evo r = ml_evo mk /\ ml_symL r = ml_symL mk.
Proof.
  unfold lnl_fin, put_leaf, put2. destruct mk as [ext noext central unknown mixing midext evo symL].
  destruct central as [c|], (ml_symL m); cbn; repeat split; reflexivity.
Qed.
Lemma dist_fin_fields m v mk :
  let r := dist_fin m v mk in
  ml_ext r = bi_ds m v (ml_ext mk) /\ ml_noext r = bi_ds m v (ml_noext mk)
  /\ ml_central r = option_map (bi_ds m v) (ml_central mk) /\ ml_unknown r = option_map (bi_ds m v) (ml_unknown mk)
  /\ ml_mixing r = ml_mixing mk /\ ml_midext r = ml_midext mk /\ ml_evo r = ml_evo mk /\ ml_symL r = ml_symL mk.
Proof.
  unfold dist_fin. destruct mk as [ext noext central unknown mixing midext evo symL].
  destruct central as [c|], unknown as [k|]; cbn; repeat split; reflexivity.
Qed.
Lemma bi_ds_put2 m v b qTi qTc qLi qLc :
  bi_ds m v (put2 L (put2 T b qTi qTc) qLi qLc) = b_with b (leaf_fin m v (b_ipsi b) qTi qLi) (leaf_fin m v (b_contra b) qTc qLc).
Proof. reflexivity. Qed.

Lemma fin_explicit m v q qTi qTc qTe mixo qLi qLc :
  dist_fin m v (spread_fin m q (qTi, qTc, qTe, mixo) (qLi, qLc)) = m_explicit m v q qTi qTc qTe mixo qLi qLc.
Proof.
  unfold spread_fin.
  destruct (tumor_fin_fields (ml_with_midext m q) qTi qTc qTe mixo) as (T1 & T2 & T3 & T4 & T5 & T6 & T7 & T8).
  destruct (lnl_fin_fields m (tumor_fin (ml_with_midext m q) qTi qTc qTe mixo) qLi qLc) as (L1 & L2 & L3 & L4 & L5 & L6 & L7 & L8).
  destruct (dist_fin_fields m v (lnl_fin m (tumor_fin (ml_with_midext m q) qTi qTc qTe mixo) qLi qLc)) as (D1 & D2 & D3 & D4 & D5 & D6 & D7 & D8).
  apply midline_ext; unfold m_explicit; cbn [ml_ext ml_noext ml_central ml_unknown ml_mixing ml_midext ml_evo ml_symL].
  - rewrite D1, L1, T1. apply bi_ds_put2.
  - rewrite D2, L2, T2. apply bi_ds_put2.
  - rewrite D3, L3, T3. cbn [ml_central ml_with_midext]. destruct (ml_central m) as [c|]; [|reflexivity]. cbn [option_map]. f_equal; try apply bi_ds_put2.
  - rewrite D4, L4, T4. reflexivity.
  - rewrite D5, L5, T5. reflexivity.
  - rewrite D6, L6, T6. reflexivity.
  - rewrite D7, L7, T7. reflexivity.
  - rewrite D8, L8, T8. reflexivity.
Qed.

(** * [m_accepts] says exactly when the call succeeds *)
Lemma is_some_all_unit_app A B : is_some (all_unit (A ++ B)) = is_some (all_unit A) && is_some (all_unit B).
Proof. rewrite all_unit_app. destruct (all_unit A), (all_unit B); reflexivity. Qed.
Lemma is_some_all_unit_one x : is_some (all_unit [x]) = is_some (check_unit x).
Proof. cbn [all_unit]. destruct (check_unit x); reflexivity. Qed.

Definition bd (b : bilateral) := ((u_maxt (b_ipsi b), u_dists (b_ipsi b)), (u_maxt (b_contra b), u_dists (b_contra b))).
Lemma bis_dists_spread m q tv ls : map bd (m_bis (spread_fin m q tv ls)) = map bd (m_bis m).
Proof.
  destruct tv as [[[qTi qTc] qTe] mixo], ls as [qLi qLc].
  unfold spread_fin, lnl_fin, tumor_fin, with_central_T, m_bis.
  destruct m as [[ei ec sTe sLe] [ni nc sTn sLn] central unknown mixing midext evo symL].
  destruct central as [[ci cc sTc sLc]|], unknown as [[ki kc sTk sLk]|], mixo as [mix|], symL; reflexivity.
Qed.
Lemma dist_ok_bd m v mk1 mk2 : map bd (m_bis mk1) = map bd (m_bis mk2) -> dist_ok m v mk1 = dist_ok m v mk2.
Proof.
  unfold dist_ok. generalize (m_bis mk1) (m_bis mk2). intros l1. induction l1 as [|b1 l1 IH]; intros [|b2 l2] H; cbn [map] in H; try discriminate; [reflexivity|].
  unfold bd at 1 3 in H. injection H as H1 H2 H3 H4 Hr. cbn [forallb]. rewrite (IH l2 Hr). f_equal.
  unfold bi_ds_ok, leaf_ds. rewrite H1, H2, H3, H4. reflexivity.
Qed.

Section Bridge.
  Variables (m : midline) (v : list val).
  Hypothesis Hok : m_names_ok m = true.
  Hypothesis Hnd : NoDup (m_names m).
  Hypothesis Hl : length v = length (m_items m).
  Notation lv := (LV m v).
  Let ns := length (m_spread_items m).
  Let nd := length (u_dist_items (m_ei m)).

  Lemma v_blocks : firstn ns v = map lv (m_spread_keys m) /\ firstn nd (skipn ns v) = vD m v /\ skipn (ns + nd) v = [lv ["midext"; "prob"]].
  Proof.
    assert (Hs : length (map lv (m_spread_keys m)) = ns) by (rewrite map_length; apply m_spread_keys_length, Hok).
    assert (Hd : length (map lv (DK m)) = nd) by (rewrite map_length; unfold DK; apply map_length).
    pose proof (v_as_map m v Hnd Hl) as Hv. unfold vD. revert Hs Hd Hv. generalize (LV m v) as f. intros f Hs Hd Hv.
    rewrite Hv. rewrite (m_names_eq m Hok), !map_app. cbn [map].
    split; [apply firstn_app_len, Hs|]. rewrite (skipn_app_len _ _ ns Hs). split; [apply firstn_app_len, Hd|].
    rewrite app_assoc. apply skipn_app_len. rewrite app_length. lia.
  Qed.

  Lemma map_app_nil (K : list path) : map (app []) K = K.
  Proof. induction K as [|k K IH]; [reflexivity|]. change (map (app []) (k :: K)) with (k :: map (app []) K). f_equal. exact IH. Qed.
  Lemma vTi_eq : vTi m v = map lv (map (app ["ipsi"]) (TK m)). Proof. unfold vTi. rewrite map_map. reflexivity. Qed.
  Lemma vTc_eq : vTc m v = map lv (map (app (cpre m)) (TK m)). Proof. unfold vTc. rewrite map_map. reflexivity. Qed.
  Lemma vTe_eq : vTe m v = map lv (map (app ["ext"; "contra"]) (TK m)). Proof. unfold vTe. rewrite map_map. reflexivity. Qed.
  Lemma vLi_eq : vLi m v = map lv (map (app (lpre m "ipsi")) (LK m)). Proof. unfold vLi. rewrite map_map. reflexivity. Qed.
  Lemma vLc_eq : vLc m v = map lv (map (app (lpre m "contra")) (LK m)). Proof. unfold vLc. rewrite map_map. reflexivity. Qed.

  Lemma spread_keys_ok :
    is_some (all_unit (map lv (m_spread_keys m)))
    = is_some (tumor_vals m v) && is_some (lnl_vals m v).
  Proof.
    unfold tumor_vals, lnl_vals. rewrite vTi_eq, vTc_eq, vTe_eq, vLi_eq, vLc_eq. unfold m_spread_keys, cpre, lpre.
    destruct (ml_mixing m), (ml_symL m); rewrite ?map_app_nil;
      rewrite ?map_app, ?is_some_all_unit_app, ?map_app, ?is_some_all_unit_app; cbn [map]; rewrite ?is_some_all_unit_one; unfold path;
      repeat match goal with |- context [all_unit ?l] => destruct (all_unit l) end;
      try destruct (check_unit (lv ["mixing"])); reflexivity.
  Qed.

  Lemma forallb_unis (f : uni -> bool) : forallb f (m_unis m) = forallb (fun b => f (b_ipsi b) && f (b_contra b)) (m_bis m).
  Proof.
    unfold m_unis. induction (m_bis m) as [|b r IH]; [reflexivity|]. cbn [flat_map forallb app]. rewrite IH, andb_assoc. reflexivity.
  Qed.

  Lemma m_accepts_eq :
    m_accepts m v = is_some (check_unit (lv ["midext"; "prob"])) && is_some (tumor_vals m v) && is_some (lnl_vals m v) && dist_ok m v m.
  Proof.
    unfold m_accepts. fold ns nd. destruct v_blocks as (H1 & H2 & H3). rewrite H1, H2, H3, spread_keys_ok, is_some_all_unit_one.
    rewrite forallb_unis. unfold dist_ok, bi_ds_ok, leaf_ds.
    destruct (check_unit (lv ["midext"; "prob"])), (tumor_vals m v), (lnl_vals m v); reflexivity.
  Qed.
End Bridge.

Section Outcome.
  Variables (m : midline) (v : list val).
  Hypothesis Hok : m_names_ok m = true.
  Hypothesis HN : mid_names_nodup_stmt.
  Hypothesis Hl : length v = length (m_items m).
  Let Hnd : NoDup (m_names m) := proj2 (HN m Hok).

  Lemma m_set_reject : m_accepts m v = false -> snd (m_set_params m [] (mkw m v)) = None.
  Proof.
    intros Hacc. rewrite (m_accepts_eq m v Hok Hnd Hl) in Hacc.
    pose proof (m_set_full m v Hok HN Hl) as Hs. unfold spread_vals in Hs.
    destruct (check_unit (LV m v ["midext"; "prob"])) as [q|]; [|exact Hs].
    destruct (tumor_vals m v) as [tv|]; [|exact Hs]. destruct (lnl_vals m v) as [ls|]; [|exact Hs].
    cbn [is_some andb] in Hacc. rewrite (dist_ok_bd m v _ m (bis_dists_spread m q tv ls)), Hacc in Hs. exact Hs.
  Qed.
  Lemma m_set_accept : m_accepts m v = true ->
    exists q qTi qTc qTe mixo qLi qLc,
      m_set_params m [] (mkw m v) = (m_explicit m v q qTi qTc qTe mixo qLi qLc, Some [])
      /\ tumor_vals m v = Some (qTi, qTc, qTe, mixo) /\ lnl_vals m v = Some (qLi, qLc)
      /\ check_unit (LV m v ["midext"; "prob"]) = Some q /\ dist_ok m v m = true.
  Proof.
    intros Hacc. rewrite (m_accepts_eq m v Hok Hnd Hl) in Hacc.
    pose proof (m_set_full m v Hok HN Hl) as Hs. unfold spread_vals in Hs.
    destruct (check_unit (LV m v ["midext"; "prob"])) as [q|]; [|discriminate].
    destruct (tumor_vals m v) as [[[[qTi qTc] qTe] mixo]|]; [|discriminate]. destruct (lnl_vals m v) as [[qLi qLc]|]; [|discriminate].
    cbn [is_some andb] in Hacc. rewrite (dist_ok_bd m v _ m (bis_dists_spread m q _ _)), Hacc, fin_explicit in Hs.
    exists q, qTi, qTc, qTe, mixo, qLi, qLc. repeat split; [exact Hs | exact Hacc].
  Qed.
End Outcome.

(** * Two objects of the same configuration *)
Lemma forallb_Forall2 {A} (R : A -> A -> Prop) (f1 f2 : A -> bool) l2 l1 :
  Forall2 R l2 l1 -> (forall b2 b1, R b2 b1 -> f1 b1 = true -> f2 b2 = true) -> forallb f1 l1 = true -> forallb f2 l2 = true.
Proof.
  intros HF Himp. induction HF as [|b2 b1 r2 r1 HR HF IH]; [reflexivity|]. cbn [forallb]. rewrite !andb_true_iff.
  intros [H1 H2]. split; [apply (Himp b2 b1 HR H1) | apply IH, H2].
Qed.
Lemma m_bis_sk m2 m1 : sk_mid m2 = sk_mid m1 -> Forall2 (fun b2 b1 => sk_bi b2 = sk_bi b1) (m_bis m2) (m_bis m1).
Proof.
  intros H. unfold m_bis.
  pose proof (sk_mid_ext m1 m2 H) as He. pose proof (sk_mid_noext m1 m2 H) as Hn.
  pose proof (f_equal ml_central H) as Hc. pose proof (f_equal ml_unknown H) as Hk. cbn in Hc, Hk.
  constructor; [exact He|]. constructor; [exact Hn|].
  apply Forall2_app.
  - destruct (ml_central m2), (ml_central m1); cbn in Hc |- *; try discriminate; constructor; [congruence | constructor].
  - destruct (ml_unknown m2), (ml_unknown m1); cbn in Hk |- *; try discriminate; constructor; [apply sk_bi_of_dists; congruence | constructor].
Qed.
Lemma same_shape_sk u1 u2 w1 w2 : sk_uni u1 = sk_uni u2 -> sk_uni w1 = sk_uni w2 -> same_shape u1 w1 = true -> same_shape u2 w2 = true.
Proof.
  intros Hu Hw H. destruct (same_shape_parts _ _ H) as [Hs _]. unfold same_shape in *. apply andb_true_iff in H. destruct H as [Hb _].
  destruct (sk_uni_inv _ _ Hu) as (_ & Hbu & _). destruct (sk_uni_inv _ _ Hw) as (_ & Hbw & _).
  apply andb_true_iff. split; [rewrite <- Hbu, <- Hbw; exact Hb|].
  apply shape_eqb_of_shape. rewrite <- (sk_shape _ _ Hu), <- (sk_shape _ _ Hw). exact Hs.
Qed.
Lemma same_dist_keys_sk u1 u2 w1 w2 : sk_uni u1 = sk_uni u2 -> sk_uni w1 = sk_uni w2 -> same_dist_keys u1 w1 = true -> same_dist_keys u2 w2 = true.
Proof.
  intros Hu Hw H. unfold same_dist_keys in *. apply keys_eqb_eq in H.
  fold (u_dist_items u2) (u_dist_items w2). fold (u_dist_items u1) (u_dist_items w1) in H.
  rewrite <- (u_dist_keys_sk _ _ Hu), <- (u_dist_keys_sk _ _ Hw), H. apply keys_eqb_refl.
Qed.
Lemma m_names_ok_sk m2 m1 : sk_mid m2 = sk_mid m1 -> m_names_ok m1 = true -> m_names_ok m2 = true.
Proof.
  intros Hsk H. pose proof (m_bis_sk m2 m1 Hsk) as HF.
  pose proof (sk_mid_ext m1 m2 Hsk) as He. pose proof (sk_mid_noext m1 m2 Hsk) as Hn.
  destruct (sk_bi_inv _ _ He) as (Hei & _ & HeT & _). destruct (sk_bi_inv _ _ Hn) as (_ & _ & HnT & _).
  unfold m_names_ok in *. rewrite !andb_true_iff in H. destruct H as [[[[[H1 H2] H3] H4] H5] H6].
  rewrite !andb_true_iff. repeat split.
  - refine (forallb_Forall2 _ _ _ _ _ HF _ H1). intros b2 b1 HR Hb. apply (b_names_ok_sk b1 b2 (eq_sym HR) Hb).
  - refine (forallb_Forall2 _ _ _ _ _ HF _ H2). intros b2 b1 HR Hb. destruct (sk_bi_inv _ _ HR) as (Hi & _).
    apply andb_true_iff in Hb. destruct Hb as [Hs Hd]. apply andb_true_iff. unfold m_ei in *. split.
    + apply (same_shape_sk _ _ _ _ (eq_sym Hei) (eq_sym Hi) Hs).
    + apply (same_dist_keys_sk _ _ _ _ (eq_sym Hei) (eq_sym Hi) Hd).
  - rewrite HeT. exact H3.
  - rewrite HnT. exact H4.
  - pose proof (f_equal ml_central Hsk) as Hc. cbn in Hc. destruct (ml_central m2) as [c2|], (ml_central m1) as [c1|]; cbn in Hc; try discriminate; [|reflexivity].
    assert (Hcc : sk_bi c2 = sk_bi c1) by congruence. destruct (sk_bi_inv _ _ Hcc) as (_ & _ & HT & _). rewrite HT. exact H5.
  - refine (forallb_Forall2 _ _ _ _ _ HF _ H6). intros b2 b1 HR Hb. destruct (sk_bi_inv _ _ HR) as (_ & _ & _ & HL).
    rewrite HL, (f_equal ml_symL Hsk : ml_symL m2 = ml_symL m1). exact Hb.
Qed.

Lemma keys_sk m2 m1 : m_names_ok m1 = true -> sk_mid m2 = sk_mid m1 -> TK m2 = TK m1 /\ LK m2 = LK m1 /\ DK m2 = DK m1.
Proof.
  intros H Hsk. pose proof (sk_mid_ext m1 m2 Hsk) as He. destruct (sk_bi_inv _ _ He) as (Hei & _). unfold TK, LK, DK, m_ei.
  split; [apply (sk_sel_keys is_tumor_spread _ _ kind_sel_tumor Hei)|].
  split; [apply (sk_sel_keys sel_lnl _ _ kind_sel_lnl Hei) | apply (u_dist_keys_sk _ _ Hei)].
Qed.
Lemma mixing_sk m2 m1 : sk_mid m2 = sk_mid m1 -> (ml_mixing m2 = None <-> ml_mixing m1 = None).
Proof.
  intros H. pose proof (f_equal ml_mixing H) as Hm. cbn in Hm. destruct (ml_mixing m2), (ml_mixing m1); cbn in Hm; try discriminate; split; intros; try discriminate; reflexivity.
Qed.
Lemma m_names_sk m2 m1 : m_names_ok m1 = true -> sk_mid m2 = sk_mid m1 -> m_names m2 = m_names m1.
Proof.
  intros H Hsk. pose proof (m_names_ok_sk m2 m1 Hsk H) as H2. rewrite (m_names_eq m2 H2), (m_names_eq m1 H).
  destruct (keys_sk m2 m1 H Hsk) as (HT & HL & HD). unfold m_spread_keys. rewrite HT, HL, HD, (f_equal ml_symL Hsk : ml_symL m2 = ml_symL m1).
  pose proof (mixing_sk m2 m1 Hsk) as Hm. destruct (ml_mixing m2), (ml_mixing m1); try reflexivity.
  - pose proof (proj2 Hm eq_refl) as Hx. discriminate Hx.
  - pose proof (proj1 Hm eq_refl) as Hx. discriminate Hx.
Qed.

(** * The Midline theorems of C12 *)
Theorem mid_invalid_position : C12_mid_invalid_position_stmt.
Proof.
  intros m v i x Hl Hn Hx. unfold m_accepts.
  set (ns := length (m_spread_items m)) in *. set (nd := length (u_dist_items (m_ei m))).
  assert (Hlen : length (m_items m) = ns + nd + 1) by (unfold m_items; rewrite !app_length; cbn [length]; fold ns nd; lia).
  assert (Hi : i < length v) by (apply nth_error_Some; rewrite Hn; discriminate).
  destruct (Nat.lt_ge_cases i ns) as [Hlt|Hge].
  - assert (Hc : check_unit x = None) by (destruct Hx as [->|[_ Hc]]; [reflexivity | exact Hc]).
    rewrite (all_unit_nth_None _ i x); [reflexivity | rewrite nth_error_firstn by exact Hlt; exact Hn | exact Hc].
  - destruct (Nat.eq_dec i (ns + nd)) as [->|Hne].
    + assert (Hc : check_unit x = None) by (destruct Hx as [->|[_ Hc]]; [reflexivity | exact Hc]).
      rewrite (all_unit_nth_None (skipn (ns + nd) v) 0 x); [cbn [is_some]; rewrite andb_false_r; reflexivity | | exact Hc].
      rewrite nth_error_skipn, Nat.add_0_r. exact Hn.
    + destruct Hx as [->|[[Hlt|Heq] _]]; [| lia | lia].
      unfold m_unis, m_bis. cbn [app flat_map forallb]. fold (m_ei m).
      rewrite (dists_put_Bad (u_maxt (m_ei m)) (u_dists (m_ei m)) _ (i - ns)).
      * cbn [is_some andb]. apply andb_false_r.
      * rewrite nth_error_firstn by lia. rewrite nth_error_skipn. replace (ns + (i - ns)) with i by lia. exact Hn.
      * fold (u_dist_items (m_ei m)). fold nd. lia.
Qed.

Section MidTheorems.
  Hypothesis HN : mid_names_nodup_stmt.

  Lemma param_names_mid m : m_names_ok m = true -> param_names (MMid m) = Some (m_names m).
  Proof.
    intros H. destruct (HN m H) as [Hg _]. change (param_names (MMid m)) with (option_map (map fst) (m_got m)). rewrite Hg. reflexivity.
  Qed.
  Lemma m_names_length m : length (m_names m) = length (m_items m).
  Proof. apply map_length. Qed.

  Theorem mid_invalid_gives_minus_inf : C12_mid_invalid_gives_minus_inf_stmt.
  Proof.
    intros R lik m v g H Hl Hacc Hg.
    rewrite (likelihood_both_forms R lik None (MMid m) (m_names m) v g).
    - cbn [set_params fst snd]. pose proof (m_set_reject m v H HN Hl Hacc) as Hf. unfold mkw in Hf.
      destruct (m_set_params m [] (combine (m_names m) v)) as [m' o]. cbn [snd] in *. subst o. reflexivity.
    - unfold named_params. rewrite (param_names_mid m H). reflexivity.
    - apply (HN m H).
    - rewrite m_names_length. exact Hl.
    - exact Hg.
  Qed.

  Theorem mid_given_params_scored : mid_set_get_keyword_stmt -> C12_mid_given_params_scored_stmt.
  Proof.
    intros HK R lik m v g H Hl Hacc Hg m'.
    assert (Hlv : length (vals v) = length (m_items m)) by (rewrite vals_length; exact Hl).
    destruct (m_set_accept m (vals v) H HN Hlv Hacc) as (q & qTi & qTc & qTe & mixo & qLi & qLc & Hset & _).
    unfold mkw in Hset. fold (kw_of (m_names m) v) in Hset.
    pose proof (HK m v H Hl) as Hk. cbv zeta in Hk. rewrite Hset in Hk. cbn [fst snd] in Hk. destruct Hk as [Hv Hn]; [discriminate|].
    rewrite (likelihood_both_forms R lik None (MMid m) (m_names m) (vals v) g).
    - cbn [set_params]. fold (kw_of (m_names m) v). subst m'. rewrite Hset. cbn [fst snd]. split; [reflexivity|]. split; assumption.
    - unfold named_params. rewrite (param_names_mid m H). reflexivity.
    - apply (HN m H).
    - rewrite m_names_length. exact Hlv.
    - exact Hg.
  Qed.
End MidTheorems.

Lemma forallb_Forall2_eq {A} (R : A -> A -> Prop) (f1 f2 : A -> bool) l2 l1 :
  Forall2 R l2 l1 -> (forall b2 b1, R b2 b1 -> f2 b2 = f1 b1) -> forallb f2 l2 = forallb f1 l1.
Proof. intros HF Himp. induction HF as [|b2 b1 r2 r1 HR HF IH]; [reflexivity|]. cbn [forallb]. rewrite (Himp b2 b1 HR), IH. reflexivity. Qed.
Lemma u_with_dists_sk u1 u2 ds : sk_uni_dists u1 = sk_uni_dists u2 -> u_with_dists u1 ds = u_with_dists u2 ds.
Proof.
  intros H. unfold u_with_dists. rewrite (f_equal u_graph H : u_graph u1 = u_graph u2), (f_equal u_mods H : u_mods u1 = u_mods u2),
    (f_equal u_maxt H : u_maxt u1 = u_maxt u2). reflexivity.
Qed.

Section MidAbsorb.
  Hypothesis HN : mid_names_nodup_stmt.
  Variables (m1 m2 : midline) (v : list val).
  Hypothesis H1 : m_names_ok m1 = true.
  Hypothesis Hsk : sk_mid m2 = sk_mid m1.
  Hypothesis Hl : length v = length (m_items m1).

  Let H2 : m_names_ok m2 = true := m_names_ok_sk m2 m1 Hsk H1.
  Let Hn : m_names m2 = m_names m1 := m_names_sk m2 m1 H1 Hsk.
  Lemma Hl2 : length v = length (m_items m2).
  Proof. rewrite <- (map_length fst (m_items m2)). fold (m_names m2). rewrite Hn. unfold m_names. rewrite map_length. exact Hl. Qed.
  Lemma LV_sk : LV m2 v = LV m1 v.
  Proof. unfold LV, mkw. rewrite Hn. reflexivity. Qed.
  Lemma vD_sk : vD m2 v = vD m1 v.
  Proof. unfold vD. destruct (keys_sk m2 m1 H1 Hsk) as (_ & _ & HD). rewrite LV_sk, HD. reflexivity. Qed.
  Lemma tumor_vals_sk : tumor_vals m2 v = tumor_vals m1 v.
  Proof.
    unfold tumor_vals, vTi, vTc, vTe, cpre. destruct (keys_sk m2 m1 H1 Hsk) as (HT & _ & _). rewrite LV_sk, HT.
    pose proof (mixing_sk m2 m1 Hsk) as Hm. destruct (ml_mixing m2), (ml_mixing m1); try reflexivity.
    - pose proof (proj2 Hm eq_refl) as Hx. discriminate Hx.
    - pose proof (proj1 Hm eq_refl) as Hx. discriminate Hx.
  Qed.
  Lemma lnl_vals_sk : lnl_vals m2 v = lnl_vals m1 v.
  Proof.
    unfold lnl_vals, vLi, vLc, lpre. destruct (keys_sk m2 m1 H1 Hsk) as (_ & HL & _).
    rewrite LV_sk, HL, (f_equal ml_symL Hsk : ml_symL m2 = ml_symL m1). reflexivity.
  Qed.
  Lemma leaf_ds_sk u2 u1 : sk_uni u2 = sk_uni u1 -> leaf_ds m2 v u2 = leaf_ds m1 v u1.
  Proof.
    intros H. unfold leaf_ds. destruct (sk_uni_inv _ _ H) as (_ & _ & _ & _ & _ & Hd & Hm). rewrite vD_sk, Hm. apply dists_put_sk, Hd.
  Qed.
  Lemma bi_ds_ok_sk b2 b1 : sk_bi b2 = sk_bi b1 -> bi_ds_ok m2 v b2 = bi_ds_ok m1 v b1.
  Proof.
    intros H. destruct (sk_bi_inv _ _ H) as (Hi & Hc & _). unfold bi_ds_ok. rewrite (leaf_ds_sk _ _ Hi), (leaf_ds_sk _ _ Hc). reflexivity.
  Qed.
  Lemma dist_ok_sk : dist_ok m2 v m2 = dist_ok m1 v m1.
  Proof. unfold dist_ok. apply (forallb_Forall2_eq _ _ _ _ _ (m_bis_sk m2 m1 Hsk)). intros b2 b1 HR. apply bi_ds_ok_sk, HR. Qed.
  Lemma m_accepts_sk : m_accepts m2 v = m_accepts m1 v.
  Proof.
    rewrite (m_accepts_eq m2 v H2 (proj2 (HN m2 H2)) Hl2), (m_accepts_eq m1 v H1 (proj2 (HN m1 H1)) Hl).
    rewrite LV_sk, tumor_vals_sk, lnl_vals_sk, dist_ok_sk. reflexivity.
  Qed.

  Lemma leaf_fin_sk u2 u1 qT qL : sk_uni u2 = sk_uni u1 -> like_ei m1 u1 ->
    length qT = length (TK m1) -> length qL = length (LK m1) -> leaf_ds m1 v u1 <> None ->
    leaf_fin m2 v u2 qT qL = leaf_fin m1 v u1 qT qL.
  Proof.
    intros H (Hok1 & HT & HL & _) HlT HlL Hds. unfold leaf_fin, force_ds.
    change (leaf_ds m2 v (u_put_sel sel_lnl (u_put_sel is_tumor_spread u2 qT) qL)) with (leaf_ds m2 v u2).
    change (leaf_ds m1 v (u_put_sel sel_lnl (u_put_sel is_tumor_spread u1 qT) qL)) with (leaf_ds m1 v u1).
    rewrite (leaf_ds_sk u2 u1 H). destruct (leaf_ds m1 v u1) as [ds|]; [|contradiction].
    symmetry. apply leaf_absorb; [symmetry; exact H | |].
    - rewrite <- (map_length fst), HT. exact HlT.
    - rewrite <- (map_length fst), HL. exact HlL.
  Qed.
End MidAbsorb.

Lemma tumor_vals_lengths m v qTi qTc qTe mixo : tumor_vals m v = Some (qTi, qTc, qTe, mixo) ->
  length qTi = length (TK m) /\ length qTc = length (TK m)
  /\ length (match mixo with Some mix => mixed mix qTi qTc | None => qTe end) = length (TK m).
Proof.
  unfold tumor_vals. destruct (all_unit (vTi m v)) as [a|] eqn:EA; [|discriminate]. destruct (all_unit (vTc m v)) as [b|] eqn:EB; [|discriminate].
  apply all_unit_length in EA, EB. unfold vTi, vTc in *. rewrite map_length in EA, EB.
  destruct (ml_mixing m).
  - destruct (check_unit _) as [mix|]; [|discriminate]. intros [= <- <- <- <-]. repeat split; try assumption. rewrite mixed_length; [exact EA | exact (eq_trans EA (eq_sym EB))].
  - destruct (all_unit (vTe m v)) as [e|] eqn:EE; [|discriminate]. apply all_unit_length in EE. unfold vTe in EE. rewrite map_length in EE.
    intros [= <- <- <- <-]. repeat split; assumption.
Qed.
Lemma lnl_vals_lengths m v qLi qLc : lnl_vals m v = Some (qLi, qLc) ->
  length qLi = length (LK m) /\ length qLc = length (LK m).
Proof.
  unfold lnl_vals. destruct (all_unit (vLi m v)) as [a|] eqn:EA; [|discriminate]. destruct (all_unit (vLc m v)) as [b|] eqn:EB; [|discriminate].
  apply all_unit_length in EA, EB. unfold vLi, vLc in *. rewrite map_length in EA, EB. intros [= <- <-]. split; assumption.
Qed.

Section MidAbsorb2.
  Hypothesis HN : mid_names_nodup_stmt.
  Variables (m1 m2 : midline) (v : list val).
  Hypothesis H1 : m_names_ok m1 = true.
  Hypothesis Hsk : sk_mid m2 = sk_mid m1.
  Hypothesis Hl : length v = length (m_items m1).

  Lemma bi_fin_sk b2 b1 qTi qTc qLi qLc : sk_bi b2 = sk_bi b1 -> In b1 (m_bis m1) ->
    length qTi = length (TK m1) -> length qTc = length (TK m1) -> length qLi = length (LK m1) -> length qLc = length (LK m1) ->
    bi_ds_ok m1 v b1 = true ->
    b_with b2 (leaf_fin m2 v (b_ipsi b2) qTi qLi) (leaf_fin m2 v (b_contra b2) qTc qLc)
    = b_with b1 (leaf_fin m1 v (b_ipsi b1) qTi qLi) (leaf_fin m1 v (b_contra b1) qTc qLc).
  Proof.
    intros Hb Hin L1 L2 L3 L4 Hds. destruct (sk_bi_inv _ _ Hb) as (Hi & Hc & HT & HL).
    destruct (m_ok_bi m1 b1 H1 Hin) as (_ & Hli & Hlc & _).
    unfold bi_ds_ok in Hds. apply andb_true_iff in Hds. destruct Hds as [Hdi Hdc].
    unfold b_with. rewrite HT, HL.
    rewrite (leaf_fin_sk m1 m2 v H1 Hsk _ _ qTi qLi Hi Hli L1 L3) by (destruct (leaf_ds m1 v (b_ipsi b1)); [discriminate | discriminate Hdi]).
    rewrite (leaf_fin_sk m1 m2 v H1 Hsk _ _ qTc qLc Hc Hlc L2 L4) by (destruct (leaf_ds m1 v (b_contra b1)); [discriminate | discriminate Hdc]).
    reflexivity.
  Qed.
  Lemma bi_ds_sk k2 k1 : sk_bi_dists k2 = sk_bi_dists k1 -> bi_ds_ok m1 v k1 = true -> bi_ds m2 v k2 = bi_ds m1 v k1.
  Proof.
    intros Hk Hds. unfold bi_ds_ok in Hds. apply andb_true_iff in Hds. destruct Hds as [Hdi Hdc].
    pose proof (f_equal b_ipsi Hk) as Hi. pose proof (f_equal b_contra Hk) as Hc. cbn in Hi, Hc.
    pose proof (f_equal b_symT Hk) as HT. pose proof (f_equal b_symL Hk) as HL. cbn in HT, HL.
    unfold bi_ds, b_with, force_ds. rewrite HT, HL.
    rewrite (leaf_ds_sk m1 m2 v H1 Hsk _ _ (sk_uni_of_dists _ _ Hi)), (leaf_ds_sk m1 m2 v H1 Hsk _ _ (sk_uni_of_dists _ _ Hc)).
    destruct (leaf_ds m1 v (b_ipsi k1)) as [dsi|]; [|discriminate Hdi]. destruct (leaf_ds m1 v (b_contra k1)) as [dsc|]; [|discriminate Hdc].
    rewrite (u_with_dists_sk _ _ dsi Hi), (u_with_dists_sk _ _ dsc Hc). reflexivity.
  Qed.

  Lemma m_explicit_sk q qTi qTc qTe mixo qLi qLc :
    tumor_vals m1 v = Some (qTi, qTc, qTe, mixo) -> lnl_vals m1 v = Some (qLi, qLc) -> dist_ok m1 v m1 = true ->
    m_explicit m2 v q qTi qTc qTe mixo qLi qLc = m_explicit m1 v q qTi qTc qTe mixo qLi qLc.
  Proof.
    intros Htv Hlv Hd. destruct (tumor_vals_lengths _ _ _ _ _ _ Htv) as (LTi & LTc & LTe). destruct (lnl_vals_lengths _ _ _ _ Hlv) as (LLi & LLc).
    assert (HsL : ml_symL m2 = ml_symL m1) by exact (f_equal ml_symL Hsk).
    assert (LLc' : length (if ml_symL m1 then qLi else qLc) = length (LK m1)) by (destruct (ml_symL m1); assumption).
    unfold dist_ok in Hd. rewrite forallb_forall in Hd.
    apply midline_ext; unfold m_explicit; cbn [ml_ext ml_noext ml_central ml_unknown ml_mixing ml_midext ml_evo ml_symL]; rewrite ?HsL.
    - apply bi_fin_sk; try assumption; [apply sk_mid_ext, Hsk | apply m_ok_ext, H1 | apply Hd, m_ok_ext, H1].
    - apply bi_fin_sk; try assumption; [apply sk_mid_noext, Hsk | apply m_ok_noext, H1 | apply Hd, m_ok_noext, H1].
    - pose proof (f_equal ml_central Hsk) as Hc. cbn in Hc. destruct (ml_central m2) as [c2|], (ml_central m1) as [c1|] eqn:E1; cbn in Hc; try discriminate; [|reflexivity].
      cbn [option_map]. f_equal. apply bi_fin_sk; try assumption; [congruence | apply m_ok_central, E1 | apply Hd, m_ok_central, E1].
    - pose proof (f_equal ml_unknown Hsk) as Hk. cbn in Hk. destruct (ml_unknown m2) as [k2|], (ml_unknown m1) as [k1|] eqn:E1; cbn in Hk; try discriminate; [|reflexivity].
      cbn [option_map]. f_equal. apply bi_ds_sk; [congruence | apply Hd, m_ok_unknown, E1].
    - pose proof (f_equal ml_mixing Hsk) as Hm. cbn in Hm. destruct mixo; [reflexivity|].
      unfold tumor_vals in Htv. destruct (all_unit (vTi m1 v)); [|discriminate]. destruct (all_unit (vTc m1 v)); [|discriminate].
      destruct (ml_mixing m1) eqn:E1; [destruct (check_unit _); discriminate|]. destruct (ml_mixing m2); [discriminate | reflexivity].
    - reflexivity.
    - exact (f_equal ml_evo Hsk).
    - reflexivity.
  Qed.
End MidAbsorb2.

Section MidTheorems2.
  Hypothesis HN : mid_names_nodup_stmt.

  Theorem mid_full_assignment_absorbing : C12_mid_full_assignment_absorbing_stmt.
  Proof.
    intros m1 m2 v H1 Hsk12 Hl Hacc. pose proof (eq_sym Hsk12) as Hsk.
    assert (Hlv : length (vals v) = length (m_items m1)) by (rewrite vals_length; exact Hl).
    pose proof (m_names_ok_sk m2 m1 Hsk H1) as H2. pose proof (m_names_sk m2 m1 H1 Hsk) as Hn.
    pose proof (Hl2 m1 m2 (vals v) H1 Hsk Hlv) as Hlv2.
    assert (Hacc2 : m_accepts m2 (vals v) = true) by (rewrite (m_accepts_sk HN m1 m2 (vals v) H1 Hsk Hlv); exact Hacc).
    destruct (m_set_accept m1 (vals v) H1 HN Hlv Hacc) as (q & qTi & qTc & qTe & mixo & qLi & qLc & Hset1 & Htv & Hlnl & Hq & Hd).
    destruct (m_set_accept m2 (vals v) H2 HN Hlv2 Hacc2) as (q' & qTi' & qTc' & qTe' & mixo' & qLi' & qLc' & Hset2 & Htv' & Hlnl' & Hq' & _).
    rewrite (tumor_vals_sk m1 m2 (vals v) H1 Hsk), Htv in Htv'. injection Htv' as <- <- <- <-.
    rewrite (lnl_vals_sk m1 m2 (vals v) H1 Hsk), Hlnl in Hlnl'. injection Hlnl' as <- <-.
    rewrite (LV_sk m1 m2 (vals v) H1 Hsk), Hq in Hq'. injection Hq' as <-.
    unfold mkw in Hset1, Hset2. rewrite Hn in Hset2. unfold kw_of. rewrite Hset1, Hset2. split; [|reflexivity].
    f_equal. symmetry. apply (m_explicit_sk m1 m2 (vals v) H1 Hsk); assumption.
  Qed.

  Lemma after_given_mid R (lik : model -> R) np m gs : exists m1, after_given R lik np (MMid m) gs = MMid m1 /\ sk_mid m1 = sk_mid m.
  Proof.
    pose proof (config_preserved R lik np (MMid m) gs) as H. unfold same_config in H.
    destruct (after_given R lik np (MMid m) gs) as [u1|b1|ml|h]; cbn [sk_model] in H; try discriminate.
    apply MMid_inj in H. exists ml. split; [reflexivity | exact H].
  Qed.

  Theorem mid_rejected_then_valid : C12_mid_rejected_then_valid_stmt.
  Proof.
    intros R lik m m0 gs v g H Hcfg Hl Hacc Hg.
    destruct (after_given_mid R lik None m gs) as (m1 & -> & Hsk1).
    unfold same_config in Hcfg. cbn [sk_model] in Hcfg. apply MMid_inj in Hcfg. rename Hcfg into Hsk0.
    pose proof (m_names_ok_sk m1 m Hsk1 H) as H1. pose proof (m_names_ok_sk m0 m (eq_sym Hsk0) H) as H0.
    pose proof (m_names_sk m1 m H Hsk1) as Hn1. pose proof (m_names_sk m0 m H (eq_sym Hsk0)) as Hn0.
    assert (Hlen : length (vals v) = length (m_names m)) by (rewrite vals_length, m_names_length; exact Hl).
    rewrite (likelihood_both_forms R lik None (MMid m1) (m_names m) (vals v) g);
      [| unfold named_params; rewrite (param_names_mid HN m1 H1), Hn1; reflexivity | apply (HN m H) | exact Hlen | exact Hg].
    rewrite (likelihood_both_forms R lik None (MMid m0) (m_names m) (vals v) g);
      [| unfold named_params; rewrite (param_names_mid HN m0 H0), Hn0; reflexivity | apply (HN m H) | exact Hlen | exact Hg].
    cbn [set_params]. fold (kw_of (m_names m) v).
    destruct (mid_full_assignment_absorbing m m1 v H (eq_sym Hsk1) Hl Hacc) as [E1 _].
    destruct (mid_full_assignment_absorbing m m0 v H Hsk0 Hl Hacc) as [E0 _].
    rewrite <- E1, <- E0. reflexivity.
  Qed.
End MidTheorems2.
