(** BilateralProofs: proofs of the C03 statements and of the bilateral C02
    statements of BiStatements.v.  The matrix products of the bilateral model
    ([ipsi_evo.T @ diag(pmf) @ contra_evo], [fast_trace], [O_i.T @ sd @ O_c], the
    Hadamard/outer product of the posterior) are reduced entry-wise to the per-state
    specifications through "tabulate" lemmas for [matmul], [transpose_w], [diag],
    [fast_trace], [outer] and [hadamard]. *)
From LymphModel Require Import Base States Linalg Graph Transition Observation Dist Unilateral UniStatements
  Models Bilateral Midline BiStatements
  TransitionProofs ObservationProofs PriorProofs LikelihoodProofs PosteriorProofs.
Local Open Scope nat_scope.
Open Scope Qc_scope.

(** * Tabulate lemmas *)
Lemma tab2_ext {A B} (f g : A -> B -> Qc) LA LB :
  (forall a b, In a LA -> In b LB -> f a b = g a b) -> tab2 f LA LB = tab2 g LA LB.
Proof.
  intros H. unfold tab2. apply map_ext_in. intros a Ha. apply map_ext_in. intros b Hb. apply H; assumption.
Qed.

Lemma msum_tab2 {A B} (f : A -> B -> Qc) LA LB :
  msum (tab2 f LA LB) = sumQ (map (fun a => sumQ (map (fun b => f a b) LB)) LA).
Proof. unfold msum, tab2. rewrite map_map. reflexivity. Qed.

Lemma ncols_tab2 {B C} (g : B -> C -> Qc) LB LC : LB <> [] -> ncols (tab2 g LB LC) = length LC.
Proof. destruct LB as [|b LB]; [congruence|]. intros _. unfold tab2. cbn [map ncols]. apply map_length. Qed.

(** [A @ B] for matrices given entry-wise; the inner index list must be non-empty
    because a list of zero rows forgets its width *)
Lemma matmul_tab {A B C} (f : A -> B -> Qc) (g : B -> C -> Qc) LA LB LC : LB <> [] ->
  matmul (tab2 f LA LB) (tab2 g LB LC)
  = tab2 (fun a c => sumQ (map (fun b => f a b * g b c) LB)) LA LC.
Proof.
  intros H. unfold matmul. rewrite (ncols_tab2 g LB LC H). unfold tab2.
  rewrite (map_map (fun a => map (f a) LB)). apply map_ext. intros a.
  rewrite vecmat_w_tab, combine_map_r. apply map_ext. intros c. rewrite map_map. reflexivity.
Qed.

Lemma transpose_w_tab {A B} (f : A -> B -> Qc) LA LB :
  transpose_w (length LB) (tab2 f LA LB) = tab2 (fun b a => f a b) LB LA.
Proof.
  unfold transpose_w, tab2. induction LB as [|b LB IH]; cbn [length seq]; [reflexivity|].
  cbn [map]. f_equal.
  - unfold mcol. rewrite map_map. reflexivity.
  - rewrite <- seq_shift, map_map, <- IH. apply map_ext. intros j.
    unfold mcol. rewrite !map_map. reflexivity.
Qed.

Lemma diag_tab (pm : vec) :
  diag pm = tab2 (fun i j => if Nat.eqb i j then nth i pm 0 else 0) (seq 0 (length pm)) (seq 0 (length pm)).
Proof. reflexivity. Qed.

Lemma outer_tab {A B} (f : A -> Qc) (g : B -> Qc) LA LB :
  outer (map f LA) (map g LB) = tab2 (fun a b => f a * g b) LA LB.
Proof.
  unfold outer, tab2. rewrite map_map. apply map_ext. intros a. apply vscale_map.
Qed.

Lemma hadamard_tab {A B} (f g : A -> B -> Qc) LA LB :
  hadamard (tab2 f LA LB) (tab2 g LA LB) = tab2 (fun a b => f a b * g a b) LA LB.
Proof.
  unfold hadamard, tab2. rewrite map2_map_map. apply map_ext. intros a.
  unfold vmul. apply map2_map_map.
Qed.

(** [fast_trace] pairs row p of the left factor with column p of the right factor *)
Lemma fast_trace_tab_gen {P X} (f : P -> X -> Qc) (g : X -> P -> Qc) (S' : list X) : forall (D pre : list P),
  map (fun '(k, row) => dot row (mcol (tab2 g S' (pre ++ D)) k))
      (combine (seq (length pre) (length D)) (tab2 f D S'))
  = map (fun p => sumQ (map (fun x => f p x * g x p) S')) D.
Proof.
  induction D as [|p D IH]; intros pre; [reflexivity|].
  cbn [length seq tab2 map combine]. f_equal.
  - unfold mcol, tab2. rewrite map_map, dot_map_l. apply sumQ_map_ext. intros x _.
    rewrite map_app. cbn [map]. rewrite <- (map_length (g x) pre), nth_middle. reflexivity.
  - specialize (IH (pre ++ [p])). rewrite <- app_assoc in IH. cbn [app] in IH.
    rewrite app_length in IH. cbn [length] in IH. rewrite Nat.add_1_r in IH. exact IH.
Qed.
Lemma fast_trace_tab {P X} (f : P -> X -> Qc) (g : X -> P -> Qc) (D : list P) (S' : list X) :
  fast_trace (tab2 f D S') (tab2 g S' D) = map (fun p => sumQ (map (fun x => f p x * g x p) S')) D.
Proof.
  unfold fast_trace. replace (length (tab2 f D S')) with (length D) by (unfold tab2; rewrite map_length; reflexivity).
  exact (fast_trace_tab_gen f g S' D []).
Qed.

(** * Sums over the diagnosis times *)
Lemma combine_seq_nth (pm : vec) : forall a,
  combine (seq a (length pm)) pm = map (fun t => (t, nth (t - a) pm 0)) (seq a (length pm)).
Proof.
  induction pm as [|w pm IH]; intros a; cbn [length seq combine map]; [reflexivity|].
  rewrite Nat.sub_diag. cbn [nth]. f_equal. rewrite IH. apply map_ext_in. intros t Ht.
  apply in_seq in Ht. replace (t - a)%nat with (S (t - S a)) by lia. reflexivity.
Qed.

Lemma sum_combine_seq (F : nat -> Qc -> Qc) (pm : vec) n : length pm = n ->
  sumQ (map (fun '(t, w) => F t w) (combine (seq 0 n) pm))
  = sumQ (map (fun t => F t (nth t pm 0)) (seq 0 n)).
Proof.
  intros <-. rewrite combine_seq_nth, map_map. apply sumQ_map_ext. intros t _.
  rewrite Nat.sub_0_r. reflexivity.
Qed.

Lemma sum_delta_out (H : nat -> Qc) t0 : forall n a, (t0 < a)%nat ->
  sumQ (map (fun t => if Nat.eqb t t0 then H t else 0) (seq a n)) = 0.
Proof.
  induction n as [|n IH]; intros a Ha; cbn [seq map sumQ]; [reflexivity|].
  rewrite IH by lia. destruct (Nat.eqb_spec a t0); [lia|ring].
Qed.
Lemma sum_delta (H : nat -> Qc) t0 : forall n a, (a <= t0 < a + n)%nat ->
  sumQ (map (fun t => if Nat.eqb t t0 then H t else 0) (seq a n)) = H t0.
Proof.
  induction n as [|n IH]; intros a Ha; [lia|]. cbn [seq map sumQ].
  destruct (Nat.eqb_spec a t0) as [E|E].
  - subst a. rewrite sum_delta_out by lia. ring.
  - rewrite IH by lia. ring.
Qed.

Lemma bi_joint_spec_nth b pm xi xc : length pm = S (u_maxt (b_ipsi b)) ->
  bi_joint_spec b pm xi xc
  = sumQ (map (fun t => nth t pm 0 * evo_spec (u_graph (b_ipsi b)) t xi * evo_spec (u_graph (b_contra b)) t xc)
              (seq 0 (S (u_maxt (b_ipsi b))))).
Proof.
  intros Hlen. unfold bi_joint_spec.
  exact (sum_combine_seq (fun t w => w * evo_spec (u_graph (b_ipsi b)) t xi * evo_spec (u_graph (b_contra b)) t xc)
           pm _ Hlen).
Qed.
Lemma prior_spec_nth u pm x : length pm = S (u_maxt u) ->
  prior_spec u pm x = sumQ (map (fun t => nth t pm 0 * evo_spec (u_graph u) t x) (seq 0 (S (u_maxt u)))).
Proof.
  intros Hlen. unfold prior_spec.
  exact (sum_combine_seq (fun t w => w * evo_spec (u_graph u) t x) pm _ Hlen).
Qed.

(** * Well-formedness *)
Lemma wf_bi_parts b : wf_bilateral b = true ->
  wf_uni (b_ipsi b) = true /\ wf_uni (b_contra b) = true /\
  u_maxt (b_ipsi b) = u_maxt (b_contra b) /\ u_base (b_ipsi b) = u_base (b_contra b).
Proof. unfold wf_bilateral. rewrite !andb_true_iff, !Nat.eqb_eq. tauto. Qed.

Lemma u_states_length u : length (u_states u) = nstates u.
Proof. unfold u_states, state_list, nstates, u_base, u_n. apply all_states_length. Qed.

Lemma u_states_nonempty u : wf_graphb (u_graph u) = true -> u_states u <> [].
Proof.
  intros Hwf E. pose proof (u_states_length u) as H. rewrite E in H. cbn [length] in H.
  unfold nstates in H. symmetry in H. revert H. apply Nat.pow_nonzero.
  unfold u_base. destruct (wfb_base _ Hwf); lia.
Qed.

Lemma state_dist_evo_tab2 u : wf_graphb (u_graph u) = true ->
  state_dist_evo u = tab2 (evo_spec (u_graph u)) (seq 0 (S (u_maxt u))) (u_states u).
Proof. intros Hwf. exact (state_dist_evo_tab u transition_entries Hwf). Qed.

(** * C03: the joint prior *)
Lemma joint_of_evos_tab (fi fc : nat -> state -> Qc) (Si Sc : list state) (pm : vec) n :
  length pm = S n ->
  joint_of_evos (length Si) (tab2 fi (seq 0 (S n)) Si) pm (tab2 fc (seq 0 (S n)) Sc)
  = tab2 (fun xi xc => sumQ (map (fun t => nth t pm 0 * fi t xi * fc t xc) (seq 0 (S n)))) Si Sc.
Proof.
  intros Hlen. unfold joint_of_evos.
  assert (HT : seq 0 (S n) <> []) by (cbn [seq]; discriminate).
  rewrite transpose_w_tab, diag_tab, Hlen, matmul_tab by exact HT. rewrite matmul_tab by exact HT.
  apply tab2_ext. intros xi xc _ _. apply sumQ_map_ext. intros t' Ht'.
  rewrite (sumQ_map_ext _ (fun t => if Nat.eqb t t' then fi t xi * nth t pm 0 else 0)).
  2:{ intros t _. destruct (Nat.eqb t t'); ring. }
  rewrite sum_delta by (apply in_seq in Ht'; lia). ring.
Qed.

Lemma bi_joint_spec_correct : C03_joint_spec_stmt.
Proof.
  intros b t pm Hwf Hpm Hlen. destruct (wf_bi_parts b Hwf) as (Hi & Hc & Hmt & Hb).
  pose proof (wf_uni_graph _ Hi) as Hgi. pose proof (wf_uni_graph _ Hc) as Hgc.
  unfold bi_state_dist. rewrite Hpm. cbn [bind]. f_equal.
  rewrite (state_dist_evo_tab2 _ Hgi), (state_dist_evo_tab2 _ Hgc), <- Hmt, <- u_states_length.
  rewrite (joint_of_evos_tab _ _ _ _ pm _ Hlen).
  apply tab2_ext. intros xi xc _ _. symmetry. apply bi_joint_spec_nth. exact Hlen.
Qed.

Lemma evo_sum1 g t : wf_graphb g = true -> sumQ (map (evo_spec g t) (state_list g)) = 1.
Proof. exact (evo_sum_one row_sums g t). Qed.

Lemma sumQ_nth_seq (pm : vec) : sumQ (map (fun t => nth t pm 0) (seq 0 (length pm))) = sumQ pm.
Proof. rewrite map_nth_seq. reflexivity. Qed.

Lemma bi_joint_sums_to_one : C03_joint_sums_to_one_stmt.
Proof.
  intros b pm Hwf Hlen Hsum. destruct (wf_bi_parts b Hwf) as (Hi & Hc & Hmt & Hb).
  pose proof (wf_uni_graph _ Hi) as Hgi. pose proof (wf_uni_graph _ Hc) as Hgc.
  rewrite msum_tab2.
  rewrite (sumQ_map_ext _ (fun xi => sumQ (map (fun t =>
             nth t pm 0 * evo_spec (u_graph (b_ipsi b)) t xi) (seq 0 (S (u_maxt (b_ipsi b))))))).
  2:{ intros xi _.
      rewrite (sumQ_map_ext _ (fun xc => sumQ (map (fun t =>
                 nth t pm 0 * evo_spec (u_graph (b_ipsi b)) t xi * evo_spec (u_graph (b_contra b)) t xc)
                 (seq 0 (S (u_maxt (b_ipsi b)))))))
        by (intros xc _; apply bi_joint_spec_nth; exact Hlen).
      rewrite sumQ_swap. apply sumQ_map_ext. intros t _.
      rewrite sumQ_map_scale. unfold u_states. rewrite (evo_sum1 _ t Hgc). ring. }
  rewrite sumQ_swap.
  rewrite (sumQ_map_ext _ (fun t => nth t pm 0)).
  2:{ intros t _. rewrite sumQ_map_scale. unfold u_states. rewrite (evo_sum1 _ t Hgi). ring. }
  rewrite <- Hlen, sumQ_nth_seq. exact Hsum.
Qed.

(** * C03: per-patient likelihoods *)
Definition bselect (data : list bpatient) (t : option string) : list bpatient :=
  match t with None => data | Some ts => filter (fun p => str_eqb (bp_t p) ts) data end.

Lemma filter_map {A B} (f : B -> bool) (g : A -> B) l : filter f (map g l) = map g (filter (fun a => f (g a)) l).
Proof.
  induction l as [|a l IH]; cbn [map filter]; [reflexivity|]. rewrite IH. destruct (f (g a)); reflexivity.
Qed.
Lemma select_ipsi data t : select (map ipsi_patient data) t = map ipsi_patient (bselect data t).
Proof. destruct t as [ts|]; cbn [select bselect]; [|reflexivity]. apply filter_map. Qed.
Lemma select_contra data t : select (map contra_patient data) t = map contra_patient (bselect data t).
Proof. destruct t as [ts|]; cbn [select bselect]; [|reflexivity]. apply filter_map. Qed.

Lemma wf_bdata_ipsi data : forallb wf_bpatient data = true -> forallb wf_patient (map ipsi_patient data) = true.
Proof.
  intros H. apply forallb_forall. intros p Hp. apply in_map_iff in Hp. destruct Hp as [q [<- Hq]].
  rewrite forallb_forall in H. specialize (H q Hq). unfold wf_bpatient in H. apply andb_true_iff in H. tauto.
Qed.
Lemma wf_bdata_contra data : forallb wf_bpatient data = true -> forallb wf_patient (map contra_patient data) = true.
Proof.
  intros H. apply forallb_forall. intros p Hp. apply in_map_iff in Hp. destruct Hp as [q [<- Hq]].
  rewrite forallb_forall in H. specialize (H q Hq). unfold wf_bpatient in H. apply andb_true_iff in H. tauto.
Qed.

Lemma bi_patient_likelihoods : C03_patient_likelihoods_stmt.
Proof.
  intros b data t joint Hwf Hdata. destruct (wf_bi_parts b Hwf) as (Hi & Hc & Hmt & Hb).
  pose proof (wf_uni_graph _ Hc) as Hgc.
  unfold bi_llhs_of_joint.
  rewrite (diagnosis_matrix_entry observation_entries _ _ t Hi (wf_bdata_ipsi _ Hdata)).
  rewrite (diagnosis_matrix_entry observation_entries _ _ t Hc (wf_bdata_contra _ Hdata)).
  cbn [bind]. f_equal. rewrite select_ipsi, select_contra, !map_map.
  fold (bselect data t). set (D := bselect data t).
  change (map (fun x => map (findings_prob (b_ipsi b) (ipsi_patient x)) (u_states (b_ipsi b))) D)
    with (tab2 (fun p x => findings_prob (b_ipsi b) (ipsi_patient p) x) D (u_states (b_ipsi b))).
  change (map (fun x => map (findings_prob (b_contra b) (contra_patient x)) (u_states (b_contra b))) D)
    with (tab2 (fun p x => findings_prob (b_contra b) (contra_patient p) x) D (u_states (b_contra b))).
  rewrite <- u_states_length, transpose_w_tab, matmul_tab by (apply u_states_nonempty; exact Hgc).
  rewrite fast_trace_tab. apply map_ext. intros p. unfold bi_patient_lik_spec.
  apply sumQ_map_ext. intros xi _. rewrite <- sumQ_map_scale. apply sumQ_map_ext. intros xc _. ring.
Qed.

(** * C03: nothing recorded on the contralateral side *)
Lemma findings_prob_unrecorded u p x :
  (forall m pat l, diag_get m (p_find p) = Some pat -> pat_get l pat = None) -> findings_prob u p x = 1.
Proof.
  intros H. unfold findings_prob.
  rewrite (prodQ_map_ext _ (fun _ => 1)); [apply prodQ_map_one|].
  intros [name m] _. destruct (diag_get name (p_find p)) as [pat|] eqn:E; [|reflexivity].
  rewrite (prodQ_map_ext _ (fun _ => 1)); [apply prodQ_map_one|].
  intros [l s] _. rewrite (H name pat l E). reflexivity.
Qed.

Lemma contra_unknown_reduces : C03_contra_unknown_reduces_stmt.
Proof.
  intros b t pm p Hwf _ _ Hlen Hun. destruct (wf_bi_parts b Hwf) as (Hi & Hc & Hmt & Hb).
  pose proof (wf_uni_graph _ Hc) as Hgc.
  unfold bi_patient_lik_spec, patient_lik_spec. apply sumQ_map_ext. intros xi _.
  rewrite (sumQ_map_ext _ (fun xc => findings_prob (b_ipsi b) (ipsi_patient p) xi * sumQ (map (fun t =>
             nth t pm 0 * evo_spec (u_graph (b_ipsi b)) t xi * evo_spec (u_graph (b_contra b)) t xc)
             (seq 0 (S (u_maxt (b_ipsi b))))))).
  2:{ intros xc _. rewrite (findings_prob_unrecorded (b_contra b) (contra_patient p) xc) by exact Hun.
      rewrite (bi_joint_spec_nth b pm xi xc Hlen). ring. }
  rewrite sumQ_map_scale, sumQ_swap, (prior_spec_nth _ pm xi Hlen).
  rewrite (sumQ_map_ext _ (fun t => nth t pm 0 * evo_spec (u_graph (b_ipsi b)) t xi)).
  2:{ intros t0 _. rewrite sumQ_map_scale. unfold u_states. rewrite (evo_sum1 _ t0 Hgc). ring. }
  ring.
Qed.

(** * C03: a single diagnosis time, the Bayesian network, the observation distribution *)
Lemma single_time_factorises : C03_single_time_factorises_stmt.
Proof.
  intros b pm t0 xi xc Hlen Ht0 Hpm. rewrite (bi_joint_spec_nth b pm xi xc Hlen).
  rewrite (sumQ_map_ext _ (fun t => if Nat.eqb t t0
             then evo_spec (u_graph (b_ipsi b)) t xi * evo_spec (u_graph (b_contra b)) t xc else 0)).
  2:{ intros t _. rewrite Hpm. destruct (Nat.eqb t t0); ring. }
  apply (sum_delta (fun t => evo_spec (u_graph (b_ipsi b)) t xi * evo_spec (u_graph (b_contra b)) t xc)). lia.
Qed.

Lemma bn_is_outer_product : C03_bn_is_outer_product_stmt.
Proof. intros b si sc Hi Hc. unfold bi_state_dist. rewrite Hi, Hc. reflexivity. Qed.

Lemma observation_matrix_tab u : base_ok (u_base u) = true ->
  observation_matrix u
  = tab2 (obs_spec (map snd (u_mods u)) (u_n u) (u_base u)) (u_states u) (u_obs_list u).
Proof.
  intros Hb. unfold observation_matrix. rewrite (observation_entries _ _ _ Hb).
  unfold obs_spec_matrix, u_obs_list. rewrite map_length. reflexivity.
Qed.

Lemma bi_obs_dist_spec : C03_obs_dist_spec_stmt.
Proof.
  intros b joint Hwf. destruct (wf_bi_parts b Hwf) as (Hi & Hc & Hmt & Hb).
  pose proof (wf_uni_graph _ Hi) as Hgi. pose proof (wf_uni_graph _ Hc) as Hgc.
  unfold bi_obs_dist_of. cbv zeta.
  rewrite (observation_matrix_tab _ (wf_uni_base _ Hi)), (observation_matrix_tab _ (wf_uni_base _ Hc)).
  replace (Nat.pow 2 (length (u_mods (b_ipsi b)) * u_n (b_ipsi b))) with (length (u_obs_list (b_ipsi b)))
    by (unfold u_obs_list, obs_list; apply all_states_length).
  rewrite transpose_w_tab.
  rewrite matmul_tab by (apply u_states_nonempty; exact Hgi).
  rewrite matmul_tab by (apply u_states_nonempty; exact Hgc).
  apply tab2_ext. intros zi zc _ _. rewrite sumQ_swap. apply sumQ_map_ext. intros xi _.
  rewrite <- sumQ_map_scale_r. reflexivity.
Qed.

(** * C02 (bilateral): posterior and risk *)
Lemma wf_bpatient_parts di dc :
  wf_bpatient {| bp_t := ""%string; bp_ipsi := di; bp_contra := dc |} = true ->
  wf_patient {| p_tstage := ""%string; p_find := di |} = true /\
  wf_patient {| p_tstage := ""%string; p_find := dc |} = true.
Proof. unfold wf_bpatient. intros H. apply andb_true_iff in H. exact H. Qed.

Lemma bi_posterior_of_spec b (prior : state -> state -> Qc) di dc : wf_bilateral b = true ->
  wf_bpatient {| bp_t := ""%string; bp_ipsi := di; bp_contra := dc |} = true ->
  let J := tab2 (bi_joint_dx b prior di dc) (u_states (b_ipsi b)) (u_states (b_contra b)) in
  bi_posterior_of b (tab2 prior (u_states (b_ipsi b)) (u_states (b_contra b))) di dc
  = if Qc_eqb (msum J) 0 then inr None else inr (Some (map (map (fun a => a / msum J)) J)).
Proof.
  intros Hwf Hp J. destruct (wf_bi_parts b Hwf) as (Hi & Hc & Hmt & Hb).
  destruct (wf_bpatient_parts di dc Hp) as [Hdi Hdc].
  unfold bi_posterior_of.
  rewrite (diagnosis_encoding_spec (b_ipsi b) di Hdi), (diagnosis_encoding_spec (b_contra b) dc Hdc).
  cbn [bind]. cbv zeta.
  pose proof (matvec_compatible (b_ipsi b) {| p_tstage := ""%string; p_find := di |} observation_entries Hi Hdi) as Ei.
  pose proof (matvec_compatible (b_contra b) {| p_tstage := ""%string; p_find := dc |} observation_entries Hc Hdc) as Ec.
  cbn [p_find] in Ei, Ec. rewrite Ei, Ec, outer_tab, hadamard_tab.
  assert (EJ : tab2 (fun a b0 =>
                 findings_prob (b_ipsi b) {| p_tstage := ""%string; p_find := di |} a
                 * findings_prob (b_contra b) {| p_tstage := ""%string; p_find := dc |} b0 * prior a b0)
                 (u_states (b_ipsi b)) (u_states (b_contra b)) = J).
  { apply tab2_ext. intros xi xc _ _. unfold bi_joint_dx. ring. }
  rewrite EJ. reflexivity.
Qed.

Lemma bi_posterior_bayes : C02_bi_posterior_bayes_stmt.
Proof.
  intros b prior di dc post Hwf Hp H. rewrite (bi_posterior_of_spec b prior di dc Hwf Hp) in H.
  cbv zeta in *.
  destruct (Qc_eqb (msum (tab2 (bi_joint_dx b prior di dc) (u_states (b_ipsi b)) (u_states (b_contra b)))) 0) eqn:E;
    [discriminate|].
  inversion H. split; [exact (Qc_eqb_false _ _ E)|reflexivity].
Qed.

Lemma msum_scale (M : mat) z : z <> 0 -> msum M = z -> msum (map (map (fun a => a / z)) M) = 1.
Proof.
  intros Hz HM. unfold msum. rewrite map_map.
  rewrite (sumQ_map_ext _ (fun r => sumQ r * / z)).
  2:{ intros r _. unfold Qcdiv. rewrite sumQ_map_scale_r, map_id. reflexivity. }
  rewrite sumQ_map_scale_r. fold (msum M). rewrite HM. apply Qcmult_inv_r. exact Hz.
Qed.

Lemma bi_posterior_sum_one : C02_bi_posterior_sum_one_stmt.
Proof.
  intros b prior di dc post H. unfold bi_posterior_of in H.
  destruct (diagnosis_encoding (b_ipsi b) di) as [e|ei]; cbn [bind] in H; [discriminate|].
  destruct (diagnosis_encoding (b_contra b) dc) as [e|ec]; cbn [bind] in H; [discriminate|].
  cbv zeta in H.
  set (joint := hadamard _ prior) in H.
  destruct (Qc_eqb (sumQ (map sumQ joint)) 0) eqn:E; [discriminate|].
  inversion H. apply msum_scale; [exact (Qc_eqb_false _ _ E)|reflexivity].
Qed.

Lemma bi_risk_bayes : C02_bi_risk_bayes_stmt.
Proof.
  intros b post ii ic r Hwf Hr. destruct (wf_bi_parts b Hwf) as (Hi & Hc & Hmt & Hb).
  unfold bi_marginalize_of in Hr.
  destruct (compute_encoding (u_lnls (b_ipsi b)) ii (u_base (b_ipsi b))) as [ei|] eqn:Ei; [|discriminate].
  destruct (compute_encoding (u_lnls (b_contra b)) ic (u_base (b_ipsi b))) as [ec|] eqn:Ec; [|discriminate].
  inversion Hr as [Hr']. clear Hr Hr'.
  rewrite (encoding_spec _ _ _ _ (wf_uni_base _ Hi) (wf_uni_lnls _ Hi) Ei).
  assert (Hbc : base_ok (u_base (b_ipsi b)) = true) by exact (wf_uni_base _ Hi).
  rewrite (encoding_spec _ _ _ _ Hbc (wf_uni_lnls _ Hc) Ec).
  change (all_states (u_base (b_ipsi b)) (length (u_lnls (b_ipsi b)))) with (u_states (b_ipsi b)).
  replace (all_states (u_base (b_ipsi b)) (length (u_lnls (b_contra b)))) with (u_states (b_contra b))
    by (rewrite Hb; reflexivity).
  rewrite !map_length, !map_map. unfold tab2.
  rewrite vecmat_w_tab, combine_map_r, dot_map_l, sumQ_swap.
  apply sumQ_map_ext. intros xc _. rewrite map_map, <- sumQ_map_scale_r. apply sumQ_map_ext. intros xi _.
  destruct (matches_pattern (u_lnls (b_ipsi b)) ii (u_base (b_ipsi b)) xi),
           (matches_pattern (u_lnls (b_contra b)) ic (u_base (b_ipsi b)) xc); cbn [b2q andb]; ring.
Qed.

(** * Example objects for the non-vacuity checks of properties/C03.v and C02_bilateral.v
    ipsilateral side: the trinary two-modality model [C01_ex_uni] (T -> II, T -> III,
    III -> II against the listing order, growth arcs); contralateral side: the same
    topology with weaker tumor spread; same modalities, distributions and max_time. *)
Definition C03_ex_contra_graph : graph :=
  set_edges (force_graph (build_graph 3
      [(("tumor", "T"), CList ["II"; "III"]); (("lnl", "II"), CList []); (("lnl", "III"), CList ["II"])]%string))
    [("TtoII", (qc 1 10, 1)); ("TtoIII", (qc 1 20, 1)); ("IIItoII", (qc 1 3, qc 1 2));
     ("II", (qc 1 5, 1)); ("III", (qc 2 5, 1))]%string.
Definition C03_ex_contra : uni :=
  {| u_graph := C03_ex_contra_graph; u_mods := u_mods C01_ex_uni; u_dists := u_dists C01_ex_uni; u_maxt := 2 |}.
Definition C03_ex_bi : bilateral :=
  {| b_ipsi := C01_ex_uni; b_contra := C03_ex_contra; b_symT := false; b_symL := true |}.
(** findings on both sides / nothing recorded on the contralateral side *)
Definition C03_ex_p1 : bpatient :=
  {| bp_t := "late";
     bp_ipsi := [("CT", [("II", Some IInvolved); ("III", Some IHealthy)]);
                 ("path", [("II", None); ("III", Some IInvolved)])];
     bp_contra := [("CT", [("II", Some IHealthy)])] |}%string.
Definition C03_ex_p2 : bpatient :=
  {| bp_t := "late"; bp_ipsi := [("CT", [("II", Some IHealthy)])]; bp_contra := [("path", [("II", None)])] |}%string.
Definition C03_ex_data : list bpatient :=
  [ C03_ex_p1;
    {| bp_t := "early"; bp_ipsi := []; bp_contra := [("path", [("III", Some IInvolved)])] |};
    C03_ex_p2 ]%string.
(** the binomial(p = 1/3) "late" time prior *)
Definition C03_ex_pm : vec := [qc 4 9; qc 4 9; qc 1 9].
Definition C03_ex_joint : mat :=
  match bi_state_dist C03_ex_bi "late" true with inr J => J | inl _ => [] end.
Definition C03_ex_post : mat :=
  match bi_posterior_of C03_ex_bi C03_ex_joint (bp_ipsi C03_ex_p1) (bp_contra C03_ex_p1) with
  | inr (Some p) => p
  | _ => []
  end.
(** binary bilateral model (both sides the binary graph of PriorProofs.v) for the Bayesian network *)
Definition C03_ex_bin_bi : bilateral :=
  let u := {| u_graph := C07_ex_bin_graph; u_mods := u_mods C01_ex_uni; u_dists := []; u_maxt := 2 |} in
  {| b_ipsi := u; b_contra := u; b_symT := true; b_symL := true |}.
