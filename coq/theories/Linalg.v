(** Linalg: list-structural counterparts of the numpy operations that lymph
    uses (row-major [list (list Qc)] matrices): vector-matrix and matrix-matrix
    products, transpose, Kronecker products, [row_wise_kron], element-wise maps,
    [diag], [outer], [fast_trace].  Executable definitions only plus the
    "tabulate" lemmas that let proofs reason entry-wise. *)
From LymphModel Require Import Base States.
Local Open Scope nat_scope.
Open Scope Qc_scope.

Definition vec := list Qc.
Definition mat := list (list Qc).

(** element-wise zips *)
Fixpoint map2 {A B C} (f : A -> B -> C) (la : list A) (lb : list B) : list C :=
  match la, lb with a :: la', b :: lb' => f a b :: map2 f la' lb' | _, _ => [] end.
Fixpoint map3 {A B C D} (f : A -> B -> C -> D) (la : list A) (lb : list B) (lc : list C) : list D :=
  match la, lb, lc with a :: la', b :: lb', c :: lc' => f a b c :: map3 f la' lb' lc' | _, _, _ => [] end.

Lemma map2_map_map {X A B C} (f : A -> B -> C) (g : X -> A) (h : X -> B) l :
  map2 f (map g l) (map h l) = map (fun x => f (g x) (h x)) l.
Proof. induction l as [|x l IH]; cbn [map map2]; [reflexivity|]. rewrite IH. reflexivity. Qed.
Lemma map3_map_map_map {X A B C D} (f : A -> B -> C -> D) (g : X -> A) (h : X -> B) (k : X -> C) l :
  map3 f (map g l) (map h l) (map k l) = map (fun x => f (g x) (h x) (k x)) l.
Proof. induction l as [|x l IH]; cbn [map map3]; [reflexivity|]. rewrite IH. reflexivity. Qed.
Lemma map2_length {A B C} (f : A -> B -> C) la lb : length (map2 f la lb) = Nat.min (length la) (length lb).
Proof. revert lb. induction la as [|a la IH]; intros [|b lb]; cbn [map2 length Nat.min]; auto. Qed.

(** vectors *)
Definition vscale (c : Qc) (v : vec) : vec := map (Qcmult c) v.
Definition vadd (u v : vec) : vec := map2 Qcplus u v.
Definition vmul (u v : vec) : vec := map2 Qcmult u v.     (* numpy u * v *)
Definition zeros (n : nat) : vec := repeat 0 n.
Definition ones (n : nat) : vec := repeat 1 n.
Definition onehot0 (n : nat) : vec := match n with O => [] | S n' => 1 :: zeros n' end.

(** matrices *)
Definition mcol (M : mat) (j : nat) : vec := map (fun r => nth j r 0) M.
Definition ncols (M : mat) : nat := match M with [] => O | r :: _ => length r end.
Definition transpose (M : mat) : mat := map (mcol M) (seq 0 (ncols M)).
(** [transpose_w w M]: transpose with an explicit width (numpy keeps the shape of
    an array with zero rows; a list of zero rows forgets its width). *)
Definition transpose_w (w : nat) (M : mat) : mat := map (mcol M) (seq 0 w).
Definition mget (M : mat) (i j : nat) : Qc := nth j (nth i M []) 0.

(** v @ M  (v : length = rows of M) computed as the linear combination of rows *)
Fixpoint vecmat_w (w : nat) (v : vec) (M : mat) : vec :=
  match v, M with
  | a :: v', r :: M' => vadd (vscale a r) (vecmat_w w v' M')
  | _, _ => zeros w
  end.
Definition vecmat (v : vec) (M : mat) : vec := vecmat_w (ncols M) v M.
(** M @ v *)
Definition matvec (M : mat) (v : vec) : vec := map (fun r => dot r v) M.
(** A @ B *)
Definition matmul (A B : mat) : mat := map (fun r => vecmat_w (ncols B) r B) A.
Definition hadamard (A B : mat) : mat := map2 vmul A B.    (* numpy A * B *)
Definition madd (A B : mat) : mat := map2 vadd A B.
Definition mscale (c : Qc) (A : mat) : mat := map (vscale c) A.
Definition diag (v : vec) : mat :=
  map (fun i => map (fun j => if Nat.eqb i j then nth i v 0 else 0) (seq 0 (length v))) (seq 0 (length v)).
Definition outer (u v : vec) : mat := map (fun a => vscale a v) u.

(** Kronecker products: np.kron on 1-D and 2-D arrays *)
Definition kron_vec (u v : vec) : vec := flat_map (fun a => vscale a v) u.
Definition kron_mat (A B : mat) : mat := flat_map (fun ra => map (fun rb => kron_vec ra rb) B) A.
(** utils.row_wise_kron *)
Definition row_wise_kron (A B : mat) : mat := map2 kron_vec A B.
Fixpoint kron_pow (C : mat) (n : nat) : mat :=
  match n with O => [[1]] | S n' => kron_mat (kron_pow C n') C end.

(** matrix.fast_trace(left, right) = np.sum(left.T * right, axis=0):
    entry p = sum_i left[p][i] * right[i][p] *)
Definition fast_trace (left right : mat) : vec :=
  map (fun '(p, row) => dot row (mcol right p)) (combine (seq 0 (length left)) left).

(** boolean vectors (encodings) *)
Definition bvec := list bool.
Definition b2q (b : bool) : Qc := if b then 1 else 0.
Definition kron_bvec (u v : bvec) : bvec := flat_map (fun a => map (andb a) v) u.


(** decidable equality of vectors / matrices (used by the correspondence check to
    cross-check Impl against Spec on the generated cases) *)
Fixpoint vec_eqb (u v : vec) : bool :=
  match u, v with
  | [], [] => true
  | a :: u', b :: v' => Qc_eqb a b && vec_eqb u' v'
  | _, _ => false
  end.
Fixpoint mat_eqb (A B : mat) : bool :=
  match A, B with
  | [], [] => true
  | r :: A', s :: B' => vec_eqb r s && mat_eqb A' B'
  | _, _ => false
  end.
