(** Sync: property C11 -- composite models keep their parts consistent with the
    declared sharing.

    The parameter plumbing is the executable model of Params.v (imported, not
    repeated): [b_set_*], [m_set_*], [h_set_*] on the records [bilateral], [midline],
    [hpvmodel] of Models.v.  This file adds

    - the leaf level of [modalities.Composite] and [diagnosis_times.Composite]
      ([set_modality], [del_modality], [replace_all_modalities], [clear_modalities],
      [set_distribution], [del_distribution], [replace_all_distributions],
      [clear_distributions], the [max_time] setter) and the way a composite forwards
      them to its children ("for child in children.values(): child.op(...)": left to
      right, an exception stops the loop and leaves the earlier children updated);
    - the invariant [consistent] of every composite class;
    - the theorem statements [C11_*_stmt].

    Domain (DESIGN.md section 6): the invariant is claimed after every composite
    setter call that RETURNS NORMALLY.  Setters are not atomic: a call that raises
    half-way leaves a partial update behind ([C11_not_atomic_stmt] is the witness);
    the next complete valid assignment restores the invariant
    ([C11_full_assignment_restores_stmt]).

    Executable definitions and statements only; proofs are in SyncProofs.v. *)
From LymphModel Require Import Base States Linalg Graph Transition Observation Dist Unilateral Models Params ParamsStatements.
Local Open Scope nat_scope.
Local Open Scope string_scope.
Local Open Scope list_scope.

(** * What a leaf holds *)
(** the tumour-spread / LNL-spread parameters of a unilateral model as
    [get_tumor_spread_params()] / [get_lnl_spread_params()] report them: ordered
    (name, value) pairs, names [arc; "spread"|"growth"|"micro"] *)
Definition u_T (u : uni) : list (path * Qc) := u_tumor_items u.
Definition u_L (u : uni) : list (path * Qc) := u_lnl_items u.
(** equal modalities (names, spec, sens, kind, insertion order), equal distributions
    (T-stage names in insertion order, frozen pmf or family + keywords), equal max_time *)
Definition same_config (u1 u2 : uni) : Prop :=
  u_mods u1 = u_mods u2 /\ u_dists u1 = u_dists u2 /\ u_maxt u1 = u_maxt u2.

(** * Leaf operations of the two Composite base classes *)
(** what can be passed as [distribution]: a list of weights, or a parametric family
    with its keyword arguments (a [Distribution] built on the model's max_time) *)
Inductive darg := DWeights (w : vec) | DFam (f : nat) (kws : list (string * Qc)).
Inductive cfgop :=
| CSetModality (name : string) (spec sens : val) (pathological : bool)
| CDelModality (name : string)
| CReplaceModalities (l : list (string * (val * val * bool)))
| CClearModalities
| CSetDistribution (t : string) (d : darg)
| CDelDistribution (t : string)
| CReplaceDistributions (l : list (string * darg))
| CClearDistributions
| CSetMaxTime (v : Z).

Definition u_with_mods (u : uni) (ms : list (string * modality)) : uni :=
  {| u_graph := u_graph u; u_mods := ms; u_dists := u_dists u; u_maxt := u_maxt u |}.
Definition u_with_maxt (u : uni) (m : nat) : uni :=
  {| u_graph := u_graph u; u_mods := u_mods u; u_dists := u_dists u; u_maxt := m |}.
(** del d[k] *)
Fixpoint dict_del {V} (k : string) (d : list (string * V)) : list (string * V) :=
  match d with [] => [] | (k', v) :: r => if str_eqb k k' then r else (k', v) :: dict_del k r end.

(** Modality.__init__: ValueError unless 0 <= spec, sens <= 1 *)
Definition mk_modality (spec sens : val) (pathological : bool) : option modality :=
  match check_unit spec, check_unit sens with
  | Some sp, Some sn => Some {| m_spec := sp; m_sens := sn; m_path := pathological |}
  | _, _ => None
  end.
(** Composite.set_modality in a leaf; [false] = the call raised *)
Definition leaf_set_modality (u : uni) (name : string) (spec sens : val) (p : bool) : uni * bool :=
  match mk_modality spec sens p with
  | None => (u, false)
  | Some m => (u_with_mods u (dict_set name m (u_mods u)), true)
  end.
Fixpoint leaf_set_modalities (u : uni) (l : list (string * (val * val * bool))) : uni * bool :=
  match l with
  | [] => (u, true)
  | (name, (spec, sens, p)) :: r =>
      match leaf_set_modality u name spec sens p with
      | (u', false) => (u', false)
      | (u', true) => leaf_set_modalities u' r
      end
  end.
(** Distribution(distribution, self.max_time) *)
Definition mk_dist (maxt : nat) (d : darg) : option dist :=
  match d with
  | DWeights w => mk_frozen maxt w
  | DFam f kws => match fam_weights f maxt kws with Some _ => Some (Param f kws) | None => None end
  end.
Definition leaf_set_distribution (u : uni) (t : string) (d : darg) : uni * bool :=
  match mk_dist (u_maxt u) d with
  | None => (u, false)
  | Some d' => (u_with_dists u (dict_set t d' (u_dists u)), true)
  end.
Fixpoint leaf_set_distributions (u : uni) (l : list (string * darg)) : uni * bool :=
  match l with
  | [] => (u, true)
  | (t, d) :: r =>
      match leaf_set_distribution u t d with
      | (u', false) => (u', false)
      | (u', true) => leaf_set_distributions u' r
      end
  end.
(** one operation in a leaf; the state is the object as Python leaves it *)
Definition leaf_cfg (o : cfgop) (u : uni) : uni * bool :=
  match o with
  | CSetModality name spec sens p => leaf_set_modality u name spec sens p
  | CDelModality name =>
      match dict_get name (u_mods u) with
      | None => (u, false)                                  (* KeyError *)
      | Some _ => (u_with_mods u (dict_del name (u_mods u)), true)
      end
  | CReplaceModalities l => leaf_set_modalities (u_with_mods u []) l
  | CClearModalities => (u_with_mods u [], true)
  | CSetDistribution t d => leaf_set_distribution u t d
  | CDelDistribution t =>
      match dict_get t (u_dists u) with
      | None => (u, false)                                  (* KeyError *)
      | Some _ => (u_with_dists u (dict_del t (u_dists u)), true)
      end
  | CReplaceDistributions l => leaf_set_distributions (u_with_dists u []) l
  | CClearDistributions => (u_with_dists u [], true)
  | CSetMaxTime v => if (v <? 0)%Z then (u, false) else (u_with_maxt u (Z.to_nat v), true)
  end.

(** * Forwarding to the children, left to right *)
Definition b_cfg (f : uni -> uni * bool) (b : bilateral) : bilateral * bool :=
  match f (b_ipsi b) with
  | (i', false) => (b_with b i' (b_contra b), false)
  | (i', true) => let '(c', ok) := f (b_contra b) in (b_with b i' c', ok)
  end.
Definition opt_cfg (f : uni -> uni * bool) (ob : option bilateral) : option bilateral * bool :=
  match ob with
  | None => (None, true)
  | Some b => let '(b', ok) := b_cfg f b in (Some b', ok)
  end.
(** children of a midline model in dict order: ext, noext, central, unknown *)
Definition m_cfg (f : uni -> uni * bool) (m : midline) : midline * bool :=
  let '(e', ok1) := b_cfg f (ml_ext m) in
  if negb ok1 then (ml_with_models m e' (ml_noext m) (ml_central m) (ml_unknown m), false) else
  let '(n', ok2) := b_cfg f (ml_noext m) in
  if negb ok2 then (ml_with_models m e' n' (ml_central m) (ml_unknown m), false) else
  let '(c', ok3) := opt_cfg f (ml_central m) in
  if negb ok3 then (ml_with_models m e' n' c' (ml_unknown m), false) else
  let '(k', ok4) := opt_cfg f (ml_unknown m) in
  (ml_with_models m e' n' c' k', ok4).
Definition h_cfg (f : uni -> uni * bool) (h : hpvmodel) : hpvmodel * bool :=
  match f (h_hpv h) with
  | (p', false) => (h_with h p' (h_nohpv h), false)
  | (p', true) => let '(n', ok) := f (h_nohpv h) in (h_with h p' n', ok)
  end.

(** * The parameter setters as one alphabet, per class *)
Definition b_call (s : setter) (b : bilateral) (a : args) (kw : kwargs) : bilateral * option args :=
  match s with
  | SetParams => b_set_params b a kw | SetTumorSpread => b_set_tumor_spread_params b a kw
  | SetLnlSpread => b_set_lnl_spread_params b a kw | SetSpread => b_set_spread_params b a kw
  | SetDist => b_set_distribution_params b a kw
  end.
Definition m_call (s : setter) (m : midline) (a : args) (kw : kwargs) : midline * option args :=
  match s with
  | SetParams => m_set_params m a kw | SetTumorSpread => m_set_tumor_spread_params m a kw
  | SetLnlSpread => m_set_lnl_spread_params m a kw | SetSpread => m_set_spread_params m a kw
  | SetDist => m_set_distribution_params m a kw
  end.
Definition h_call (s : setter) (h : hpvmodel) (a : args) (kw : kwargs) : hpvmodel * option args :=
  match s with
  | SetParams => h_set_params h a kw | SetTumorSpread => h_set_tumor_spread_params h a kw
  | SetLnlSpread => h_set_lnl_spread_params h a kw | SetSpread => h_set_spread_params h a kw
  | SetDist => h_set_distribution_params h a kw
  end.
Definition touches_dists (s : setter) : bool := match s with SetParams | SetDist => true | _ => false end.

(** * The invariant *)
(** ** Bilateral *)
Definition b_shared (b : bilateral) : Prop :=
  (b_symT b = true -> u_T (b_contra b) = u_T (b_ipsi b)) /\
  (b_symL b = true -> u_L (b_contra b) = u_L (b_ipsi b)).
Definition b_same_config (b : bilateral) : Prop := same_config (b_contra b) (b_ipsi b).
Definition b_consistent (b : bilateral) : Prop := b_shared b /\ b_same_config b.

(** ** Midline *)
Definition ext_i (m : midline) : uni := b_ipsi (ml_ext m).
Definition ext_c (m : midline) : uni := b_contra (ml_ext m).
Definition noext_i (m : midline) : uni := b_ipsi (ml_noext m).
Definition noext_c (m : midline) : uni := b_contra (ml_noext m).
Definition opt_leaves (ob : option bilateral) (side : bilateral -> uni) : list uni :=
  match ob with Some b => [side b] | None => [] end.
(** the leaves that share the ipsilateral / the contralateral parameters; the
    [unknown] model only stores data and takes no part in parameter sharing *)
Definition ipsi_leaves (m : midline) : list uni := [ext_i m; noext_i m] ++ opt_leaves (ml_central m) b_ipsi.
Definition contra_leaves (m : midline) : list uni := [ext_c m; noext_c m] ++ opt_leaves (ml_central m) b_contra.
(** every leaf, [unknown] included *)
Definition all_leaves (m : midline) : list uni :=
  [ext_i m; ext_c m; noext_i m; noext_c m]
  ++ opt_leaves (ml_central m) b_ipsi ++ opt_leaves (ml_central m) b_contra
  ++ opt_leaves (ml_unknown m) b_ipsi ++ opt_leaves (ml_unknown m) b_contra.
(** mixing * ipsi + (1 - mixing) * contra_noext, arc by arc *)
Definition mixed_items (mix : Qc) (Ti Tc : list (path * Qc)) : list (path * Qc) :=
  map (fun p => (fst (fst p), (mix * snd (fst p) + (1 - mix) * snd p)%Qc)) (combine Ti (map snd Tc)).

Definition m_shared (m : midline) : Prop :=
  (* every sub-model has the ipsilateral tumour spread of the composite ... *)
  (forall u, In u (ipsi_leaves m) -> u_T u = u_T (ext_i m)) /\
  (* ... the central model on both sides *)
  (forall c, ml_central m = Some c -> u_T (b_contra c) = u_T (ext_i m)) /\
  (* the extension model's contralateral tumour spread is the mixture *)
  (forall mix, ml_mixing m = Some mix -> u_T (ext_c m) = mixed_items mix (u_T (ext_i m)) (u_T (noext_c m))) /\
  (* LNL spread: shared per side, and between the sides when symmetric *)
  (forall u, In u (ipsi_leaves m) -> u_L u = u_L (ext_i m)) /\
  (forall u, In u (contra_leaves m) -> u_L u = u_L (ext_c m)) /\
  (ml_symL m = true -> u_L (ext_c m) = u_L (ext_i m)).
Definition m_same_config (m : midline) : Prop := forall u, In u (all_leaves m) -> same_config u (ext_i m).
Definition m_consistent (m : midline) : Prop := m_shared m /\ m_same_config m.

(** ** HPVUnilateral *)
Definition h_shared (h : hpvmodel) : Prop := u_L (h_nohpv h) = u_L (h_hpv h).
Definition h_same_config (h : hpvmodel) : Prop := same_config (h_nohpv h) (h_hpv h).
Definition h_consistent (h : hpvmodel) : Prop := h_shared h /\ h_same_config h.

(** * Well-formedness (boolean; holds of every constructed object, kept by every setter) *)
(** every bilateral sub-model is well-formed (names, both sides of one graph) and the
    central model has symmetric tumour spread (the midline setters address the leaves
    of ext / noext directly, so their own symmetry flags play no role) *)
Definition opt_ok (P : bilateral -> bool) (ob : option bilateral) : bool :=
  match ob with Some b => P b | None => true end.
Definition m_wf (m : midline) : bool :=
  b_names_ok (ml_ext m) && b_names_ok (ml_noext m)
  && opt_ok (fun c => b_names_ok c && b_symT c) (ml_central m)
  && opt_ok b_names_ok (ml_unknown m).
Definition h_names_ok (h : hpvmodel) : bool :=
  u_names_ok (h_hpv h) && u_names_ok (h_nohpv h) && same_shape (h_hpv h) (h_nohpv h).

(** * Which keyword arguments may address a distribution parameter *)
(** Composite.set_distribution_params hands every child [global_kwargs] updated with
    the keywords prefixed by the child's name, while get_distribution_params reports
    the first child only.  A keyword like [contra_late_p] therefore gives one leaf a
    distribution parameter the other leaves do not have ([C11_child_dist_keyword_refuted_stmt]).
    The preservation theorems for [set_params] / [set_distribution_params] hold for the
    calls in which every leaf receives, for every distribution parameter, what the
    plain lookup ("t_name", else "name") gives. *)
Definition b_dist_leaf_kwargs (kw : kwargs) : list kwargs :=
  let '(ikw, ckw) := side_kwargs kw in [ikw; ckw].
Definition b_dist_kw_agree (b : bilateral) (kw : kwargs) : Prop :=
  forall kwl k, In kwl (b_dist_leaf_kwargs kw) -> In k (map fst (u_dist_items (b_ipsi b))) -> u_lk kwl k = u_lk kw k.
Definition m_children (m : midline) : list string :=
  ["ext"; "noext"] ++ (match ml_central m with Some _ => ["central"] | None => [] end)
                   ++ (match ml_unknown m with Some _ => ["unknown"] | None => [] end).
Definition m_dist_leaf_kwargs (m : midline) (kw : kwargs) : list kwargs :=
  let '(split, glob) := unflatten_and_split kw (m_children m) in
  flat_map (fun child => b_dist_leaf_kwargs (obj_kwargs child split glob)) (m_children m).
Definition m_dist_kw_agree (m : midline) (kw : kwargs) : Prop :=
  forall kwl k, In kwl (m_dist_leaf_kwargs m kw) -> In k (map fst (u_dist_items (ext_i m))) -> u_lk kwl k = u_lk kw k.
(** the central model is itself a Bilateral whose own setter splits "ipsi_..." once
    more: a doubly prefixed keyword "ipsi_ipsi_..." would reach central.ipsi but not
    ext.ipsi / noext.ipsi *)
Definition double_ipsi (k : path) : bool :=
  match k with h1 :: h2 :: _ => str_eqb h1 "ipsi" && str_eqb h2 "ipsi" | _ => false end.
Definition no_double_ipsi (kw : kwargs) : Prop := forall k, In k (map fst kw) -> double_ipsi k = false.

(** * Theorem statements *)
(** freshly constructed composites are well-formed and consistent *)
Definition C11_fresh_consistent_stmt : Prop :=
  forall u, u_names_ok u = true ->
    (forall symT symL, b_names_ok (new_bilateral u symT symL) = true /\ b_consistent (new_bilateral u symT symL)) /\
    (forall mix cen evo unk symL,
        m_wf (new_midline u mix cen evo unk symL) = true /\ m_consistent (new_midline u mix cen evo unk symL)) /\
    (h_names_ok (new_hpv u) = true /\ h_consistent (new_hpv u)).

(** Bilateral: every parameter setter that returns normally keeps the model
    well-formed and consistent, for ALL positional and keyword arguments; the sharing of
    the spread parameters needs no hypothesis on the keywords at all *)
Definition C11_bilateral_preserved_stmt : Prop :=
  forall s b a kw, b_names_ok b = true -> b_consistent b ->
    snd (b_call s b a kw) <> None ->
    let b' := fst (b_call s b a kw) in
    b_names_ok b' = true /\ b_shared b' /\
    (touches_dists s = false \/ b_dist_kw_agree b kw -> b_same_config b').
(** ... and the symmetric groups are equal after a normal return from ANY state *)
Definition C11_bilateral_shared_from_any_state_stmt : Prop :=
  forall b a kw, b_names_ok b = true ->
    (snd (b_set_tumor_spread_params b a kw) <> None -> b_symT b = true ->
       u_T (b_contra (fst (b_set_tumor_spread_params b a kw))) = u_T (b_ipsi (fst (b_set_tumor_spread_params b a kw)))) /\
    (snd (b_set_lnl_spread_params b a kw) <> None -> b_symL b = true ->
       u_L (b_contra (fst (b_set_lnl_spread_params b a kw))) = u_L (b_ipsi (fst (b_set_lnl_spread_params b a kw)))) /\
    (snd (b_set_spread_params b a kw) <> None -> b_shared (fst (b_set_spread_params b a kw))) /\
    (snd (b_set_params b a kw) <> None -> b_shared (fst (b_set_params b a kw))).

(** Midline: the four spread/parameter setters and set_distribution_params *)
Definition m_preserved (s : setter) : Prop :=
  forall m a kw, m_wf m = true -> m_consistent m ->
    (ml_central m <> None -> no_double_ipsi kw) ->
    snd (m_call s m a kw) <> None ->
    let m' := fst (m_call s m a kw) in
    m_wf m' = true /\ m_shared m' /\
    (touches_dists s = false \/ m_dist_kw_agree m kw -> m_same_config m').
Definition C11_midline_tumor_preserved_stmt : Prop := m_preserved SetTumorSpread.
Definition C11_midline_lnl_preserved_stmt : Prop := m_preserved SetLnlSpread.
Definition C11_midline_spread_preserved_stmt : Prop := m_preserved SetSpread.
Definition C11_midline_dist_preserved_stmt : Prop := m_preserved SetDist.
Definition C11_midline_params_preserved_stmt : Prop := m_preserved SetParams.
Definition C11_midline_preserved_stmt : Prop := forall s, m_preserved s.

(** modality / distribution / max_time operations: all leaves stay equal, the spread
    parameters are not touched *)
Definition cfg_preserves (o : cfgop) : Prop :=
  (forall b, b_consistent b -> snd (b_cfg (leaf_cfg o) b) = true -> b_consistent (fst (b_cfg (leaf_cfg o) b))) /\
  (forall m, m_consistent m -> snd (m_cfg (leaf_cfg o) m) = true -> m_consistent (fst (m_cfg (leaf_cfg o) m))) /\
  (forall h, h_consistent h -> snd (h_cfg (leaf_cfg o) h) = true -> h_consistent (fst (h_cfg (leaf_cfg o) h))).
Definition is_modality_op (o : cfgop) : bool :=
  match o with CSetModality _ _ _ _ | CDelModality _ | CReplaceModalities _ | CClearModalities => true | _ => false end.
Definition is_distribution_op (o : cfgop) : bool :=
  match o with CSetDistribution _ _ | CDelDistribution _ | CReplaceDistributions _ | CClearDistributions => true | _ => false end.
Definition C11_modalities_equal_stmt : Prop := forall o, is_modality_op o = true -> cfg_preserves o.
Definition C11_distributions_equal_stmt : Prop := forall o, is_distribution_op o = true -> cfg_preserves o.
Definition C11_max_time_equal_stmt : Prop := forall v, cfg_preserves (CSetMaxTime v).
(** on consistent composites a forwarded operation raises in the first leaf or in none
    (so a raising call leaves the leaves equal unless the operation is itself a
    sequence, i.e. the replace_all operations) *)
Definition C11_cfg_all_or_first_stmt : Prop :=
  forall o,
    (forall b, b_consistent b -> snd (b_cfg (leaf_cfg o) b) = snd (leaf_cfg o (b_ipsi b))) /\
    (forall m, m_consistent m -> snd (m_cfg (leaf_cfg o) m) = snd (leaf_cfg o (ext_i m))) /\
    (forall h, h_consistent h -> snd (h_cfg (leaf_cfg o) h) = snd (leaf_cfg o (h_hpv h))).
(** the operations keep [b_names_ok] / [m_wf] provided the leaves stay well-named (a new
    T-stage must not be called like an arc or a reserved word, DESIGN.md section 6) *)
Definition C11_cfg_wf_stmt : Prop :=
  forall o,
    (forall b, b_names_ok b = true -> b_consistent b -> snd (b_cfg (leaf_cfg o) b) = true ->
       u_names_ok (fst (leaf_cfg o (b_ipsi b))) = true -> b_names_ok (fst (b_cfg (leaf_cfg o) b)) = true) /\
    (forall m, m_wf m = true -> m_consistent m -> snd (m_cfg (leaf_cfg o) m) = true ->
       (forall u, In u (all_leaves m) -> u_names_ok (fst (leaf_cfg o u)) = true) -> m_wf (fst (m_cfg (leaf_cfg o) m)) = true).

(** Consequence: the parameters the composite reports are the ones every part holds.
    [u_got leaf] is the leaf's own get_params() *)
Definition C11_reported_params_are_used_stmt : Prop :=
  forall b, b_names_ok b = true -> b_consistent b ->
    forall k v, In (k, v) (b_got b) ->
      if str_eqb (head_of k) "ipsi" then In (tl k, v) (u_got (b_ipsi b))
      else if str_eqb (head_of k) "contra" then In (tl k, v) (u_got (b_contra b))
      else In (k, v) (u_got (b_ipsi b)) /\ In (k, v) (u_got (b_contra b)).
(** Midline: every reported value is the value of every leaf the sharing declares *)
Definition holds_T (us : list uni) (k : path) (v : Qc) : Prop := forall u, In u us -> In (k, v) (u_T u).
Definition holds_L (us : list uni) (k : path) (v : Qc) : Prop := forall u, In u us -> In (k, v) (u_L u).
Definition m_reported_ok (m : midline) (k : path) (v : Qc) : Prop :=
  let h := head_of k in
  if str_eqb h "mixing" then ml_mixing m = Some v
  else if str_eqb h "midext" then ml_midext m = v
  else if str_eqb h "ipsi" then
    holds_T (ipsi_leaves m ++ opt_leaves (ml_central m) b_contra) (tl k) v \/ holds_L (ipsi_leaves m) (tl k) v
  else if str_eqb h "noext" then In (tl (tl k), v) (u_T (noext_c m))
  else if str_eqb h "ext" then In (tl (tl k), v) (u_T (ext_c m))
  else if str_eqb h "contra" then In (tl k, v) (u_T (noext_c m)) \/ holds_L (contra_leaves m) (tl k) v
  else holds_L (ipsi_leaves m ++ contra_leaves m) k v \/ (forall u, In u (all_leaves m) -> In (k, v) (u_dist_items u)).
(** what Midline.get_params reports (names and order, per use_mixing and LNL symmetry):
    ipsilateral tumour spread from ext.ipsi, contralateral tumour spread from
    noext.contra (and ext.contra without mixing), LNL spread from the ext model,
    distributions from ext.ipsi, midext_prob last.  That get_params returns exactly
    this list is C10's theorem [mid_names_nodup]; here it is the premise [m_got m = ...] *)
Definition c11_mid_items (m : midline) : list (path * Qc) :=
  let ei := ext_i m in let ec := ext_c m in let nc := noext_c m in
  let mixing := match ml_mixing m with Some mix => [(["mixing"], mix)] | None => [] end in
  let midext := [(["midext"; "prob"], ml_midext m)] in
  match ml_mixing m, ml_symL m with
  | Some _, true => pre ["ipsi"] (u_T ei) ++ pre ["contra"] (u_T nc) ++ mixing ++ u_L ei ++ u_dist_items ei ++ midext
  | Some _, false => pre ["ipsi"] (u_T ei ++ u_L ei) ++ pre ["contra"] (u_T nc ++ u_L ec) ++ mixing ++ u_dist_items ei ++ midext
  | None, true => pre ["ipsi"] (u_T ei) ++ pre ["noext"; "contra"] (u_T nc) ++ pre ["ext"; "contra"] (u_T ec)
                  ++ u_L ei ++ u_dist_items ei ++ midext
  | None, false => pre ["ipsi"] (u_T ei ++ u_L ei) ++ pre ["noext"; "contra"] (u_T nc) ++ pre ["ext"; "contra"] (u_T ec)
                   ++ pre ["contra"] (u_L ec) ++ u_dist_items ei ++ midext
  end.
Definition C11_midline_reported_params_are_used_stmt : Prop :=
  forall m, m_wf m = true -> m_consistent m -> m_got m = Some (c11_mid_items m) ->
    forall k v, In (k, v) (c11_mid_items m) -> m_reported_ok m k v.

(** * Histories *)
(** one call of the composite's own API *)
Inductive call := CallSet (s : setter) (a : args) (kw : kwargs) | CallCfg (o : cfgop).
Definition is_some_args (o : option args) : bool := match o with Some _ => true | None => false end.
Definition b_step (b : bilateral) (c : call) : bilateral * bool :=
  match c with
  | CallSet s a kw => (fst (b_call s b a kw), is_some_args (snd (b_call s b a kw)))
  | CallCfg o => b_cfg (leaf_cfg o) b
  end.
Definition m_step (m : midline) (c : call) : midline * bool :=
  match c with
  | CallSet s a kw => (fst (m_call s m a kw), is_some_args (snd (m_call s m a kw)))
  | CallCfg o => m_cfg (leaf_cfg o) m
  end.
(** the domain of section 6 for one call in the current state *)
Definition b_call_ok (b : bilateral) (c : call) : Prop :=
  match c with
  | CallSet s a kw => touches_dists s = true -> b_dist_kw_agree b kw
  | CallCfg o => u_names_ok (fst (leaf_cfg o (b_ipsi b))) = true
  end.
Definition m_call_ok (m : midline) (c : call) : Prop :=
  match c with
  | CallSet s a kw => (touches_dists s = true -> m_dist_kw_agree m kw) /\ (ml_central m <> None -> no_double_ipsi kw)
  | CallCfg o => forall u, In u (all_leaves m) -> u_names_ok (fst (leaf_cfg o u)) = true
  end.
(** every call of the history is in the domain and returns normally *)
Fixpoint b_run_ok (b : bilateral) (cs : list call) : Prop :=
  match cs with
  | [] => True
  | c :: r => b_call_ok b c /\ snd (b_step b c) = true /\ b_run_ok (fst (b_step b c)) r
  end.
Fixpoint b_run (b : bilateral) (cs : list call) : bilateral :=
  match cs with [] => b | c :: r => b_run (fst (b_step b c)) r end.
Fixpoint m_run_ok (m : midline) (cs : list call) : Prop :=
  match cs with
  | [] => True
  | c :: r => m_call_ok m c /\ snd (m_step m c) = true /\ m_run_ok (fst (m_step m c)) r
  end.
Fixpoint m_run (m : midline) (cs : list call) : midline :=
  match cs with [] => m | c :: r => m_run (fst (m_step m c)) r end.
(** the headline: after ANY history of normally returning calls on a freshly
    constructed composite, the parts are consistent (hence also after every prefix) *)
Definition C11_bilateral_history_stmt : Prop :=
  forall u symT symL cs, u_names_ok u = true -> b_run_ok (new_bilateral u symT symL) cs ->
    b_names_ok (b_run (new_bilateral u symT symL) cs) = true /\ b_consistent (b_run (new_bilateral u symT symL) cs).
Definition C11_midline_history_stmt : Prop :=
  forall u mix cen evo unk symL cs, u_names_ok u = true -> m_run_ok (new_midline u mix cen evo unk symL) cs ->
    m_wf (m_run (new_midline u mix cen evo unk symL) cs) = true /\ m_consistent (m_run (new_midline u mix cen evo unk symL) cs).

(** * Findings *)
(** KNOWN FINDING (D8): HPVUnilateral copies the LNL spread hpv -> nohpv inside
    set_tumor_spread_params, BEFORE set_lnl_spread_params hands the two models
    different values *)
Definition C11_hpv_sharing_refuted_stmt : Prop :=
  exists (h : hpvmodel) (a : args) (kw : kwargs),
    h_names_ok h = true /\ h_consistent h /\
    snd (h_set_params h a kw) = Some [] /\ ~ h_shared (fst (h_set_params h a kw)).
(** a child-prefixed distribution keyword un-shares the distributions of a Bilateral
    model, and get_params keeps reporting the ipsilateral value *)
Definition C11_child_dist_keyword_refuted_stmt : Prop :=
  exists (b : bilateral) (kw : kwargs),
    b_names_ok b = true /\ b_consistent b /\
    snd (b_set_params b [] kw) = Some [] /\ ~ b_same_config (fst (b_set_params b [] kw)) /\
    b_got (fst (b_set_params b [] kw)) = b_got b.
(** OBSERVATION: setters are not atomic *)
Definition C11_not_atomic_stmt : Prop :=
  exists (m : midline) (a : args),
    m_wf m = true /\ m_consistent m /\ snd (m_set_params m a []) = None /\ ~ m_shared (fst (m_set_params m a [])).

(** * Recovery: a complete valid assignment restores the invariant from ANY state *)
(** distributions that differ at most in the values of their keywords *)
Definition dist_sim (d1 d2 : dist) : Prop :=
  match d1, d2 with
  | Frozen p1, Frozen p2 => p1 = p2
  | Param f1 k1, Param f2 k2 => f1 = f2 /\ map fst k1 = map fst k2
  | _, _ => False
  end.
Definition config_sim (u1 u2 : uni) : Prop :=
  u_mods u1 = u_mods u2 /\ u_maxt u1 = u_maxt u2 /\
  map fst (u_dists u1) = map fst (u_dists u2) /\ Forall2 dist_sim (map snd (u_dists u1)) (map snd (u_dists u2)).
(** Bilateral: positional assignment of a complete vector *)
Definition C11_bilateral_full_assignment_restores_stmt : Prop :=
  forall b v rest, b_names_ok b = true -> config_sim (b_contra b) (b_ipsi b) ->
    length v = length (b_items b) ->
    snd (b_set_params b (vals v ++ rest) []) <> None ->
    b_consistent (fst (b_set_params b (vals v ++ rest) [])).
(** Midline: positional assignment of a complete vector, from any well-formed state
    whose leaves differ at most in parameter values *)
Definition m_config_sim (m : midline) : Prop := forall u, In u (all_leaves m) -> config_sim u (ext_i m).
Definition m_param_count (m : midline) : nat :=
  let nT := length (u_T (ext_i m)) in let nL := length (u_L (ext_i m)) in
  nT + (match ml_mixing m with Some _ => nT + 1 | None => nT + nT end)
  + (if ml_symL m then nL else nL + nL) + length (u_dist_items (ext_i m)) + 1.
Definition m_shapes_agree (m : midline) : Prop :=
  forall u, In u (ipsi_leaves m ++ contra_leaves m) ->
    map fst (u_T u) = map fst (u_T (ext_i m)) /\ map fst (u_L u) = map fst (u_L (ext_i m)).
(** proved in SyncMidlinePositional.v (properties/C11_recovery_positional.v); the harness also checks it on generated
    histories, stream "recovery" *)
Definition C11_midline_full_assignment_restores_stmt : Prop :=
  forall m v rest, m_wf m = true -> m_shapes_agree m -> m_config_sim m ->
    length v = m_param_count m ->
    snd (m_set_params m (vals v ++ rest) []) <> None ->
    m_consistent (fst (m_set_params m (vals v ++ rest) [])).

(** * What the correspondence check evaluates and prints *)
Definition cfg_model (o : cfgop) (m : model) : model * bool :=
  match m with
  | MUni u => let r := leaf_cfg o u in (MUni (fst r), snd r)
  | MBi b => let r := b_cfg (leaf_cfg o) b in (MBi (fst r), snd r)
  | MMid ml => let r := m_cfg (leaf_cfg o) ml in (MMid (fst r), snd r)
  | MHpv h => let r := h_cfg (leaf_cfg o) h in (MHpv (fst r), snd r)
  end.
Definition model_step (m : model) (c : call) : model * bool :=
  match c with
  | CallSet s a kw => let r := call_setter s m a kw in (fst r, is_some_args (snd r))
  | CallCfg o => cfg_model o m
  end.
Definition out_mod (nm : string * modality) := (fst nm, qout (m_spec (snd nm)), qout (m_sens (snd nm)), m_path (snd nm)).
Definition out_dist (maxt : nat) (td : string * dist) :=
  (fst td,
   match snd td with
   | Frozen p => (false, @nil (string * (Z * Z)), Some (qouts p))
   | Param f kws => (true, map (fun kv => (fst kv, qout (snd kv))) kws, option_map qouts (pmf maxt (snd td)))
   end).
Definition out_leaf_cfg (u : uni) := (map out_mod (u_mods u), map (out_dist (u_maxt u)) (u_dists u), u_maxt u).
Definition out_state (m : model) := (out_model m, map (fun pu => (fst pu, out_leaf_cfg (snd pu))) (model_leaves m)).
(** a history from a given object: after every call, whether it returned normally and
    everything observable *)
Fixpoint run_ops (m : model) (cs : list call) :=
  match cs with
  | [] => []
  | c :: r => let '(m', ok) := model_step m c in (ok, out_state m') :: run_ops m' r
  end.
Definition final_model (m : model) (cs : list call) : model := fold_left (fun m c => fst (model_step m c)) cs m.
(** the transition matrix of every leaf *)
Definition out_transitions (m : model) := map (fun pu => (fst pu, qoutm (transition_matrix (snd pu)))) (model_leaves m).
