(** Statements of the C19 theorems: "the graph object mirrors the graph
    dictionary and rejects malformed ones".  The executable model is Graph.v
    ([build_graph], [to_dict], [state_list]); this file only adds the short
    specification (what a valid dictionary is, which nodes / arcs it denotes) and
    the theorem statements.  Proved in GraphProofs.v, closed in properties/C19.v. *)
From LymphModel Require Import Base States Graph Transition.
Local Open Scope nat_scope.

(** * Reading the dictionary *)
Definition entry := ((string * string) * conns)%type.
Definition ent_kind (e : entry) : string := fst (fst e).
Definition ent_name (e : entry) : string := snd (fst e).
Definition ent_conns (e : entry) : list string := conns_items (snd e).
Definition is_tumor_ent (e : entry) : bool := str_eqb (ent_kind e) "tumor".
Definition is_lnl_ent (e : entry) : bool := str_eqb (ent_kind e) "lnl".
Definition is_list (c : conns) : bool := match c with CList _ => true | CSet _ => false end.

Definition dict_names (d : gdict) : list string := map ent_name d.
Definition tumor_names (d : gdict) : list string := map ent_name (filter is_tumor_ent d).
Definition lnl_names (d : gdict) : list string := map ent_name (filter is_lnl_ent d).
(** the listed connections (parent, child), in dictionary order *)
Definition connections (d : gdict) : list (string * string) :=
  flat_map (fun e => map (fun c => (ent_name e, c)) (ent_conns e)) d.
(** the names the arcs will get: "<parent>to<child>", and, in trinary models, the
    LNL's own name for its growth arc *)
Definition arc_names (trinary : bool) (d : gdict) : list string :=
  flat_map (fun e => (if is_lnl_ent e && trinary then [ent_name e] else [])
                     ++ map (edge_name (ent_name e)) (ent_conns e)) d.

(** * Valid dictionaries (boolean predicate) *)
Definition valid_dict (base : nat) (d : gdict) : bool :=
  (Nat.eqb base 2 || Nat.eqb base 3)                                      (* binary or trinary *)
  && forallb (fun e => is_list (snd e)) d                                 (* containers are lists *)
  && forallb (fun e => is_tumor_ent e || is_lnl_ent e) d                  (* node types *)
  && nodupb (dict_names d)                                                (* node names distinct *)
  && forallb (fun e => nodupb (ent_conns e)) d                            (* no duplicate connection *)
  && forallb (fun e => negb (mem (ent_name e) (ent_conns e))) d           (* no self connection *)
  && forallb (fun e => forallb (fun c => mem c (lnl_names d)) (ent_conns e)) d  (* targets are listed LNLs *)
  && negb (Nat.eqb (length (tumor_names d)) 0)                            (* a tumour *)
  && negb (Nat.eqb (length (lnl_names d)) 0)                              (* an LNL *)
  && nodupb (arc_names (Nat.eqb base 3) d).                               (* arc names do not collide *)

(** * The arcs a dictionary denotes *)
Definition spec_spread_edge (e : entry) (c : string) : edge :=
  {| e_name := (ent_name e ++ "to" ++ c)%string; e_parent := ent_name e; e_child := c;
     e_kind := if is_tumor_ent e then ETumor else ELnl; e_spread := 0%Qc; e_micro := 1%Qc |}.
Definition spec_growth_edge (l : string) : edge :=
  {| e_name := l; e_parent := l; e_child := l; e_kind := EGrowth; e_spread := 0%Qc; e_micro := 1%Qc |}.
Definition spec_entry_edges (trinary : bool) (e : entry) : list edge :=
  (if is_lnl_ent e && trinary then [spec_growth_edge (ent_name e)] else [])
  ++ map (spec_spread_edge e) (ent_conns e).
Definition spec_edges (trinary : bool) (d : gdict) : list edge := flat_map (spec_entry_edges trinary) d.

(** * Theorems *)

(** A valid dictionary is accepted and the nodes are exactly the listed (kind, name)
    pairs in listing order; hence so are [tumors] and [lnls]. *)
Definition C19_nodes_in_order_stmt : Prop :=
  forall base d, valid_dict base d = true ->
    exists g, build_graph base d = inr g /\ g_base g = base /\
      map (fun n => (n_tumor n, n_name n)) (g_nodes g) = map (fun e => (is_tumor_ent e, ent_name e)) d /\
      tumors g = tumor_names d /\ lnls g = lnl_names d.

(** Arcs: in creation order, per entry of the dictionary the growth arc (LNL entries,
    trinary only) followed by one arc "<parent>to<child>" per listed connection;
    i.e. the non-growth arcs are exactly one per connection in dictionary order with
    kind ETumor iff the parent entry is a tumour, the growth arcs are one per LNL iff
    base = 3 and none if base = 2; new arcs have spread 0 and micro_mod 1; the arc
    names (keys of [Representation.edges]) are pairwise distinct. *)
Definition C19_edges_one_per_connection_stmt : Prop :=
  forall base d g, valid_dict base d = true -> build_graph base d = inr g ->
    g_edges g = spec_edges (Nat.eqb base 3) d /\
    filter (fun e => negb (is_growth e)) (g_edges g)
      = flat_map (fun e => map (spec_spread_edge e) (ent_conns e)) d /\
    map (fun e => (e_parent e, e_child e)) (filter (fun e => negb (is_growth e)) (g_edges g)) = connections d /\
    growth_edges g = (if Nat.eqb base 3 then map spec_growth_edge (lnl_names d) else []) /\
    (forall e, In e (g_edges g) -> is_tumor_spread e = mem (e_parent e) (tumors g)) /\
    NoDup (map e_name (g_edges g)).

(** state_list: all base^n digit lists, each exactly once, and entry i has the digits of
    i written in base [base], most significant digit = first LNL (last LNL varies fastest). *)
Definition C19_state_list_enumerates_stmt : Prop :=
  forall base d g, valid_dict base d = true -> build_graph base d = inr g ->
    let n := length (lnl_names d) in
    length (state_list g) = base ^ n /\
    NoDup (state_list g) /\
    (forall x, In x (state_list g) <-> length x = n /\ Forall (fun v => v < base) x) /\
    (forall i k, i < base ^ n -> k < n ->
       digit k (nth i (state_list g) []) = (i / base ^ (n - 1 - k)) mod base).

(** to_dict() gives back the dictionary: same keys in the same order, same connection lists. *)
Definition C19_to_dict_roundtrip_stmt : Prop :=
  forall base d g, valid_dict base d = true -> build_graph base d = inr g ->
    to_dict g = map (fun e => (fst e, ent_conns e)) d.

(** Malformed dictionaries are rejected.  Each clause: an arbitrary dictionary (any base)
    with that fault and no fault that the code checks earlier.  [check_conns d1 = None]
    says the entries listed before the faulty one pass the per-entry checks. *)
Definition C19_malformed_rejected_stmt : Prop :=
  (* a connection container that is a set *)
  (forall base d1 k l d2, check_conns d1 = None ->
     build_graph base (d1 ++ (k, CSet l) :: d2) = inl EConnSet) /\
  (* a duplicate connection *)
  (forall base d1 k l d2, check_conns d1 = None -> nodupb l = false ->
     build_graph base (d1 ++ (k, CList l) :: d2) = inl EDupConn) /\
  (* a node connected to itself *)
  (forall base d1 k l d2, check_conns d1 = None -> nodupb l = true -> mem (snd k) l = true ->
     build_graph base (d1 ++ (k, CList l) :: d2) = inl ESelfConn) /\
  (* the same node name under two keys *)
  (forall base d, check_conns d = None -> nodupb (dict_names d) = false ->
     build_graph base d = inl EDupName) /\
  (* no tumour *)
  (forall base d, check_conns d = None -> nodupb (dict_names d) = true -> tumor_names d = [] ->
     build_graph base d = inl ENoTumor) /\
  (* no LNL *)
  (forall base d, check_conns d = None -> nodupb (dict_names d) = true -> tumor_names d <> [] ->
     lnl_names d = [] -> build_graph base d = inl ENoLnl).

(** Conversely, whatever [build_graph] accepts satisfies every clause of [valid_dict]
    except the two that are preconditions rather than checks of the code (base in {2,3},
    arc names do not collide). *)
Definition accepted_dict (d : gdict) : bool :=
  forallb (fun e => is_list (snd e)) d
  && forallb (fun e => is_tumor_ent e || is_lnl_ent e) d
  && nodupb (dict_names d)
  && forallb (fun e => nodupb (ent_conns e)) d
  && forallb (fun e => negb (mem (ent_name e) (ent_conns e))) d
  && forallb (fun e => forallb (fun c => mem c (lnl_names d)) (ent_conns e)) d
  && negb (Nat.eqb (length (tumor_names d)) 0)
  && negb (Nat.eqb (length (lnl_names d)) 0).
Definition C19_accepted_only_if_valid_stmt : Prop :=
  forall base d g, build_graph base d = inr g -> accepted_dict d = true.
Definition C19_valid_iff_accepted_stmt : Prop :=
  forall base d, valid_dict base d =
    (Nat.eqb base 2 || Nat.eqb base 3) && accepted_dict d && nodupb (arc_names (Nat.eqb base 3) d).

(** The graphs of valid dictionaries satisfy the well-formedness hypothesis of the
    numerical theorems (C05, C07, C01, C02 ...). *)
Definition C19_build_graph_wf_stmt : Prop :=
  forall base d g, valid_dict base d = true -> build_graph base d = inr g -> wf_graphb g = true.
