(** HpvBn: the Bayesian-network mode of [models.HPVUnilateral.likelihood]
    ([HPVUnilateral._bn_likelihood]): the HPV+ patients scored by the HPV+ sub-model's
    network, the HPV- patients by the HPV- sub-model's, both with the same T-stage
    restriction.  Definitions, statements and the (short) proofs. *)
From LymphModel Require Import Base States Linalg Graph Transition Observation Dist Unilateral UniStatements Models Bilateral Midline Cohort LikelihoodProofs Hpv.
Local Open Scope nat_scope.
Open Scope Qc_scope.

Definition hpv_bn_likelihood_factors (h : hpvmodel) (pos neg : list patient) (t : option string) : res vec :=
  bind (bn_likelihood_factors (h_hpv h) pos t) (fun a =>
  bind (bn_likelihood_factors (h_nohpv h) neg t) (fun b => inr (a ++ b))).
Definition hpv_bn_cohort_factors (h : hpvmodel) (table : list hpatient) (t : option string) : res vec :=
  hpv_bn_likelihood_factors h (fst (hpv_load table)) (snd (hpv_load table)) t.

Definition C13_hpv_bn_likelihood_is_sum_stmt : Prop :=
  forall h table t a b,
    bn_likelihood_factors (h_hpv h) (map hp_pat (filter (fun p => is_true (hp_status p)) table)) t = inr a ->
    bn_likelihood_factors (h_nohpv h) (map hp_pat (filter (fun p => is_false (hp_status p)) table)) t = inr b ->
    hpv_bn_cohort_factors h table t = inr (a ++ b).
(** BOTH sub-models get the T-stage restriction: a cohort restricted to [ts] has the
    factors of the HPV+ patients of stage [ts] followed by those of the HPV- patients of
    stage [ts] (never those of another stage) *)
Definition C13_hpv_bn_restriction_reaches_both_stmt : Prop :=
  forall h table ts,
    hpv_bn_cohort_factors h table (Some ts)
    = bind (bn_likelihood_factors (h_hpv h) (fst (hpv_load table)) (Some ts)) (fun a =>
      bind (bn_likelihood_factors (h_nohpv h) (snd (hpv_load table)) (Some ts)) (fun b => inr (a ++ b))).
(** trinary sub-models: the network is not implemented *)
Definition C13_hpv_bn_trinary_not_implemented_stmt : Prop :=
  forall h table t, u_base (h_hpv h) = 3 -> hpv_bn_cohort_factors h table t = inl MNotImpl.

Lemma hpv_bn_likelihood_is_sum : C13_hpv_bn_likelihood_is_sum_stmt.
Proof.
  intros h table t a b Ha Hb. unfold hpv_bn_cohort_factors, hpv_bn_likelihood_factors, hpv_load. cbn [fst snd].
  rewrite Ha. cbn [bind]. rewrite Hb. reflexivity.
Qed.
Lemma hpv_bn_restriction_reaches_both : C13_hpv_bn_restriction_reaches_both_stmt.
Proof. intros h table ts. reflexivity. Qed.
Lemma hpv_bn_trinary_not_implemented : C13_hpv_bn_trinary_not_implemented_stmt.
Proof.
  intros h table t H3. unfold hpv_bn_cohort_factors, hpv_bn_likelihood_factors, bn_likelihood_factors, state_dist_bn.
  unfold u_base in H3. rewrite H3. reflexivity.
Qed.
