(** SyncProofs: proofs of the C11 statements of Sync.v.  The description of what one
    leaf setter does ([leaf_step_ok] / [leaf_step_fail], [b_side_spec], [b_dist_step],
    [u_set_dist_spec]) is the one proved for C10 (ParamsProofs.v, ParamsBilateral.v). *)
From LymphModel Require Import Base States Linalg Graph Transition Observation Dist Unilateral Models Params
  ParamsStatements ParamsLemmas ParamsProofs ParamsBilateral Sync.
Local Open Scope nat_scope.
Local Open Scope string_scope.
Local Open Scope list_scope.

(** * Small facts *)
Lemma same_config_refl u : same_config u u.
Proof. repeat split. Qed.
Lemma same_config_sym u1 u2 : same_config u1 u2 -> same_config u2 u1.
Proof. intros (A & B & C). repeat split; symmetry; assumption. Qed.
Lemma same_config_trans u1 u2 u3 : same_config u1 u2 -> same_config u2 u3 -> same_config u1 u3.
Proof. intros (A & B & C) (A' & B' & C'). repeat split; etransitivity; eassumption. Qed.

Lemma tumor_lnl_disj e : is_tumor_spread e = true -> sel_lnl e = false.
Proof. apply tumor_not_lnl. Qed.
Lemma lnl_tumor_disj e : sel_lnl e = true -> is_tumor_spread e = false.
Proof. apply lnl_not_tumor. Qed.

(** * One leaf, one group of arcs *)
Definition leaf_set (sel : edge -> bool) (u : uni) (a : args) (kw : kwargs) : uni * option args :=
  lift_graph u (graph_set_params_sel sel (u_graph u) a kw).
Lemma u_set_tumor_is_leaf_set u a kw : u_set_tumor_spread_params u a kw = leaf_set is_tumor_spread u a kw.
Proof. reflexivity. Qed.
Lemma u_set_lnl_is_leaf_set u a kw : u_set_lnl_spread_params u a kw = leaf_set sel_lnl u a kw.
Proof. reflexivity. Qed.

(** a call either raises or puts the planned values *)
Lemma leaf_set_cases sel u a kw : u_names_ok u = true ->
  snd (leaf_set sel u a kw) = None \/
  exists qs, all_unit (plan (u_lk kw) (u_sel_items sel u) a) = Some qs /\ length qs = length (u_sel_items sel u) /\
             leaf_set sel u a kw = (u_put_sel sel u qs, Some (skipn (length (u_sel_items sel u)) a)).
Proof.
  intros H. unfold leaf_set. destruct (all_unit (plan (u_lk kw) (u_sel_items sel u) a)) as [qs|] eqn:E.
  - right. exists qs. split; [reflexivity|]. split.
    + apply all_unit_length in E. rewrite plan_length in E. exact E.
    + apply leaf_step_ok; assumption.
  - left. apply leaf_step_fail; assumption.
Qed.

(** what [u_put_sel] leaves alone *)
Lemma u_put_sel_mods sel u qs : u_mods (u_put_sel sel u qs) = u_mods u. Proof. reflexivity. Qed.
Lemma u_put_sel_dists sel u qs : u_dists (u_put_sel sel u qs) = u_dists u. Proof. reflexivity. Qed.
Lemma u_put_sel_maxt sel u qs : u_maxt (u_put_sel sel u qs) = u_maxt u. Proof. reflexivity. Qed.
Lemma u_put_sel_config sel u qs : same_config (u_put_sel sel u qs) u.
Proof. repeat split. Qed.
Lemma u_put_sel_T_lnl u qs : u_T (u_put_sel sel_lnl u qs) = u_T u.
Proof. apply (u_sel_items_put_other sel_lnl is_tumor_spread); [apply kind_sel_tumor | apply lnl_not_tumor]. Qed.
Lemma u_put_sel_L_tumor u qs : u_L (u_put_sel is_tumor_spread u qs) = u_L u.
Proof. apply (u_sel_items_put_other is_tumor_spread sel_lnl); [apply kind_sel_lnl | apply tumor_not_lnl]. Qed.

(** two leaves with the same parameters of the group receive the same values *)
Lemma leaf_set_same sel u1 u2 a kw : kind_sel sel -> u_names_ok u1 = true -> u_names_ok u2 = true ->
  u_sel_items sel u1 = u_sel_items sel u2 ->
  snd (leaf_set sel u1 a kw) = snd (leaf_set sel u2 a kw) /\
  (snd (leaf_set sel u1 a kw) <> None ->
   u_sel_items sel (fst (leaf_set sel u1 a kw)) = u_sel_items sel (fst (leaf_set sel u2 a kw))).
Proof.
  intros Hk H1 H2 He.
  destruct (leaf_set_cases sel u1 a kw H1) as [N1|(q1 & E1 & L1 & R1)];
    destruct (leaf_set_cases sel u2 a kw H2) as [N2|(q2 & E2 & L2 & R2)].
  - rewrite N1, N2. split; [reflexivity | intros C; contradiction].
  - rewrite <- He in E2. unfold leaf_set in N1. pose proof (leaf_step_ok sel u1 a kw q2 H1 E2) as X.
    unfold leaf_set in *. rewrite X in N1. discriminate.
  - rewrite He in E1. pose proof (leaf_step_ok sel u2 a kw q1 H2 E1) as X.
    unfold leaf_set in *. rewrite X in N2. discriminate.
  - rewrite He in E1. rewrite E1 in E2. injection E2 as <-. rewrite R1, R2. cbn [fst snd]. split.
    + rewrite He. reflexivity.
    + intros _. rewrite !u_sel_items_put by assumption. rewrite He. reflexivity.
Qed.

(** * Bilateral: one group of arcs on both sides *)
Section Side.
  Variables (sel sel' : edge -> bool).
  Hypothesis Hsel : kind_sel sel.
  Hypothesis Hsel' : kind_sel sel'.
  Hypothesis Hdisj : forall e, sel e = true -> sel' e = false.

  (** after a normal return: well-formed, the group is equal on both sides when it is
      declared symmetric (from ANY previous state), the other group and the
      configuration are untouched *)
  Lemma b_side_facts sym b a kw : b_names_ok b = true ->
    snd (b_set_side_params sel sym b a kw) <> None ->
    let b' := fst (b_set_side_params sel sym b a kw) in
    b_names_ok b' = true /\
    (sym = true -> u_sel_items sel (b_contra b') = u_sel_items sel (b_ipsi b')) /\
    u_sel_items sel' (b_ipsi b') = u_sel_items sel' (b_ipsi b) /\
    u_sel_items sel' (b_contra b') = u_sel_items sel' (b_contra b) /\
    same_config (b_ipsi b') (b_ipsi b) /\ same_config (b_contra b') (b_contra b) /\
    b_symT b' = b_symT b /\ b_symL b' = b_symL b.
  Proof.
    intros Hok Hret. pose proof (b_side_spec sel sym b a kw Hsel Hok) as Hs.
    destruct (all_unit (side_plan sel sym b a kw)) as [qs|] eqn:E; [|contradiction].
    rewrite Hs. cbn [fst]. cbv zeta.
    pose proof (all_unit_length _ _ E) as Hl. rewrite side_plan_length in Hl.
    split; [apply side_result_names_ok, Hok|].
    unfold side_result, b_with. cbn [b_ipsi b_contra b_symT b_symL].
    split.
    - intros ->. unfold side_len in Hl. rewrite Nat.add_0_r in Hl.
      assert (Hf : firstn (length (u_sel_items sel (b_ipsi b))) qs = qs) by (rewrite <- Hl; apply firstn_all).
      rewrite Hf, !u_sel_items_put; try assumption.
      + rewrite (contra_sel_keys sel b Hsel Hok). reflexivity.
      + rewrite (contra_sel_length sel b Hsel Hok). exact Hl.
    - rewrite !(u_sel_items_put_other sel sel') by assumption. repeat split.
  Qed.
End Side.

Lemma b_tumor_facts b a kw : b_names_ok b = true -> snd (b_set_tumor_spread_params b a kw) <> None ->
  let b' := fst (b_set_tumor_spread_params b a kw) in
  b_names_ok b' = true /\ (b_symT b = true -> u_T (b_contra b') = u_T (b_ipsi b')) /\
  u_L (b_ipsi b') = u_L (b_ipsi b) /\ u_L (b_contra b') = u_L (b_contra b) /\
  same_config (b_ipsi b') (b_ipsi b) /\ same_config (b_contra b') (b_contra b) /\
  b_symT b' = b_symT b /\ b_symL b' = b_symL b.
Proof. apply (b_side_facts is_tumor_spread sel_lnl kind_sel_tumor kind_sel_lnl tumor_not_lnl). Qed.
Lemma b_lnl_facts b a kw : b_names_ok b = true -> snd (b_set_lnl_spread_params b a kw) <> None ->
  let b' := fst (b_set_lnl_spread_params b a kw) in
  b_names_ok b' = true /\ (b_symL b = true -> u_L (b_contra b') = u_L (b_ipsi b')) /\
  u_T (b_ipsi b') = u_T (b_ipsi b) /\ u_T (b_contra b') = u_T (b_contra b) /\
  same_config (b_ipsi b') (b_ipsi b) /\ same_config (b_contra b') (b_contra b) /\
  b_symT b' = b_symT b /\ b_symL b' = b_symL b.
Proof. apply (b_side_facts sel_lnl is_tumor_spread kind_sel_lnl kind_sel_tumor lnl_not_tumor). Qed.

(** sequencing *)
Lemma andthen_ok {S} (r : S * option args) f : snd (andthen r f) <> None ->
  exists a1, snd r = Some a1 /\ andthen r f = f (fst r) a1.
Proof. destruct r as [s [a1|]]; cbn; [intros _; exists a1; split; reflexivity | intros C; contradiction]. Qed.

(** tumour arcs first, LNL arcs second: afterwards BOTH declared symmetries hold,
    whatever the state before *)
Lemma b_spread_facts b a kw : b_names_ok b = true -> snd (b_set_spread_params b a kw) <> None ->
  let b' := fst (b_set_spread_params b a kw) in
  b_names_ok b' = true /\ b_shared b' /\
  same_config (b_ipsi b') (b_ipsi b) /\ same_config (b_contra b') (b_contra b) /\
  b_symT b' = b_symT b /\ b_symL b' = b_symL b.
Proof.
  intros Hok Hret. unfold b_set_spread_params in *.
  destruct (andthen_ok _ _ Hret) as (a1 & Ha1 & Heq). rewrite Heq in *. cbv zeta.
  assert (HretT : snd (b_set_tumor_spread_params b a kw) <> None) by (rewrite Ha1; discriminate).
  destruct (b_tumor_facts b a kw Hok HretT) as (Hok1 & HT & HLi & HLc & Hci & Hcc & HsT & HsL).
  set (b1 := fst (b_set_tumor_spread_params b a kw)) in *.
  destruct (b_lnl_facts b1 a1 kw Hok1 Hret) as (Hok2 & HL & HTi & HTc & Hci2 & Hcc2 & HsT2 & HsL2).
  set (b2 := fst (b_set_lnl_spread_params b1 a1 kw)) in *.
  split; [exact Hok2|]. split.
  - split.
    + intros H. rewrite HTi, HTc. apply HT. rewrite <- HsT, <- HsT2. exact H.
    + intros H. apply HL. rewrite <- HsL2. exact H.
  - repeat split; try (eapply same_config_trans; eassumption); congruence.
Qed.

(** * Bilateral: the distribution step *)
Lemma b_dist_lookups b kw : b_dist_kw_agree b kw ->
  forall k, In k (map fst (u_dist_items (b_ipsi b))) ->
    side_lk "ipsi" kw k = u_lk kw k /\ side_lk "contra" kw k = u_lk kw k.
Proof.
  intros Hag k Hk. unfold b_dist_kw_agree, b_dist_leaf_kwargs in Hag.
  destruct (side_kwargs kw) as [ikw ckw] eqn:Hsk. destruct (side_kwargs_lk kw ikw ckw Hsk) as [Hi Hc].
  rewrite <- Hi, <- Hc. split; apply Hag; cbn; tauto.
Qed.

Lemma dist_step_names_ok b dsi dsc newi newc : b_names_ok b = true ->
  dists_put (u_maxt (b_ipsi b)) (u_dists (b_ipsi b)) newi = Some dsi -> length newi = length (u_dist_items (b_ipsi b)) ->
  dists_put (u_maxt (b_contra b)) (u_dists (b_contra b)) newc = Some dsc -> length newc = length (u_dist_items (b_contra b)) ->
  b_names_ok (b_with b (u_with_dists (b_ipsi b) dsi) (u_with_dists (b_contra b) dsc)) = true.
Proof.
  intros H Hdi Hli Hdc Hlc.
  destruct (dists_put_spec _ _ _ _ Hdi Hli) as (qDi & _ & _ & Hni). destruct (dists_put_spec _ _ _ _ Hdc Hlc) as (qDc & _ & _ & Hnc).
  destruct (dists_put_shape _ _ _ _ Hdi Hli) as (Hki & Hkoi & _). destruct (dists_put_shape _ _ _ _ Hdc Hlc) as (Hkc & Hkoc & _).
  pose proof (dists_put_keys _ _ _ _ Hdi Hli) as Hii. pose proof (dists_put_keys _ _ _ _ Hdc Hlc) as Hic.
  unfold b_names_ok in *. unfold b_with. cbn [b_ipsi b_contra].
  unfold u_names_ok, u_tstages, same_dist_keys, same_shape, u_edge_names, u_edges in *.
  cbn [u_with_dists u_dists u_graph]. rewrite Hni, Hki, Hkoi, Hnc, Hkc, Hkoc, Hii, Hic. exact H.
Qed.

Lemma b_dist_facts b a kw : b_names_ok b = true -> snd (b_set_distribution_params b a kw) <> None ->
  let b' := fst (b_set_distribution_params b a kw) in
  b_names_ok b' = true /\
  u_T (b_ipsi b') = u_T (b_ipsi b) /\ u_T (b_contra b') = u_T (b_contra b) /\
  u_L (b_ipsi b') = u_L (b_ipsi b) /\ u_L (b_contra b') = u_L (b_contra b) /\
  b_symT b' = b_symT b /\ b_symL b' = b_symL b /\
  (same_config (b_contra b) (b_ipsi b) -> b_dist_kw_agree b kw -> same_config (b_contra b') (b_ipsi b')).
Proof.
  intros Hok Hret. pose proof (b_dist_step b a kw Hok) as Hs.
  destruct (dists_put (u_maxt (b_ipsi b)) _ _) as [dsi|] eqn:Ei; [|contradiction].
  destruct (dists_put (u_maxt (b_contra b)) _ _) as [dsc|] eqn:Ec; [|contradiction].
  rewrite Hs. cbn [fst]. cbv zeta. split.
  - eapply (dist_step_names_ok b dsi dsc); [exact Hok | exact Ei | apply plan_length | exact Ec | apply plan_length].
  - unfold b_with. cbn [b_ipsi b_contra b_symT b_symL]. repeat split.
    + destruct H as (Hm & _). exact Hm.
    + destruct H as (Hm & Hd & Hmt). cbn [u_with_dists u_dists].
      assert (Hp : plan (side_lk "contra" kw) (u_dist_items (b_contra b)) a = plan (side_lk "ipsi" kw) (u_dist_items (b_ipsi b)) a).
      { unfold u_dist_items. rewrite Hd. apply plan_ext. intros k Hk.
        destruct (b_dist_lookups b kw H0 k Hk) as [Hi Hc]. rewrite Hi, Hc. reflexivity. }
      rewrite Hp, Hd, Hmt, Ei in Ec. injection Ec as <-. reflexivity.
    + destruct H as (_ & _ & Hmt). exact Hmt.
Qed.

(** * Bilateral: the theorems *)
Lemma b_same_config_step b b' : same_config (b_ipsi b') (b_ipsi b) -> same_config (b_contra b') (b_contra b) ->
  b_same_config b -> b_same_config b'.
Proof.
  unfold b_same_config. intros Hi Hc H.
  eapply same_config_trans; [exact Hc|]. eapply same_config_trans; [exact H|]. apply same_config_sym, Hi.
Qed.

Theorem bilateral_preserved : C11_bilateral_preserved_stmt.
Proof.
  intros s b a kw Hok [[HshT HshL] Hcf] Hret b'. subst b'. destruct s; cbn [b_call touches_dists] in *.
  - (* set_params *)
    unfold b_set_params in *. destruct (andthen_ok _ _ Hret) as (a1 & Ha1 & Heq). rewrite Heq in *.
    assert (HretS : snd (b_set_spread_params b a kw) <> None) by (rewrite Ha1; discriminate).
    destruct (b_spread_facts b a kw Hok HretS) as (Hok1 & [HT1 HL1] & Hci & Hcc & HsT & HsL).
    set (b1 := fst (b_set_spread_params b a kw)) in *.
    destruct (b_dist_facts b1 a1 kw Hok1 Hret) as (Hok2 & HTi & HTc & HLi & HLc & HsT2 & HsL2 & Hcfg).
    split; [exact Hok2|]. split.
    + split; intros H; [rewrite HTi, HTc; apply HT1 | rewrite HLi, HLc; apply HL1]; congruence.
    + intros [C|Hag]; [discriminate|]. apply Hcfg.
      * apply (b_same_config_step b b1 Hci Hcc Hcf).
      * unfold b_dist_kw_agree in *. intros kwl k Hkwl Hk. apply Hag; [exact Hkwl|].
        destruct Hci as (_ & Hd & _). unfold u_dist_items in *. rewrite <- Hd. exact Hk.
  - (* set_tumor_spread_params *)
    destruct (b_tumor_facts b a kw Hok Hret) as (Hok1 & HT & HLi & HLc & Hci & Hcc & HsT & HsL).
    split; [exact Hok1|]. split.
    + split; intros H; [apply HT | rewrite HLi, HLc; apply HshL]; congruence.
    + intros _. apply (b_same_config_step b _ Hci Hcc Hcf).
  - (* set_lnl_spread_params *)
    destruct (b_lnl_facts b a kw Hok Hret) as (Hok1 & HL & HTi & HTc & Hci & Hcc & HsT & HsL).
    split; [exact Hok1|]. split.
    + split; intros H; [rewrite HTi, HTc; apply HshT | apply HL]; congruence.
    + intros _. apply (b_same_config_step b _ Hci Hcc Hcf).
  - (* set_spread_params *)
    destruct (b_spread_facts b a kw Hok Hret) as (Hok1 & Hsh & Hci & Hcc & HsT & HsL).
    split; [exact Hok1|]. split; [exact Hsh|]. intros _. apply (b_same_config_step b _ Hci Hcc Hcf).
  - (* set_distribution_params *)
    destruct (b_dist_facts b a kw Hok Hret) as (Hok2 & HTi & HTc & HLi & HLc & HsT2 & HsL2 & Hcfg).
    split; [exact Hok2|]. split.
    + split; intros H; [rewrite HTi, HTc; apply HshT | rewrite HLi, HLc; apply HshL]; congruence.
    + intros [C|Hag]; [discriminate|]. apply Hcfg; assumption.
Qed.

Lemma b_params_shared b a kw : b_names_ok b = true -> snd (b_set_params b a kw) <> None ->
  b_shared (fst (b_set_params b a kw)).
Proof.
  intros Hok Hret. unfold b_set_params in *. destruct (andthen_ok _ _ Hret) as (a1 & Ha1 & Heq). rewrite Heq in *.
  assert (HretS : snd (b_set_spread_params b a kw) <> None) by (rewrite Ha1; discriminate).
  destruct (b_spread_facts b a kw Hok HretS) as (Hok1 & [HT1 HL1] & _ & _ & HsT & HsL).
  destruct (b_dist_facts _ a1 kw Hok1 Hret) as (_ & HTi & HTc & HLi & HLc & HsT2 & HsL2 & _).
  split; intros H; [rewrite HTi, HTc; apply HT1 | rewrite HLi, HLc; apply HL1]; congruence.
Qed.

Theorem bilateral_shared_from_any_state : C11_bilateral_shared_from_any_state_stmt.
Proof.
  intros b a kw Hok. split; [|split; [|split]].
  - intros Hret H. destruct (b_tumor_facts b a kw Hok Hret) as (_ & HT & _). apply HT, H.
  - intros Hret H. destruct (b_lnl_facts b a kw Hok Hret) as (_ & HL & _). apply HL, H.
  - intros Hret. destruct (b_spread_facts b a kw Hok Hret) as (_ & Hsh & _). exact Hsh.
  - apply b_params_shared, Hok.
Qed.

(** * Freshly constructed composites *)
Lemma shape_eqb_refl es : shape_eqb es es = true.
Proof. induction es as [|e r IH]; [reflexivity|]. cbn [shape_eqb]. rewrite String.eqb_refl, Nat.eqb_refl, IH. reflexivity. Qed.
Lemma keys_eqb_refl ks : keys_eqb ks ks = true.
Proof. induction ks as [|k r IH]; [reflexivity|]. cbn [keys_eqb]. rewrite path_eqb_refl, IH. reflexivity. Qed.
Lemma same_shape_refl u : same_shape u u = true.
Proof. unfold same_shape. rewrite Nat.eqb_refl, shape_eqb_refl. reflexivity. Qed.
Lemma b_names_ok_twice u symT symL : u_names_ok u = true ->
  b_names_ok {| b_ipsi := u; b_contra := u; b_symT := symT; b_symL := symL |} = true.
Proof.
  intros H. unfold b_names_ok, same_dist_keys. cbn [b_ipsi b_contra]. rewrite H, same_shape_refl, keys_eqb_refl. reflexivity.
Qed.
Lemma mixed_items_same mix T : mixed_items mix T T = T.
Proof.
  unfold mixed_items. induction T as [|[k v] T IH]; [reflexivity|]. cbn [map combine fst snd]. rewrite IH. f_equal. f_equal. ring.
Qed.

Theorem fresh_consistent : C11_fresh_consistent_stmt.
Proof.
  intros u Hu. split; [|split].
  - intros symT symL. split; [apply b_names_ok_twice, Hu|]. unfold new_bilateral. repeat split.
  - intros mix cen evo unk symL. split.
    + unfold m_wf, new_midline, new_bilateral. cbn [ml_ext ml_noext ml_central ml_unknown].
      rewrite !(b_names_ok_twice u) by exact Hu. destruct cen, unk; cbn [opt_ok b_symT]; rewrite ?(b_names_ok_twice u) by exact Hu; reflexivity.
    + assert (Hall : forall v, In v (all_leaves (new_midline u mix cen evo unk symL)) -> v = u).
      { intros v. unfold all_leaves, new_midline, new_bilateral, ext_i, ext_c, noext_i, noext_c.
        cbn [ml_ext ml_noext ml_central ml_unknown b_ipsi b_contra].
        destruct cen, unk; cbn [opt_leaves b_ipsi b_contra app In]; intuition. }
      assert (Hei : ext_i (new_midline u mix cen evo unk symL) = u) by reflexivity.
      assert (Hec : ext_c (new_midline u mix cen evo unk symL) = u) by reflexivity.
      assert (Hnc : noext_c (new_midline u mix cen evo unk symL) = u) by reflexivity.
      split.
      * unfold m_shared. rewrite Hei, Hec, Hnc.
        assert (Hi : forall v, In v (ipsi_leaves (new_midline u mix cen evo unk symL)) -> v = u).
        { intros v. unfold ipsi_leaves, new_midline, new_bilateral, ext_i, noext_i.
          cbn [ml_ext ml_noext ml_central b_ipsi]. destruct cen; cbn [opt_leaves b_ipsi app In]; intuition. }
        assert (Hc : forall v, In v (contra_leaves (new_midline u mix cen evo unk symL)) -> v = u).
        { intros v. unfold contra_leaves, new_midline, new_bilateral, ext_c, noext_c.
          cbn [ml_ext ml_noext ml_central b_contra]. destruct cen; cbn [opt_leaves b_contra app In]; intuition. }
        repeat split.
        -- intros v Hv. rewrite (Hi v Hv). reflexivity.
        -- intros c. unfold new_midline. cbn [ml_central]. destruct cen; [|discriminate]. intros [= <-]. reflexivity.
        -- intros q _. symmetry. apply mixed_items_same.
        -- intros v Hv. rewrite (Hi v Hv). reflexivity.
        -- intros v Hv. rewrite (Hc v Hv). reflexivity.
      * intros v Hv. rewrite (Hall v Hv), Hei. apply same_config_refl.
  - split.
    + unfold h_names_ok, new_hpv. cbn [h_hpv h_nohpv]. rewrite Hu, same_shape_refl. reflexivity.
    + repeat split.
Qed.

(** * Modalities, distributions, max_time *)
(** an operation of the two Composite base classes never touches the graph, and what
    it does to modalities / distributions / max_time depends on these only *)
Definition cfg_fun (f : uni -> uni * bool) : Prop :=
  (forall u, u_graph (fst (f u)) = u_graph u) /\
  (forall u1 u2, same_config u1 u2 -> same_config (fst (f u1)) (fst (f u2)) /\ snd (f u1) = snd (f u2)).

Lemma leaf_set_modality_fun name spec sens p : cfg_fun (fun u => leaf_set_modality u name spec sens p).
Proof.
  split.
  - intros u. unfold leaf_set_modality. destruct (mk_modality spec sens p); reflexivity.
  - intros u1 u2 (Hm & Hd & Ht). unfold leaf_set_modality. destruct (mk_modality spec sens p); cbn [fst snd].
    + unfold same_config. cbn [u_with_mods u_mods u_dists u_maxt]. rewrite Hm. repeat split; assumption.
    + repeat split; assumption.
Qed.
Lemma leaf_set_modalities_fun l : cfg_fun (fun u => leaf_set_modalities u l).
Proof.
  induction l as [|[name [[spec sens] p]] r IH]; [split; [reflexivity | intros u1 u2 H; split; [exact H | reflexivity]]|].
  destruct (leaf_set_modality_fun name spec sens p) as [G1 D1]. destruct IH as [G2 D2]. split.
  - intros u. cbn [leaf_set_modalities]. specialize (G1 u). destruct (leaf_set_modality u name spec sens p) as [u' [|]]; cbn [fst] in *.
    + rewrite G2. exact G1.
    + exact G1.
  - intros u1 u2 H. cbn [leaf_set_modalities]. destruct (D1 u1 u2 H) as [Hc Hs].
    destruct (leaf_set_modality u1 name spec sens p) as [u1' o1]. destruct (leaf_set_modality u2 name spec sens p) as [u2' o2].
    cbn [fst snd] in *. subst o2. destruct o1; [apply D2, Hc | split; [exact Hc | reflexivity]].
Qed.
Lemma leaf_set_distribution_fun t d : cfg_fun (fun u => leaf_set_distribution u t d).
Proof.
  split.
  - intros u. unfold leaf_set_distribution. destruct (mk_dist (u_maxt u) d); reflexivity.
  - intros u1 u2 (Hm & Hd & Ht). unfold leaf_set_distribution. rewrite Ht. destruct (mk_dist (u_maxt u2) d); cbn [fst snd].
    + unfold same_config. cbn [u_with_dists u_mods u_dists u_maxt]. rewrite Hd. repeat split; assumption.
    + repeat split; assumption.
Qed.
Lemma leaf_set_distributions_fun l : cfg_fun (fun u => leaf_set_distributions u l).
Proof.
  induction l as [|[t d] r IH]; [split; [reflexivity | intros u1 u2 H; split; [exact H | reflexivity]]|].
  destruct (leaf_set_distribution_fun t d) as [G1 D1]. destruct IH as [G2 D2]. split.
  - intros u. cbn [leaf_set_distributions]. specialize (G1 u). destruct (leaf_set_distribution u t d) as [u' [|]]; cbn [fst] in *.
    + rewrite G2. exact G1.
    + exact G1.
  - intros u1 u2 H. cbn [leaf_set_distributions]. destruct (D1 u1 u2 H) as [Hc Hs].
    destruct (leaf_set_distribution u1 t d) as [u1' o1]. destruct (leaf_set_distribution u2 t d) as [u2' o2].
    cbn [fst snd] in *. subst o2. destruct o1; [apply D2, Hc | split; [exact Hc | reflexivity]].
Qed.

Lemma leaf_cfg_fun o : cfg_fun (leaf_cfg o).
Proof.
  destruct o.
  - apply leaf_set_modality_fun.
  - split.
    + intros u. cbn [leaf_cfg]. destruct (dict_get name (u_mods u)); reflexivity.
    + intros u1 u2 (Hm & Hd & Ht). cbn [leaf_cfg]. rewrite Hm.
      destruct (dict_get name (u_mods u2)); cbn [fst snd]; repeat split; try assumption.
  - destruct (leaf_set_modalities_fun l) as [G D]. split.
    + intros u. cbn [leaf_cfg]. rewrite G. reflexivity.
    + intros u1 u2 (Hm & Hd & Ht). cbn [leaf_cfg]. apply D. repeat split; assumption.
  - split; [reflexivity|]. intros u1 u2 (Hm & Hd & Ht). repeat split; assumption.
  - apply leaf_set_distribution_fun.
  - split.
    + intros u. cbn [leaf_cfg]. destruct (dict_get t (u_dists u)); reflexivity.
    + intros u1 u2 (Hm & Hd & Ht). cbn [leaf_cfg]. rewrite Hd.
      destruct (dict_get t (u_dists u2)); cbn [fst snd]; repeat split; try assumption.
  - destruct (leaf_set_distributions_fun l) as [G D]. split.
    + intros u. cbn [leaf_cfg]. rewrite G. reflexivity.
    + intros u1 u2 (Hm & Hd & Ht). cbn [leaf_cfg]. apply D. repeat split; assumption.
  - split; [reflexivity|]. intros u1 u2 (Hm & Hd & Ht). repeat split; assumption.
  - split.
    + intros u. cbn [leaf_cfg]. destruct (v <? 0)%Z; reflexivity.
    + intros u1 u2 (Hm & Hd & Ht). cbn [leaf_cfg]. destruct (v <? 0)%Z; cbn [fst snd]; repeat split; assumption.
Qed.

Lemma graph_T u u' : u_graph u' = u_graph u -> u_T u' = u_T u.
Proof. intros H. unfold u_T, u_tumor_items, u_tri, u_edges. rewrite H. reflexivity. Qed.
Lemma graph_L u u' : u_graph u' = u_graph u -> u_L u' = u_L u.
Proof. intros H. unfold u_L, u_lnl_items, u_tri, u_edges. rewrite H. reflexivity. Qed.

Section Cfg.
  Variable f : uni -> uni * bool.
  Hypothesis Hf : cfg_fun f.
  Let fT u : u_T (fst (f u)) = u_T u. Proof. apply graph_T, Hf. Qed.
  Let fL u : u_L (fst (f u)) = u_L u. Proof. apply graph_L, Hf. Qed.
  Let fC u1 u2 : same_config u1 u2 -> same_config (fst (f u1)) (fst (f u2)). Proof. intros H. apply Hf, H. Qed.
  Let fS u1 u2 : same_config u1 u2 -> snd (f u1) = snd (f u2). Proof. intros H. apply Hf, H. Qed.

  (** a bilateral model whose two sides have the same configuration *)
  Lemma b_cfg_spec b : b_same_config b ->
    snd (b_cfg f b) = snd (f (b_ipsi b)) /\
    (snd (b_cfg f b) = true -> fst (b_cfg f b) = b_with b (fst (f (b_ipsi b))) (fst (f (b_contra b)))).
  Proof.
    intros H. unfold b_cfg. pose proof (fS _ _ H) as Hs.
    destruct (f (b_ipsi b)) as [i' [|]]; destruct (f (b_contra b)) as [c' oc]; cbn [fst snd] in *; subst; split; try reflexivity; discriminate.
  Qed.

  Lemma b_cfg_consistent b : b_consistent b -> snd (b_cfg f b) = true -> b_consistent (fst (b_cfg f b)).
  Proof.
    intros [[HT HL] Hc] Hok. destruct (b_cfg_spec b Hc) as [_ He]. rewrite (He Hok). unfold b_with.
    split; [split|]; cbn [b_ipsi b_contra b_symT b_symL].
    - intros H. rewrite !fT. apply HT, H.
    - intros H. rewrite !fL. apply HL, H.
    - apply fC, Hc.
  Qed.

  Lemma h_cfg_consistent h : h_consistent h -> snd (h_cfg f h) = true -> h_consistent (fst (h_cfg f h)).
  Proof.
    intros [HL Hc] Hok. unfold h_cfg in *. pose proof (fS _ _ Hc) as Hs. pose proof (fC _ _ Hc) as Hcc.
    pose proof (fL (h_hpv h)) as L1. pose proof (fL (h_nohpv h)) as L2.
    destruct (f (h_hpv h)) as [p' [|]]; destruct (f (h_nohpv h)) as [n' on]; cbn [fst snd] in *; try discriminate.
    split; unfold h_shared, h_same_config, h_with; cbn [h_hpv h_nohpv]; [rewrite L1, L2; exact HL | exact Hcc].
  Qed.
  Lemma h_cfg_first h : h_consistent h -> snd (h_cfg f h) = snd (f (h_hpv h)).
  Proof.
    intros [HL Hc]. unfold h_cfg. pose proof (fS _ _ Hc) as Hs.
    destruct (f (h_hpv h)) as [p' [|]]; destruct (f (h_nohpv h)) as [n' on]; cbn [fst snd] in *; subst; reflexivity.
  Qed.
End Cfg.

(** ** Midline: the same leaf function applied to every leaf *)
Definition bmap (g : uni -> uni) (b : bilateral) : bilateral := b_with b (g (b_ipsi b)) (g (b_contra b)).
Definition m_map (g : uni -> uni) (m : midline) : midline :=
  ml_with_models m (bmap g (ml_ext m)) (bmap g (ml_noext m)) (option_map (bmap g) (ml_central m)) (option_map (bmap g) (ml_unknown m)).
Lemma opt_leaves_map g ob : 
  opt_leaves (option_map (bmap g) ob) b_ipsi = map g (opt_leaves ob b_ipsi) /\
  opt_leaves (option_map (bmap g) ob) b_contra = map g (opt_leaves ob b_contra).
Proof. destruct ob; split; reflexivity. Qed.
Lemma ipsi_leaves_map g m : ipsi_leaves (m_map g m) = map g (ipsi_leaves m).
Proof.
  unfold ipsi_leaves, m_map, ext_i, noext_i. cbn [ml_with_models ml_ext ml_noext ml_central].
  rewrite map_app. destruct (opt_leaves_map g (ml_central m)) as [-> _]. reflexivity.
Qed.
Lemma contra_leaves_map g m : contra_leaves (m_map g m) = map g (contra_leaves m).
Proof.
  unfold contra_leaves, m_map, ext_c, noext_c. cbn [ml_with_models ml_ext ml_noext ml_central].
  rewrite map_app. destruct (opt_leaves_map g (ml_central m)) as [_ ->]. reflexivity.
Qed.
Lemma all_leaves_map g m : all_leaves (m_map g m) = map g (all_leaves m).
Proof.
  unfold all_leaves, m_map, ext_i, ext_c, noext_i, noext_c. cbn [ml_with_models ml_ext ml_noext ml_central ml_unknown].
  rewrite !map_app. destruct (opt_leaves_map g (ml_central m)) as [-> ->]. destruct (opt_leaves_map g (ml_unknown m)) as [-> ->]. reflexivity.
Qed.

Lemma m_map_consistent g m :
  (forall u, u_T (g u) = u_T u) -> (forall u, u_L (g u) = u_L u) ->
  (forall u1 u2, same_config u1 u2 -> same_config (g u1) (g u2)) ->
  m_consistent m -> m_consistent (m_map g m).
Proof.
  intros gT gL gC [(H1 & H2 & H3 & H4 & H5 & H6) Hc].
  assert (Ei : ext_i (m_map g m) = g (ext_i m)) by reflexivity.
  assert (Ec : ext_c (m_map g m) = g (ext_c m)) by reflexivity.
  assert (En : noext_c (m_map g m) = g (noext_c m)) by reflexivity.
  split.
  - unfold m_shared. rewrite Ei, Ec, En, ipsi_leaves_map, contra_leaves_map, !gT, !gL. repeat split.
    + intros u Hu. apply in_map_iff in Hu. destruct Hu as (u0 & <- & Hu0). rewrite gT. apply H1, Hu0.
    + intros c Hcen. unfold m_map in Hcen. cbn [ml_with_models ml_central] in Hcen.
      destruct (ml_central m) as [c0|] eqn:E0; [|discriminate]. injection Hcen as <-.
      unfold bmap, b_with. cbn [b_contra]. rewrite gT. apply (H2 c0). reflexivity.
    + exact H3.
    + intros u Hu. apply in_map_iff in Hu. destruct Hu as (u0 & <- & Hu0). rewrite gL. apply H4, Hu0.
    + intros u Hu. apply in_map_iff in Hu. destruct Hu as (u0 & <- & Hu0). rewrite gL. apply H5, Hu0.
    + exact H6.
  - intros u Hu. rewrite all_leaves_map in Hu. apply in_map_iff in Hu. destruct Hu as (u0 & <- & Hu0). rewrite Ei. apply gC, Hc, Hu0.
Qed.

Section CfgM.
  Variable f : uni -> uni * bool.
  Hypothesis Hf : cfg_fun f.
  Let g u := fst (f u).
  Let fS u1 u2 : same_config u1 u2 -> snd (f u1) = snd (f u2). Proof. intros H. apply Hf, H. Qed.

  Lemma m_leaf_in_all m :
    In (ext_i m) (all_leaves m) /\ In (ext_c m) (all_leaves m) /\ In (noext_i m) (all_leaves m) /\ In (noext_c m) (all_leaves m) /\
    (forall c, ml_central m = Some c -> In (b_ipsi c) (all_leaves m) /\ In (b_contra c) (all_leaves m)) /\
    (forall k, ml_unknown m = Some k -> In (b_ipsi k) (all_leaves m) /\ In (b_contra k) (all_leaves m)).
  Proof.
    unfold all_leaves. split; [|split; [|split; [|split; [|split]]]]; try (cbn; tauto).
    - intros c ->. cbn [opt_leaves]. rewrite !in_app_iff. cbn. tauto.
    - intros k ->. cbn [opt_leaves]. rewrite !in_app_iff. cbn. tauto.
  Qed.

  Lemma b_cfg_in m b : m_same_config m -> In (b_ipsi b) (all_leaves m) -> In (b_contra b) (all_leaves m) ->
    snd (b_cfg f b) = snd (f (ext_i m)) /\ (snd (b_cfg f b) = true -> fst (b_cfg f b) = bmap g b).
  Proof.
    intros Hc Hi Hcn.
    assert (Hb : b_same_config b).
    { unfold b_same_config. eapply same_config_trans; [apply Hc, Hcn | apply same_config_sym, Hc, Hi]. }
    destruct (b_cfg_spec f Hf b Hb) as [Hs He]. split; [|exact He]. rewrite Hs. apply fS, Hc, Hi.
  Qed.

  Lemma m_cfg_spec m : m_same_config m ->
    snd (m_cfg f m) = snd (f (ext_i m)) /\ (snd (m_cfg f m) = true -> fst (m_cfg f m) = m_map g m).
  Proof.
    intros Hc. destruct (m_leaf_in_all m) as (I1 & I2 & I3 & I4 & I5 & I6).
    destruct (b_cfg_in m (ml_ext m) Hc I1 I2) as [S1 E1]. destruct (b_cfg_in m (ml_noext m) Hc I3 I4) as [S2 E2].
    unfold m_cfg, m_map. destruct (b_cfg f (ml_ext m)) as [e' ok1]. cbn [fst snd] in *.
    destruct ok1; cbn [negb]; [|split; [exact S1 | cbn [snd]; discriminate]].
    rewrite (E1 eq_refl). destruct (b_cfg f (ml_noext m)) as [n' ok2]. cbn [fst snd] in *.
    destruct ok2; cbn [negb]; [|split; [cbn [snd]; exact S2 | cbn [snd]; discriminate]].
    rewrite (E2 eq_refl).
    assert (HC : snd (opt_cfg f (ml_central m)) = true /\ fst (opt_cfg f (ml_central m)) = option_map (bmap g) (ml_central m)
                 \/ snd (opt_cfg f (ml_central m)) = false).
    { destruct (ml_central m) as [c|] eqn:Ecen; [|left; split; reflexivity]. destruct (I5 c eq_refl) as [Ia Ib].
      destruct (b_cfg_in m c Hc Ia Ib) as [S3 E3]. unfold opt_cfg. destruct (b_cfg f c) as [c' ok3]. cbn [fst snd] in *.
      destruct ok3; [left; split; [reflexivity | rewrite (E3 eq_refl); reflexivity] | right; reflexivity]. }
    assert (HCs : snd (opt_cfg f (ml_central m)) = false -> snd (f (ext_i m)) = false).
    { destruct (ml_central m) as [c|] eqn:Ecen; [|discriminate]. destruct (I5 c eq_refl) as [Ia Ib].
      destruct (b_cfg_in m c Hc Ia Ib) as [S3 _]. unfold opt_cfg. destruct (b_cfg f c) as [c' ok3]. cbn [fst snd] in *. congruence. }
    destruct (opt_cfg f (ml_central m)) as [c' ok3]. cbn [fst snd] in *.
    destruct HC as [[-> ->] | ->]; cbn [negb]; [|split; [cbn [snd]; symmetry; apply HCs; reflexivity | cbn [snd]; discriminate]].
    destruct (ml_unknown m) as [k|] eqn:Eunk; cbn [opt_cfg option_map].
    - destruct (I6 k eq_refl) as [Ia Ib]. destruct (b_cfg_in m k Hc Ia Ib) as [S4 E4].
      destruct (b_cfg f k) as [k' ok4]. cbn [fst snd] in *. split; [exact S4|]. intros ->. rewrite (E4 eq_refl). reflexivity.
    - cbn [fst snd]. split; [exact S1 | reflexivity].
  Qed.

  Lemma m_cfg_consistent m : m_consistent m -> snd (m_cfg f m) = true -> m_consistent (fst (m_cfg f m)).
  Proof.
    intros Hm Hok. destruct (m_cfg_spec m (proj2 Hm)) as [_ He]. rewrite (He Hok).
    apply m_map_consistent; [intros u; apply graph_T, Hf | intros u; apply graph_L, Hf | intros u1 u2 H; apply Hf, H | exact Hm].
  Qed.
End CfgM.

Lemma cfg_preserves_all o : cfg_preserves o.
Proof.
  pose proof (leaf_cfg_fun o) as Hf. split; [|split].
  - intros b. apply b_cfg_consistent, Hf.
  - intros m. apply m_cfg_consistent, Hf.
  - intros h. apply h_cfg_consistent, Hf.
Qed.
Theorem modalities_equal : C11_modalities_equal_stmt.
Proof. intros o _. apply cfg_preserves_all. Qed.
Theorem distributions_equal : C11_distributions_equal_stmt.
Proof. intros o _. apply cfg_preserves_all. Qed.
Theorem max_time_equal : C11_max_time_equal_stmt.
Proof. intros v. apply cfg_preserves_all. Qed.
Theorem cfg_all_or_first : C11_cfg_all_or_first_stmt.
Proof.
  intros o. pose proof (leaf_cfg_fun o) as Hf. split; [|split].
  - intros b [_ Hc]. apply (b_cfg_spec _ Hf b Hc).
  - intros m [_ Hc]. apply (m_cfg_spec _ Hf m Hc).
  - intros h Hh. apply (h_cfg_first _ Hf h Hh).
Qed.

(** * Midline: leaves by identifier *)
Definition ipsi_ids : list leaf_id := [LExtIpsi; LNoextIpsi; LCentralIpsi].
Definition contra_ids : list leaf_id := [LExtContra; LNoextContra; LCentralContra].

Lemma in_ipsi_leaves m u : In u (ipsi_leaves m) <-> exists l, In l ipsi_ids /\ ml_leaf m l = Some u.
Proof.
  unfold ipsi_leaves, ipsi_ids, ext_i, noext_i. split.
  - intros H. apply in_app_iff in H. destruct H as [[<-|[<-|[]]]|H].
    + exists LExtIpsi. split; [cbn; tauto | reflexivity].
    + exists LNoextIpsi. split; [cbn; tauto | reflexivity].
    + exists LCentralIpsi. split; [cbn; tauto|]. cbn [ml_leaf]. destruct (ml_central m); cbn in *; [destruct H as [<-|[]]; reflexivity | destruct H].
  - intros (l & Hl & E). apply in_app_iff. destruct Hl as [<-|[<-|[<-|[]]]]; cbn [ml_leaf] in E.
    + injection E as <-. left. cbn. tauto.
    + injection E as <-. left. cbn. tauto.
    + right. destruct (ml_central m); cbn in *; [injection E as <-; tauto | discriminate].
Qed.
Lemma in_contra_leaves m u : In u (contra_leaves m) <-> exists l, In l contra_ids /\ ml_leaf m l = Some u.
Proof.
  unfold contra_leaves, contra_ids, ext_c, noext_c. split.
  - intros H. apply in_app_iff in H. destruct H as [[<-|[<-|[]]]|H].
    + exists LExtContra. split; [cbn; tauto | reflexivity].
    + exists LNoextContra. split; [cbn; tauto | reflexivity].
    + exists LCentralContra. split; [cbn; tauto|]. cbn [ml_leaf]. destruct (ml_central m); cbn in *; [destruct H as [<-|[]]; reflexivity | destruct H].
  - intros (l & Hl & E). apply in_app_iff. destruct Hl as [<-|[<-|[<-|[]]]]; cbn [ml_leaf] in E.
    + injection E as <-. left. cbn. tauto.
    + injection E as <-. left. cbn. tauto.
    + right. destruct (ml_central m); cbn in *; [injection E as <-; tauto | discriminate].
Qed.
Lemma in_all_leaves m u : In u (all_leaves m) <->
  (exists l, ml_leaf m l = Some u) \/ (exists k, ml_unknown m = Some k /\ (u = b_ipsi k \/ u = b_contra k)).
Proof.
  unfold all_leaves, ext_i, ext_c, noext_i, noext_c. rewrite !in_app_iff. split.
  - intros [[<-|[<-|[<-|[<-|[]]]]]|[H|[H|[H|H]]]].
    + left. exists LExtIpsi. reflexivity.
    + left. exists LExtContra. reflexivity.
    + left. exists LNoextIpsi. reflexivity.
    + left. exists LNoextContra. reflexivity.
    + left. exists LCentralIpsi. cbn [ml_leaf]. destruct (ml_central m); cbn in *; [destruct H as [<-|[]]; reflexivity | destruct H].
    + left. exists LCentralContra. cbn [ml_leaf]. destruct (ml_central m); cbn in *; [destruct H as [<-|[]]; reflexivity | destruct H].
    + right. destruct (ml_unknown m) as [k|]; cbn in *; [destruct H as [<-|[]]; exists k; tauto | destruct H].
    + right. destruct (ml_unknown m) as [k|]; cbn in *; [destruct H as [<-|[]]; exists k; tauto | destruct H].
  - intros [(l & E)|(k & E & H)].
    + destruct l; cbn [ml_leaf] in E.
      * right. left. destruct (ml_central m); cbn in *; [injection E as <-; tauto | discriminate].
      * right. right. left. destruct (ml_central m); cbn in *; [injection E as <-; tauto | discriminate].
      * injection E as <-. left. cbn. tauto.
      * injection E as <-. left. cbn. tauto.
      * injection E as <-. left. cbn. tauto.
      * injection E as <-. left. cbn. tauto.
    + right. right. right. rewrite E. cbn. destruct H as [->| ->]; tauto.
Qed.

(** [m'] is [m] with every parameter leaf [u] at [l] replaced by [tr l u] *)
Record mid_rel (tr : leaf_id -> uni -> uni) (m m' : midline) : Prop := {
  mr_leaf : forall l, ml_leaf m' l = option_map (tr l) (ml_leaf m l);
  mr_unknown : ml_unknown m' = ml_unknown m;
  mr_symL : ml_symL m' = ml_symL m;
  mr_csym : option_map b_symT (ml_central m') = option_map b_symT (ml_central m) }.

Lemma mid_rel_refl m : mid_rel (fun _ u => u) m m.
Proof. split; try reflexivity. intros l. destruct (ml_leaf m l); reflexivity. Qed.
Lemma mid_rel_trans t1 t2 m m1 m2 : mid_rel t1 m m1 -> mid_rel t2 m1 m2 -> mid_rel (fun l u => t2 l (t1 l u)) m m2.
Proof.
  intros [A1 A2 A3 A4] [B1 B2 B3 B4]. split; try congruence.
  intros l. rewrite B1, A1. destruct (ml_leaf m l); reflexivity.
Qed.
Lemma mid_rel_ext t1 t2 m m' : (forall l u, ml_leaf m l = Some u -> t1 l u = t2 l u) -> mid_rel t1 m m' -> mid_rel t2 m m'.
Proof.
  intros H [A1 A2 A3 A4]. split; try assumption. intros l. rewrite A1. destruct (ml_leaf m l) as [u|] eqn:E; [|reflexivity].
  cbn. rewrite (H l u E). reflexivity.
Qed.

Definition leaf_eqb (a b : leaf_id) : bool :=
  match a, b with
  | LCentralIpsi, LCentralIpsi | LCentralContra, LCentralContra | LExtIpsi, LExtIpsi
  | LExtContra, LExtContra | LNoextIpsi, LNoextIpsi | LNoextContra, LNoextContra => true
  | _, _ => false
  end.
Lemma leaf_eqb_eq a b : leaf_eqb a b = true <-> a = b.
Proof. destruct a, b; cbn; split; intros; try reflexivity; try discriminate. Qed.
Lemma leaf_eqb_refl a : leaf_eqb a a = true. Proof. destruct a; reflexivity. Qed.

(** replacing one existing leaf *)
Lemma mid_rel_with_leaf m l u u' : ml_leaf m l = Some u ->
  mid_rel (fun l' v => if leaf_eqb l' l then u' else v) m (ml_with_leaf m l u').
Proof.
  intros E. destruct l; cbn [ml_leaf] in E; cbn [ml_with_leaf].
  1,2: destruct (ml_central m) as [c|] eqn:Ec; [|discriminate].
  all: split; try reflexivity; try (cbn [ml_with_central ml_with_models ml_central]; rewrite ?Ec; reflexivity).
  all: intros l'; destruct l'; cbn [ml_leaf ml_with_central ml_with_ext ml_with_noext ml_with_models ml_central ml_ext ml_noext
                                   b_with_ipsi b_with_contra b_with b_ipsi b_contra option_map leaf_eqb]; rewrite ?Ec; try reflexivity;
    destruct (ml_central m); reflexivity.
Qed.
Lemma mid_rel_with_mixing m q : mid_rel (fun _ u => u) m (ml_with_mixing m q).
Proof. split; try reflexivity. intros l. destruct l; cbn; destruct (ml_central m); reflexivity. Qed.
Lemma mid_rel_with_midext m q : mid_rel (fun _ u => u) m (ml_with_midext m q).
Proof. split; try reflexivity. intros l. destruct l; cbn; destruct (ml_central m); reflexivity. Qed.
Lemma mid_rel_with_central m c c' : ml_central m = Some c -> b_symT c' = b_symT c ->
  mid_rel (fun l v => match l with LCentralIpsi => b_ipsi c' | LCentralContra => b_contra c' | _ => v end) m (ml_with_central m c').
Proof.
  intros Ec Hs. split; try reflexivity.
  - intros l. destruct l; cbn; rewrite ?Ec; reflexivity.
  - cbn. rewrite Ec. cbn. rewrite Hs. reflexivity.
Qed.
