(** SyncProofs: proofs of the C11 statements of Sync.v.  The description of what one
    leaf setter does ([leaf_step_ok] / [leaf_step_fail], [b_side_spec], [b_dist_step],
    [u_set_dist_spec]) is the one proved for C10 (ParamsProofs.v, ParamsBilateral.v). *)
From LymphModel Require Import Base States Linalg Graph Transition Observation Dist Unilateral Models Params
  ParamsStatements ParamsLemmas ParamsProofs ParamsBilateral Sync.
Local Open Scope nat_scope.
Local Open Scope string_scope.
Local Open Scope list_scope.

(** * Small facts *)
Lemma same_config_refl u : same_config u u.
Proof. repeat split. Qed.
Lemma same_config_sym u1 u2 : same_config u1 u2 -> same_config u2 u1.
Proof. intros (A & B & C). repeat split; symmetry; assumption. Qed.
Lemma same_config_trans u1 u2 u3 : same_config u1 u2 -> same_config u2 u3 -> same_config u1 u3.
Proof. intros (A & B & C) (A' & B' & C'). repeat split; etransitivity; eassumption. Qed.

Lemma tumor_lnl_disj e : is_tumor_spread e = true -> sel_lnl e = false.
Proof. apply tumor_not_lnl. Qed.
Lemma lnl_tumor_disj e : sel_lnl e = true -> is_tumor_spread e = false.
Proof. apply lnl_not_tumor. Qed.

(** * One leaf, one group of arcs *)
Definition leaf_set (sel : edge -> bool) (u : uni) (a : args) (kw : kwargs) : uni * option args :=
  lift_graph u (graph_set_params_sel sel (u_graph u) a kw).
Lemma u_set_tumor_is_leaf_set u a kw : u_set_tumor_spread_params u a kw = leaf_set is_tumor_spread u a kw.
Proof. reflexivity. Qed.
Lemma u_set_lnl_is_leaf_set u a kw : u_set_lnl_spread_params u a kw = leaf_set sel_lnl u a kw.
Proof. reflexivity. Qed.

(** a call either raises or puts the planned values *)
Lemma leaf_set_cases sel u a kw : u_names_ok u = true ->
  snd (leaf_set sel u a kw) = None \/
  exists qs, all_unit (plan (u_lk kw) (u_sel_items sel u) a) = Some qs /\ length qs = length (u_sel_items sel u) /\
             leaf_set sel u a kw = (u_put_sel sel u qs, Some (skipn (length (u_sel_items sel u)) a)).
Proof.
  intros H. unfold leaf_set. destruct (all_unit (plan (u_lk kw) (u_sel_items sel u) a)) as [qs|] eqn:E.
  - right. exists qs. split; [reflexivity|]. split.
    + apply all_unit_length in E. rewrite plan_length in E. exact E.
    + apply leaf_step_ok; assumption.
  - left. apply leaf_step_fail; assumption.
Qed.

(** what [u_put_sel] leaves alone *)
Lemma u_put_sel_mods sel u qs : u_mods (u_put_sel sel u qs) = u_mods u. Proof. reflexivity. Qed.
Lemma u_put_sel_dists sel u qs : u_dists (u_put_sel sel u qs) = u_dists u. Proof. reflexivity. Qed.
Lemma u_put_sel_maxt sel u qs : u_maxt (u_put_sel sel u qs) = u_maxt u. Proof. reflexivity. Qed.
Lemma u_put_sel_config sel u qs : same_config (u_put_sel sel u qs) u.
Proof. repeat split. Qed.
Lemma u_put_sel_T_lnl u qs : u_T (u_put_sel sel_lnl u qs) = u_T u.
Proof. apply (u_sel_items_put_other sel_lnl is_tumor_spread); [apply kind_sel_tumor | apply lnl_not_tumor]. Qed.
Lemma u_put_sel_L_tumor u qs : u_L (u_put_sel is_tumor_spread u qs) = u_L u.
Proof. apply (u_sel_items_put_other is_tumor_spread sel_lnl); [apply kind_sel_lnl | apply tumor_not_lnl]. Qed.

(** two leaves with the same parameters of the group receive the same values *)
Lemma leaf_set_same sel u1 u2 a kw : kind_sel sel -> u_names_ok u1 = true -> u_names_ok u2 = true ->
  u_sel_items sel u1 = u_sel_items sel u2 ->
  snd (leaf_set sel u1 a kw) = snd (leaf_set sel u2 a kw) /\
  (snd (leaf_set sel u1 a kw) <> None ->
   u_sel_items sel (fst (leaf_set sel u1 a kw)) = u_sel_items sel (fst (leaf_set sel u2 a kw))).
Proof.
  intros Hk H1 H2 He.
  destruct (leaf_set_cases sel u1 a kw H1) as [N1|(q1 & E1 & L1 & R1)];
    destruct (leaf_set_cases sel u2 a kw H2) as [N2|(q2 & E2 & L2 & R2)].
  - rewrite N1, N2. split; [reflexivity | intros C; contradiction].
  - rewrite <- He in E2. unfold leaf_set in N1. pose proof (leaf_step_ok sel u1 a kw q2 H1 E2) as X.
    unfold leaf_set in *. rewrite X in N1. discriminate.
  - rewrite He in E1. pose proof (leaf_step_ok sel u2 a kw q1 H2 E1) as X.
    unfold leaf_set in *. rewrite X in N2. discriminate.
  - rewrite He in E1. rewrite E1 in E2. injection E2 as <-. rewrite R1, R2. cbn [fst snd]. split.
    + rewrite He. reflexivity.
    + intros _. rewrite !u_sel_items_put by assumption. rewrite He. reflexivity.
Qed.

(** * Bilateral: one group of arcs on both sides *)
Section Side.
  Variables (sel sel' : edge -> bool).
  Hypothesis Hsel : kind_sel sel.
  Hypothesis Hsel' : kind_sel sel'.
  Hypothesis Hdisj : forall e, sel e = true -> sel' e = false.

  (** after a normal return: well-formed, the group is equal on both sides when it is
      declared symmetric (from ANY previous state), the other group and the
      configuration are untouched *)
  Lemma b_side_facts sym b a kw : b_names_ok b = true ->
    snd (b_set_side_params sel sym b a kw) <> None ->
    let b' := fst (b_set_side_params sel sym b a kw) in
    b_names_ok b' = true /\
    (sym = true -> u_sel_items sel (b_contra b') = u_sel_items sel (b_ipsi b')) /\
    u_sel_items sel' (b_ipsi b') = u_sel_items sel' (b_ipsi b) /\
    u_sel_items sel' (b_contra b') = u_sel_items sel' (b_contra b) /\
    same_config (b_ipsi b') (b_ipsi b) /\ same_config (b_contra b') (b_contra b) /\
    b_symT b' = b_symT b /\ b_symL b' = b_symL b.
  Proof.
    intros Hok Hret. pose proof (b_side_spec sel sym b a kw Hsel Hok) as Hs.
    destruct (all_unit (side_plan sel sym b a kw)) as [qs|] eqn:E; [|contradiction].
    rewrite Hs. cbn [fst]. cbv zeta.
    pose proof (all_unit_length _ _ E) as Hl. rewrite side_plan_length in Hl.
    split; [apply side_result_names_ok, Hok|].
    unfold side_result, b_with. cbn [b_ipsi b_contra b_symT b_symL].
    split.
    - intros ->. unfold side_len in Hl. rewrite Nat.add_0_r in Hl.
      assert (Hf : firstn (length (u_sel_items sel (b_ipsi b))) qs = qs) by (rewrite <- Hl; apply firstn_all).
      rewrite Hf, !u_sel_items_put; try assumption.
      + rewrite (contra_sel_keys sel b Hsel Hok). reflexivity.
      + rewrite (contra_sel_length sel b Hsel Hok). exact Hl.
    - rewrite !(u_sel_items_put_other sel sel') by assumption. repeat split.
  Qed.
End Side.

Lemma b_tumor_facts b a kw : b_names_ok b = true -> snd (b_set_tumor_spread_params b a kw) <> None ->
  let b' := fst (b_set_tumor_spread_params b a kw) in
  b_names_ok b' = true /\ (b_symT b = true -> u_T (b_contra b') = u_T (b_ipsi b')) /\
  u_L (b_ipsi b') = u_L (b_ipsi b) /\ u_L (b_contra b') = u_L (b_contra b) /\
  same_config (b_ipsi b') (b_ipsi b) /\ same_config (b_contra b') (b_contra b) /\
  b_symT b' = b_symT b /\ b_symL b' = b_symL b.
Proof. apply (b_side_facts is_tumor_spread sel_lnl kind_sel_tumor kind_sel_lnl tumor_not_lnl). Qed.
Lemma b_lnl_facts b a kw : b_names_ok b = true -> snd (b_set_lnl_spread_params b a kw) <> None ->
  let b' := fst (b_set_lnl_spread_params b a kw) in
  b_names_ok b' = true /\ (b_symL b = true -> u_L (b_contra b') = u_L (b_ipsi b')) /\
  u_T (b_ipsi b') = u_T (b_ipsi b) /\ u_T (b_contra b') = u_T (b_contra b) /\
  same_config (b_ipsi b') (b_ipsi b) /\ same_config (b_contra b') (b_contra b) /\
  b_symT b' = b_symT b /\ b_symL b' = b_symL b.
Proof. apply (b_side_facts sel_lnl is_tumor_spread kind_sel_lnl kind_sel_tumor lnl_not_tumor). Qed.

(** sequencing *)
Lemma andthen_ok {S} (r : S * option args) f : snd (andthen r f) <> None ->
  exists a1, snd r = Some a1 /\ andthen r f = f (fst r) a1.
Proof. destruct r as [s [a1|]]; cbn; [intros _; exists a1; split; reflexivity | intros C; contradiction]. Qed.

(** tumour arcs first, LNL arcs second: afterwards BOTH declared symmetries hold,
    whatever the state before *)
Lemma b_spread_facts b a kw : b_names_ok b = true -> snd (b_set_spread_params b a kw) <> None ->
  let b' := fst (b_set_spread_params b a kw) in
  b_names_ok b' = true /\ b_shared b' /\
  same_config (b_ipsi b') (b_ipsi b) /\ same_config (b_contra b') (b_contra b) /\
  b_symT b' = b_symT b /\ b_symL b' = b_symL b.
Proof.
  intros Hok Hret. unfold b_set_spread_params in *.
  destruct (andthen_ok _ _ Hret) as (a1 & Ha1 & Heq). rewrite Heq in *. cbv zeta.
  assert (HretT : snd (b_set_tumor_spread_params b a kw) <> None) by (rewrite Ha1; discriminate).
  destruct (b_tumor_facts b a kw Hok HretT) as (Hok1 & HT & HLi & HLc & Hci & Hcc & HsT & HsL).
  set (b1 := fst (b_set_tumor_spread_params b a kw)) in *.
  destruct (b_lnl_facts b1 a1 kw Hok1 Hret) as (Hok2 & HL & HTi & HTc & Hci2 & Hcc2 & HsT2 & HsL2).
  set (b2 := fst (b_set_lnl_spread_params b1 a1 kw)) in *.
  split; [exact Hok2|]. split.
  - split.
    + intros H. rewrite HTi, HTc. apply HT. rewrite <- HsT, <- HsT2. exact H.
    + intros H. apply HL. rewrite <- HsL2. exact H.
  - repeat split; try (eapply same_config_trans; eassumption); congruence.
Qed.

(** * Bilateral: the distribution step *)
Lemma b_dist_lookups b kw : b_dist_kw_agree b kw ->
  forall k, In k (map fst (u_dist_items (b_ipsi b))) ->
    side_lk "ipsi" kw k = u_lk kw k /\ side_lk "contra" kw k = u_lk kw k.
Proof.
  intros Hag k Hk. unfold b_dist_kw_agree, b_dist_leaf_kwargs in Hag.
  destruct (side_kwargs kw) as [ikw ckw] eqn:Hsk. destruct (side_kwargs_lk kw ikw ckw Hsk) as [Hi Hc].
  rewrite <- Hi, <- Hc. split; apply Hag; cbn; tauto.
Qed.

Lemma dist_step_names_ok b dsi dsc newi newc : b_names_ok b = true ->
  dists_put (u_maxt (b_ipsi b)) (u_dists (b_ipsi b)) newi = Some dsi -> length newi = length (u_dist_items (b_ipsi b)) ->
  dists_put (u_maxt (b_contra b)) (u_dists (b_contra b)) newc = Some dsc -> length newc = length (u_dist_items (b_contra b)) ->
  b_names_ok (b_with b (u_with_dists (b_ipsi b) dsi) (u_with_dists (b_contra b) dsc)) = true.
Proof.
  intros H Hdi Hli Hdc Hlc.
  destruct (dists_put_spec _ _ _ _ Hdi Hli) as (qDi & _ & _ & Hni). destruct (dists_put_spec _ _ _ _ Hdc Hlc) as (qDc & _ & _ & Hnc).
  destruct (dists_put_shape _ _ _ _ Hdi Hli) as (Hki & Hkoi & _). destruct (dists_put_shape _ _ _ _ Hdc Hlc) as (Hkc & Hkoc & _).
  pose proof (dists_put_keys _ _ _ _ Hdi Hli) as Hii. pose proof (dists_put_keys _ _ _ _ Hdc Hlc) as Hic.
  unfold b_names_ok in *. unfold b_with. cbn [b_ipsi b_contra].
  unfold u_names_ok, u_tstages, same_dist_keys, same_shape, u_edge_names, u_edges in *.
  cbn [u_with_dists u_dists u_graph]. rewrite Hni, Hki, Hkoi, Hnc, Hkc, Hkoc, Hii, Hic. exact H.
Qed.

Lemma b_dist_facts b a kw : b_names_ok b = true -> snd (b_set_distribution_params b a kw) <> None ->
  let b' := fst (b_set_distribution_params b a kw) in
  b_names_ok b' = true /\
  u_T (b_ipsi b') = u_T (b_ipsi b) /\ u_T (b_contra b') = u_T (b_contra b) /\
  u_L (b_ipsi b') = u_L (b_ipsi b) /\ u_L (b_contra b') = u_L (b_contra b) /\
  b_symT b' = b_symT b /\ b_symL b' = b_symL b /\
  (same_config (b_contra b) (b_ipsi b) -> b_dist_kw_agree b kw -> same_config (b_contra b') (b_ipsi b')).
Proof.
  intros Hok Hret. pose proof (b_dist_step b a kw Hok) as Hs.
  destruct (dists_put (u_maxt (b_ipsi b)) _ _) as [dsi|] eqn:Ei; [|contradiction].
  destruct (dists_put (u_maxt (b_contra b)) _ _) as [dsc|] eqn:Ec; [|contradiction].
  rewrite Hs. cbn [fst]. cbv zeta. split.
  - eapply (dist_step_names_ok b dsi dsc); [exact Hok | exact Ei | apply plan_length | exact Ec | apply plan_length].
  - unfold b_with. cbn [b_ipsi b_contra b_symT b_symL]. repeat split.
    + destruct H as (Hm & _). exact Hm.
    + destruct H as (Hm & Hd & Hmt). cbn [u_with_dists u_dists].
      assert (Hp : plan (side_lk "contra" kw) (u_dist_items (b_contra b)) a = plan (side_lk "ipsi" kw) (u_dist_items (b_ipsi b)) a).
      { unfold u_dist_items. rewrite Hd. apply plan_ext. intros k Hk.
        destruct (b_dist_lookups b kw H0 k Hk) as [Hi Hc]. rewrite Hi, Hc. reflexivity. }
      rewrite Hp, Hd, Hmt, Ei in Ec. injection Ec as <-. reflexivity.
    + destruct H as (_ & _ & Hmt). exact Hmt.
Qed.

(** * Bilateral: the theorems *)
Lemma b_same_config_step b b' : same_config (b_ipsi b') (b_ipsi b) -> same_config (b_contra b') (b_contra b) ->
  b_same_config b -> b_same_config b'.
Proof.
  unfold b_same_config. intros Hi Hc H.
  eapply same_config_trans; [exact Hc|]. eapply same_config_trans; [exact H|]. apply same_config_sym, Hi.
Qed.

Theorem bilateral_preserved : C11_bilateral_preserved_stmt.
Proof.
  intros s b a kw Hok [[HshT HshL] Hcf] Hret b'. subst b'. destruct s; cbn [b_call touches_dists] in *.
  - (* set_params *)
    unfold b_set_params in *. destruct (andthen_ok _ _ Hret) as (a1 & Ha1 & Heq). rewrite Heq in *.
    assert (HretS : snd (b_set_spread_params b a kw) <> None) by (rewrite Ha1; discriminate).
    destruct (b_spread_facts b a kw Hok HretS) as (Hok1 & [HT1 HL1] & Hci & Hcc & HsT & HsL).
    set (b1 := fst (b_set_spread_params b a kw)) in *.
    destruct (b_dist_facts b1 a1 kw Hok1 Hret) as (Hok2 & HTi & HTc & HLi & HLc & HsT2 & HsL2 & Hcfg).
    split; [exact Hok2|]. split.
    + split; intros H; [rewrite HTi, HTc; apply HT1 | rewrite HLi, HLc; apply HL1]; congruence.
    + intros [C|Hag]; [discriminate|]. apply Hcfg.
      * apply (b_same_config_step b b1 Hci Hcc Hcf).
      * unfold b_dist_kw_agree in *. intros kwl k Hkwl Hk. apply Hag; [exact Hkwl|].
        destruct Hci as (_ & Hd & _). unfold u_dist_items in *. rewrite <- Hd. exact Hk.
  - (* set_tumor_spread_params *)
    destruct (b_tumor_facts b a kw Hok Hret) as (Hok1 & HT & HLi & HLc & Hci & Hcc & HsT & HsL).
    split; [exact Hok1|]. split.
    + split; intros H; [apply HT | rewrite HLi, HLc; apply HshL]; congruence.
    + intros _. apply (b_same_config_step b _ Hci Hcc Hcf).
  - (* set_lnl_spread_params *)
    destruct (b_lnl_facts b a kw Hok Hret) as (Hok1 & HL & HTi & HTc & Hci & Hcc & HsT & HsL).
    split; [exact Hok1|]. split.
    + split; intros H; [rewrite HTi, HTc; apply HshT | apply HL]; congruence.
    + intros _. apply (b_same_config_step b _ Hci Hcc Hcf).
  - (* set_spread_params *)
    destruct (b_spread_facts b a kw Hok Hret) as (Hok1 & Hsh & Hci & Hcc & HsT & HsL).
    split; [exact Hok1|]. split; [exact Hsh|]. intros _. apply (b_same_config_step b _ Hci Hcc Hcf).
  - (* set_distribution_params *)
    destruct (b_dist_facts b a kw Hok Hret) as (Hok2 & HTi & HTc & HLi & HLc & HsT2 & HsL2 & Hcfg).
    split; [exact Hok2|]. split.
    + split; intros H; [rewrite HTi, HTc; apply HshT | rewrite HLi, HLc; apply HshL]; congruence.
    + intros [C|Hag]; [discriminate|]. apply Hcfg; assumption.
Qed.

Lemma b_params_shared b a kw : b_names_ok b = true -> snd (b_set_params b a kw) <> None ->
  b_shared (fst (b_set_params b a kw)).
Proof.
  intros Hok Hret. unfold b_set_params in *. destruct (andthen_ok _ _ Hret) as (a1 & Ha1 & Heq). rewrite Heq in *.
  assert (HretS : snd (b_set_spread_params b a kw) <> None) by (rewrite Ha1; discriminate).
  destruct (b_spread_facts b a kw Hok HretS) as (Hok1 & [HT1 HL1] & _ & _ & HsT & HsL).
  destruct (b_dist_facts _ a1 kw Hok1 Hret) as (_ & HTi & HTc & HLi & HLc & HsT2 & HsL2 & _).
  split; intros H; [rewrite HTi, HTc; apply HT1 | rewrite HLi, HLc; apply HL1]; congruence.
Qed.

Theorem bilateral_shared_from_any_state : C11_bilateral_shared_from_any_state_stmt.
Proof.
  intros b a kw Hok. split; [|split; [|split]].
  - intros Hret H. destruct (b_tumor_facts b a kw Hok Hret) as (_ & HT & _). apply HT, H.
  - intros Hret H. destruct (b_lnl_facts b a kw Hok Hret) as (_ & HL & _). apply HL, H.
  - intros Hret. destruct (b_spread_facts b a kw Hok Hret) as (_ & Hsh & _). exact Hsh.
  - apply b_params_shared, Hok.
Qed.

(** * Freshly constructed composites *)
Lemma shape_eqb_refl es : shape_eqb es es = true.
Proof. induction es as [|e r IH]; [reflexivity|]. cbn [shape_eqb]. rewrite String.eqb_refl, Nat.eqb_refl, IH. reflexivity. Qed.
Lemma keys_eqb_refl ks : keys_eqb ks ks = true.
Proof. induction ks as [|k r IH]; [reflexivity|]. cbn [keys_eqb]. rewrite path_eqb_refl, IH. reflexivity. Qed.
Lemma same_shape_refl u : same_shape u u = true.
Proof. unfold same_shape. rewrite Nat.eqb_refl, shape_eqb_refl. reflexivity. Qed.
Lemma b_names_ok_twice u symT symL : u_names_ok u = true ->
  b_names_ok {| b_ipsi := u; b_contra := u; b_symT := symT; b_symL := symL |} = true.
Proof.
  intros H. unfold b_names_ok, same_dist_keys. cbn [b_ipsi b_contra]. rewrite H, same_shape_refl, keys_eqb_refl. reflexivity.
Qed.
Lemma mixed_items_same mix T : mixed_items mix T T = T.
Proof.
  unfold mixed_items. induction T as [|[k v] T IH]; [reflexivity|]. cbn [map combine fst snd]. rewrite IH. f_equal. f_equal. ring.
Qed.

Theorem fresh_consistent : C11_fresh_consistent_stmt.
Proof.
  intros u Hu. split; [|split].
  - intros symT symL. split; [apply b_names_ok_twice, Hu|]. unfold new_bilateral. repeat split.
  - intros mix cen evo unk symL. split.
    + unfold m_wf, new_midline, new_bilateral. cbn [ml_ext ml_noext ml_central ml_unknown].
      rewrite !(b_names_ok_twice u) by exact Hu. destruct cen, unk; cbn [opt_ok b_symT]; rewrite ?(b_names_ok_twice u) by exact Hu; reflexivity.
    + assert (Hall : forall v, In v (all_leaves (new_midline u mix cen evo unk symL)) -> v = u).
      { intros v. unfold all_leaves, new_midline, new_bilateral, ext_i, ext_c, noext_i, noext_c.
        cbn [ml_ext ml_noext ml_central ml_unknown b_ipsi b_contra].
        destruct cen, unk; cbn [opt_leaves b_ipsi b_contra app In]; intuition. }
      assert (Hei : ext_i (new_midline u mix cen evo unk symL) = u) by reflexivity.
      assert (Hec : ext_c (new_midline u mix cen evo unk symL) = u) by reflexivity.
      assert (Hnc : noext_c (new_midline u mix cen evo unk symL) = u) by reflexivity.
      split.
      * unfold m_shared. rewrite Hei, Hec, Hnc.
        assert (Hi : forall v, In v (ipsi_leaves (new_midline u mix cen evo unk symL)) -> v = u).
        { intros v. unfold ipsi_leaves, new_midline, new_bilateral, ext_i, noext_i.
          cbn [ml_ext ml_noext ml_central b_ipsi]. destruct cen; cbn [opt_leaves b_ipsi app In]; intuition. }
        assert (Hc : forall v, In v (contra_leaves (new_midline u mix cen evo unk symL)) -> v = u).
        { intros v. unfold contra_leaves, new_midline, new_bilateral, ext_c, noext_c.
          cbn [ml_ext ml_noext ml_central b_contra]. destruct cen; cbn [opt_leaves b_contra app In]; intuition. }
        repeat split.
        -- intros v Hv. rewrite (Hi v Hv). reflexivity.
        -- intros c. unfold new_midline. cbn [ml_central]. destruct cen; [|discriminate]. intros [= <-]. reflexivity.
        -- intros q _. symmetry. apply mixed_items_same.
        -- intros v Hv. rewrite (Hi v Hv). reflexivity.
        -- intros v Hv. rewrite (Hc v Hv). reflexivity.
      * intros v Hv. rewrite (Hall v Hv), Hei. apply same_config_refl.
  - split.
    + unfold h_names_ok, new_hpv. cbn [h_hpv h_nohpv]. rewrite Hu, same_shape_refl. reflexivity.
    + repeat split.
Qed.

(** * Modalities, distributions, max_time *)
(** an operation of the two Composite base classes never touches the graph, and what
    it does to modalities / distributions / max_time depends on these only *)
Definition cfg_fun (f : uni -> uni * bool) : Prop :=
  (forall u, u_graph (fst (f u)) = u_graph u) /\
  (forall u1 u2, same_config u1 u2 -> same_config (fst (f u1)) (fst (f u2)) /\ snd (f u1) = snd (f u2)).

Lemma leaf_set_modality_fun name spec sens p : cfg_fun (fun u => leaf_set_modality u name spec sens p).
Proof.
  split.
  - intros u. unfold leaf_set_modality. destruct (mk_modality spec sens p); reflexivity.
  - intros u1 u2 (Hm & Hd & Ht). unfold leaf_set_modality. destruct (mk_modality spec sens p); cbn [fst snd].
    + unfold same_config. cbn [u_with_mods u_mods u_dists u_maxt]. rewrite Hm. repeat split; assumption.
    + repeat split; assumption.
Qed.
Lemma leaf_set_modalities_fun l : cfg_fun (fun u => leaf_set_modalities u l).
Proof.
  induction l as [|[name [[spec sens] p]] r IH]; [split; [reflexivity | intros u1 u2 H; split; [exact H | reflexivity]]|].
  destruct (leaf_set_modality_fun name spec sens p) as [G1 D1]. destruct IH as [G2 D2]. split.
  - intros u. cbn [leaf_set_modalities]. specialize (G1 u). destruct (leaf_set_modality u name spec sens p) as [u' [|]]; cbn [fst] in *.
    + rewrite G2. exact G1.
    + exact G1.
  - intros u1 u2 H. cbn [leaf_set_modalities]. destruct (D1 u1 u2 H) as [Hc Hs].
    destruct (leaf_set_modality u1 name spec sens p) as [u1' o1]. destruct (leaf_set_modality u2 name spec sens p) as [u2' o2].
    cbn [fst snd] in *. subst o2. destruct o1; [apply D2, Hc | split; [exact Hc | reflexivity]].
Qed.
Lemma leaf_set_distribution_fun t d : cfg_fun (fun u => leaf_set_distribution u t d).
Proof.
  split.
  - intros u. unfold leaf_set_distribution. destruct (mk_dist (u_maxt u) d); reflexivity.
  - intros u1 u2 (Hm & Hd & Ht). unfold leaf_set_distribution. rewrite Ht. destruct (mk_dist (u_maxt u2) d); cbn [fst snd].
    + unfold same_config. cbn [u_with_dists u_mods u_dists u_maxt]. rewrite Hd. repeat split; assumption.
    + repeat split; assumption.
Qed.
Lemma leaf_set_distributions_fun l : cfg_fun (fun u => leaf_set_distributions u l).
Proof.
  induction l as [|[t d] r IH]; [split; [reflexivity | intros u1 u2 H; split; [exact H | reflexivity]]|].
  destruct (leaf_set_distribution_fun t d) as [G1 D1]. destruct IH as [G2 D2]. split.
  - intros u. cbn [leaf_set_distributions]. specialize (G1 u). destruct (leaf_set_distribution u t d) as [u' [|]]; cbn [fst] in *.
    + rewrite G2. exact G1.
    + exact G1.
  - intros u1 u2 H. cbn [leaf_set_distributions]. destruct (D1 u1 u2 H) as [Hc Hs].
    destruct (leaf_set_distribution u1 t d) as [u1' o1]. destruct (leaf_set_distribution u2 t d) as [u2' o2].
    cbn [fst snd] in *. subst o2. destruct o1; [apply D2, Hc | split; [exact Hc | reflexivity]].
Qed.

Lemma leaf_cfg_fun o : cfg_fun (leaf_cfg o).
Proof.
  destruct o.
  - apply leaf_set_modality_fun.
  - split.
    + intros u. cbn [leaf_cfg]. destruct (dict_get name (u_mods u)); reflexivity.
    + intros u1 u2 (Hm & Hd & Ht). cbn [leaf_cfg]. rewrite Hm.
      destruct (dict_get name (u_mods u2)); cbn [fst snd]; repeat split; try assumption.
  - destruct (leaf_set_modalities_fun l) as [G D]. split.
    + intros u. cbn [leaf_cfg]. rewrite G. reflexivity.
    + intros u1 u2 (Hm & Hd & Ht). cbn [leaf_cfg]. apply D. repeat split; assumption.
  - split; [reflexivity|]. intros u1 u2 (Hm & Hd & Ht). repeat split; assumption.
  - apply leaf_set_distribution_fun.
  - split.
    + intros u. cbn [leaf_cfg]. destruct (dict_get t (u_dists u)); reflexivity.
    + intros u1 u2 (Hm & Hd & Ht). cbn [leaf_cfg]. rewrite Hd.
      destruct (dict_get t (u_dists u2)); cbn [fst snd]; repeat split; try assumption.
  - destruct (leaf_set_distributions_fun l) as [G D]. split.
    + intros u. cbn [leaf_cfg]. rewrite G. reflexivity.
    + intros u1 u2 (Hm & Hd & Ht). cbn [leaf_cfg]. apply D. repeat split; assumption.
  - split; [reflexivity|]. intros u1 u2 (Hm & Hd & Ht). repeat split; assumption.
  - split.
    + intros u. cbn [leaf_cfg]. destruct (v <? 0)%Z; reflexivity.
    + intros u1 u2 (Hm & Hd & Ht). cbn [leaf_cfg]. destruct (v <? 0)%Z; cbn [fst snd]; repeat split; assumption.
Qed.

Lemma graph_T u u' : u_graph u' = u_graph u -> u_T u' = u_T u.
Proof. intros H. unfold u_T, u_tumor_items, u_tri, u_edges. rewrite H. reflexivity. Qed.
Lemma graph_L u u' : u_graph u' = u_graph u -> u_L u' = u_L u.
Proof. intros H. unfold u_L, u_lnl_items, u_tri, u_edges. rewrite H. reflexivity. Qed.

Section Cfg.
  Variable f : uni -> uni * bool.
  Hypothesis Hf : cfg_fun f.
  Let fT u : u_T (fst (f u)) = u_T u. Proof. apply graph_T, Hf. Qed.
  Let fL u : u_L (fst (f u)) = u_L u. Proof. apply graph_L, Hf. Qed.
  Let fC u1 u2 : same_config u1 u2 -> same_config (fst (f u1)) (fst (f u2)). Proof. intros H. apply Hf, H. Qed.
  Let fS u1 u2 : same_config u1 u2 -> snd (f u1) = snd (f u2). Proof. intros H. apply Hf, H. Qed.

  (** a bilateral model whose two sides have the same configuration *)
  Lemma b_cfg_spec b : b_same_config b ->
    snd (b_cfg f b) = snd (f (b_ipsi b)) /\
    (snd (b_cfg f b) = true -> fst (b_cfg f b) = b_with b (fst (f (b_ipsi b))) (fst (f (b_contra b)))).
  Proof.
    intros H. unfold b_cfg. pose proof (fS _ _ H) as Hs.
    destruct (f (b_ipsi b)) as [i' [|]]; destruct (f (b_contra b)) as [c' oc]; cbn [fst snd] in *; subst; split; try reflexivity; discriminate.
  Qed.

  Lemma b_cfg_consistent b : b_consistent b -> snd (b_cfg f b) = true -> b_consistent (fst (b_cfg f b)).
  Proof.
    intros [[HT HL] Hc] Hok. destruct (b_cfg_spec b Hc) as [_ He]. rewrite (He Hok). unfold b_with.
    split; [split|]; cbn [b_ipsi b_contra b_symT b_symL].
    - intros H. rewrite !fT. apply HT, H.
    - intros H. rewrite !fL. apply HL, H.
    - apply fC, Hc.
  Qed.

  Lemma h_cfg_consistent h : h_consistent h -> snd (h_cfg f h) = true -> h_consistent (fst (h_cfg f h)).
  Proof.
    intros [HL Hc] Hok. unfold h_cfg in *. pose proof (fS _ _ Hc) as Hs. pose proof (fC _ _ Hc) as Hcc.
    pose proof (fL (h_hpv h)) as L1. pose proof (fL (h_nohpv h)) as L2.
    destruct (f (h_hpv h)) as [p' [|]]; destruct (f (h_nohpv h)) as [n' on]; cbn [fst snd] in *; try discriminate.
    split; unfold h_shared, h_same_config, h_with; cbn [h_hpv h_nohpv]; [rewrite L1, L2; exact HL | exact Hcc].
  Qed.
  Lemma h_cfg_first h : h_consistent h -> snd (h_cfg f h) = snd (f (h_hpv h)).
  Proof.
    intros [HL Hc]. unfold h_cfg. pose proof (fS _ _ Hc) as Hs.
    destruct (f (h_hpv h)) as [p' [|]]; destruct (f (h_nohpv h)) as [n' on]; cbn [fst snd] in *; subst; reflexivity.
  Qed.
End Cfg.

(** ** Midline: the same leaf function applied to every leaf *)
Definition bmap (g : uni -> uni) (b : bilateral) : bilateral := b_with b (g (b_ipsi b)) (g (b_contra b)).
Definition m_map (g : uni -> uni) (m : midline) : midline :=
  ml_with_models m (bmap g (ml_ext m)) (bmap g (ml_noext m)) (option_map (bmap g) (ml_central m)) (option_map (bmap g) (ml_unknown m)).
Lemma opt_leaves_map g ob : 
  opt_leaves (option_map (bmap g) ob) b_ipsi = map g (opt_leaves ob b_ipsi) /\
  opt_leaves (option_map (bmap g) ob) b_contra = map g (opt_leaves ob b_contra).
Proof. destruct ob; split; reflexivity. Qed.
Lemma ipsi_leaves_map g m : ipsi_leaves (m_map g m) = map g (ipsi_leaves m).
Proof.
  unfold ipsi_leaves, m_map, ext_i, noext_i. cbn [ml_with_models ml_ext ml_noext ml_central].
  rewrite map_app. destruct (opt_leaves_map g (ml_central m)) as [-> _]. reflexivity.
Qed.
Lemma contra_leaves_map g m : contra_leaves (m_map g m) = map g (contra_leaves m).
Proof.
  unfold contra_leaves, m_map, ext_c, noext_c. cbn [ml_with_models ml_ext ml_noext ml_central].
  rewrite map_app. destruct (opt_leaves_map g (ml_central m)) as [_ ->]. reflexivity.
Qed.
Lemma all_leaves_map g m : all_leaves (m_map g m) = map g (all_leaves m).
Proof.
  unfold all_leaves, m_map, ext_i, ext_c, noext_i, noext_c. cbn [ml_with_models ml_ext ml_noext ml_central ml_unknown].
  rewrite !map_app. destruct (opt_leaves_map g (ml_central m)) as [-> ->]. destruct (opt_leaves_map g (ml_unknown m)) as [-> ->]. reflexivity.
Qed.

Lemma m_map_consistent g m :
  (forall u, u_T (g u) = u_T u) -> (forall u, u_L (g u) = u_L u) ->
  (forall u1 u2, same_config u1 u2 -> same_config (g u1) (g u2)) ->
  m_consistent m -> m_consistent (m_map g m).
Proof.
  intros gT gL gC [(H1 & H2 & H3 & H4 & H5 & H6) Hc].
  assert (Ei : ext_i (m_map g m) = g (ext_i m)) by reflexivity.
  assert (Ec : ext_c (m_map g m) = g (ext_c m)) by reflexivity.
  assert (En : noext_c (m_map g m) = g (noext_c m)) by reflexivity.
  split.
  - unfold m_shared. rewrite Ei, Ec, En, ipsi_leaves_map, contra_leaves_map, !gT, !gL. repeat split.
    + intros u Hu. apply in_map_iff in Hu. destruct Hu as (u0 & <- & Hu0). rewrite gT. apply H1, Hu0.
    + intros c Hcen. unfold m_map in Hcen. cbn [ml_with_models ml_central] in Hcen.
      destruct (ml_central m) as [c0|] eqn:E0; [|discriminate]. injection Hcen as <-.
      unfold bmap, b_with. cbn [b_contra]. rewrite gT. apply (H2 c0). reflexivity.
    + exact H3.
    + intros u Hu. apply in_map_iff in Hu. destruct Hu as (u0 & <- & Hu0). rewrite gL. apply H4, Hu0.
    + intros u Hu. apply in_map_iff in Hu. destruct Hu as (u0 & <- & Hu0). rewrite gL. apply H5, Hu0.
    + exact H6.
  - intros u Hu. rewrite all_leaves_map in Hu. apply in_map_iff in Hu. destruct Hu as (u0 & <- & Hu0). rewrite Ei. apply gC, Hc, Hu0.
Qed.

Section CfgM.
  Variable f : uni -> uni * bool.
  Hypothesis Hf : cfg_fun f.
  Let g u := fst (f u).
  Let fS u1 u2 : same_config u1 u2 -> snd (f u1) = snd (f u2). Proof. intros H. apply Hf, H. Qed.

  Lemma m_leaf_in_all m :
    In (ext_i m) (all_leaves m) /\ In (ext_c m) (all_leaves m) /\ In (noext_i m) (all_leaves m) /\ In (noext_c m) (all_leaves m) /\
    (forall c, ml_central m = Some c -> In (b_ipsi c) (all_leaves m) /\ In (b_contra c) (all_leaves m)) /\
    (forall k, ml_unknown m = Some k -> In (b_ipsi k) (all_leaves m) /\ In (b_contra k) (all_leaves m)).
  Proof.
    unfold all_leaves. split; [|split; [|split; [|split; [|split]]]]; try (cbn; tauto).
    - intros c ->. cbn [opt_leaves]. rewrite !in_app_iff. cbn. tauto.
    - intros k ->. cbn [opt_leaves]. rewrite !in_app_iff. cbn. tauto.
  Qed.

  Lemma b_cfg_in m b : m_same_config m -> In (b_ipsi b) (all_leaves m) -> In (b_contra b) (all_leaves m) ->
    snd (b_cfg f b) = snd (f (ext_i m)) /\ (snd (b_cfg f b) = true -> fst (b_cfg f b) = bmap g b).
  Proof.
    intros Hc Hi Hcn.
    assert (Hb : b_same_config b).
    { unfold b_same_config. eapply same_config_trans; [apply Hc, Hcn | apply same_config_sym, Hc, Hi]. }
    destruct (b_cfg_spec f Hf b Hb) as [Hs He]. split; [|exact He]. rewrite Hs. apply fS, Hc, Hi.
  Qed.

  Lemma m_cfg_spec m : m_same_config m ->
    snd (m_cfg f m) = snd (f (ext_i m)) /\ (snd (m_cfg f m) = true -> fst (m_cfg f m) = m_map g m).
  Proof.
    intros Hc. destruct (m_leaf_in_all m) as (I1 & I2 & I3 & I4 & I5 & I6).
    destruct (b_cfg_in m (ml_ext m) Hc I1 I2) as [S1 E1]. destruct (b_cfg_in m (ml_noext m) Hc I3 I4) as [S2 E2].
    unfold m_cfg, m_map. destruct (b_cfg f (ml_ext m)) as [e' ok1]. cbn [fst snd] in *.
    destruct ok1; cbn [negb]; [|split; [exact S1 | cbn [snd]; discriminate]].
    rewrite (E1 eq_refl). destruct (b_cfg f (ml_noext m)) as [n' ok2]. cbn [fst snd] in *.
    destruct ok2; cbn [negb]; [|split; [cbn [snd]; exact S2 | cbn [snd]; discriminate]].
    rewrite (E2 eq_refl).
    assert (HC : snd (opt_cfg f (ml_central m)) = true /\ fst (opt_cfg f (ml_central m)) = option_map (bmap g) (ml_central m)
                 \/ snd (opt_cfg f (ml_central m)) = false).
    { destruct (ml_central m) as [c|] eqn:Ecen; [|left; split; reflexivity]. destruct (I5 c eq_refl) as [Ia Ib].
      destruct (b_cfg_in m c Hc Ia Ib) as [S3 E3]. unfold opt_cfg. destruct (b_cfg f c) as [c' ok3]. cbn [fst snd] in *.
      destruct ok3; [left; split; [reflexivity | rewrite (E3 eq_refl); reflexivity] | right; reflexivity]. }
    assert (HCs : snd (opt_cfg f (ml_central m)) = false -> snd (f (ext_i m)) = false).
    { destruct (ml_central m) as [c|] eqn:Ecen; [|discriminate]. destruct (I5 c eq_refl) as [Ia Ib].
      destruct (b_cfg_in m c Hc Ia Ib) as [S3 _]. unfold opt_cfg. destruct (b_cfg f c) as [c' ok3]. cbn [fst snd] in *. congruence. }
    destruct (opt_cfg f (ml_central m)) as [c' ok3]. cbn [fst snd] in *.
    destruct HC as [[-> ->] | ->]; cbn [negb]; [|split; [cbn [snd]; symmetry; apply HCs; reflexivity | cbn [snd]; discriminate]].
    destruct (ml_unknown m) as [k|] eqn:Eunk; cbn [opt_cfg option_map].
    - destruct (I6 k eq_refl) as [Ia Ib]. destruct (b_cfg_in m k Hc Ia Ib) as [S4 E4].
      destruct (b_cfg f k) as [k' ok4]. cbn [fst snd] in *. split; [exact S4|]. intros ->. rewrite (E4 eq_refl). reflexivity.
    - cbn [fst snd]. split; [exact S1 | reflexivity].
  Qed.

  Lemma m_cfg_consistent m : m_consistent m -> snd (m_cfg f m) = true -> m_consistent (fst (m_cfg f m)).
  Proof.
    intros Hm Hok. destruct (m_cfg_spec m (proj2 Hm)) as [_ He]. rewrite (He Hok).
    apply m_map_consistent; [intros u; apply graph_T, Hf | intros u; apply graph_L, Hf | intros u1 u2 H; apply Hf, H | exact Hm].
  Qed.
End CfgM.

Lemma cfg_preserves_all o : cfg_preserves o.
Proof.
  pose proof (leaf_cfg_fun o) as Hf. split; [|split].
  - intros b. apply b_cfg_consistent, Hf.
  - intros m. apply m_cfg_consistent, Hf.
  - intros h. apply h_cfg_consistent, Hf.
Qed.
Theorem modalities_equal : C11_modalities_equal_stmt.
Proof. intros o _. apply cfg_preserves_all. Qed.
Theorem distributions_equal : C11_distributions_equal_stmt.
Proof. intros o _. apply cfg_preserves_all. Qed.
Theorem max_time_equal : C11_max_time_equal_stmt.
Proof. intros v. apply cfg_preserves_all. Qed.
Theorem cfg_all_or_first : C11_cfg_all_or_first_stmt.
Proof.
  intros o. pose proof (leaf_cfg_fun o) as Hf. split; [|split].
  - intros b [_ Hc]. apply (b_cfg_spec _ Hf b Hc).
  - intros m [_ Hc]. apply (m_cfg_spec _ Hf m Hc).
  - intros h Hh. apply (h_cfg_first _ Hf h Hh).
Qed.

(** * Midline: leaves by identifier *)
Definition ipsi_ids : list leaf_id := [LExtIpsi; LNoextIpsi; LCentralIpsi].
Definition contra_ids : list leaf_id := [LExtContra; LNoextContra; LCentralContra].

Lemma in_ipsi_leaves m u : In u (ipsi_leaves m) <-> exists l, In l ipsi_ids /\ ml_leaf m l = Some u.
Proof.
  unfold ipsi_leaves, ipsi_ids, ext_i, noext_i. split.
  - intros H. apply in_app_iff in H. destruct H as [[<-|[<-|[]]]|H].
    + exists LExtIpsi. split; [cbn; tauto | reflexivity].
    + exists LNoextIpsi. split; [cbn; tauto | reflexivity].
    + exists LCentralIpsi. split; [cbn; tauto|]. cbn [ml_leaf]. destruct (ml_central m); cbn in *; [destruct H as [<-|[]]; reflexivity | destruct H].
  - intros (l & Hl & E). apply in_app_iff. destruct Hl as [<-|[<-|[<-|[]]]]; cbn [ml_leaf] in E.
    + injection E as <-. left. cbn. tauto.
    + injection E as <-. left. cbn. tauto.
    + right. destruct (ml_central m); cbn in *; [injection E as <-; tauto | discriminate].
Qed.
Lemma in_contra_leaves m u : In u (contra_leaves m) <-> exists l, In l contra_ids /\ ml_leaf m l = Some u.
Proof.
  unfold contra_leaves, contra_ids, ext_c, noext_c. split.
  - intros H. apply in_app_iff in H. destruct H as [[<-|[<-|[]]]|H].
    + exists LExtContra. split; [cbn; tauto | reflexivity].
    + exists LNoextContra. split; [cbn; tauto | reflexivity].
    + exists LCentralContra. split; [cbn; tauto|]. cbn [ml_leaf]. destruct (ml_central m); cbn in *; [destruct H as [<-|[]]; reflexivity | destruct H].
  - intros (l & Hl & E). apply in_app_iff. destruct Hl as [<-|[<-|[<-|[]]]]; cbn [ml_leaf] in E.
    + injection E as <-. left. cbn. tauto.
    + injection E as <-. left. cbn. tauto.
    + right. destruct (ml_central m); cbn in *; [injection E as <-; tauto | discriminate].
Qed.
Lemma in_all_leaves m u : In u (all_leaves m) <->
  (exists l, ml_leaf m l = Some u) \/ (exists k, ml_unknown m = Some k /\ (u = b_ipsi k \/ u = b_contra k)).
Proof.
  unfold all_leaves, ext_i, ext_c, noext_i, noext_c. rewrite !in_app_iff. split.
  - intros [[<-|[<-|[<-|[<-|[]]]]]|[H|[H|[H|H]]]].
    + left. exists LExtIpsi. reflexivity.
    + left. exists LExtContra. reflexivity.
    + left. exists LNoextIpsi. reflexivity.
    + left. exists LNoextContra. reflexivity.
    + left. exists LCentralIpsi. cbn [ml_leaf]. destruct (ml_central m); cbn in *; [destruct H as [<-|[]]; reflexivity | destruct H].
    + left. exists LCentralContra. cbn [ml_leaf]. destruct (ml_central m); cbn in *; [destruct H as [<-|[]]; reflexivity | destruct H].
    + right. destruct (ml_unknown m) as [k|]; cbn in *; [destruct H as [<-|[]]; exists k; tauto | destruct H].
    + right. destruct (ml_unknown m) as [k|]; cbn in *; [destruct H as [<-|[]]; exists k; tauto | destruct H].
  - intros [(l & E)|(k & E & H)].
    + destruct l; cbn [ml_leaf] in E.
      * right. left. destruct (ml_central m); cbn in *; [injection E as <-; tauto | discriminate].
      * right. right. left. destruct (ml_central m); cbn in *; [injection E as <-; tauto | discriminate].
      * injection E as <-. left. cbn. tauto.
      * injection E as <-. left. cbn. tauto.
      * injection E as <-. left. cbn. tauto.
      * injection E as <-. left. cbn. tauto.
    + right. right. right. rewrite E. cbn. destruct H as [->| ->]; tauto.
Qed.

(** [m'] is [m] with every parameter leaf [u] at [l] replaced by [tr l u] *)
Record mid_rel (tr : leaf_id -> uni -> uni) (m m' : midline) : Prop := {
  mr_leaf : forall l, ml_leaf m' l = option_map (tr l) (ml_leaf m l);
  mr_unknown : ml_unknown m' = ml_unknown m;
  mr_symL : ml_symL m' = ml_symL m;
  mr_csym : option_map b_symT (ml_central m') = option_map b_symT (ml_central m) }.

Lemma mid_rel_refl m : mid_rel (fun _ u => u) m m.
Proof. split; try reflexivity. intros l. destruct (ml_leaf m l); reflexivity. Qed.
Lemma mid_rel_trans t1 t2 m m1 m2 : mid_rel t1 m m1 -> mid_rel t2 m1 m2 -> mid_rel (fun l u => t2 l (t1 l u)) m m2.
Proof.
  intros [A1 A2 A3 A4] [B1 B2 B3 B4]. split; try congruence.
  intros l. rewrite B1, A1. destruct (ml_leaf m l); reflexivity.
Qed.
Lemma mid_rel_ext t1 t2 m m' : (forall l u, ml_leaf m l = Some u -> t1 l u = t2 l u) -> mid_rel t1 m m' -> mid_rel t2 m m'.
Proof.
  intros H [A1 A2 A3 A4]. split; try assumption. intros l. rewrite A1. destruct (ml_leaf m l) as [u|] eqn:E; [|reflexivity].
  cbn. rewrite (H l u E). reflexivity.
Qed.

Definition leaf_eqb (a b : leaf_id) : bool :=
  match a, b with
  | LCentralIpsi, LCentralIpsi | LCentralContra, LCentralContra | LExtIpsi, LExtIpsi
  | LExtContra, LExtContra | LNoextIpsi, LNoextIpsi | LNoextContra, LNoextContra => true
  | _, _ => false
  end.
Lemma leaf_eqb_eq a b : leaf_eqb a b = true <-> a = b.
Proof. destruct a, b; cbn; split; intros; try reflexivity; try discriminate. Qed.
Lemma leaf_eqb_refl a : leaf_eqb a a = true. Proof. destruct a; reflexivity. Qed.

(** replacing one existing leaf *)
Lemma mid_rel_with_leaf m l u u' : ml_leaf m l = Some u ->
  mid_rel (fun l' v => if leaf_eqb l' l then u' else v) m (ml_with_leaf m l u').
Proof.
  intros E. destruct l; cbn [ml_leaf] in E; cbn [ml_with_leaf].
  1,2: destruct (ml_central m) as [c|] eqn:Ec; [|discriminate].
  all: split; try reflexivity; try (cbn [ml_with_central ml_with_models ml_central]; rewrite ?Ec; reflexivity).
  all: intros l'; destruct l'; cbn [ml_leaf ml_with_central ml_with_ext ml_with_noext ml_with_models ml_central ml_ext ml_noext
                                   b_with_ipsi b_with_contra b_with b_ipsi b_contra option_map leaf_eqb]; rewrite ?Ec; try reflexivity;
    destruct (ml_central m); reflexivity.
Qed.
Lemma mid_rel_with_mixing m q : mid_rel (fun _ u => u) m (ml_with_mixing m q).
Proof. split; try reflexivity. intros l. destruct l; cbn; destruct (ml_central m); reflexivity. Qed.
Lemma mid_rel_with_midext m q : mid_rel (fun _ u => u) m (ml_with_midext m q).
Proof. split; try reflexivity. intros l. destruct l; cbn; destruct (ml_central m); reflexivity. Qed.
Lemma mid_rel_with_central m c c' : ml_central m = Some c -> b_symT c' = b_symT c ->
  mid_rel (fun l v => match l with LCentralIpsi => b_ipsi c' | LCentralContra => b_contra c' | _ => v end) m (ml_with_central m c').
Proof.
  intros Ec Hs. split; try reflexivity.
  - intros l. destruct l; cbn; rewrite ?Ec; reflexivity.
  - cbn. rewrite Ec. cbn. rewrite Hs. reflexivity.
Qed.

(** * What well-formedness depends on *)
(** [u'] has the arcs (names, kinds), the base and the distributions of [u] *)
Definition skel (u' u : uni) : Prop :=
  shape (u_edges u') = shape (u_edges u) /\ g_base (u_graph u') = g_base (u_graph u) /\ u_dists u' = u_dists u.
Lemma skel_refl u : skel u u. Proof. repeat split. Qed.
Lemma skel_trans u1 u2 u3 : skel u1 u2 -> skel u2 u3 -> skel u1 u3.
Proof. intros (A & B & C) (A' & B' & C'). repeat split; etransitivity; eassumption. Qed.
Lemma shape_eqb_congr e1 : forall e2 f1 f2, shape e1 = shape f1 -> shape e2 = shape f2 -> shape_eqb e1 e2 = shape_eqb f1 f2.
Proof.
  induction e1 as [|x e1 IH]; intros e2 f1 f2 H1 H2; destruct f1 as [|y f1]; cbn [shape map] in H1; try discriminate.
  - destruct e2, f2; cbn [shape map] in H2; try discriminate; reflexivity.
  - injection H1 as Hn Hk Hr. destruct e2 as [|x2 e2], f2 as [|y2 f2]; cbn [shape map] in H2; try discriminate; [reflexivity|].
    injection H2 as Hn2 Hk2 Hr2. cbn [shape_eqb]. rewrite Hn, Hk, Hn2, Hk2, (IH e2 f1 f2 Hr Hr2). reflexivity.
Qed.
Lemma skel_names_ok u' u : skel u' u -> u_names_ok u' = u_names_ok u.
Proof.
  intros (Hs & _ & Hd). unfold u_names_ok, u_edge_names, u_tstages. rewrite (shape_names _ _ Hs), Hd. reflexivity.
Qed.
Lemma skel_same_shape i' i c' c : skel i' i -> skel c' c -> same_shape i' c' = same_shape i c.
Proof.
  intros (Hs & Hb & _) (Hs' & Hb' & _). unfold same_shape. rewrite Hb, Hb', (shape_eqb_congr _ _ _ _ Hs Hs'). reflexivity.
Qed.
Lemma skel_b_names_ok b' b : skel (b_ipsi b') (b_ipsi b) -> skel (b_contra b') (b_contra b) -> b_names_ok b' = b_names_ok b.
Proof.
  intros Hi Hc. unfold b_names_ok, same_dist_keys.
  rewrite (skel_names_ok _ _ Hi), (skel_names_ok _ _ Hc), (skel_same_shape _ _ _ _ Hi Hc).
  destruct Hi as (_ & _ & ->). destruct Hc as (_ & _ & ->). reflexivity.
Qed.
Lemma u_put_sel_skel sel u qs : skel (u_put_sel sel u qs) u.
Proof. unfold skel, u_put_sel, u_edges. cbn [u_with_graph u_graph with_edges g_edges g_base u_dists]. rewrite edges_put_shape. repeat split. Qed.
Lemma u_with_dists_T u ds : u_T (u_with_dists u ds) = u_T u. Proof. reflexivity. Qed.
Lemma u_with_dists_L u ds : u_L (u_with_dists u ds) = u_L u. Proof. reflexivity. Qed.

(** * From the leaf-wise description to the invariant *)
Section MidRel.
  Variables (tr : leaf_id -> uni -> uni) (m m' : midline).
  Hypothesis Hrel : mid_rel tr m m'.

  Lemma mr_ext_i : ext_i m' = tr LExtIpsi (ext_i m).
  Proof. pose proof (mr_leaf _ _ _ Hrel LExtIpsi) as H. cbn in H. injection H as H. exact H. Qed.
  Lemma mr_ext_c : ext_c m' = tr LExtContra (ext_c m).
  Proof. pose proof (mr_leaf _ _ _ Hrel LExtContra) as H. cbn in H. injection H as H. exact H. Qed.
  Lemma mr_noext_i : noext_i m' = tr LNoextIpsi (noext_i m).
  Proof. pose proof (mr_leaf _ _ _ Hrel LNoextIpsi) as H. cbn in H. injection H as H. exact H. Qed.
  Lemma mr_noext_c : noext_c m' = tr LNoextContra (noext_c m).
  Proof. pose proof (mr_leaf _ _ _ Hrel LNoextContra) as H. cbn in H. injection H as H. exact H. Qed.
  Lemma mr_leaf_inv l u' : ml_leaf m' l = Some u' -> exists u, ml_leaf m l = Some u /\ u' = tr l u.
  Proof. rewrite (mr_leaf _ _ _ Hrel l). destruct (ml_leaf m l) as [u|]; [|discriminate]. intros [= <-]. exists u. split; reflexivity. Qed.

  (** well-formedness needs the skeleton of every leaf *)
  Lemma mid_rel_wf : (forall l u, ml_leaf m l = Some u -> skel (tr l u) u) -> m_wf m = true -> m_wf m' = true.
  Proof.
    intros Hsk. unfold m_wf. rewrite !andb_true_iff. intros [[[He Hn] Hc] Hk]. repeat split.
    - rewrite <- He. apply skel_b_names_ok.
      + fold (ext_i m') (ext_i m). rewrite mr_ext_i. apply Hsk. reflexivity.
      + fold (ext_c m') (ext_c m). rewrite mr_ext_c. apply Hsk. reflexivity.
    - rewrite <- Hn. apply skel_b_names_ok.
      + fold (noext_i m') (noext_i m). rewrite mr_noext_i. apply Hsk. reflexivity.
      + fold (noext_c m') (noext_c m). rewrite mr_noext_c. apply Hsk. reflexivity.
    - pose proof (mr_leaf _ _ _ Hrel LCentralIpsi) as Hi. pose proof (mr_leaf _ _ _ Hrel LCentralContra) as Hcc.
      pose proof (mr_csym _ _ _ Hrel) as Hsy. cbn [ml_leaf] in Hi, Hcc.
      destruct (ml_central m') as [c'|], (ml_central m) as [c|] eqn:Ec; cbn [option_map opt_ok] in *; try discriminate; [|reflexivity].
      injection Hi as Hi. injection Hcc as Hcc. injection Hsy as Hsy. rewrite Hsy.
      rewrite (skel_b_names_ok c' c); [exact Hc | rewrite Hi | rewrite Hcc]; apply Hsk; cbn [ml_leaf]; rewrite Ec; reflexivity.
    - rewrite (mr_unknown _ _ _ Hrel). exact Hk.
  Qed.

  (** configuration *)
  Lemma mid_rel_config : (forall l u, ml_leaf m l = Some u -> same_config (tr l u) u) -> m_same_config m -> m_same_config m'.
  Proof.
    intros Hc Hm u' Hu'. rewrite mr_ext_i.
    assert (He : same_config (tr LExtIpsi (ext_i m)) (ext_i m)) by (apply Hc; reflexivity).
    apply in_all_leaves in Hu'. destruct Hu' as [(l & E)|(k & E & H)].
    - destruct (mr_leaf_inv l u' E) as (u & Eu & ->).
      eapply same_config_trans; [apply Hc, Eu|]. eapply same_config_trans; [|apply same_config_sym, He].
      apply Hm, in_all_leaves. left. exists l. exact Eu.
    - eapply same_config_trans; [|apply same_config_sym, He]. apply Hm, in_all_leaves. right. exists k.
      rewrite <- (mr_unknown _ _ _ Hrel). tauto.
  Qed.

  (** sharing, from the values every leaf ends up with *)
  Lemma mid_rel_shared TI LI LC :
    (forall l u, In l (LCentralContra :: ipsi_ids) -> ml_leaf m l = Some u -> u_T (tr l u) = TI) ->
    (forall mix, ml_mixing m' = Some mix ->
       u_T (tr LExtContra (ext_c m)) = mixed_items mix TI (u_T (tr LNoextContra (noext_c m)))) ->
    (forall l u, In l ipsi_ids -> ml_leaf m l = Some u -> u_L (tr l u) = LI) ->
    (forall l u, In l contra_ids -> ml_leaf m l = Some u -> u_L (tr l u) = LC) ->
    (ml_symL m = true -> LC = LI) ->
    m_shared m'.
  Proof.
    intros HT Hmix HLi HLc Hsym.
    assert (ETI : u_T (ext_i m') = TI) by (rewrite mr_ext_i; apply HT; [cbn; tauto | reflexivity]).
    assert (ELI : u_L (ext_i m') = LI) by (rewrite mr_ext_i; apply HLi; [cbn; tauto | reflexivity]).
    assert (ELC : u_L (ext_c m') = LC) by (rewrite mr_ext_c; apply HLc; [cbn; tauto | reflexivity]).
    unfold m_shared. rewrite ETI, ELI, ELC. repeat split.
    - intros u' Hu'. apply in_ipsi_leaves in Hu'. destruct Hu' as (l & Hl & E).
      destruct (mr_leaf_inv l u' E) as (u & Eu & ->). apply HT; [right; exact Hl | exact Eu].
    - intros c' Ec'. assert (E : ml_leaf m' LCentralContra = Some (b_contra c')) by (cbn; rewrite Ec'; reflexivity).
      destruct (mr_leaf_inv _ _ E) as (u & Eu & ->). apply HT; [left; reflexivity | exact Eu].
    - intros mix Hm. rewrite mr_ext_c, mr_noext_c. apply Hmix, Hm.
    - intros u' Hu'. apply in_ipsi_leaves in Hu'. destruct Hu' as (l & Hl & E).
      destruct (mr_leaf_inv l u' E) as (u & Eu & ->). apply HLi; assumption.
    - intros u' Hu'. apply in_contra_leaves in Hu'. destruct Hu' as (l & Hl & E).
      destruct (mr_leaf_inv l u' E) as (u & Eu & ->). apply HLc; assumption.
    - rewrite (mr_symL _ _ _ Hrel). exact Hsym.
  Qed.
End MidRel.

(** what no parameter setter changes: which children exist, and the configuration *)
Definition m_frame (m m' : midline) : Prop := m_children m' = m_children m /\ same_config (ext_i m') (ext_i m).
Lemma m_frame_refl m : m_frame m m. Proof. split; [reflexivity | apply same_config_refl]. Qed.
Lemma m_frame_trans m1 m2 m3 : m_frame m1 m2 -> m_frame m2 m3 -> m_frame m1 m3.
Proof. intros [A B] [A' B']. split; [congruence | eapply same_config_trans; eassumption]. Qed.
Lemma mid_rel_frame tr m m' : mid_rel tr m m' -> (forall l u, ml_leaf m l = Some u -> same_config (tr l u) u) -> m_frame m m'.
Proof.
  intros Hrel Hc. split.
  - unfold m_children. rewrite (mr_unknown _ _ _ Hrel). pose proof (mr_leaf _ _ _ Hrel LCentralIpsi) as H. cbn [ml_leaf] in H.
    destruct (ml_central m'), (ml_central m); cbn in H; try discriminate; reflexivity.
  - rewrite (mr_ext_i _ _ _ Hrel). apply Hc. reflexivity.
Qed.

(** * Midline.set_lnl_spread_params *)
Definition inb (l : leaf_id) (ls : list leaf_id) : bool := existsb (leaf_eqb l) ls.
Lemma inb_In l ls : inb l ls = true <-> In l ls.
Proof.
  unfold inb. rewrite existsb_exists. split.
  - intros (x & Hx & E). apply leaf_eqb_eq in E. subst. exact Hx.
  - intros H. exists l. split; [exact H | apply leaf_eqb_refl].
Qed.
Lemma inb_false l ls : inb l ls = false <-> ~ In l ls.
Proof. rewrite <- inb_In. destruct (inb l ls); split; congruence. Qed.

Lemma ml_with_leaf_mixing m l u : ml_mixing (ml_with_leaf m l u) = ml_mixing m.
Proof. destruct l; cbn; try reflexivity; destruct (ml_central m); reflexivity. Qed.
Lemma ml_with_leaf_midext m l u : ml_midext (ml_with_leaf m l u) = ml_midext m.
Proof. destruct l; cbn; try reflexivity; destruct (ml_central m); reflexivity. Qed.

Lemma wf_leaf_names_ok m l u : m_wf m = true -> ml_leaf m l = Some u -> u_names_ok u = true.
Proof.
  unfold m_wf, b_names_ok. rewrite !andb_true_iff. intros [[[He Hn] Hc] _] E.
  destruct l; cbn [ml_leaf] in E.
  1,2: destruct (ml_central m) as [c|]; [|discriminate]; cbn [opt_ok option_map] in *; injection E as <-;
       rewrite ?andb_true_iff in Hc; tauto.
  all: injection E as <-; rewrite ?andb_true_iff in *; tauto.
Qed.

Section Block.
  Variables (a : args) (kw : kwargs) (L0 : list (path * Qc)).
  Let put qs (ls : list leaf_id) : leaf_id -> uni -> uni := fun l u => if inb l ls then u_put_sel sel_lnl u qs else u.

  Lemma lnl_block_spec ls : forall m, NoDup ls -> ls <> [] -> ml_leaf m (last ls LExtIpsi) <> None ->
    (forall l u, In l ls -> ml_leaf m l = Some u -> u_names_ok u = true /\ u_L u = L0) ->
    snd (m_set_lnl_block m ls a kw) <> None ->
    exists qs, all_unit (plan (u_lk kw) L0 a) = Some qs /\ length qs = length L0 /\
               snd (m_set_lnl_block m ls a kw) = Some (skipn (length L0) a) /\
               mid_rel (put qs ls) m (fst (m_set_lnl_block m ls a kw)) /\
               ml_mixing (fst (m_set_lnl_block m ls a kw)) = ml_mixing m /\
               ml_midext (fst (m_set_lnl_block m ls a kw)) = ml_midext m.
  Proof.
    induction ls as [|l r IH]; intros m Hnd Hne Hlast Hall Hret; [contradiction|].
    inversion Hnd as [|? ? Hni Hnd']; subst. cbn [m_set_lnl_block] in *.
    destruct (ml_leaf m l) as [u|] eqn:El.
    - destruct (Hall l u (or_introl eq_refl) El) as [Hok HL].
      rewrite u_set_lnl_is_leaf_set in *.
      destruct (leaf_set_cases sel_lnl u a kw Hok) as [N|(qs & E & Hlen & R)].
      + exfalso. destruct (leaf_set sel_lnl u a kw) as [u' o]. cbn [snd] in N. subst o. apply Hret. reflexivity.
      + change (u_sel_items sel_lnl u) with (u_L u) in E, Hlen, R. rewrite HL in E, Hlen, R. rewrite R in *. cbn [fst snd] in *.
        set (u' := u_put_sel sel_lnl u qs) in *. set (m1 := ml_with_leaf m l u') in *.
        pose proof (mid_rel_with_leaf m l u u' El) as Hr1. fold m1 in Hr1.
        destruct r as [|l2 r2].
        * exists qs. cbn [fst snd]. split; [|split; [|split; [|split; [|split]]]]; try assumption; try reflexivity.
          -- eapply mid_rel_ext; [|exact Hr1]. intros l' v Hv. unfold put. cbn [inb existsb]. rewrite orb_false_r.
             destruct (leaf_eqb l' l) eqn:Eq; [|reflexivity]. apply leaf_eqb_eq in Eq. subst l'. rewrite El in Hv. injection Hv as <-. reflexivity.
          -- apply ml_with_leaf_mixing.
          -- apply ml_with_leaf_midext.
        * assert (Hsame : forall l', In l' (l2 :: r2) -> ml_leaf m1 l' = ml_leaf m l').
          { intros l' Hl'. rewrite (mr_leaf _ _ _ Hr1 l'). destruct (leaf_eqb l' l) eqn:Eq.
            - apply leaf_eqb_eq in Eq. subst l'. contradiction.
            - destruct (ml_leaf m l'); reflexivity. }
          destruct (IH m1 Hnd') as (qs' & E' & Hlen' & R' & Hr2 & Hmix & Hmid).
          -- discriminate.
          -- cbn [last] in Hlast. rewrite Hsame; [exact Hlast|]. clear. generalize l2. induction r2 as [|x r2 IH]; intros y; [left; reflexivity|].
             cbn [last]. right. apply IH.
          -- intros l' v Hl' Hv. rewrite Hsame in Hv by exact Hl'. apply (Hall l' v); [right; exact Hl' | exact Hv].
          -- exact Hret.
          -- rewrite E in E'. injection E' as <-. exists qs. split; [|split; [|split; [|split; [|split]]]]; try assumption.
             ++ eapply mid_rel_ext; [|exact (mid_rel_trans _ _ _ _ _ Hr1 Hr2)]. intros l' v Hv. cbv beta. unfold put.
                change (inb l' (l :: l2 :: r2)) with (leaf_eqb l' l || inb l' (l2 :: r2)).
                destruct (leaf_eqb l' l) eqn:Eq; cbn [orb].
                ** apply leaf_eqb_eq in Eq. subst l'. rewrite El in Hv. injection Hv as <-.
                   apply inb_false in Hni. rewrite Hni. reflexivity.
                ** reflexivity.
             ++ rewrite Hmix. apply ml_with_leaf_mixing.
             ++ rewrite Hmid. apply ml_with_leaf_midext.
    - destruct r as [|l2 r2]; [exfalso; apply Hlast; exact El|].
      destruct (IH m Hnd') as (qs & E & Hlen & R & Hr & Hmix & Hmid).
      + discriminate.
      + exact Hlast.
      + intros l' v Hl' Hv. apply (Hall l' v); [right; exact Hl' | exact Hv].
      + exact Hret.
      + exists qs. split; [|split; [|split; [|split; [|split]]]]; try assumption.
        eapply mid_rel_ext; [|exact Hr]. intros l' v Hv. unfold put.
        change (inb l' (l :: l2 :: r2)) with (leaf_eqb l' l || inb l' (l2 :: r2)).
        destruct (leaf_eqb l' l) eqn:Eq; [|reflexivity]. apply leaf_eqb_eq in Eq. subst l'. rewrite El in Hv. discriminate.
  Qed.
End Block.

Lemma shared_ids m : m_shared m ->
  (forall l u, In l (LCentralContra :: ipsi_ids) -> ml_leaf m l = Some u -> u_T u = u_T (ext_i m)) /\
  (forall l u, In l ipsi_ids -> ml_leaf m l = Some u -> u_L u = u_L (ext_i m)) /\
  (forall l u, In l contra_ids -> ml_leaf m l = Some u -> u_L u = u_L (ext_c m)).
Proof.
  intros (H1 & H2 & _ & H4 & H5 & _). split; [|split].
  - intros l u [<-|Hl] E.
    + cbn [ml_leaf] in E. destruct (ml_central m) as [c|] eqn:Ec; [|discriminate]. injection E as <-. apply (H2 c eq_refl).
    + apply H1, in_ipsi_leaves. exists l. tauto.
  - intros l u Hl E. apply H4, in_ipsi_leaves. exists l. tauto.
  - intros l u Hl E. apply H5, in_contra_leaves. exists l. tauto.
Qed.

Definition lnl_put (qs : list Qc) (ls : list leaf_id) : leaf_id -> uni -> uni :=
  fun l u => if inb l ls then u_put_sel sel_lnl u qs else u.
Lemma lnl_put_T qs ls l u : u_T (lnl_put qs ls l u) = u_T u.
Proof. unfold lnl_put. destruct (inb l ls); [apply u_put_sel_T_lnl | reflexivity]. Qed.
Lemma lnl_put_skel qs ls l u : skel (lnl_put qs ls l u) u.
Proof. unfold lnl_put. destruct (inb l ls); [apply u_put_sel_skel | apply skel_refl]. Qed.
Lemma lnl_put_config qs ls l u : same_config (lnl_put qs ls l u) u.
Proof. unfold lnl_put. destruct (inb l ls); [apply u_put_sel_config | apply same_config_refl]. Qed.
Lemma lnl_put_L_in qs ls l u : In l ls -> length qs = length (u_L u) -> u_L (lnl_put qs ls l u) = combine (map fst (u_L u)) qs.
Proof.
  intros Hl Hlen. unfold lnl_put. apply inb_In in Hl. rewrite Hl.
  apply (u_sel_items_put sel_lnl u qs kind_sel_lnl Hlen).
Qed.
Lemma lnl_put_L_out qs ls l u : ~ In l ls -> u_L (lnl_put qs ls l u) = u_L u.
Proof. intros Hl. unfold lnl_put. apply inb_false in Hl. rewrite Hl. reflexivity. Qed.

Lemma NoDup_all_ids : NoDup [LCentralIpsi; LCentralContra; LExtIpsi; LExtContra; LNoextIpsi; LNoextContra].
Proof. repeat constructor; cbn; intuition discriminate. Qed.
Lemma NoDup_ipsi_block : NoDup [LCentralIpsi; LExtIpsi; LNoextIpsi].
Proof. repeat constructor; cbn; intuition discriminate. Qed.
Lemma NoDup_contra_block : NoDup [LCentralContra; LExtContra; LNoextContra].
Proof. repeat constructor; cbn; intuition discriminate. Qed.

Lemma m_lnl_strong m a kw : m_wf m = true -> m_consistent m ->
  snd (m_set_lnl_spread_params m a kw) <> None ->
  m_wf (fst (m_set_lnl_spread_params m a kw)) = true /\ m_shared (fst (m_set_lnl_spread_params m a kw)) /\
  m_same_config (fst (m_set_lnl_spread_params m a kw)) /\ m_frame m (fst (m_set_lnl_spread_params m a kw)).
Proof.
  intros Hwf [Hsh Hcf] Hret.
  destruct (shared_ids m Hsh) as (HidT & HidLi & HidLc).
  pose proof Hsh as (_ & _ & Hmixm & _ & _ & HsymL).
  unfold m_set_lnl_spread_params in *. destruct (unflatten_and_split kw ["ipsi"; "noext"; "ext"; "contra"]) as [split glob].
  destruct (ml_symL m) eqn:EsL.
  - (* symmetric: one block over all leaves *)
    set (ids := [LCentralIpsi; LCentralContra; LExtIpsi; LExtContra; LNoextIpsi; LNoextContra]) in *.
    assert (HallL : forall l u, In l ids -> ml_leaf m l = Some u -> u_names_ok u = true /\ u_L u = u_L (ext_i m)).
    { intros l u Hl E. split; [apply (wf_leaf_names_ok m l u Hwf E)|].
      destruct Hl as [<-|[<-|[<-|[<-|[<-|[<-|[]]]]]]].
      - apply (HidLi LCentralIpsi); [cbn; tauto | exact E].
      - rewrite <- (HsymL eq_refl). apply (HidLc LCentralContra); [cbn; tauto | exact E].
      - apply (HidLi LExtIpsi); [cbn; tauto | exact E].
      - rewrite <- (HsymL eq_refl). apply (HidLc LExtContra); [cbn; tauto | exact E].
      - apply (HidLi LNoextIpsi); [cbn; tauto | exact E].
      - rewrite <- (HsymL eq_refl). apply (HidLc LNoextContra); [cbn; tauto | exact E]. }
    destruct (lnl_block_spec a glob (u_L (ext_i m)) ids m NoDup_all_ids) as (qs & E & Hlen & R & Hrel & Hmix & _);
      [discriminate | cbn; discriminate | exact HallL | exact Hret |].
    fold (lnl_put qs ids) in Hrel. set (m' := fst (m_set_lnl_block m ids a glob)) in *.
    split; [|split; [|split]]; [| | |apply (mid_rel_frame _ m m' Hrel); intros; apply lnl_put_config].
    + apply (mid_rel_wf _ m m' Hrel); [intros; apply lnl_put_skel | exact Hwf].
    + apply (mid_rel_shared _ m m' Hrel (u_T (ext_i m)) (combine (map fst (u_L (ext_i m))) qs) (combine (map fst (u_L (ext_i m))) qs)).
      * intros l u Hl Eu. rewrite lnl_put_T. apply (HidT l u Hl Eu).
      * intros mix Hm. rewrite !lnl_put_T. apply Hmixm. rewrite <- Hmix. exact Hm.
      * intros l u Hl Eu. assert (Hin : In l ids) by (unfold ids; cbn in *; tauto).
        destruct (HallL l u Hin Eu) as [_ HLu]. rewrite lnl_put_L_in; [rewrite HLu; reflexivity | exact Hin | rewrite HLu; exact Hlen].
      * intros l u Hl Eu. assert (Hin : In l ids) by (unfold ids; cbn in *; tauto).
        destruct (HallL l u Hin Eu) as [_ HLu]. rewrite lnl_put_L_in; [rewrite HLu; reflexivity | exact Hin | rewrite HLu; exact Hlen].
      * reflexivity.
    + apply (mid_rel_config _ m m' Hrel); [intros; apply lnl_put_config | exact Hcf].
  - (* asymmetric: the ipsilateral leaves, then the contralateral ones *)
    destruct (andthen_ok _ _ Hret) as (a1 & Ha1 & Heq). rewrite Heq in *.
    set (idsI := [LCentralIpsi; LExtIpsi; LNoextIpsi]) in *. set (idsC := [LCentralContra; LExtContra; LNoextContra]) in *.
    assert (HallI : forall l u, In l idsI -> ml_leaf m l = Some u -> u_names_ok u = true /\ u_L u = u_L (ext_i m)).
    { intros l u Hl E. split; [apply (wf_leaf_names_ok m l u Hwf E)|]. apply (HidLi l); [unfold idsI in Hl; cbn in *; tauto | exact E]. }
    destruct (lnl_block_spec a (obj_kwargs "ipsi" split glob) (u_L (ext_i m)) idsI m NoDup_ipsi_block) as (qI & EI & HlenI & RI & HrelI & HmixI & _);
      [discriminate | cbn; discriminate | exact HallI | rewrite Ha1; discriminate |].
    fold (lnl_put qI idsI) in HrelI. set (m1 := fst (m_set_lnl_block m idsI a (obj_kwargs "ipsi" split glob))) in *.
    assert (Hwf1 : m_wf m1 = true) by (apply (mid_rel_wf _ m m1 HrelI); [intros; apply lnl_put_skel | exact Hwf]).
    assert (Hc1 : forall l, In l idsC -> ml_leaf m1 l = ml_leaf m l).
    { intros l Hl. rewrite (mr_leaf _ _ _ HrelI l). destruct (ml_leaf m l) as [u|]; [|reflexivity]. cbn [option_map].
      unfold lnl_put.
      assert (Hn : inb l idsI = false) by (apply inb_false; unfold idsI, idsC in *; cbn in *; intuition congruence).
      rewrite Hn. reflexivity. }
    assert (HallC : forall l u, In l idsC -> ml_leaf m1 l = Some u -> u_names_ok u = true /\ u_L u = u_L (ext_c m)).
    { intros l u Hl E. split; [apply (wf_leaf_names_ok m1 l u Hwf1 E)|]. rewrite Hc1 in E by exact Hl.
      apply (HidLc l); [unfold idsC in Hl; cbn in *; tauto | exact E]. }
    destruct (lnl_block_spec a1 (obj_kwargs "contra" split glob) (u_L (ext_c m)) idsC m1 NoDup_contra_block) as (qC & EC & HlenC & RC & HrelC & HmixC & _);
      [discriminate | cbn; discriminate | exact HallC | exact Hret |].
    fold (lnl_put qC idsC) in HrelC. set (m2 := fst (m_set_lnl_block m1 idsC a1 (obj_kwargs "contra" split glob))) in *.
    pose proof (mid_rel_trans _ _ _ _ _ HrelI HrelC) as Hrel. cbv beta in Hrel.
    split; [|split; [|split]]; [| | |apply (mid_rel_frame _ m m2 Hrel); intros l u _; eapply same_config_trans; apply lnl_put_config].
    + apply (mid_rel_wf _ m m2 Hrel); [|exact Hwf]. intros l u _. eapply skel_trans; apply lnl_put_skel.
    + apply (mid_rel_shared _ m m2 Hrel (u_T (ext_i m)) (combine (map fst (u_L (ext_i m))) qI) (combine (map fst (u_L (ext_c m))) qC)).
      * intros l u Hl Eu. rewrite !lnl_put_T. apply (HidT l u Hl Eu).
      * intros mix Hm. rewrite !lnl_put_T. apply Hmixm. rewrite <- HmixI, <- HmixC. exact Hm.
      * intros l u Hl Eu. assert (Hin : In l idsI) by (unfold idsI, ipsi_ids in *; cbn in *; tauto).
        assert (Hout : ~ In l idsC) by (unfold idsC, ipsi_ids in *; cbn in *; intuition congruence).
        rewrite lnl_put_L_out by exact Hout. destruct (HallI l u Hin Eu) as [_ HLu].
        rewrite lnl_put_L_in; [rewrite HLu; reflexivity | exact Hin | rewrite HLu; exact HlenI].
      * intros l u Hl Eu. assert (Hin : In l idsC) by (unfold idsC, contra_ids in *; cbn in *; tauto).
        assert (Hout : ~ In l idsI) by (unfold idsI, contra_ids in *; cbn in *; intuition congruence).
        assert (HLu : u_L u = u_L (ext_c m)) by (apply (HidLc l u Hl Eu)).
        rewrite lnl_put_L_in; [|exact Hin | rewrite lnl_put_L_out by exact Hout; rewrite HLu; exact HlenC].
        rewrite lnl_put_L_out by exact Hout. rewrite HLu. reflexivity.
      * intros C. rewrite EsL in C. discriminate.
    + apply (mid_rel_config _ m m2 Hrel); [|exact Hcf]. intros l u _.
      eapply same_config_trans; apply lnl_put_config.
Qed.
Theorem midline_lnl_preserved : C11_midline_lnl_preserved_stmt.
Proof.
  intros m a kw Hwf Hc _ Hret m'. subst m'. cbn [m_call touches_dists] in *.
  destruct (m_lnl_strong m a kw Hwf Hc Hret) as (H1 & H2 & H3 & _). split; [exact H1|]. split; [exact H2|]. intros _. exact H3.
Qed.

(** * Midline.set_tumor_spread_params *)
(** lookups of the central model *)
Lemma kw_last_None_notin {A} k (kw : list (path * A)) : ~ In k (map fst kw) -> kw_last k kw = None.
Proof. intros H. unfold kw_last. apply kw_get_In_None. rewrite map_rev, <- in_rev. exact H. Qed.

Lemma central_lookup kw split glob n s :
  unflatten_and_split kw ["ipsi"; "noext"; "ext"; "contra"] = (split, glob) -> no_double_ipsi kw ->
  ~ In n sides -> ~ In s sides ->
  side_lk "ipsi" (obj_kwargs "ipsi" split glob) [n; s] = u_lk (obj_kwargs "ipsi" split glob) [n; s].
Proof.
  intros Hu Hnd Hn Hs. set (K := obj_kwargs "ipsi" split glob).
  assert (HK : forall t, kw_last t K = eff ["ipsi"; "noext"; "ext"; "contra"] kw "ipsi" t).
  { intros t. unfold K. rewrite kw_last_NoDup by (apply (obj_kwargs_NoDup kw _ _ _ _ Hu)).
    apply (obj_kwargs_lookup kw _ "ipsi" t split glob); [cbn; intuition discriminate | exact Hu | cbn; tauto]. }
  assert (Hdbl : forall t, kw_last ("ipsi" :: t) K = None).
  { intros t. rewrite HK. unfold eff. rewrite kw_last_None_notin.
    - reflexivity.
    - intros Hin. specialize (Hnd _ Hin). cbn in Hnd. discriminate. }
  unfold side_lk, u_lk, eff. rewrite !Hdbl. unfold head_of. cbn [partition_key fst].
  apply mem_false in Hn. apply mem_false in Hs. rewrite Hn, Hs. reflexivity.
Qed.

Lemma T_key_form u k : u_names_ok u = true -> In k (map fst (u_T u)) ->
  exists n s, k = [n; s] /\ ~ In n sides /\ ~ In s sides.
Proof.
  intros Hok Hk. apply sel_params_heads in Hk. destruct Hk as (e & s & He & _ & -> & Hs).
  exists (e_name e), s. split; [reflexivity|]. split.
  - intros Hn. apply (in_reserved_not_edge u (e_name e) Hok); [cbn in *; intuition | apply in_map, He].
  - cbn in *. intuition; subst; discriminate.
Qed.

Lemma central_step c a ikw : b_names_ok c = true -> b_symT c = true ->
  (forall k, In k (map fst (u_T (b_ipsi c))) -> side_lk "ipsi" ikw k = u_lk ikw k) ->
  snd (b_set_tumor_spread_params c a ikw) <> None ->
  exists qs, all_unit (plan (u_lk ikw) (u_T (b_ipsi c)) a) = Some qs /\ length qs = length (u_T (b_ipsi c)) /\
    b_ipsi (fst (b_set_tumor_spread_params c a ikw)) = u_put_sel is_tumor_spread (b_ipsi c) qs /\
    b_contra (fst (b_set_tumor_spread_params c a ikw)) = u_put_sel is_tumor_spread (b_contra c) qs /\
    b_symT (fst (b_set_tumor_spread_params c a ikw)) = b_symT c.
Proof.
  intros Hok HsT Hlk Hret. unfold b_set_tumor_spread_params in *.
  pose proof (b_side_spec is_tumor_spread (b_symT c) c a ikw kind_sel_tumor Hok) as Hs.
  rewrite HsT in *. unfold side_plan in Hs. rewrite app_nil_r in Hs.
  assert (Hp : plan (side_lk "ipsi" ikw) (u_sel_items is_tumor_spread (b_ipsi c)) a = plan (u_lk ikw) (u_T (b_ipsi c)) a)
    by (apply plan_ext; exact Hlk).
  rewrite Hp in Hs. destruct (all_unit (plan (u_lk ikw) (u_T (b_ipsi c)) a)) as [qs|] eqn:E; [|contradiction].
  pose proof (all_unit_length _ _ E) as Hl. rewrite plan_length in Hl.
  exists qs. rewrite Hs. cbn [fst]. unfold side_result, b_with. cbn [b_ipsi b_contra b_symT].
  change (u_sel_items is_tumor_spread (b_ipsi c)) with (u_T (b_ipsi c)).
  rewrite <- Hl, firstn_all. repeat split; assumption.
Qed.

(** the keyword arguments built for ext.contra are the mixture, name by name *)
Lemma mixed_kwargs_spec mix m : u_names_ok (ext_i m) = true -> u_names_ok (noext_c m) = true ->
  mixed_kwargs mix m = own_kwargs (mixed_items mix (u_T (ext_i m)) (u_T (noext_c m))).
Proof.
  intros Hi Hc. unfold mixed_kwargs, own_kwargs, mixed_items. fold (ext_i m) (noext_c m).
  rewrite (u_tumor_flat _ Hi), (u_tumor_flat _ Hc), !items_leaves. rewrite map_map. reflexivity.
Qed.

Lemma mixed_items_keys mix Ti Tc : length Tc = length Ti -> map fst (mixed_items mix Ti Tc) = map fst Ti.
Proof.
  unfold mixed_items. revert Tc. induction Ti as [|[k v] Ti IH]; intros [|[k' v'] Tc] Hl; cbn [length] in Hl; try discriminate; [reflexivity|].
  cbn [map combine fst snd]. f_equal. apply IH. lia.
Qed.

(** setting the tumour arcs of a leaf from complete keyword arguments *)
Lemma leaf_set_own u M : u_names_ok u = true -> map fst M = map fst (u_T u) ->
  snd (leaf_set is_tumor_spread u [] (own_kwargs M)) <> None ->
  fst (leaf_set is_tumor_spread u [] (own_kwargs M)) = u_put_sel is_tumor_spread u (map snd M) /\
  u_T (u_put_sel is_tumor_spread u (map snd M)) = M.
Proof.
  intros Hok Hkeys Hret.
  assert (Hnd : NoDup (map fst M)) by (rewrite Hkeys; apply u_tumor_keys_NoDup, Hok).
  assert (Hlen : length M = length (u_T u)) by (rewrite <- (map_length fst M), Hkeys, map_length; reflexivity).
  assert (Hp : plan (u_lk (own_kwargs M)) (u_T u) [] = vals (map snd M)).
  { apply plan_all_kw; [unfold vals; rewrite !map_length; exact Hlen|].
    intros k v Hin. rewrite <- Hkeys in Hin.
    assert (Hin' : In (k, v) (own_kwargs M)).
    { clear - Hin. unfold own_kwargs, vals in *. induction M as [|[k' x] M IH]; [destruct Hin|].
      cbn [map fst snd combine] in *. destruct Hin as [H|H]; [left; exact H | right; apply IH, H]. }
    assert (Hk : In k (map fst (u_T u))) by (rewrite <- Hkeys; apply in_combine_l in Hin; exact Hin).
    destruct (T_key_form u k Hok Hk) as (n & s & -> & _). unfold u_lk.
    assert (Hnd' : NoDup (map fst (own_kwargs M))) by (unfold own_kwargs; rewrite map_map; cbn [fst]; exact Hnd).
    rewrite (kw_last_NoDup _ _ Hnd'), (kw_get_NoDup_In _ _ _ Hnd' Hin'). reflexivity. }
  destruct (leaf_set_cases is_tumor_spread u [] (own_kwargs M) Hok) as [N|(qs & E & Hl & R)]; [contradiction|].
  change (u_sel_items is_tumor_spread u) with (u_T u) in *. rewrite Hp in E.
  destruct (all_unit_Some_vals _ _ E) as [Hv _]. apply (f_equal unwrap) in Hv. rewrite !unwrap_vals in Hv. injection Hv as <-.
  rewrite R. cbn [fst]. split; [reflexivity|].
  change (u_T (u_put_sel is_tumor_spread u (map snd M))) with (u_sel_items is_tumor_spread (u_put_sel is_tumor_spread u (map snd M))).
  rewrite u_sel_items_put by (try apply kind_sel_tumor; rewrite map_length; exact Hlen).
  change (u_sel_items is_tumor_spread u) with (u_T u). rewrite <- Hkeys.
  clear. induction M as [|[k v] M IH]; [reflexivity|]. cbn [map combine fst snd]. f_equal. exact IH.
Qed.

Definition tum_put (q : leaf_id -> option (list Qc)) : leaf_id -> uni -> uni :=
  fun l u => match q l with Some qs => u_put_sel is_tumor_spread u qs | None => u end.
Lemma tum_put_L q l u : u_L (tum_put q l u) = u_L u.
Proof. unfold tum_put. destruct (q l); [apply u_put_sel_L_tumor | reflexivity]. Qed.
Lemma tum_put_skel q l u : skel (tum_put q l u) u.
Proof. unfold tum_put. destruct (q l); [apply u_put_sel_skel | apply skel_refl]. Qed.
Lemma tum_put_config q l u : same_config (tum_put q l u) u.
Proof. unfold tum_put. destruct (q l); [apply u_put_sel_config | apply same_config_refl]. Qed.
Lemma tum_put_T_some q l u qs : q l = Some qs -> length qs = length (u_T u) -> u_T (tum_put q l u) = combine (map fst (u_T u)) qs.
Proof. intros E Hl. unfold tum_put. rewrite E. apply (u_sel_items_put is_tumor_spread u qs kind_sel_tumor Hl). Qed.
Lemma tum_put_T_none q l u : q l = None -> u_T (tum_put q l u) = u_T u.
Proof. intros E. unfold tum_put. rewrite E. reflexivity. Qed.

(** one leaf of a midline model receives new tumour spread values *)
Lemma tumor_leaf_step m l u a kw : ml_leaf m l = Some u -> u_names_ok u = true ->
  snd (u_set_tumor_spread_params u a kw) <> None ->
  exists qs, all_unit (plan (u_lk kw) (u_T u) a) = Some qs /\ length qs = length (u_T u) /\
    u_set_tumor_spread_params u a kw = (u_put_sel is_tumor_spread u qs, Some (skipn (length (u_T u)) a)) /\
    mid_rel (tum_put (fun l' => if leaf_eqb l' l then Some qs else None)) m (ml_with_leaf m l (u_put_sel is_tumor_spread u qs)).
Proof.
  intros El Hok Hret. rewrite u_set_tumor_is_leaf_set in *.
  destruct (leaf_set_cases is_tumor_spread u a kw Hok) as [N|(qs & E & Hl & R)]; [contradiction|].
  exists qs. split; [exact E|]. split; [exact Hl|]. split; [exact R|].
  eapply mid_rel_ext; [|apply (mid_rel_with_leaf m l u _ El)]. intros l' v Hv. unfold tum_put. cbv beta.
  destruct (leaf_eqb l' l) eqn:Eq; [|reflexivity]. apply leaf_eqb_eq in Eq. subst l'. rewrite El in Hv. injection Hv as <-. reflexivity.
Qed.

(** Midline.set_tumor_spread_params cut into its steps (same function, by conversion) *)
Definition tum6 (m5 : midline) (mix : Qc) (a5 : args) : midline * option args :=
  let '(ec, ok6) := ok_of (u_set_tumor_spread_params (b_contra (ml_ext m5)) [] (mixed_kwargs mix m5)) in
  (ml_with_ext m5 (b_with_contra (ml_ext m5) ec), if ok6 then Some a5 else None).
Definition tum5 (m4 : midline) (glob : kwargs) (cur : Qc) (a4 : args) : midline * option args :=
  let '(first, a5) := popfirst a4 in
  match check_unit (match kw_get ["mixing"] glob with Some v => v | None => val_or first cur end) with
  | None => (m4, None)
  | Some mix => tum6 (ml_with_mixing m4 mix) mix a5
  end.
Definition tum4 (m3 : midline) (split : list (string * kwargs)) (glob : kwargs) (a3 : args) : midline * option args :=
  match ml_mixing m3 with
  | Some cur =>
      let '(nc, o4) := u_set_tumor_spread_params (b_contra (ml_noext m3)) a3 (obj_kwargs "contra" split glob) in
      match o4 with
      | None => (ml_with_noext m3 (b_with_contra (ml_noext m3) nc), None)
      | Some a4 => tum5 (ml_with_noext m3 (b_with_contra (ml_noext m3) nc)) glob cur a4
      end
  | None =>
      let '(noext_split, _) := unflatten_and_split (sub_kwargs "noext" split) ["contra"] in
      let '(nc, o4) := u_set_tumor_spread_params (b_contra (ml_noext m3)) a3 (obj_kwargs "contra" noext_split glob) in
      let m4 := ml_with_noext m3 (b_with_contra (ml_noext m3) nc) in
      match o4 with
      | None => (m4, None)
      | Some a4 =>
          let '(ext_split, _) := unflatten_and_split (sub_kwargs "ext" split) ["contra"] in
          let '(ec, o5) := u_set_tumor_spread_params (b_contra (ml_ext m4)) a4 (obj_kwargs "contra" ext_split glob) in
          (ml_with_ext m4 (b_with_contra (ml_ext m4) ec), o5)
      end
  end.
Definition tum3 (m2 : midline) (split : list (string * kwargs)) (glob ikw : kwargs) (a : args) : midline * option args :=
  let '(ni, o3) := u_set_tumor_spread_params (b_ipsi (ml_noext m2)) a ikw in
  match o3 with
  | None => (ml_with_noext m2 (b_with_ipsi (ml_noext m2) ni), None)
  | Some a3 => tum4 (ml_with_noext m2 (b_with_ipsi (ml_noext m2) ni)) split glob a3
  end.
Definition tum2 (m1 : midline) (split : list (string * kwargs)) (glob ikw : kwargs) (a : args) : midline * option args :=
  let '(ei, ok2) := ok_of (u_set_tumor_spread_params (b_ipsi (ml_ext m1)) a ikw) in
  if negb ok2 then (ml_with_ext m1 (b_with_ipsi (ml_ext m1) ei), None)
  else tum3 (ml_with_ext m1 (b_with_ipsi (ml_ext m1) ei)) split glob ikw a.
Definition tum1 (m : midline) (split : list (string * kwargs)) (glob : kwargs) (a : args) : midline * option args :=
  let ikw := obj_kwargs "ipsi" split glob in
  let '(m1, ok1) :=
    match ml_central m with
    | None => (m, true)
    | Some c => let '(c', ok) := ok_of (b_set_tumor_spread_params c a ikw) in (ml_with_central m c', ok)
    end in
  if negb ok1 then (m1, None) else tum2 m1 split glob ikw a.
Lemma tum_eq m a kw :
  m_set_tumor_spread_params m a kw
  = let '(split, glob) := unflatten_and_split kw ["ipsi"; "noext"; "ext"; "contra"] in tum1 m split glob a.
Proof. reflexivity. Qed.

Lemma wf_parts m : m_wf m = true ->
  b_names_ok (ml_ext m) = true /\ b_names_ok (ml_noext m) = true /\
  (forall c, ml_central m = Some c -> b_names_ok c = true /\ b_symT c = true).
Proof.
  unfold m_wf. rewrite !andb_true_iff. intros [[[He Hn] Hc] _]. repeat split; try assumption;
    subst; rewrite H in Hc; cbn [opt_ok] in Hc; apply andb_true_iff in Hc; tauto.
Qed.
Lemma wf_T_keys m : m_wf m = true ->
  map fst (u_T (ext_c m)) = map fst (u_T (ext_i m)) /\ map fst (u_T (noext_c m)) = map fst (u_T (noext_i m)).
Proof. intros H. destruct (wf_parts m H) as (He & Hn & _). split; [apply (contra_T_keys _ He) | apply (contra_T_keys _ Hn)]. Qed.

Definition q2 (l1 : leaf_id) (q1 : list Qc) (l2 : leaf_id) (q2 : list Qc) : leaf_id -> option (list Qc) :=
  fun l => if leaf_eqb l l1 then Some q1 else if leaf_eqb l l2 then Some q2 else None.
Definition q1 (l1 : leaf_id) (qs : list Qc) : leaf_id -> option (list Qc) := fun l => if leaf_eqb l l1 then Some qs else None.

Lemma tum6_spec m5 mix a5 : m_wf m5 = true -> u_T (noext_i m5) = u_T (ext_i m5) ->
  snd (tum6 m5 mix a5) <> None ->
  let M := mixed_items mix (u_T (ext_i m5)) (u_T (noext_c m5)) in
  snd (tum6 m5 mix a5) = Some a5 /\
  mid_rel (tum_put (q1 LExtContra (map snd M))) m5 (fst (tum6 m5 mix a5)) /\
  u_T (u_put_sel is_tumor_spread (ext_c m5) (map snd M)) = M /\
  ml_mixing (fst (tum6 m5 mix a5)) = ml_mixing m5.
Proof.
  intros Hwf HTn Hret M. destruct (wf_T_keys m5 Hwf) as [Kec Knc].
  assert (Hei : u_names_ok (ext_i m5) = true) by (apply (wf_leaf_names_ok m5 LExtIpsi _ Hwf); reflexivity).
  assert (Hec : u_names_ok (ext_c m5) = true) by (apply (wf_leaf_names_ok m5 LExtContra _ Hwf); reflexivity).
  assert (Hnc : u_names_ok (noext_c m5) = true) by (apply (wf_leaf_names_ok m5 LNoextContra _ Hwf); reflexivity).
  assert (HkM : map fst M = map fst (u_T (ext_c m5))).
  { unfold M. rewrite mixed_items_keys; [symmetry; exact Kec|].
    rewrite <- (map_length fst (u_T (noext_c m5))), Knc, HTn, map_length. reflexivity. }
  revert Hret. unfold tum6. rewrite (mixed_kwargs_spec mix m5 Hei Hnc). fold M. fold (ext_c m5).
  rewrite u_set_tumor_is_leaf_set. intros Hret.
  assert (Hret' : snd (leaf_set is_tumor_spread (ext_c m5) [] (own_kwargs M)) <> None).
  { intros C. apply Hret. destruct (leaf_set is_tumor_spread (ext_c m5) [] (own_kwargs M)) as [ec o]. cbn in C. subst o. reflexivity. }
  destruct (leaf_set_own (ext_c m5) M Hec HkM Hret') as [Hfst HT].
  destruct (leaf_set is_tumor_spread (ext_c m5) [] (own_kwargs M)) as [ec [r|]]; [|contradiction]. cbn [fst snd ok_of] in *. subst ec.
  split; [reflexivity|]. split; [|split; [exact HT | reflexivity]].
  eapply mid_rel_ext; [|apply (mid_rel_with_leaf m5 LExtContra (ext_c m5) _ eq_refl)].
  intros l v Hv. unfold tum_put, q1. destruct (leaf_eqb l LExtContra) eqn:Eq; [|reflexivity].
  apply leaf_eqb_eq in Eq. subst l. cbn in Hv. injection Hv as <-. reflexivity.
Qed.

Lemma tum5_spec m4 glob cur a4 : m_wf m4 = true -> u_T (noext_i m4) = u_T (ext_i m4) ->
  snd (tum5 m4 glob cur a4) <> None ->
  exists mix, let M := mixed_items mix (u_T (ext_i m4)) (u_T (noext_c m4)) in
    mid_rel (tum_put (q1 LExtContra (map snd M))) m4 (fst (tum5 m4 glob cur a4)) /\
    u_T (u_put_sel is_tumor_spread (ext_c m4) (map snd M)) = M /\
    ml_mixing (fst (tum5 m4 glob cur a4)) = Some mix.
Proof.
  intros Hwf HTn. unfold tum5. destruct (popfirst a4) as [first a5].
  destruct (check_unit _) as [mix|]; [|intros C; contradiction]. intros Hret.
  set (m5 := ml_with_mixing m4 mix) in *.
  assert (Hwf5 : m_wf m5 = true) by exact Hwf.
  destruct (tum6_spec m5 mix a5 Hwf5 HTn Hret) as (_ & Hrel & HT & Hmix).
  exists mix. cbv zeta. split; [|split; [exact HT | rewrite Hmix; reflexivity]].
  eapply mid_rel_ext; [|exact (mid_rel_trans _ _ _ _ _ (mid_rel_with_mixing m4 mix) Hrel)]. reflexivity.
Qed.

Lemma tum4_spec m3 split glob a3 : m_wf m3 = true -> u_T (noext_i m3) = u_T (ext_i m3) ->
  snd (tum4 m3 split glob a3) <> None ->
  exists qN qE, length qN = length (u_T (noext_c m3)) /\ length qE = length (u_T (ext_c m3)) /\
    mid_rel (tum_put (q2 LNoextContra qN LExtContra qE)) m3 (fst (tum4 m3 split glob a3)) /\
    (forall mix, ml_mixing (fst (tum4 m3 split glob a3)) = Some mix ->
       u_T (u_put_sel is_tumor_spread (ext_c m3) qE)
       = mixed_items mix (u_T (ext_i m3)) (u_T (u_put_sel is_tumor_spread (noext_c m3) qN))).
Proof.
  intros Hwf HTn. unfold tum4.
  assert (Hnc : u_names_ok (noext_c m3) = true) by (apply (wf_leaf_names_ok m3 LNoextContra _ Hwf); reflexivity).
  assert (Hec : u_names_ok (ext_c m3) = true) by (apply (wf_leaf_names_ok m3 LExtContra _ Hwf); reflexivity).
  destruct (ml_mixing m3) as [cur|] eqn:Emix.
  - (* use_mixing *)
    fold (noext_c m3).
    destruct (u_set_tumor_spread_params (noext_c m3) a3 (obj_kwargs "contra" split glob)) as [nc o4] eqn:E4.
    destruct o4 as [a4|]; [|intros C; contradiction]. intros Hret.
    destruct (tumor_leaf_step m3 LNoextContra (noext_c m3) a3 (obj_kwargs "contra" split glob) eq_refl Hnc) as (qN & _ & HlN & R & Hrel4); [rewrite E4; discriminate|].
    rewrite E4 in R. injection R as -> _.
    change (ml_with_noext m3 (b_with_contra (ml_noext m3) (u_put_sel is_tumor_spread (noext_c m3) qN)))
      with (ml_with_leaf m3 LNoextContra (u_put_sel is_tumor_spread (noext_c m3) qN)) in *.
    set (m4 := ml_with_leaf m3 LNoextContra (u_put_sel is_tumor_spread (noext_c m3) qN)) in *.
    assert (Hwf4 : m_wf m4 = true) by (apply (mid_rel_wf _ m3 m4 Hrel4); [intros; apply tum_put_skel | exact Hwf]).
    assert (HTn4 : u_T (noext_i m4) = u_T (ext_i m4)) by exact HTn.
    destruct (tum5_spec m4 glob cur a4 Hwf4 HTn4 Hret) as (mix & Hrel5 & HT & Hmix5). cbv zeta in *.
    set (M := mixed_items mix (u_T (ext_i m4)) (u_T (noext_c m4))) in *.
    exists qN, (map snd M). split; [exact HlN|]. split.
    + rewrite map_length. unfold M. unfold mixed_items. rewrite map_length, combine_length, map_length.
      destruct (wf_T_keys m4 Hwf4) as [Kec Knc].
      assert (L1 : length (u_T (noext_c m4)) = length (u_T (ext_i m4))).
      { rewrite <- (map_length fst (u_T (noext_c m4))), Knc, HTn4, map_length. reflexivity. }
      assert (L2 : length (u_T (ext_c m4)) = length (u_T (ext_i m4))).
      { rewrite <- (map_length fst (u_T (ext_c m4))), Kec, map_length. reflexivity. }
      change (ext_c m4) with (ext_c m3) in L2. rewrite L1, L2. apply Nat.min_id.
    + split.
      * eapply mid_rel_ext; [|exact (mid_rel_trans _ _ _ _ _ Hrel4 Hrel5)]. intros l v _. unfold tum_put, q1, q2. cbv beta.
        destruct (leaf_eqb l LNoextContra) eqn:E1; [apply leaf_eqb_eq in E1; subst l; reflexivity|].
        destruct (leaf_eqb l LExtContra); reflexivity.
      * intros mix' Hm. rewrite Hmix5 in Hm. injection Hm as <-. exact HT.
  - (* no mixing: two independent contralateral spreads *)
    destruct (unflatten_and_split (sub_kwargs "noext" split) ["contra"]) as [nsplit ?].
    fold (noext_c m3).
    destruct (u_set_tumor_spread_params (noext_c m3) a3 (obj_kwargs "contra" nsplit glob)) as [nc o4] eqn:E4.
    destruct o4 as [a4|]; [|intros C; contradiction].
    destruct (tumor_leaf_step m3 LNoextContra (noext_c m3) a3 (obj_kwargs "contra" nsplit glob) eq_refl Hnc) as (qN & _ & HlN & R & Hrel4); [rewrite E4; discriminate|].
    rewrite E4 in R. injection R as -> _.
    change (ml_with_noext m3 (b_with_contra (ml_noext m3) (u_put_sel is_tumor_spread (noext_c m3) qN)))
      with (ml_with_leaf m3 LNoextContra (u_put_sel is_tumor_spread (noext_c m3) qN)) in *.
    set (m4 := ml_with_leaf m3 LNoextContra (u_put_sel is_tumor_spread (noext_c m3) qN)) in *.
    destruct (unflatten_and_split (sub_kwargs "ext" split) ["contra"]) as [esplit ?].
    change (b_contra (ml_ext m4)) with (ext_c m3).
    destruct (u_set_tumor_spread_params (ext_c m3) a4 (obj_kwargs "contra" esplit glob)) as [ec o5] eqn:E5.
    cbn [snd fst]. intros Hret.
    destruct (tumor_leaf_step m4 LExtContra (ext_c m3) a4 (obj_kwargs "contra" esplit glob) eq_refl Hec) as (qE & _ & HlE & R & Hrel5); [rewrite E5; exact Hret|].
    rewrite E5 in R. injection R as -> _.
    exists qN, qE. split; [exact HlN|]. split; [exact HlE|]. split.
    + eapply mid_rel_ext; [|exact (mid_rel_trans _ _ _ _ _ Hrel4 Hrel5)]. intros l v _. unfold tum_put, q2. cbv beta.
      destruct (leaf_eqb l LNoextContra) eqn:E1; [apply leaf_eqb_eq in E1; subst l; reflexivity|].
      destruct (leaf_eqb l LExtContra); reflexivity.
    + intros mix Hm. cbn in Hm. rewrite Emix in Hm. discriminate.
Qed.

Lemma put_T_keys u qs : length qs = length (u_T u) -> u_T (u_put_sel is_tumor_spread u qs) = combine (map fst (u_T u)) qs.
Proof. intros H. apply (u_sel_items_put is_tumor_spread u qs kind_sel_tumor H). Qed.

Lemma m_tumor_strong m a kw : m_wf m = true -> m_consistent m -> (ml_central m <> None -> no_double_ipsi kw) ->
  snd (m_set_tumor_spread_params m a kw) <> None ->
  m_wf (fst (m_set_tumor_spread_params m a kw)) = true /\ m_shared (fst (m_set_tumor_spread_params m a kw)) /\
  m_same_config (fst (m_set_tumor_spread_params m a kw)) /\ m_frame m (fst (m_set_tumor_spread_params m a kw)).
Proof.
  intros Hwf [Hsh Hcf] Hndi Hret.
  destruct (shared_ids m Hsh) as (HidT & HidLi & HidLc).
  pose proof Hsh as (_ & _ & _ & _ & _ & HsymL).
  rewrite tum_eq in *. destruct (unflatten_and_split kw ["ipsi"; "noext"; "ext"; "contra"]) as [split glob] eqn:Hu.
  revert Hret. unfold tum1. set (ikw := obj_kwargs "ipsi" split glob).
  set (T0 := u_T (ext_i m)) in *.
  (* step 1: the central model *)
  match goal with |- context [let '(m1, ok1) := ?X in _] => destruct X as [m1 ok1] eqn:E1 end.
  destruct ok1; cbn [negb]; [|intros C; contradiction]. intros Hret.
  assert (S1 : exists qq1, mid_rel (tum_put qq1) m m1 /\ ml_mixing m1 = ml_mixing m /\
                (forall l u, In l [LCentralIpsi; LCentralContra] -> ml_leaf m l = Some u ->
                   exists qs, qq1 l = Some qs /\ all_unit (plan (u_lk ikw) T0 a) = Some qs /\ length qs = length T0) /\
                (forall l, ~ In l [LCentralIpsi; LCentralContra] -> qq1 l = None)).
  { destruct (ml_central m) as [c|] eqn:Ec.
    - destruct (wf_parts m Hwf) as (_ & _ & Hcen). destruct (Hcen c Ec) as [Hcok HcT].
      assert (HTci : u_T (b_ipsi c) = T0) by (apply (HidT LCentralIpsi); [cbn; tauto | cbn; rewrite Ec; reflexivity]).
      assert (HTcc : u_T (b_contra c) = T0) by (apply (HidT LCentralContra); [cbn; tauto | cbn; rewrite Ec; reflexivity]).
      destruct (b_set_tumor_spread_params c a ikw) as [c' o1] eqn:Eb. cbn [ok_of fst snd] in E1. injection E1 as <- Hok1.
      destruct o1 as [a1|]; [|discriminate].
      destruct (central_step c a ikw Hcok HcT) as (qc & Eqc & Hlc & Hci & Hcc & HsT').
      { intros k Hk. destruct (T_key_form (b_ipsi c) k) as (n & s & -> & Hn & Hs); [apply (b_names_ok_parts c Hcok) | exact Hk|].
        apply (central_lookup kw split glob n s Hu); [apply Hndi; discriminate | exact Hn | exact Hs]. }
      { rewrite Eb. discriminate. }
      rewrite Eb in Hci, Hcc, HsT'. cbn [fst] in Hci, Hcc, HsT'. rewrite HTci in Eqc, Hlc.
      exists (q2 LCentralIpsi qc LCentralContra qc). split; [|split; [reflexivity|split]].
      + eapply mid_rel_ext; [|apply (mid_rel_with_central m c c' Ec HsT')]. intros l v Hv. unfold tum_put, q2.
        destruct l; cbn [leaf_eqb]; try reflexivity; cbn [ml_leaf] in Hv; rewrite Ec in Hv; injection Hv as <-; assumption.
      + intros l u [<-|[<-|[]]] _; exists qc; repeat split; assumption.
      + intros l Hl. unfold q2. destruct l; cbn [leaf_eqb]; try reflexivity; exfalso; apply Hl; cbn; tauto.
    - injection E1 as <-. exists (fun _ => None). split; [|split; [reflexivity|split]].
      + eapply mid_rel_ext; [|apply mid_rel_refl]. reflexivity.
      + intros l u [<-|[<-|[]]] E; cbn [ml_leaf] in E; rewrite Ec in E; discriminate.
      + reflexivity. }
  clear E1. destruct S1 as (qq1 & Hrel1 & Hmix1 & Hq1in & Hq1out).
  assert (Hwf1 : m_wf m1 = true) by (apply (mid_rel_wf _ m m1 Hrel1); [intros; apply tum_put_skel | exact Hwf]).
  assert (Id1 : forall l v, ~ In l [LCentralIpsi; LCentralContra] -> tum_put qq1 l v = v).
  { intros l v Hl. unfold tum_put. rewrite (Hq1out l Hl). reflexivity. }
  (* step 2: ext.ipsi *)
  unfold tum2 in Hret |- *. revert Hret.
  assert (Ei1 : ext_i m1 = ext_i m) by (rewrite (mr_ext_i _ _ _ Hrel1); apply Id1; cbn; intuition discriminate).
  fold (ext_i m1). rewrite Ei1.
  destruct (u_set_tumor_spread_params (ext_i m) a ikw) as [ei o2] eqn:E2. cbn [ok_of fst snd].
  destruct o2 as [a2|]; cbn [negb]; [|intros C; contradiction]. intros Hret.
  assert (El2 : ml_leaf m1 LExtIpsi = Some (ext_i m)) by (cbn [ml_leaf]; fold (ext_i m1); rewrite Ei1; reflexivity).
  assert (Hei : u_names_ok (ext_i m) = true) by (apply (wf_leaf_names_ok m LExtIpsi _ Hwf); reflexivity).
  destruct (tumor_leaf_step m1 LExtIpsi (ext_i m) a ikw El2 Hei) as (qI & EqI & HlI & R2 & Hrel2); [rewrite E2; discriminate|].
  fold T0 in EqI, HlI. rewrite E2 in R2. injection R2 as -> _.
  change (ml_with_ext m1 (b_with_ipsi (ml_ext m1) (u_put_sel is_tumor_spread (ext_i m) qI)))
    with (ml_with_leaf m1 LExtIpsi (u_put_sel is_tumor_spread (ext_i m) qI)) in *.
  set (m2 := ml_with_leaf m1 LExtIpsi (u_put_sel is_tumor_spread (ext_i m) qI)) in *.
  pose proof (mid_rel_trans _ _ _ _ _ Hrel1 Hrel2) as Hrel12. cbv beta in Hrel12.
  (* step 3: noext.ipsi *)
  unfold tum3 in Hret |- *. revert Hret.
  assert (Ni2 : noext_i m2 = noext_i m).
  { rewrite (mr_noext_i _ _ _ Hrel12). unfold tum_put at 1, q1. cbn [leaf_eqb]. apply Id1. cbn; intuition discriminate. }
  fold (noext_i m2). rewrite Ni2.
  destruct (u_set_tumor_spread_params (noext_i m) a ikw) as [ni o3] eqn:E3.
  destruct o3 as [a3|]; [|intros C; contradiction]. intros Hret.
  assert (El3 : ml_leaf m2 LNoextIpsi = Some (noext_i m)) by (cbn [ml_leaf]; fold (noext_i m2); rewrite Ni2; reflexivity).
  assert (Hni : u_names_ok (noext_i m) = true) by (apply (wf_leaf_names_ok m LNoextIpsi _ Hwf); reflexivity).
  assert (HTni : u_T (noext_i m) = T0) by (apply (HidT LNoextIpsi); [cbn; tauto | reflexivity]).
  destruct (tumor_leaf_step m2 LNoextIpsi (noext_i m) a ikw El3 Hni) as (qI' & EqI' & HlI' & R3 & Hrel3); [rewrite E3; discriminate|].
  rewrite HTni in EqI', HlI'. rewrite EqI in EqI'. injection EqI' as <-.
  rewrite E3 in R3. injection R3 as -> _.
  change (ml_with_noext m2 (b_with_ipsi (ml_noext m2) (u_put_sel is_tumor_spread (noext_i m) qI)))
    with (ml_with_leaf m2 LNoextIpsi (u_put_sel is_tumor_spread (noext_i m) qI)) in *.
  set (m3 := ml_with_leaf m2 LNoextIpsi (u_put_sel is_tumor_spread (noext_i m) qI)) in *.
  pose proof (mid_rel_trans _ _ _ _ _ Hrel12 Hrel3) as Hrel123. cbv beta in Hrel123.
  assert (Hwf3 : m_wf m3 = true).
  { apply (mid_rel_wf _ m m3 Hrel123); [|exact Hwf]. intros l u _. eapply skel_trans; [apply tum_put_skel|]. eapply skel_trans; apply tum_put_skel. }
  assert (Ei3 : ext_i m3 = u_put_sel is_tumor_spread (ext_i m) qI).
  { rewrite (mr_ext_i _ _ _ Hrel123). unfold tum_put at 1 2, q1. cbn [leaf_eqb]. rewrite Id1 by (cbn; intuition discriminate). reflexivity. }
  assert (Ni3 : noext_i m3 = u_put_sel is_tumor_spread (noext_i m) qI).
  { rewrite (mr_noext_i _ _ _ Hrel123). unfold tum_put at 1 2, q1. cbn [leaf_eqb]. rewrite Id1 by (cbn; intuition discriminate). reflexivity. }
  assert (Ec3 : ext_c m3 = ext_c m).
  { rewrite (mr_ext_c _ _ _ Hrel123). unfold tum_put at 1 2, q1. cbn [leaf_eqb]. apply Id1. cbn; intuition discriminate. }
  assert (Nc3 : noext_c m3 = noext_c m).
  { rewrite (mr_noext_c _ _ _ Hrel123). unfold tum_put at 1 2, q1. cbn [leaf_eqb]. apply Id1. cbn; intuition discriminate. }
  assert (HTn3 : u_T (noext_i m3) = u_T (ext_i m3)).
  { rewrite Ei3, Ni3, !put_T_keys by (rewrite ?HTni; exact HlI). rewrite HTni. reflexivity. }
  (* step 4: the contralateral side *)
  destruct (tum4_spec m3 split glob a3 Hwf3 HTn3 Hret) as (qN & qE & HlN & HlE & Hrel4 & Hmix4).
  set (m4 := fst (tum4 m3 split glob a3)) in *.
  pose proof (mid_rel_trans _ _ _ _ _ Hrel123 Hrel4) as Hrel. cbv beta in Hrel.
  set (TI := combine (map fst T0) qI).
  assert (Hcfg_tr : forall l u, ml_leaf m l = Some u ->
            same_config (tum_put (q2 LNoextContra qN LExtContra qE) l (tum_put (fun l' => if leaf_eqb l' LNoextIpsi then Some qI else None) l
                           (tum_put (fun l' => if leaf_eqb l' LExtIpsi then Some qI else None) l (tum_put qq1 l u)))) u).
  { intros l u _. eapply same_config_trans; [apply tum_put_config|]. eapply same_config_trans; [apply tum_put_config|].
    eapply same_config_trans; apply tum_put_config. }
  split; [|split; [|split]]; [| | |apply (mid_rel_frame _ m m4 Hrel Hcfg_tr)].
  - apply (mid_rel_wf _ m m4 Hrel); [|exact Hwf]. intros l u _.
    eapply skel_trans; [apply tum_put_skel|]. eapply skel_trans; [apply tum_put_skel|]. eapply skel_trans; apply tum_put_skel.
  - apply (mid_rel_shared _ m m4 Hrel TI (u_L (ext_i m)) (u_L (ext_c m))).
    + intros l u Hl Eu. pose proof (HidT l u Hl Eu) as HTu. fold T0 in HTu.
      destruct Hl as [<-|[<-|[<-|[<-|[]]]]]; unfold tum_put at 1 2 3, q1, q2; cbn [leaf_eqb].
      * destruct (Hq1in LCentralContra u (or_intror (or_introl eq_refl)) Eu) as (qs & Eq & Ea & Hls).
        rewrite EqI in Ea. injection Ea as <-. unfold tum_put. rewrite Eq. rewrite put_T_keys by (rewrite HTu; exact HlI). rewrite HTu. reflexivity.
      * rewrite Id1 by (cbn; intuition discriminate). cbn [ml_leaf] in Eu. injection Eu as <-.
        rewrite put_T_keys by exact HlI. reflexivity.
      * rewrite Id1 by (cbn; intuition discriminate). cbn [ml_leaf] in Eu. injection Eu as <-. fold (noext_i m).
        rewrite put_T_keys by (rewrite HTni; exact HlI). rewrite HTni. reflexivity.
      * destruct (Hq1in LCentralIpsi u (or_introl eq_refl) Eu) as (qs & Eq & Ea & Hls).
        rewrite EqI in Ea. injection Ea as <-. unfold tum_put. rewrite Eq. rewrite put_T_keys by (rewrite HTu; exact HlI). rewrite HTu. reflexivity.
    + intros mix Hm. unfold tum_put at 1 2 3 5 6 7, q1, q2. cbn [leaf_eqb]. rewrite !Id1 by (cbn; intuition discriminate).
      specialize (Hmix4 mix Hm). rewrite Ec3, Nc3, Ei3 in Hmix4. rewrite (put_T_keys (ext_i m) qI HlI) in Hmix4. exact Hmix4.
    + intros l u Hl Eu. rewrite !tum_put_L. apply (HidLi l u Hl Eu).
    + intros l u Hl Eu. rewrite !tum_put_L. apply (HidLc l u Hl Eu).
    + exact HsymL.
  - apply (mid_rel_config _ m m4 Hrel Hcfg_tr Hcf).
Qed.
Theorem midline_tumor_preserved : C11_midline_tumor_preserved_stmt.
Proof.
  intros m a kw Hwf Hc Hndi Hret m'. subst m'. cbn [m_call touches_dists] in *.
  destruct (m_tumor_strong m a kw Hwf Hc Hndi Hret) as (H1 & H2 & H3 & _). split; [exact H1|]. split; [exact H2|]. intros _. exact H3.
Qed.

(** * Midline.set_spread_params *)
Lemma m_spread_strong m a kw : m_wf m = true -> m_consistent m -> (ml_central m <> None -> no_double_ipsi kw) ->
  snd (m_set_spread_params m a kw) <> None ->
  m_wf (fst (m_set_spread_params m a kw)) = true /\ m_shared (fst (m_set_spread_params m a kw)) /\
  m_same_config (fst (m_set_spread_params m a kw)) /\ m_frame m (fst (m_set_spread_params m a kw)).
Proof.
  intros Hwf Hc Hndi Hret.
  unfold m_set_spread_params in *. destruct (andthen_ok _ _ Hret) as (a1 & Ha1 & Heq). rewrite Heq in *.
  assert (HretT : snd (m_set_tumor_spread_params m a kw) <> None) by (rewrite Ha1; discriminate).
  destruct (m_tumor_strong m a kw Hwf Hc Hndi HretT) as (Hwf1 & Hsh1 & Hcf1 & Hfr1).
  destruct (m_lnl_strong _ a1 kw Hwf1 (conj Hsh1 Hcf1) Hret) as (H1 & H2 & H3 & Hfr2).
  split; [exact H1|]. split; [exact H2|]. split; [exact H3|]. apply (m_frame_trans _ _ _ Hfr1 Hfr2).
Qed.
Theorem midline_spread_preserved : C11_midline_spread_preserved_stmt.
Proof.
  intros m a kw Hwf Hc Hndi Hret m'. subst m'. cbn [m_call touches_dists] in *.
  destruct (m_spread_strong m a kw Hwf Hc Hndi Hret) as (H1 & H2 & H3 & _). split; [exact H1|]. split; [exact H2|]. intros _. exact H3.
Qed.

(** * Midline.set_distribution_params *)
(** one bilateral child: every leaf keeps its spread parameters; when both leaves start
    from the configuration of [u0] and see the plain keywords, both end with the same
    distributions, determined by [u0] and the call alone *)
Lemma b_dist_child b a kwb : b_names_ok b = true -> snd (b_set_distribution_params b a kwb) <> None ->
  let b' := fst (b_set_distribution_params b a kwb) in
  b_names_ok b' = true /\ b_symT b' = b_symT b /\
  u_T (b_ipsi b') = u_T (b_ipsi b) /\ u_T (b_contra b') = u_T (b_contra b) /\
  u_L (b_ipsi b') = u_L (b_ipsi b) /\ u_L (b_contra b') = u_L (b_contra b) /\
  (forall u0 kw, same_config (b_ipsi b) u0 -> same_config (b_contra b) u0 ->
     (forall kwl k, In kwl (b_dist_leaf_kwargs kwb) -> In k (map fst (u_dist_items u0)) -> u_lk kwl k = u_lk kw k) ->
     exists ds', dists_put (u_maxt u0) (u_dists u0) (plan (u_lk kw) (u_dist_items u0) a) = Some ds' /\
       same_config (b_ipsi b') (u_with_dists u0 ds') /\ same_config (b_contra b') (u_with_dists u0 ds')).
Proof.
  intros Hok Hret. destruct (b_dist_facts b a kwb Hok Hret) as (H1 & H2 & H3 & H4 & H5 & H6 & H7 & _).
  cbv zeta. split; [exact H1|]. split; [exact H6|]. split; [exact H2|]. split; [exact H3|]. split; [exact H4|]. split; [exact H5|].
  intros u0 kw (Mi & Di & Ti) (Mc & Dc & Tc) Hag.
  pose proof (b_dist_step b a kwb Hok) as Hs.
  unfold b_dist_leaf_kwargs in Hag. destruct (side_kwargs kwb) as [ikw ckw] eqn:Hsk.
  destruct (side_kwargs_lk kwb ikw ckw Hsk) as [Hlki Hlkc].
  assert (Pi : plan (side_lk "ipsi" kwb) (u_dist_items (b_ipsi b)) a = plan (u_lk kw) (u_dist_items u0) a).
  { unfold u_dist_items. rewrite Di. apply plan_ext. intros k Hk. rewrite <- Hlki. apply Hag; [cbn; tauto | exact Hk]. }
  assert (Pc : plan (side_lk "contra" kwb) (u_dist_items (b_contra b)) a = plan (u_lk kw) (u_dist_items u0) a).
  { unfold u_dist_items. rewrite Dc. apply plan_ext. intros k Hk. rewrite <- Hlkc. apply Hag; [cbn; tauto | exact Hk]. }
  rewrite Pi, Pc, Di, Dc, Ti, Tc in Hs.
  destruct (dists_put (u_maxt u0) (u_dists u0) (plan (u_lk kw) (u_dist_items u0) a)) as [ds'|]; [|contradiction].
  exists ds'. split; [reflexivity|]. rewrite Hs. cbn [fst b_with b_ipsi b_contra]. split; repeat split; assumption.
Qed.

Lemma mid_rel_with_ext m e' :
  mid_rel (fun l v => match l with LExtIpsi => b_ipsi e' | LExtContra => b_contra e' | _ => v end) m (ml_with_ext m e').
Proof. split; try reflexivity. intros l. destruct l; cbn; try reflexivity; destruct (ml_central m); reflexivity. Qed.
Lemma mid_rel_with_noext m n' :
  mid_rel (fun l v => match l with LNoextIpsi => b_ipsi n' | LNoextContra => b_contra n' | _ => v end) m (ml_with_noext m n').
Proof. split; try reflexivity. intros l. destruct l; cbn; try reflexivity; destruct (ml_central m); reflexivity. Qed.

Lemma in_children_kwargs m kw split glob child :
  unflatten_and_split kw (m_children m) = (split, glob) -> In child (m_children m) ->
  forall kwl, In kwl (b_dist_leaf_kwargs (obj_kwargs child split glob)) -> In kwl (m_dist_leaf_kwargs m kw).
Proof.
  intros Hu Hc kwl Hk. unfold m_dist_leaf_kwargs. rewrite Hu. apply in_flat_map. exists child. split; assumption.
Qed.

Lemma m_dist_strong m a kw : m_wf m = true -> m_consistent m ->
  snd (m_set_distribution_params m a kw) <> None ->
  m_wf (fst (m_set_distribution_params m a kw)) = true /\ m_shared (fst (m_set_distribution_params m a kw)) /\
  (m_dist_kw_agree m kw -> m_same_config (fst (m_set_distribution_params m a kw))).
Proof.
  intros Hwf [Hsh Hcf] Hret.
  destruct (shared_ids m Hsh) as (HidT & HidLi & HidLc).
  pose proof Hsh as (_ & _ & Hmixm & _ & _ & HsymL).
  destruct (wf_parts m Hwf) as (Hoke & Hokn & Hokc).
  assert (Hokk : forall k, ml_unknown m = Some k -> b_names_ok k = true).
  { intros k Ek. unfold m_wf in Hwf. rewrite !andb_true_iff in Hwf. destruct Hwf as [_ Hk]. rewrite Ek in Hk. exact Hk. }
  revert Hret. unfold m_set_distribution_params. fold (m_children m).
  destruct (unflatten_and_split kw (m_children m)) as [split glob] eqn:Hu.
  destruct (b_set_distribution_params (ml_ext m) a (obj_kwargs "ext" split glob)) as [e' o1] eqn:E1.
  destruct o1 as [r1|]; [|intros C; contradiction].
  change (ml_noext (ml_with_ext m e')) with (ml_noext m).
  destruct (b_set_distribution_params (ml_noext m) a (obj_kwargs "noext" split glob)) as [n' o2] eqn:E2.
  destruct o2 as [r2|]; [|intros C; contradiction].
  change (ml_central (ml_with_noext (ml_with_ext m e') n')) with (ml_central m).
  destruct (b_dist_child (ml_ext m) a (obj_kwargs "ext" split glob) Hoke) as (Ne & Se & Tei & Tec & Lei & Lec & Ce); [rewrite E1; discriminate|].
  destruct (b_dist_child (ml_noext m) a (obj_kwargs "noext" split glob) Hokn) as (Nn & Sn & Tni & Tnc & Lni & Lnc & Cn); [rewrite E2; discriminate|].
  rewrite E1 in Ne, Se, Tei, Tec, Lei, Lec, Ce. rewrite E2 in Nn, Sn, Tni, Tnc, Lni, Lnc, Cn. cbn [fst] in *.
  set (m2 := ml_with_noext (ml_with_ext m e') n').
  pose proof (mid_rel_trans _ _ _ _ _ (mid_rel_with_ext m e') (mid_rel_with_noext (ml_with_ext m e') n')) as Hrel2. cbv beta in Hrel2. fold m2 in Hrel2.
  (* the central child *)
  assert (S3 : forall m3 o3, (match ml_central m with
                              | None => (m2, Some r2)
                              | Some c => let '(c', o) := b_set_distribution_params c a (obj_kwargs "central" split glob) in (ml_with_central m2 c', o)
                              end) = (m3, o3) -> o3 <> None ->
           exists tr, mid_rel tr m m3 /\ ml_mixing m3 = ml_mixing m /\ ml_unknown m3 = ml_unknown m /\
             (forall l u, ml_leaf m l = Some u -> u_T (tr l u) = u_T u /\ u_L (tr l u) = u_L u) /\
             b_names_ok (ml_ext m3) = true /\ b_names_ok (ml_noext m3) = true /\
             opt_ok (fun c => b_names_ok c && b_symT c) (ml_central m3) = true /\
             (m_dist_kw_agree m kw -> exists ds', dists_put (u_maxt (ext_i m)) (u_dists (ext_i m)) (plan (u_lk kw) (u_dist_items (ext_i m)) a) = Some ds' /\
                forall l u, ml_leaf m3 l = Some u -> same_config u (u_with_dists (ext_i m) ds'))).
  { intros m3 o3 E3 Ho3.
    assert (Hag_of : m_dist_kw_agree m kw -> forall child, In child (m_children m) ->
              forall kwl k, In kwl (b_dist_leaf_kwargs (obj_kwargs child split glob)) -> In k (map fst (u_dist_items (ext_i m))) -> u_lk kwl k = u_lk kw k).
    { intros Hag child Hch kwl k Hkwl Hk. apply Hag; [apply (in_children_kwargs m kw split glob child Hu Hch kwl Hkwl) | exact Hk]. }
    assert (HcfL : forall l u, ml_leaf m l = Some u -> same_config u (ext_i m)).
    { intros l u E. apply Hcf, in_all_leaves. left. exists l. exact E. }
    destruct (ml_central m) as [c|] eqn:Ec.
    - destruct (b_set_distribution_params c a (obj_kwargs "central" split glob)) as [c' o] eqn:Ec'. injection E3 as <- <-.
      destruct (Hokc c eq_refl) as [Hcok HcT].
      destruct (b_dist_child c a (obj_kwargs "central" split glob) Hcok) as (Nc & Sc & Tci & Tcc & Lci & Lcc & Cc); [rewrite Ec'; exact Ho3|].
      rewrite Ec' in Nc, Sc, Tci, Tcc, Lci, Lcc, Cc. cbn [fst] in *.
      assert (Ec2 : ml_central m2 = Some c) by exact Ec.
      pose proof (mid_rel_trans _ _ _ _ _ Hrel2 (mid_rel_with_central m2 c c' Ec2 Sc)) as Hrel3. cbv beta in Hrel3.
      eexists. split; [exact Hrel3|]. split; [reflexivity|]. split; [reflexivity|]. split; [|split; [exact Ne|split; [exact Nn|split]]].
      + intros l u E. destruct l; cbn [ml_leaf] in E; rewrite ?Ec in E; injection E as <-; split; assumption.
      + cbn [ml_with_central ml_with_models ml_central opt_ok]. rewrite Nc, Sc, HcT. reflexivity.
      + intros Hag.
        destruct (Ce (ext_i m) kw (same_config_refl _) (HcfL LExtContra _ eq_refl)) as (ds' & Ed & Ce1 & Ce2);
          [apply (Hag_of Hag "ext"); unfold m_children; cbn; tauto|].
        destruct (Cn (ext_i m) kw (HcfL LNoextIpsi _ eq_refl) (HcfL LNoextContra _ eq_refl)) as (ds2 & Ed2 & Cn1 & Cn2);
          [apply (Hag_of Hag "noext"); unfold m_children; cbn; tauto|].
        destruct (Cc (ext_i m) kw) as (ds3 & Ed3 & Cc1 & Cc2);
          [apply (HcfL LCentralIpsi); cbn; rewrite Ec; reflexivity | apply (HcfL LCentralContra); cbn; rewrite Ec; reflexivity
           | apply (Hag_of Hag "central"); unfold m_children; rewrite Ec; cbn; tauto|].
        rewrite Ed in Ed2, Ed3. injection Ed2 as <-. injection Ed3 as <-.
        exists ds'. split; [exact Ed|]. intros l u E. destruct l; cbn in E; rewrite ?Ec in E; injection E as <-; assumption.
    - injection E3 as <- <-.
      eexists. split; [exact Hrel2|]. split; [reflexivity|]. split; [reflexivity|]. split; [|split; [exact Ne|split; [exact Nn|split]]].
      + intros l u E. destruct l; cbn [ml_leaf] in E; rewrite ?Ec in E; try discriminate; injection E as <-; split; assumption.
      + unfold m2. cbn [ml_with_noext ml_with_ext ml_with_models ml_central]. rewrite Ec. reflexivity.
      + intros Hag.
        destruct (Ce (ext_i m) kw (same_config_refl _) (HcfL LExtContra _ eq_refl)) as (ds' & Ed & Ce1 & Ce2);
          [apply (Hag_of Hag "ext"); unfold m_children; cbn; tauto|].
        destruct (Cn (ext_i m) kw (HcfL LNoextIpsi _ eq_refl) (HcfL LNoextContra _ eq_refl)) as (ds2 & Ed2 & Cn1 & Cn2);
          [apply (Hag_of Hag "noext"); unfold m_children; cbn; tauto|].
        rewrite Ed in Ed2. injection Ed2 as <-.
        exists ds'. split; [exact Ed|]. intros l u E. destruct l; cbn in E; rewrite ?Ec in E; try discriminate; injection E as <-; assumption. }
  match goal with |- context [let '(m3, o3) := ?X in _] => destruct X as [m3 o3] eqn:E3 end.
  destruct o3 as [r3|]; [|intros C; contradiction].
  destruct (S3 m3 (Some r3) eq_refl ltac:(discriminate)) as (tr & Hrel3 & Hmix3 & Hunk3 & HTL & Ne3 & Nn3 & Nc3 & Hcfg3).
  clear S3 E3.
  assert (Hsh3 : m_shared m3).
  { apply (mid_rel_shared _ m m3 Hrel3 (u_T (ext_i m)) (u_L (ext_i m)) (u_L (ext_c m))).
    - intros l u Hl Eu. rewrite (proj1 (HTL l u Eu)). apply (HidT l u Hl Eu).
    - intros mix Hm. rewrite (proj1 (HTL LExtContra (ext_c m) eq_refl)), (proj1 (HTL LNoextContra (noext_c m) eq_refl)). apply Hmixm. rewrite <- Hmix3. exact Hm.
    - intros l u Hl Eu. rewrite (proj2 (HTL l u Eu)). apply (HidLi l u Hl Eu).
    - intros l u Hl Eu. rewrite (proj2 (HTL l u Eu)). apply (HidLc l u Hl Eu).
    - exact HsymL. }
  assert (Hcfg_all : forall mfin ds', (forall u, In u (all_leaves mfin) -> same_config u (u_with_dists (ext_i m) ds')) -> m_same_config mfin).
  { intros mfin ds' H u Hin. eapply same_config_trans; [apply H, Hin|]. apply same_config_sym, H, in_all_leaves. left. exists LExtIpsi. reflexivity. }
  rewrite Hunk3. destruct (ml_unknown m) as [k|] eqn:Ek.
  - destruct (b_set_distribution_params k a (obj_kwargs "unknown" split glob)) as [k' o4] eqn:E4. cbn [fst snd].
    destruct o4 as [r4|]; [|intros C; contradiction]. intros _.
    destruct (b_dist_child k a (obj_kwargs "unknown" split glob) (Hokk k eq_refl)) as (Nk & _ & _ & _ & _ & _ & Ck); [rewrite E4; discriminate|].
    rewrite E4 in Nk, Ck. cbn [fst] in *.
    split; [|split].
    + unfold m_wf. cbn [ml_with_unknown ml_with_models ml_ext ml_noext ml_central ml_unknown opt_ok]. rewrite Ne3, Nn3, Nc3, Nk. reflexivity.
    + exact Hsh3.
    + intros Hag. destruct (Hcfg3 Hag) as (ds' & Ed & Hl3).
      destruct (Ck (ext_i m) kw) as (ds4 & Ed4 & Ck1 & Ck2).
      * apply Hcf, in_all_leaves. right. exists k. tauto.
      * apply Hcf, in_all_leaves. right. exists k. tauto.
      * intros kwl k0 Hkwl Hk0. apply Hag; [|exact Hk0].
        apply (in_children_kwargs m kw split glob "unknown" Hu); [unfold m_children; rewrite Ek; rewrite !in_app_iff; cbn; tauto | exact Hkwl].
      * rewrite Ed in Ed4. injection Ed4 as <-. apply (Hcfg_all _ ds'). intros u Hin. apply in_all_leaves in Hin.
        destruct Hin as [(l & E)|(k2 & E & H)].
        -- apply (Hl3 l u). rewrite <- E. destruct l; cbn; try reflexivity; destruct (ml_central m3); reflexivity.
        -- cbn in E. injection E as <-. destruct H as [->| ->]; assumption.
  - cbn [fst snd]. intros _. split; [|split].
    + unfold m_wf. rewrite Ne3, Nn3, Nc3, Hunk3. reflexivity.
    + exact Hsh3.
    + intros Hag. destruct (Hcfg3 Hag) as (ds' & Ed & Hl3). apply (Hcfg_all _ ds'). intros u Hin.
      apply in_all_leaves in Hin. destruct Hin as [(l & E)|(k2 & E & H)]; [apply (Hl3 l u E)|]. rewrite Hunk3 in E. discriminate.
Qed.
Theorem midline_dist_preserved : C11_midline_dist_preserved_stmt.
Proof.
  intros m a kw Hwf Hc _ Hret m'. subst m'. cbn [m_call touches_dists] in *.
  destruct (m_dist_strong m a kw Hwf Hc Hret) as (H1 & H2 & H3). split; [exact H1|]. split; [exact H2|].
  intros [C|Hag]; [discriminate | exact (H3 Hag)].
Qed.

(** * Midline.set_params *)
Lemma m_dist_kw_agree_frame m m' kw : m_frame m m' -> m_dist_kw_agree m kw -> m_dist_kw_agree m' kw.
Proof.
  intros [Hch (_ & Hd & _)] Hag kwl k Hkwl Hk. apply Hag.
  - unfold m_dist_leaf_kwargs in *. rewrite <- Hch. exact Hkwl.
  - unfold u_dist_items in *. rewrite <- Hd. exact Hk.
Qed.

Theorem midline_params_preserved : C11_midline_params_preserved_stmt.
Proof.
  intros m a kw Hwf Hc Hndi Hret m'. subst m'. cbn [m_call touches_dists] in *.
  revert Hret. unfold m_set_params. destruct (m_get_params m true) as [ps|]; [|intros C; contradiction].
  destruct (popat a (Z.of_nat (length ps) - 1)) as [[before last] after].
  set (r0 := match match kw_get ["midext"; "prob"] kw with Some v => Some v | None => last end with
             | Some v => option_map (ml_with_midext m) (check_unit v) | None => Some m end).
  assert (H0 : forall m0, r0 = Some m0 -> m_wf m0 = true /\ m_consistent m0 /\ m_frame m m0 /\ ml_central m0 = ml_central m).
  { intros m0 E0. unfold r0 in E0. destruct (match kw_get ["midext"; "prob"] kw with Some v => Some v | None => last end) as [v|].
    - destruct (check_unit v) as [q|]; [|discriminate]. injection E0 as <-.
      split; [exact Hwf|]. split; [exact Hc|]. split; [split; [reflexivity | apply same_config_refl] | reflexivity].
    - injection E0 as <-. split; [exact Hwf|]. split; [exact Hc|]. split; [apply m_frame_refl | reflexivity]. }
  destruct r0 as [m0|]; [|intros C; contradiction]. destruct (H0 m0 eq_refl) as (Hwf0 & Hc0 & Hfr0 & Hcen0). intros Hret.
  destruct (andthen_ok _ _ Hret) as (a1 & Ha1 & Heq). rewrite Heq in *.
  assert (HretS : snd (m_set_spread_params m0 (before ++ after) kw) <> None) by (rewrite Ha1; discriminate).
  assert (Hndi0 : ml_central m0 <> None -> no_double_ipsi kw) by (rewrite Hcen0; exact Hndi).
  destruct (m_spread_strong m0 _ kw Hwf0 Hc0 Hndi0 HretS) as (Hwf1 & Hsh1 & Hcf1 & Hfr1).
  set (m1 := fst (m_set_spread_params m0 (before ++ after) kw)) in *.
  destruct (m_dist_strong m1 a1 kw Hwf1 (conj Hsh1 Hcf1) Hret) as (H1 & H2 & H3).
  split; [exact H1|]. split; [exact H2|]. intros [C|Hag]; [discriminate|]. apply H3.
  apply (m_dist_kw_agree_frame m m1 kw (m_frame_trans _ _ _ Hfr0 Hfr1) Hag).
Qed.

Theorem midline_preserved : C11_midline_preserved_stmt.
Proof.
  intros s. destruct s; [apply midline_params_preserved | apply midline_tumor_preserved | apply midline_lnl_preserved
                        | apply midline_spread_preserved | apply midline_dist_preserved].
Qed.

(** * Findings and observations: concrete witnesses *)
Definition C11_g2 : graph :=
  force_graph (build_graph 2 [ (("tumor", "T"), CList ["II"; "III"]); (("lnl", "II"), CList ["III"]); (("lnl", "III"), CList []) ]).
Definition C11_u2 : uni := new_uni C11_g2 [("late", Param 0 [("p", qc 1 2)])] 2.
Definition items_out (l : list (path * Qc)) : list (Z * Z) := map (fun kv => qout (snd kv)) l.

Theorem hpv_sharing_refuted : C11_hpv_sharing_refuted_stmt.
Proof.
  exists (new_hpv C11_u2), (vals [qc 1 10; qc 2 10; qc 3 10; qc 4 10; qc 5 10; qc 6 10]), [].
  split; [vm_compute; reflexivity|]. split; [repeat split|]. split; [vm_compute; reflexivity|].
  intros H. unfold h_shared in H. apply (f_equal items_out) in H. vm_compute in H. discriminate H.
Qed.

Theorem child_dist_keyword_refuted : C11_child_dist_keyword_refuted_stmt.
Proof.
  exists (new_bilateral C11_u2 true true), [(["contra"; "late"; "p"], V (qc 3 10))].
  split; [vm_compute; reflexivity|]. split; [repeat split|]. split; [vm_compute; reflexivity|]. split.
  - intros (_ & H & _). apply (f_equal (fun ds => items_out (dists_items ds))) in H. vm_compute in H. discriminate H.
  - vm_compute. reflexivity.
Qed.

Theorem not_atomic : C11_not_atomic_stmt.
Proof.
  exists (new_midline C11_u2 true false false false true), (vals [qc 1 10; qc 3 2]).
  split; [vm_compute; reflexivity|]. split.
  - apply (fresh_consistent C11_u2). vm_compute. reflexivity.
  - split; [vm_compute; reflexivity|]. intros (H & _).
    set (m' := fst (m_set_params (new_midline C11_u2 true false false false true) (vals [qc 1 10; qc 3 2]) [])) in *.
    specialize (H (noext_i m')). assert (Hin : In (noext_i m') (ipsi_leaves m')) by (cbn; tauto).
    specialize (H Hin). apply (f_equal items_out) in H. vm_compute in H. discriminate H.
Qed.

(** * The reported parameters are the ones every leaf holds *)
Lemma in_pre p (X : list (path * Qc)) k v : In (k, v) (pre p X) <-> exists k', k = p ++ k' /\ In (k', v) X.
Proof.
  unfold pre, prefix. rewrite in_map_iff. split.
  - intros ([k' v'] & E & H). cbn in E. injection E as <- <-. exists k'. tauto.
  - intros (k' & -> & H). exists (k', v). tauto.
Qed.
Lemma item_head_not_side u k v : u_names_ok u = true -> In (k, v) (u_items u) -> ~ SIDE (head_of k).
Proof.
  intros Hok Hin. unfold u_items in Hin. rewrite !in_app_iff in Hin.
  assert (Hk : In k (map fst (u_tumor_items u)) \/ In k (map fst (u_lnl_items u)) \/ In k (map fst (u_dist_items u))).
  { destruct Hin as [H|[H|H]]; [left | right; left | right; right]; apply in_map_iff; exists (k, v); tauto. }
  destruct Hk as [H|[H|H]].
  - destruct (spread_key_form u k (or_introl H)) as (n & s & -> & Hn). cbn. intros Hs. exact (EN_SIDE_disj u Hok n Hn Hs).
  - destruct (spread_key_form u k (or_intror H)) as (n & s & -> & Hn). cbn. intros Hs. exact (EN_SIDE_disj u Hok n Hn Hs).
  - destruct (dist_key_form u k H) as (t & s & -> & Ht). cbn. intros Hs. exact (TS_SIDE_disj u Hok t Ht Hs).
Qed.
Lemma not_side_branch (k : path) (A B C : Prop) : ~ SIDE (head_of k) -> C ->
  if str_eqb (head_of k) "ipsi" then A else if str_eqb (head_of k) "contra" then B else C.
Proof.
  intros Hs HC. unfold str_eqb. destruct (String.eqb (head_of k) "ipsi") eqn:E1; [apply String.eqb_eq in E1; exfalso; apply Hs; left; exact E1|].
  destruct (String.eqb (head_of k) "contra") eqn:E2; [apply String.eqb_eq in E2; exfalso; apply Hs; right; exact E2 | exact HC].
Qed.

Theorem reported_params_are_used : C11_reported_params_are_used_stmt.
Proof.
  intros b Hok [[HT HL] (Hm & Hd & Ht)] k v Hin.
  destruct (b_names_ok_parts b Hok) as (Hi & Hc & _).
  rewrite (proj1 (bi_names_nodup b Hok)) in Hin.
  rewrite (proj1 (uni_names_nodup (b_ipsi b) Hi)), (proj1 (uni_names_nodup (b_contra b) Hc)).
  assert (HD : u_dist_items (b_contra b) = u_dist_items (b_ipsi b)) by (unfold u_dist_items; rewrite Hd; reflexivity).
  fold (u_T (b_contra b)) (u_T (b_ipsi b)) in HT. fold (u_L (b_contra b)) (u_L (b_ipsi b)) in HL.
  assert (Both : forall k v, In (k, v) (u_dist_items (b_ipsi b)) -> In (k, v) (u_items (b_ipsi b)) /\ In (k, v) (u_items (b_contra b))).
  { intros k0 v0 H. unfold u_items. rewrite HD, !in_app_iff. tauto. }
  unfold b_items in Hin. unfold u_items.
  destruct (b_symT b) eqn:ET, (b_symL b) eqn:EL; rewrite !in_app_iff in Hin.
  - (* both symmetric *)
    assert (HC : In (k, v) (u_items (b_ipsi b)) /\ In (k, v) (u_items (b_contra b))).
    { unfold u_items. rewrite HD. change (u_tumor_items (b_contra b)) with (u_T (b_contra b)). change (u_lnl_items (b_contra b)) with (u_L (b_contra b)).
      rewrite (HT eq_refl), (HL eq_refl), !in_app_iff. unfold u_T, u_L. tauto. }
    apply not_side_branch; [apply (item_head_not_side (b_ipsi b) k v Hi), HC | exact HC].
  - (* tumour symmetric, LNL per side *)
    destruct Hin as [H|[H|[H|H]]].
    + assert (HC : In (k, v) (u_items (b_ipsi b)) /\ In (k, v) (u_items (b_contra b))).
      { unfold u_items. change (u_tumor_items (b_contra b)) with (u_T (b_contra b)). rewrite (HT eq_refl), !in_app_iff. unfold u_T. tauto. }
      apply not_side_branch; [apply (item_head_not_side (b_ipsi b) k v Hi), HC | exact HC].
    + apply in_pre in H. destruct H as (k' & -> & H). cbn. rewrite !in_app_iff. tauto.
    + apply in_pre in H. destruct H as (k' & -> & H). cbn. rewrite !in_app_iff. tauto.
    + destruct (Both k v H) as [A B]. apply not_side_branch; [apply (item_head_not_side (b_ipsi b) k v Hi A) | split; assumption].
  - (* tumour per side, LNL symmetric *)
    destruct Hin as [H|[H|[H|H]]].
    + apply in_pre in H. destruct H as (k' & -> & H). cbn. rewrite !in_app_iff. tauto.
    + apply in_pre in H. destruct H as (k' & -> & H). cbn. rewrite !in_app_iff. tauto.
    + assert (HC : In (k, v) (u_items (b_ipsi b)) /\ In (k, v) (u_items (b_contra b))).
      { unfold u_items. change (u_lnl_items (b_contra b)) with (u_L (b_contra b)). rewrite (HL eq_refl), !in_app_iff. unfold u_L. tauto. }
      apply not_side_branch; [apply (item_head_not_side (b_ipsi b) k v Hi), HC | exact HC].
    + destruct (Both k v H) as [A B]. apply not_side_branch; [apply (item_head_not_side (b_ipsi b) k v Hi A) | split; assumption].
  - (* nothing symmetric *)
    destruct Hin as [H|[H|H]].
    + apply in_pre in H. destruct H as (k' & -> & H). cbn. rewrite !in_app_iff in *. tauto.
    + apply in_pre in H. destruct H as (k' & -> & H). cbn. rewrite !in_app_iff in *. tauto.
    + destruct (Both k v H) as [A B]. apply not_side_branch; [apply (item_head_not_side (b_ipsi b) k v Hi A) | split; assumption].
Qed.

Lemma reported_last_branch m k v : ~ In (head_of k) ["mixing"; "midext"; "ipsi"; "noext"; "ext"; "contra"] ->
  holds_L (ipsi_leaves m ++ contra_leaves m) k v \/ (forall u, In u (all_leaves m) -> In (k, v) (u_dist_items u)) ->
  m_reported_ok m k v.
Proof.
  intros Hn H. unfold m_reported_ok, str_eqb. cbv zeta.
  repeat match goal with |- context [String.eqb (head_of k) ?w] =>
    let E := fresh "E" in destruct (String.eqb (head_of k) w) eqn:E; [apply String.eqb_eq in E; exfalso; apply Hn; rewrite E; cbn; tauto|] end.
  exact H.
Qed.

Theorem midline_reported_params_are_used : C11_midline_reported_params_are_used_stmt.
Proof.
  intros m Hwf [Hsh Hcf] _ k v Hin.
  destruct Hsh as (H1 & H2 & H3 & H4 & H5 & H6).
  assert (Hei : u_names_ok (ext_i m) = true) by (apply (wf_leaf_names_ok m LExtIpsi _ Hwf); reflexivity).
  assert (HTi : forall k' v', In (k', v') (u_T (ext_i m)) -> holds_T (ipsi_leaves m ++ opt_leaves (ml_central m) b_contra) k' v').
  { intros k' v' H u Hu. apply in_app_iff in Hu. destruct Hu as [Hu|Hu]; [rewrite (H1 u Hu); exact H|].
    destruct (ml_central m) as [c|] eqn:Ec; cbn in Hu; [|destruct Hu]. destruct Hu as [<-|[]]. rewrite (H2 c eq_refl). exact H. }
  assert (HLi : forall k' v', In (k', v') (u_L (ext_i m)) -> holds_L (ipsi_leaves m) k' v').
  { intros k' v' H u Hu. rewrite (H4 u Hu). exact H. }
  assert (HLc : forall k' v', In (k', v') (u_L (ext_c m)) -> holds_L (contra_leaves m) k' v').
  { intros k' v' H u Hu. rewrite (H5 u Hu). exact H. }
  assert (HLall : ml_symL m = true -> forall k' v', In (k', v') (u_L (ext_i m)) -> m_reported_ok m k' v').
  { intros Es k' v' H. apply reported_last_branch.
    - assert (Hk : In k' (map fst (u_lnl_items (ext_i m)))) by (apply in_map_iff; exists (k', v'); split; [reflexivity | exact H]).
      destruct (spread_key_form (ext_i m) k' (or_intror Hk)) as (n & s & -> & Hn). cbn [head_of partition_key fst].
      intros Hr. apply (in_reserved_not_edge (ext_i m) n Hei); [cbn in *; intuition | exact Hn].
    - left. intros u Hu. apply in_app_iff in Hu. destruct Hu as [Hu|Hu]; [rewrite (H4 u Hu); exact H | rewrite (H5 u Hu), (H6 Es); exact H]. }
  assert (HD : forall k' v', In (k', v') (u_dist_items (ext_i m)) -> m_reported_ok m k' v').
  { intros k' v' H. apply reported_last_branch.
    - assert (Hk : In k' (map fst (u_dist_items (ext_i m)))) by (apply in_map_iff; exists (k', v'); split; [reflexivity | exact H]).
      destruct (dist_key_form (ext_i m) k' Hk) as (t & s & -> & Ht). cbn [head_of partition_key fst].
      intros Hr. apply (in_reserved_not_tstage (ext_i m) t Hei); [cbn in *; intuition | exact Ht].
    - right. intros u Hu. destruct (Hcf u Hu) as (_ & Hd & _). unfold u_dist_items in *. rewrite Hd. exact H. }
  assert (Hmid : m_reported_ok m ["midext"; "prob"] (ml_midext m)) by reflexivity.
  unfold c11_mid_items in Hin. cbv zeta in Hin.
  destruct (ml_mixing m) as [mix|] eqn:Emix, (ml_symL m) eqn:EsL; rewrite !in_app_iff in Hin.
  - destruct Hin as [H|[H|[H|[H|[H|H]]]]].
    + apply in_pre in H. destruct H as (k' & -> & H). left. apply HTi, H.
    + apply in_pre in H. destruct H as (k' & -> & H). left. exact H.
    + destruct H as [[= <- <-]|[]]. exact Emix.
    + apply (HLall eq_refl), H.
    + apply HD, H.
    + destruct H as [[= <- <-]|[]]. exact Hmid.
  - destruct Hin as [H|[H|[H|[H|H]]]].
    + apply in_pre in H. destruct H as (k' & -> & H). apply in_app_iff in H. destruct H as [H|H]; [left; apply HTi, H | right; apply HLi, H].
    + apply in_pre in H. destruct H as (k' & -> & H). apply in_app_iff in H. destruct H as [H|H]; [left; exact H | right; apply HLc, H].
    + destruct H as [[= <- <-]|[]]. exact Emix.
    + apply HD, H.
    + destruct H as [[= <- <-]|[]]. exact Hmid.
  - destruct Hin as [H|[H|[H|[H|[H|H]]]]].
    + apply in_pre in H. destruct H as (k' & -> & H). left. apply HTi, H.
    + apply in_pre in H. destruct H as (k' & -> & H). exact H.
    + apply in_pre in H. destruct H as (k' & -> & H). exact H.
    + apply (HLall eq_refl), H.
    + apply HD, H.
    + destruct H as [[= <- <-]|[]]. exact Hmid.
  - destruct Hin as [H|[H|[H|[H|[H|H]]]]].
    + apply in_pre in H. destruct H as (k' & -> & H). apply in_app_iff in H. destruct H as [H|H]; [left; apply HTi, H | right; apply HLi, H].
    + apply in_pre in H. destruct H as (k' & -> & H). exact H.
    + apply in_pre in H. destruct H as (k' & -> & H). exact H.
    + apply in_pre in H. destruct H as (k' & -> & H). right. apply HLc, H.
    + apply HD, H.
    + destruct H as [[= <- <-]|[]]. exact Hmid.
Qed.

(** * Well-formedness after a modality / distribution / max_time operation *)
Lemma graph_same_shape u1 u1' u2 u2' : u_graph u1' = u_graph u1 -> u_graph u2' = u_graph u2 -> same_shape u1' u2' = same_shape u1 u2.
Proof. intros H1 H2. unfold same_shape, u_edges. rewrite H1, H2. reflexivity. Qed.
Lemma names_ok_by_graph_dists u u' : u_edge_names u' = u_edge_names u -> u_dists u' = u_dists u -> u_names_ok u' = u_names_ok u.
Proof. intros H1 H2. unfold u_names_ok, u_tstages. rewrite H1, H2. reflexivity. Qed.
Lemma bmap_names_ok g b : (forall u, u_graph (g u) = u_graph u) ->
  u_dists (g (b_contra b)) = u_dists (g (b_ipsi b)) ->
  u_names_ok (g (b_ipsi b)) = true -> u_names_ok (g (b_contra b)) = true ->
  b_names_ok b = true -> b_names_ok (bmap g b) = true.
Proof.
  intros Hg Hd Hi Hc Hok. unfold b_names_ok in *. unfold bmap, b_with. cbn [b_ipsi b_contra]. rewrite Hi, Hc.
  rewrite (graph_same_shape _ _ _ _ (Hg (b_ipsi b)) (Hg (b_contra b))).
  unfold same_dist_keys. rewrite Hd, keys_eqb_refl. rewrite !andb_true_iff in Hok. destruct Hok as [[_ Hs] _]. rewrite Hs. reflexivity.
Qed.

Theorem cfg_wf : C11_cfg_wf_stmt.
Proof.
  intros o. pose proof (leaf_cfg_fun o) as Hf. destruct Hf as [Hg Hd]. split.
  - intros b Hok [[_ _] Hc] Hret Hni. destruct (b_cfg_spec _ (conj Hg Hd) b Hc) as [_ He]. rewrite (He Hret).
    set (g := fun u => fst (leaf_cfg o u)). change (b_with b (fst (leaf_cfg o (b_ipsi b))) (fst (leaf_cfg o (b_contra b)))) with (bmap g b).
    destruct (Hd _ _ Hc) as [(_ & Hdd & _) _].
    apply bmap_names_ok; [exact Hg | exact Hdd | exact Hni | | exact Hok].
    unfold g. rewrite (names_ok_by_graph_dists (fst (leaf_cfg o (b_ipsi b))) (fst (leaf_cfg o (b_contra b)))); [exact Hni | | exact Hdd].
      unfold u_edge_names, u_edges. rewrite !Hg. destruct (b_names_ok_parts b Hok) as (_ & _ & Hs & _). apply shape_names. symmetry. exact Hs.
  - intros m Hwf [_ Hc] Hret Hall. destruct (m_cfg_spec _ (conj Hg Hd) m Hc) as [_ He]. rewrite (He Hret).
    set (g := fun u => fst (leaf_cfg o u)) in *.
    destruct (m_leaf_in_all m) as (I1 & I2 & I3 & I4 & I5 & I6).
    assert (Hb : forall b, In (b_ipsi b) (all_leaves m) -> In (b_contra b) (all_leaves m) -> b_names_ok b = true -> b_names_ok (bmap g b) = true).
    { intros b Hi Hcn Hok. apply bmap_names_ok; [exact Hg | | apply Hall, Hi | apply Hall, Hcn | exact Hok].
      assert (Hsc : same_config (b_contra b) (b_ipsi b)) by (eapply same_config_trans; [apply Hc, Hcn | apply same_config_sym, Hc, Hi]).
      destruct (Hd _ _ Hsc) as [(_ & Hdd & _) _]. exact Hdd. }
    destruct (wf_parts m Hwf) as (Hoe & Hon & Hoc).
    unfold m_wf, m_map. cbn [ml_with_models ml_ext ml_noext ml_central ml_unknown].
    rewrite (Hb _ I1 I2 Hoe), (Hb _ I3 I4 Hon).
    assert (Hcen : opt_ok (fun c => b_names_ok c && b_symT c) (option_map (bmap g) (ml_central m)) = true).
    { destruct (ml_central m) as [c|] eqn:Ec; [|reflexivity]. cbn [option_map opt_ok]. destruct (Hoc c eq_refl) as [A B]. destruct (I5 c eq_refl) as [Ia Ib].
      rewrite (Hb c Ia Ib A). exact B. }
    assert (Hunk : opt_ok b_names_ok (option_map (bmap g) (ml_unknown m)) = true).
    { destruct (ml_unknown m) as [k|] eqn:Ek; [|reflexivity]. cbn [option_map opt_ok]. destruct (I6 k eq_refl) as [Ia Ib]. apply (Hb k Ia Ib).
      unfold m_wf in Hwf. rewrite Ek in Hwf. rewrite !andb_true_iff in Hwf. apply Hwf. }
    rewrite Hcen, Hunk. reflexivity.
Qed.

(** * Recovery: a complete positional assignment *)
Lemma dist_put_sim maxt d1 d2 new : dist_sim d1 d2 -> 
  length (dist_local d1) = length (dist_local d2) /\
  match dist_put maxt d1 new, dist_put maxt d2 new with
  | Some a, Some b => a = b
  | None, None => True
  | _, _ => False
  end.
Proof.
  destruct d1 as [p1|f1 k1], d2 as [p2|f2 k2]; cbn [dist_sim]; try contradiction.
  - intros ->. split; reflexivity.
  - intros [-> Hk]. split; [cbn [dist_local]; rewrite !map_length, <- (map_length fst k1), Hk, map_length; reflexivity|].
    cbn [dist_put]. rewrite Hk. destruct (unwrap new); [|exact I]. destruct (fam_weights f2 maxt _); [reflexivity | exact I].
Qed.
Lemma dists_put_sim maxt ds1 : forall ds2 new r1 r2, map fst ds1 = map fst ds2 -> Forall2 dist_sim (map snd ds1) (map snd ds2) ->
  dists_put maxt ds1 new = Some r1 -> dists_put maxt ds2 new = Some r2 -> r1 = r2.
Proof.
  induction ds1 as [|[t1 d1] ds1 IH]; intros [|[t2 d2] ds2] new r1 r2 Hk Hs; cbn [map fst snd] in Hk, Hs; try discriminate.
  - cbn. intros [= <-] [= <-]. reflexivity.
  - injection Hk as -> Hk. inversion Hs as [|? ? ? ? Hd Hs']; subst. cbn [dists_put].
    destruct (dist_put_sim maxt d1 d2 (firstn (length (dist_local d1)) new) Hd) as [Hl Hp]. rewrite <- Hl.
    destruct (dist_put maxt d1 _) as [a|], (dist_put maxt d2 _) as [b|]; try contradiction; try discriminate. subst b.
    destruct (dists_put maxt ds1 _) as [x|] eqn:E1; [|discriminate]. destruct (dists_put maxt ds2 _) as [y|] eqn:E2; [|discriminate].
    intros [= <-] [= <-]. rewrite (IH ds2 _ x y Hk Hs' E1 E2). reflexivity.
Qed.
Lemma side_lk_nil side k : side_lk side [] k = None.
Proof.
  destruct k as [|n t]; [reflexivity|]. unfold side_lk, eff. cbn.
  destruct (str_eqb n "ipsi" || (str_eqb n "contra" || false)); destruct (str_eqb (head_of t) "ipsi" || (str_eqb (head_of t) "contra" || false)); reflexivity.
Qed.

Theorem bilateral_full_assignment_restores : C11_bilateral_full_assignment_restores_stmt.
Proof.
  intros b v rest Hok (Hm & Hmt & Hk & Hs) Hlen Hret. split; [apply (b_params_shared b _ [] Hok Hret)|].
  pose proof (b_set_params_steps b (vals v ++ rest) [] Hok) as Hst. cbv zeta in Hst.
  destruct (all_unit (side_plan is_tumor_spread (b_symT b) b (vals v ++ rest) [])) as [qsT|]; [|contradiction].
  destruct (all_unit (side_plan sel_lnl (b_symL b) b _ [])) as [qsL|]; [|contradiction].
  pose proof (b_items_len b Hok) as Hil. pose proof (b_num_spread_eq b Hok) as Hns. pose proof (b_dist_len b Hok) as Hdl.
  rewrite <- Hns in Hst.
  assert (Ha2 : skipn (b_num_spread b) (vals v ++ rest) = vals (skipn (b_num_spread b) v) ++ rest).
  { unfold vals. rewrite skipn_app, map_length, skipn_map. replace (b_num_spread b - length v) with 0 by lia. reflexivity. }
  rewrite Ha2 in Hst.
  assert (Hld : length (skipn (b_num_spread b) v) = length (u_dist_items (b_ipsi b))) by (rewrite skipn_length; lia).
  unfold vals in Hst.
  rewrite (plan_no_kw (side_lk "ipsi" []) (u_dist_items (b_ipsi b)) _ rest (fun k _ => side_lk_nil "ipsi" k) Hld) in Hst.
  rewrite (plan_no_kw (side_lk "contra" []) (u_dist_items (b_contra b)) _ rest (fun k _ => side_lk_nil "contra" k)) in Hst by lia.
  destruct (dists_put (u_maxt (b_ipsi b)) (u_dists (b_ipsi b)) _) as [dsi|] eqn:Ei; [|contradiction].
  destruct (dists_put (u_maxt (b_contra b)) (u_dists (b_contra b)) _) as [dsc|] eqn:Ec; [|contradiction].
  fold (vals v) in Hst. rewrite Hst. cbn [fst]. unfold b_same_config, same_config, b_with. cbn [b_ipsi b_contra u_with_dists u_mods u_dists u_maxt].
  split; [exact Hm|]. split; [|exact Hmt].
  rewrite Hmt in Ec. apply (dists_put_sim _ _ _ _ _ _ Hk Hs Ec Ei).
Qed.

(** * Histories *)
Lemma is_some_args_true o : is_some_args o = true -> o <> None.
Proof. destruct o; [discriminate | intros C; discriminate C]. Qed.

Lemma b_step_preserved b c : b_names_ok b = true -> b_consistent b -> b_call_ok b c -> snd (b_step b c) = true ->
  b_names_ok (fst (b_step b c)) = true /\ b_consistent (fst (b_step b c)).
Proof.
  intros Hok Hc Hcall Hret. destruct c as [s a kw|o]; cbn [b_step b_call_ok fst snd] in *.
  - apply is_some_args_true in Hret. destruct (bilateral_preserved s b a kw Hok Hc Hret) as (H1 & H2 & H3).
    split; [exact H1|]. split; [exact H2|]. apply H3. destruct (touches_dists s); [right; apply Hcall; reflexivity | left; reflexivity].
  - split.
    + apply (proj1 (cfg_wf o) b Hok Hc Hret Hcall).
    + apply (proj1 (cfg_preserves_all o) b Hc Hret).
Qed.
Lemma b_run_preserved cs : forall b, b_names_ok b = true -> b_consistent b -> b_run_ok b cs ->
  b_names_ok (b_run b cs) = true /\ b_consistent (b_run b cs).
Proof.
  induction cs as [|c r IH]; intros b Hok Hc Hrun; [split; assumption|].
  cbn [b_run_ok b_run] in *. destruct Hrun as (Hcall & Hret & Hr).
  destruct (b_step_preserved b c Hok Hc Hcall Hret) as [H1 H2]. apply (IH _ H1 H2 Hr).
Qed.
Theorem bilateral_history : C11_bilateral_history_stmt.
Proof.
  intros u symT symL cs Hu Hrun. destruct (fresh_consistent u Hu) as (Hb & _). destruct (Hb symT symL) as [H1 H2].
  apply (b_run_preserved cs _ H1 H2 Hrun).
Qed.

Lemma m_step_preserved m c : m_wf m = true -> m_consistent m -> m_call_ok m c -> snd (m_step m c) = true ->
  m_wf (fst (m_step m c)) = true /\ m_consistent (fst (m_step m c)).
Proof.
  intros Hok Hc Hcall Hret. destruct c as [s a kw|o]; cbn [m_step m_call_ok fst snd] in *.
  - apply is_some_args_true in Hret. destruct Hcall as [Hag Hndi].
    destruct (midline_preserved s m a kw Hok Hc Hndi Hret) as (H1 & H2 & H3).
    split; [exact H1|]. split; [exact H2|]. apply H3. destruct (touches_dists s); [right; apply Hag; reflexivity | left; reflexivity].
  - split.
    + apply (proj2 (cfg_wf o) m Hok Hc Hret Hcall).
    + apply (proj1 (proj2 (cfg_preserves_all o)) m Hc Hret).
Qed.
Lemma m_run_preserved cs : forall m, m_wf m = true -> m_consistent m -> m_run_ok m cs ->
  m_wf (m_run m cs) = true /\ m_consistent (m_run m cs).
Proof.
  induction cs as [|c r IH]; intros m Hok Hc Hrun; [split; assumption|].
  cbn [m_run_ok m_run] in *. destruct Hrun as (Hcall & Hret & Hr).
  destruct (m_step_preserved m c Hok Hc Hcall Hret) as [H1 H2]. apply (IH _ H1 H2 Hr).
Qed.
Theorem midline_history : C11_midline_history_stmt.
Proof.
  intros u mix cen evo unk symL cs Hu Hrun. destruct (fresh_consistent u Hu) as (_ & Hm & _).
  destruct (Hm mix cen evo unk symL) as [H1 H2]. apply (m_run_preserved cs _ H1 H2 Hrun).
Qed.
