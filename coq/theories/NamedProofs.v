(** NamedProofs: proofs of the C17 statements of Named.v.  The parameter plumbing
    enters only through the complete descriptions of [set_params] proved for C10
    ([uni_set_spec], [bi_set_spec]) and the name lists ([uni_names_nodup], [bi_names_nodup]). *)
From LymphModel Require Import Base States Linalg Graph Transition Observation Dist Unilateral Models
  Params ParamsStatements ParamsLemmas ParamsProofs ParamsBilateral Named.
From Coq Require Import Lia.
Local Open Scope nat_scope.
Local Open Scope string_scope.
Local Open Scope list_scope.

(** * does_contain_in_order *)
Lemma dcio_nil s : does_contain_in_order s [] = true.
Proof. destruct s; reflexivity. Qed.

Lemma dcio_tail_skip s :
  (forall y i, does_contain_in_order s (y :: i) = true -> does_contain_in_order s i = true)
  /\ (forall x i, does_contain_in_order s i = true -> does_contain_in_order (x :: s) i = true).
Proof.
  induction s as [|x0 s [IHt IHs]].
  - split.
    + intros y i H. cbn in H. discriminate.
    + intros x i H. destruct i as [|z i]; [reflexivity|]. cbn in H. discriminate.
  - assert (Ht : forall y i, does_contain_in_order (x0 :: s) (y :: i) = true -> does_contain_in_order (x0 :: s) i = true).
    { intros y i H. cbn [does_contain_in_order] in H. destruct (str_eqb x0 y).
      - apply IHs, H.
      - apply IHs, (IHt _ _ H). }
    split; [exact Ht|].
    intros x i H. destruct i as [|z i]; [reflexivity|].
    cbn [does_contain_in_order]. destruct (str_eqb x z) eqn:E.
    + fold (does_contain_in_order (x0 :: s) i). apply (Ht z), H.
    + exact H.
Qed.
Lemma dcio_skip x s i : does_contain_in_order s i = true -> does_contain_in_order (x :: s) i = true.
Proof. apply dcio_tail_skip. Qed.

Theorem does_contain_in_order_spec : C17_does_contain_in_order_spec_stmt.
Proof.
  intros s i. split.
  - revert i. induction s as [|x s IH]; intros i H.
    + destruct i; [constructor | cbn in H; discriminate].
    + destruct i as [|y i]; [constructor|]. cbn [does_contain_in_order] in H.
      destruct (str_eqb x y) eqn:E.
      * apply str_eqb_eq in E. subst. apply Subseq_take, IH, H.
      * apply Subseq_skip, IH, H.
  - intros H. induction H as [s | x i s H IH | x i s H IH].
    + apply dcio_nil.
    + cbn [does_contain_in_order]. rewrite str_eqb_refl. exact IH.
    + apply dcio_skip, IH.
Qed.

Lemma Subseq_length i s : Subseq i s -> length i <= length s.
Proof. induction 1; cbn [length]; lia. Qed.
Lemma Subseq_same_length i s : Subseq i s -> length i = length s -> i = s.
Proof.
  induction 1 as [s | x i s H IH | x i s H IH]; cbn [length]; intros Hl.
  - destruct s; [reflexivity | discriminate].
  - f_equal. apply IH. lia.
  - apply Subseq_length in H. lia.
Qed.
Lemma dcio_refl k : does_contain_in_order k k = true.
Proof. induction k as [|x k IH]; [reflexivity|]. cbn [does_contain_in_order]. rewrite str_eqb_refl. exact IH. Qed.
Lemma dcio_length k n : does_contain_in_order k n = true -> length n <= length k.
Proof. intros H. apply does_contain_in_order_spec in H. apply Subseq_length, H. Qed.
Lemma dcio_same_length k n : does_contain_in_order k n = true -> length n = length k -> n = k.
Proof. intros H. apply does_contain_in_order_spec in H. apply Subseq_same_length, H. Qed.

(** * memp *)
Lemma memp_In k l : memp k l = true <-> In k l.
Proof.
  unfold memp. rewrite existsb_exists. split.
  - intros (x & Hx & E). apply path_eqb_eq in E. subst. exact Hx.
  - intros H. exists k. split; [exact H | apply path_eqb_refl].
Qed.
Lemma memp_false k l : memp k l = false <-> ~ In k l.
Proof. rewrite <- memp_In. destruct (memp k l); split; congruence. Qed.
Lemma memp_cons k a l : memp k (a :: l) = path_eqb k a || memp k l.
Proof. reflexivity. Qed.

(** * the alias map *)
Definition alias_entry (all_params : list path) (n : path) : path * list path := (n, aliases_of all_params n).

Lemma kw_get_dict_of {A} (k : path) (l : list (path * A)) : kw_get k (dict_of l) = kw_last k l.
Proof. unfold dict_of, kw_last. rewrite kw_get_update. cbn [kw_get]. destruct (kw_get k (rev l)); reflexivity. Qed.

Lemma kw_get_alias_entries all n l :
  kw_get n (map (alias_entry all) l) = if memp n l then Some (aliases_of all n) else None.
Proof.
  induction l as [|a l IH]; [reflexivity|]. cbn [map alias_entry kw_get]. rewrite memp_cons.
  destruct (path_eqb n a) eqn:E; cbn [orb].
  - apply path_eqb_eq in E. subst. reflexivity.
  - exact IH.
Qed.

Lemma create_alias_map_NoDup all named : NoDup named -> create_alias_map all named = map (alias_entry all) named.
Proof.
  intros H. unfold create_alias_map. apply dict_of_NoDup_id. rewrite map_map. cbn [fst]. rewrite map_id. exact H.
Qed.

Lemma in_aliases_of all n p : In p (aliases_of all n) <-> In p all /\ does_contain_in_order p n = true.
Proof. unfold aliases_of. rewrite filter_In. reflexivity. Qed.

Theorem alias_map_spec : C17_alias_map_spec_stmt.
Proof.
  intros all named. split; [apply dict_of_NoDup|]. split; [|split; [|split]].
  - intros H. rewrite create_alias_map_NoDup by exact H. rewrite map_map. cbn [alias_entry fst]. apply map_id.
  - intros n. unfold create_alias_map. rewrite kw_get_dict_of. unfold kw_last. rewrite <- map_rev.
    change (fun n0 => (n0, aliases_of all n0)) with (alias_entry all). rewrite kw_get_alias_entries.
    destruct (memp n (rev named)) eqn:E1, (memp n named) eqn:E2; try reflexivity.
    + apply memp_In in E1. apply in_rev in E1. apply memp_In in E1. congruence.
    + apply memp_In in E2. apply in_rev in E2. apply memp_In in E2. congruence.
  - intros n p. rewrite in_aliases_of. rewrite (does_contain_in_order_spec p n). reflexivity.
  - intros n. eexists. reflexivity.
Qed.

Theorem reverse_alias_map_spec : C17_reverse_alias_map_spec_stmt.
Proof.
  intros aliases p n H. unfold reverse_alias_map in H. rewrite kw_get_dict_of in H. unfold kw_last in H.
  apply kw_get_Some_In in H. apply in_rev in H. apply in_flat_map in H. destruct H as ([n' l] & Hin & H).
  cbn [fst snd] in H. apply in_map_iff in H. destruct H as (a & E & Ha). injection E as -> ->.
  exists l. split; assumption.
Qed.

(** * the value a declared name receives *)
Lemma combine_keys_In {A B} (l : list A) (a : list B) x : In x (map fst (combine l a)) -> In x l.
Proof. intros H. apply in_map_iff in H. destruct H as ([x' y] & <- & H). apply in_combine_l in H. exact H. Qed.
Lemma combine_keys_NoDup {A B} (l : list A) (a : list B) : NoDup l -> NoDup (map fst (combine l a)).
Proof.
  revert a. induction l as [|x l IH]; intros a H; [constructor|]. destruct a as [|y a]; [constructor|].
  cbn [combine map fst]. inversion H as [|? ? Hni Hnd]; subst. constructor.
  - intros Hin. apply Hni. apply (combine_keys_In _ _ _ Hin).
  - apply IH, Hnd.
Qed.
Lemma nth_error_combine {A B} (l : list A) (a : list B) i x y :
  nth_error l i = Some x -> nth_error a i = Some y -> In (x, y) (combine l a).
Proof.
  revert l a. induction i as [|i IH]; intros [|x' l] [|y' a]; cbn; try discriminate.
  - intros [= ->] [= ->]. left. reflexivity.
  - intros H1 H2. right. apply IH; assumption.
Qed.

Theorem assigned_positional : C17_assigned_positional_stmt.
Proof.
  intros named a kw i n v Hnd Hn Hv. unfold assigned. destruct (kw_last n kw); [reflexivity|].
  rewrite kw_last_NoDup by (apply combine_keys_NoDup, Hnd).
  apply kw_get_NoDup_In; [apply combine_keys_NoDup, Hnd | apply (nth_error_combine _ _ i); assumption].
Qed.

Lemma kw_last_Some_key {A} k (kw : list (path * A)) v : kw_last k kw = Some v -> In k (map fst kw).
Proof.
  unfold kw_last. intros H. apply kw_get_Some_In in H. apply in_rev in H.
  apply in_map_iff. exists (k, v). split; [reflexivity | exact H].
Qed.
Theorem assigned_none : C17_assigned_none_stmt.
Proof.
  intros named a kw n H. unfold assigned in H. destruct (kw_last n kw) eqn:E1.
  - right. apply (kw_last_Some_key _ _ _ E1).
  - destruct (kw_last n (combine named a)) eqn:E2; [|congruence].
    left. apply kw_last_Some_key in E2. apply (combine_keys_In _ _ _ E2).
Qed.

Lemma named_kwargs_NoDup named a kw : NoDup (map fst (named_kwargs named a kw)).
Proof. unfold named_kwargs. apply kw_update_NoDup, dict_of_NoDup. Qed.
Lemma named_kwargs_last named a kw c : kw_last c (named_kwargs named a kw) = assigned named a kw c.
Proof.
  rewrite kw_last_NoDup by apply named_kwargs_NoDup. unfold named_kwargs, assigned.
  rewrite kw_get_update. fold (kw_last c kw). rewrite kw_get_dict_of. reflexivity.
Qed.

(** * first_some *)
Lemma first_some_ext {A B} (f g : A -> option B) l : (forall a, In a l -> f a = g a) -> first_some f l = first_some g l.
Proof.
  induction l as [|a l IH]; intros H; [reflexivity|]. cbn [first_some]. rewrite (H a) by (left; reflexivity).
  destruct (g a); [reflexivity|]. apply IH. intros a' Ha'. apply H. right. exact Ha'.
Qed.
Lemma first_some_app {A B} (f : A -> option B) l1 l2 :
  first_some f (l1 ++ l2) = match first_some f l1 with Some v => Some v | None => first_some f l2 end.
Proof. induction l1 as [|a l1 IH]; [reflexivity|]. cbn [app first_some]. destruct (f a); [reflexivity | exact IH]. Qed.
Lemma first_some_None {A B} (f : A -> option B) l : (forall a, In a l -> f a = None) -> first_some f l = None.
Proof.
  induction l as [|a l IH]; intros H; [reflexivity|]. cbn [first_some]. rewrite (H a) by (left; reflexivity).
  apply IH. intros a' Ha'. apply H. right. exact Ha'.
Qed.
Lemma first_some_split {A B} (f : A -> option B) l v :
  first_some f l = Some v -> exists l1 w l2, l = l1 ++ w :: l2 /\ f w = Some v /\ forall c, In c l1 -> f c = None.
Proof.
  induction l as [|a l IH]; cbn [first_some]; [discriminate|]. destruct (f a) eqn:E.
  - intros [= ->]. exists [], a, l. repeat split; [exact E | intros c []].
  - intros H. destruct (IH H) as (l1 & w & l2 & -> & Hw & Hl1). exists (a :: l1), w, l2. repeat split; [exact Hw|].
    intros c [<-|Hc]; [exact E | apply Hl1, Hc].
Qed.
Lemma first_some_exists {A B} (f : A -> option B) l a : In a l -> f a <> None -> exists v, first_some f l = Some v.
Proof.
  induction l as [|a' l IH]; intros Hin Hf; [destruct Hin|]. cbn [first_some]. destruct (f a') eqn:E; [eauto|].
  destruct Hin as [->|Hin]; [congruence|]. apply IH; assumption.
Qed.

(** * the keywords set_params looks up *)
Lemma opt_eta {A} (o : option A) : match o with Some v => Some v | None => None end = o.
Proof. destruct o; reflexivity. Qed.
Lemma u_lk_cands kw k : u_lk kw k = first_some (fun c => kw_last c kw) (u_cands k).
Proof. destruct k as [|o t]; [reflexivity|]. cbn [u_lk u_cands first_some]. rewrite opt_eta. reflexivity. Qed.
Lemma eff_cands_spec X kw name t : eff X kw name t = first_some (fun c => kw_last c kw) (eff_cands X name t).
Proof.
  unfold eff, eff_cands. cbn [first_some]. destruct (kw_last (name :: t) kw); [reflexivity|].
  destruct (mem (head_of t) X); cbn [first_some]; [reflexivity | rewrite opt_eta; reflexivity].
Qed.
Lemma side_lk_cands side kw k : side_lk side kw k = first_some (fun c => kw_last c kw) (side_cands side k).
Proof.
  destruct k as [|o t]; [reflexivity|]. cbn [side_lk side_cands]. rewrite first_some_app, <- !eff_cands_spec. reflexivity.
Qed.
Lemma b_lk_cands kw k : b_lk kw k = first_some (fun c => kw_last c kw) (b_cands k).
Proof.
  destruct k as [|h t]; [reflexivity|]. cbn [b_lk b_cands].
  destruct (String.eqb h "ipsi"); [apply side_lk_cands|]. destruct (String.eqb h "contra"); apply side_lk_cands.
Qed.

Fixpoint desc_len (l : list path) : Prop :=
  match l with [] => True | a :: r => (forall b, In b r -> length b <= length a) /\ desc_len r end.
Lemma desc_len_app l1 w l2 : desc_len (l1 ++ w :: l2) -> forall b, In b l2 -> length b <= length w.
Proof. induction l1 as [|a l1 IH]; cbn [app desc_len]; intros [H1 H2]; [exact H1 | apply IH, H2]. Qed.
Lemma u_cands_desc k : desc_len (u_cands k).
Proof.
  destruct k as [|o t]; cbn [u_cands desc_len]; [exact I|]. repeat split.
  - intros b [<-|[]]. cbn [length]. lia.
  - intros b [].
Qed.
Lemma side_cands_desc side k : desc_len (side_cands side k).
Proof.
  destruct k as [|o t]; cbn [side_cands]; [exact I|]. unfold eff_cands.
  destruct (mem (head_of (o :: t)) sides), (mem (head_of t) sides); cbn [app desc_len In length];
    repeat split; intros b Hb; repeat (destruct Hb as [<-|Hb]; [cbn [length]; lia|]); destruct Hb.
Qed.
Lemma b_cands_desc k : desc_len (b_cands k).
Proof.
  destruct k as [|h t]; [exact I|]. cbn [b_cands].
  destruct (String.eqb h "ipsi"); [apply side_cands_desc|]. destruct (String.eqb h "contra"); apply side_cands_desc.
Qed.
Lemma cands_desc m k : desc_len (cands m k).
Proof. destruct m; cbn [cands]; [apply u_cands_desc | apply b_cands_desc | exact I | exact I]. Qed.

(** * keyword semantics of set_params( **kw), per class *)
Definition kw_sem (cnd : path -> list path) (its its' : list (path * Qc)) (np : kwargs) : Prop :=
  map fst its' = map fst its /\
  forall k old, In (k, old) its ->
    match first_some (fun c => kw_last c np) (cnd k) with
    | Some v => exists q, v = V q /\ kw_get k its' = Some q
    | None => kw_get k its' = Some old
    end.

Lemma plan_nil_In lk ps : forall qs k old, plan lk ps [] = vals qs -> In (k, old) ps ->
  exists q, In (k, q) (combine (map fst ps) qs) /\ V q = pick (lk k) None old.
Proof.
  induction ps as [|[k0 old0] ps IH]; intros qs k old Hp Hin; [destruct Hin|].
  cbn [plan hd_error tl] in Hp. destruct qs as [|q0 qs]; [discriminate|]. cbn [vals map] in Hp.
  injection Hp as Hq Hp. cbn [map fst combine]. destruct Hin as [E|Hin].
  - injection E as -> ->. exists q0. split; [left; reflexivity | symmetry; exact Hq].
  - destruct (IH qs k old Hp Hin) as (q & H1 & H2). exists q. split; [right; exact H1 | exact H2].
Qed.

Lemma kw_sem_of_plan cnd lk (its order : list (path * Qc)) its' kw qs :
  (forall k, lk k = first_some (fun c => kw_last c kw) (cnd k)) ->
  (forall x, In x its -> In x order) ->
  plan lk order [] = vals qs ->
  map fst its' = map fst its ->
  (forall k q, In (k, q) (combine (map fst order) qs) -> kw_get k its' = Some q) ->
  kw_sem cnd its its' kw.
Proof.
  intros Hlk Hsub Hplan Hnames Hget. split; [exact Hnames|]. intros k old Hin.
  destruct (plan_nil_In lk order qs k old Hplan (Hsub _ Hin)) as (q & Hq & Hv).
  rewrite <- Hlk. unfold pick, val_or in Hv. destruct (lk k) as [v|].
  - exists q. split; [symmetry; exact Hv | apply Hget, Hq].
  - injection Hv as ->. apply Hget, Hq.
Qed.

Lemma u_kw_sem u kw u' rest : u_names_ok u = true -> u_set_params u [] kw = (u', Some rest) ->
  kw_sem u_cands (u_got u) (u_got u') kw /\ u_names_ok u' = true.
Proof.
  intros H Hset. pose proof (uni_set_spec u [] kw H) as Hs. cbv zeta in Hs. rewrite Hset in Hs. cbn [fst snd] in Hs.
  destruct (u_accepts u (u_new u [] kw)); [|discriminate]. destruct Hs as (qs & Hq & _ & Hgot & Hok & _).
  split; [|exact Hok]. rewrite (u_got_spec u H).
  assert (Hlen : length (u_names u) = length qs).
  { apply (f_equal (@length _)) in Hq. unfold u_new in Hq. rewrite plan_length, vals_length in Hq. unfold u_names. rewrite map_length. exact Hq. }
  apply (kw_sem_of_plan u_cands (u_lk kw) (u_items u) (u_items u) _ kw qs).
  - intros k. apply u_lk_cands.
  - auto.
  - exact Hq.
  - rewrite Hgot. apply map_fst_combine, Hlen.
  - intros k q Hin. rewrite Hgot. apply kw_get_NoDup_In; [|exact Hin].
    rewrite map_fst_combine by exact Hlen. apply u_names_NoDup, H.
Qed.

Lemma b_items_set_order b x : In x (b_items b) -> In x (b_set_order b).
Proof.
  unfold b_set_order, b_items. cbv zeta. destruct (b_symT b), (b_symL b); try (intros H; exact H).
  rewrite !pre_app, !in_app_iff. tauto.
Qed.

Lemma b_kw_sem b kw b' rest : b_names_ok b = true -> b_set_params b [] kw = (b', Some rest) ->
  kw_sem b_cands (b_got b) (b_got b') kw /\ b_names_ok b' = true.
Proof.
  intros H Hset. pose proof (bi_set_spec b [] kw H) as Hs. cbv zeta in Hs. rewrite Hset in Hs. cbn [fst snd] in Hs.
  destruct (b_accepts b [] kw); [|discriminate]. destruct Hs as (qs & Hq & _ & Hnames & Hget & Hok).
  split; [|exact Hok]. destruct (bi_names_nodup b H) as [Hgot _]. rewrite Hgot.
  apply (kw_sem_of_plan b_cands (b_lk kw) (b_items b) (b_set_order b) _ kw qs).
  - intros k. apply b_lk_cands.
  - apply b_items_set_order.
  - exact Hq.
  - exact Hnames.
  - exact Hget.
Qed.

Lemma model_kw_sem m kw m' rest its : covered m = true -> param_items m = Some its ->
  set_params m [] kw = (m', Some rest) ->
  covered m' = true /\ exists its', param_items m' = Some its' /\ kw_sem (cands m) its its' kw.
Proof.
  intros Hc Hits Hset. destruct m as [u|b|ml|h]; cbn [covered] in Hc; try discriminate.
  - cbn [set_params] in Hset. destruct (u_set_params u [] kw) as [u' o] eqn:E. injection Hset as <- ->.
    destruct (u_kw_sem u kw u' rest Hc E) as [Hsem Hok]. split; [exact Hok|].
    exists (u_got u'). split; [reflexivity|]. cbn in Hits. injection Hits as <-. exact Hsem.
  - cbn [set_params] in Hset. destruct (b_set_params b [] kw) as [b' o] eqn:E. injection Hset as <- ->.
    destruct (b_kw_sem b kw b' rest Hc E) as [Hsem Hok]. split; [exact Hok|].
    exists (b_got b'). split; [reflexivity|]. cbn in Hits. injection Hits as <-. exact Hsem.
Qed.

(** * set_named_params *)
Lemma param_names_items m its : param_items m = Some its -> param_names m = Some (map fst its).
Proof. intros H. unfold param_names. rewrite H. reflexivity. Qed.

Lemma set_named_inv m named a kw s' its :
  param_items m = Some its ->
  set_named_params (mk_nstate m (Some named)) a kw = (s', inr tt) ->
  forallb (fun k => memp k named) (map fst kw) = true /\
  exists m' rest, set_params m [] (named_kwargs named a kw) = (m', Some rest) /\ s' = mk_nstate m' (Some named).
Proof.
  intros Hits H. unfold set_named_params, named_params in H. cbn [ns_model ns_named mk_nstate] in H.
  rewrite (param_names_items m its Hits) in H.
  destruct (forallb (fun k => memp k named) (map fst kw)); [|discriminate]. split; [reflexivity|].
  destruct (set_params m [] (named_kwargs named a kw)) as [m' o] eqn:E. cbn [fst snd] in H.
  destruct o as [rest|]; [|discriminate]. injection H as <-. exists m', rest. split; reflexivity.
Qed.

Theorem set_named_spec : C17_set_named_spec_stmt.
Proof.
  intros m named a kw s' its Hc Hits H.
  destruct (set_named_inv m named a kw s' its Hits H) as (_ & m' & rest & Hset & ->). cbn [ns_named ns_model mk_nstate].
  destruct (model_kw_sem m _ m' rest its Hc Hits Hset) as (Hc' & its' & Hits' & Hn & Hsem).
  split; [reflexivity|]. split; [exact Hc'|]. exists its'. split; [exact Hits'|]. split; [exact Hn|].
  intros k old Hin. specialize (Hsem k old Hin).
  rewrite (first_some_ext (fun c => kw_last c (named_kwargs named a kw)) (assigned named a kw)) in Hsem
    by (intros c _; apply named_kwargs_last).
  exact Hsem.
Qed.

Lemma names_consistent_spec m names named : names_consistent m names named = true ->
  forall n k, In n named -> In k names -> does_contain_in_order k n = memp n (cands m k).
Proof.
  unfold names_consistent. intros H n k Hn Hk. rewrite forallb_forall in H. specialize (H n Hn).
  rewrite forallb_forall in H. specialize (H k Hk). apply Bool.eqb_prop in H. exact H.
Qed.

Lemma assigned_declared named a kw c :
  forallb (fun k => memp k named) (map fst kw) = true -> assigned named a kw c <> None -> In c named.
Proof.
  intros Hf H. destruct (assigned_none named a kw c H) as [Hin|Hin]; [exact Hin|].
  rewrite forallb_forall in Hf. apply memp_In, Hf, Hin.
Qed.

Theorem set_named_positional : C17_set_named_positional_stmt.
Proof.
  intros m named a kw s' its Hc Hits Hcons H.
  destruct (set_named_inv m named a kw s' its Hits H) as (Hf & _).
  destruct (set_named_spec m named a kw s' its Hc Hits H) as (Hn & _ & its' & Hits' & Hnames & Hsem).
  split; [exact Hn|]. exists its'. split; [exact Hits'|]. split; [exact Hnames|].
  intros k old Hin. specialize (Hsem k old Hin).
  assert (Hk : In k (map fst its)) by (apply in_map_iff; exists (k, old); split; [reflexivity | exact Hin]).
  pose proof (names_consistent_spec m _ _ Hcons) as Hcs.
  split.
  - intros Hnone. rewrite first_some_None in Hsem; [exact Hsem|].
    intros c Hcin. destruct (assigned named a kw c) eqn:E; [|reflexivity]. exfalso.
    assert (Hd : In c named) by (apply (assigned_declared named a kw c Hf); congruence).
    assert (Hm : does_contain_in_order k c = true) by (rewrite (Hcs c k Hd Hk); apply memp_In, Hcin).
    rewrite (Hnone c Hd Hm) in E. discriminate.
  - intros n Hnd Hm Ha.
    assert (Hnc : In n (cands m k)) by (apply memp_In; rewrite <- (Hcs n k Hnd Hk); exact Hm).
    destruct (first_some_exists (assigned named a kw) _ n Hnc Ha) as (v & Hv). rewrite Hv in Hsem.
    destruct Hsem as (q & -> & Hget).
    destruct (first_some_split _ _ _ Hv) as (l1 & w & l2 & Hl & Hw & Hl1).
    assert (Hwd : In w named) by (apply (assigned_declared named a kw w Hf); congruence).
    assert (Hwc : In w (cands m k)) by (rewrite Hl; apply in_or_app; right; left; reflexivity).
    exists w, q. split; [exact Hwd|]. split; [rewrite (Hcs w k Hwd Hk); apply memp_In, Hwc|].
    split; [exact Hw|]. split; [exact Hget|].
    intros n' Hn'd Hn'm Hn'a.
    assert (Hn'c : In n' (cands m k)) by (apply memp_In; rewrite <- (Hcs n' k Hn'd Hk); exact Hn'm).
    rewrite Hl in Hn'c. apply in_app_or in Hn'c. destruct Hn'c as [Hin1|[<-|Hin2]].
    + exfalso. apply Hn'a, Hl1, Hin1.
    + lia.
    + pose proof (cands_desc m k) as Hd. rewrite Hl in Hd. apply (desc_len_app _ _ _ Hd _ Hin2).
Qed.

Lemma first_some_single n v l :
  first_some (fun c : path => if path_eqb c n then Some v else @None val) l = if memp n l then Some v else None.
Proof.
  induction l as [|c l IH]; [reflexivity|]. cbn [first_some]. rewrite memp_cons, (path_eqb_sym n c).
  destruct (path_eqb c n); [reflexivity | exact IH].
Qed.
Lemma assigned_single n v c : assigned [n] [v] [] c = if path_eqb c n then Some v else None.
Proof. reflexivity. Qed.

Theorem global_name_addresses_all_matches : C17_global_name_addresses_all_matches_stmt.
Proof.
  intros m n v s' its Hc Hits Hcons (k0 & Hk0 & Hm0) H.
  destruct (set_named_spec m [n] [v] [] s' its Hc Hits H) as (_ & _ & its' & Hits' & Hnames & Hsem).
  pose proof (names_consistent_spec m _ _ Hcons) as Hcs.
  assert (Hfs : forall k, In k (map fst its) ->
            first_some (assigned [n] [v] []) (cands m k) = if does_contain_in_order k n then Some v else None).
  { intros k Hk. rewrite (first_some_ext _ (fun c => if path_eqb c n then Some v else None)) by (intros; apply assigned_single).
    rewrite first_some_single, (Hcs n k (or_introl eq_refl) Hk). reflexivity. }
  assert (Hq : exists q, v = V q).
  { apply in_map_iff in Hk0. destruct Hk0 as ([k0' old0] & <- & Hin0). specialize (Hsem _ _ Hin0).
    rewrite Hfs in Hsem by (apply in_map_iff; exists (k0', old0); split; [reflexivity | exact Hin0]).
    cbn [fst] in Hm0. rewrite Hm0 in Hsem. destruct Hsem as (q & -> & _). eauto. }
  destruct Hq as (q & ->). exists q, its'. split; [reflexivity|]. split; [exact Hits'|]. split; [exact Hnames|].
  intros k old Hin. specialize (Hsem _ _ Hin).
  rewrite Hfs in Hsem by (apply in_map_iff; exists (k, old); split; [reflexivity | exact Hin]).
  destruct (does_contain_in_order k n); [|exact Hsem]. destruct Hsem as (q' & [= <-] & Hget). exact Hget.
Qed.

(** * ExtraParamsError vs ValueError *)
Theorem extra_keyword_raises : C17_extra_keyword_raises_stmt.
Proof.
  intros s a kw names k Hnp Hin Hni.
  assert (E : forallb (fun k => memp k names) (map fst kw) = false).
  { destruct (forallb (fun k => memp k names) (map fst kw)) eqn:E; [|reflexivity]. exfalso.
    rewrite forallb_forall in E. apply Hni, memp_In, E, Hin. }
  assert (H1 : forall a', set_named_params s a' kw = (s, inl ExtraParamsError)).
  { intros a'. unfold set_named_params. rewrite Hnp, E. reflexivity. }
  split; [apply H1|]. split; [apply H1|]. split; [|discriminate].
  unfold likelihood_outcome, safe_set_params. rewrite H1. reflexivity.
Qed.

Theorem value_error_is_minus_inf : C17_value_error_is_minus_inf_stmt.
Proof. intros s g s' H. unfold likelihood_outcome. rewrite H. reflexivity. Qed.
